import Pendulum.Proofs.IsoRsStd
import Pendulum.Proofs.IsoDurRs
import Pendulum.Proofs.GenTie
/-! Tie between the regenerated compiled duration parser (`Gen/IsoRs.lean`: `parse_duration`, `parse_duration_number(_frac)`,
`ParsedDuration::add_fraction`, `fraction_to_microseconds`) and the hand model `Model/IsoDur.lean` (`lexGo`, `rsStep`, `rsFold`). -/
namespace Pendulum.IsoRsGen
open Pendulum Pendulum.RsStd Pendulum.Gen.IsoRs Pendulum.IsoDur Pendulum.GenTie
set_option linter.unusedSimpArgs false

theorem zero_le_char (c : Char) : ('0' ≤ c) ↔ 48 ≤ c.toNat := by
  rw [Char.le_def, UInt32.le_iff_toNat_le]; exact Iff.rfl
theorem char_le_nine (c : Char) : (c ≤ '9') ↔ c.toNat ≤ 57 := by
  rw [Char.le_def, UInt32.le_iff_toNat_le]; exact Iff.rfl

theorem digitVal_eq (c : Char) : digitVal c = if isAsciiDigit c then some (c.toNat - 48) else none := by
  unfold digitVal isAsciiDigit
  simp [zero_le_char, char_le_nine]

/-- value of a digit string appended to an accumulator -/
def valOf (acc : Nat) (ds : List Char) : Nat := ds.foldl (fun a c => 10 * a + dval c) acc

theorem valOf_ge (ds : List Char) : ∀ acc, acc ≤ valOf acc ds := by
  induction ds with
  | nil => intro acc; exact Nat.le_refl _
  | cons d ds ih => intro acc; have := ih (10 * acc + dval d); simp only [valOf, List.foldl_cons] at *; omega

/-- `parse_duration_number`'s loop: accumulates the remaining digits with checked u64 arithmetic -/
theorem number_loop (fuel : Nat) (rest : List Char) : ∀ (n : Nat) (pre : List Char) (c : Char) (dg : Int) (value : Nat),
    rest.length + 1 ≤ n → value < 2 ^ 64 →
    (valOf value (digs rest) < 2 ^ 64 →
      Parser.parse_duration_number_loop1 fuel n dg (stAt pre (c :: rest)) value =
        .ok (stAt (pre ++ c :: digs rest) (afterDigs rest), valOf value (digs rest))) ∧
    (¬ valOf value (digs rest) < 2 ^ 64 →
      ∃ e, Parser.parse_duration_number_loop1 fuel n dg (stAt pre (c :: rest)) value = .error (.fail e)) := by
  gen_tie "Pendulum.IsoRsGen.number_loop" "rust/src/parsing.rs (duration parser)" =>
    induction rest with
    | nil =>
      intro n pre c dg value hn hval
      obtain ⟨n, rfl⟩ : ∃ m, n = m + 1 := ⟨n - 1, by omega⟩
      simp [Parser.parse_duration_number_loop1, inc_cons, digs, afterDigs, valOf, hval]
    | cons d ds ih =>
      intro n pre c dg value hn hval
      obtain ⟨n, rfl⟩ : ∃ m, n = m + 1 := ⟨n - 1, by simp at hn; omega⟩
      by_cases hd : isAsciiDigit d = true
      · have hdigs : digs (d :: ds) = d :: digs ds := by simp [digs, List.takeWhile, hd]
        have hafter : afterDigs (d :: ds) = afterDigs ds := by simp [afterDigs, List.dropWhile, hd]
        have hv : valOf value (d :: digs ds) = valOf (10 * value + dval d) (digs ds) := by simp [valOf]
        have hge := valOf_ge (digs ds) (10 * value + dval d)
        rw [hdigs, hafter, hv]
        by_cases hov : 10 * value + dval d < 2 ^ 64
        · have ih' := ih n (pre ++ [c]) d (((d.toNat - 48 : Nat) : Int)) (10 * value + dval d) (by simp at hn; omega) hov
          have h1 : value * 10 < 2 ^ 64 := by omega
          simp only [Parser.parse_duration_number_loop1, inc_cons, List.head?_cons, Option.bind_some, toDigit10_eq, hd, if_true,
            checkedMul64, checkedAdd64, h1, Int.toNat_natCast, dval] at ih' ⊢
          have h2 : value * 10 + (d.toNat - 48) < 2 ^ 64 := by simp only [dval] at hov; omega
          simp only [h2, if_true, Option.bind_some]
          have e : value * 10 + (d.toNat - 48) = 10 * value + (d.toNat - 48) := by omega
          rw [e]
          simpa [List.append_assoc] using ih'
        · refine ⟨fun h => absurd (by omega) hov, fun _ => ?_⟩
          simp only [Parser.parse_duration_number_loop1, inc_cons, List.head?_cons, Option.bind_some, toDigit10_eq, hd, if_true,
            checkedMul64, checkedAdd64, Int.toNat_natCast]
          by_cases h1 : value * 10 < 2 ^ 64
          · have h2 : ¬ value * 10 + (d.toNat - 48) < 2 ^ 64 := by simp only [dval] at hov; omega
            simp [h1, h2]
          · simp [h1]
      · have hd' : isAsciiDigit d = false := by simpa using hd
        have hdigs : digs (d :: ds) = [] := by simp [digs, List.takeWhile, hd']
        have hafter : afterDigs (d :: ds) = d :: ds := by simp [afterDigs, List.dropWhile, hd']
        rw [hdigs, hafter]
        simp [Parser.parse_duration_number_loop1, inc_cons, toDigit10_eq, hd', valOf, hval]


/-- `parse_duration_number` -/
theorem number_spec (fuel : Nat) (pre rest : List Char) (hf : rest.length + 1 ≤ fuel) :
    (digs rest = [] → ∃ e, Parser.parse_duration_number fuel (stAt pre rest) = .error (.fail e)) ∧
    (digs rest ≠ [] → valOf 0 (digs rest) < 2 ^ 64 →
      Parser.parse_duration_number fuel (stAt pre rest) = .ok (valOf 0 (digs rest), stAt (pre ++ digs rest) (afterDigs rest))) ∧
    (digs rest ≠ [] → ¬ valOf 0 (digs rest) < 2 ^ 64 → ∃ e, Parser.parse_duration_number fuel (stAt pre rest) = .error (.fail e)) := by
  gen_tie "Pendulum.IsoRsGen.number_spec" "rust/src/parsing.rs (duration parser)" =>
    cases rest with
    | nil => simp [Parser.parse_duration_number, toDigit10_eq, digs]
    | cons c r =>
      by_cases hc : isAsciiDigit c = true
      · have hl := number_loop fuel r fuel pre c (((c.toNat - 48 : Nat) : Int)) (c.toNat - 48) (by simp at hf; omega)
          (by have := dval_lt c hc; simp [dval] at this; omega)
        rw [digs_cons_pos c r hc, afterDigs_cons_pos c r hc]
        have hv : valOf 0 (c :: digs r) = valOf (c.toNat - 48) (digs r) := by simp [valOf, dval]
        rw [hv]
        refine ⟨fun h => by simp at h, fun _ h => ?_, fun _ h => ?_⟩
        · simp [Parser.parse_duration_number, toDigit10_eq, hc, hl.1 h]
        · obtain ⟨e, he⟩ := hl.2 h
          exact ⟨e, by simp [Parser.parse_duration_number, toDigit10_eq, hc, he]⟩
      · have hc' : isAsciiDigit c = false := by simpa using hc
        rw [digs_cons_neg c r hc']
        simp [Parser.parse_duration_number, toDigit10_eq, hc']

/-- the loop of `parse_duration_number_frac` skips the digits after the separator -/
theorem frac_loop (fuel : Nat) (rest : List Char) : ∀ (n : Nat) (pre : List Char) (c : Char), rest.length + 1 ≤ n →
    Parser.parse_duration_number_frac_loop1 fuel n (stAt pre (c :: rest)) = .ok (stAt (pre ++ c :: digs rest) (afterDigs rest)) := by
  gen_tie "Pendulum.IsoRsGen.frac_loop" "rust/src/parsing.rs (duration parser)" =>
    induction rest with
    | nil =>
      intro n pre c hn
      obtain ⟨n, rfl⟩ : ∃ m, n = m + 1 := ⟨n - 1, by omega⟩
      simp [Parser.parse_duration_number_frac_loop1, inc_cons, digs, afterDigs]
    | cons d ds ih =>
      intro n pre c hn
      obtain ⟨n, rfl⟩ : ∃ m, n = m + 1 := ⟨n - 1, by simp at hn; omega⟩
      by_cases hd : isAsciiDigit d = true
      · rw [digs_cons_pos d ds hd, afterDigs_cons_pos d ds hd]
        have := ih n (pre ++ [c]) d (by simp at hn; omega)
        simp [Parser.parse_duration_number_frac_loop1, inc_cons, hd, this]
      · have hd' : isAsciiDigit d = false := by simpa using hd
        rw [digs_cons_neg d ds hd', afterDigs_cons_neg d ds hd']
        simp [Parser.parse_duration_number_frac_loop1, inc_cons, hd']

/-! bytes -/
theorem asBytes_append (a b : List Char) : asBytes (a ++ b) = asBytes a ++ asBytes b := by
  induction a with
  | nil => simp [asBytes]
  | cons c cs ih => simp [asBytes, ih]

theorem length_asBytes (a : List Char) : (asBytes a).length = ulen a := by
  induction a with
  | nil => simp [asBytes, ulen]
  | cons c cs ih => simp [asBytes, ulen, ih, String.length_utf8EncodeChar]

theorem utf8Size_ascii (c : Char) (h : c.toNat < 128) : c.utf8Size = 1 := by
  have : c.val.toNat < 128 := h
  simp [Char.utf8Size]
  intro h2
  exfalso
  rw [UInt32.lt_iff_toNat_lt] at h2
  simp at h2
  omega

theorem encode_ascii (c : Char) (h : c.toNat < 128) :
    (String.utf8EncodeChar c).map (fun b => (b.toNat : Int)) = [(c.toNat : Int)] := by
  have h1 : c.val.toNat ≤ 127 := by have : c.val.toNat < 128 := h; omega
  have : String.utf8EncodeChar c = [UInt8.ofNat c.toNat] := by
    unfold String.utf8EncodeChar
    simp only [h1, if_true]
    rfl
  rw [this]
  simp
  omega

theorem asBytes_digits (ds : List Char) (h : ∀ d ∈ ds, isAsciiDigit d = true) :
    asBytes ds = ds.map (fun d => (d.toNat : Int)) ∧ ulen ds = ds.length := by
  induction ds with
  | nil => simp [asBytes, ulen]
  | cons d ds ih =>
    have hd := h d (by simp)
    have hlt : d.toNat < 128 := by simp [isAsciiDigit] at hd; omega
    obtain ⟨i1, i2⟩ := ih (fun x hx => h x (by simp [hx]))
    refine ⟨?_, by simp [ulen, utf8Size_ascii d hlt, i2]; omega⟩
    simp only [asBytes, encode_ascii d hlt, i1]
    simp

/-- the fraction digits as the slice `src.as_bytes()[start..idx]` -/
theorem slice_fraction (pre : List Char) (c : Char) (ds rest : List Char) (hc : c.toNat < 128)
    (hds : ∀ d ∈ ds, isAsciiDigit d = true) :
    sliceBytes (asBytes (pre ++ c :: ds ++ rest)) (((ulen pre : Nat) : Int) + 1) ((ulen (pre ++ c :: ds) : Nat) : Int) =
      ds.map (fun d => (d.toNat : Int)) := by
  obtain ⟨hb, hl⟩ := asBytes_digits ds hds
  have e1 : (((ulen pre : Nat) : Int) + 1).toNat = ulen pre + 1 := by omega
  have e2 : (((ulen (pre ++ c :: ds) : Nat) : Int)).toNat - (ulen pre + 1) = ds.length := by
    simp [ulen_append, ulen, utf8Size_ascii c hc, hl]; omega
  unfold sliceBytes
  rw [e1, e2]
  have : asBytes (pre ++ c :: ds ++ rest) = (asBytes pre ++ asBytes [c]) ++ (asBytes ds ++ asBytes rest) := by
    have : pre ++ c :: ds ++ rest = (pre ++ [c]) ++ (ds ++ rest) := by simp
    rw [this, asBytes_append, asBytes_append, asBytes_append]
  rw [this]
  have hlen : (asBytes pre ++ asBytes [c]).length = ulen pre + 1 := by
    simp [length_asBytes, ulen, utf8Size_ascii c hc]
  rw [List.drop_left' hlen]
  rw [List.take_left' (by simp [hb])]
  exact hb


def isSep (c : Char) : Bool := c == '.' || c == ','

theorem isSep_ascii (c : Char) (h : isSep c = true) : c.toNat < 128 := by
  simp [isSep] at h; rcases h with h | h <;> subst h <;> decide

def bytesOf (ds : List Char) : List Int := ds.map (fun d => (d.toNat : Int))

/-- `parse_duration_number_frac` -/
theorem number_frac_spec (fuel : Nat) (pre rest : List Char) (hf : rest.length + 1 ≤ fuel) :
    (digs rest = [] → ∃ e, Parser.parse_duration_number_frac fuel (stAt pre rest) = .error (.fail e)) ∧
    (digs rest ≠ [] → ¬ valOf 0 (digs rest) < 2 ^ 64 →
      ∃ e, Parser.parse_duration_number_frac fuel (stAt pre rest) = .error (.fail e)) ∧
    (digs rest ≠ [] → valOf 0 (digs rest) < 2 ^ 64 → isSep ((afterDigs rest).headD '\x00') = false →
      Parser.parse_duration_number_frac fuel (stAt pre rest) =
        .ok ((valOf 0 (digs rest), none), stAt (pre ++ digs rest) (afterDigs rest))) ∧
    (∀ s r2, digs rest ≠ [] → valOf 0 (digs rest) < 2 ^ 64 → afterDigs rest = s :: r2 → isSep s = true →
      (digs r2 = [] → ∃ e, Parser.parse_duration_number_frac fuel (stAt pre rest) = .error (.fail e)) ∧
      (digs r2 ≠ [] → Parser.parse_duration_number_frac fuel (stAt pre rest) =
        .ok ((valOf 0 (digs rest), some (bytesOf (digs r2))), stAt (pre ++ digs rest ++ s :: digs r2) (afterDigs r2)))) := by
  gen_tie "Pendulum.IsoRsGen.number_frac_spec" "rust/src/parsing.rs (duration parser)" =>
    obtain ⟨n1, n2, n3⟩ := number_spec fuel pre rest hf
    refine ⟨fun h => ?_, fun h1 h2 => ?_, fun h1 h2 h3 => ?_, fun s r2 h1 h2 h3 h4 => ?_⟩
    · obtain ⟨e, he⟩ := n1 h
      exact ⟨e, by simp [Parser.parse_duration_number_frac, he]⟩
    · obtain ⟨e, he⟩ := n3 h1 h2
      exact ⟨e, by simp [Parser.parse_duration_number_frac, he]⟩
    · simp only [isSep] at h3
      simp only [Parser.parse_duration_number_frac, n2 h1 h2, current_stAt, h3, Bool.not_false, if_true]
    · have hlen : r2.length + 1 ≤ fuel := by
        have := congrArg List.length (digs_append_afterDigs rest)
        rw [h3] at this
        simp at this
        omega
      have hl := frac_loop fuel r2 fuel (pre ++ digs rest) s hlen
      have hs : (s == '.' || s == ',') = true := h4
      have hsrc : (pre ++ digs rest) ++ s :: r2 = (pre ++ digs rest) ++ s :: digs r2 ++ afterDigs r2 := by
        simp [digs_append_afterDigs]
      obtain ⟨_, hu⟩ := asBytes_digits (digs r2) (digs_all r2)
      have hidx : ulen (pre ++ digs rest ++ s :: digs r2) = ulen (pre ++ digs rest) + 1 + (digs r2).length := by
        simp [ulen_append, ulen, utf8Size_ascii s (isSep_ascii s h4), hu]; omega
      constructor
      · intro hd
        simp only [Parser.parse_duration_number_frac, n2 h1 h2, h3, current_stAt, List.headD_cons, hs, Bool.not_true,
          Bool.false_eq_true, if_false, hl, idx_stAt, src_stAt]
        have heq : (((ulen (pre ++ digs rest ++ s :: digs r2) : Nat) : Int) == ((ulen (pre ++ digs rest) : Nat) : Int) + 1) = true := by
          rw [hidx, hd]; simp
        simp only [heq, if_true]
        exact ⟨_, rfl⟩
      · intro hd
        simp only [Parser.parse_duration_number_frac, n2 h1 h2, h3, current_stAt, List.headD_cons, hs, Bool.not_true,
          Bool.false_eq_true, if_false, hl, idx_stAt, src_stAt]
        have hne : ¬ (((ulen (pre ++ digs rest ++ s :: digs r2) : Nat) : Int) == ((ulen (pre ++ digs rest) : Nat) : Int) + 1) = true := by
          rw [hidx]
          have : (digs r2).length ≠ 0 := by simpa using hd
          simp
          omega
        simp only [hne, if_false]
        rw [hsrc, slice_fraction (pre ++ digs rest) s (digs r2) (afterDigs r2) (isSep_ascii s h4) (digs_all r2)]
        rfl


/-! ### fractions -/

theorem frac_loop1_eq (U : Nat) (l : List Char) : ∀ (dg : List Int) (carry fdd : Nat),
    fraction_to_microseconds_loop1 (bytesOf l) dg U carry fdd = l.foldl (fun st c => rsFracStep U (dval c) st) (carry, fdd) := by
  gen_tie "Pendulum.IsoRsGen.frac_loop1_eq" "rust/src/parsing.rs (duration parser)" =>
    induction l with
    | nil => intro dg carry fdd; simp [fraction_to_microseconds_loop1, bytesOf]
    | cons c cs ih =>
      intro dg carry fdd
      have e : Int.toNat ((c.toNat : Int) - 48) = dval c := by simp only [dval]; omega
      have := ih dg ((dval c * U + carry) / 10) ((dval c * U + carry) % 10)
      simp only [bytesOf] at this
      simp only [bytesOf, List.map_cons, fraction_to_microseconds_loop1, List.foldl_cons, e, this]
      rfl

theorem fraction_eq (cs : List Char) (U : Nat) : fraction_to_microseconds (bytesOf cs) U = fracUsRs (cs.map dval) U := by
  gen_tie "Pendulum.IsoRsGen.fraction_eq" "rust/src/parsing.rs (duration parser)" =>
    have hrev : List.reverse (bytesOf cs) = bytesOf cs.reverse := by simp [bytesOf]
    have key : fraction_to_microseconds_loop1 (bytesOf cs.reverse) (bytesOf cs) U 0 0 = List.foldr (rsFracStep U) (0, 0) (List.map dval cs) := by
      rw [frac_loop1_eq, List.foldl_reverse, List.foldr_map]
    simp only [fraction_to_microseconds, fracUsRs, hrev, key]
    generalize List.foldr (rsFracStep U) (0, 0) (List.map dval cs) = r
    obtain ⟨a, b⟩ := r
    simp

def toParsed (d : ParsedDuration) : IsoDur.Parsed :=
  ⟨d.years, d.months, d.weeks, d.days, d.hours, d.minutes, d.seconds, d.microseconds⟩

theorem us_consts : US_PER_SECOND = usS ∧ US_PER_MINUTE = usMi ∧ US_PER_HOUR = usH ∧ US_PER_DAY = usD ∧ US_PER_WEEK = usW := by
  gen_tie "Pendulum.IsoRsGen.us_consts" "rust/src/parsing.rs (duration parser)" =>
    simp [US_PER_SECOND, US_PER_MINUTE, US_PER_HOUR, US_PER_DAY, US_PER_WEEK, usS, usMi, usH, usD, usW]

/-- `ParsedDuration::add_fraction` = the hand model's `rsFrac` on a component with a fraction -/
theorem add_fraction_eq (d : ParsedDuration) (cs : List Char) (U : Nat) (v : Nat) (u : Char) :
    (ParsedDuration.add_fraction d (bytesOf cs) U).map toParsed =
      (match rsFrac ⟨v, some (cs.map dval), u⟩ U (toParsed d) with | .ok q => some q | .error _ => none) := by
  gen_tie "Pendulum.IsoRsGen.add_fraction_eq" "rust/src/parsing.rs (duration parser)" =>
    obtain ⟨e1, e2, e3, e4, e5⟩ := us_consts
    simp only [ParsedDuration.add_fraction, fraction_eq, rsFrac, checkedAdd64, e1, e2, e3, e4]
    generalize fracUsRs (cs.map dval) U = m
    simp only [Parsed.addMicros, toParsed, e1]
    by_cases h1 : d.days + m / usD < 2 ^ 64
    · by_cases h2 : d.hours + m % usD / usH < 2 ^ 64
      · by_cases h3 : d.minutes + m % usD % usH / usMi < 2 ^ 64
        · by_cases h4 : d.seconds + m % usD % usH % usMi / usS < 2 ^ 64
          · have : ¬ (d.days + m / usD ≥ 2 ^ 64 ∨ d.hours + m % usD / usH ≥ 2 ^ 64 ∨ d.minutes + m % usD % usH / usMi ≥ 2 ^ 64 ∨
                d.seconds + m % usD % usH % usMi / usS ≥ 2 ^ 64) := by omega
            simp [h1, h2, h3, h4, this, toParsed]
          · have : (d.days + m / usD ≥ 2 ^ 64 ∨ d.hours + m % usD / usH ≥ 2 ^ 64 ∨ d.minutes + m % usD % usH / usMi ≥ 2 ^ 64 ∨
                d.seconds + m % usD % usH % usMi / usS ≥ 2 ^ 64) := by omega
            simp [h1, h2, h3, h4, this]
        · have : (d.days + m / usD ≥ 2 ^ 64 ∨ d.hours + m % usD / usH ≥ 2 ^ 64 ∨ d.minutes + m % usD % usH / usMi ≥ 2 ^ 64 ∨
              d.seconds + m % usD % usH % usMi / usS ≥ 2 ^ 64) := by omega
          simp [h1, h2, h3, this]
      · have : (d.days + m / usD ≥ 2 ^ 64 ∨ d.hours + m % usD / usH ≥ 2 ^ 64 ∨ d.minutes + m % usD % usH / usMi ≥ 2 ^ 64 ∨
            d.seconds + m % usD % usH % usMi / usS ≥ 2 ^ 64) := by omega
        simp [h1, h2, this]
    · have : (d.days + m / usD ≥ 2 ^ 64 ∨ d.hours + m % usD / usH ≥ 2 ^ 64 ∨ d.minutes + m % usD % usH / usMi ≥ 2 ^ 64 ∨
          d.seconds + m % usD % usH % usMi / usS ≥ 2 ^ 64) := by omega
      simp [h1, this]


def ofParsed (p : IsoDur.Parsed) : ParsedDuration := ⟨p.y, p.mo, p.w, p.d, p.h, p.mi, p.s, p.us⟩

@[simp] theorem toParsed_ofParsed (p : IsoDur.Parsed) : toParsed (ofParsed p) = p := rfl
@[simp] theorem ofParsed_toParsed (d : ParsedDuration) : ofParsed (toParsed d) = d := rfl

def toSt (d : ParsedDuration) (g l : Bool) (lu : Int) : RsState := ⟨g, l, lu.toNat, toParsed d⟩

/-- the `if let Some(fraction) = op_fraction { duration.add_fraction(fraction, U).ok_or_else(..)?; }` of every arm -/
theorem arm_eq (self : Parser) (d : ParsedDuration) (fcs : Option (List Char)) (U v : Nat) (u : Char) :
    ((match (fcs.map bytesOf) with
      | some fraction =>
        (match ParsedDuration.add_fraction d fraction U with
          | none => .error (.fail (Parser.too_large_error self))
          | some duration => .ok duration)
      | none => .ok d) : Except (Err ParseError) ParsedDuration) =
    (match rsFrac ⟨v, fcs.map (·.map dval), u⟩ U (toParsed d) with
      | .ok q => .ok (ofParsed q)
      | .error _ => .error (.fail (Parser.too_large_error self))) := by
  gen_tie "Pendulum.IsoRsGen.arm_eq" "rust/src/parsing.rs (duration parser)" =>
    cases fcs with
    | none => simp [rsFrac]
    | some cs =>
      have := add_fraction_eq d cs U v u
      simp only [Option.map_some]
      cases h : ParsedDuration.add_fraction d (bytesOf cs) U with
      | none =>
        rw [h] at this
        cases h2 : rsFrac ⟨v, some (cs.map dval), u⟩ U (toParsed d) with
        | ok q => rw [h2] at this; simp at this
        | error k => rfl
      | some q =>
        rw [h] at this
        cases h2 : rsFrac ⟨v, some (cs.map dval), u⟩ U (toParsed d) with
        | ok q2 => rw [h2] at this; simp at this; simp [← this]
        | error k => rw [h2] at this; simp at this

/-- how the loop body relates to a step of the hand model -/
def StepAgree (x : Except (Err ParseError) (Parser × ParsedDuration × Bool × Bool × Int)) (self' : Parser)
    (m : Except Kind RsState) : Prop :=
  match m with
  | .ok s => ∃ d' lu', x = .ok (self', d', s.gotT, s.lastFrac, lu') ∧ toSt d' s.gotT s.lastFrac lu' = s ∧ 0 ≤ lu'
  | .error _ => ∃ e, x = .error (.fail e)


theorem rsDone_agree (self' : Parser) (st : RsState) (lf : Bool) (r : Nat) (lu' : Int) (hlu : lu' = (r : Int))
    (x : Except Kind IsoDur.Parsed) (e0 : ParseError) :
    StepAgree (match (match x with | .ok q => (.ok (ofParsed q) : Except (Err ParseError) ParsedDuration) | .error _ => .error (.fail e0)) with
        | .error e => .error e
        | .ok duration => .ok (self', duration, st.gotT, lf, lu')) self' (rsDone st lf r x) := by
  cases x with
  | error k => exact ⟨e0, rfl⟩
  | ok q => exact ⟨ofParsed q, lu', rfl, by simp [toSt, rsDone, hlu], by omega⟩



@[simp] theorem match_id2 {ε α β : Type} (x : Except ε (α × β)) :
    (match x with | .error e => .error e | .ok (a, b) => (.ok (a, b) : Except ε (α × β))) = x := by
  cases x with
  | error e => rfl
  | ok p => cases p; rfl

/-- the tail of every designator arm: optional fraction, then the new `last_unit` -/
theorem arm_step (self' : Parser) (st : RsState) (dd : ParsedDuration) (fcs : Option (List Char)) (U value : Nat) (u : Char)
    (r : Nat) (lf : Bool) :
    StepAgree
      (match (match (match fcs.map bytesOf with
            | some fraction =>
              (match dd.add_fraction fraction U with
                | none => Except.error (Err.fail (Parser.too_large_error self'))
                | some duration => Except.ok duration)
            | none => (Except.ok dd : Except (Err ParseError) ParsedDuration)) with
          | Except.error e => Except.error e
          | Except.ok duration => (Except.ok (duration, (r : Int)) : Except (Err ParseError) (ParsedDuration × Int))) with
        | Except.error e => Except.error e
        | Except.ok (duration, last_unit) => Except.ok (self', duration, st.gotT, lf, last_unit))
      self' (rsDone st lf r (rsFrac ⟨value, fcs.map (·.map dval), u⟩ U (toParsed dd))) := by
  gen_tie "Pendulum.IsoRsGen.arm_step" "rust/src/parsing.rs (duration parser)" =>
    rw [arm_eq self' dd fcs U value u]
    cases rsFrac ⟨value, fcs.map (·.map dval), u⟩ U (toParsed dd) with
    | error k => exact ⟨_, rfl⟩
    | ok q => exact ⟨ofParsed q, r, rfl, by simp [toSt, rsDone], by omega⟩

theorem arm_step0 (self' : Parser) (st : RsState) (dd : ParsedDuration) (r : Nat) (lf : Bool) :
    StepAgree (Except.ok (self', dd, st.gotT, lf, (r : Int))) self' (rsDone st lf r (.ok (toParsed dd))) :=
  ⟨dd, r, rfl, by simp [toSt, rsDone], by omega⟩

theorem beq_false_of_ne {a b : Char} (h : a ≠ b) : (a == b) = false := by simpa using h

set_option maxHeartbeats 3200000 in
/-- one "number + designator" iteration of `parse_duration`'s loop body = `rsStep` of the hand model -/
theorem s6_item (fuel : Nat) (self : Parser) (pre' dw : List Char) (d : ParsedDuration) (g l : Bool) (lu : Int) (hlu : 0 ≤ lu)
    (value : Nat) (hv : value < 2 ^ 64) (fcs : Option (List Char))
    (hT : (self.current == 'T') = false)
    (hnum : Parser.parse_duration_number_frac fuel self = .ok ((value, fcs.map bytesOf), stAt pre' dw)) :
    StepAgree (Parser.parse_duration_loop1_top0 fuel self d g l lu) (stAt pre' dw)
      (rsStep (toSt d g l lu) (.item ⟨value, fcs.map (·.map dval), dw.headD '\x00'⟩)) := by
  gen_tie "Pendulum.IsoRsGen.s6_item" "rust/src/parsing.rs (duration parser)" =>
    obtain ⟨e1, e2, e3, e4, e5⟩ := us_consts
    have hv' : ¬ value ≥ 2 ^ 64 := by omega
    generalize hu : dw.headD '\x00' = u
    have hlf : (if (Option.map bytesOf fcs).isSome = true then (Except.ok true : Except (Err ParseError) Bool) else Except.ok false) =
        .ok (fcs.map (·.map dval)).isSome := by
      cases fcs <;> rfl
    have c1 : ('M' == 'H') = false := by decide
    have c2 : ('S' == 'H') = false := by decide
    have c3 : ('S' == 'M') = false := by decide
    have c4 : ('M' == 'Y') = false := by decide
    have c5 : ('W' == 'Y') = false := by decide
    have c6 : ('W' == 'M') = false := by decide
    have c7 : ('D' == 'Y') = false := by decide
    have c8 : ('D' == 'M') = false := by decide
    have c9 : ('D' == 'W') = false := by decide
    cases l with
    | true =>
      simp only [rsStep, toSt, hv', if_false, if_true, StepAgree]
      simp [Parser.parse_duration_loop1_top0, hT, hnum]
    | false =>
      cases g with
      | true =>
        simp only [rsStep, toSt, hv', if_false, if_true, Bool.false_eq_true]
        by_cases hH : u = 'H'
        · subst hH
          by_cases hc : lu.toNat ≥ 5
          · simp only [hc, if_true, StepAgree, Parser.parse_duration_loop1_top0, hT, hnum, current_stAt, hu,
              Bool.false_eq_true, if_false, hlf, show lu ≥ 5 by omega, decide_true, beq_self_eq_true, match_id2]
            exact ⟨_, rfl⟩
          · simp only [hc, if_false, if_true, Parser.parse_duration_loop1_top0, hT, hnum, current_stAt, hu,
              Bool.false_eq_true, hlf, show ¬ lu ≥ 5 by omega, decide_false, beq_self_eq_true, e3, match_id2]
            exact arm_step (stAt pre' dw) ⟨true, false, lu.toNat, toParsed d⟩ { d with hours := d.hours + value } fcs usH value 'H' 5 (fcs.map (·.map dval)).isSome
        · simp only [hH, if_false]
          by_cases hM : u = 'M'
          · subst hM
            by_cases hc : lu.toNat ≥ 6
            · simp only [hc, if_true, StepAgree, Parser.parse_duration_loop1_top0, hT, hnum,
                current_stAt, hu, c1, Bool.false_eq_true, if_false, hlf, show lu ≥ 6 by omega, decide_true, beq_self_eq_true, match_id2]
              exact ⟨_, rfl⟩
            · simp only [hc, if_false, if_true, Parser.parse_duration_loop1_top0, hT, hnum,
                current_stAt, hu, c1, Bool.false_eq_true, hlf, show ¬ lu ≥ 6 by omega, decide_false, beq_self_eq_true, e2, match_id2]
              exact arm_step (stAt pre' dw) ⟨true, false, lu.toNat, toParsed d⟩ { d with minutes := d.minutes + value } fcs usMi value 'M' 6 (fcs.map (·.map dval)).isSome
          · simp only [hM, if_false]
            by_cases hS : u = 'S'
            · subst hS
              by_cases hc : lu.toNat ≥ 7
              · simp only [hc, if_true, StepAgree, Parser.parse_duration_loop1_top0, hT, hnum,
                  current_stAt, hu, c2, c3, Bool.false_eq_true, if_false, hlf, show lu ≥ 7 by omega, decide_true, beq_self_eq_true,
                  Bool.not_true, match_id2]
                exact ⟨_, rfl⟩
              · simp only [hc, if_false, if_true, Parser.parse_duration_loop1_top0, hT, hnum,
                  current_stAt, hu, c2, c3, Bool.false_eq_true, hlf, show ¬ lu ≥ 7 by omega, decide_false, beq_self_eq_true, e1,
                  Bool.not_true, match_id2]
                exact arm_step (stAt pre' dw) ⟨true, false, lu.toNat, toParsed d⟩ { d with seconds := value } fcs usS value 'S' 7 (fcs.map (·.map dval)).isSome
            · simp only [hS, if_false, StepAgree, Parser.parse_duration_loop1_top0, hT, hnum,
                current_stAt, hu, beq_false_of_ne hH, beq_false_of_ne hM, beq_false_of_ne hS, Bool.false_eq_true, hlf,
                Bool.not_false, if_true, match_id2]
              exact ⟨_, rfl⟩
      | false =>
        simp only [rsStep, toSt, hv', if_false, if_true, Bool.false_eq_true]
        by_cases hY : u = 'Y'
        · subst hY
          cases hfs : (fcs.map (·.map dval)).isSome with
          | true =>
            simp only [if_true, StepAgree, Parser.parse_duration_loop1_top0, hT, hnum, current_stAt, hu,
              Bool.false_eq_true, if_false, hlf, hfs, beq_self_eq_true]
            exact ⟨_, rfl⟩
          | false =>
            by_cases hc : lu.toNat ≥ 1
            · simp only [hc, if_true, StepAgree, Parser.parse_duration_loop1_top0, hT, hnum, current_stAt, hu,
                Bool.false_eq_true, if_false, hlf, hfs, show lu ≥ 1 by omega, decide_true, beq_self_eq_true]
              exact ⟨_, rfl⟩
            · simp only [hc, if_false, if_true, Parser.parse_duration_loop1_top0, hT, hnum, current_stAt, hu,
                Bool.false_eq_true, hlf, hfs, show ¬ lu ≥ 1 by omega, decide_false, beq_self_eq_true]
              exact arm_step0 (stAt pre' dw) ⟨false, false, lu.toNat, toParsed d⟩ { d with years := value } 1 false
        · simp only [hY, if_false]
          by_cases hM : u = 'M'
          · subst hM
            cases hfs : (fcs.map (·.map dval)).isSome with
            | true =>
              simp only [if_true, StepAgree, Parser.parse_duration_loop1_top0, hT, hnum, current_stAt, hu, c4,
                Bool.false_eq_true, if_false, hlf, hfs, beq_self_eq_true]
              exact ⟨_, rfl⟩
            | false =>
              by_cases hc : lu.toNat ≥ 2
              · simp only [hc, if_true, StepAgree, Parser.parse_duration_loop1_top0, hT, hnum, current_stAt, hu, c4,
                  Bool.false_eq_true, if_false, hlf, hfs, show lu ≥ 2 by omega, decide_true, beq_self_eq_true]
                exact ⟨_, rfl⟩
              · simp only [hc, if_false, if_true, Parser.parse_duration_loop1_top0, hT, hnum, current_stAt, hu, c4,
                  Bool.false_eq_true, hlf, hfs, show ¬ lu ≥ 2 by omega, decide_false, beq_self_eq_true]
                exact arm_step0 (stAt pre' dw) ⟨false, false, lu.toNat, toParsed d⟩ { d with months := value } 2 false
          · simp only [hM, if_false]
            by_cases hW : u = 'W'
            · subst hW
              by_cases hc : lu.toNat ≠ 0
              · simp only [hc, if_true, ne_eq, not_false_eq_true, StepAgree, Parser.parse_duration_loop1_top0, hT, hnum, current_stAt, hu,
                  c5, c6, Bool.false_eq_true, if_false, hlf, show (lu != 0) = true by simp; omega, beq_self_eq_true]
                exact ⟨_, rfl⟩
              · simp only [hc, if_false, if_true, ne_eq, Parser.parse_duration_loop1_top0, hT, hnum, current_stAt, hu, c5, c6,
                  Bool.false_eq_true, hlf, show (lu != 0) = false by simp; omega, beq_self_eq_true, e5]
                exact arm_step (stAt pre' dw) ⟨false, false, lu.toNat, toParsed d⟩ { d with weeks := value } fcs usW value 'W' 8
                  (fcs.map (·.map dval)).isSome
            · simp only [hW, if_false]
              by_cases hD : u = 'D'
              · subst hD
                by_cases hc : lu.toNat ≥ 3
                · by_cases h8 : lu.toNat = 8
                  · simp only [hc, h8, if_true, StepAgree, Parser.parse_duration_loop1_top0, hT, hnum, current_stAt, hu,
                      c7, c8, c9, Bool.false_eq_true, if_false, hlf, show lu ≥ 3 by omega, decide_true, beq_self_eq_true, Bool.not_true]
                    exact ⟨_, rfl⟩
                  · simp only [hc, h8, if_true, if_false, StepAgree, Parser.parse_duration_loop1_top0, hT, hnum, current_stAt, hu,
                      c7, c8, c9, Bool.false_eq_true, hlf, show lu ≥ 3 by omega, decide_true, beq_self_eq_true, Bool.not_true]
                    exact ⟨_, rfl⟩
                · simp only [hc, if_false, if_true, Parser.parse_duration_loop1_top0, hT, hnum, current_stAt, hu, c7, c8, c9,
                    Bool.false_eq_true, hlf, show ¬ lu ≥ 3 by omega, decide_false, beq_self_eq_true, e4, Bool.not_true]
                  exact arm_step (stAt pre' dw) ⟨false, false, lu.toNat, toParsed d⟩ { d with days := d.days + value } fcs usD value 'D' 3
                    (fcs.map (·.map dval)).isSome
              · simp only [hD, if_false, StepAgree, Parser.parse_duration_loop1_top0, hT, hnum,
                  current_stAt, hu, beq_false_of_ne hY, beq_false_of_ne hM, beq_false_of_ne hW, beq_false_of_ne hD, Bool.false_eq_true, hlf,
                  Bool.not_false, if_true]
                exact ⟨_, rfl⟩


/-! ### the hand model's lexer, one token at a time -/

theorem lex_int (cs : List Char) : ∀ v, lexGo .rust (.int v) cs =
    (match afterDigs cs with
      | [] => .error .syntax
      | c :: r => if c = '.' ∨ c = ',' then lexGo .rust (.sep (valOf v (digs cs))) r
          else (lexGo .rust .start r).map (Tok.item ⟨valOf v (digs cs), none, c⟩ :: ·)) := by
  induction cs with
  | nil => intro v; simp [lexGo, afterDigs]
  | cons d ds ih =>
    intro v
    by_cases hd : isAsciiDigit d = true
    · rw [digs_cons_pos d ds hd, afterDigs_cons_pos d ds hd]
      simp only [lexGo, digitVal_eq, hd, if_true]
      rw [ih]
      simp [valOf, dval]
    · have hd' : isAsciiDigit d = false := by simpa using hd
      rw [digs_cons_neg d ds hd', afterDigs_cons_neg d ds hd']
      simp [lexGo, digitVal_eq, hd', valOf]

theorem lex_frac (cs : List Char) : ∀ v ds, lexGo .rust (.frac v ds) cs =
    (match afterDigs cs with
      | [] => .error .syntax
      | c :: r => (lexGo .rust .start r).map (Tok.item ⟨v, some (ds ++ (digs cs).map dval), c⟩ :: ·)) := by
  induction cs with
  | nil => intro v ds; simp [lexGo, afterDigs]
  | cons d r ih =>
    intro v ds
    by_cases hd : isAsciiDigit d = true
    · rw [digs_cons_pos d r hd, afterDigs_cons_pos d r hd]
      simp only [lexGo, digitVal_eq, hd, if_true]
      rw [ih]
      simp [dval]
    · have hd' : isAsciiDigit d = false := by simpa using hd
      rw [digs_cons_neg d r hd', afterDigs_cons_neg d r hd']
      simp [lexGo, digitVal_eq, hd']

theorem lex_sep (cs : List Char) (v : Nat) : lexGo .rust (.sep v) cs =
    (if digs cs = [] then .error .syntax else
      match afterDigs cs with
      | [] => .error .syntax
      | c :: r => (lexGo .rust .start r).map (Tok.item ⟨v, some ((digs cs).map dval), c⟩ :: ·)) := by
  cases cs with
  | nil => simp [lexGo, digs]
  | cons d r =>
    by_cases hd : isAsciiDigit d = true
    · rw [digs_cons_pos d r hd, afterDigs_cons_pos d r hd]
      simp only [lexGo, digitVal_eq, hd, if_true, lex_frac]
      simp [dval]
    · have hd' : isAsciiDigit d = false := by simpa using hd
      rw [digs_cons_neg d r hd']
      simp [lexGo, digitVal_eq, hd']

/-- the first "number [fraction]" of a string: value, fraction digits, what follows -/
def numTok (rest : List Char) : Option (Nat × Option (List Char) × List Char) :=
  if digs rest = [] then none else
  match afterDigs rest with
  | s :: r2 =>
    if isSep s then (if digs r2 = [] then none else some (valOf 0 (digs rest), some (digs r2), afterDigs r2))
    else some (valOf 0 (digs rest), none, s :: r2)
  | [] => some (valOf 0 (digs rest), none, [])

theorem isSep_iff (c : Char) : isSep c = true ↔ (c = '.' ∨ c = ',') := by simp [isSep]

theorem lex_start (c : Char) (cs : List Char) (hT : c ≠ 'T') : lexGo .rust .start (c :: cs) =
    (match numTok (c :: cs) with
      | none => .error .syntax
      | some (v, f, dw) =>
        match dw with
        | [] => .error .syntax
        | u :: r => (lexGo .rust .start r).map (Tok.item ⟨v, f.map (·.map dval), u⟩ :: ·)) := by
  by_cases hc : isAsciiDigit c = true
  · have hv : valOf 0 (c :: digs cs) = valOf (c.toNat - 48) (digs cs) := by simp [valOf, dval]
    simp only [lexGo, hT, if_false, digitVal_eq, hc, if_true, lex_int, numTok, digs_cons_pos c cs hc, afterDigs_cons_pos c cs hc, hv]
    cases h : afterDigs cs with
    | nil => simp
    | cons s r2 =>
      by_cases hs : isSep s = true
      · have := (isSep_iff s).mp hs
        simp only [this, if_true, lex_sep, hs]
        by_cases hd : digs r2 = []
        · simp [hd]
        · simp only [hd, if_false]
          cases afterDigs r2 <;> simp
      · have hs' : isSep s = false := by simpa using hs
        have : ¬ (s = '.' ∨ s = ',') := fun h => hs ((isSep_iff s).mpr h)
        simp [this, hs']
  · have hc' : isAsciiDigit c = false := by simpa using hc
    simp [lexGo, hT, digitVal_eq, hc', numTok, digs_cons_neg c cs hc']


/-- `parse_duration_number_frac` reads exactly the first "number [fraction]" -/
theorem number_frac_numTok (fuel : Nat) (pre rest : List Char) (hf : rest.length + 1 ≤ fuel) :
    match numTok rest with
    | none => ∃ e, Parser.parse_duration_number_frac fuel (stAt pre rest) = .error (.fail e)
    | some (v, f, dw) =>
      (v < 2 ^ 64 → ∃ pre', Parser.parse_duration_number_frac fuel (stAt pre rest) = .ok ((v, f.map bytesOf), stAt pre' dw)) ∧
      (¬ v < 2 ^ 64 → ∃ e, Parser.parse_duration_number_frac fuel (stAt pre rest) = .error (.fail e)) ∧
      dw.length < rest.length := by
  gen_tie "Pendulum.IsoRsGen.number_frac_numTok" "rust/src/parsing.rs (duration parser)" =>
    obtain ⟨s1, s2, s3, s4⟩ := number_frac_spec fuel pre rest hf
    have hlen := congrArg List.length (digs_append_afterDigs rest)
    simp only [List.length_append] at hlen
    unfold numTok
    by_cases h0 : digs rest = []
    · simp only [h0, if_true]; exact s1 h0
    · simp only [h0, if_false]
      have hpos : 0 < (digs rest).length := List.length_pos_iff.mpr h0
      cases hdw : afterDigs rest with
      | nil =>
        refine ⟨fun hv => ⟨pre ++ digs rest, ?_⟩, fun hv => s2 h0 hv, by simp; omega⟩
        have := s3 h0 hv (by simp [hdw, isSep])
        rw [hdw] at this
        exact this
      | cons s r2 =>
        rw [hdw] at hlen
        simp only [List.length_cons] at hlen
        by_cases hs : isSep s = true
        · simp only [hs, if_true]
          by_cases hd : digs r2 = []
          · simp only [hd, if_true]
            by_cases hv : valOf 0 (digs rest) < 2 ^ 64
            · exact (s4 s r2 h0 hv hdw hs).1 hd
            · exact s2 h0 hv
          · simp only [hd, if_false]
            have hlen2 := congrArg List.length (digs_append_afterDigs r2)
            simp only [List.length_append] at hlen2
            refine ⟨fun hv => ⟨_, (s4 s r2 h0 hv hdw hs).2 hd⟩, fun hv => s2 h0 hv, by omega⟩
        · have hs' : isSep s = false := by simpa using hs
          simp only [hs', Bool.false_eq_true, if_false]
          refine ⟨fun hv => ⟨pre ++ digs rest, ?_⟩, fun hv => s2 h0 hv, by simp; omega⟩
          have := s3 h0 hv (by simp [hdw, hs'])
          rw [hdw] at this
          exact this

/-- the `'T'` arm of the loop body -/
theorem s6_T (fuel : Nat) (pre cs : List Char) (d : ParsedDuration) (g l : Bool) (lu : Int) (hlu : 0 ≤ lu) :
    StepAgree (Parser.parse_duration_loop1_top0 fuel (stAt pre ('T' :: cs)) d g l lu) (stAt pre ('T' :: cs))
      (rsStep (toSt d g l lu) .T) := by
  gen_tie "Pendulum.IsoRsGen.s6_T" "rust/src/parsing.rs (duration parser)" =>
    cases g with
    | true =>
      simp only [rsStep, toSt, if_true, StepAgree, Parser.parse_duration_loop1_top0, current_stAt, List.headD_cons, beq_self_eq_true]
      exact ⟨_, rfl⟩
    | false =>
      by_cases hc : lu.toNat > 3
      · simp only [rsStep, toSt, hc, if_true, Bool.false_eq_true, if_false, StepAgree, Parser.parse_duration_loop1_top0, current_stAt,
          List.headD_cons, beq_self_eq_true, show lu > 3 by omega, decide_true]
        exact ⟨_, rfl⟩
      · simp only [rsStep, toSt, hc, if_true, Bool.false_eq_true, if_false, StepAgree, Parser.parse_duration_loop1_top0, current_stAt,
          List.headD_cons, beq_self_eq_true, show ¬ lu > 3 by omega, decide_false]
        exact ⟨d, 4, rfl, by simp [toSt], by omega⟩

/-- the token stream of the hand model, folded from state `st` -/
def lexFold (st : RsState) (cs : List Char) : Except Kind RsState :=
  match lexGo .rust .start cs with
  | .error k => .error k
  | .ok ts => rsFold st ts

def LoopAgree (x : Except (Err ParseError) (Parser × ParsedDuration × Bool × Bool × Int)) (m : Except Kind RsState) : Prop :=
  match m with
  | .ok s => ∃ self' d' lu', x = .ok (self', d', s.gotT, s.lastFrac, lu') ∧ toSt d' s.gotT s.lastFrac lu' = s
  | .error _ => ∃ e, x = .error (.fail e)

theorem lexFold_cons_err (st : RsState) (t : Tok) (r : List Char) (k : Kind) (h : rsStep st t = .error k) :
    ∃ k', (match (lexGo .rust .start r).map (t :: ·) with | .error k => Except.error k | .ok ts => rsFold st ts) = .error k' := by
  cases lexGo .rust .start r with
  | error k2 => exact ⟨k2, rfl⟩
  | ok ts => exact ⟨k, by simp [Except.map, rsFold, h]⟩

theorem lexFold_cons_ok (st st' : RsState) (t : Tok) (r : List Char) (h : rsStep st t = .ok st') :
    (match (lexGo .rust .start r).map (t :: ·) with | .error k => Except.error k | .ok ts => rsFold st ts) = lexFold st' r := by
  unfold lexFold
  cases lexGo .rust .start r with
  | error k2 => rfl
  | ok ts => simp [Except.map, rsFold, h]

theorem rsStep_nul (st : RsState) (v : Nat) (f : Option (List Nat)) : ∃ k, rsStep st (.item ⟨v, f, '\x00'⟩) = .error k := by
  have c : ¬ ('\x00' = 'H') ∧ ¬ ('\x00' = 'M') ∧ ¬ ('\x00' = 'S') ∧ ¬ ('\x00' = 'Y') ∧ ¬ ('\x00' = 'W') ∧ ¬ ('\x00' = 'D') := by decide
  unfold rsStep
  simp only [c, if_false]
  split
  · exact ⟨_, rfl⟩
  · split
    · exact ⟨_, rfl⟩
    · split <;> exact ⟨_, rfl⟩


theorem loop_step (fuel n : Nat) (self : Parser) (pre' : List Char) (u : Char) (r : List Char) (d : ParsedDuration) (g l : Bool)
    (lu : Int) (st : RsState) (tok : Tok)
    (hS : StepAgree (Parser.parse_duration_loop1_top0 fuel self d g l lu) (stAt pre' (u :: r)) (rsStep st tok))
    (ih : r ≠ [] → ∀ d' g' l' lu', 0 ≤ lu' →
      LoopAgree (Parser.parse_duration_loop1 fuel n (stAt (pre' ++ [u]) r) d' g' l' lu') (lexFold (toSt d' g' l' lu') r)) :
    LoopAgree (Parser.parse_duration_loop1 fuel (n + 1) self d g l lu)
      (match (lexGo .rust .start r).map (tok :: ·) with | .error k => Except.error k | .ok ts => rsFold st ts) := by
  gen_tie "Pendulum.IsoRsGen.loop_step" "rust/src/parsing.rs (duration parser)" =>
    cases hst : rsStep st tok with
    | error k =>
      rw [hst] at hS
      obtain ⟨e, he⟩ := hS
      obtain ⟨k', hk'⟩ := lexFold_cons_err st tok r k hst
      rw [hk']
      exact ⟨e, by simp [Parser.parse_duration_loop1, he]⟩
    | ok st' =>
      rw [hst] at hS
      obtain ⟨d', lu', he, hto, hlu'⟩ := hS
      rw [lexFold_cons_ok st st' tok r hst]
      cases r with
      | nil =>
        have : lexFold st' [] = .ok st' := by simp [lexFold, lexGo, rsFold]
        rw [this]
        exact ⟨stAt (pre' ++ [u]) [], d', lu', by simp [Parser.parse_duration_loop1, he, inc_cons, end_stAt], hto⟩
      | cons c cs =>
        have := ih (by simp) d' st'.gotT st'.lastFrac lu' hlu'
        rw [hto] at this
        simpa [Parser.parse_duration_loop1, he, inc_cons, end_stAt] using this

theorem lexFold_err_agree {x : Except (Err ParseError) (Parser × ParsedDuration × Bool × Bool × Int)} {m : Except Kind RsState}
    (e : ParseError) (hx : x = .error (.fail e)) (k : Kind) (hm : m = .error k) : LoopAgree x m := by
  subst hm; exact ⟨e, hx⟩

/-- **the loop of `parse_duration`** on a non-empty remainder = lexing the remainder and folding `rsStep` over the tokens -/
theorem loop_spec (fuel : Nat) : ∀ (k : Nat) (rest : List Char), rest.length ≤ k → rest ≠ [] → rest.length + 1 ≤ fuel →
    ∀ (n : Nat) (pre : List Char) (d : ParsedDuration) (g l : Bool) (lu : Int), rest.length ≤ n → 0 ≤ lu →
    LoopAgree (Parser.parse_duration_loop1 fuel n (stAt pre rest) d g l lu) (lexFold (toSt d g l lu) rest) := by
  gen_tie "Pendulum.IsoRsGen.loop_spec" "rust/src/parsing.rs (duration parser)" =>
    intro k
    induction k with
    | zero => intro rest hk hne; cases rest <;> simp_all
    | succ k ih =>
      intro rest hk hne hf n pre d g l lu hn hlu
      obtain ⟨c, cs, rfl⟩ : ∃ c cs, rest = c :: cs := by cases rest with | nil => exact absurd rfl hne | cons c cs => exact ⟨c, cs, rfl⟩
      obtain ⟨n, rfl⟩ : ∃ m, n = m + 1 := ⟨n - 1, by simp at hn; omega⟩
      simp only [List.length_cons] at hk hf hn
      by_cases hT : c = 'T'
      · subst hT
        have hS := s6_T fuel pre cs d g l lu hlu
        have : lexFold (toSt d g l lu) ('T' :: cs) =
            (match (lexGo .rust .start cs).map (Tok.T :: ·) with | .error k => Except.error k | .ok ts => rsFold (toSt d g l lu) ts) := by
          simp [lexFold, lexGo]
        rw [this]
        exact loop_step fuel n _ pre 'T' cs d g l lu _ _ hS
          (fun hne' d' g' l' lu' hlu' => ih cs (by omega) hne' (by omega) n (pre ++ ['T']) d' g' l' lu' (by omega) hlu')
      · have hnt := number_frac_numTok fuel pre (c :: cs) (by simp; omega)
        have hlex := lex_start c cs hT
        have hcur : ((stAt pre (c :: cs)).current == 'T') = false := by simp [hT]
        unfold lexFold
        rw [hlex]
        cases htok : numTok (c :: cs) with
        | none =>
          rw [htok] at hnt
          obtain ⟨e, he⟩ := hnt
          exact ⟨e, by simp [Parser.parse_duration_loop1, Parser.parse_duration_loop1_top0, hT, he]⟩
        | some x =>
          obtain ⟨v, f, dw⟩ := x
          rw [htok] at hnt
          obtain ⟨h1, h2, h3⟩ := hnt
          by_cases hv : v < 2 ^ 64
          · obtain ⟨pre', hp⟩ := h1 hv
            have hS := s6_item fuel (stAt pre (c :: cs)) pre' dw d g l lu hlu v hv f hcur hp
            cases dw with
            | nil =>
              obtain ⟨kk, hk2⟩ := rsStep_nul (toSt d g l lu) v (f.map (·.map dval))
              simp only [List.headD_nil] at hS
              rw [hk2] at hS
              obtain ⟨e, he⟩ := hS
              exact ⟨e, by simp [Parser.parse_duration_loop1, he]⟩
            | cons u r =>
              simp only [List.headD_cons] at hS
              simp only [List.length_cons] at h3
              exact loop_step fuel n _ pre' u r d g l lu _ _ hS
                (fun hne' d' g' l' lu' hlu' => ih r (by omega) hne' (by omega) n (pre' ++ [u]) d' g' l' lu' (by omega) hlu')
          · obtain ⟨e, he⟩ := h2 hv
            have hx : Parser.parse_duration_loop1 fuel (n + 1) (stAt pre (c :: cs)) d g l lu = .error (.fail e) := by
              simp [Parser.parse_duration_loop1, Parser.parse_duration_loop1_top0, hT, he]
            cases dw with
            | nil => exact ⟨e, hx⟩
            | cons u r =>
              have hst : rsStep (toSt d g l lu) (.item ⟨v, f.map (·.map dval), u⟩) = .error .tooLarge := by
                simp [rsStep, show v ≥ 2 ^ 64 by omega]
              obtain ⟨k', hk'⟩ := lexFold_cons_err (toSt d g l lu) (.item ⟨v, f.map (·.map dval), u⟩) r _ hst
              simp only []
              rw [hk']
              exact ⟨e, hx⟩


theorem lex_nonempty (c : Char) (cs : List Char) (ts : List Tok) (h : lexGo .rust .start (c :: cs) = .ok ts) : ts ≠ [] := by
  by_cases hT : c = 'T'
  · subst hT
    simp only [lexGo, if_true] at h
    cases h2 : lexGo .rust .start cs with
    | error k => rw [h2] at h; simp [Except.map] at h
    | ok t2 => rw [h2] at h; simp [Except.map] at h; rw [← h]; simp
  · rw [lex_start c cs hT] at h
    cases h1 : numTok (c :: cs) with
    | none => rw [h1] at h; simp at h
    | some x =>
      obtain ⟨v, f, dw⟩ := x
      rw [h1] at h
      cases dw with
      | nil => simp at h
      | cons u r =>
        simp only [] at h
        cases h2 : lexGo .rust .start r with
        | error k => rw [h2] at h; simp [Except.map] at h
        | ok t2 => rw [h2] at h; simp [Except.map] at h; rw [← h]; simp

/-- the hand model on a string that starts with `P`, in terms of the fold -/
theorem parseParsed_P (cs : List Char) : parseParsed .rust ('P' :: cs) =
    (match cs with
      | [] => .error .syntax
      | _ :: _ => (lexFold {} cs).map (·.p)) := by
  cases cs with
  | nil => simp [parseParsed, lex, lexGo, run, rsRun]
  | cons c r =>
    simp only [parseParsed, lex, lexFold, run]
    cases h : lexGo .rust .start (c :: r) with
    | error k => rfl
    | ok ts =>
      have := lex_nonempty c r ts h
      cases ts with
      | nil => exact absurd rfl this
      | cons t tl => simp [rsRun]

/-- what the generated `parse_duration` returns, seen through the hand model's types; `none` = a loop was cut -/
def durView (x : Except (Err ParseError) (Parser × Gen.IsoRs.Parsed)) : Option (Option IsoDur.Parsed) :=
  match x with
  | .ok (_, p) => some (p.duration.map toParsed)
  | .error (.fail _) => some none
  | .error .fuel => none

/-- **`Parser::parse_duration` (with `parse_duration_number(_frac)`, `add_fraction`, `fraction_to_microseconds`), as regenerated
from rust/src/parsing.rs, computes the hand model `IsoDur.parseParsed .rust` on every string** (errors compared as errors), for
every fuel that exceeds the length of the input: the loops are never cut. -/
theorem parse_duration_eq_model (fuel : Nat) (pre cs : List Char) (parsed : Gen.IsoRs.Parsed) (hf : cs.length + 2 ≤ fuel) :
    durView (Parser.parse_duration fuel (stAt pre ('P' :: cs)) parsed) = some (parseParsed .rust ('P' :: cs)).toOption ∧
    (∀ self' p', Parser.parse_duration fuel (stAt pre ('P' :: cs)) parsed = .ok (self', p') →
      p'.datetime = parsed.datetime ∧ p'.second_datetime = parsed.second_datetime ∧ p'.duration.isSome) := by
  gen_tie "Pendulum.IsoRsGen.parse_duration_eq_model" "rust/src/parsing.rs (duration parser)" =>
    rw [parseParsed_P]
    cases cs with
    | nil =>
      obtain ⟨n, rfl⟩ : ∃ m, fuel = m + 1 := ⟨fuel - 1, by simp at hf; omega⟩
      simp [durView, Parser.parse_duration, inc_cons, Parser.parse_duration_loop1, Parser.parse_duration_loop1_top0,
        Parser.parse_duration_number_frac, Parser.parse_duration_number, toDigit10_eq, Except.toOption]
    | cons c r =>
      have hl := loop_spec fuel (c :: r).length (c :: r) (Nat.le_refl _) (by simp) (by simp at hf ⊢; omega) fuel (pre ++ ['P'])
        ParsedDuration.new false false 0 (by simp at hf ⊢; omega) (Int.le_refl 0)
      have h0 : toSt ParsedDuration.new false false 0 = {} := rfl
      rw [h0] at hl
      simp only []
      cases hm : lexFold {} (c :: r) with
      | error k =>
        rw [hm] at hl
        obtain ⟨e, he⟩ := hl
        simp [durView, Parser.parse_duration, inc_cons, he, Except.map, Except.toOption]
      | ok s =>
        rw [hm] at hl
        obtain ⟨self', d', lu', he, hto⟩ := hl
        have hp : toParsed d' = s.p := by rw [← hto]; rfl
        simp [durView, Parser.parse_duration, inc_cons, he, Except.map, Except.toOption, hp]

end Pendulum.IsoRsGen
