import Pendulum.Gen.IsoRs
/-! State invariant of the regenerated compiled parser (`Gen/IsoRs.lean`): the parser positioned after `pre`, in front of
`rest` (`stAt pre rest`), and what the primitive operations `inc`, `end`, `current` do on it. -/
namespace Pendulum.IsoRsGen
open Pendulum Pendulum.RsStd Pendulum.Gen.IsoRs

/-- the parser after consuming `pre`, looking at the first character of `rest` -/
def stAt (pre rest : List Char) : Parser :=
  { src := pre ++ rest,
    chars := charIndicesFrom (ulen pre + (rest.head?.map Char.utf8Size).getD 0) rest.tail,
    idx := ((ulen pre : Nat) : Int),
    current := rest.headD '\x00' }

theorem ulen_append (a b : List Char) : ulen (a ++ b) = ulen a + ulen b := by
  induction a with
  | nil => simp [ulen]
  | cons c cs ih => simp [ulen, ih]; omega

theorem ulen_eq_zero (a : List Char) : ulen a = 0 ↔ a = [] := by
  cases a with
  | nil => simp [ulen]
  | cons c cs => have := Char.utf8Size_pos c; simp [ulen]; omega

theorem new_eq (input : List Char) : Parser.new input = stAt [] input := by
  cases input with
  | nil => simp [Parser.new, Parser.inc, stAt, charIndices, charIndicesFrom, strLen, ulen]
  | cons c cs => simp [Parser.new, Parser.inc, stAt, charIndices, charIndicesFrom, ulen]

theorem inc_cons (pre : List Char) (c : Char) (rest : List Char) :
    Parser.inc (stAt pre (c :: rest)) = (rest.head?, stAt (pre ++ [c]) rest) := by
  cases rest with
  | nil => simp [Parser.inc, stAt, charIndicesFrom, strLen, ulen_append, ulen]
  | cons d ds => simp [Parser.inc, stAt, charIndicesFrom, ulen_append, ulen]

theorem inc_nil (pre : List Char) : Parser.inc (stAt pre []) = (none, stAt pre []) := by
  simp [Parser.inc, stAt, charIndicesFrom, strLen]

theorem end_stAt (pre rest : List Char) : Parser.end_ (stAt pre rest) = rest.isEmpty := by
  cases rest with
  | nil => simp [Parser.end_, stAt, strLen]
  | cons c cs =>
    have := Char.utf8Size_pos c
    simp [Parser.end_, stAt, strLen, ulen_append, ulen]
    omega

@[simp] theorem current_stAt (pre rest : List Char) : (stAt pre rest).current = rest.headD '\x00' := rfl
@[simp] theorem idx_stAt (pre rest : List Char) : (stAt pre rest).idx = ((ulen pre : Nat) : Int) := rfl
@[simp] theorem src_stAt (pre rest : List Char) : (stAt pre rest).src = pre ++ rest := rfl

/-! ### ASCII digits -/

theorem toDigit10_eq (c : Char) : toDigit10 c = if isAsciiDigit c then some ((c.toNat - 48 : Nat) : Int) else none := by
  unfold toDigit10 isAsciiDigit
  by_cases h : 48 ≤ c.toNat ∧ c.toNat ≤ 57
  · simp [h]; omega
  · simp [h]

/-- the leading ASCII digits / what follows them -/
def digs (cs : List Char) : List Char := cs.takeWhile isAsciiDigit
def afterDigs (cs : List Char) : List Char := cs.dropWhile isAsciiDigit

def dval (c : Char) : Nat := c.toNat - 48

theorem digs_append_afterDigs (cs : List Char) : digs cs ++ afterDigs cs = cs := List.takeWhile_append_dropWhile

theorem afterDigs_head (cs : List Char) : ∀ c r, afterDigs cs = c :: r → isAsciiDigit c = false := by
  intro c r h
  have := List.head_dropWhile_not (p := isAsciiDigit) (l := cs) (by simp [afterDigs] at h; simp [h])
  simp [afterDigs] at h
  simpa [h] using this

@[simp] theorem zero_not_digit : isAsciiDigit '\x00' = false := by decide

theorem dval_lt (c : Char) (h : isAsciiDigit c = true) : dval c < 10 := by
  simp [isAsciiDigit] at h; simp [dval]; omega

theorem digs_cons_pos (c : Char) (r : List Char) (h : isAsciiDigit c = true) : digs (c :: r) = c :: digs r := by
  simp [digs, List.takeWhile, h]
theorem afterDigs_cons_pos (c : Char) (r : List Char) (h : isAsciiDigit c = true) : afterDigs (c :: r) = afterDigs r := by
  simp [afterDigs, List.dropWhile, h]
theorem digs_cons_neg (c : Char) (r : List Char) (h : isAsciiDigit c = false) : digs (c :: r) = [] := by
  simp [digs, List.takeWhile, h]
theorem afterDigs_cons_neg (c : Char) (r : List Char) (h : isAsciiDigit c = false) : afterDigs (c :: r) = c :: r := by
  simp [afterDigs, List.dropWhile, h]

theorem digs_all (cs : List Char) : ∀ d ∈ digs cs, isAsciiDigit d = true := by
  induction cs with
  | nil => intro d hd; simp [digs] at hd
  | cons c cs ih =>
    intro d hd
    by_cases hc : isAsciiDigit c = true
    · rw [digs_cons_pos c cs hc] at hd
      rcases List.mem_cons.mp hd with h | h
      · rw [h]; exact hc
      · exact ih d h
    · rw [digs_cons_neg c cs (by simpa using hc)] at hd
      simp at hd


/-! ### the parser is positioned in front of `r` -/

def At (self : Parser) (r : List Char) : Prop := ∃ pre, self = stAt pre r

theorem At.cur {self : Parser} {r : List Char} (h : At self r) : self.current = r.headD '\x00' := by
  obtain ⟨p, rfl⟩ := h; rfl
theorem At.end_ {self : Parser} {r : List Char} (h : At self r) : Parser.end_ self = r.isEmpty := by
  obtain ⟨p, rfl⟩ := h; exact end_stAt p r
theorem At.inc {self : Parser} {c : Char} {r : List Char} (h : At self (c :: r)) : At (Parser.inc self).2 r := by
  obtain ⟨p, rfl⟩ := h; exact ⟨p ++ [c], by rw [inc_cons]⟩
theorem At.new (input : List Char) : At (Parser.new input) input := ⟨[], new_eq input⟩

end Pendulum.IsoRsGen
