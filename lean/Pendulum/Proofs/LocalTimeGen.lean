import Pendulum.Model.LocalTime
import Pendulum.Proofs.LocalTime
import Pendulum.Gen.LocalTime
import Lean.Elab.Tactic
/-! Tie between the *generated* translations of `local_time` (`Pendulum.Gen.py_local_time` from `_helpers.py`,
`Pendulum.Gen.rs_local_time` from `rust/src/helpers.rs`; regenerated on every run by tools/gen_localtime.py) and the
hand model `Pendulum.LocalTime.localTime` the C15 theorems are stated about.

Structure:
* `localTimeF F` is the hand model with the loop cut `F` as a parameter (the hand model itself uses 8/40/8/12);
* `*_local_time_fuel_eq`: generated = `localTimeF F`, for every cut `F`, every timestamp and offset (purely structural:
  loop by loop, statement by statement);
* `localTimeF_eq`: `localTimeF F = localTime` for every `F ≥ 40` (the loops are left through their condition);
* `*_local_time_eq_model`: generated = hand model for ALL integers `t`, `off` (no range hypothesis). -/
namespace Pendulum.LocalTimeGen
open Pendulum Pendulum.LocalTime Pendulum.Gen

/-- `tie "name" => tacs`: run `tacs`; when they fail, say which generated-model tie theorem broke (the check prints
    the build log, and Lean's own messages carry positions only). A failure inside a sub-proof (`·`, `induction … with`)
    surfaces as an internal `abortTactic` exception after its message was logged: those messages are collected too. -/
elab "tie " n:str " => " t:tacticSeq : tactic => do
  let n0 := (← Lean.Core.getMessageLog).toList.length
  let fail (msg : String) : Lean.Elab.Tactic.TacticM Unit := do
    let msg := if msg.length > 700 then (msg.take 700).toString ++ " …" else msg
    throwError "GENERATED-MODEL TIE BROKEN: theorem Pendulum.LocalTimeGen.{n.getString} — Gen/LocalTime.lean (regenerated from _helpers.py / rust/src/helpers.rs `local_time`) no longer equals Model/LocalTime.lean:\n{msg}\n(end of broken tie theorem Pendulum.LocalTimeGen.{n.getString})"
  let attempt : Lean.Elab.Tactic.TacticM (Option String) := do
    Lean.Elab.Tactic.withoutRecover (Lean.Elab.Tactic.evalTactic t)
    unless (← Lean.Elab.Tactic.getGoals).isEmpty do
      throwError "unsolved goals\n{Lean.Elab.goalsToMessageData (← Lean.Elab.Tactic.getGoals)}"
    pure none
  let handler (e : Lean.Exception) : Lean.Elab.Tactic.TacticM (Option String) := do
    if e.isRuntime then throw e
    if e matches .error .. then
      return some (← e.toMessageData.toString)
    let logged := (← Lean.Core.getMessageLog).toList.drop n0
    let mut txt := ""
    for m in logged do
      if m.severity == .error then txt := txt ++ (← m.data.toString) ++ "\n"
    let log ← Lean.Core.getMessageLog
    Lean.Core.setMessageLog ((log.toList.take n0).foldl (fun l m => l.add m) { log with unreported := {} })
    return some (if txt.isEmpty then "a sub-proof of the tie was left with unsolved goals" else txt)
  -- catch at the TermElabM level: the TacticM `try … catch` rolls the message log back together with the tactic state
  let r : Option String ← controlAt Lean.Elab.Term.TermElabM fun runInBase =>
    tryCatch (runInBase attempt) (fun e => runInBase (handler e))
  match r with
  | none => pure ()
  | some msg => fail msg

/-! ## the hand model with the loop cut as a parameter -/

def yearPartF (F : Nat) (T : Tbl) (s0 y0 : Int) : Int × Int × Int :=
  let r1 := chunkLoop F T.s100 100 0 s0 y0 1
  let r2 := chunkLoop F T.s4 4 1 r1.1 r1.2.1 r1.2.2
  chunkLoop F T.s1 1 0 r2.1 r2.2.1 r2.2.2

def localTimeF (F : Nat) (rs : Bool) (T : Tbl) (unixTime utcOffset : Int) : Int × Int × Int × Int × Int × Int :=
  let b := shiftBase T unixTime utcOffset
  let c := reduce400 rs T b.1 b.2
  let yp := yearPartF F T c.1 c.2
  let day := yp.1 / T.secsPerDay + 1
  let seconds := yp.1 % T.secsPerDay
  let md := monthWalk F (if yp.2.2 == 1 then T.moff1 else T.moff0) 12 day
  let hour := seconds / T.secsPerHour
  let seconds := seconds % T.secsPerHour
  (yp.2.1, md.1, md.2, hour, seconds / T.secsPerMin, seconds % T.secsPerMin)

/-- the same, with the three things the two sources spell differently as parameters: the two-level offsets table
    `sel leap month`, and the division / remainder used after the year loops (`dv`, `md`) -/
def localTimeG (F : Nat) (rs : Bool) (T : Tbl) (sel : Int → Int → Int) (dv md : Int → Int → Int)
    (unixTime utcOffset : Int) : Int × Int × Int × Int × Int × Int :=
  let b := shiftBase T unixTime utcOffset
  let c := reduce400 rs T b.1 b.2
  let yp := yearPartF F T c.1 c.2
  let day := dv yp.1 T.secsPerDay + 1
  let seconds := md yp.1 T.secsPerDay
  let mw := monthWalk F (sel yp.2.2) 12 day
  let hour := dv seconds T.secsPerHour
  let seconds := md seconds T.secsPerHour
  (yp.2.1, mw.1, mw.2, hour, dv seconds T.secsPerMin, md seconds T.secsPerMin)

/-! ### the cut is immaterial from 40 on -/

/-- two cuts that both exceed the number of iterations give the same result -/
theorem chunkLoop_fuel (f g : Nat) (size : Int → Int) (step after s y lp : Int)
    (hs : 0 ≤ s) (hB : 0 < size after)
    (hf : (s - size lp) / size after < f) (hg : (s - size lp) / size after < g) :
    chunkLoop (f + 1) size step after s y lp = chunkLoop (g + 1) size step after s y lp := by
  rw [chunkLoop_closed f size step after s y lp hs hB hf, chunkLoop_closed g size step after s y lp hs hB hg]

theorem stage1F (F : Nat) (hF : 8 ≤ F) (s0 y0 : Int) (h0 : 0 ≤ s0) (h1 : s0 < S400) :
    chunkLoop F pyTbl.s100 100 0 s0 y0 1 = chunkLoop 8 pyTbl.s100 100 0 s0 y0 1 := by
  obtain ⟨f, rfl⟩ : ∃ f, F = f + 1 := ⟨F - 1, by omega⟩
  obtain ⟨t1, t0, _⟩ := tbl_vals
  exact chunkLoop_fuel f 7 _ _ _ _ _ _ h0 (by rw [t0]; decide)
    (by rw [t1, t0]; unfold C1 C0 S400 at *; omega) (by rw [t1, t0]; unfold C1 C0 S400 at *; omega)

theorem stage2F (F : Nat) (hF : 40 ≤ F) (s1 y1 : Int) (lp : Bool) (h0 : 0 ≤ s1) (h1 : s1 < (if lp then C1 else C0)) :
    chunkLoop F pyTbl.s4 4 1 s1 y1 (flag lp) = chunkLoop 40 pyTbl.s4 4 1 s1 y1 (flag lp) := by
  obtain ⟨f, rfl⟩ : ∃ f, F = f + 1 := ⟨F - 1, by omega⟩
  obtain ⟨_, _, t1, t0, _⟩ := tbl_vals
  have hsz : pyTbl.s4 (flag lp) = (if lp then Q1 else Q0) := by cases lp <;> simp [flag, t1, t0]
  have hb : (s1 - pyTbl.s4 (flag lp)) / pyTbl.s4 1 < 39 := by
    rw [hsz, t1]; cases lp <;> simp only [if_true, if_false, Bool.false_eq_true] at * <;> unfold C1 C0 Q1 Q0 at * <;> omega
  exact chunkLoop_fuel f 39 _ _ _ _ _ _ h0 (by rw [t1]; decide) (by omega) hb

theorem stage3F (F : Nat) (hF : 8 ≤ F) (s2 y2 : Int) (lp : Bool) (h0 : 0 ≤ s2) (h1 : s2 < (if lp then Q1 else Q0)) :
    chunkLoop F pyTbl.s1 1 0 s2 y2 (flag lp) = chunkLoop 8 pyTbl.s1 1 0 s2 y2 (flag lp) := by
  obtain ⟨f, rfl⟩ : ∃ f, F = f + 1 := ⟨F - 1, by omega⟩
  obtain ⟨_, _, _, _, t1, t0, _⟩ := tbl_vals
  have hsz : pyTbl.s1 (flag lp) = (if lp then Y1 else Y0) := by cases lp <;> simp [flag, t1, t0]
  have hb : (s2 - pyTbl.s1 (flag lp)) / pyTbl.s1 0 < 7 := by
    rw [hsz, t0]; cases lp <;> simp only [if_true, if_false, Bool.false_eq_true] at * <;> unfold Q1 Q0 Y1 Y0 at * <;> omega
  exact chunkLoop_fuel f 7 _ _ _ _ _ _ h0 (by rw [t0]; decide) (by omega) hb

/-- inside one 400-year cycle the three chunk loops do not notice a cut ≥ 40 -/
theorem yearPartF_eq (F : Nat) (hF : 40 ≤ F) (s0 y0 : Int) (h0 : 0 ≤ s0) (h1 : s0 < S400) :
    yearPartF F pyTbl s0 y0 = yearPart pyTbl s0 y0 := by
  obtain ⟨a1, a2, a3, a4, a5⟩ := st1 s0 h0 h1
  generalize hr1 : closed s0 C1 C0 = r1 at *
  obtain ⟨s1, n1⟩ := r1
  simp only [] at a1 a2 a3 a4 a5
  have hl1 : s1 < (if decide (n1 = 0) then C1 else C0) := by
    by_cases c : n1 = 0 <;> simp [c] at a4 ⊢ <;> exact a4
  obtain ⟨b1, b2, b3, b4, b5⟩ := st2 s1 (decide (n1 = 0)) a1 hl1
  generalize hr2 : closed s1 (if decide (n1 = 0) then Q1 else Q0) Q1 = r2 at *
  obtain ⟨s2, n2⟩ := r2
  simp only [] at b1 b2 b3 b4 b5
  have hl2 : s2 < (if (if n2 = 0 then decide (n1 = 0) else true) then Q1 else Q0) := by
    by_cases c : n2 = 0 <;> simp [c] at b4 ⊢ <;> exact b4
  unfold yearPartF yearPart
  simp only []
  rw [stage1F F (by omega) s0 y0 h0 h1, stage1 s0 y0 h0 h1, hr1]
  simp only []
  rw [stage2F F hF s1 (y0 + 100 * n1) (decide (n1 = 0)) a1 hl1, stage2 s1 (y0 + 100 * n1) (decide (n1 = 0)) a1 hl1, hr2]
  simp only []
  rw [stage3F F (by omega) s2 (y0 + 100 * n1 + 4 * n2) (if n2 = 0 then decide (n1 = 0) else true) b1 hl2]

theorem monthWalk_stable (off : Int → Int) (k : Nat) :
    ∀ (f : Nat) (m d : Int), 1 ≤ m → m ≤ f + 1 → monthWalk (f + k) off m d = monthWalk f off m d := by
  intro f
  induction f with
  | zero =>
    intro m d h1 h2
    have hm : m = 1 := by omega
    subst hm
    cases k with
    | zero => rfl
    | succ k => simp [monthWalk]
  | succ f ih =>
    intro m d h1 h2
    rw [show f + 1 + k = (f + k) + 1 by omega]
    simp only [monthWalk]
    by_cases c1 : m = 1
    · simp [c1]
    · by_cases c2 : d > off m
      · simp [c1, c2]
      · simp only [beq_iff_eq, c1, c2, if_false]
        exact ih (m - 1) d (by omega) (by omega)

theorem reduce400_range (rs : Bool) (s y : Int) :
    0 ≤ (reduce400 rs pyTbl s y).1 ∧ (reduce400 rs pyTbl s y).1 < S400 := by
  have hf : 0 ≤ (reduce400 false pyTbl s y).1 ∧ (reduce400 false pyTbl s y).1 < S400 := by
    obtain ⟨_, _, _, _, _, _, t400, _⟩ := tbl_vals
    simp only [reduce400, Bool.false_eq_true, if_false, t400]
    have : 0 ≤ s % S400 ∧ s % S400 < S400 := by unfold S400; omega
    have hnn : ¬ (s % S400 < 0) := by omega
    simp only [hnn, if_false]
    exact this
  cases rs
  · exact hf
  · rw [reduce400_rs pyTbl (by decide)]; exact hf

/-- **the loop cut is immaterial**: for every cut `F ≥ 40` the fuel-parametrised model is the hand model -/
theorem localTimeF_eq (F : Nat) (hF : 40 ≤ F) (rs : Bool) (t off : Int) :
    localTimeF F rs pyTbl t off = localTime rs pyTbl t off := by
  obtain ⟨k, rfl⟩ : ∃ k, F = 12 + k := ⟨F - 12, by omega⟩
  have hr := reduce400_range rs (shiftBase pyTbl t off).1 (shiftBase pyTbl t off).2
  simp only [localTimeF, localTime]
  rw [yearPartF_eq (12 + k) hF _ _ hr.1 hr.2]
  rw [monthWalk_stable _ k 12 12 _ (by omega) (by omega)]

/-! ### facts about the model's loops used by the ties -/

theorem chunkLoop_flag (size : Int → Int) (step after : Int) :
    ∀ (f : Nat) (s y lp : Int), (chunkLoop f size step after s y lp).2.2 = lp ∨
      (chunkLoop f size step after s y lp).2.2 = after := by
  intro f
  induction f with
  | zero => intro s y lp; exact Or.inl rfl
  | succ f ih =>
    intro s y lp
    simp only [chunkLoop]
    by_cases c : s ≥ size lp
    · simp only [c, if_true]
      rcases ih (s - size lp) (y + step) after with h | h <;> exact Or.inr h
    · simp only [c, if_false]; exact Or.inl trivial

theorem chunkLoop_nonneg (size : Int → Int) (step after : Int) :
    ∀ (f : Nat) (s y lp : Int), 0 ≤ s → 0 ≤ (chunkLoop f size step after s y lp).1 := by
  intro f
  induction f with
  | zero => intro s y lp h; exact h
  | succ f ih =>
    intro s y lp h
    simp only [chunkLoop]
    by_cases c : s ≥ size lp
    · simp only [c, if_true]; exact ih _ _ _ (by omega)
    · simp only [c, if_false]; exact h

theorem yearPartF_flag (F : Nat) (T : Tbl) (s y : Int) :
    (yearPartF F T s y).2.2 = 0 ∨ (yearPartF F T s y).2.2 = 1 := by
  unfold yearPartF
  simp only []
  have h1 := chunkLoop_flag T.s100 100 0 F s y 1
  generalize chunkLoop F T.s100 100 0 s y 1 = r1 at *
  have h2 := chunkLoop_flag T.s4 4 1 F r1.1 r1.2.1 r1.2.2
  generalize chunkLoop F T.s4 4 1 r1.1 r1.2.1 r1.2.2 = r2 at *
  have h3 := chunkLoop_flag T.s1 1 0 F r2.1 r2.2.1 r2.2.2
  omega

theorem yearPartF_nonneg (F : Nat) (T : Tbl) (s y : Int) (h : 0 ≤ s) : 0 ≤ (yearPartF F T s y).1 := by
  unfold yearPartF
  simp only []
  exact chunkLoop_nonneg _ _ _ _ _ _ _ (chunkLoop_nonneg _ _ _ _ _ _ _ (chunkLoop_nonneg _ _ _ _ _ _ _ h))

/-- a two-level table that has the model's two rows at 0 and 1 is what the model selects with `if leap == 1`,
    and floor division is what the model uses — because the leap flag is 0 or 1 -/
theorem localTimeG_sel (F : Nat) (rs : Bool) (T : Tbl) (sel : Int → Int → Int) (h0 : sel 0 = T.moff0) (h1 : sel 1 = T.moff1)
    (t off : Int) :
    localTimeG F rs T sel (fun a b => a / b) (fun a b => a % b) t off = localTimeF F rs T t off := by
  simp only [localTimeG, localTimeF]
  have h := yearPartF_flag F T (reduce400 rs T (shiftBase T t off).1 (shiftBase T t off).2).1
    (reduce400 rs T (shiftBase T t off).1 (shiftBase T t off).2).2
  generalize yearPartF F T _ _ = yp at *
  rcases h with h | h <;> simp [h, h0, h1]

/-- truncating division / remainder after the year loops act on non-negative values -/
theorem localTimeG_trunc (F : Nat) (rs : Bool) (sel : Int → Int → Int) (t off : Int) :
    localTimeG F rs pyTbl sel Int.tdiv Int.tmod t off =
      localTimeG F rs pyTbl sel (fun a b => a / b) (fun a b => a % b) t off := by
  simp only [localTimeG]
  have h := yearPartF_nonneg F pyTbl _ (reduce400 rs pyTbl (shiftBase pyTbl t off).1 (shiftBase pyTbl t off).2).2
    (reduce400_range rs (shiftBase pyTbl t off).1 (shiftBase pyTbl t off).2).1
  generalize yearPartF F pyTbl _ _ = yp at *
  obtain ⟨_, _, _, _, _, _, _, tD, tH, tM, _⟩ := tbl_vals
  rw [tD, tH, tM]
  have e1 : Int.tdiv yp.1 D = yp.1 / D := Int.tdiv_eq_ediv_of_nonneg h
  have e2 : Int.tmod yp.1 D = yp.1 % D := Int.tmod_eq_emod_of_nonneg h
  have n2 : 0 ≤ yp.1 % D := Int.emod_nonneg _ (by decide)
  have e3 : Int.tdiv (yp.1 % D) 3600 = yp.1 % D / 3600 := Int.tdiv_eq_ediv_of_nonneg n2
  have e4 : Int.tmod (yp.1 % D) 3600 = yp.1 % D % 3600 := Int.tmod_eq_emod_of_nonneg n2
  have n4 : 0 ≤ yp.1 % D % 3600 := Int.emod_nonneg _ (by decide)
  have e5 : Int.tdiv (yp.1 % D % 3600) 60 = yp.1 % D % 3600 / 60 := Int.tdiv_eq_ediv_of_nonneg n4
  have e6 : Int.tmod (yp.1 % D % 3600) 60 = yp.1 % D % 3600 % 60 := Int.tmod_eq_emod_of_nonneg n4
  rw [e1, e2, e3, e4, e5, e6]

/-- the tie of one generated chunk loop (`while seconds >= size: …`) to `chunkLoop` over the table `tbl` -/
macro "chunk_loop_tie " l:ident tbl:ident : tactic => `(tactic| (
    intro f
    induction f with
    | zero => intro y s lp; simp only [$l:ident, chunkLoop]
    | succ f ih =>
      intro y s lp
      simp only [$l:ident, chunkLoop, decide_eq_true_eq]
      by_cases c : s ≥ $tbl lp
      · simp only [c, if_true, ih]
      · simp only [c, if_false]))

/-- the tie of a generated month walk to `monthWalk` (`jan` : the loop's bound `TM_JANUARY + 1` is 1) -/
macro "month_loop_tie " l:ident jan:ident tbl:ident : tactic => `(tactic| (
    intro f
    induction f with
    | zero => intro m d lp; simp only [$l:ident, monthWalk]
    | succ f ih =>
      intro m d lp
      simp only [$l:ident, monthWalk, decide_eq_true_eq, $jan:ident]
      by_cases c1 : m = 1
      · simp [c1]
      · by_cases c2 : d > $tbl lp m <;> simp [c1, c2, ih]))

/-! ## Python: `_helpers.py::local_time` -/

theorem py_jan : py_TM_JANUARY + (1 : Int) = 1 := by decide
theorem py_dec : py_TM_DECEMBER + (1 : Int) = 12 := by decide

theorem py_loop1_eq : ∀ (f : Nat) (y s lp : Int),
    py_local_time_loop1 f y s lp (py_SECS_PER_100_YEARS lp) =
      ((chunkLoop f py_SECS_PER_100_YEARS 100 0 s y lp).2.1, (chunkLoop f py_SECS_PER_100_YEARS 100 0 s y lp).1,
       (chunkLoop f py_SECS_PER_100_YEARS 100 0 s y lp).2.2,
       py_SECS_PER_100_YEARS (chunkLoop f py_SECS_PER_100_YEARS 100 0 s y lp).2.2) := by
  tie "py_loop1_eq" => chunk_loop_tie py_local_time_loop1 py_SECS_PER_100_YEARS

theorem py_loop2_eq : ∀ (f : Nat) (y s lp : Int),
    py_local_time_loop2 f y s lp (py_SECS_PER_4_YEARS lp) =
      ((chunkLoop f py_SECS_PER_4_YEARS 4 1 s y lp).2.1, (chunkLoop f py_SECS_PER_4_YEARS 4 1 s y lp).1,
       (chunkLoop f py_SECS_PER_4_YEARS 4 1 s y lp).2.2,
       py_SECS_PER_4_YEARS (chunkLoop f py_SECS_PER_4_YEARS 4 1 s y lp).2.2) := by
  tie "py_loop2_eq" => chunk_loop_tie py_local_time_loop2 py_SECS_PER_4_YEARS

theorem py_loop3_eq : ∀ (f : Nat) (y s lp : Int),
    py_local_time_loop3 f y s lp (py_SECS_PER_YEAR lp) =
      ((chunkLoop f py_SECS_PER_YEAR 1 0 s y lp).2.1, (chunkLoop f py_SECS_PER_YEAR 1 0 s y lp).1,
       (chunkLoop f py_SECS_PER_YEAR 1 0 s y lp).2.2,
       py_SECS_PER_YEAR (chunkLoop f py_SECS_PER_YEAR 1 0 s y lp).2.2) := by
  tie "py_loop3_eq" => chunk_loop_tie py_local_time_loop3 py_SECS_PER_YEAR

theorem py_loop4_eq : ∀ (f : Nat) (m d lp : Int),
    py_local_time_loop4 f m d lp = monthWalk f (py_MONTHS_OFFSETS_at lp) m d := by
  tie "py_loop4_eq" => month_loop_tie py_local_time_loop4 py_jan py_MONTHS_OFFSETS_at

/-- structural tie, every cut `F`, every integer timestamp and offset: statement by statement -/
theorem py_local_time_fuel_struct (F : Nat) (t off : Int) :
    py_local_time_fuel F t off =
      localTimeG F false pyTbl py_MONTHS_OFFSETS_at (fun a b => a / b) (fun a b => a % b) t off := by
  tie "py_local_time_fuel_struct" =>
    by_cases c : t ≥ 0 <;>
    simp only [py_local_time_fuel, localTimeG, shiftBase, reduce400, yearPartF, pyTbl, Bool.false_eq_true, if_false, if_true, c,
      py_loop1_eq, py_loop2_eq, py_loop3_eq, py_loop4_eq, decide_eq_true_eq, py_dec, apply_ite Prod.fst, apply_ite Prod.snd]

/-- `_helpers.py::local_time` (regenerated) is the fuel-parametrised hand model, for every cut -/
theorem py_local_time_fuel_eq (F : Nat) (t off : Int) :
    py_local_time_fuel F t off = localTimeF F false pyTbl t off := by
  tie "py_local_time_fuel_eq" =>
    rw [py_local_time_fuel_struct, localTimeG_sel F false pyTbl py_MONTHS_OFFSETS_at (by funext j; rfl) (by funext j; rfl)]

/-- **tie, Python**: the regenerated `_helpers.py::local_time` equals the hand model for ALL integers `t`, `off` -/
theorem py_local_time_eq_model (t off : Int) : py_local_time t off = localTime false pyTbl t off := by
  tie "py_local_time_eq_model" =>
    rw [py_local_time, py_local_time_fuel_eq, localTimeF_eq 64 (by decide)]

/-- the loop cut of the generated definition is immaterial: every cut from 40 on gives the same result -/
theorem py_local_time_fuel_indep (F : Nat) (hF : 40 ≤ F) (t off : Int) :
    py_local_time_fuel F t off = py_local_time t off := by
  tie "py_local_time_fuel_indep" =>
    rw [py_local_time_eq_model, py_local_time_fuel_eq, localTimeF_eq F hF]


/-! ## Rust: `rust/src/helpers.rs::local_time` -/

theorem rs_jan : rs_TM_JANUARY + (1 : Int) = 1 := by decide
theorem rs_dec : rs_TM_DECEMBER + (1 : Int) = 12 := by decide

theorem rs_loop1_eq : ∀ (f : Nat) (y s lp : Int),
    rs_local_time_loop1 f y s lp (rs_SECS_PER_100_YEARS lp) =
      ((chunkLoop f rs_SECS_PER_100_YEARS 100 0 s y lp).2.1, (chunkLoop f rs_SECS_PER_100_YEARS 100 0 s y lp).1,
       (chunkLoop f rs_SECS_PER_100_YEARS 100 0 s y lp).2.2,
       rs_SECS_PER_100_YEARS (chunkLoop f rs_SECS_PER_100_YEARS 100 0 s y lp).2.2) := by
  tie "rs_loop1_eq" => chunk_loop_tie rs_local_time_loop1 rs_SECS_PER_100_YEARS

theorem rs_loop2_eq : ∀ (f : Nat) (y s lp : Int),
    rs_local_time_loop2 f y s lp (rs_SECS_PER_4_YEARS lp) =
      ((chunkLoop f rs_SECS_PER_4_YEARS 4 1 s y lp).2.1, (chunkLoop f rs_SECS_PER_4_YEARS 4 1 s y lp).1,
       (chunkLoop f rs_SECS_PER_4_YEARS 4 1 s y lp).2.2,
       rs_SECS_PER_4_YEARS (chunkLoop f rs_SECS_PER_4_YEARS 4 1 s y lp).2.2) := by
  tie "rs_loop2_eq" => chunk_loop_tie rs_local_time_loop2 rs_SECS_PER_4_YEARS

theorem rs_loop3_eq : ∀ (f : Nat) (y s lp : Int),
    rs_local_time_loop3 f y s lp (rs_SECS_PER_YEAR lp) =
      ((chunkLoop f rs_SECS_PER_YEAR 1 0 s y lp).2.1, (chunkLoop f rs_SECS_PER_YEAR 1 0 s y lp).1,
       (chunkLoop f rs_SECS_PER_YEAR 1 0 s y lp).2.2,
       rs_SECS_PER_YEAR (chunkLoop f rs_SECS_PER_YEAR 1 0 s y lp).2.2) := by
  tie "rs_loop3_eq" => chunk_loop_tie rs_local_time_loop3 rs_SECS_PER_YEAR

theorem rs_loop4_eq : ∀ (f : Nat) (m d lp : Int),
    rs_local_time_loop4 f m d lp = monthWalk f (rs_MONTHS_OFFSETS_at lp) m d := by
  tie "rs_loop4_eq" => month_loop_tie rs_local_time_loop4 rs_jan rs_MONTHS_OFFSETS_at

/-- structural tie, every cut `F`, every integer timestamp and offset: statement by statement
    (truncating `/`, `%` throughout, as in the source) -/
theorem rs_local_time_fuel_struct (F : Nat) (t off : Int) :
    rs_local_time_fuel F t off = localTimeG F true rsTbl rs_MONTHS_OFFSETS_at Int.tdiv Int.tmod t off := by
  tie "rs_local_time_fuel_struct" =>
    by_cases c : t ≥ 0 <;>
    simp only [rs_local_time_fuel, localTimeG, shiftBase, reduce400, yearPartF, rsTbl, if_false, if_true, c,
      rs_loop1_eq, rs_loop2_eq, rs_loop3_eq, rs_loop4_eq, decide_eq_true_eq, rs_dec, apply_ite Prod.fst, apply_ite Prod.snd]

/-- `rust/src/helpers.rs::local_time` (regenerated) is the fuel-parametrised hand model, for every cut -/
theorem rs_local_time_fuel_eq (F : Nat) (t off : Int) :
    rs_local_time_fuel F t off = localTimeF F true rsTbl t off := by
  tie "rs_local_time_fuel_eq" =>
    rw [rs_local_time_fuel_struct, rsTbl_eq, localTimeG_trunc,
      localTimeG_sel F true pyTbl rs_MONTHS_OFFSETS_at (by funext j; rfl) (by funext j; rfl)]

/-- **tie, Rust**: the regenerated `rust/src/helpers.rs::local_time` equals the hand model for ALL integers `t`, `off` -/
theorem rs_local_time_eq_model (t off : Int) : rs_local_time t off = localTime true rsTbl t off := by
  tie "rs_local_time_eq_model" =>
    rw [rs_local_time, rs_local_time_fuel_eq, rsTbl_eq, localTimeF_eq 64 (by decide)]

theorem rs_local_time_fuel_indep (F : Nat) (hF : 40 ≤ F) (t off : Int) :
    rs_local_time_fuel F t off = rs_local_time t off := by
  tie "rs_local_time_fuel_indep" =>
    rw [rs_local_time_eq_model, rs_local_time_fuel_eq, rsTbl_eq, localTimeF_eq F hF]

end Pendulum.LocalTimeGen
