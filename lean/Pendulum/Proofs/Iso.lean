import Pendulum.Model.Iso
/-! Lemmas about the ISO 8601 parser model, one per production (`Model/Iso.lean`). -/
set_option linter.unusedSimpArgs false
namespace Pendulum.Iso
open Pendulum

/-! ### digits -/

theorem lt10_cases {d : Nat} (h : d < 10) :
    d = 0 ∨ d = 1 ∨ d = 2 ∨ d = 3 ∨ d = 4 ∨ d = 5 ∨ d = 6 ∨ d = 7 ∨ d = 8 ∨ d = 9 := by omega

theorem dv_digitChar (b : Backend) (d : Nat) (h : d < 10) : dv b (digitChar d) = some d := by
  rcases lt10_cases h with h|h|h|h|h|h|h|h|h|h <;> subst h <;> cases b <;> decide

@[simp] theorem dv_digitChar_mod (b : Backend) (n : Nat) : dv b (digitChar (n % 10)) = some (n % 10) :=
  dv_digitChar b _ (Nat.mod_lt _ (by decide))

/-- the separator characters of the grammar are not digits (either backend) -/
theorem dv_sep (b : Backend) :
    dv b '-' = none ∧ dv b ':' = none ∧ dv b 'T' = none ∧ dv b ' ' = none ∧ dv b 'W' = none ∧ dv b '.' = none ∧
    dv b ',' = none ∧ dv b '+' = none ∧ dv b 'Z' = none ∧ dv b 'P' = none ∧ dv b '/' = none ∧ dv b '\n' = none := by
  cases b <;> decide

theorem ne_of_dv {b : Backend} {c x : Char} {d : Nat} (h : dv b c = some d) (hx : dv b x = none) : c ≠ x := by
  intro e; rw [e, hx] at h; cases h

/-- a rendered digit is none of the separator characters -/
theorem digitChar_ne (n : Nat) :
    digitChar (n % 10) ≠ '-' ∧ digitChar (n % 10) ≠ ':' ∧ digitChar (n % 10) ≠ 'T' ∧ digitChar (n % 10) ≠ ' ' ∧
    digitChar (n % 10) ≠ 'W' ∧ digitChar (n % 10) ≠ '.' ∧ digitChar (n % 10) ≠ ',' ∧ digitChar (n % 10) ≠ '+' ∧
    digitChar (n % 10) ≠ 'Z' ∧ digitChar (n % 10) ≠ 'P' ∧ digitChar (n % 10) ≠ '/' ∧ digitChar (n % 10) ≠ '\n' := by
  have h := dv_digitChar_mod .rust n
  have s := dv_sep .rust
  exact ⟨ne_of_dv h s.1, ne_of_dv h s.2.1, ne_of_dv h s.2.2.1, ne_of_dv h s.2.2.2.1, ne_of_dv h s.2.2.2.2.1,
    ne_of_dv h s.2.2.2.2.2.1, ne_of_dv h s.2.2.2.2.2.2.1, ne_of_dv h s.2.2.2.2.2.2.2.1, ne_of_dv h s.2.2.2.2.2.2.2.2.1,
    ne_of_dv h s.2.2.2.2.2.2.2.2.2.1, ne_of_dv h s.2.2.2.2.2.2.2.2.2.2.1, ne_of_dv h s.2.2.2.2.2.2.2.2.2.2.2⟩

@[simp] theorem dc_ne_dash (n : Nat) : (digitChar (n % 10) = '-') = False := eq_false (digitChar_ne n).1
@[simp] theorem dc_ne_colon (n : Nat) : (digitChar (n % 10) = ':') = False := eq_false (digitChar_ne n).2.1
@[simp] theorem dc_ne_T (n : Nat) : (digitChar (n % 10) = 'T') = False := eq_false (digitChar_ne n).2.2.1
@[simp] theorem dc_ne_sp (n : Nat) : (digitChar (n % 10) = ' ') = False := eq_false (digitChar_ne n).2.2.2.1
@[simp] theorem dc_ne_W (n : Nat) : (digitChar (n % 10) = 'W') = False := eq_false (digitChar_ne n).2.2.2.2.1
@[simp] theorem dc_ne_dot (n : Nat) : (digitChar (n % 10) = '.') = False := eq_false (digitChar_ne n).2.2.2.2.2.1
@[simp] theorem dc_ne_comma (n : Nat) : (digitChar (n % 10) = ',') = False := eq_false (digitChar_ne n).2.2.2.2.2.2.1
@[simp] theorem dc_ne_plus (n : Nat) : (digitChar (n % 10) = '+') = False := eq_false (digitChar_ne n).2.2.2.2.2.2.2.1
@[simp] theorem dc_ne_Z (n : Nat) : (digitChar (n % 10) = 'Z') = False := eq_false (digitChar_ne n).2.2.2.2.2.2.2.2.1
@[simp] theorem dc_ne_P (n : Nat) : (digitChar (n % 10) = 'P') = False := eq_false (digitChar_ne n).2.2.2.2.2.2.2.2.2.1
@[simp] theorem dc_ne_slash (n : Nat) : (digitChar (n % 10) = '/') = False := eq_false (digitChar_ne n).2.2.2.2.2.2.2.2.2.2.1
@[simp] theorem dc_ne_nl (n : Nat) : (digitChar (n % 10) = '\n') = False := eq_false (digitChar_ne n).2.2.2.2.2.2.2.2.2.2.2

/-- `exactN k` reads back `k` rendered digits -/
theorem exactN_digits (b : Backend) (k : Nat) : ∀ (acc n : Nat) (rest : List Char),
    exactN b k acc (digits k n ++ rest) = some (acc * 10 ^ k + n % 10 ^ k, rest) := by
  induction k with
  | zero => intro acc n rest; simp [exactN, digits, Nat.mod_one]
  | succ k ih =>
    intro acc n rest
    simp only [digits, List.cons_append, exactN, dv_digitChar_mod]
    rw [ih]
    congr 1
    congr 1
    have h1 : n % 10 ^ (k + 1) = (n / 10 ^ k % 10) * 10 ^ k + n % 10 ^ k := by
      rw [Nat.pow_succ, Nat.mod_mul, Nat.add_comm, Nat.mul_comm]
    rw [h1, Nat.pow_succ, Nat.add_mul]
    have e : 10 * acc * 10 ^ k = acc * (10 ^ k * 10) := by
      rw [Nat.mul_comm 10 acc, Nat.mul_assoc, Nat.mul_comm 10]
    rw [e]
    omega

theorem exactN2 (b : Backend) (n : Nat) (rest : List Char) (h : n < 100) :
    exactN b 2 0 (digits 2 n ++ rest) = some (n, rest) := by
  rw [exactN_digits]; simp; omega

theorem exactN1 (b : Backend) (n : Nat) (rest : List Char) (h : n < 10) :
    exactN b 1 0 (digits 1 n ++ rest) = some (n, rest) := by
  rw [exactN_digits]; simp; omega

theorem exactN4 (b : Backend) (n : Nat) (rest : List Char) (h : n < 10000) :
    exactN b 4 0 (digits 4 n ++ rest) = some (n, rest) := by
  rw [exactN_digits]; simp; omega

theorem digits4_split (y : Nat) : digits 4 y = digits 2 (y / 100) ++ digits 2 y := by
  simp only [digits, List.cons_append, List.nil_append]
  have e1 : y / 100 / 10 ^ 1 % 10 = y / 10 ^ 3 % 10 := by
    rw [Nat.div_div_eq_div_mul]
  have e2 : y / 100 / 10 ^ 0 % 10 = y / 10 ^ 2 % 10 := by simp
  rw [e1, e2]

theorem digits3_split (n : Nat) : digits 3 n = digits 2 (n / 10) ++ digits 1 n := by
  simp only [digits, List.cons_append, List.nil_append]
  have e1 : n / 10 / 10 ^ 1 % 10 = n / 10 ^ 2 % 10 := by
    rw [Nat.div_div_eq_div_mul]
  have e2 : n / 10 / 10 ^ 0 % 10 = n / 10 ^ 1 % 10 := by simp
  rw [e1, e2]

theorem digits2_split (n : Nat) : digits 2 n = digits 1 (n / 10) ++ digits 1 n := by
  simp only [digits, List.cons_append, List.nil_append]
  have e2 : n / 10 / 10 ^ 0 % 10 = n / 10 ^ 1 % 10 := by simp
  rw [e2]

/-- head of a non-empty rendering is a digit character of the form `digitChar (_ % 10)` -/
theorem digits_succ (k n : Nat) : digits (k + 1) n = digitChar (n / 10 ^ k % 10) :: digits k n := rfl


/-! ### one-character look-ahead on rendered strings -/

@[simp] theorem head_digits1 (n : Nat) (r : List Char) : (digits 1 n ++ r).head? = some (digitChar (n / 10 ^ 0 % 10)) := rfl
@[simp] theorem head_digits2 (n : Nat) (r : List Char) : (digits 2 n ++ r).head? = some (digitChar (n / 10 ^ 1 % 10)) := rfl
@[simp] theorem head_digits3 (n : Nat) (r : List Char) : (digits 3 n ++ r).head? = some (digitChar (n / 10 ^ 2 % 10)) := rfl
@[simp] theorem head_digits4 (n : Nat) (r : List Char) : (digits 4 n ++ r).head? = some (digitChar (n / 10 ^ 3 % 10)) := rfl

theorem optChar_digit (x : Char) (n : Nat) (r : List Char) (hx : digitChar (n % 10) ≠ x) :
    optChar x (digitChar (n % 10) :: r) = (false, digitChar (n % 10) :: r) := by
  simp [optChar, hx]

@[simp] theorem optChar_hit (x : Char) (r : List Char) : optChar x (x :: r) = (true, r) := by simp [optChar]
@[simp] theorem optChar_nil (x : Char) : optChar x [] = (false, []) := rfl

@[simp] theorem optDash_digits1 (n : Nat) (r : List Char) : optChar '-' (digits 1 n ++ r) = (false, digits 1 n ++ r) :=
  optChar_digit _ _ _ (digitChar_ne _).1
@[simp] theorem optDash_digits2 (n : Nat) (r : List Char) : optChar '-' (digits 2 n ++ r) = (false, digits 2 n ++ r) :=
  optChar_digit _ _ _ (digitChar_ne _).1
@[simp] theorem optDash_digits3 (n : Nat) (r : List Char) : optChar '-' (digits 3 n ++ r) = (false, digits 3 n ++ r) :=
  optChar_digit _ _ _ (digitChar_ne _).1
@[simp] theorem optW_digits2 (n : Nat) (r : List Char) : optChar 'W' (digits 2 n ++ r) = (false, digits 2 n ++ r) :=
  optChar_digit _ _ _ (digitChar_ne _).2.2.2.2.1
@[simp] theorem optW_digits3 (n : Nat) (r : List Char) : optChar 'W' (digits 3 n ++ r) = (false, digits 3 n ++ r) :=
  optChar_digit _ _ _ (digitChar_ne _).2.2.2.2.1
@[simp] theorem optColon_digits2 (n : Nat) (r : List Char) : optChar ':' (digits 2 n ++ r) = (false, digits 2 n ++ r) :=
  optChar_digit _ _ _ (digitChar_ne _).2.1
@[simp] theorem optColon_digits1 (n : Nat) (r : List Char) : optChar ':' (digits 1 n ++ r) = (false, digits 1 n ++ r) :=
  optChar_digit _ _ _ (digitChar_ne _).2.1

@[simp] theorem atSep_nil : atSep [] = true := rfl
@[simp] theorem atSep_T (r : List Char) : atSep ('T' :: r) = true := rfl
@[simp] theorem atSep_sp (r : List Char) : atSep (' ' :: r) = true := rfl
@[simp] theorem atSep_dash (r : List Char) : atSep ('-' :: r) = false := by simp [atSep]
theorem atSep_digit (n : Nat) (r : List Char) : atSep (digitChar (n % 10) :: r) = false := by
  simp [atSep]
@[simp] theorem atSep_digits1 (n : Nat) (r : List Char) : atSep (digits 1 n ++ r) = false := atSep_digit _ _
@[simp] theorem atSep_digits2 (n : Nat) (r : List Char) : atSep (digits 2 n ++ r) = false := atSep_digit _ _

/-- what may follow a date: nothing, or the `T` / space that introduces the time -/
def SepStart (rest : List Char) : Prop := rest = [] ∨ ∃ r, rest = 'T' :: r ∨ rest = ' ' :: r

theorem atSep_of_SepStart {rest : List Char} (h : SepStart rest) : atSep rest = true := by
  rcases h with h | ⟨r, h | h⟩ <;> subst h <;> rfl

/-! ### compiled parser: calendar dates -/

theorem rsDateRest_cal (ext : Bool) (y m d : Nat) (hm : m < 100) (hd : d < 100) (rest : List Char) :
    rsDateRest y (dash ext ++ (digits 2 m ++ (dash ext ++ (digits 2 d ++ rest)))) = .ok (((y : Int), (m : Int), (d : Int)), ext, rest) := by
  cases ext
  · rw [digits2_split d]
    simp only [dash, List.nil_append, List.append_assoc, rsDateRest, optDash_digits2, optW_digits2, rsBasicTail,
      exactN2 _ _ _ hm, exactN_digits, atSep_digits1, Bool.false_eq_true, if_false]
    have : (0 * 10 ^ 1 + d / 10 % 10 ^ 1) * 10 + (0 * 10 ^ 1 + d % 10 ^ 1) = d := by omega
    rw [this]
  · simp only [dash, List.cons_append, List.nil_append, List.append_assoc, rsDateRest, optChar_hit, optW_digits2,
      rsMonthTailExt, exactN2 _ _ _ hm, exactN2 _ _ _ hd, atSep_dash, if_true, Bool.false_eq_true, if_false]

theorem rsDateRest_ym (y m : Nat) (hm : m < 100) (rest : List Char) (hr : SepStart rest) :
    rsDateRest y ('-' :: (digits 2 m ++ rest)) = .ok (((y : Int), (m : Int), 1), true, rest) := by
  simp only [rsDateRest, optChar_hit, optW_digits2, rsMonthTailExt, exactN2 _ _ _ hm, atSep_of_SepStart hr, if_true,
    Bool.false_eq_true, if_false]


/-! ### compiled parser: ordinal and week dates, year prefix -/

theorem rsDateRest_ord (ext : Bool) (y n : Nat) (hn : n < 1000) (rest : List Char) (hr : SepStart rest) :
    rsDateRest y (dash ext ++ (digits 3 n ++ rest)) = withRest (rsOrdToYmd y n false) ext rest := by
  have e : ((n / 10 : Nat) : Int) * 10 + ((0 * 10 ^ 1 + n % 10 ^ 1 : Nat) : Int) = (n : Int) := by omega
  cases ext
  · rw [digits3_split]
    simp only [dash, List.nil_append, List.append_assoc, rsDateRest, optDash_digits2, optW_digits2, rsBasicTail,
      exactN2 _ _ _ (show n / 10 < 100 by omega), exactN_digits, atSep_of_SepStart hr, Bool.false_eq_true, if_false, if_true, e]
  · rw [digits3_split]
    simp only [dash, List.cons_append, List.nil_append, List.append_assoc, rsDateRest, optChar_hit, optW_digits2,
      rsMonthTailExt, exactN2 _ _ _ (show n / 10 < 100 by omega), exactN_digits, atSep_digits1, optDash_digits1,
      Bool.false_eq_true, if_false, if_true, e]

@[simp] theorem optDash_W (r : List Char) : optChar '-' ('W' :: r) = (false, 'W' :: r) := by simp [optChar]

theorem rsDateRest_weekday (ext : Bool) (y w wd : Nat) (hw : w < 100) (hwd : wd < 10) (rest : List Char) :
    rsDateRest y (dash ext ++ ('W' :: (digits 2 w ++ (dash ext ++ (digits 1 wd ++ rest))))) =
      withRest (rsIsoToYmd y w wd) ext rest := by
  cases ext
  · simp only [dash, List.nil_append, rsDateRest, optDash_W, optChar_hit, rsWeekTail, exactN2 _ _ _ hw, exactN1 _ _ _ hwd,
      atSep_digits1, Bool.false_eq_true, if_false, if_true]
  · simp only [dash, List.cons_append, List.nil_append, rsDateRest, optChar_hit, rsWeekTail, exactN2 _ _ _ hw,
      exactN1 _ _ _ hwd, atSep_dash, Bool.false_eq_true, if_false, if_true]

theorem rsDateRest_week (ext : Bool) (y w : Nat) (hw : w < 100) (rest : List Char) (hr : SepStart rest) :
    rsDateRest y (dash ext ++ ('W' :: (digits 2 w ++ rest))) = withRest (rsIsoToYmd y w 1) ext rest := by
  cases ext
  · simp only [dash, List.nil_append, rsDateRest, optDash_W, optChar_hit, rsWeekTail, exactN2 _ _ _ hw,
      atSep_of_SepStart hr, Bool.false_eq_true, if_false, if_true]
  · simp only [dash, List.cons_append, List.nil_append, rsDateRest, optChar_hit, rsWeekTail, exactN2 _ _ _ hw,
      atSep_of_SepStart hr, Bool.false_eq_true, if_false, if_true]

/-- the compiled parser reads the year as 2 + 2 digits and hands over to the date productions -/
theorem rsParse_year (y : Nat) (hy : y < 10000) (X : List Char) :
    rsParse (digits 4 y ++ X) = rsFinish (rsDateRest y X) := by
  have e : y / 100 * 100 + (0 * 10 ^ 2 + y % 10 ^ 2) = y := by omega
  unfold rsParse
  simp only [head_digits4, Option.some.injEq, dc_ne_P, dc_ne_T, if_false]
  unfold rsMain
  rw [digits4_split]
  simp only [List.append_assoc, exactN2 _ _ _ (show y / 100 < 100 by omega), optColon_digits2, exactN_digits,
    Bool.false_eq_true, if_false, e]

end Pendulum.Iso
