import Pendulum.Proofs.ZoneOps
/-! Zone half of C12: order lemmas around a wall value `T` that is ordinary, repeated, or the first / last value
of a gap. They generalise `lt_of_lt_unique` / `gt_of_gt_unique` (Zone4) and hold for every WF table. -/
namespace Pendulum.Zone

theorem inGap_cons (init : Int) (a : Tr) (rest : List Tr) (w : Int) :
    inGap init (a :: rest) w =
      ((decide (init < a.off) && decide (a.t + init ≤ w) && decide (w < a.t + a.off)) || inGap a.off rest w) := rfl

/-- lower order lemma: if `T` is not strictly inside a gap (ordinary, repeated, or the first skipped value), every
    instant before `T - utcoffset(T, fold=0)` renders strictly before `T` -/
theorem lt_of_lt_first (l : List Tr) : ∀ (init T u : Int), WF init l →
    (inGap init l T = true → inGap init l (T - 1) = false) →
    u < T - wallOff false init l T → u + offAt init l u < T := by
  induction l with
  | nil => intro init T u _ _ h; simp [wallOff, offAt] at *; omega
  | cons a rest ih =>
    intro init T u hwf hg hu
    have hBA := thr_le init a
    by_cases hB : T < thr true init a
    · have hA : T < thr false init a := by omega
      rw [wallOff_lt false init a rest T hA] at hu
      have : u < a.t := by
        unfold thr at hB; simp only [if_true] at hB; omega
      rw [offAt_lt init a rest u this]; omega
    · by_cases hA : T < thr false init a
      · rw [wallOff_lt false init a rest T hA] at hu
        unfold thr at hB hA
        simp only [if_true, Bool.false_eq_true, if_false] at hB hA
        by_cases hgap : init < a.off
        · -- T is in the gap opened by the head: it must be its first value
          have h1 : inGap init (a :: rest) T = true := by
            rw [inGap_cons]; simp [hgap]; left; omega
          have h2 := hg h1
          rw [inGap_cons] at h2
          simp only [Bool.or_eq_false_iff, Bool.and_eq_false_iff, decide_eq_false_iff_not] at h2
          have hua : u < a.t := by omega
          rw [offAt_lt init a rest u hua]; omega
        · have hua : u < a.t := by omega
          rw [offAt_lt init a rest u hua]; omega
      · rw [wallOff_ge false init a rest T hA] at hu
        by_cases hua : u < a.t
        · rw [offAt_lt init a rest u hua]
          unfold thr at hA; simp only [Bool.false_eq_true, if_false] at hA; omega
        · rw [offAt_ge init a rest u hua]
          have hgt : inGap a.off rest T = true → inGap a.off rest (T - 1) = false := by
            intro ht
            have h1 : inGap init (a :: rest) T = true := by rw [inGap_cons, ht]; simp
            have h2 := hg h1
            rw [inGap_cons] at h2
            simp only [Bool.or_eq_false_iff] at h2
            exact h2.2
          exact ih a.off T u (wf_tail hwf) hgt hu

/-- upper order lemma: if `T` is not strictly inside a gap (ordinary, repeated, or the last skipped value), every
    instant after `T - utcoffset(T, fold=1)` renders strictly after `T` -/
theorem gt_of_gt_last (l : List Tr) : ∀ (init T u : Int), WF init l →
    (inGap init l T = true → inGap init l (T + 1) = false) →
    T - wallOff true init l T < u → T < u + offAt init l u := by
  induction l with
  | nil => intro init T u _ _ h; simp [wallOff, offAt] at *; omega
  | cons a rest ih =>
    intro init T u hwf hg hu
    have hBA := thr_le init a
    have tailHyp : inGap a.off rest T = true → inGap a.off rest (T + 1) = false := by
      intro ht
      have h1 : inGap init (a :: rest) T = true := by rw [inGap_cons, ht]; simp
      have h2 := hg h1
      rw [inGap_cons] at h2
      simp only [Bool.or_eq_false_iff] at h2
      exact h2.2
    by_cases hB : T < thr true init a
    · rw [wallOff_lt true init a rest T hB] at hu
      by_cases hua : u < a.t
      · rw [offAt_lt init a rest u hua]; omega
      · have := wall_lower rest init a u hwf (by omega)
        unfold thr at hB; simp only [if_true] at hB; omega
    · by_cases hA : T < thr false init a
      · obtain ⟨_, e1⟩ := mid_offsets init a rest T hwf hB hA
        by_cases hgap : init < a.off
        · rw [e1] at hu
          unfold thr at hB hA
          simp only [if_true, Bool.false_eq_true, if_false] at hB hA
          have h1 : inGap init (a :: rest) T = true := by
            rw [inGap_cons]; simp [hgap]; left; omega
          have h2 := hg h1
          rw [inGap_cons] at h2
          simp only [Bool.or_eq_false_iff, Bool.and_eq_false_iff, decide_eq_false_iff_not] at h2
          have := wall_lower rest init a u hwf (by omega)
          omega
        · -- overlap (or no change): continue in the tail, where T is handled by the next entries
          have hua : ¬ u < a.t := by
            rw [e1] at hu
            unfold thr at hB hA
            simp only [if_true, Bool.false_eq_true, if_false] at hB hA
            omega
          rw [wallOff_ge true init a rest T hB] at hu
          rw [offAt_ge init a rest u hua]
          exact ih a.off T u (wf_tail hwf) tailHyp hu
      · have hlow : a.t ≤ T - wallOff true init (a :: rest) T := by
          cases hc : inGap init (a :: rest) T with
          | false =>
            exact cand_lower true rest init T a hwf hc hB
          | true =>
            have hs := gap_shift (a :: rest) init T hwf hc
            refine hs.2.2.2.2.2 a rest rfl ?_
            intro hh
            obtain ⟨g1, _, g3⟩ := hh
            unfold thr at hA; simp only [Bool.false_eq_true, if_false] at hA; omega
        have hua : ¬ u < a.t := by omega
        rw [wallOff_ge true init a rest T hB] at hu
        rw [offAt_ge init a rest u hua]
        exact ih a.off T u (wf_tail hwf) tailHyp hu

/-- from the first skipped value of a gap: instants not before the forward resolution render at or after the
    end of the gap -/
theorem ge_gapEnd (l : List Tr) : ∀ (init T u : Int), WF init l →
    inGap init l T = true → inGap init l (T - 1) = false →
    T - wallOff false init l T ≤ u →
    T + (wallOff true init l T - wallOff false init l T) ≤ u + offAt init l u := by
  induction l with
  | nil => intro init T u _ h; simp [inGap] at h
  | cons a rest ih =>
    intro init T u hwf hg hg' hu
    by_cases hhead : headGap init a T
    · obtain ⟨h1, h2, h3⟩ := hhead
      obtain ⟨e0, e1⟩ := gap_head_offsets init a rest T hwf h1 h2 h3
      rw [e0] at hu; rw [e0, e1]
      rw [inGap_cons] at hg'
      simp only [Bool.or_eq_false_iff, Bool.and_eq_false_iff, decide_eq_false_iff_not] at hg'
      have := wall_lower rest init a u hwf (by omega)
      omega
    · have htail : inGap a.off rest T = true := by
        rw [inGap_cons] at hg
        simp only [Bool.or_eq_true, Bool.and_eq_true, decide_eq_true_eq] at hg
        rcases hg with ⟨⟨h1, h2⟩, h3⟩ | ht
        · exact absurd ⟨h1, h2, h3⟩ hhead
        · exact ht
      have htail' : inGap a.off rest (T - 1) = false := by
        rw [inGap_cons] at hg'
        simp only [Bool.or_eq_false_iff] at hg'; exact hg'.2
      have hA : ¬ (T < thr false init a) := by
        intro hlt
        have : inGap a.off rest T = false := by
          apply noGap_before rest a.off T (wf_tail hwf)
          intro b r hb; subst hb
          have := next_thr init a b r hwf
          omega
        rw [this] at htail; cases htail
      have hB : ¬ (T < thr true init a) := by have := thr_le init a; omega
      have hs := gap_shift (a :: rest) init T hwf hg
      have hlow := hs.2.2.2.2.1 a rest rfl
      rw [wallOff_ge false init a rest T hA] at hu hlow ⊢
      rw [wallOff_ge true init a rest T hB]
      rw [offAt_ge init a rest u (by omega)]
      exact ih a.off T u (wf_tail hwf) htail htail' hu

/-- to the last skipped value of a gap: instants not after the backward resolution render at or before the
    start of the gap (minus one) -/
theorem le_gapStart (l : List Tr) : ∀ (init T u : Int), WF init l →
    inGap init l T = true → inGap init l (T + 1) = false →
    u ≤ T - wallOff true init l T →
    u + offAt init l u ≤ T - (wallOff true init l T - wallOff false init l T) := by
  induction l with
  | nil => intro init T u _ h; simp [inGap] at h
  | cons a rest ih =>
    intro init T u hwf hg hg' hu
    by_cases hhead : headGap init a T
    · obtain ⟨h1, h2, h3⟩ := hhead
      obtain ⟨e0, e1⟩ := gap_head_offsets init a rest T hwf h1 h2 h3
      rw [e1] at hu; rw [e0, e1]
      rw [inGap_cons] at hg'
      simp only [Bool.or_eq_false_iff, Bool.and_eq_false_iff, decide_eq_false_iff_not] at hg'
      rw [offAt_lt init a rest u (by omega)]
      omega
    · have htail : inGap a.off rest T = true := by
        rw [inGap_cons] at hg
        simp only [Bool.or_eq_true, Bool.and_eq_true, decide_eq_true_eq] at hg
        rcases hg with ⟨⟨h1, h2⟩, h3⟩ | ht
        · exact absurd ⟨h1, h2, h3⟩ hhead
        · exact ht
      have htail' : inGap a.off rest (T + 1) = false := by
        rw [inGap_cons] at hg'
        simp only [Bool.or_eq_false_iff] at hg'; exact hg'.2
      have hA : ¬ (T < thr false init a) := by
        intro hlt
        have : inGap a.off rest T = false := by
          apply noGap_before rest a.off T (wf_tail hwf)
          intro b r hb; subst hb
          have := next_thr init a b r hwf
          omega
        rw [this] at htail; cases htail
      have hB : ¬ (T < thr true init a) := by have := thr_le init a; omega
      rw [wallOff_ge false init a rest T hA]
      rw [wallOff_ge true init a rest T hB] at hu ⊢
      by_cases hua : u < a.t
      · -- u is before the head transition: it renders before the head's thresholds, hence before the tail's gap
        rw [offAt_lt init a rest u hua]
        have hs := gap_shift rest a.off T (wf_tail hwf) htail
        cases rest with
        | nil => simp [inGap] at htail
        | cons b r =>
          have hb1 := hs.2.2.2.2.1 b r rfl
          have hab := wf_le hwf
          have hsp := hwf.1
          -- T - off_before ≥ b.t, so the start of the gap is ≥ b.t + off_before ≥ a.t + init
          by_cases hgb : headGap a.off b T
          · obtain ⟨g1, g2, g3⟩ := hgb
            obtain ⟨e0, e1⟩ := gap_head_offsets a.off b r T (wf_tail hwf) g1 g2 g3
            rw [e0, e1]
            rw [inGap_cons] at htail'
            simp only [Bool.or_eq_false_iff, Bool.and_eq_false_iff, decide_eq_false_iff_not] at htail'
            unfold absI at hsp; split at hsp <;> split at hsp <;> omega
          · have hb2 := hs.2.2.2.2.2 b r rfl hgb
            have hoff := hs.2.2.1
            have hwl := wall_lower r a.off b _ (wf_tail hwf) hb2
            rw [hoff] at hwl
            unfold absI at hsp; split at hsp <;> split at hsp <;> omega
      · rw [offAt_ge init a rest u hua]
        exact ih a.off T u (wf_tail hwf) htail htail' hu

/-! ### statements on `Z` -/

/-- `T` is not strictly inside a gap, seen from below: ordinary, repeated, or the first skipped value -/
def Z.startOK (z : Z) (T : Int) : Prop := z.skipped T = true → z.skipped (T - 1) = false
/-- `T` is ordinary, repeated, or the last skipped value of a gap -/
def Z.endOK (z : Z) (T : Int) : Prop := z.skipped T = true → z.skipped (T + 1) = false
/-- `T` is an ordinary wall value: neither skipped nor repeated -/
def Z.unique (z : Z) (T : Int) : Prop := z.skipped T = false ∧ z.woff false T = z.woff true T

instance (z : Z) (T : Int) : Decidable (z.startOK T) := by unfold Z.startOK; infer_instance
instance (z : Z) (T : Int) : Decidable (z.endOK T) := by unfold Z.endOK; infer_instance
instance (z : Z) (T : Int) : Decidable (z.unique T) := by unfold Z.unique; infer_instance

theorem Z.unique.startOK {z : Z} {T : Int} (h : z.unique T) : z.startOK T := by
  intro hs; rw [h.1] at hs; cases hs
theorem Z.unique.endOK {z : Z} {T : Int} (h : z.unique T) : z.endOK T := by
  intro hs; rw [h.1] at hs; cases hs

theorem before_first (z : Z) (h : z.WF) (T u : Int) (hT : z.startOK T) (hu : u < T - z.woff false T) :
    u + z.off u < T :=
  lt_of_lt_first z.trs z.init T u h hT hu

theorem after_last (z : Z) (h : z.WF) (T u : Int) (hT : z.endOK T) (hu : T - z.woff true T < u) :
    T < u + z.off u :=
  gt_of_gt_last z.trs z.init T u h hT hu

theorem skipped_iff (z : Z) (h : z.WF) (T : Int) : z.skipped T = true ↔ z.woff true T > z.woff false T :=
  gap_iff z.trs z.init T h

end Pendulum.Zone
