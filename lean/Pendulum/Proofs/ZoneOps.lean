import Pendulum.Proofs.Zone4
import Pendulum.Model.DTOps
/-! lemmas shared by C01/C02/C03/C05/C12 about `toUtc`/`fromUtc`/`convertNaive` -/
namespace Pendulum.Zone

theorem toUtc_fromUtc (z : Z) (h : z.WF) (u : Int) : toUtc z (fromUtc z u) = u := by
  unfold toUtc fromUtc Z.woff Z.foldOf Z.off
  simp only []
  rw [roundtrip z.trs z.init u h]; omega

theorem not_skipped_of_le (z : Z) (h : z.WF) (w : Int) (hle : ¬ z.woff true w > z.woff false w) :
    z.skipped w = false := by
  cases hc : z.skipped w with
  | false => rfl
  | true => exact absurd ((gap_iff z.trs z.init w h).mp hc) hle

end Pendulum.Zone
