import Pendulum.Proofs.DTArithGenAdd
import Pendulum.Proofs.DTArithGenOps
import Pendulum.Proofs.DTArithGenSub
import Pendulum.Proofs.DTArithGenDate
/-! umbrella: the tie proofs for `Gen/DTArith.lean` live in DTArithGenBase/Add/Ops/Sub/Date -/
