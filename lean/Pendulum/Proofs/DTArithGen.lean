import Pendulum.Gen.DTArith
import Pendulum.Model.DTOps
import Pendulum.Model.CalOps
import Pendulum.Model.Interval
import Pendulum.Proofs.AddDur
import Pendulum.Proofs.CalRT
import Pendulum.Proofs.GenTie
/-! Tie between the *generated* translation of the arithmetic entry points of datetime.py / date.py
(`Pendulum.Gen.DTArith`, regenerated from the source on every run by tools/gen_dtarith.py) and the hand models
`DTOps.add` / `DTOps.addChecked` (Model/DTOps.lean), `CalOps` (Model/CalOps.lean) and `Interval` (Model/Interval.lean).

The generated definitions take the callees as parameters (`Inst.sub_td`, `Inst.add_duration`, `Inst.convert_utc`).
`Linked I v` states how those parameters relate to the model value `v` and to the model's `addDuration` / `inTz`
(the callee-link hypotheses); `instOf v` is an instance that satisfies it (`linked_instOf`), so the hypotheses are
satisfiable for every value. A request is read back with the model's `create` (`reqV`).
A float `seconds=` argument worth `t` µs is read as `t` additional microseconds (float bridge, DESIGN §5). -/
set_option linter.unusedSimpArgs false
namespace Pendulum.DTArithGen
open Pendulum Pendulum.Cal Pendulum.AddDur Pendulum.Zone Pendulum.DTOps Pendulum.CalOps
open Pendulum.Gen.DTArith

/-- `gen_tie` for this file; the block must also leave no goal open, so that an incomplete proof is reported under the
    theorem's name too -/
macro "dta_tie " n:str " => " t:tacticSeq : tactic =>
  `(tactic| gen_tie $n "Gen/DTArith.lean (regenerated from datetime.py / date.py)" => (($t); done))

/-! ### reading of the generated types -/

/-- time of day in µs of (hour, minute, second, microsecond) -/
def todOf (h mi s us : Int) : Int := ((h * 60 + mi) * 60 + s) * 1000000 + us

/-- the wall value (µs since 1970-01-01T00:00) seven civil fields denote -/
def toWall (n : N7) : Int := fieldsToWall n.year n.month n.day (todOf n.hour n.minute n.second n.microsecond)

/-- the seven civil fields of a wall value -/
def fromWall (w : Int) : N7 :=
  let f := wallToFields w
  ⟨f.1, f.2.1, f.2.2.1, f.2.2.2 / HOUR, f.2.2.2 % HOUR / MINUTE, f.2.2.2 % MINUTE / US, f.2.2.2 % US⟩

theorem toWall_fromWall (w : Int) : toWall (fromWall w) = w := by
  have h := fieldsToWall_wallToFields w
  have e : todOf ((wallToFields w).2.2.2 / HOUR) ((wallToFields w).2.2.2 % HOUR / MINUTE)
      ((wallToFields w).2.2.2 % MINUTE / US) ((wallToFields w).2.2.2 % US) = (wallToFields w).2.2.2 := by
    unfold todOf HOUR MINUTE US; omega
  unfold toWall fromWall
  simp only [e]
  exact h

/-- whole seconds / additional microseconds of a `seconds=` amount -/
def secS : Sec → Int
  | .int n => n
  | .us _ => 0
def secU : Sec → Int
  | .int _ => 0
  | .us t => t

theorem secS_neg (s : Sec) : secS (Sec.neg s) = -secS s := by cases s <;> simp [Sec.neg, secS]
theorem secU_neg (s : Sec) : secU (Sec.neg s) = -secU s := by cases s <;> simp [Sec.neg, secU]

/-- exception name → the model's error kind -/
def errOf (s : String) : DTOps.Err :=
  if s = "OverflowError" then .overflow
  else if s = "NonExistingTime" then .nonExisting
  else if s = "AmbiguousTime" then .ambiguous
  else .valueError

theorem errOf_name (e : DTOps.Err) : errOf e.name = e := by cases e <;> decide

def liftAD : Except AddDur.Err Int → Except String N7
  | .ok w => .ok (fromWall w)
  | .error .valueError => .error "ValueError"
  | .error .overflow => .error "OverflowError"

def liftConv : Except DTOps.Err V → Except String (N7 × Bool)
  | .ok r => .ok (fromWall r.w, r.fold)
  | .error e => .error e.name

/-- the value a request denotes, for an instance in zone `v.z`: `create` is the model's, the raw constructor keeps the
    fields and the fold as given -/
def reqV (v : V) : Req → Except DTOps.Err V
  | .create y m d h mi s us fold => create v.z (toWall ⟨y, m, d, h, mi, s, us⟩) fold false
  | .construct y m d h mi s us fold => .ok ⟨v.z, toWall ⟨y, m, d, h, mi, s, us⟩, fold⟩
  | .date _ _ _ => .error .valueError

def interp (v : V) : Except String Req → Except DTOps.Err V
  | .ok r => reqV v r
  | .error s => .error (errOf s)

/-- **callee-link hypotheses**: how the parameters of the generated code relate to the model value `v` -/
structure Linked (I : Inst) (v : V) : Prop where
  fields : toWall ⟨I.year, I.month, I.day, I.hour, I.minute, I.second, I.microsecond⟩ = v.w
  fold : I.fold = v.fold
  hasTz : I.hasTz = (match v.z with | .naive => false | _ => true)
  utcoffset : I.utcoffset = (match v.z.table with | some z => some (z.woff v.fold v.w) | none => none)
  /-- native `datetime - timedelta`: OverflowError outside years 1..9999 -/
  sub_td : ∀ n d, I.sub_td n d =
    if inRange (toWall n - d) then .ok (fromWall (toWall n - d)) else .error "OverflowError"
  /-- `helpers.add_duration` is the model's `addDuration` (tied to the source by `C03.add_duration_source_eq_model`) -/
  add_duration : ∀ n y mo wk d h mi s us, I.add_duration n y mo wk d h mi s us =
    liftAD (addDuration (toWall n) y mo wk d h mi (secS s) (us + secU s))
  /-- `self.tz.convert(<UTC datetime>)` is the model's `inTz` from UTC into the instance's zone -/
  convert_utc : ∀ n, I.convert_utc n = liftConv (inTz ⟨.fixed 0, toWall n, false⟩ v.z false)

/-- the instance the generated code runs on, for a model value -/
def instOf (v : V) : Inst where
  year := (fromWall v.w).year
  month := (fromWall v.w).month
  day := (fromWall v.w).day
  hour := (fromWall v.w).hour
  minute := (fromWall v.w).minute
  second := (fromWall v.w).second
  microsecond := (fromWall v.w).microsecond
  fold := v.fold
  hasTz := match v.z with | .naive => false | _ => true
  utcoffset := match v.z.table with | some z => some (z.woff v.fold v.w) | none => none
  sub_td := fun n d => if inRange (toWall n - d) then .ok (fromWall (toWall n - d)) else .error "OverflowError"
  add_duration := fun n y mo wk d h mi s us => liftAD (addDuration (toWall n) y mo wk d h mi (secS s) (us + secU s))
  convert_utc := fun n => liftConv (inTz ⟨.fixed 0, toWall n, false⟩ v.z false)

/-- the hypotheses are satisfiable, for every value -/
theorem linked_instOf (v : V) : Linked (instOf v) v where
  fields := toWall_fromWall v.w
  fold := rfl
  hasTz := rfl
  utcoffset := rfl
  sub_td := fun _ _ => rfl
  add_duration := fun _ _ _ _ _ _ _ _ _ => rfl
  convert_utc := fun _ => rfl

/-! ### `DateTime.add` -/

theorem fromUtc_fixed (off u : Int) : fromUtc (fixedZ off) u = ⟨u + off, false⟩ := by
  simp [fromUtc, fixedZ, Z.off, Z.foldOf, offAt, foldAt]

theorem fixed0_instant (w : Int) (f : Bool) : V.instant ⟨.fixed 0, w, f⟩ = w := by
  simp [V.instant, V.offset, ZRef.table, fixedZ, Z.woff, wallOff]

@[simp] theorem n7_eta (n : N7) : (⟨n.year, n.month, n.day, n.hour, n.minute, n.second, n.microsecond⟩ : N7) = n := rfl

theorem add_eq (I : Inst) (v : V) (L : Linked I v) (hv : inRange v.w = true)
    (y mo wk d h mi : Int) (s : Sec) (us : Int) :
    interp v (dt_add I y mo wk d h mi s us) = addChecked v y mo wk d h mi (secS s) (us + secU s) := by
  dta_tie "Pendulum.DTArithGen.add_eq" =>
    obtain ⟨z, w, f⟩ := v
    have hw := L.fields
    have hu := L.utcoffset
    have ht := L.hasTz
    simp only [] at hw hu ht hv
    by_cases hvar : (y ≠ 0 ∨ mo ≠ 0 ∨ wk ≠ 0 ∨ d ≠ 0)
    · have hb : ((decide (y ≠ (0:Int))) || (decide (mo ≠ (0:Int))) || (decide (wk ≠ (0:Int))) || (decide (d ≠ (0:Int)))) = true := by
        simp only [Bool.or_eq_true, decide_eq_true_eq]; omega
      have hn : ¬ (y = 0 ∧ mo = 0 ∧ wk = 0 ∧ d = 0 ∧ inRange (w - V.offset ⟨z, w, f⟩) = false) := by omega
      unfold dt_add
      simp only [hb, L.add_duration, hw, Bool.or_true, Bool.true_or, Bool.or_false, Bool.false_or, Bool.and_true, Bool.true_and, Bool.and_false, Bool.false_and, Bool.not_true, Bool.not_false, Bool.or_self, Bool.and_self, if_true, Bool.false_eq_true, if_false]
      unfold addChecked
      rw [if_neg hn]
      unfold DTOps.add
      simp only [hvar, if_true]
      cases hA : addDuration w y mo wk d h mi (secS s) (us + secU s) with
      | error e => cases e <;> simp [liftAD, interp, errOf]
      | ok r =>
        simp only [liftAD, interp, reqV, n7_eta, toWall_fromWall]
    · have hz : y = 0 ∧ mo = 0 ∧ wk = 0 ∧ d = 0 := by omega
      obtain ⟨rfl, rfl, rfl, rfl⟩ := hz
      unfold dt_add
      simp only [ne_eq, not_true_eq_false, decide_false, Bool.or_true, Bool.true_or, Bool.or_false, Bool.false_or, Bool.and_true, Bool.true_and, Bool.and_false, Bool.false_and, Bool.not_true, Bool.not_false, Bool.or_self, Bool.and_self, if_true]
      have hvar' : ¬((0:Int) ≠ 0 ∨ (0:Int) ≠ 0 ∨ (0:Int) ≠ 0 ∨ (0:Int) ≠ 0) := by omega
      cases z with
      | naive =>
        simp only [ZRef.table] at hu
        simp only [] at ht
        simp only [hu, ht, td_truthy, L.add_duration, hw, Bool.or_true, Bool.true_or, Bool.or_false, Bool.false_or, Bool.and_true, Bool.true_and, Bool.and_false, Bool.false_and, Bool.not_true, Bool.not_false, Bool.or_self, Bool.and_self, if_true]
        unfold addChecked DTOps.add
        simp only [V.offset, ZRef.table, Int.sub_zero, hv, hvar', if_false, Bool.true_eq_false, and_false]
        cases hA : addDuration w 0 0 0 0 h mi (secS s) (us + secU s) with
        | error e => cases e <;> simp [liftAD, interp, errOf]
        | ok r => simp [liftAD, interp, reqV, n7_eta, toWall_fromWall, create]
      | fixed off =>
        have ho : (fixedZ off).woff f w = off := by simp [fixedZ, Z.woff, wallOff]
        simp only [ZRef.table, ho] at hu
        simp only [] at ht
        unfold addChecked DTOps.add
        simp only [V.offset, ZRef.table, ho, hvar', if_false]
        by_cases h0 : off = 0
        · subst h0
          simp only [hu, ht, td_truthy, L.add_duration, L.convert_utc, hw, Int.sub_zero, hv, Bool.or_true, Bool.true_or, Bool.or_false, Bool.false_or, Bool.and_true, Bool.true_and, Bool.and_false, Bool.false_and, Bool.not_true, Bool.not_false, Bool.or_self, Bool.and_self]
          cases hA : addDuration w 0 0 0 0 h mi (secS s) (us + secU s) with
          | error e => cases e <;> simp [liftAD, interp, errOf]
          | ok r =>
            simp only [liftAD, n7_eta, toWall_fromWall, DTOps.inTz, fixed0_instant, ZRef.table, fromUtc_fixed]
            simp only [Int.add_zero]
            by_cases hr : inRange r = true
            · simp [hr, liftConv, interp, reqV, toWall_fromWall]
            · simp [hr, liftConv, interp, errOf, Err.name]
        · have ht2 : td_truthy (some off) = some off := by simp [td_truthy, h0]
          simp only [hu, ht, ht2, L.sub_td, L.add_duration, L.convert_utc, hw, Bool.or_true, Bool.true_or, Bool.or_false, Bool.false_or, Bool.and_true, Bool.true_and, Bool.and_false, Bool.false_and, Bool.not_true, Bool.not_false, Bool.or_self, Bool.and_self]
          by_cases hs : inRange (w - off) = true
          · simp only [hs, if_true, toWall_fromWall, Bool.true_eq_false, and_false, if_false, Bool.not_true, Bool.false_eq_true]
            cases hA : addDuration (w - off) 0 0 0 0 h mi (secS s) (us + secU s) with
            | error e => cases e <;> simp [liftAD, interp, errOf]
            | ok r =>
              simp only [liftAD, n7_eta, toWall_fromWall, DTOps.inTz, fixed0_instant, ZRef.table, fromUtc_fixed]
              by_cases hr : inRange (r + off) = true
              · simp [hr, liftConv, interp, reqV, toWall_fromWall]
              · simp [hr, liftConv, interp, errOf, Err.name]
          · simp [hs, interp, errOf]
      | named zt =>
        simp only [ZRef.table] at hu
        simp only [] at ht
        unfold addChecked DTOps.add
        simp only [V.offset, ZRef.table, hvar', if_false]
        generalize zt.woff f w = off at hu ⊢
        by_cases h0 : off = 0
        · subst h0
          simp only [hu, ht, td_truthy, L.add_duration, L.convert_utc, hw, Int.sub_zero, hv, Bool.or_true, Bool.true_or, Bool.or_false, Bool.false_or, Bool.and_true, Bool.true_and, Bool.and_false, Bool.false_and, Bool.not_true, Bool.not_false, Bool.or_self, Bool.and_self]
          cases hA : addDuration w 0 0 0 0 h mi (secS s) (us + secU s) with
          | error e => cases e <;> simp [liftAD, interp, errOf]
          | ok r =>
            simp only [liftAD, n7_eta, toWall_fromWall, DTOps.inTz, fixed0_instant, ZRef.table]
            by_cases hr : inRange (fromUtc zt r).w = true
            · simp [hr, liftConv, interp, reqV, toWall_fromWall]
            · simp [hr, liftConv, interp, errOf, Err.name]
        · have ht2 : td_truthy (some off) = some off := by simp [td_truthy, h0]
          simp only [hu, ht, ht2, L.sub_td, L.add_duration, L.convert_utc, hw, Bool.or_true, Bool.true_or, Bool.or_false, Bool.false_or, Bool.and_true, Bool.true_and, Bool.and_false, Bool.false_and, Bool.not_true, Bool.not_false, Bool.or_self, Bool.and_self]
          by_cases hs : inRange (w - off) = true
          · simp only [hs, if_true, toWall_fromWall, Bool.true_eq_false, and_false, if_false, Bool.not_true, Bool.false_eq_true]
            cases hA : addDuration (w - off) 0 0 0 0 h mi (secS s) (us + secU s) with
            | error e => cases e <;> simp [liftAD, interp, errOf]
            | ok r =>
              simp only [liftAD, n7_eta, toWall_fromWall, DTOps.inTz, fixed0_instant, ZRef.table]
              by_cases hr : inRange (fromUtc zt r).w = true
              · simp [hr, liftConv, interp, reqV, toWall_fromWall]
              · simp [hr, liftConv, interp, errOf, Err.name]
          · simp [hs, interp, errOf]

/-! ### `subtract`, `_add_timedelta_`, `_subtract_timedelta` -/

/-- `DateTime.subtract` hands every keyword, negated, to `add` -/
theorem subtract_eq (I : Inst) (y mo wk d h mi : Int) (s : Sec) (us : Int) :
    dt_subtract I y mo wk d h mi s us = dt_add I (-y) (-mo) (-wk) (-d) (-h) (-mi) (Sec.neg s) (-us) := by
  dta_tie "Pendulum.DTArithGen.subtract_eq" =>
    simp only [dt_subtract]

/-- `_add_timedelta_`: an Interval travels as its eight calendar/clock components, a Duration as its constructor
    signature, a plain timedelta as `seconds=total_seconds()` -/
theorem add_timedelta_eq (I : Inst) (δ : Operand) :
    (δ.kind = .interval → dt_add_timedelta I δ =
      dt_add I δ.years δ.months δ.weeks δ.remaining_days δ.hours δ.minutes (.int δ.remaining_seconds) δ.microseconds) ∧
    (δ.kind = .duration → dt_add_timedelta I δ =
      dt_add I δ.sig_years δ.sig_months δ.sig_weeks δ.sig_days δ.sig_hours δ.sig_minutes (.int δ.sig_seconds) δ.sig_microseconds) ∧
    (δ.kind = .timedelta → dt_add_timedelta I δ = dt_add I 0 0 0 0 0 0 (.us δ.total_seconds) 0) := by
  dta_tie "Pendulum.DTArithGen.add_timedelta_eq" =>
    refine ⟨?_, ?_, ?_⟩ <;> intro hk <;> simp [dt_add_timedelta, hk]

/-- `_subtract_timedelta`: an Interval → `subtract` of its components, a Duration → `_add_timedelta_(-delta)`,
    a plain timedelta → `subtract(seconds=total_seconds())` -/
theorem subtract_timedelta_eq (I : Inst) (δ nδ : Operand) :
    (δ.kind = .interval → dt_subtract_timedelta I δ nδ =
      dt_subtract I δ.years δ.months δ.weeks δ.remaining_days δ.hours δ.minutes (.int δ.remaining_seconds) δ.microseconds) ∧
    (δ.kind = .duration → dt_subtract_timedelta I δ nδ = dt_add_timedelta I nδ) ∧
    (δ.kind = .timedelta → dt_subtract_timedelta I δ nδ = dt_subtract I 0 0 0 0 0 0 (.us δ.total_seconds) 0) := by
  dta_tie "Pendulum.DTArithGen.subtract_timedelta_eq" =>
    refine ⟨?_, ?_, ?_⟩ <;> intro hk <;> simp [dt_subtract_timedelta, hk]

/-! ### operators -/

def isDelta (k : OKind) : Bool := k = .timedelta || k = .duration || k = .interval

/-- `__add__` / `__radd__`: NotImplemented unless the operand is a timedelta; the native addition when called from
    `astimezone`; otherwise `_add_timedelta_`. `__radd__` is `__add__` seen from a frame that is not `astimezone`. -/
theorem op_add_eq (I : Inst) (caller : String) (o : Operand) :
    dt_op_add I caller o =
      (if !isDelta o.kind then .ok .notImplemented
       else if caller = "astimezone" then .ok .super_add
       else Except.map Res.value (dt_add_timedelta I o)) ∧
    dt_op_radd I o = (if !isDelta o.kind then .ok .notImplemented else Except.map Res.value (dt_add_timedelta I o)) := by
  dta_tie "Pendulum.DTArithGen.op_add_eq" =>
    constructor
    · cases hk : o.kind <;> by_cases hc : caller = "astimezone" <;> simp [dt_op_add, isDelta, hk, hc]
    · cases hk : o.kind <;> simp [dt_op_radd, dt_op_add, isDelta, hk]

/-- the endpoint a datetime operand becomes: itself when it already is an instance of the class, `pendulum.naive(<its
    fields>)` when naive, `self.instance(other)` when aware -/
def rebuilt (o : Operand) : Who :=
  if o.kind = .pendulumDT then .other
  else if o.aware then .instance_other
  else .naive o.year o.month o.day o.hour o.minute o.second o.microsecond

/-- `__sub__`: a timedelta → `_subtract_timedelta`; a datetime → `Interval(<rebuilt other>, self, absolute=False)`;
    anything else → NotImplemented -/
theorem op_sub_eq (I : Inst) (o no : Operand) :
    dt_op_sub I o no =
      (if isDelta o.kind then Except.map Res.value (dt_subtract_timedelta I o no)
       else if o.kind = .datetime ∨ o.kind = .pendulumDT then .ok (.interval (rebuilt o) .self false)
       else .ok .notImplemented) := by
  dta_tie "Pendulum.DTArithGen.op_sub_eq" =>
    cases hk : o.kind <;> cases ha : o.aware <;> simp [dt_op_sub, dt_diff, isDelta, rebuilt, hk, ha]

/-- `__rsub__`: a datetime → `Interval(self, <rebuilt other>, absolute=False)`; anything else → NotImplemented -/
theorem op_rsub_eq (I : Inst) (o : Operand) :
    dt_op_rsub I o =
      (if o.kind = .datetime ∨ o.kind = .pendulumDT then .ok (.interval .self (rebuilt o) false)
       else .ok .notImplemented) := by
  dta_tie "Pendulum.DTArithGen.op_rsub_eq" =>
    cases hk : o.kind <;> cases ha : o.aware <;> simp [dt_op_rsub, dt_diff, rebuilt, hk, ha]

/-- `diff(dt, abs)`: `Interval(self, dt, absolute=abs)`, `dt` defaulting to now in the instance's zone -/
theorem diff_eq (me : Who) (dt : Option Who) (abs : Bool) :
    dt_diff me dt abs = .interval me (dt.getD (.now me)) abs := by
  dta_tie "Pendulum.DTArithGen.diff_eq" =>
    cases dt <;> simp [dt_diff]

/-! ### the same on the model level -/

theorem subtract_model (I : Inst) (v : V) (L : Linked I v) (hv : inRange v.w = true)
    (y mo wk d h mi : Int) (s : Sec) (us : Int) :
    interp v (dt_subtract I y mo wk d h mi s us) =
      addChecked v (-y) (-mo) (-wk) (-d) (-h) (-mi) (-(secS s)) (-(us + secU s)) := by
  rw [subtract_eq, add_eq I v L hv, secS_neg, secU_neg]
  congr 1; omega

/-- the operand a model Duration is: what `_add_timedelta_` / `_subtract_timedelta` read from it -/
def opOfDur (d : Dur) : Operand where
  kind := .duration
  aware := false
  year := 0
  month := 0
  day := 0
  hour := 0
  minute := 0
  second := 0
  microsecond := 0
  years := d.years
  months := d.months
  weeks := d.weeks
  days := d.days
  remaining_days := d.rdays
  hours := d.hours
  minutes := d.minutes
  remaining_seconds := d.rsecs
  microseconds := d.us
  sig_years := d.sig.years
  sig_months := d.sig.months
  sig_weeks := d.sig.weeks
  sig_days := d.sig.days
  sig_hours := d.sig.hours
  sig_minutes := d.sig.minutes
  sig_seconds := d.sig.seconds
  sig_microseconds := d.sig.micros
  total_seconds := d.sig.totalUs

/-- `add(**sig)` with the range limit of the intermediate value -/
def addSigC (v : V) (s : Sig) : Except DTOps.Err V :=
  addChecked v s.years s.months s.weeks s.days s.hours s.minutes s.seconds s.micros

theorem addSigC_eq (v : V) (s : Sig) (h : inRange (v.w - v.offset) = true) : addSigC v s = addSig v s := by
  unfold addSigC addSig addChecked; simp [h]

/-- `dt + d` for a Duration: `add(**d._signature)` -/
theorem add_duration_model (I : Inst) (v : V) (L : Linked I v) (hv : inRange v.w = true) (d : Dur) :
    interp v (dt_add_timedelta I (opOfDur d)) = addSigC v d.sig := by
  rw [(add_timedelta_eq I (opOfDur d)).2.1 rfl, add_eq I v L hv]
  simp [opOfDur, addSigC, secS, secU]

/-- `dt - d` for a Duration: `dt + (-d)`, `-d` being the operand `Duration.__neg__` returns -/
theorem sub_duration_model (I : Inst) (v : V) (L : Linked I v) (hv : inRange v.w = true) (d : Dur) (nδ : Operand)
    (hn : nδ = opOfDur (neg d)) :
    interp v (dt_subtract_timedelta I (opOfDur d) nδ) = addSigC v (neg d).sig := by
  rw [(subtract_timedelta_eq I (opOfDur d) nδ).2.1 rfl, hn, add_duration_model I v L hv]

/-- `dt ± td` for a plain timedelta of `t` µs: the instant / own clock moves by exactly `± t` µs -/
theorem timedelta_model (I : Inst) (v : V) (L : Linked I v) (hv : inRange v.w = true) (δ nδ : Operand)
    (hk : δ.kind = .timedelta) :
    interp v (dt_add_timedelta I δ) = addChecked v 0 0 0 0 0 0 0 δ.total_seconds ∧
    interp v (dt_subtract_timedelta I δ nδ) = addChecked v 0 0 0 0 0 0 0 (-δ.total_seconds) := by
  constructor
  · rw [(add_timedelta_eq I δ).2.2 hk, add_eq I v L hv]; simp [secS, secU]
  · rw [(subtract_timedelta_eq I δ nδ).2.2 hk, subtract_model I v L hv]; simp [secS, secU]

/-- `dt ± iv` for an Interval: `add` / `subtract` of the eight components the Interval reports -/
theorem interval_model (I : Inst) (v : V) (L : Linked I v) (hv : inRange v.w = true) (δ nδ : Operand)
    (hk : δ.kind = .interval) :
    interp v (dt_add_timedelta I δ) =
      addChecked v δ.years δ.months δ.weeks δ.remaining_days δ.hours δ.minutes δ.remaining_seconds δ.microseconds ∧
    interp v (dt_subtract_timedelta I δ nδ) =
      addChecked v (-δ.years) (-δ.months) (-δ.weeks) (-δ.remaining_days) (-δ.hours) (-δ.minutes)
        (-δ.remaining_seconds) (-δ.microseconds) := by
  constructor
  · rw [(add_timedelta_eq I δ).1 hk, add_eq I v L hv]; simp [secS, secU]
  · rw [(subtract_timedelta_eq I δ nδ).1 hk, subtract_model I v L hv]; simp [secS, secU]

/-! ### `__sub__` / `__rsub__` with a datetime: the Interval they build (Model/Interval.lean) -/

/-- which model value an endpoint is: `ov` = the operand as it stands, `inst` = what `self.instance(other)` returns -/
def whoV (sv ov : V) (inst : Except DTOps.Err V) : Who → Except DTOps.Err V
  | .self => .ok sv
  | .other => .ok ov
  | .naive y m d h mi s us => .ok ⟨.naive, toWall ⟨y, m, d, h, mi, s, us⟩, true⟩
  | .instance_other => inst
  | _ => .error .valueError

/-- length in µs of the Interval an operator result denotes -/
def resLen (sv ov : V) (inst : Except DTOps.Err V) (same : Bool) : Res → Except DTOps.Err Int
  | .interval a b abs =>
    match whoV sv ov inst a, whoV sv ov inst b with
    | .ok x, .ok y => Interval.new x y same abs
    | .error e, _ => .error e
    | _, .error e => .error e
  | _ => .error .valueError

theorem new_naive_fold (w : Int) (f g : Bool) (e : V) (same abs : Bool) :
    Interval.new ⟨.naive, w, f⟩ e same abs = Interval.new ⟨.naive, w, g⟩ e same abs ∧
    Interval.new e ⟨.naive, w, f⟩ same abs = Interval.new e ⟨.naive, w, g⟩ same abs := by
  simp [Interval.new, Interval.gt, Interval.delta, Interval.strip, Interval.aware, V.instant, V.offset, ZRef.table]

/-- `self - other` and `other - self` (reflected) for a datetime operand are the model's `sub` / `subNative` /
    `diff` / `rsubNative`: an instance of the class is used as it stands, a native value is first rebuilt (naive: from
    its fields; aware: through `instance`, here the model's `instanceOf`) -/
theorem sub_datetime_model (I : Inst) (sv ov : V) (o no : Operand) (same : Bool)
    (hf : toWall ⟨o.year, o.month, o.day, o.hour, o.minute, o.second, o.microsecond⟩ = ov.w)
    (ha : o.aware = Interval.aware ov) :
    (o.kind = .pendulumDT →
      (dt_op_sub I o no).toOption.map (resLen sv ov (.ok ov) same) = some (Interval.sub sv ov same) ∧
      (dt_op_rsub I o).toOption.map (resLen sv ov (.ok ov) same) = some (Interval.diff sv ov same false)) ∧
    (o.kind = .datetime →
      (dt_op_sub I o no).toOption.map (resLen sv ov (Interval.instanceOf ov) same) = some (Interval.subNative sv ov same) ∧
      (dt_op_rsub I o).toOption.map (resLen sv ov (Interval.instanceOf ov) same) = some (Interval.rsubNative sv ov same)) := by
  obtain ⟨oz, ow, ofl⟩ := ov
  simp only [] at hf
  constructor
  · intro hk
    simp [op_sub_eq, op_rsub_eq, isDelta, rebuilt, hk, resLen, whoV, Interval.sub, Interval.diff, Except.toOption]
  · intro hk
    cases oz with
    | naive =>
      have ha' : o.aware = false := by simpa [Interval.aware] using ha
      have n1 := new_naive_fold ow true ofl sv same false
      simp [op_sub_eq, op_rsub_eq, isDelta, rebuilt, hk, ha', resLen, whoV, hf, Interval.subNative, Interval.rsubNative,
        Interval.instanceOf, create, Interval.sub, Interval.diff, Except.toOption, n1.1, n1.2]
    | fixed off =>
      have ha' : o.aware = true := by simpa [Interval.aware] using ha
      simp [op_sub_eq, op_rsub_eq, isDelta, rebuilt, hk, ha', resLen, whoV, Interval.subNative, Interval.rsubNative,
        Interval.instanceOf, create, Interval.sub, Interval.diff, Except.toOption]
    | named zt =>
      have ha' : o.aware = true := by simpa [Interval.aware] using ha
      simp only [op_sub_eq, op_rsub_eq, isDelta, rebuilt, hk, ha', resLen, whoV, Interval.subNative, Interval.rsubNative,
        Interval.sub, Interval.diff, Except.toOption]
      cases Interval.instanceOf ⟨.named zt, ow, ofl⟩ <;> simp [resLen, whoV]

/-! ### Date -/

/-- day number (days since 1970-01-01) of three civil fields, and back -/
def toDay (n : N3) : Int := ymd2ord n.year n.month n.day - epochOrd
def fromDay (k : Int) : N3 := ⟨(ord2ymd (k + epochOrd)).1, (ord2ymd (k + epochOrd)).2.1, (ord2ymd (k + epochOrd)).2.2⟩

theorem toDay_fromDay (k : Int) : toDay (fromDay k) = k := by
  have h := (ymd2ord_ord2ymd (k + epochOrd)).1
  simp only [toDay, fromDay, h]; omega

@[simp] theorem n3_eta (n : N3) : (⟨n.year, n.month, n.day⟩ : N3) = n := rfl

def liftAD3 : Except AddDur.Err Int → Except String N3
  | .ok w => .ok (fromDay (w / DAY))
  | .error .valueError => .error "ValueError"
  | .error .overflow => .error "OverflowError"

/-- callee link for a Date with day number `n`: `add_duration` on a native `date` is the model's on that day's midnight -/
structure DLinked (D : DateInst) (n : Int) : Prop where
  fields : toDay ⟨D.year, D.month, D.day⟩ = n
  add_duration : ∀ m y mo wk d, D.add_duration m y mo wk d 0 0 (.int 0) 0 =
    liftAD3 (addDuration (toDay m * DAY) y mo wk d 0 0 0 0)

def dinstOf (n : Int) : DateInst where
  year := (fromDay n).year
  month := (fromDay n).month
  day := (fromDay n).day
  add_duration := fun m y mo wk d h mi s us => liftAD3 (addDuration (toDay m * DAY) y mo wk d h mi (secS s) (us + secU s))

theorem dlinked_dinstOf (n : Int) : DLinked (dinstOf n) n where
  fields := toDay_fromDay n
  add_duration := fun _ _ _ _ _ => rfl

/-- the day number a Date request denotes -/
def dinterp : Except String Req → Except AddDur.Err Int
  | .ok (.date y m d) => .ok (toDay ⟨y, m, d⟩)
  | .ok _ => .error .valueError
  | .error s => .error (if s = "OverflowError" then .overflow else .valueError)

theorem date_add_eq (D : DateInst) (n : Int) (L : DLinked D n) (y mo wk d : Int) :
    dinterp (date_add D y mo wk d) = dateAdd n y mo wk d := by
  dta_tie "Pendulum.DTArithGen.date_add_eq" =>
    have hf := L.fields
    simp only [date_add, L.add_duration, hf, dateAdd]
    cases hA : addDuration (n * DAY) y mo wk d 0 0 0 0 with
    | error e => cases e <;> simp [liftAD3, dinterp]
    | ok r => simp [liftAD3, dinterp, toDay_fromDay]

theorem date_subtract_eq (D : DateInst) (y mo wk d : Int) :
    date_subtract D y mo wk d = date_add D (-y) (-mo) (-wk) (-d) := by
  dta_tie "Pendulum.DTArithGen.date_subtract_eq" =>
    simp only [date_subtract]

/-- `Date._add_timedelta` / `_subtract_timedelta`: a Duration (or Interval) travels as its calendar components (the
    time part is dropped), a plain timedelta as its `days` -/
theorem date_timedelta_eq (D : DateInst) (δ : Operand) :
    ((δ.kind = .duration ∨ δ.kind = .interval) →
      date_add_timedelta D δ = date_add D δ.years δ.months δ.weeks δ.remaining_days ∧
      date_subtract_timedelta D δ = date_subtract D δ.years δ.months δ.weeks δ.remaining_days) ∧
    (δ.kind = .timedelta →
      date_add_timedelta D δ = date_add D 0 0 0 δ.days ∧ date_subtract_timedelta D δ = date_subtract D 0 0 0 δ.days) := by
  dta_tie "Pendulum.DTArithGen.date_timedelta_eq" =>
    constructor
    · intro hk; rcases hk with hk | hk <;> simp [date_add_timedelta, date_subtract_timedelta, hk]
    · intro hk; simp [date_add_timedelta, date_subtract_timedelta, hk]

/-- `Date.__add__` / `Date.__sub__`: timedelta → the methods above; a date (or datetime) on the right of `-` →
    `Interval(<Date of its fields>, self, absolute=False)`; anything else → NotImplemented -/
theorem date_op_eq (D : DateInst) (o : Operand) :
    date_op_add D o = (if !isDelta o.kind then .ok .notImplemented else Except.map Res.value (date_add_timedelta D o)) ∧
    date_op_sub D o =
      (if isDelta o.kind then Except.map Res.value (date_subtract_timedelta D o)
       else if o.kind = .date ∨ o.kind = .datetime ∨ o.kind = .pendulumDT then
         .ok (.interval (.date o.year o.month o.day) (.as_date .self) false)
       else .ok .notImplemented) := by
  dta_tie "Pendulum.DTArithGen.date_op_eq" =>
    constructor <;> cases hk : o.kind <;> simp [date_op_add, date_op_sub, date_diff, isDelta, hk]

/-- Duration operands on the model level: `date ± d` are the model's `dateAddDur` / `dateSubDur` -/
theorem date_duration_model (D : DateInst) (n : Int) (L : DLinked D n) (d : Dur) :
    dinterp (date_add_timedelta D (opOfDur d)) = dateAddDur n d ∧
    dinterp (date_subtract_timedelta D (opOfDur d)) = dateSubDur n d := by
  have h := (date_timedelta_eq D (opOfDur d)).1 (Or.inl rfl)
  rw [h.1, h.2, date_subtract_eq, date_add_eq D n L, date_add_eq D n L]
  exact ⟨rfl, rfl⟩

end Pendulum.DTArithGen
