import Pendulum.Proofs.IntervalGen
/-! Tie of `Gen.Interval.init` (`Interval.__init__`) to `IntervalPD.mk` (C06) and `Interval.initEnds` (C05): `init_eq_spec` is the syntactic
step (generated definition = the structured `initSpec`), `init_eq_mk` / `init_ends` the semantic one. -/
set_option linter.unusedSimpArgs false
namespace Pendulum.IntervalGen
open Pendulum Pendulum.DTOps Pendulum.AddDur
open Pendulum.Gen.Interval (Ep Kind Cls Env Ops Self PDt InitRes Method EqRes isinst)

/-! ## `Interval.__init__` -/

/-- the native copy `__init__` hands to `precise_diff` for a pendulum endpoint: same fields, **no fold** -/
def nativeNoFold (a : Ep) : Ep :=
  if isinst a.kind .pDateTime = true then ⟨.ndt, a.year, a.month, a.day, a.hour, a.minute, a.second, a.microsecond, false, a.tz⟩
  else ⟨.ndate, a.year, a.month, a.day, 0, 0, 0, 0, false, 0⟩

/-- normalisation of one endpoint: (the pendulum value kept as `_start`/`_end`, the value handed to `precise_diff`) -/
def normEp (env : Env) (a : Ep) : Except String (Ep × Ep) :=
  if isinst a.kind .pDate = true then .ok (a, nativeNoFold a)
  else if isinst a.kind .datetime = true then
    match env.pendulum_instance a with
    | .error err => .error err
    | .ok p => .ok (p, p)
  else .ok (⟨.pdate, a.year, a.month, a.day, 0, 0, 0, 0, false, 0⟩, ⟨.pdate, a.year, a.month, a.day, 0, 0, 0, 0, false, 0⟩)

def initSpec (env : Env) (A B : Ep) (absolute : Bool) : Except String InitRes :=
  match normEp env A with
  | .error err => .error err
  | .ok s =>
    match normEp env B with
    | .error err => .error err
    | .ok e =>
      .ok ⟨env.gt s.1 e.1, absolute,
           if (env.gt s.1 e.1 && absolute) = true then e.1 else s.1, if (env.gt s.1 e.1 && absolute) = true then s.1 else e.1,
           if (env.gt s.1 e.1 && absolute) = true then e.2 else s.2, if (env.gt s.1 e.1 && absolute) = true then s.2 else e.2⟩

theorem init_eq_spec (env : Env) (A B : Ep) (absolute : Bool) :
    Gen.Interval.init env A B absolute = initSpec env A B absolute := by
  gen_tie "Pendulum.IntervalGen.init_eq_spec (under Props.C06.init_source_eq_model, Props.C05.init_ends_source_eq_model)" "Gen/Interval.lean `init` (Interval.__init__ of interval.py)" =>
    cases hiA : env.pendulum_instance A <;> cases hiB : env.pendulum_instance B <;>
    obtain ⟨kA, y1, mo1, d1, h1, mi1, s1, us1, f1, tz1⟩ := A <;>
    obtain ⟨kB, y2, mo2, d2, h2, mi2, s2, us2, f2, tz2⟩ := B <;>
    cases kA <;> cases kB <;> cases absolute <;>
      simp only [Gen.Interval.init, initSpec, normEp, nativeNoFold, isinst, hiA, hiB, Bool.false_and, Bool.true_and, Bool.and_true, Bool.and_false,
        Bool.not_true, Bool.not_false, Bool.false_eq_true, if_false, if_true] <;>
      (try rfl) <;>
      (generalize env.gt _ _ = g; cases g <;> rfl)
    done


/-! ### `init`: the source is the model -/


/-- a generated *pendulum* endpoint denotes the model endpoint `a` (value, zone tag, DateTime/Date flag) -/
structure RepEP (env : Env) (A : Ep) (a : IntervalPD.EP) : Prop where
  fields : (A.year, A.month, A.day, A.hour, A.minute, A.second, A.microsecond) = fields7 a.v.w
  tz : A.tz = a.tag
  kind : A.kind = if a.isDt then Kind.pdt else Kind.pdate
  off : offOf env A = a.v.offset

theorem repEP_wall (env : Env) (A : Ep) (a : IntervalPD.EP) (h : RepEP env A a) : wallOf A = a.v.w := by
  have hf := h.fields
  unfold fields7 at hf
  simp only [Prod.mk.injEq] at hf
  obtain ⟨f1, f2, f3, f4, f5, f6, f7⟩ := hf
  have ht := wallToFields_tod a.v.w
  have hrt := fieldsToWall_wallToFields a.v.w
  unfold wallOf todOf
  rw [f1, f2, f3, f4, f5, f6, f7]
  have : (wallToFields a.v.w).2.2.2 / HOUR * HOUR + (wallToFields a.v.w).2.2.2 % HOUR / MINUTE * MINUTE +
      (wallToFields a.v.w).2.2.2 % MINUTE / US * US + (wallToFields a.v.w).2.2.2 % US = (wallToFields a.v.w).2.2.2 := by
    unfold HOUR MINUTE US; unfold DAY at ht; omega
  rw [this]; exact hrt

theorem repEP_instant (env : Env) (A : Ep) (a : IntervalPD.EP) (h : RepEP env A a) : instOf env A = a.v.instant := by
  unfold instOf V.instant; rw [repEP_wall env A a h, h.off]

theorem repEP_pDate (env : Env) (A : Ep) (a : IntervalPD.EP) (h : RepEP env A a) : isinst A.kind .pDate = true := by
  rw [h.kind]; cases a.isDt <;> rfl

def toE (x : Ep) (off : Int) : PreciseDiff.E :=
  ⟨x.year, x.month, x.day, x.hour, x.minute, x.second, x.microsecond, off, x.tz, isinst x.kind .datetime⟩

/-- the native copy handed to `precise_diff` is the model's `EP.native` (fold dropped: `utcoffset()` is read with fold 0) -/
theorem toE_native (env : Env) (A : Ep) (a : IntervalPD.EP) (h : RepEP env A a) :
    toE (nativeNoFold A) a.native.off = a.native ∧ (nativeNoFold A).fold = false := by
  have hf := h.fields
  unfold fields7 at hf
  simp only [Prod.mk.injEq] at hf
  obtain ⟨f1, f2, f3, f4, f5, f6, f7⟩ := hf
  have hk := h.kind
  have htz := h.tz
  cases hd : a.isDt
  · rw [hd] at hk
    simp only [Bool.false_eq_true, if_false] at hk
    have e : a.native = ⟨(wallToFields a.v.w).1, (wallToFields a.v.w).2.1, (wallToFields a.v.w).2.2.1, 0, 0, 0, 0, 0, 0, false⟩ := by
      unfold IntervalPD.EP.native
      simp only [hd, Bool.false_eq_true, if_false]
    rw [e]
    unfold nativeNoFold toE
    rw [hk]
    simp only [isinst, Bool.false_eq_true, if_false, f1, f2, f3]
    exact ⟨trivial, trivial⟩
  · rw [hd] at hk
    simp only [if_true] at hk
    have e : a.native = ⟨(wallToFields a.v.w).1, (wallToFields a.v.w).2.1, (wallToFields a.v.w).2.2.1,
        (wallToFields a.v.w).2.2.2 / HOUR, (wallToFields a.v.w).2.2.2 % HOUR / MINUTE,
        (wallToFields a.v.w).2.2.2 % MINUTE / US, (wallToFields a.v.w).2.2.2 % US,
        (match a.v.z.table with | some z => z.woff false a.v.w | none => 0) / US, a.tag, true⟩ := by
      unfold IntervalPD.EP.native
      simp only [hd, if_true]
      rfl
    rw [e]
    unfold nativeNoFold toE
    rw [hk]
    simp only [isinst, if_true, f1, f2, f3, f4, f5, f6, f7, htz]
    exact ⟨trivial, trivial⟩

theorem gt_eq_gtEP (env : Env) (ok : EnvOk env) (A B : Ep) (a b : IntervalPD.EP)
    (hA : RepEP env A a) (hB : RepEP env B b) (hc : Compat A B) : env.gt A B = IntervalPD.gtEP a b := by
  rw [ok.gt_ok A B hc, repEP_wall env A a hA, repEP_wall env B b hB, repEP_instant env A a hA, repEP_instant env B b hB,
    hA.tz, hB.tz]
  unfold IntervalPD.gtEP
  by_cases h : a.tag = b.tag <;> simp [h]

/-- two pendulum endpoints: what `__init__` stores is what the model `IntervalPD.mk` stores -/
theorem init_eq_mk (rs : Bool) (env : Env) (ok : EnvOk env) (A B : Ep) (a b : IntervalPD.EP)
    (hA : RepEP env A a) (hB : RepEP env B b) (hc : Compat A B) (absolute : Bool) :
    ∃ r, Gen.Interval.init env A B absolute = .ok r ∧
      r.invert = (IntervalPD.mk rs a b absolute).invert ∧ r.absolute = (IntervalPD.mk rs a b absolute).absolute ∧
      RepEP env r.start (IntervalPD.mk rs a b absolute).start ∧ RepEP env r.end_ (IntervalPD.mk rs a b absolute).stop ∧
      toE r.pd_start (IntervalPD.mk rs a b absolute).start.native.off = (IntervalPD.mk rs a b absolute).start.native ∧
      toE r.pd_end (IntervalPD.mk rs a b absolute).stop.native.off = (IntervalPD.mk rs a b absolute).stop.native ∧
      r.pd_start.fold = false ∧ r.pd_end.fold = false := by
  rw [init_eq_spec]
  unfold initSpec normEp
  rw [repEP_pDate env A a hA, repEP_pDate env B b hB]
  simp only [if_true]
  rw [gt_eq_gtEP env ok A B a b hA hB hc]
  refine ⟨_, rfl, ?_⟩
  unfold IntervalPD.mk
  simp only []
  obtain ⟨na, fa⟩ := toE_native env A a hA
  obtain ⟨nb, fb⟩ := toE_native env B b hB
  cases hg : IntervalPD.gtEP a b <;> cases absolute <;>
    simp only [Bool.and_self, Bool.and_true, Bool.and_false, Bool.true_and, Bool.false_and, Bool.false_eq_true, if_false, if_true] <;>
    exact ⟨trivial, trivial, by assumption, by assumption, by assumption, by assumption, by assumption, by assumption⟩

/-- one shared tzinfo object (or two naive values): the endpoints kept are the model's `initEnds`, `_invert` its `gt` -/
theorem init_ends (env : Env) (ok : EnvOk env) (A B : Ep) (s e : V) (absolute : Bool)
    (hA : Rep env A s) (hB : Rep env B e) (hpA : isinst A.kind .pDate = true) (hpB : isinst B.kind .pDate = true)
    (htz : A.tz = B.tz) :
    ∃ r, Gen.Interval.init env A B absolute = .ok r ∧ r.invert = Interval.gt s e true ∧ r.absolute = absolute ∧
      Rep env r.start (Interval.initEnds s e absolute).1 ∧ Rep env r.end_ (Interval.initEnds s e absolute).2 := by
  rw [init_eq_spec]
  unfold initSpec normEp
  rw [hpA, hpB]
  simp only [if_true]
  have hgt : env.gt A B = Interval.gt s e true := by
    rw [ok.gt_ok A B (by unfold Compat; rw [htz]), if_pos htz, hA.wall, hB.wall]
    unfold Interval.gt; simp
  rw [hgt]
  refine ⟨_, rfl, rfl, rfl, ?_⟩
  unfold Interval.initEnds
  cases hg : (Interval.gt s e true && absolute) <;>
    simp only [Bool.false_eq_true, if_false, if_true] <;> exact ⟨by assumption, by assumption⟩



end Pendulum.IntervalGen
