import Pendulum.Model.AddDur
import Pendulum.Proofs.CalRT
/-! lemmas about the `add_duration` model: carries preserve the total, the year/month step is month-index
arithmetic, the generated month-length lookup is the calendar's, and the fixed-unit path is plain addition -/
namespace Pendulum.AddDur
open Pendulum Pendulum.Cal

theorem carry_total (x lim base next : Int) :
    (carry x lim base next).1 + base * (carry x lim base next).2 = x + base * next := by
  unfold carry
  by_cases hbig : abs' x > lim
  · simp only [hbig, if_true]
    unfold sgn
    by_cases hneg : x < 0
    · simp only [hneg, if_true]
      have h1 := Int.emod_add_mul_ediv (x * -1) base
      have e1 : x * -1 % base * -1 = -(x * -1 % base) := by omega
      have e2 : base * (next + x * -1 / base * -1) = base * next - base * (x * -1 / base) := by
        rw [Int.mul_add, Int.mul_comm (x * -1 / base) (-1), ← Int.mul_assoc, Int.mul_neg_one, Int.neg_mul]; omega
      rw [e1, e2]; omega
    · simp only [hneg, if_false, Int.mul_one]
      have h1 := Int.emod_add_mul_ediv x base
      rw [Int.mul_add]; omega
  · simp only [hbig, if_false]

/-- the whole µs→s→min→h→day carry chain preserves the total number of microseconds -/
theorem normTime_total (days hours minutes seconds micros : Int) :
    let r := normTime days hours minutes seconds micros
    totalUs r.1 r.2.1 r.2.2.1 r.2.2.2.1 r.2.2.2.2 = totalUs days hours minutes seconds micros := by
  simp only [normTime]
  have c1 := carry_total micros 999999 1000000 seconds
  generalize carry micros 999999 1000000 seconds = p1 at *
  obtain ⟨us, sec⟩ := p1
  have c2 := carry_total sec 59 60 minutes
  generalize carry sec 59 60 minutes = p2 at *
  obtain ⟨sec', mi⟩ := p2
  have c3 := carry_total mi 59 60 hours
  generalize carry mi 59 60 hours = p3 at *
  obtain ⟨mi', h⟩ := p3
  have c4 := carry_total h 23 24 days
  generalize carry h 23 24 days = p4 at *
  obtain ⟨h', d⟩ := p4
  simp only [totalUs] at *
  omega

/-- spec of the year/month step: month-index arithmetic -/
def addYMspec (y m years months : Int) : Int × Int :=
  let k := y * 12 + (m - 1) + years * 12 + months
  (k / 12, k % 12 + 1)

theorem addYM_spec (y m years months : Int) (hm : 1 ≤ m ∧ m ≤ 12) :
    addYM y m years months = addYMspec y m years months := by
  unfold addYM addYMspec sgn abs'
  simp only []
  by_cases hneg : months < 0
  · simp only [hneg, if_true]
    repeat' split
    all_goals (simp only [Prod.mk.injEq]; omega)
  · simp only [hneg, if_false]
    repeat' split
    all_goals (simp only [Prod.mk.injEq]; omega)

theorem addYM_zero (y m : Int) : addYM y m 0 0 = (y, m) := by
  simp [addYM, abs']

/-- the generated lookup `DAYS_PER_MONTHS[int(is_leap(year))][month]` is the calendar's month length -/
theorem daysPerMonth_eq (y m : Int) (hm : 1 ≤ m ∧ m ≤ 12) : daysPerMonth y m = daysInMonth y m := by
  unfold daysPerMonth
  have hl : Gen.is_leap y = isLeap y := rfl
  rw [hl]
  obtain ⟨h1, h2⟩ := hm
  have : m = 1 ∨ m = 2 ∨ m = 3 ∨ m = 4 ∨ m = 5 ∨ m = 6 ∨ m = 7 ∨ m = 8 ∨ m = 9 ∨ m = 10 ∨ m = 11 ∨ m = 12 := by omega
  rcases this with h|h|h|h|h|h|h|h|h|h|h|h <;> subst h <;> cases hl2 : isLeap y <;>
    simp [Gen.py_DAYS_PER_MONTHS_0, Gen.py_DAYS_PER_MONTHS_1, daysInMonth, hl2]

/-- fields ↔ wall round trip -/
theorem fieldsToWall_wallToFields (w : Int) :
    fieldsToWall (wallToFields w).1 (wallToFields w).2.1 (wallToFields w).2.2.1 (wallToFields w).2.2.2 = w := by
  unfold fieldsToWall wallToFields
  simp only []
  have h := (ymd2ord_ord2ymd (w / DAY + epochOrd)).1
  rw [h]
  unfold DAY; omega

theorem wallToFields_valid (w : Int) :
    validDate (wallToFields w).1 (wallToFields w).2.1 (wallToFields w).2.2.1 := by
  unfold wallToFields; exact (ymd2ord_ord2ymd (w / DAY + epochOrd)).2

/-- with no calendar units, `add_duration` is addition of the total number of microseconds -/
theorem addDuration_fixed (w hours minutes seconds micros r : Int)
    (h : addDuration w 0 0 0 0 hours minutes seconds micros = .ok r) :
    r = w + totalUs 0 hours minutes seconds micros := by
  unfold addDuration at h
  simp only [Int.zero_mul, Int.add_zero] at h
  have ht := normTime_total 0 hours minutes seconds micros
  simp only [] at ht
  generalize normTime 0 hours minutes seconds micros = nt at *
  obtain ⟨d', h', mi', s', us'⟩ := nt
  simp only [] at ht h
  have hv := wallToFields_valid w
  have hrt := fieldsToWall_wallToFields w
  generalize wallToFields w = wf at *
  obtain ⟨y, m, d, tod⟩ := wf
  simp only [addYM_zero] at h hv hrt
  split at h
  · cases h
  · obtain ⟨m1, m2, d1, d2⟩ := hv
    rw [daysPerMonth_eq y m ⟨m1, m2⟩] at h
    have hmin : min (daysInMonth y m) d = d := by omega
    rw [hmin, hrt] at h
    split at h
    · cases h
    · injection h with h; omega

end Pendulum.AddDur
