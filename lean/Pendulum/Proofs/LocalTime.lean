import Pendulum.Model.LocalTime
import Pendulum.Proofs.CalRT
/-! `local_time`: the 400/100/4/1-year chunk loops in closed form, and the link to the proleptic ordinal. -/
namespace Pendulum.LocalTime
open Pendulum Pendulum.Cal Pendulum.Gen

/-- a chunk loop whose size no longer changes is a division -/
theorem chunkLoop_const (fuel : Nat) (size : Int → Int) (step after : Int) :
    ∀ (s y : Int), 0 ≤ s → 0 < size after → s / size after < fuel →
    chunkLoop fuel size step after s y after = (s % size after, y + step * (s / size after), after) := by
  induction fuel with
  | zero => intro s y hs hB hf; have := Int.ediv_nonneg hs (Int.le_of_lt hB); omega
  | succ f ih =>
    intro s y hs hB hf
    simp only [chunkLoop]
    generalize hBd : size after = B at *
    by_cases h : s ≥ B
    · simp only [h, if_true]
      have e1 : (s - B) / B = s / B - 1 := by
        have : s - B = s + B * (-1) := by omega
        rw [this, Int.add_mul_ediv_left _ _ (by omega)]; omega
      have e2 : (s - B) % B = s % B := by
        have : s - B = s + B * (-1) := by omega
        rw [this, Int.add_mul_emod_self_left]
      have := ih (s - B) (y + step) (by omega) hB (by omega)
      rw [this, e1, e2]
      congr 2
      rw [Int.mul_sub, Int.mul_one]; omega
    · simp only [h, if_false]
      have h1 : s / B = 0 := Int.ediv_eq_zero_of_lt hs (by omega)
      have h2 : s % B = s := Int.emod_eq_of_lt hs (by omega)
      rw [h1, h2]; simp

/-- first iteration compares against the incoming flag's size, the rest against the `after` size -/
theorem chunkLoop_closed (fuel : Nat) (size : Int → Int) (step after s y lp : Int)
    (_hs : 0 ≤ s) (hB : 0 < size after) (hf : (s - size lp) / size after < fuel) :
    chunkLoop (fuel + 1) size step after s y lp =
      if s ≥ size lp then ((s - size lp) % size after, y + step * (1 + (s - size lp) / size after), after)
      else (s, y, lp) := by
  simp only [chunkLoop]
  by_cases h : s ≥ size lp
  · simp only [h, if_true]
    rw [chunkLoop_const fuel size step after (s - size lp) (y + step) (by omega) hB hf]
    congr 2
    rw [Int.mul_add, Int.mul_one]; omega
  · simp only [h, if_false]

/-! ### the year part on the Python tables -/

def D : Int := 86400
def C1 : Int := 36525 * 86400
def C0 : Int := 36524 * 86400
def Q1 : Int := 1461 * 86400
def Q0 : Int := 1460 * 86400
def Y1 : Int := 366 * 86400
def Y0 : Int := 365 * 86400
def S400 : Int := 146097 * 86400

theorem tbl_vals :
    pyTbl.s100 1 = C1 ∧ pyTbl.s100 0 = C0 ∧ pyTbl.s4 1 = Q1 ∧ pyTbl.s4 0 = Q0 ∧ pyTbl.s1 1 = Y1 ∧ pyTbl.s1 0 = Y0 ∧
    pyTbl.s400 = S400 ∧ pyTbl.secsPerDay = D ∧ pyTbl.secsPerHour = 3600 ∧ pyTbl.secsPerMin = 60 ∧ pyTbl.epochYear = 1970 := by
  decide

/-- the three chunk loops -/
def yearPart (T : Tbl) (s0 y0 : Int) : Int × Int × Int :=
  let r1 := chunkLoop 8 T.s100 100 0 s0 y0 1
  let r2 := chunkLoop 40 T.s4 4 1 r1.1 r1.2.1 r1.2.2
  chunkLoop 8 T.s1 1 0 r2.1 r2.2.1 r2.2.2

/-- closed form of one stage: (remaining seconds, chunks consumed) -/
def closed (s A B : Int) : Int × Int := if s ≥ A then ((s - A) % B, 1 + (s - A) / B) else (s, 0)

/-- days from Jan 1 of cycle-year 0 to Jan 1 of cycle-year y -/
def daysBeforeCycleYear (y : Int) : Int := 365 * y + (y + 3) / 4 - (y + 99) / 100 + (y + 399) / 400

def isLeapCycleP (y : Int) : Prop := y % 4 = 0 ∧ (y % 100 ≠ 0 ∨ y % 400 = 0)

theorem st1 (s0 : Int) (h0 : 0 ≤ s0) (h1 : s0 < S400) :
    0 ≤ (closed s0 C1 C0).1 ∧ 0 ≤ (closed s0 C1 C0).2 ∧ (closed s0 C1 C0).2 ≤ 3 ∧
    (closed s0 C1 C0).1 < (if (closed s0 C1 C0).2 = 0 then C1 else C0) ∧
    (closed s0 C1 C0).1 + (if (closed s0 C1 C0).2 = 0 then 0 else C1 + ((closed s0 C1 C0).2 - 1) * C0) = s0 := by
  unfold closed C1 C0 S400 at *
  split
  · refine ⟨by omega, by omega, by omega, ?_, ?_⟩
    · split <;> omega
    · split <;> omega
  · simp; omega

theorem st2 (s1 : Int) (lp : Bool) (h0 : 0 ≤ s1) (h1 : s1 < (if lp then C1 else C0)) :
    0 ≤ (closed s1 (if lp then Q1 else Q0) Q1).1 ∧ 0 ≤ (closed s1 (if lp then Q1 else Q0) Q1).2 ∧
    (closed s1 (if lp then Q1 else Q0) Q1).2 ≤ 24 ∧
    (closed s1 (if lp then Q1 else Q0) Q1).1 < (if (closed s1 (if lp then Q1 else Q0) Q1).2 = 0 then (if lp then Q1 else Q0) else Q1) ∧
    (closed s1 (if lp then Q1 else Q0) Q1).1 +
      (if (closed s1 (if lp then Q1 else Q0) Q1).2 = 0 then 0 else (if lp then Q1 else Q0) + ((closed s1 (if lp then Q1 else Q0) Q1).2 - 1) * Q1) = s1 := by
  unfold closed C1 C0 Q1 Q0 at *
  cases lp <;> simp only [if_true, if_false, Bool.false_eq_true] at * <;>
  · split
    · refine ⟨by omega, by omega, by omega, ?_, ?_⟩
      · split <;> omega
      · split <;> omega
    · simp; omega

theorem st3 (s2 : Int) (lp : Bool) (h0 : 0 ≤ s2) (h1 : s2 < (if lp then Q1 else Q0)) :
    0 ≤ (closed s2 (if lp then Y1 else Y0) Y0).1 ∧ 0 ≤ (closed s2 (if lp then Y1 else Y0) Y0).2 ∧
    (closed s2 (if lp then Y1 else Y0) Y0).2 ≤ 3 ∧
    (closed s2 (if lp then Y1 else Y0) Y0).1 < (if (closed s2 (if lp then Y1 else Y0) Y0).2 = 0 then (if lp then Y1 else Y0) else Y0) ∧
    (closed s2 (if lp then Y1 else Y0) Y0).1 +
      (if (closed s2 (if lp then Y1 else Y0) Y0).2 = 0 then 0 else (if lp then Y1 else Y0) + ((closed s2 (if lp then Y1 else Y0) Y0).2 - 1) * Y0) = s2 := by
  unfold closed Q1 Q0 Y1 Y0 at *
  cases lp <;> simp only [if_true, if_false, Bool.false_eq_true] at * <;>
  · split
    · refine ⟨by omega, by omega, by omega, ?_, ?_⟩
      · split <;> omega
      · split <;> omega
    · simp; omega

/-- the chunk sizes subtracted by the three loops add up to the days before the year reached, and the final
    leap flag is the Gregorian rule -/
theorem compose (n1 n2 n3 : Int) (h1 : 0 ≤ n1 ∧ n1 ≤ 3) (h2 : 0 ≤ n2 ∧ n2 ≤ 24) (h3 : 0 ≤ n3 ∧ n3 ≤ 3) :
    (if n1 = 0 then 0 else C1 + (n1 - 1) * C0) +
      (if n2 = 0 then 0 else (if decide (n1 = 0) then Q1 else Q0) + (n2 - 1) * Q1) +
      (if n3 = 0 then 0 else (if (if n2 = 0 then decide (n1 = 0) else true) then Y1 else Y0) + (n3 - 1) * Y0)
      = D * daysBeforeCycleYear (100 * n1 + 4 * n2 + n3) ∧
    ((if n3 = 0 then (if n2 = 0 then decide (n1 = 0) else true) else false) = true ↔ isLeapCycleP (100 * n1 + 4 * n2 + n3)) := by
  unfold daysBeforeCycleYear isLeapCycleP D C1 C0 Q1 Q0 Y1 Y0
  by_cases c1 : n1 = 0 <;> by_cases c2 : n2 = 0 <;> by_cases c3 : n3 = 0 <;>
    simp only [c1, c2, c3, if_true, if_false, decide_true, decide_false, Bool.false_eq_true] <;>
    (refine ⟨by omega, ?_⟩; simp; try omega)


def flag (b : Bool) : Int := if b then 1 else 0

theorem stage1 (s0 y0 : Int) (h0 : 0 ≤ s0) (h1 : s0 < S400) :
    chunkLoop 8 pyTbl.s100 100 0 s0 y0 1 =
      ((closed s0 C1 C0).1, y0 + 100 * (closed s0 C1 C0).2, flag (decide ((closed s0 C1 C0).2 = 0))) := by
  obtain ⟨t1, t0, _⟩ := tbl_vals
  rw [show (8 : Nat) = 7 + 1 from rfl, chunkLoop_closed 7 pyTbl.s100 100 0 s0 y0 1 h0 (by rw [t0]; decide)
    (by rw [t1, t0]; unfold C1 C0 S400 at *; omega)]
  rw [t1, t0]
  unfold closed flag
  by_cases c : s0 ≥ C1
  · simp only [c, if_true]
    have : ¬ (1 + (s0 - C1) / C0 = 0) := by unfold C1 C0 at *; omega
    simp [this]
  · simp [c]

theorem stage2 (s1 y1 : Int) (lp : Bool) (h0 : 0 ≤ s1) (h1 : s1 < (if lp then C1 else C0)) :
    chunkLoop 40 pyTbl.s4 4 1 s1 y1 (flag lp) =
      ((closed s1 (if lp then Q1 else Q0) Q1).1, y1 + 4 * (closed s1 (if lp then Q1 else Q0) Q1).2,
        flag (if (closed s1 (if lp then Q1 else Q0) Q1).2 = 0 then lp else true)) := by
  obtain ⟨_, _, t1, t0, _⟩ := tbl_vals
  have hsz : pyTbl.s4 (flag lp) = (if lp then Q1 else Q0) := by cases lp <;> simp [flag, t1, t0]
  rw [show (40 : Nat) = 39 + 1 from rfl, chunkLoop_closed 39 pyTbl.s4 4 1 s1 y1 (flag lp) h0 (by rw [t1]; decide)
    (by rw [hsz, t1]; cases lp <;> simp only [if_true, if_false, Bool.false_eq_true] at * <;> unfold C1 C0 Q1 Q0 at * <;> omega)]
  rw [hsz, t1]
  unfold closed
  by_cases c : s1 ≥ (if lp then Q1 else Q0)
  · simp only [c, if_true]
    have : ¬ (1 + (s1 - (if lp then Q1 else Q0)) / Q1 = 0) := by
      cases lp <;> simp only [if_true, if_false, Bool.false_eq_true] at * <;> unfold Q1 Q0 at * <;> omega
    simp [this, flag]
  · simp [c]

theorem stage3 (s2 y2 : Int) (lp : Bool) (h0 : 0 ≤ s2) (h1 : s2 < (if lp then Q1 else Q0)) :
    chunkLoop 8 pyTbl.s1 1 0 s2 y2 (flag lp) =
      ((closed s2 (if lp then Y1 else Y0) Y0).1, y2 + (closed s2 (if lp then Y1 else Y0) Y0).2,
        flag (if (closed s2 (if lp then Y1 else Y0) Y0).2 = 0 then lp else false)) := by
  obtain ⟨_, _, _, _, t1, t0, _⟩ := tbl_vals
  have hsz : pyTbl.s1 (flag lp) = (if lp then Y1 else Y0) := by cases lp <;> simp [flag, t1, t0]
  rw [show (8 : Nat) = 7 + 1 from rfl, chunkLoop_closed 7 pyTbl.s1 1 0 s2 y2 (flag lp) h0 (by rw [t0]; decide)
    (by rw [hsz, t0]; cases lp <;> simp only [if_true, if_false, Bool.false_eq_true] at * <;> unfold Q1 Q0 Y1 Y0 at * <;> omega)]
  rw [hsz, t0]
  unfold closed
  by_cases c : s2 ≥ (if lp then Y1 else Y0)
  · simp only [c, if_true]
    have : ¬ (1 + (s2 - (if lp then Y1 else Y0)) / Y0 = 0) := by
      cases lp <;> simp only [if_true, if_false, Bool.false_eq_true] at * <;> unfold Y1 Y0 at * <;> omega
    simp [this, flag]
  · simp [c]

end Pendulum.LocalTime
