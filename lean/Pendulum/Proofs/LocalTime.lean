import Pendulum.Model.LocalTime
import Pendulum.Proofs.CalRT
/-! `local_time`: the 400/100/4/1-year chunk loops in closed form, and the link to the proleptic ordinal. -/
namespace Pendulum.LocalTime
open Pendulum Pendulum.Cal Pendulum.Gen

/-- a chunk loop whose size no longer changes is a division -/
theorem chunkLoop_const (fuel : Nat) (size : Int → Int) (step after : Int) :
    ∀ (s y : Int), 0 ≤ s → 0 < size after → s / size after < fuel →
    chunkLoop fuel size step after s y after = (s % size after, y + step * (s / size after), after) := by
  induction fuel with
  | zero => intro s y hs hB hf; have := Int.ediv_nonneg hs (Int.le_of_lt hB); omega
  | succ f ih =>
    intro s y hs hB hf
    simp only [chunkLoop]
    generalize hBd : size after = B at *
    by_cases h : s ≥ B
    · simp only [h, if_true]
      have e1 : (s - B) / B = s / B - 1 := by
        have : s - B = s + B * (-1) := by omega
        rw [this, Int.add_mul_ediv_left _ _ (by omega)]; omega
      have e2 : (s - B) % B = s % B := by
        have : s - B = s + B * (-1) := by omega
        rw [this, Int.add_mul_emod_self_left]
      have := ih (s - B) (y + step) (by omega) hB (by omega)
      rw [this, e1, e2]
      congr 2
      rw [Int.mul_sub, Int.mul_one]; omega
    · simp only [h, if_false]
      have h1 : s / B = 0 := Int.ediv_eq_zero_of_lt hs (by omega)
      have h2 : s % B = s := Int.emod_eq_of_lt hs (by omega)
      rw [h1, h2]; simp

/-- first iteration compares against the incoming flag's size, the rest against the `after` size -/
theorem chunkLoop_closed (fuel : Nat) (size : Int → Int) (step after s y lp : Int)
    (_hs : 0 ≤ s) (hB : 0 < size after) (hf : (s - size lp) / size after < fuel) :
    chunkLoop (fuel + 1) size step after s y lp =
      if s ≥ size lp then ((s - size lp) % size after, y + step * (1 + (s - size lp) / size after), after)
      else (s, y, lp) := by
  simp only [chunkLoop]
  by_cases h : s ≥ size lp
  · simp only [h, if_true]
    rw [chunkLoop_const fuel size step after (s - size lp) (y + step) (by omega) hB hf]
    congr 2
    rw [Int.mul_add, Int.mul_one]; omega
  · simp only [h, if_false]

/-! ### the year part on the Python tables -/

def D : Int := 86400
def C1 : Int := 36525 * 86400
def C0 : Int := 36524 * 86400
def Q1 : Int := 1461 * 86400
def Q0 : Int := 1460 * 86400
def Y1 : Int := 366 * 86400
def Y0 : Int := 365 * 86400
def S400 : Int := 146097 * 86400

theorem tbl_vals :
    pyTbl.s100 1 = C1 ∧ pyTbl.s100 0 = C0 ∧ pyTbl.s4 1 = Q1 ∧ pyTbl.s4 0 = Q0 ∧ pyTbl.s1 1 = Y1 ∧ pyTbl.s1 0 = Y0 ∧
    pyTbl.s400 = S400 ∧ pyTbl.secsPerDay = D ∧ pyTbl.secsPerHour = 3600 ∧ pyTbl.secsPerMin = 60 ∧ pyTbl.epochYear = 1970 := by
  decide

/-- closed form of one stage: (remaining seconds, chunks consumed) -/
def closed (s A B : Int) : Int × Int := if s ≥ A then ((s - A) % B, 1 + (s - A) / B) else (s, 0)

/-- days from Jan 1 of cycle-year 0 to Jan 1 of cycle-year y -/
def daysBeforeCycleYear (y : Int) : Int := 365 * y + (y + 3) / 4 - (y + 99) / 100 + (y + 399) / 400

def isLeapCycleP (y : Int) : Prop := y % 4 = 0 ∧ (y % 100 ≠ 0 ∨ y % 400 = 0)

theorem st1 (s0 : Int) (h0 : 0 ≤ s0) (h1 : s0 < S400) :
    0 ≤ (closed s0 C1 C0).1 ∧ 0 ≤ (closed s0 C1 C0).2 ∧ (closed s0 C1 C0).2 ≤ 3 ∧
    (closed s0 C1 C0).1 < (if (closed s0 C1 C0).2 = 0 then C1 else C0) ∧
    (closed s0 C1 C0).1 + (if (closed s0 C1 C0).2 = 0 then 0 else C1 + ((closed s0 C1 C0).2 - 1) * C0) = s0 := by
  unfold closed C1 C0 S400 at *
  split
  · refine ⟨by omega, by omega, by omega, ?_, ?_⟩
    · split <;> omega
    · split <;> omega
  · simp; omega

theorem st2 (s1 : Int) (lp : Bool) (h0 : 0 ≤ s1) (h1 : s1 < (if lp then C1 else C0)) :
    0 ≤ (closed s1 (if lp then Q1 else Q0) Q1).1 ∧ 0 ≤ (closed s1 (if lp then Q1 else Q0) Q1).2 ∧
    (closed s1 (if lp then Q1 else Q0) Q1).2 ≤ 24 ∧
    (closed s1 (if lp then Q1 else Q0) Q1).1 < (if (closed s1 (if lp then Q1 else Q0) Q1).2 = 0 then (if lp then Q1 else Q0) else Q1) ∧
    (closed s1 (if lp then Q1 else Q0) Q1).1 +
      (if (closed s1 (if lp then Q1 else Q0) Q1).2 = 0 then 0 else (if lp then Q1 else Q0) + ((closed s1 (if lp then Q1 else Q0) Q1).2 - 1) * Q1) = s1 := by
  unfold closed C1 C0 Q1 Q0 at *
  cases lp <;> simp only [if_true, if_false, Bool.false_eq_true] at * <;>
  · split
    · refine ⟨by omega, by omega, by omega, ?_, ?_⟩
      · split <;> omega
      · split <;> omega
    · simp; omega

theorem st3 (s2 : Int) (lp : Bool) (h0 : 0 ≤ s2) (h1 : s2 < (if lp then Q1 else Q0)) :
    0 ≤ (closed s2 (if lp then Y1 else Y0) Y0).1 ∧ 0 ≤ (closed s2 (if lp then Y1 else Y0) Y0).2 ∧
    (closed s2 (if lp then Y1 else Y0) Y0).2 ≤ 3 ∧
    (closed s2 (if lp then Y1 else Y0) Y0).1 < (if (closed s2 (if lp then Y1 else Y0) Y0).2 = 0 then (if lp then Y1 else Y0) else Y0) ∧
    (closed s2 (if lp then Y1 else Y0) Y0).1 +
      (if (closed s2 (if lp then Y1 else Y0) Y0).2 = 0 then 0 else (if lp then Y1 else Y0) + ((closed s2 (if lp then Y1 else Y0) Y0).2 - 1) * Y0) = s2 := by
  unfold closed Q1 Q0 Y1 Y0 at *
  cases lp <;> simp only [if_true, if_false, Bool.false_eq_true] at * <;>
  · split
    · refine ⟨by omega, by omega, by omega, ?_, ?_⟩
      · split <;> omega
      · split <;> omega
    · simp; omega

/-- the chunk sizes subtracted by the three loops add up to the days before the year reached, and the final
    leap flag is the Gregorian rule -/
theorem compose (n1 n2 n3 : Int) (h1 : 0 ≤ n1 ∧ n1 ≤ 3) (h2 : 0 ≤ n2 ∧ n2 ≤ 24) (h3 : 0 ≤ n3 ∧ n3 ≤ 3) :
    (if n1 = 0 then 0 else C1 + (n1 - 1) * C0) +
      (if n2 = 0 then 0 else (if decide (n1 = 0) then Q1 else Q0) + (n2 - 1) * Q1) +
      (if n3 = 0 then 0 else (if (if n2 = 0 then decide (n1 = 0) else true) then Y1 else Y0) + (n3 - 1) * Y0)
      = D * daysBeforeCycleYear (100 * n1 + 4 * n2 + n3) ∧
    ((if n3 = 0 then (if n2 = 0 then decide (n1 = 0) else true) else false) = true ↔ isLeapCycleP (100 * n1 + 4 * n2 + n3)) := by
  unfold daysBeforeCycleYear isLeapCycleP D C1 C0 Q1 Q0 Y1 Y0
  by_cases c1 : n1 = 0 <;> by_cases c2 : n2 = 0 <;> by_cases c3 : n3 = 0 <;>
    simp only [c1, c2, c3, if_true, if_false, decide_true, decide_false, Bool.false_eq_true] <;>
    (refine ⟨by omega, ?_⟩; simp; try omega)


def flag (b : Bool) : Int := if b then 1 else 0

theorem stage1 (s0 y0 : Int) (h0 : 0 ≤ s0) (h1 : s0 < S400) :
    chunkLoop 8 pyTbl.s100 100 0 s0 y0 1 =
      ((closed s0 C1 C0).1, y0 + 100 * (closed s0 C1 C0).2, flag (decide ((closed s0 C1 C0).2 = 0))) := by
  obtain ⟨t1, t0, _⟩ := tbl_vals
  rw [show (8 : Nat) = 7 + 1 from rfl, chunkLoop_closed 7 pyTbl.s100 100 0 s0 y0 1 h0 (by rw [t0]; decide)
    (by rw [t1, t0]; unfold C1 C0 S400 at *; omega)]
  rw [t1, t0]
  unfold closed flag
  by_cases c : s0 ≥ C1
  · simp only [c, if_true]
    have : ¬ (1 + (s0 - C1) / C0 = 0) := by unfold C1 C0 at *; omega
    simp [this]
  · simp [c]

theorem stage2 (s1 y1 : Int) (lp : Bool) (h0 : 0 ≤ s1) (h1 : s1 < (if lp then C1 else C0)) :
    chunkLoop 40 pyTbl.s4 4 1 s1 y1 (flag lp) =
      ((closed s1 (if lp then Q1 else Q0) Q1).1, y1 + 4 * (closed s1 (if lp then Q1 else Q0) Q1).2,
        flag (if (closed s1 (if lp then Q1 else Q0) Q1).2 = 0 then lp else true)) := by
  obtain ⟨_, _, t1, t0, _⟩ := tbl_vals
  have hsz : pyTbl.s4 (flag lp) = (if lp then Q1 else Q0) := by cases lp <;> simp [flag, t1, t0]
  rw [show (40 : Nat) = 39 + 1 from rfl, chunkLoop_closed 39 pyTbl.s4 4 1 s1 y1 (flag lp) h0 (by rw [t1]; decide)
    (by rw [hsz, t1]; cases lp <;> simp only [if_true, if_false, Bool.false_eq_true] at * <;> unfold C1 C0 Q1 Q0 at * <;> omega)]
  rw [hsz, t1]
  unfold closed
  by_cases c : s1 ≥ (if lp then Q1 else Q0)
  · simp only [c, if_true]
    have : ¬ (1 + (s1 - (if lp then Q1 else Q0)) / Q1 = 0) := by
      cases lp <;> simp only [if_true, if_false, Bool.false_eq_true] at * <;> unfold Q1 Q0 at * <;> omega
    simp [this, flag]
  · simp [c]

theorem stage3 (s2 y2 : Int) (lp : Bool) (h0 : 0 ≤ s2) (h1 : s2 < (if lp then Q1 else Q0)) :
    chunkLoop 8 pyTbl.s1 1 0 s2 y2 (flag lp) =
      ((closed s2 (if lp then Y1 else Y0) Y0).1, y2 + (closed s2 (if lp then Y1 else Y0) Y0).2,
        flag (if (closed s2 (if lp then Y1 else Y0) Y0).2 = 0 then lp else false)) := by
  obtain ⟨_, _, _, _, t1, t0, _⟩ := tbl_vals
  have hsz : pyTbl.s1 (flag lp) = (if lp then Y1 else Y0) := by cases lp <;> simp [flag, t1, t0]
  rw [show (8 : Nat) = 7 + 1 from rfl, chunkLoop_closed 7 pyTbl.s1 1 0 s2 y2 (flag lp) h0 (by rw [t0]; decide)
    (by rw [hsz, t0]; cases lp <;> simp only [if_true, if_false, Bool.false_eq_true] at * <;> unfold Q1 Q0 Y1 Y0 at * <;> omega)]
  rw [hsz, t0]
  unfold closed
  by_cases c : s2 ≥ (if lp then Y1 else Y0)
  · simp only [c, if_true]
    have : ¬ (1 + (s2 - (if lp then Y1 else Y0)) / Y0 = 0) := by
      cases lp <;> simp only [if_true, if_false, Bool.false_eq_true] at * <;> unfold Y1 Y0 at * <;> omega
    simp [this, flag]
  · simp [c]


/-- what the three loops compute, for seconds inside one 400-year cycle -/
theorem yearPart_spec (s0 y0 : Int) (h0 : 0 ≤ s0) (h1 : s0 < S400) :
    ∃ yc s3 : Int, ∃ lf : Bool, yearPart pyTbl s0 y0 = (s3, y0 + yc, flag lf) ∧
      0 ≤ yc ∧ yc ≤ 399 ∧ (lf = true ↔ isLeapCycleP yc) ∧
      0 ≤ s3 ∧ s3 < (if lf then Y1 else Y0) ∧ s0 = D * daysBeforeCycleYear yc + s3 := by
  obtain ⟨a1, a2, a3, a4, a5⟩ := st1 s0 h0 h1
  generalize hr1 : closed s0 C1 C0 = r1 at *
  obtain ⟨s1, n1⟩ := r1
  simp only [] at a1 a2 a3 a4 a5
  have hl1 : s1 < (if decide (n1 = 0) then C1 else C0) := by
    by_cases c : n1 = 0 <;> simp [c] at a4 ⊢ <;> exact a4
  obtain ⟨b1, b2, b3, b4, b5⟩ := st2 s1 (decide (n1 = 0)) a1 hl1
  generalize hr2 : closed s1 (if decide (n1 = 0) then Q1 else Q0) Q1 = r2 at *
  obtain ⟨s2, n2⟩ := r2
  simp only [] at b1 b2 b3 b4 b5
  have hl2 : s2 < (if (if n2 = 0 then decide (n1 = 0) else true) then Q1 else Q0) := by
    by_cases c : n2 = 0 <;> simp [c] at b4 ⊢ <;> exact b4
  obtain ⟨c1, c2, c3, c4, c5⟩ := st3 s2 (if n2 = 0 then decide (n1 = 0) else true) b1 hl2
  generalize hr3 : closed s2 (if (if n2 = 0 then decide (n1 = 0) else true) then Y1 else Y0) Y0 = r3 at *
  obtain ⟨s3, n3⟩ := r3
  simp only [] at c1 c2 c3 c4 c5
  obtain ⟨k1, k2⟩ := compose n1 n2 n3 ⟨a2, a3⟩ ⟨b2, b3⟩ ⟨c2, c3⟩
  refine ⟨100 * n1 + 4 * n2 + n3, s3, (if n3 = 0 then (if n2 = 0 then decide (n1 = 0) else true) else false), ?_, by omega, by omega, k2, c1, ?_, ?_⟩
  · unfold yearPart
    simp only []
    rw [stage1 s0 y0 h0 h1, hr1]
    simp only []
    rw [stage2 s1 (y0 + 100 * n1) (decide (n1 = 0)) a1 hl1, hr2]
    simp only []
    rw [stage3 s2 (y0 + 100 * n1 + 4 * n2) (if n2 = 0 then decide (n1 = 0) else true) b1 hl2, hr3]
    simp only [Prod.mk.injEq, true_and, and_true]
    omega
  · by_cases c : n3 = 0 <;> simp [c] at c4 ⊢ <;> exact c4
  · omega


/-! ### month walk -/

def mwOK (leap : Bool) (n : Nat) : Bool :=
  let r := monthWalk 12 (if flag leap == 1 then pyTbl.moff1 else pyTbl.moff0) 12 ((n : Int) + 1)
  decide (1 ≤ r.1) && decide (r.1 ≤ 12) && decide (r.2 = (n : Int) + 1 - daysBeforeMonth leap r.1) &&
    decide (1 ≤ r.2) && decide (r.2 ≤ dimL leap r.1)

theorem mw_false : (List.range 365).all (mwOK false) = true := by decide +kernel
theorem mw_true : (List.range 366).all (mwOK true) = true := by decide +kernel

theorem monthWalk_spec (leap : Bool) (n : Int) (h0 : 0 ≤ n) (h1 : n < (if leap then 366 else 365)) :
    let r := monthWalk 12 (if flag leap == 1 then pyTbl.moff1 else pyTbl.moff0) 12 (n + 1)
    1 ≤ r.1 ∧ r.1 ≤ 12 ∧ r.2 = n + 1 - daysBeforeMonth leap r.1 ∧ 1 ≤ r.2 ∧ r.2 ≤ dimL leap r.1 := by
  have e : ((n.toNat : Nat) : Int) = n := by omega
  cases leap
  · have h := all_range mw_false n.toNat (by simp at h1; omega)
    simp only [mwOK, e, Bool.and_eq_true, decide_eq_true_eq] at h
    simp only []; omega
  · have h := all_range mw_true n.toNat (by simp at h1; omega)
    simp only [mwOK, e, Bool.and_eq_true, decide_eq_true_eq] at h
    simp only []; omega

/-! ### link between the cycle and the proleptic ordinal -/

theorem dby_cycle (k c : Int) : daysBeforeYear (400 * k + c) = 146097 * k + daysBeforeCycleYear c - 366 := by
  unfold daysBeforeYear daysBeforeCycleYear; simp only []; omega

theorem isLeap_cycle (k c : Int) : (isLeap (400 * k + c) = true) ↔ isLeapCycleP c := by
  unfold isLeap isLeapCycleP
  have h4 : (400 * k + c) % 4 = c % 4 := by omega
  have h100 : (400 * k + c) % 100 = c % 100 := by omega
  have h400 : (400 * k + c) % 400 = c % 400 := by omega
  rw [h4, h100, h400]
  simp only [Bool.and_eq_true, Bool.or_eq_true, beq_iff_eq, bne_iff_ne, ne_eq]

/-- **`local_time` (pure-Python arithmetic) is the civil rendering of `unix_time + utc_offset`**, for every integer
    timestamp of either sign and every offset: valid date whose proleptic ordinal is `epoch + ⌊(t+off)/86400⌋`, and
    h:m:s is the time of day -/
theorem localTime_py_spec (t off : Int) :
    let r := localTime false pyTbl t off
    validDate r.1 r.2.1 r.2.2.1 ∧ ymd2ord r.1 r.2.1 r.2.2.1 = epochOrd + (t + off) / 86400 ∧
    r.2.2.2.1 * 3600 + r.2.2.2.2.1 * 60 + r.2.2.2.2.2 = (t + off) % 86400 ∧
    0 ≤ r.2.2.2.1 ∧ r.2.2.2.1 < 24 ∧ 0 ≤ r.2.2.2.2.1 ∧ r.2.2.2.2.1 < 60 ∧ 0 ≤ r.2.2.2.2.2 ∧ r.2.2.2.2.2 < 60 := by
  obtain ⟨_, _, _, _, _, _, t400, tD, tH, tM, tE⟩ := tbl_vals
  simp only [localTime]
  -- base shift: S seconds since Jan 1 of base year 400*kb
  obtain ⟨S, kb, hb, hS⟩ : ∃ S kb : Int, shiftBase pyTbl t off = (S, 400 * kb) ∧
      S = t + off - 86400 * (146097 * kb - 366 + 1 - epochOrd) := by
    unfold shiftBase; rw [tD, tE]; unfold D epochOrd
    by_cases c : t ≥ 0
    · exact ⟨t - 946684800 + off, 5, by simp [c], by omega⟩
    · exact ⟨t + 11676096000 + off, 4, by simp [c], by omega⟩
  rw [hb]
  simp only [reduce400, Bool.false_eq_true, if_false, t400]
  have hs0 : 0 ≤ S % S400 ∧ S % S400 < S400 := by unfold S400; omega
  have hnn : ¬ (S % S400 < 0) := by omega
  simp only [hnn, if_false]
  obtain ⟨yc, s3, lf, hyp, y0, y1, hlf, s30, s31, hsum⟩ := yearPart_spec (S % S400) (400 * kb + 400 * (S / S400)) hs0.1 hs0.2
  rw [hyp]
  simp only [tD, tH, tM]
  have hday : 0 ≤ s3 / D ∧ s3 / D < (if lf then 366 else 365) := by
    cases lf <;> simp only [if_true, if_false, Bool.false_eq_true] at * <;> unfold D Y1 Y0 at * <;> omega
  have hmw := monthWalk_spec lf (s3 / D) hday.1 hday.2
  simp only [] at hmw
  generalize monthWalk 12 (if flag lf == 1 then pyTbl.moff1 else pyTbl.moff0) 12 (s3 / D + 1) = md at *
  obtain ⟨m, d⟩ := md
  simp only [] at hmw ⊢
  obtain ⟨m1, m2, m3, m4, m5⟩ := hmw
  have hY : 400 * kb + 400 * (S / S400) + yc = 400 * (kb + S / S400) + yc := by omega
  have hleap : isLeap (400 * kb + 400 * (S / S400) + yc) = lf := by
    rw [hY]
    have := isLeap_cycle (kb + S / S400) yc
    cases hl : isLeap (400 * (kb + S / S400) + yc) <;> cases lf <;> simp_all
  refine ⟨?_, ?_, ?_, ?_⟩
  · unfold validDate; rw [daysInMonth_eq, hleap]; exact ⟨m1, m2, m4, m5⟩
  · unfold ymd2ord
    rw [hleap, hY, dby_cycle]
    have hSd : S = S400 * (S / S400) + S % S400 := by
      have := Int.emod_add_mul_ediv S S400; omega
    unfold S400 D at *
    omega
  · unfold S400 D at *; omega
  · unfold D at *; omega


/-! ### the compiled backend computes the same thing -/

theorem rsTbl_eq : rsTbl = pyTbl := by
  unfold rsTbl pyTbl
  congr <;> funext i <;> rfl

/-- Rust's truncating `/`, `%` followed by the sign fix-up is floor division for a positive divisor -/
theorem reduce400_rs (T : Tbl) (hT : 0 < T.s400) (s y : Int) : reduce400 true T s y = reduce400 false T s y := by
  unfold reduce400
  simp only [if_true, Bool.false_eq_true, if_false]
  generalize T.s400 = B at *
  have hm : 0 ≤ s % B ∧ s % B < B := ⟨Int.emod_nonneg s (by omega), Int.emod_lt_of_pos s hT⟩
  have hnn : ¬ (s % B < 0) := by omega
  rw [if_neg hnn, Int.tdiv_eq_ediv, Int.tmod_eq_emod]
  have hsign : B.sign = 1 := Int.sign_eq_one_of_pos hT
  have habs : (B.natAbs : Int) = B := by omega
  by_cases c : 0 ≤ s ∨ B ∣ s
  · simp only [c, if_true, Int.add_zero, Int.natCast_zero, Int.sub_zero, hnn, if_false]
  · simp only [c, if_false, hsign, habs]
    have hlt : s % B - B < 0 := by omega
    rw [if_pos hlt]
    congr 1 <;> omega

theorem localTime_rs_eq (t off : Int) : localTime true rsTbl t off = localTime false pyTbl t off := by
  rw [rsTbl_eq]
  unfold localTime
  simp only [reduce400_rs pyTbl (by decide)]

end Pendulum.LocalTime
