import Pendulum.Proofs.FmtRoundTrip
/-! Remaining lemmas for C08: signed decimal read-back, two-digit year, bracket literals, expansion of date-format
tokens on class formats, error kinds of the class. -/
deriving instance DecidableEq for Except

namespace Pendulum.Fmt

/-- the decimal text Python's `format(n, "0Wd")` writes reads back (`int()`) as `n`, for every integer -/
theorem intOf_pyFmtD (w : Nat) (n : Int) : intOf (pyFmtD w n) = some n := by
  by_cases h : n < 0
  · unfold pyFmtD
    simp only [h, if_true]
    have hall := digitsW_all_digit (max (w - 1) (numDigits n.natAbs)) n.natAbs
    have hlen := digitsW_length (max (w - 1) (numDigits n.natAbs)) n.natAbs
    have hpos := numDigits_pos n.natAbs
    have hne : digitsW (max (w - 1) (numDigits n.natAbs)) n.natAbs ≠ [] := by
      intro e; rw [e] at hlen; simp at hlen; omega
    have hval : natOfDigits (digitsW (max (w - 1) (numDigits n.natAbs)) n.natAbs) = n.natAbs := by
      rw [natOfDigits_digitsW]
      apply Nat.mod_eq_of_lt
      exact Nat.lt_of_lt_of_le (lt_pow_numDigits _) (Nat.pow_le_pow_right (by decide) (Nat.le_max_right _ _))
    unfold intOf
    simp only [List.dropWhile, show ('-' == ' ') = false by decide]
    have he : (digitsW (max (w - 1) (numDigits n.natAbs)) n.natAbs).isEmpty = false := by
      cases hh : digitsW (max (w - 1) (numDigits n.natAbs)) n.natAbs with
      | nil => exact absurd hh hne
      | cons _ _ => rfl
    simp [he, hall, hval]
    omega
  · have h0 : 0 ≤ n := by omega
    rw [intOf_digits _ (pyFmtD_ne_nil w n h0) (pyFmtD_all_digit w n h0), natOfDigits_pyFmtD w n h0]

theorem natStr_eq (n : Int) (h : 0 ≤ n) : pyFmtD 0 n = natStr n.toNat := by
  rw [pyFmtD_nonneg 0 n h]; simp [natStr]

/-! ### bracket literals -/

theorem splitLastClose_append (s : Str) (h : s.all (· != ']') = true) : splitLastClose (s ++ [']']) = some (s, []) := by
  induction s with
  | nil => simp [splitLastClose]
  | cons c cs ih =>
    simp only [List.all_cons, Bool.and_eq_true] at h
    simp [splitLastClose, ih h.2]

theorem takeWhile_all {α} (p : α → Bool) (l : List α) (h : l.all p = true) : l.takeWhile p = l := by
  induction l with
  | nil => rfl
  | cons a l ih =>
    simp only [List.all_cons, Bool.and_eq_true] at h
    simp [List.takeWhile, h.1, ih h.2]

theorem tokenize_bracket (s : Str) (h1 : s.all (· != '[') = true) (h2 : s.all (· != ']') = true) :
    tokenize ('[' :: (s ++ [']'])) = [Item.lit s] := by
  have hall : (s ++ [']']).all (· != '[') = true := by simp [List.all_append, h1]
  have hb : bracket (s ++ [']']) = some (s, []) := by
    unfold bracket
    simp only [takeWhile_all _ _ hall, splitLastClose_append s h2, List.drop_length, List.append_nil]
  unfold tokenize
  simp only [List.length_cons, tokenizeAux, beq_self_eq_true, if_true, hb]

/-! ### class formats contain no date-format token -/

theorem expandItems_class (L : Loc) (its : List FItem) : ∀ n, expandItems L n (its.map FItem.toItem) = its.map FItem.toItem := by
  intro n
  cases n with
  | zero => rfl
  | succ n =>
    induction its with
    | nil => rfl
    | cons i its ih =>
      simp only [expandItems, List.map_cons, List.flatMap_cons] at ih ⊢
      rw [ih]
      cases i with
      | lit c => rfl
      | tok t =>
        have : isDateFormat t.str = false := by cases t <;> rfl
        simp [FItem.toItem, this]

/-! ### only `ValueError` for class formats -/

/-- invariant of the parsed state while the groups of a class format are read: no timestamp / quarter / weekday -/
def Inv (p : Parsed) : Prop :=
  p.timestamp = none ∧ p.quarter = none ∧ p.day_of_week = none

theorem applyGroup_class_kinds (L : Loc) (t : NTok) (value : Str) (p : Parsed) (hp : Inv p) :
    applyGroup L t.str value p = .error "ValueError" ∨ ∃ p', applyGroup L t.str value p = .ok p' ∧ Inv p' := by
  obtain ⟨a1, a2, a3⟩ := hp
  -- digit kinds
  have dig : ∀ (fk : FKind) (mul : Int), (fk = FKind.year false ∨ fk = FKind.year true ∨ fk = FKind.month ∨ fk = FKind.day
      ∨ fk = FKind.dayOfYear ∨ fk = FKind.minute ∨ fk = FKind.second ∨ fk = FKind.micro ∨ fk = FKind.hour) →
      applyKind fk (PKind.int mul 0) value p = .error "ValueError"
        ∨ ∃ p', applyKind fk (PKind.int mul 0) value p = .ok p' ∧ Inv p' := by
    intro fk mul hfk
    cases hi : intOf value with
    | none =>
      left
      rcases hfk with h|h|h|h|h|h|h|h|h <;> subst h <;> simp [applyKind, convInt, hi]
    | some n =>
      right
      rcases hfk with h|h|h|h|h|h|h|h|h <;> subst h <;> simp [applyKind, convInt, hi, Inv, a1, a2, a3]
  have hour12 : applyKind FKind.hour12 (PKind.int 1 0) value p = .error "ValueError"
      ∨ ∃ p', applyKind FKind.hour12 (PKind.int 1 0) value p = .ok p' ∧ Inv p' := by
    cases hi : intOf value with
    | none => left; simp [applyKind, convInt, hi]
    | some n =>
      by_cases hn : n > 12
      · left; simp [applyKind, convInt, hi, hn]
      · right; simp [applyKind, convInt, hi, hn, Inv, a1, a2, a3]
  have offs : applyKind FKind.offset PKind.str value p = .error "ValueError"
      ∨ ∃ p', applyKind FKind.offset PKind.str value p = .ok p' ∧ Inv p' := by
    unfold applyKind
    cases ho : parseOffset value with
    | error e =>
      left
      have : e = "ValueError" := by
        unfold parseOffset at ho
        split at ho
        · simp at ho
        · simp at ho; exact ho.symm
      simp [this]
    | ok o => right; exact ⟨_, rfl, a1, a2, a3⟩
  cases t
  case YYYY => exact dig (FKind.year false) 1 (by simp)
  case YY => exact dig (FKind.year true) 1 (by simp)
  case MM => exact dig FKind.month 1 (by simp)
  case M => exact dig FKind.month 1 (by simp)
  case DD => exact dig FKind.day 1 (by simp)
  case D => exact dig FKind.day 1 (by simp)
  case DDDD => exact dig FKind.dayOfYear 1 (by simp)
  case DDD => exact dig FKind.dayOfYear 1 (by simp)
  case HH => exact dig FKind.hour 1 (by simp)
  case H => exact dig FKind.hour 1 (by simp)
  case hh => exact hour12
  case h => exact hour12
  case mm => exact dig FKind.minute 1 (by simp)
  case m => exact dig FKind.minute 1 (by simp)
  case ss => exact dig FKind.second 1 (by simp)
  case s => exact dig FKind.second 1 (by simp)
  case SSSSSS => exact dig FKind.micro 1 (by simp)
  case S => exact dig FKind.micro 100000 (by simp)
  case SS => exact dig FKind.micro 10000 (by simp)
  case SSS => exact dig FKind.micro 1000 (by simp)
  case SSSS => exact dig FKind.micro 100 (by simp)
  case SSSSS => exact dig FKind.micro 10 (by simp)
  case Z => exact offs
  case ZZ => exact offs
  case A =>
    have e : applyGroup L NTok.A.str value p =
        (if value == L.am.toList then Except.ok { p with meridiem := some false }
          else if value == L.pm.toList then Except.ok { p with meridiem := some true }
          else Except.error "ValueError") := rfl
    rw [e]
    by_cases c1 : (value == L.am.toList) = true
    · right; rw [if_pos c1]; exact ⟨_, rfl, a1, a2, a3⟩
    · rw [if_neg c1]
      by_cases c2 : (value == L.pm.toList) = true
      · right; rw [if_pos c2]; exact ⟨_, rfl, a1, a2, a3⟩
      · left; rw [if_neg c2]

theorem groupValues_names : ∀ (its : List FItem) (ns : List Nat) (s : Str),
    ∀ x ∈ groupValues (its.map FItem.toPEl) ns s, ∃ t ∈ toks its, x.1 = t.str := by
  intro its
  induction its with
  | nil => intro ns s x hx; simp [groupValues] at hx
  | cons i its ih =>
    intro ns s x hx
    cases ns with
    | nil => cases i <;> simp [FItem.toPEl, groupValues] at hx
    | cons n ns =>
      cases i with
      | lit c =>
        simp only [List.map_cons, FItem.toPEl, groupValues] at hx
        obtain ⟨t, ht, e⟩ := ih ns _ x hx
        exact ⟨t, by simp [toks, ht], e⟩
      | tok t =>
        simp only [List.map_cons, FItem.toPEl, groupValues, List.mem_cons] at hx
        rcases hx with h | h
        · exact ⟨t, by simp [toks], by rw [h]⟩
        · obtain ⟨t', ht, e⟩ := ih ns _ x h
          exact ⟨t', by simp [toks, ht], e⟩

theorem applyGroups_class_kinds (L : Loc) (ts : List NTok) :
    ∀ (gs : List (String × Str)), (∀ x ∈ gs, ∃ t ∈ ts, x.1 = t.str) →
    ∀ p, Inv p → applyGroups L gs p = .error "ValueError" ∨ ∃ p', applyGroups L gs p = .ok p' ∧ Inv p' := by
  intro gs
  induction gs with
  | nil => intro _ p hp; right; exact ⟨p, rfl, hp⟩
  | cons g gs ih =>
    intro hn p hp
    obtain ⟨t, htm, ht⟩ := hn g (by simp)
    obtain ⟨name, value⟩ := g
    simp only at ht
    subst ht
    rcases applyGroup_class_kinds L t value p hp with he | ⟨p', hok, hp'⟩
    · left; simp [applyGroups, he]
    · simp only [applyGroups, hok]
      exact ih (fun x hx => hn x (by simp [hx])) p' hp'

/-- `_check_parsed` on a state satisfying the invariant succeeds or raises `ValueError` (whatever hour, minute, second,
    microsecond and meridiem were read: the repaired meridiem test compares integers only) -/
theorem checkParsed_kinds (p : Parsed) (now : Now) (hp : Inv p) :
    (∃ r, checkParsed p now = .ok r) ∨ checkParsed p now = .error "ValueError" := by
  obtain ⟨a1, a2, a3⟩ := hp
  have hm : p.meridiem = none ∨ (∃ pm, p.meridiem = some pm ∧ p.hour = none) ∨
      ∃ pm n, p.meridiem = some pm ∧ p.hour = some n := by
    cases hmm : p.meridiem with
    | none => exact Or.inl rfl
    | some pm =>
      cases hh : p.hour with
      | none => exact Or.inr (Or.inl ⟨pm, rfl, rfl⟩)
      | some n => exact Or.inr (Or.inr ⟨pm, n, rfl, rfl⟩)
  unfold checkParsed checkQuarter checkDayOfYear checkDayOfWeek checkMeridiem checkFinal
  simp only [a1, a2, a3]
  cases hdoy : p.day_of_year with
  | none =>
    rcases hm with m | ⟨pm, m, hh⟩ | ⟨pm, n, m, hh⟩
    · left; simp [m, bind, Except.bind, pure, Except.pure]
    · right; simp [m, hh, bind, Except.bind, pure, Except.pure, throw, throwThe, MonadExceptOf.throw]
    · cases hl : meridiemTooLate n p.minute p.second p.microsecond with
      | true => right; simp [m, hh, hl, bind, Except.bind, pure, Except.pure, throw, throwThe, MonadExceptOf.throw]
      | false => left; simp [m, hh, hl, bind, Except.bind, pure, Except.pure]
  | some doy =>
    by_cases hc : (1 ≤ doy ∧ doy ≤ Cal.daysInYear (p.year.getD now.year)) ∧
        1000 ≤ p.year.getD now.year ∧ p.year.getD now.year ≤ 9999
    · rcases hm with m | ⟨pm, m, hh⟩ | ⟨pm, n, m, hh⟩
      · left; simp [m, hc, bind, Except.bind, pure, Except.pure]
      · right; simp [m, hh, hc, bind, Except.bind, pure, Except.pure, throw, throwThe, MonadExceptOf.throw]
      · cases hl : meridiemTooLate n p.minute p.second p.microsecond with
        | true => right; simp [m, hh, hl, hc, bind, Except.bind, pure, Except.pure, throw, throwThe, MonadExceptOf.throw]
        | false => left; simp [m, hh, hl, hc, bind, Except.bind, pure, Except.pure]
    · right; simp [hc, bind, Except.bind, pure, Except.pure, throw, throwThe, MonadExceptOf.throw]

/-- for a format of the class (24-hour tokens next to the meridiem token included) and **any** input string,
    `Formatter.parse` either succeeds or raises `ValueError` -/
theorem parse_class_kinds (L : Loc) (its : List FItem) (hrep : NoRepeat its = true)
    (time : Str) (now : Now) :
    (∃ r, parseItems L time (its.map FItem.toItem) now = .ok r) ∨
      parseItems L time (its.map FItem.toItem) now = .error "ValueError" := by
  unfold parseItems
  by_cases hemp : (its.map FItem.toItem).isEmpty = true
  · right; simp [hemp]
  · have h2 : hasDup ((toks its).map NTok.str) = false := by simpa [NoRepeat] using hrep
    simp only [hemp, pelsOf_class, elsOf_class, tokNames_class, h2, Bool.false_eq_true, if_false]
    cases hd : dfs (fun s => s.isEmpty) (its.map (FItem.toEl L)) time with
    | none => right; rfl
    | some ns =>
      simp only
      have hp0 : Inv ({} : Parsed) := ⟨rfl, rfl, rfl⟩
      rcases applyGroups_class_kinds L (toks its) _ (groupValues_names its ns time) {} hp0 with he | ⟨p', hok, hp'⟩
      · right; simp [he]
      · simp only [hok]
        exact checkParsed_kinds p' now hp'

end Pendulum.Fmt
