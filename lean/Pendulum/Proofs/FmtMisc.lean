import Pendulum.Proofs.FmtRoundTrip
/-! Remaining lemmas for C08: signed decimal read-back, two-digit year, bracket literals, expansion of date-format
tokens on class formats, error kinds of the class. -/
deriving instance DecidableEq for Except

namespace Pendulum.Fmt

/-- the decimal text Python's `format(n, "0Wd")` writes reads back (`int()`) as `n`, for every integer -/
theorem intOf_pyFmtD (w : Nat) (n : Int) : intOf (pyFmtD w n) = some n := by
  by_cases h : n < 0
  · unfold pyFmtD
    simp only [h, if_true]
    have hall := digitsW_all_digit (max (w - 1) (numDigits n.natAbs)) n.natAbs
    have hlen := digitsW_length (max (w - 1) (numDigits n.natAbs)) n.natAbs
    have hpos := numDigits_pos n.natAbs
    have hne : digitsW (max (w - 1) (numDigits n.natAbs)) n.natAbs ≠ [] := by
      intro e; rw [e] at hlen; simp at hlen; omega
    have hval : natOfDigits (digitsW (max (w - 1) (numDigits n.natAbs)) n.natAbs) = n.natAbs := by
      rw [natOfDigits_digitsW]
      apply Nat.mod_eq_of_lt
      exact Nat.lt_of_lt_of_le (lt_pow_numDigits _) (Nat.pow_le_pow_right (by decide) (Nat.le_max_right _ _))
    unfold intOf
    simp only [List.dropWhile, show ('-' == ' ') = false by decide]
    have he : (digitsW (max (w - 1) (numDigits n.natAbs)) n.natAbs).isEmpty = false := by
      cases hh : digitsW (max (w - 1) (numDigits n.natAbs)) n.natAbs with
      | nil => exact absurd hh hne
      | cons _ _ => rfl
    simp [he, hall, hval]
    omega
  · have h0 : 0 ≤ n := by omega
    rw [intOf_digits _ (pyFmtD_ne_nil w n h0) (pyFmtD_all_digit w n h0), natOfDigits_pyFmtD w n h0]

/-- `YY`: the last two digits of a four-digit year -/
theorem yy_drop (y : Int) (h : 1000 ≤ y ∧ y ≤ 9999) : (pyFmtD 0 y).drop 2 = digitsW 2 (y.toNat % 100) := by
  rw [pyFmtD_plain 4 y (by omega) (by decide) (Or.inl (by simp; omega)) (by simp; omega)]
  simp only [digitsW, List.drop]
  have e1 : y.toNat % 100 / 10 ^ 1 % 10 = y.toNat / 10 ^ 1 % 10 := by simp; omega
  have e2 : y.toNat % 100 / 10 ^ 0 % 10 = y.toNat / 10 ^ 0 % 10 := by simp
  rw [e1, e2]

theorem natStr_eq (n : Int) (h : 0 ≤ n) : pyFmtD 0 n = natStr n.toNat := by
  rw [pyFmtD_nonneg 0 n h]; simp [natStr]

/-! ### bracket literals -/

theorem splitLastClose_append (s : Str) (h : s.all (· != ']') = true) : splitLastClose (s ++ [']']) = some (s, []) := by
  induction s with
  | nil => simp [splitLastClose]
  | cons c cs ih =>
    simp only [List.all_cons, Bool.and_eq_true] at h
    simp [splitLastClose, ih h.2]

theorem takeWhile_all {α} (p : α → Bool) (l : List α) (h : l.all p = true) : l.takeWhile p = l := by
  induction l with
  | nil => rfl
  | cons a l ih =>
    simp only [List.all_cons, Bool.and_eq_true] at h
    simp [List.takeWhile, h.1, ih h.2]

theorem tokenize_bracket (s : Str) (h1 : s.all (· != '[') = true) (h2 : s.all (· != ']') = true) :
    tokenize ('[' :: (s ++ [']'])) = [Item.lit s] := by
  have hall : (s ++ [']']).all (· != '[') = true := by simp [List.all_append, h1]
  have hb : bracket (s ++ [']']) = some (s, []) := by
    unfold bracket
    simp only [takeWhile_all _ _ hall, splitLastClose_append s h2, List.drop_length, List.append_nil]
  unfold tokenize
  simp only [List.length_cons, tokenizeAux, beq_self_eq_true, if_true, hb]

/-! ### class formats contain no date-format token -/

theorem expandItems_class (L : Loc) (its : List FItem) : ∀ n, expandItems L n (its.map FItem.toItem) = its.map FItem.toItem := by
  intro n
  cases n with
  | zero => rfl
  | succ n =>
    induction its with
    | nil => rfl
    | cons i its ih =>
      simp only [expandItems, List.map_cons, List.flatMap_cons] at ih ⊢
      rw [ih]
      cases i with
      | lit c => rfl
      | tok t =>
        have : isDateFormat t.str = false := by cases t <;> rfl
        simp [FItem.toItem, this]

/-! ### only `ValueError` for class formats -/

def Plain (p : Parsed) : Prop :=
  p.timestamp = none ∧ p.quarter = none ∧ p.day_of_year = none ∧ p.day_of_week = none ∧ p.meridiem = none

theorem applyGroup_class_kinds (L : Loc) (t : NTok) (value : Str) (p : Parsed) (hp : Plain p) :
    applyGroup L t.str value p = .error "ValueError" ∨ ∃ p', applyGroup L t.str value p = .ok p' ∧ Plain p' := by
  obtain ⟨a1, a2, a3, a4, a5⟩ := hp
  have dig : ∀ (fk : FKind), (fk = FKind.year false ∨ fk = FKind.month ∨ fk = FKind.day ∨ fk = FKind.hour ∨ fk = FKind.minute
      ∨ fk = FKind.second ∨ fk = FKind.micro) →
      applyKind fk (PKind.int 1 0) value p = .error "ValueError" ∨ ∃ p', applyKind fk (PKind.int 1 0) value p = .ok p' ∧ Plain p' := by
    intro fk hfk
    cases hi : intOf value with
    | none =>
      left
      rcases hfk with h|h|h|h|h|h|h <;> subst h <;> simp [applyKind, convInt, hi]
    | some n =>
      right
      rcases hfk with h|h|h|h|h|h|h <;> subst h <;> simp [applyKind, convInt, hi, Plain, a1, a2, a3, a4, a5]
  have offs : applyKind FKind.offset PKind.str value p = .error "ValueError"
      ∨ ∃ p', applyKind FKind.offset PKind.str value p = .ok p' ∧ Plain p' := by
    unfold applyKind
    cases ho : parseOffset value with
    | error e =>
      left
      have : e = "ValueError" := by
        unfold parseOffset at ho
        split at ho
        · simp at ho
        · simp at ho; exact ho.symm
      simp [this]
    | ok o => right; exact ⟨_, rfl, a1, a2, a3, a4, a5⟩
  cases t
  case YYYY => exact dig (FKind.year false) (by simp)
  case MM => exact dig FKind.month (by simp)
  case M => exact dig FKind.month (by simp)
  case DD => exact dig FKind.day (by simp)
  case D => exact dig FKind.day (by simp)
  case HH => exact dig FKind.hour (by simp)
  case H => exact dig FKind.hour (by simp)
  case mm => exact dig FKind.minute (by simp)
  case m => exact dig FKind.minute (by simp)
  case ss => exact dig FKind.second (by simp)
  case s => exact dig FKind.second (by simp)
  case SSSSSS => exact dig FKind.micro (by simp)
  case Z => exact offs
  case ZZ => exact offs

theorem groupValues_names : ∀ (its : List FItem) (ns : List Nat) (s : Str),
    ∀ x ∈ groupValues (its.map FItem.toPEl) ns s, ∃ t : NTok, x.1 = t.str := by
  intro its
  induction its with
  | nil => intro ns s x hx; simp [groupValues] at hx
  | cons i its ih =>
    intro ns s x hx
    cases ns with
    | nil => cases i <;> simp [FItem.toPEl, groupValues] at hx
    | cons n ns =>
      cases i with
      | lit c => simp only [List.map_cons, FItem.toPEl, groupValues] at hx; exact ih ns _ x hx
      | tok t =>
        simp only [List.map_cons, FItem.toPEl, groupValues, List.mem_cons] at hx
        rcases hx with h | h
        · exact ⟨t, by rw [h]⟩
        · exact ih ns _ x h

theorem applyGroups_class_kinds (L : Loc) : ∀ (gs : List (String × Str)), (∀ x ∈ gs, ∃ t : NTok, x.1 = t.str) →
    ∀ p, Plain p → applyGroups L gs p = .error "ValueError" ∨ ∃ p', applyGroups L gs p = .ok p' ∧ Plain p' := by
  intro gs
  induction gs with
  | nil => intro _ p hp; right; exact ⟨p, rfl, hp⟩
  | cons g gs ih =>
    intro hn p hp
    obtain ⟨t, ht⟩ := hn g (by simp)
    obtain ⟨name, value⟩ := g
    simp only at ht
    subst ht
    rcases applyGroup_class_kinds L t value p hp with he | ⟨p', hok, hp'⟩
    · left; simp [applyGroups, he]
    · simp only [applyGroups, hok]
      exact ih (fun x hx => hn x (by simp [hx])) p' hp'

/-- for a format of the class and **any** input string, `Formatter.parse` either succeeds or raises `ValueError` -/
theorem parse_class_kinds (L : Loc) (its : List FItem) (hrep : NoRepeat its = true) (time : Str) (now : Now) :
    (∃ r, parseItems L time (its.map FItem.toItem) now = .ok r) ∨
      parseItems L time (its.map FItem.toItem) now = .error "ValueError" := by
  unfold parseItems
  by_cases hemp : (its.map FItem.toItem).isEmpty = true
  · right; simp [hemp]
  · have h2 : hasDup ((toks its).map NTok.str) = false := by simpa [NoRepeat] using hrep
    simp only [hemp, pelsOf_class, elsOf_class, tokNames_class, h2, Bool.false_eq_true, if_false]
    cases hd : dfs (fun s => s.isEmpty) (its.map FItem.toEl) time with
    | none => right; rfl
    | some ns =>
      simp only
      have hp0 : Plain ({} : Parsed) := ⟨rfl, rfl, rfl, rfl, rfl⟩
      rcases applyGroups_class_kinds L _ (groupValues_names its ns time) {} hp0 with he | ⟨p', hok, hp'⟩
      · right; simp [he]
      · left
        obtain ⟨b1, b2, b3, b4, b5⟩ := hp'
        simp only [hok, checkParsed_plain p' now b1 b2 b3 b4 b5]
        exact ⟨_, rfl⟩

end Pendulum.Fmt
