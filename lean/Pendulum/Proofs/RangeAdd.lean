import Pendulum.Proofs.PD5
import Pendulum.Proofs.Range
/-! `add_duration` with only weeks/days/hours/minutes/seconds/microseconds is plain addition on the wall clock;
consequence for `Interval.range` on naive values. -/
namespace Pendulum.Range
open Pendulum Pendulum.Cal Pendulum.AddDur Pendulum.DTOps Pendulum.IntervalPD Pendulum.PreciseDiff

theorem carry_fst_snd (x lim base next : Int) :
    carry x lim base next = ((carry x lim base next).1, (carry x lim base next).2) := rfl

theorem carry_total_lit (x next : Int) (lim base : Int) (hb : base = 1000000 ∨ base = 60 ∨ base = 24) :
    (carry x lim base next).1 + base * (carry x lim base next).2 = x + base * next := by
  unfold carry AddDur.sgn abs'
  rcases hb with rfl | rfl | rfl <;> (repeat' split) <;> simp only [] <;> omega

theorem normTime_total (d h mi s us : Int) :
    totalUs (normTime d h mi s us).1 (normTime d h mi s us).2.1 (normTime d h mi s us).2.2.1
      (normTime d h mi s us).2.2.2.1 (normTime d h mi s us).2.2.2.2 = totalUs d h mi s us := by
  unfold normTime
  have c1 := carry_total_lit us s 999999 1000000 (Or.inl rfl)
  generalize carry us 999999 1000000 s = r1 at c1 ⊢
  obtain ⟨us', s1⟩ := r1
  simp only [] at ⊢
  have c2 := carry_total_lit s1 mi 59 60 (Or.inr (Or.inl rfl))
  generalize carry s1 59 60 mi = r2 at c2 ⊢
  obtain ⟨s', m1⟩ := r2
  simp only [] at ⊢
  have c3 := carry_total_lit m1 h 59 60 (Or.inr (Or.inl rfl))
  generalize carry m1 59 60 h = r3 at c3 ⊢
  obtain ⟨m', h1⟩ := r3
  simp only [] at ⊢
  have c4 := carry_total_lit h1 d 23 24 (Or.inr (Or.inr rfl))
  generalize carry h1 23 24 d = r4 at c4 ⊢
  obtain ⟨h', d'⟩ := r4
  simp only [] at c1 c2 c3 c4 ⊢
  unfold totalUs
  omega

theorem year_of_ord (y m d : Int) (hv : validDate y m d) (h1 : 1 ≤ ymd2ord y m d) (h2 : ymd2ord y m d ≤ 3652059) :
    1 ≤ y ∧ y ≤ 9999 := by
  have a := ord_in_year y m d hv
  constructor
  · by_cases c : 1 ≤ y
    · exact c
    · have := dby_mono y 1 (by omega)
      have e : daysBeforeYear 1 = 0 := by decide
      omega
  · by_cases c : y ≤ 9999
    · exact c
    · have := dby_10000
      by_cases c2 : y = 10000
      · subst c2; omega
      · have := dby_mono 9999 y (by omega)
        have e : (9999 : Int) + 1 = 10000 := by decide
        rw [e] at this
        omega

/-- `add_duration(dt, weeks, days, hours, minutes, seconds, microseconds)` = `dt + timedelta(...)` -/
theorem addDuration_time (w W D h mi s us : Int) (hw : minWall ≤ w ∧ w ≤ maxWall) :
    addDuration w 0 0 W D h mi s us =
      (if w + totalUs (D + W * 7) h mi s us < minWall ∨ w + totalUs (D + W * 7) h mi s us > maxWall
       then .error .overflow else .ok (w + totalUs (D + W * 7) h mi s us)) := by
  unfold addDuration
  simp only []
  obtain ⟨ho, hv⟩ := ymd2ord_ord2ymd (w / DAY + epochOrd)
  unfold wallToFields
  generalize ord2ymd (w / DAY + epochOrd) = f at ho hv
  obtain ⟨y, m, d⟩ := f
  simp only [] at ho hv ⊢
  have hm : 1 ≤ m ∧ m ≤ 12 := ⟨hv.1, hv.2.1⟩
  rw [addYM_canon y m 0 0 hm (by omega)]
  have hm0 : ¬ (m > 12) := by omega
  simp only [Int.add_zero, if_neg hm0]
  have hord : 1 ≤ ymd2ord y m d ∧ ymd2ord y m d ≤ 3652059 := by
    unfold minWall maxWall DAY epochOrd at hw
    unfold DAY epochOrd at ho
    omega
  have hy := year_of_ord y m d hv hord.1 hord.2
  have hyr : ¬ (y < 1 ∨ y > 9999) := by omega
  rw [if_neg hyr, daysPerMonth_eq y m hm]
  have hmin : min (dimL (isLeap y) m) d = d := by
    have := hv.2.2.2; rw [daysInMonth_eq] at this; omega
  rw [hmin, normTime_total]
  have hback : fieldsToWall y m d (w % DAY) = w := by
    unfold fieldsToWall; unfold DAY at ho ⊢; omega
  rw [hback]


/-- length of the fixed-length units in µs (2 = weeks … 7 = microseconds) -/
def unitUs : Nat → Int
  | 2 => 604800000000 | 3 => 86400000000 | 4 => 3600000000 | 5 => 60000000 | 6 => 1000000 | _ => 1

theorem naive_offset (v : V) (hz : v.z = .naive) : v.offset = 0 := by
  unfold V.offset ZRef.table; rw [hz]

/-- on a naive `DateTime`, `add(weeks|days|hours|minutes|seconds|microseconds = k)` is `wall + k·unit` -/
theorem addUnit_naive (s : EP) (unit : Nat) (k : Int) (hz : s.v.z = .naive) (hdt : s.isDt = true)
    (hu : 2 ≤ unit ∧ unit ≤ 7) (hw : minWall ≤ s.v.w ∧ s.v.w ≤ maxWall) (v : V)
    (h : addUnit s unit k = .ok v) : v.w = s.v.w + k * unitUs unit ∧ v.z = .naive := by
  unfold addUnit at h
  by_cases hk : k = 0
  · rw [if_pos hk] at h
    injection h with h; subst h; subst hk
    exact ⟨by omega, hz⟩
  · rw [if_neg hk, if_pos hdt] at h
    have ho := naive_offset s.v hz
    have hcases : unit = 2 ∨ unit = 3 ∨ unit = 4 ∨ unit = 5 ∨ unit = 6 ∨ unit = 7 := by omega
    rcases hcases with rfl | rfl | rfl | rfl | rfl | rfl <;>
    · push_cast at h
      try simp only [Int.reduceEq, ↓reduceIte] at h
      unfold add at h
      simp only [ne_eq, hk, not_true_eq_false, not_false_eq_true, or_false, false_or, or_true, or_self, if_true, if_false,
        ho, Int.sub_zero] at h
      rw [addDuration_time _ _ _ _ _ _ _ hw] at h
      generalize hT : totalUs _ _ _ _ _ = T at h
      by_cases hr : s.v.w + T < minWall ∨ s.v.w + T > maxWall
      · rw [if_pos hr] at h; simp at h
      · rw [if_neg hr] at h
        simp only [hz, create] at h
        injection h with h; subst h
        refine ⟨?_, rfl⟩
        simp only [unitUs]; rw [← hT]; unfold totalUs; omega

end Pendulum.Range
