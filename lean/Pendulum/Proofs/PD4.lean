import Pendulum.Proofs.PD3
/-! ordering lemmas for the swap of `precise_diff` -/
namespace Pendulum.PreciseDiff
open Pendulum Pendulum.Cal Pendulum.AddDur

theorem lexLt_asymm : ∀ (x y : List Int), lexLt x y = true → lexLt y x = false
  | [], _, h => by simp [lexLt] at h
  | _ :: _, [], h => by simp [lexLt] at h
  | a :: as, b :: bs, h => by
    simp only [lexLt, Bool.or_eq_true, Bool.and_eq_true, decide_eq_true_eq] at h
    simp only [lexLt, Bool.or_eq_false_iff, Bool.and_eq_false_imp, decide_eq_false_iff_not, decide_eq_true_eq]
    rcases h with h | ⟨h1, h2⟩
    · exact ⟨by omega, fun e => by omega⟩
    · exact ⟨by omega, fun _ => lexLt_asymm as bs h2⟩

theorem lexLt_total : ∀ (x y : List Int), x.length = y.length → lexLt x y = false → lexLt y x = false → x = y
  | [], [], _, _, _ => rfl
  | [], _ :: _, h, _, _ => by simp at h
  | _ :: _, [], h, _, _ => by simp at h
  | a :: as, b :: bs, hl, h1, h2 => by
    simp only [lexLt, Bool.or_eq_false_iff, Bool.and_eq_false_imp, decide_eq_false_iff_not, decide_eq_true_eq] at h1 h2
    have e : a = b := by omega
    subst e
    have := lexLt_total as bs (by simpa using hl) (h1.2 rfl) (h2.2 rfl)
    rw [this]

theorem lexLt_irrefl : ∀ (x : List Int), lexLt x x = false
  | [] => by simp [lexLt]
  | a :: as => by
    simp only [lexLt, Bool.or_eq_false_iff, Bool.and_eq_false_imp, decide_eq_false_iff_not, decide_eq_true_eq]
    exact ⟨by omega, fun _ => lexLt_irrefl as⟩

theorem key_length (e : E) : e.key.length = 7 := rfl

theorem pyEq_comm (a b : E) : pyEq a b = pyEq b a := by
  unfold pyEq
  by_cases h : a.tz = b.tz
  · have h' : b.tz = a.tz := h.symm
    simp only [if_pos h, if_pos h']
    by_cases k : a.key = b.key
    · simp [k]
    · have k' : ¬ b.key = a.key := fun e => k e.symm
      simp [k, k']
  · have h' : ¬ b.tz = a.tz := fun e => h e.symm
    simp only [if_neg h, if_neg h']
    by_cases k1 : a.instSec = b.instSec <;> by_cases k2 : a.us = b.us <;> simp [k1, k2, eq_comm]

/-- when the two values are not equal, exactly one of `a > b`, `b > a` holds -/
theorem pyGt_flip (a b : E) (hne : pyEq a b = false) : pyGt b a = !pyGt a b := by
  unfold pyGt
  unfold pyEq at hne
  by_cases h : a.tz = b.tz
  · have h' : b.tz = a.tz := h.symm
    simp only [if_pos h, if_pos h'] at hne ⊢
    have hk : a.key ≠ b.key := by simpa using hne
    cases h1 : lexLt b.key a.key
    · cases h2 : lexLt a.key b.key
      · exact absurd (lexLt_total a.key b.key rfl h2 h1) hk
      · rfl
    · simp [lexLt_asymm _ _ h1]
  · have h' : ¬ b.tz = a.tz := fun e => h e.symm
    simp only [if_neg h, if_neg h'] at hne ⊢
    simp only [Bool.and_eq_false_imp, decide_eq_true_eq, decide_eq_false_iff_not] at hne
    by_cases k1 : b.instSec < a.instSec
    · have : ¬ a.instSec < b.instSec := by omega
      have : ¬ a.instSec = b.instSec := by omega
      simp [*]
    · by_cases k2 : b.instSec = a.instSec
      · have hu := hne k2.symm
        have : ¬ a.instSec < b.instSec := by omega
        by_cases k3 : b.us < a.us
        · have : ¬ a.us < b.us := by omega
          simp [*]
        · have : a.us < b.us := by omega
          simp [*]
      · have : a.instSec < b.instSec := by omega
        have : ¬ a.instSec = b.instSec := by omega
        simp [*]

theorem scale_scale (s t : Int) (p : PD) : PD.scale s (PD.scale t p) = PD.scale (s * t) p := by
  unfold PD.scale
  simp only [PD.mk.injEq]
  refine ⟨?_, ?_, ?_, ?_, ?_, ?_, ?_, ?_⟩ <;> rw [Int.mul_assoc]

theorem scale_one (p : PD) : PD.scale 1 p = p := by
  unfold PD.scale; simp

theorem scale_zero (s : Int) : PD.scale s PD.zero = PD.zero := by
  unfold PD.scale PD.zero; simp

/-- lexicographic comparison of the keys of two valid values = the `le` used in the theorems -/
theorem lexLt_false_of_le (a b : E) (ha : a.timeOK) (hb : b.timeOK) (h : a.le b) : lexLt b.key a.key = false := by
  obtain ⟨h1, h2⟩ := h
  obtain ⟨a1, a2, a3, a4, a5, a6, a7, a8⟩ := ha
  obtain ⟨b1, b2, b3, b4, b5, b6, b7, b8⟩ := hb
  unfold dateLe at h1
  unfold E.tod at h2
  simp only [E.key, lexLt, Bool.or_eq_false_iff, Bool.and_eq_false_imp, decide_eq_false_iff_not, decide_eq_true_eq]
  refine ⟨by omega, fun e1 => ⟨by omega, fun e2 => ⟨by omega, fun e3 => ?_⟩⟩⟩
  have := h2 ⟨e1.symm, e2.symm, e3.symm⟩
  refine ⟨by omega, fun e4 => ⟨by omega, fun e5 => ⟨by omega, fun e6 => ?_⟩⟩⟩
  exact ⟨by omega, fun _ => trivial⟩

end Pendulum.PreciseDiff
