import Pendulum.Proofs.IntervalGen
/-! Tie of `_getstate` / `__reduce_ex__` / `__reduce__` / `__deepcopy__` / `__hash__` / `__eq__` / arithmetic delegation of `Gen.Interval` to
`Model/Pickle.lean` (C14). -/
set_option linter.unusedSimpArgs false
namespace Pendulum.IntervalGen
open Pendulum Pendulum.DTOps Pendulum.AddDur
open Pendulum.Gen.Interval (Ep Kind Cls Env Ops Self PDt InitRes Method EqRes isinst)

/-- `_getstate` / `__reduce_ex__` / `__reduce__` hand the model's `reduceIv` to the pickle machinery; `__deepcopy__` calls the
    class on the deep copies of that state -/
theorem getstate_eq (self : Self Pickle.DT) (iv : Pickle.Iv) (ops : Ops Pickle.DT) (protocol : Int)
    (h1 : self.start = iv.start) (h2 : self.end_ = iv.stop) (h3 : self.absolute = iv.absolute) (h4 : self.invert = iv.invert) :
    Gen.Interval.getstate self protocol = Pickle.reduceIv iv ∧
    Gen.Interval.reduce_ex self protocol = Pickle.reduceIv iv ∧
    Gen.Interval.reduce self = Pickle.reduceIv iv ∧
    Gen.Interval.deepcopy ops self =
      (ops.deepcopy (Pickle.reduceIv iv).1, ops.deepcopy (Pickle.reduceIv iv).2.1, (Pickle.reduceIv iv).2.2) := by
  gen_tie "Pendulum.IntervalGen.getstate_eq (under Props.C14.getstate_source_eq_model)" "Gen/Interval.lean `getstate` / `reduce_ex` / `reduce` / `deepcopy`" =>
    have g : ∀ p, Gen.Interval.getstate self p = Pickle.reduceIv iv := by
      intro p
      simp only [Gen.Interval.getstate, Gen.Interval.p_start, Gen.Interval.p_end, h1, h2, h3, h4, Pickle.reduceIv]
      cases iv.invert <;> cases iv.absolute <;> rfl
    refine ⟨g _, ?_, ?_, ?_⟩
    · simp only [Gen.Interval.reduce_ex, g]
    · simp only [Gen.Interval.reduce, Gen.Interval.reduce_ex, g]
    · simp only [Gen.Interval.deepcopy, g]
    done

/-- `__hash__` hashes, and `__eq__` (against another Interval) compares, the tuple `(start, end, absolute)`; against anything else
    `__eq__` compares `as_duration()` = `Duration(seconds=self.total_seconds())`; the arithmetic operators return what the
    same operator of `as_duration()` returns -/
theorem hash_eq_arith_eq {α : Type} (self other : Self α) :
    Gen.Interval.hash_key self = (self.start, self.end_, self.absolute) ∧
    (∃ l r, Gen.Interval.op_eq self (some other) = EqRes.tuples l r ∧ l = Gen.Interval.hash_key self ∧ r = Gen.Interval.hash_key other) ∧
    (∃ d, Gen.Interval.op_eq self none = EqRes.duration_eq d ∧ d = self.total_seconds) ∧
    Gen.Interval.as_duration self = self.total_seconds ∧
    Gen.Interval.delegates = [("__add__", "__add__"), ("__sub__", "__sub__"), ("__mul__", "__mul__"),
      ("__floordiv__", "__floordiv__"), ("__truediv__", "__truediv__"), ("__mod__", "__mod__"), ("__divmod__", "__divmod__")] ∧
    Gen.Interval.aliases = [("__radd__", "__add__"), ("__rmul__", "__mul__"), ("__div__", "__floordiv__")] := by
  gen_tie "Pendulum.IntervalGen.hash_eq_arith_eq (under Props.C14.hash_eq_source_eq_model)" "Gen/Interval.lean `hash_key` / `op_eq` / `as_duration` / `delegates`" =>
    refine ⟨?_, ⟨Gen.Interval.hash_key self, Gen.Interval.hash_key other, ?_, rfl, rfl⟩, ⟨self.total_seconds, ?_, rfl⟩, ?_, ?_, ?_⟩
    · simp only [Gen.Interval.hash_key, Gen.Interval.p_start, Gen.Interval.p_end]
    · simp only [Gen.Interval.op_eq, Gen.Interval.hash_key, Gen.Interval.p_start, Gen.Interval.p_end]
    · simp only [Gen.Interval.op_eq, Gen.Interval.as_duration]
    · simp only [Gen.Interval.as_duration]
    · decide
    · decide
    done



end Pendulum.IntervalGen
