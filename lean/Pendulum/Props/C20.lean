import Pendulum.Proofs.TimeOfDay
import Pendulum.Proofs.TimeGen
/-! # C20 — time-of-day arithmetic wraps modulo 24 hours exactly

Property theorems only. `TimeOfDay.*` (Model/TimeOfDay.lean) is the hand model of `pendulum/time.py`
(`add/subtract` through `DateTime.EPOCH.at(..).add(..).time()` with the carry code of
`helpers.add_duration`, the timedelta entry points, the repaired `diff`, `closest`, `farthest`), tied to
the code by the correspondence run of `harness/props/c20.py`. Times of day are integer microseconds. -/
namespace Pendulum.Props.C20
open Pendulum Pendulum.TimeOfDay

/-- `add` either overflows the date range of the carrier `DateTime` (1970-01-01 + amount outside years
    1..9999 → OverflowError) or returns exactly `(t + Δ) mod 24 h`, for integer h/m/s/µs of either sign -/
theorem time_add_mod (t h mi s us : Int) :
    add t h mi s us = .error .overflowError ∨ add t h mi s us = .ok ((t + amount h mi s us) % DAY) := by
  rw [add_eq]; split
  · exact Or.inl rfl
  · exact Or.inr rfl

example : add 3723000004 (-30) 0 0 0 = .ok 68523000004 := by rfl

/-- the result of `add` is a time of day and differs from `t + Δ` by a whole number of days -/
theorem time_add_range (t h mi s us r : Int) (hr : add t h mi s us = .ok r) :
    0 ≤ r ∧ r < DAY ∧ (r - (t + amount h mi s us)) % DAY = 0 := by
  rw [add_eq] at hr
  split at hr
  · cases hr
  · injection hr with hr; subst hr; unfold DAY; omega

example : ∃ r, add 0 0 0 0 (-1) = .ok r := ⟨86399999999, by rfl⟩

/-- amounts that keep 1970-01-01 + Δ inside years 1..9999 (about −1969 … +8029 years) never overflow:
    the whole "several days" domain of the property is covered -/
theorem time_add_ok (t h mi s us : Int) (ht : 0 ≤ t ∧ t < DAY)
    (hlo : -719162 * DAY ≤ amount h mi s us) (hhi : amount h mi s us < 2932896 * DAY) :
    add t h mi s us = .ok ((t + amount h mi s us) % DAY) := by
  rw [add_eq]
  have : ¬ (epochOrd + (t + amount h mi s us) / DAY < 1 ∨ epochOrd + (t + amount h mi s us) / DAY > maxOrd) := by
    unfold epochOrd maxOrd DAY at *; omega
  simp only [this, if_false]

example : add 5 48 0 0 0 = .ok 5 := by rfl

/-- overflow happens exactly when the carrier date leaves years 1..9999 -/
theorem time_add_overflow_iff (t h mi s us : Int) :
    add t h mi s us = .error .overflowError ↔
      (epochOrd + (t + amount h mi s us) / DAY < 1 ∨ epochOrd + (t + amount h mi s us) / DAY > maxOrd) := by
  rw [add_eq]; split <;> simp_all

example : add 0 100000000 0 0 0 = .error .overflowError := by rfl

/-- `subtract` is `add` of the opposite amount -/
theorem time_subtract_mod (t h mi s us r : Int) (hr : subtract t h mi s us = .ok r) :
    r = (t - amount h mi s us) % DAY := by
  unfold subtract at hr
  rw [add_eq] at hr
  split at hr
  · cases hr
  · injection hr with hr; subst hr
    have : amount (-h) (-mi) (-s) (-us) = - amount h mi s us := by unfold amount totalUs; omega
    rw [this]; congr 1

example : subtract 0 0 0 1 0 = .ok 86399000000 := by rfl

/-- `subtract` undoes `add` -/
theorem time_sub_inverse (t h mi s us r r' : Int) (ht : 0 ≤ t ∧ t < DAY)
    (h1 : add t h mi s us = .ok r) (h2 : subtract r h mi s us = .ok r') : r' = t := by
  have e1 := time_add_range t h mi s us r h1
  have e2 := time_subtract_mod r h mi s us r' h2
  rw [add_eq] at h1
  split at h1
  · cases h1
  · injection h1 with h1
    unfold DAY at *; omega

/-- … and `add` undoes `subtract` -/
theorem time_add_inverse (t h mi s us r r' : Int) (ht : 0 ≤ t ∧ t < DAY)
    (h1 : subtract t h mi s us = .ok r) (h2 : add r h mi s us = .ok r') : r' = t := by
  have e1 := time_subtract_mod t h mi s us r h1
  have e2 := time_add_range r h mi s us r' h2
  rw [add_eq] at h2
  split at h2
  · cases h2
  · injection h2 with h2
    unfold DAY at *; omega

example : ∃ r, add 1 (-25) 0 0 (-7) = .ok r ∧ subtract r (-25) 0 0 (-7) = .ok 1 := ⟨82799999994, by rfl, by rfl⟩

/-- both inverse directions actually return a value on the property's domain -/
theorem time_sub_inverse_total (t h mi s us : Int) (ht : 0 ≤ t ∧ t < DAY)
    (hlo : -719162 * DAY ≤ amount h mi s us) (hhi : amount h mi s us ≤ 719162 * DAY) :
    ∃ r, add t h mi s us = .ok r ∧ subtract r h mi s us = .ok t := by
  refine ⟨(t + amount h mi s us) % DAY, time_add_ok t h mi s us ht hlo (by unfold DAY at *; omega), ?_⟩
  unfold subtract
  have hneg : amount (-h) (-mi) (-s) (-us) = - amount h mi s us := by unfold amount totalUs; omega
  rw [time_add_ok _ _ _ _ _ (by unfold DAY; omega) (by rw [hneg]; unfold DAY at *; omega)
        (by rw [hneg]; unfold DAY at *; omega), hneg]
  congr 1; unfold DAY at *; omega

/-- a timedelta with a day component is rejected by `+`, `-`, `add_timedelta`, `subtract_timedelta` -/
theorem timedelta_with_days_rejected (t : Int) (d : TD) (hd : d.days ≠ 0) :
    addTd t d = .error .typeError ∧ subTd t d = .error .typeError := by
  unfold addTd subTd; simp [hd]

example : addTd 0 ⟨-1, 86399, 0⟩ = .error .typeError := by rfl

/-- in the standard library's normalised representation, "has a day component" means
    "is negative or at least 24 h" -/
theorem timedelta_days_iff (x : Int) : (TD.ofUs x).days ≠ 0 ↔ (x < 0 ∨ DAY ≤ x) := by
  unfold TD.ofUs DAY; simp only; omega

/-- `TD.ofUs` is the normalised representation of `x` microseconds -/
theorem timedelta_ofUs (x : Int) :
    (TD.ofUs x).us = x ∧ 0 ≤ (TD.ofUs x).seconds ∧ (TD.ofUs x).seconds < 86400 ∧
    0 ≤ (TD.ofUs x).micros ∧ (TD.ofUs x).micros < 1000000 := by
  unfold TD.ofUs TD.us DAY; simp only; omega

/-- a timedelta without a day component shifts the time by exactly its length modulo 24 h -/
theorem timedelta_add_mod (t : Int) (d : TD) (ht : 0 ≤ t ∧ t < DAY) (hd : d.days = 0)
    (hs : 0 ≤ d.seconds ∧ d.seconds < 86400) (hu : 0 ≤ d.micros ∧ d.micros < 1000000) :
    addTd t d = .ok ((t + d.us) % DAY) ∧ subTd t d = .ok ((t - d.us) % DAY) := by
  unfold addTd subTd subtract TD.us
  simp only [hd, ne_eq, not_true_eq_false, if_false]
  constructor
  · rw [time_add_ok _ _ _ _ _ ht (by unfold amount totalUs DAY; omega) (by unfold amount totalUs DAY; omega)]
    congr 1; unfold amount totalUs DAY; omega
  · rw [time_add_ok _ _ _ _ _ ht (by unfold amount totalUs DAY; omega) (by unfold amount totalUs DAY; omega)]
    congr 1; unfold amount totalUs DAY; omega

example : addTd 86399999999 ⟨0, 0, 2⟩ = .ok 1 := by rfl

/-- the field view is a bijection with microsecond values of one day -/
theorem fields_roundtrip (t : Int) (ht : 0 ≤ t ∧ t < DAY) :
    let (h, mi, s, us) := fields t
    ofFields h mi s us = t ∧ 0 ≤ h ∧ h ≤ 23 ∧ 0 ≤ mi ∧ mi ≤ 59 ∧ 0 ≤ s ∧ s ≤ 59 ∧ 0 ≤ us ∧ us ≤ 999999 := by
  unfold fields ofFields DAY at *; simp only; omega

/-- signed difference, exact to the microsecond: `a.diff(b, False)` = b − a (the h/m/s/µs totals rebuild the value) -/
theorem diff_signed (a b : Int) : diff a b false = b - a := by
  unfold diff fields; simp only [Bool.false_eq_true, if_false]; omega

example : diff 3723500000 3724250000 false = 750000 := by rfl

/-- operators: `a - b` and the reflected form -/
theorem sub_signed (a b : Int) : sub a b = a - b ∧ rsub b a = a - b := by
  unfold rsub sub; rw [diff_signed b a]; exact ⟨rfl, rfl⟩

/-- with `abs=True` the difference is the distance |b − a| ≥ 0, symmetric in its arguments -/
theorem diff_abs_nonneg (a b : Int) (ha : 0 ≤ a ∧ a < DAY) (hb : 0 ≤ b ∧ b < DAY) :
    0 ≤ diff a b true ∧ diff a b true = absI (b - a) ∧ diff a b true = diff b a true ∧
    (diff a b true = 0 ↔ a = b) := by
  unfold diff fields absI DAY at *; simp only [if_true]
  repeat' split
  all_goals omega

example : diff 3724250000 3723500000 true = 750000 := by rfl

/-- `closest` returns one of its arguments, and none of the two is strictly nearer -/
theorem closest_by_distance (t a b : Int) :
    (closest t a b = a ∨ closest t a b = b) ∧
    diff t (closest t a b) true ≤ diff t a true ∧ diff t (closest t a b) true ≤ diff t b true := by
  unfold closest; split
  · refine ⟨Or.inl rfl, ?_, ?_⟩ <;> omega
  · refine ⟨Or.inr rfl, ?_, ?_⟩ <;> omega

example : closest 0 1200000 1900000 = 1200000 := by rfl

/-- `farthest` returns one of its arguments, and none of the two is strictly farther -/
theorem farthest_by_distance (t a b : Int) :
    (farthest t a b = a ∨ farthest t a b = b) ∧
    diff t a true ≤ diff t (farthest t a b) true ∧ diff t b true ≤ diff t (farthest t a b) true := by
  unfold farthest; split
  · refine ⟨Or.inl rfl, ?_, ?_⟩ <;> omega
  · refine ⟨Or.inr rfl, ?_, ?_⟩ <;> omega

example : farthest 0 1900000 1200000 = 1900000 := by rfl

/-- the unrepaired `diff` (totals built from h/m/s only) violates the property: counterexample kept as a
    regression witness for the defect fixed in the source (F5) -/
def diffOld (self dt : Int) : Int :=
  let (h1, m1, s1, _) := fields self
  let (h2, m2, s2, _) := fields dt
  (h2 * 3600 + m2 * 60 + s2) * 1000000 - (h1 * 3600 + m1 * 60 + s1) * 1000000

theorem diff_old_counterexample : ¬ (∀ a b, 0 ≤ a ∧ a < DAY → 0 ≤ b ∧ b < DAY → diffOld a b = b - a) := by
  intro h; have := h 3723500000 3724250000 (by decide) (by decide); revert this; decide

/-! ## tie to the source: the generated translation of `pendulum/time.py`

`Pendulum.Gen.TimeOfDay` is regenerated from /repo/src/pendulum/time.py (and `DateTime.at/time/subtract`) by
tools/gen_time.py on every run.  These theorems re-check, against what the code says now, that the model
`TimeOfDay.*` the theorems above are about *is* the code: a change to `diff`, `closest`, the timedelta guards, the
operator dispatch or the way `add` drives its carrier either keeps them provable or breaks the build.
Vocabulary (Proofs/TimeGen.lean): a time of day `t` is handed to the generated code as its fields `fields t`;
`klassUs (klass, us)` is the total of `klass(microseconds=us)` (`AbsoluteDuration` → absolute value; the Duration
classes themselves are C09's subject); `DtAddOk dtAdd` says that the abstract carrier
`DateTime.EPOCH.at(..).add(hours=.., minutes=.., seconds=.., microseconds=..)` is the model's `add`. -/
open Pendulum.TimeGen
open Pendulum.Gen.TimeOfDay (Klass OKind Res DtAdd)

/-- `Time.diff` as written in the source: on arbitrary field values the class is chosen by `abs` and the
    `microseconds=` argument is the difference of the two full totals; on times of day it is the model's `diff` -/
theorem diff_source_eq_model (a b : Int) (abs : Bool) :
    (∀ h1 m1 s1 u1 h2 m2 s2 u2 : Int, Gen.TimeOfDay.diff h1 m1 s1 u1 h2 m2 s2 u2 abs =
      (if abs then Klass.AbsoluteDuration else Klass.Duration, ofFields h2 m2 s2 u2 - ofFields h1 m1 s1 u1)) ∧
    klassUs (gdiff a b abs) = diff a b abs :=
  ⟨fun h1 m1 s1 u1 h2 m2 s2 u2 => diff_fields h1 m1 s1 u1 h2 m2 s2 u2 abs, diff_eq a b abs⟩
example : Gen.TimeOfDay.diff 1 2 3 500000 1 2 4 250000 true = (Klass.AbsoluteDuration, 750000) := by decide
example : gdiff 3724250000 3723500000 false = (Klass.Duration, -750000) := by decide

/-- `Time.closest` / `Time.farthest` as written in the source return the fields of the operand the model picks
    (strict comparison of the two distances, second operand on a tie) -/
theorem closest_farthest_source_eq_model (t a b : Int) :
    Gen.TimeOfDay.closest klassUs (fields t).1 (fields t).2.1 (fields t).2.2.1 (fields t).2.2.2
      (fields a).1 (fields a).2.1 (fields a).2.2.1 (fields a).2.2.2
      (fields b).1 (fields b).2.1 (fields b).2.2.1 (fields b).2.2.2 = fields (closest t a b) ∧
    Gen.TimeOfDay.farthest klassUs (fields t).1 (fields t).2.1 (fields t).2.2.1 (fields t).2.2.2
      (fields a).1 (fields a).2.1 (fields a).2.2.1 (fields a).2.2.2
      (fields b).1 (fields b).2.1 (fields b).2.2.1 (fields b).2.2.2 = fields (farthest t a b) :=
  ⟨closest_eq t a b, farthest_eq t a b⟩
example : Gen.TimeOfDay.closest klassUs 0 0 0 0 0 0 1 200000 0 0 1 900000 = (0, 0, 1, 200000) := by decide
example : Gen.TimeOfDay.closest klassUs 0 0 1 0 0 0 0 0 0 0 2 0 = (0, 0, 2, 0) := by decide      -- tie → dt2
example : Gen.TimeOfDay.farthest klassUs 0 0 1 0 0 0 0 0 0 0 2 0 = (0, 0, 2, 0) := by decide     -- tie → dt2

/-- `Time.add` / `Time.subtract` as written in the source (all four fields into `DateTime.EPOCH.at`, the four
    amounts as `hours= minutes= seconds= microseconds=` of the carrier's `add` / `subtract` = `add` of the negated
    amounts, `.time()` of the result) are the model's, for every carrier that is the model's -/
theorem add_subtract_source_eq_model (dtAdd : DtAdd) (ok : DtAddOk dtAdd) (t h mi s us : Int) (ht : 0 ≤ t ∧ t < DAY) :
    Gen.TimeOfDay.add dtAdd (fields t).1 (fields t).2.1 (fields t).2.2.1 (fields t).2.2.2 h mi s us
      = liftT (add t h mi s us) ∧
    Gen.TimeOfDay.subtract dtAdd (fields t).1 (fields t).2.1 (fields t).2.2.1 (fields t).2.2.2 h mi s us
      = liftT (subtract t h mi s us) :=
  ⟨TimeGen.add_eq dtAdd ok t h mi s us ht, subtract_eq dtAdd ok t h mi s us ht⟩

/-- the hypothesis on the carrier is satisfiable: the model's own `add`, read on field tuples -/
theorem carrier_hypothesis_satisfiable : DtAddOk dtAddRef := dtAddRef_ok
example : Gen.TimeOfDay.add dtAddRef 1 2 3 4 (-30) 0 0 0 = .ok (19, 2, 3, 4) := by rfl
example : Gen.TimeOfDay.subtract dtAddRef 0 0 0 0 0 0 1 0 = .ok (23, 59, 59, 0) := by rfl

/-- `add_timedelta` / `subtract_timedelta` as written in the source: the day-component guard and the
    `seconds=, microseconds=` handed on to `add` / `subtract` are the model's `addTd` / `subTd` -/
theorem timedelta_source_eq_model (dtAdd : DtAdd) (ok : DtAddOk dtAdd) (t : Int) (d : TD) (ht : 0 ≤ t ∧ t < DAY) :
    Gen.TimeOfDay.add_timedelta dtAdd (fields t).1 (fields t).2.1 (fields t).2.2.1 (fields t).2.2.2
      d.days d.seconds d.micros = liftT (addTd t d) ∧
    Gen.TimeOfDay.subtract_timedelta dtAdd (fields t).1 (fields t).2.1 (fields t).2.2.1 (fields t).2.2.2
      d.days d.seconds d.micros = liftT (subTd t d) :=
  ⟨add_timedelta_eq dtAdd ok t d ht, subtract_timedelta_eq dtAdd ok t d ht⟩
example : Gen.TimeOfDay.add_timedelta dtAddRef 23 59 59 999999 0 0 2 = .ok (0, 0, 0, 1) := by rfl
example : Gen.TimeOfDay.add_timedelta dtAddRef 0 0 0 0 (-1) 86399 0 = .error "TypeError" := by rfl
example : Gen.TimeOfDay.subtract_timedelta dtAddRef 0 0 0 0 1 0 0 = .error "TypeError" := by rfl

/-- `Time.__add__` as written in the source: a timedelta goes to `add_timedelta`, any other operand gets
    `NotImplemented` -/
theorem op_add_source_eq_model (dtAdd : DtAdd) (ok : DtAddOk dtAdd) (t : Int) (ht : 0 ≤ t ∧ t < DAY) (sa oa : Bool)
    (k : OKind) (oh om os ou : Int) (d : TD) :
    Gen.TimeOfDay.op_add dtAdd (fields t).1 (fields t).2.1 (fields t).2.2.1 (fields t).2.2.2 sa k oa oh om os ou
      d.days d.seconds d.micros =
    (match k with
     | .timedelta => Except.map Res.time (liftT (addTd t d))
     | _ => .ok .notImplemented) :=
  op_add_eq dtAdd ok t ht sa oa k oh om os ou d
example : Gen.TimeOfDay.op_add dtAddRef 1 0 0 0 false .timedelta false 0 0 0 0 0 3600 0 = .ok (.time (2, 0, 0, 0)) := by rfl
example : Gen.TimeOfDay.op_add dtAddRef 1 0 0 0 false .time false 0 0 0 0 0 3600 0 = .ok .notImplemented := by rfl

/-- `Time.__sub__` as written in the source: timedelta → `subtract_timedelta`; a naive time of either class →
    `Duration(microseconds = self − other)` (the model's `sub`); an aware time → TypeError; else `NotImplemented` -/
theorem op_sub_source_eq_model (dtAdd : DtAdd) (ok : DtAddOk dtAdd) (a b : Int) (ha : 0 ≤ a ∧ a < DAY) (sa oa : Bool)
    (k : OKind) (d : TD) :
    Gen.TimeOfDay.op_sub dtAdd (fields a).1 (fields a).2.1 (fields a).2.2.1 (fields a).2.2.2 sa k oa
      (fields b).1 (fields b).2.1 (fields b).2.2.1 (fields b).2.2.2 d.days d.seconds d.micros =
    (match k with
     | .timedelta => Except.map Res.time (liftT (subTd a d))
     | .other => .ok .notImplemented
     | _ => if oa then .error "TypeError" else .ok (.duration (.Duration, sub a b))) :=
  op_sub_eq dtAdd ok a b ha sa oa k d
example : Gen.TimeOfDay.op_sub dtAddRef 1 2 4 250000 false .time false 1 2 3 500000 0 0 0
    = .ok (.duration (.Duration, 750000)) := by rfl
example : Gen.TimeOfDay.op_sub dtAddRef 1 2 4 250000 false .pendulumTime true 1 2 3 500000 0 0 0
    = .error "TypeError" := by rfl

/-- `Time.__rsub__` as written in the source (`other - self` with a foreign left operand): a naive time is rebuilt
    and handed to `__sub__` with the operands in the order (other, self) — the model's `rsub`; an aware operand on
    either side → TypeError; timedelta and anything else → `NotImplemented`.  No hypothesis on the carrier. -/
theorem op_rsub_source_eq_model (dtAdd : DtAdd) (self other : Int) (sa oa : Bool) (k : OKind) (d : TD) :
    Gen.TimeOfDay.op_rsub dtAdd (fields self).1 (fields self).2.1 (fields self).2.2.1 (fields self).2.2.2 sa k oa
      (fields other).1 (fields other).2.1 (fields other).2.2.1 (fields other).2.2.2 d.days d.seconds d.micros =
    (match k with
     | .timedelta => .ok .notImplemented
     | .other => .ok .notImplemented
     | _ => if oa || sa then .error "TypeError" else .ok (.duration (.Duration, rsub self other))) :=
  op_rsub_eq dtAdd self other sa oa k d
example : Gen.TimeOfDay.op_rsub dtAddRef 1 2 3 500000 false .time false 1 2 4 250000 0 0 0
    = .ok (.duration (.Duration, 750000)) := by rfl
example : Gen.TimeOfDay.op_rsub dtAddRef 1 2 3 500000 false .timedelta false 0 0 0 0 0 5 0 = .ok .notImplemented := by rfl

end Pendulum.Props.C20
