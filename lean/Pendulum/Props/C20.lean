import Pendulum.Proofs.TimeOfDay
/-! # C20 — time-of-day arithmetic wraps modulo 24 hours exactly

Property theorems only. `TimeOfDay.*` (Model/TimeOfDay.lean) is the hand model of `pendulum/time.py`
(`add/subtract` through `DateTime.EPOCH.at(..).add(..).time()` with the carry code of
`helpers.add_duration`, the timedelta entry points, the repaired `diff`, `closest`, `farthest`), tied to
the code by the correspondence run of `harness/props/c20.py`. Times of day are integer microseconds. -/
namespace Pendulum.Props.C20
open Pendulum Pendulum.TimeOfDay

/-- `add` either overflows the date range of the carrier `DateTime` (1970-01-01 + amount outside years
    1..9999 → OverflowError) or returns exactly `(t + Δ) mod 24 h`, for integer h/m/s/µs of either sign -/
theorem time_add_mod (t h mi s us : Int) :
    add t h mi s us = .error .overflowError ∨ add t h mi s us = .ok ((t + amount h mi s us) % DAY) := by
  rw [add_eq]; split
  · exact Or.inl rfl
  · exact Or.inr rfl

example : add 3723000004 (-30) 0 0 0 = .ok 68523000004 := by rfl

/-- the result of `add` is a time of day and differs from `t + Δ` by a whole number of days -/
theorem time_add_range (t h mi s us r : Int) (hr : add t h mi s us = .ok r) :
    0 ≤ r ∧ r < DAY ∧ (r - (t + amount h mi s us)) % DAY = 0 := by
  rw [add_eq] at hr
  split at hr
  · cases hr
  · injection hr with hr; subst hr; unfold DAY; omega

example : ∃ r, add 0 0 0 0 (-1) = .ok r := ⟨86399999999, by rfl⟩

/-- amounts that keep 1970-01-01 + Δ inside years 1..9999 (about −1969 … +8029 years) never overflow:
    the whole "several days" domain of the property is covered -/
theorem time_add_ok (t h mi s us : Int) (ht : 0 ≤ t ∧ t < DAY)
    (hlo : -719162 * DAY ≤ amount h mi s us) (hhi : amount h mi s us < 2932896 * DAY) :
    add t h mi s us = .ok ((t + amount h mi s us) % DAY) := by
  rw [add_eq]
  have : ¬ (epochOrd + (t + amount h mi s us) / DAY < 1 ∨ epochOrd + (t + amount h mi s us) / DAY > maxOrd) := by
    unfold epochOrd maxOrd DAY at *; omega
  simp only [this, if_false]

example : add 5 48 0 0 0 = .ok 5 := by rfl

/-- overflow happens exactly when the carrier date leaves years 1..9999 -/
theorem time_add_overflow_iff (t h mi s us : Int) :
    add t h mi s us = .error .overflowError ↔
      (epochOrd + (t + amount h mi s us) / DAY < 1 ∨ epochOrd + (t + amount h mi s us) / DAY > maxOrd) := by
  rw [add_eq]; split <;> simp_all

example : add 0 100000000 0 0 0 = .error .overflowError := by rfl

/-- `subtract` is `add` of the opposite amount -/
theorem time_subtract_mod (t h mi s us r : Int) (hr : subtract t h mi s us = .ok r) :
    r = (t - amount h mi s us) % DAY := by
  unfold subtract at hr
  rw [add_eq] at hr
  split at hr
  · cases hr
  · injection hr with hr; subst hr
    have : amount (-h) (-mi) (-s) (-us) = - amount h mi s us := by unfold amount totalUs; omega
    rw [this]; congr 1

example : subtract 0 0 0 1 0 = .ok 86399000000 := by rfl

/-- `subtract` undoes `add` -/
theorem time_sub_inverse (t h mi s us r r' : Int) (ht : 0 ≤ t ∧ t < DAY)
    (h1 : add t h mi s us = .ok r) (h2 : subtract r h mi s us = .ok r') : r' = t := by
  have e1 := time_add_range t h mi s us r h1
  have e2 := time_subtract_mod r h mi s us r' h2
  rw [add_eq] at h1
  split at h1
  · cases h1
  · injection h1 with h1
    unfold DAY at *; omega

/-- … and `add` undoes `subtract` -/
theorem time_add_inverse (t h mi s us r r' : Int) (ht : 0 ≤ t ∧ t < DAY)
    (h1 : subtract t h mi s us = .ok r) (h2 : add r h mi s us = .ok r') : r' = t := by
  have e1 := time_subtract_mod t h mi s us r h1
  have e2 := time_add_range r h mi s us r' h2
  rw [add_eq] at h2
  split at h2
  · cases h2
  · injection h2 with h2
    unfold DAY at *; omega

example : ∃ r, add 1 (-25) 0 0 (-7) = .ok r ∧ subtract r (-25) 0 0 (-7) = .ok 1 := ⟨82799999994, by rfl, by rfl⟩

/-- both inverse directions actually return a value on the property's domain -/
theorem time_sub_inverse_total (t h mi s us : Int) (ht : 0 ≤ t ∧ t < DAY)
    (hlo : -719162 * DAY ≤ amount h mi s us) (hhi : amount h mi s us ≤ 719162 * DAY) :
    ∃ r, add t h mi s us = .ok r ∧ subtract r h mi s us = .ok t := by
  refine ⟨(t + amount h mi s us) % DAY, time_add_ok t h mi s us ht hlo (by unfold DAY at *; omega), ?_⟩
  unfold subtract
  have hneg : amount (-h) (-mi) (-s) (-us) = - amount h mi s us := by unfold amount totalUs; omega
  rw [time_add_ok _ _ _ _ _ (by unfold DAY; omega) (by rw [hneg]; unfold DAY at *; omega)
        (by rw [hneg]; unfold DAY at *; omega), hneg]
  congr 1; unfold DAY at *; omega

/-- a timedelta with a day component is rejected by `+`, `-`, `add_timedelta`, `subtract_timedelta` -/
theorem timedelta_with_days_rejected (t : Int) (d : TD) (hd : d.days ≠ 0) :
    addTd t d = .error .typeError ∧ subTd t d = .error .typeError := by
  unfold addTd subTd; simp [hd]

example : addTd 0 ⟨-1, 86399, 0⟩ = .error .typeError := by rfl

/-- in the standard library's normalised representation, "has a day component" means
    "is negative or at least 24 h" -/
theorem timedelta_days_iff (x : Int) : (TD.ofUs x).days ≠ 0 ↔ (x < 0 ∨ DAY ≤ x) := by
  unfold TD.ofUs DAY; simp only; omega

/-- `TD.ofUs` is the normalised representation of `x` microseconds -/
theorem timedelta_ofUs (x : Int) :
    (TD.ofUs x).us = x ∧ 0 ≤ (TD.ofUs x).seconds ∧ (TD.ofUs x).seconds < 86400 ∧
    0 ≤ (TD.ofUs x).micros ∧ (TD.ofUs x).micros < 1000000 := by
  unfold TD.ofUs TD.us DAY; simp only; omega

/-- a timedelta without a day component shifts the time by exactly its length modulo 24 h -/
theorem timedelta_add_mod (t : Int) (d : TD) (ht : 0 ≤ t ∧ t < DAY) (hd : d.days = 0)
    (hs : 0 ≤ d.seconds ∧ d.seconds < 86400) (hu : 0 ≤ d.micros ∧ d.micros < 1000000) :
    addTd t d = .ok ((t + d.us) % DAY) ∧ subTd t d = .ok ((t - d.us) % DAY) := by
  unfold addTd subTd subtract TD.us
  simp only [hd, ne_eq, not_true_eq_false, if_false]
  constructor
  · rw [time_add_ok _ _ _ _ _ ht (by unfold amount totalUs DAY; omega) (by unfold amount totalUs DAY; omega)]
    congr 1; unfold amount totalUs DAY; omega
  · rw [time_add_ok _ _ _ _ _ ht (by unfold amount totalUs DAY; omega) (by unfold amount totalUs DAY; omega)]
    congr 1; unfold amount totalUs DAY; omega

example : addTd 86399999999 ⟨0, 0, 2⟩ = .ok 1 := by rfl

/-- the field view is a bijection with microsecond values of one day -/
theorem fields_roundtrip (t : Int) (ht : 0 ≤ t ∧ t < DAY) :
    let (h, mi, s, us) := fields t
    ofFields h mi s us = t ∧ 0 ≤ h ∧ h ≤ 23 ∧ 0 ≤ mi ∧ mi ≤ 59 ∧ 0 ≤ s ∧ s ≤ 59 ∧ 0 ≤ us ∧ us ≤ 999999 := by
  unfold fields ofFields DAY at *; simp only; omega

/-- signed difference, exact to the microsecond: `a.diff(b, False)` = b − a (the h/m/s/µs totals rebuild the value) -/
theorem diff_signed (a b : Int) : diff a b false = b - a := by
  unfold diff fields; simp only [Bool.false_eq_true, if_false]; omega

example : diff 3723500000 3724250000 false = 750000 := by rfl

/-- operators: `a - b` and the reflected form -/
theorem sub_signed (a b : Int) : sub a b = a - b ∧ rsub b a = a - b := by
  unfold rsub sub; rw [diff_signed b a]; exact ⟨rfl, rfl⟩

/-- with `abs=True` the difference is the distance |b − a| ≥ 0, symmetric in its arguments -/
theorem diff_abs_nonneg (a b : Int) (ha : 0 ≤ a ∧ a < DAY) (hb : 0 ≤ b ∧ b < DAY) :
    0 ≤ diff a b true ∧ diff a b true = absI (b - a) ∧ diff a b true = diff b a true ∧
    (diff a b true = 0 ↔ a = b) := by
  unfold diff fields absI DAY at *; simp only [if_true]
  repeat' split
  all_goals omega

example : diff 3724250000 3723500000 true = 750000 := by rfl

/-- `closest` returns one of its arguments, and none of the two is strictly nearer -/
theorem closest_by_distance (t a b : Int) :
    (closest t a b = a ∨ closest t a b = b) ∧
    diff t (closest t a b) true ≤ diff t a true ∧ diff t (closest t a b) true ≤ diff t b true := by
  unfold closest; split
  · refine ⟨Or.inl rfl, ?_, ?_⟩ <;> omega
  · refine ⟨Or.inr rfl, ?_, ?_⟩ <;> omega

example : closest 0 1200000 1900000 = 1200000 := by rfl

/-- `farthest` returns one of its arguments, and none of the two is strictly farther -/
theorem farthest_by_distance (t a b : Int) :
    (farthest t a b = a ∨ farthest t a b = b) ∧
    diff t a true ≤ diff t (farthest t a b) true ∧ diff t b true ≤ diff t (farthest t a b) true := by
  unfold farthest; split
  · refine ⟨Or.inl rfl, ?_, ?_⟩ <;> omega
  · refine ⟨Or.inr rfl, ?_, ?_⟩ <;> omega

example : farthest 0 1900000 1200000 = 1900000 := by rfl

/-- the unrepaired `diff` (totals built from h/m/s only) violates the property: counterexample kept as a
    regression witness for the defect fixed in the source (F5) -/
def diffOld (self dt : Int) : Int :=
  let (h1, m1, s1, _) := fields self
  let (h2, m2, s2, _) := fields dt
  (h2 * 3600 + m2 * 60 + s2) * 1000000 - (h1 * 3600 + m1 * 60 + s1) * 1000000

theorem diff_old_counterexample : ¬ (∀ a b, 0 ≤ a ∧ a < DAY → 0 ≤ b ∧ b < DAY → diffOld a b = b - a) := by
  intro h; have := h 3723500000 3724250000 (by decide) (by decide); revert this; decide

end Pendulum.Props.C20
