import Pendulum.Proofs.IsoReject
/-! # C07 — ISO 8601 / RFC 3339 date and time strings parse to the value they denote, both parser backends

Property theorems only. `Iso.parseIso b` is the model of `parse_iso8601` of backend `b` (`Model/Iso.lean`:
`rust` = `rust/src/parsing.rs` + `python/parsing.rs`, `py` = `parsing/iso8601.py`), `Iso.publicParse` the model of
`pendulum.parse(text, exact=…, tz=…, now=…)`. Strings are produced by the renderers `rCalendar`, `rOrdinal`, `rWeekDay`,
`rTime`, `rOff`, … from the value they denote; `Cal.*` is the reference calendar, `Gen.*` / `Rs.*` pendulum's own helpers
(regenerated from source / hand model), which the parsers' ordinal and week conversions go through.
The theorems are about the *repaired* parsers (fix commits F1, F07a, F07b, F07c, F07d of the report). -/
set_option linter.unusedSimpArgs false
namespace Pendulum.Props.C07
open Pendulum Pendulum.Iso

/-- calendar dates `YYYY-MM-DD` / `YYYYMMDD`, every valid date of years 1..9999 -/
theorem parse_render_calendar (b : Backend) (ext : Bool) (y m d : Nat) (hv : dateOk y m d) :
    parseIso b (rCalendar ext y m d) = .ok (dateV y m d) :=
  parse_date b (.cal ext) y m d hv trivial

/-- ordinal dates `YYYY-DDD` / `YYYYDDD`: the day of the year of every valid date, month ends and Dec 31 included -/
theorem parse_render_ordinal (b : Backend) (ext : Bool) (y m d : Nat) (hv : dateOk y m d) :
    parseIso b (rOrdinal ext y (Cal.dayOfYear y m d).toNat) = .ok (dateV y m d) :=
  parse_date b (.ord ext) y m d hv trivial

/-- week dates `YYYY-Www-D` / `YYYYWwwD`: the ISO calendar triple of every valid date (ISO year within 1..9999) -/
theorem parse_render_week (b : Backend) (ext : Bool) (y m d : Nat) (hv : dateOk y m d)
    (hiso : 1 ≤ (Cal.isoCalendar y m d).1 ∧ (Cal.isoCalendar y m d).1 ≤ 9999) :
    parseIso b (rWeekDay ext (Cal.isoCalendar y m d).1.toNat (Cal.isoCalendar y m d).2.1.toNat (Cal.isoCalendar y m d).2.2.toNat)
      = .ok (dateV y m d) :=
  parse_date b (.week ext) y m d hv hiso

/-- week dates without weekday `YYYY-Www` / `YYYYWww` denote the Monday of the week -/
theorem parse_render_week_monday (b : Backend) (ext : Bool) (y m d : Nat) (hv : dateOk y m d)
    (hiso : 1 ≤ (Cal.isoCalendar y m d).1 ∧ (Cal.isoCalendar y m d).1 ≤ 9999) (hmon : (Cal.isoCalendar y m d).2.2 = 1) :
    parseIso b (rWeek ext (Cal.isoCalendar y m d).1.toNat (Cal.isoCalendar y m d).2.1.toNat) = .ok (dateV y m d) :=
  parse_week_monday b ext y m d hv hiso hmon

/-- `YYYY-MM` is the first day of the month -/
theorem parse_render_year_month (b : Backend) (y m : Nat) (hy : 1 ≤ y ∧ y ≤ 9999) (hm : 1 ≤ m ∧ m ≤ 12) :
    parseIso b (rYearMonth y m) = .ok (dateV y m 1) :=
  parse_year_month b y m hy hm

/-- `YYYY` is January 1st: through `parse()` for both backends (the compiled `parse_iso8601` alone rejects a bare year,
    the `_parse_common` fallback of `parse()` accepts it), and directly for the pure-Python `parse_iso8601` -/
theorem parse_render_year (b : Backend) (tz : Option Int) (now : Int × Int × Int) (y : Nat) (hy : 1 ≤ y ∧ y ≤ 9999) :
    publicParse b true tz now (rYear y) = .ok (dateV y 1 1) ∧ parseIso .py (rYear y) = .ok (dateV y 1 1) :=
  ⟨public_parse_year b tz now y hy, py_parse_year y hy⟩

/-- times of day with the `T` designator: `Thh`, `Thhmm`, `Thh:mm`, `Thhmmss`, `Thh:mm:ss`, fractions of 1–9 digits after
    `.` or `,` (truncated to microseconds), optional `Z` / `±hh` / `±hhmm` / `±hh:mm` -/
theorem parse_render_time (b : Backend) (ext : Bool) (h mi s : Nat) (p : Prec) (hc : ClockOk h mi s p) (o : Off) (ho : OffOk o) :
    parseIso b ('T' :: (rTime ext h mi s p ++ rOff o)) =
      .ok (timeV h (precFields mi s p).1 (precFields mi s p).2.1 (precFields mi s p).2.2 (offSeconds o)) :=
  parse_time_T b ext h mi s p hc o ho

/-- extended-format times without designator: `hh:mm`, `hh:mm:ss[.f]` with optional offset -/
theorem parse_render_time_bare (b : Backend) (h mi s : Nat) (p : Prec) (hp : p ≠ .h) (hc : ClockOk h mi s p) (o : Off) (ho : OffOk o) :
    parseIso b (rTime true h mi s p ++ rOff o) =
      .ok (timeV h (precFields mi s p).1 (precFields mi s p).2.1 (precFields mi s p).2.2 (offSeconds o)) :=
  parse_time_ext b h mi s p hp hc o ho

/-- basic-format times *without* the `T` designator (`hh`, `hhmmss`; a bare `hhmm` is read as a year by both parsers):
    PARTIAL — holds for the pure-Python parser only. The compiled parser reads the first digits as a year and rejects the
    string (known finding F07e, counterexamples below); no other well-formed family differs between the backends. -/
theorem parse_render_time_bare_basic_partial (h mi s : Nat) (hc : h ≤ 23 ∧ mi ≤ 59 ∧ s ≤ 59) :
    parseIso .py (rTime false h mi s .hms) = .ok (timeV h mi s 0 none) ∧
    parseIso .py (rTime false h mi s .h) = .ok (timeV h 0 0 0 none) :=
  py_bare_basic_time h mi s hc

/-- F07e: the compiled parser rejects what the pure-Python parser accepts -/
example : parseIso .rust "123456".toList = .error .valueError ∧ parseIso .py "123456".toList = .ok (timeV 12 34 56 0 none) := by decide
example : parseIso .rust "12".toList = .error .valueError ∧ parseIso .py "12".toList = .ok (timeV 12 0 0 0 none) := by decide

/-- combined date and time: any of the six date representations, `T` or space, the time in the same (basic / extended)
    format at any precision, fraction truncated to microseconds, offset exact -/
theorem parse_render_datetime (b : Backend) (f : DForm) (y m d : Nat) (hv : dateOk y m d) (hf : FormOk f y m d)
    (sep : Char) (hsep : sep = 'T' ∨ sep = ' ') (h mi s : Nat) (p : Prec) (hc : ClockOk h mi s p) (o : Off) (ho : OffOk o) :
    parseIso b (rDate f y m d ++ sep :: (rTime f.ext h mi s p ++ rOff o)) =
      .ok (dateTimeV y m d h (precFields mi s p).1 (precFields mi s p).2.1 (precFields mi s p).2.2 (offSeconds o)) :=
  parse_datetime b f y m d hv hf sep hsep h mi s p hc o ho

/-- the fraction denotes `n / 10^k` seconds; what is stored is that value truncated to whole microseconds -/
theorem fraction_truncated (k n : Nat) (hk : 1 ≤ k ∧ k ≤ 9) (hn : n < 10 ^ k) :
    fracMicros k n * 10 ^ k ≤ n * 10 ^ 6 ∧ n * 10 ^ 6 < (fracMicros k n + 1) * 10 ^ k ∧ fracMicros k n ≤ 999999 := by
  refine ⟨?_, ?_, fracMicros_le k n hk hn⟩
  · unfold fracMicros; exact Nat.div_mul_le_self _ _
  · unfold fracMicros
    have hp : 0 < 10 ^ k := Nat.pos_of_neZero (10 ^ k)
    have := Nat.lt_mul_div_succ (n * 10 ^ 6) hp
    rw [Nat.mul_comm (10 ^ k)] at this
    exact this

/-- the two backends agree on every well-formed date-time (and, by the theorems above, on dates and times) -/
theorem backends_agree_datetime (f : DForm) (y m d : Nat) (hv : dateOk y m d) (hf : FormOk f y m d)
    (sep : Char) (hsep : sep = 'T' ∨ sep = ' ') (h mi s : Nat) (p : Prec) (hc : ClockOk h mi s p) (o : Off) (ho : OffOk o) :
    parseIso .rust (rDate f y m d ++ sep :: (rTime f.ext h mi s p ++ rOff o)) =
      parseIso .py (rDate f y m d ++ sep :: (rTime f.ext h mi s p ++ rOff o)) := by
  rw [parse_datetime .rust f y m d hv hf sep hsep h mi s p hc o ho, parse_datetime .py f y m d hv hf sep hsep h mi s p hc o ho]

/-! ### impossible values are rejected (`ParserError` / `ValueError`) -/

theorem reject_impossible_day (b : Backend) (ext : Bool) (y m d : Nat) (hy : y < 10000) (hm : m < 100) (hd : d < 100)
    (hbad : ¬ dateOk y m d) : Rejected (parseIso b (rCalendar ext y m d)) :=
  reject_day b ext y m d hy hm hd hbad

theorem reject_impossible_ordinal (b : Backend) (ext : Bool) (y n : Nat) (hy : 1 ≤ y ∧ y < 10000) (hn : n < 1000)
    (hbad : n = 0 ∨ (n : Int) > Cal.daysInYear y) : Rejected (parseIso b (rOrdinal ext y n)) :=
  reject_ordinal b ext y n hy hn hbad

theorem reject_impossible_week (b : Backend) (ext : Bool) (y w wd : Nat) (hy : 1 ≤ y ∧ y < 10000) (hw : w < 100) (hwd : wd < 10)
    (hbad : w = 0 ∨ w > 53 ∨ (w = 53 ∧ Cal.isoWeeksInYear y ≠ 53)) :
    Rejected (parseIso b (rWeekDay ext y w wd)) ∧ Rejected (parseIso b (rWeek ext y w)) := by
  apply reject_week b ext y w wd hy hw hwd
  rcases hbad with h | h | ⟨h1, h2⟩
  · exact Or.inl h
  · exact Or.inr (Or.inl h)
  · refine Or.inr (Or.inr ⟨h1, ?_⟩)
    cases hl : Gen.is_long_year (y : Int) with
    | false => rfl
    | true => exact absurd ((Pendulum.Props.C15.is_long_year_iff y).mp hl) h2

theorem reject_impossible_weekday (b : Backend) (ext : Bool) (y w wd : Nat) (hy : 1 ≤ y ∧ y < 10000) (hw : w < 100) (hwd : wd < 10)
    (hbad : wd = 0 ∨ wd > 7) : Rejected (parseIso b (rWeekDay ext y w wd)) :=
  reject_weekday b ext y w wd hy hw hwd hbad

/-! ### `parse()`: option handling, narrowest type, inverse of the formatters -/

/-- `exact=True` returns the narrowest type: a date string gives a Date … -/
theorem exact_narrowest_date (b : Backend) (tz : Option Int) (now : Int × Int × Int) (f : DForm) (y m d : Nat)
    (hv : dateOk y m d) (hf : FormOk f y m d) :
    publicParse b true tz now (rDate f y m d) = .ok (dateV y m d) := by
  have hn := rDate_ne_now f y m d []
  rw [List.append_nil] at hn
  rw [public_of_iso b true tz now _ _ (parse_date b f y m d hv hf) hn]
  rfl

/-- … a time string a Time (its offset is dropped by `pendulum.time`) … -/
theorem exact_narrowest_time (b : Backend) (tz : Option Int) (now : Int × Int × Int) (ext : Bool) (h mi s : Nat) (p : Prec)
    (hc : ClockOk h mi s p) (o : Off) (ho : OffOk o) :
    publicParse b true tz now ('T' :: (rTime ext h mi s p ++ rOff o)) =
      .ok (timeV h (precFields mi s p).1 (precFields mi s p).2.1 (precFields mi s p).2.2 none) := by
  rw [public_of_iso b true tz now _ _ (parse_time_T b ext h mi s p hc o ho) (by simp)]
  rfl

/-- … and without `exact` a date string gives midnight of that date in the `tz` option (default UTC) -/
theorem default_date_is_midnight (b : Backend) (tz : Option Int) (now : Int × Int × Int) (f : DForm) (y m d : Nat)
    (hv : dateOk y m d) (hf : FormOk f y m d) :
    publicParse b false tz now (rDate f y m d) = .ok (dateTimeV y m d 0 0 0 0 (some (tz.getD 0))) := by
  have hn := rDate_ne_now f y m d []
  rw [List.append_nil] at hn
  rw [public_of_iso b false tz now _ _ (parse_date b f y m d hv hf) hn]
  rfl

/-- a date-time keeps its own offset; a naive one gets the `tz` option (default UTC), with or without `exact` -/
theorem public_datetime (b : Backend) (exact : Bool) (tz : Option Int) (now : Int × Int × Int) (f : DForm) (y m d : Nat)
    (hv : dateOk y m d) (hf : FormOk f y m d) (sep : Char) (hsep : sep = 'T' ∨ sep = ' ') (h mi s : Nat) (p : Prec)
    (hc : ClockOk h mi s p) (o : Off) (ho : OffOk o) :
    publicParse b exact tz now (rDate f y m d ++ sep :: (rTime f.ext h mi s p ++ rOff o)) =
      .ok (dateTimeV y m d h (precFields mi s p).1 (precFields mi s p).2.1 (precFields mi s p).2.2
        (some ((offSeconds o).getD (tz.getD 0)))) := by
  rw [public_of_iso b exact tz now _ _ (parse_datetime b f y m d hv hf sep hsep h mi s p hc o ho) (rDate_ne_now f y m d _)]
  cases o with
  | naive => rfl
  | z => rfl
  | hh neg hh' =>
    have hb : -86400 < (hh' : Int) * 3600 * (if neg = true then -1 else 1) ∧
        (hh' : Int) * 3600 * (if neg = true then -1 else 1) < 86400 := by
      simp only [OffOk] at ho
      cases neg <;> simp <;> omega
    simp [wrap, dateTimeV, offSeconds, hb]
  | hhmm neg c hh' mm' =>
    have hb : -86400 < ((hh' : Int) * 3600 + (mm' : Int) * 60) * (if neg = true then -1 else 1) ∧
        ((hh' : Int) * 3600 + (mm' : Int) * 60) * (if neg = true then -1 else 1) < 86400 := by
      simp only [OffOk] at ho
      cases neg <;> simp <;> omega
    simp [wrap, dateTimeV, offSeconds, hb]

/-- `parse()` inverts `isoformat()`, `str()`, `to_iso8601_string()`, `to_rfc3339_string()` (microseconds kept) and
    `to_atom_string()` / `to_w3c_string()` (`withUs = false`: to the second) for every DateTime in UTC (`zulu`) or at a
    fixed whole-minute offset up to ±23:59 -/
theorem parse_isoformat (b : Backend) (now : Int × Int × Int) (sep : Char) (hsep : sep = 'T' ∨ sep = ' ') (withUs zulu : Bool)
    (y m d h mi s us : Nat) (hv : dateOk y m d) (hh : h ≤ 23 ∧ mi ≤ 59 ∧ s ≤ 59 ∧ us ≤ 999999)
    (offMin : Int) (ho : -1439 ≤ offMin ∧ offMin ≤ 1439) (hz : zulu = true → offMin = 0) :
    publicParse b false none now (rIsoformat sep withUs zulu y m d h mi s us offMin) =
      .ok (dateTimeV y m d h mi s (if us = 0 ∨ withUs = false then 0 else us) (some (offMin * 60))) := by
  obtain ⟨h1, h2, h3, h4⟩ := hh
  have e : rIsoformat sep withUs zulu y m d h mi s us offMin =
      rDate (.cal true) y m d ++ sep :: (rTime true h mi s (if us = 0 ∨ withUs = false then .hms else .frac false 6 us) ++
        rOff (if zulu then .z else .hhmm (decide (offMin < 0)) true (offMin.natAbs / 60) (offMin.natAbs % 60))) := by
    unfold rIsoformat rDate
    cases zulu <;> simp [List.append_assoc, rOff]
  have hc : ClockOk h mi s (if us = 0 ∨ withUs = false then .hms else .frac false 6 us) := by
    refine ⟨h1, h2, h3, ?_⟩
    split
    · trivial
    · exact ⟨by omega, by omega, by omega⟩
  have hoff : OffOk (if zulu then .z else .hhmm (decide (offMin < 0)) true (offMin.natAbs / 60) (offMin.natAbs % 60)) := by
    split
    · trivial
    · exact ⟨by omega, by omega⟩
  have hpd := public_datetime b false none now (.cal true) y m d hv trivial sep hsep h mi s _ hc _ hoff
  simp only [DForm.ext] at hpd
  rw [e, hpd]
  have hsec : (offSeconds (if zulu then .z else .hhmm (decide (offMin < 0)) true (offMin.natAbs / 60) (offMin.natAbs % 60))).getD
      ((none : Option Int).getD 0) = offMin * 60 := by
    cases zulu with
    | true => simp [offSeconds, hz rfl]
    | false =>
      simp only [Bool.false_eq_true, if_false, offSeconds, Option.getD_some]
      by_cases hneg : offMin < 0 <;> simp [hneg] <;> omega
  rw [hsec]
  by_cases hu : us = 0 ∨ withUs = false
  · simp [hu, precFields]
  · have : fracMicros 6 us = us := by unfold fracMicros; simp
    simp [hu, precFields, this]

/-! ### the defect that was repaired (F1): with `<` instead of `<=` in `ordinal_to_ymd` the last day of a month is lost -/

/-- 2021-031 (January 31st): the pre-repair comparison walks one month too far and yields February 0th … -/
example : rsOrdToYmdG true 2021 31 false = .ok (2021, 2, 0) := by decide
/-- … which the date constructor rejects; the repaired comparison gives January 31st -/
example : rsOrdToYmdG false 2021 31 false = .ok (2021, 1, 31) := by decide
example : rsOrdToYmdG true 2021 365 false = .error .valueError := by decide
example : rsOrdToYmdG false 2021 365 false = .ok (2021, 12, 31) := by decide

/-! ### non-vacuity: the hypotheses are satisfiable and the statements compute on concrete strings -/

example : dateOk 2021 1 31 ∧ dateOk 2020 2 29 ∧ ¬ dateOk 2021 2 29 := by decide
example : parseIso .rust "2021-031".toList = .ok (dateV 2021 1 31) := by decide
example : parseIso .py "2021W047".toList = .ok (dateV 2021 1 31) := by decide
example : rWeekDay true 2021 4 7 = "2021-W04-7".toList := by decide
example : Cal.isoCalendar 2021 1 31 = (2021, 4, 7) := by decide
example : ClockOk 23 59 59 (.frac true 9 999999999) ∧ OffOk (.hhmm true true 23 59) := by
  refine ⟨⟨by omega, by omega, by omega, by omega, by omega, by omega⟩, by omega, by omega⟩
example : parseIso .rust "20210304T123456,1234567-0130".toList = .ok (dateTimeV 2021 3 4 12 34 56 123456 (some (-5400))) := by decide
example : parseIso .py "2021-03-04 12:34:56.5+01:00".toList = .ok (dateTimeV 2021 3 4 12 34 56 500000 (some 3600)) := by decide
example : Rejected (parseIso .rust "2021-W01-0".toList) ∧ Rejected (parseIso .py "2021-W00".toList) := by
  unfold Rejected; decide
example : rIsoformat 'T' true true 2021 3 4 5 6 7 0 0 = "2021-03-04T05:06:07Z".toList := by decide

end Pendulum.Props.C07
