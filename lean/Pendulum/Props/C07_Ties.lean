import Pendulum.Props.C07
import Pendulum.Proofs.ParserGen
import Pendulum.Proofs.IsoPyGen
import Pendulum.Proofs.IsoRsGlue
/-! # C07 — tie theorems: the definitions regenerated from the source on every run (`Gen/*.lean`) equal the hand model
the theorems of `Props/C07.lean` are about. Kept in a module of its own so that a broken tie stops this module only:
the hand-model theorems of `Props/C07.lean`, which other properties import, keep building. Same namespace; the axiom audit
enumerates both modules. -/
namespace Pendulum.Props.C07
open Pendulum Pendulum.Iso

/-! ### the public wrapper as regenerated from the source (`Gen/Parser.lean`, tools/gen_parser.py) -/

open Pendulum.ParserGen in
/-- **public_wrapper_source_eq_model.** `_normalize` (parsing/__init__.py) followed by the type dispatch of `parser._parse`, as
    written in the source and regenerated on every run — `exact`; a time completed from `now`; a date at midnight; an aware
    datetime through `pendulum.instance(parsed)`, a naive one through `pendulum.datetime(<seven fields>, tz=options.get("tz",
    UTC))`; `pendulum.date` / `pendulum.time` — is the model's `wrap` (the second half of `publicParse`), for the `tz` option
    absent (`none`) or a fixed offset. Hypotheses: the stdlib and pendulum constructors are what the model says (`StdOk`,
    `PendOk`; satisfiable: `Props.C17.front_end_hypotheses_satisfiable`), the value is a real date/time object (`WF`). -/
theorem public_wrapper_source_eq_model (rk : IsoDur.Parsed → Bool) (b : Backend) (ext : Gen.Parser.Ext PV) (hstd : StdOk ext)
    (hp : PendOk rk b ext) (text : List Char) (v : Value) (hv : WF v) (d o : Gen.Parser.Dict) (n : Option Gen.Parser.NowV)
    (hn : d.now = some n)
    (hnow : dateOk (nowOf (n.getD ext.datetime_now)).1 (nowOf (n.getD ext.datetime_now)).2.1 (nowOf (n.getD ext.datetime_now)).2.2)
    (tz : Option Int) (htz : o.tz = tz.map Gen.Parser.TzVal.fixed) :
    mapE PV.toOut (Gen.Parser.bindE (Gen.Parser.parsing_p_normalize ext (.obj (objOf v)) d) fun p =>
        Gen.Parser.parser_p_parse_dispatch ext text p o) =
      liftE ParseAll.outOfValue (wrap (Gen.Parser.py_truthy_optbool d.exact) tz (nowOf (n.getD ext.datetime_now)) v) := by
  rw [wrap_eq rk b ext hstd hp text v hv d o n hn hnow, htz]
  cases tz <;> rfl

/-! ### the pure-Python ISO 8601 parser as regenerated from the source (`Gen/IsoPy.lean`, tools/gen_isopy.py) -/

section Regenerated
open Pendulum.IsoPyGen
open Pendulum.Gen.IsoPy (Ext)

/-- **iso_datetime_source_eq_model.** `parse_iso8601` after `ISO8601_DT.match`, as written in the source and regenerated on
    every run — the date block (calendar / ordinal / week dates, the basic-vs-extended separator checks, the ambiguous `YYYYMM`),
    date-only and `hhmmss` returns, the separator checks of the time part, `int()` of hour / minute / second, the fraction padded
    to six digits, the offset block, and the constructor finally called — is the post-processing half `pyPost` of the model's
    `pyParse` (second conjunct: `pyParse` = match, then `pyPost`), for every match of the expression (`WD`, `WT`: any
    alternative, any decimal digits, any separators). `build` turns the returned constructor request into the model's
    `mkDate` / `mkTime` / `mkDateTime`. Hypotheses: the regex-shape facts (`valid`), the external callees (`ExtOk`; satisfiable:
    `iso_source_hypotheses_satisfiable`). -/
theorem iso_datetime_source_eq_model {V : Type} (ext : Ext V) (hx : ExtOk ext) (d : WD) (t : Option WT) (hd : d.valid)
    (ht : ∀ x, t = some x → x.valid) :
    Gen.IsoPy.bindE (Gen.IsoPy.py_iso_datetime ext (dtGroups d t)) build = liftE id (pyPost d.py (t.map WT.py)) ∧
    ∀ cs0 : List Char, pyParse cs0 =
      (if cs0.head? = some 'P' then .error (.other "Duration") else
       match pyMatch (stripNl cs0) with
       | none => .error .parserError
       | some (dg, tg) => pyPost dg tg) :=
  ⟨datetime_tie ext hx d t hd ht, pyParse_eq_post⟩

/-- the date block alone: (is_date, year, month, day, ambiguous_date) = the model's `pyDateFields` -/
theorem iso_date_part_source_eq_model {V : Type} (ext : Ext V) (hx : ExtOk ext) (d : WD) (t : Option WT) (hd : d.valid) :
    Gen.IsoPy.py_iso_date_part ext (dtGroups d t) false 0 1 1 false =
      liftE (fun r => (d.isDate, r.1, r.2.1, r.2.2.1, r.2.2.2)) (pyDateFields d.py) :=
  date_part_tie ext hx d t hd

/-- **week_date_source_eq_model.** `_get_iso_8601_week` on the texts of `isoyear` (4 digits), `isoweek` (2) and `isoweekday`
    (1, optional): the same (year, month, day) as the model's `pyWeek`, and it raises `ParserError` / `ValueError` (both turned
    into `ParserError` by the caller's handlers) exactly when `pyWeek` rejects -/
theorem week_date_source_eq_model {V : Type} (ext : Ext V) (hx : ExtOk ext) (ty tw : List Char) (twd : Option (List Char))
    (hy : Dig 4 ty) (hw : Dig 2 tw) (hwd : ∀ t, twd = some t → Dig 1 t) :
    WeekRel (Gen.IsoPy.py_get_iso_8601_week ext (some ty) (some tw) twd) (pyWeek (val ty) (val tw) (twd.map val)) :=
  week_tie ext hx ty tw twd hy hw hwd

/-- **offset_source_eq_model.** the `if tz:` block on the text of the group `tz` (`Z`, `±hh`, `±hhmm`, `±hh:mm`, `±hh:`): the
    offset in seconds of the `tzinfo` it builds (`UTC` → 0, `FixedTimezone(offset)` → offset) is the model's `pyTzOffset`,
    sign, hour·60·60 and minute·60 included, and `±hh:` is the same `ValueError` -/
theorem offset_source_eq_model {V : Type} (ext : Ext V) (hx : ExtOk ext) (g : Gen.IsoPy.DtGroups) (otz : Option WTz)
    (hv : ∀ t, otz = some t → t.valid) :
    Gen.IsoPy.bindE (Gen.IsoPy.py_iso_offset ext g (otz.map WTz.text)) (fun t => .ok (tzOff t)) =
      liftE id (pyTzOffset (otz.map WTz.py)) :=
  offset_tie ext hx g otz hv

/-- the expression whose matching is not translated, and the statements of `parse_iso8601` up to the match test, verbatim -/
theorem iso8601_dt_regex_pinned :
    Gen.IsoPy.ISO8601_DT_pattern =
      "^(?P<date>    (?P<classic>        (?P<year>\\d{4})        (?P<monthday>            (?P<monthsep>-)?(?P<month>\\d{2})            ((?P<daysep>-)?(?P<day>\\d{1,2}))?        )?    )    |    (?P<isocalendar>        (?P<isoyear>\\d{4})        (?P<weeksep>-)?        W        (?P<isoweek>\\d{2})        (?P<weekdaysep>-)?        (?P<isoweekday>\\d)?    ))?(?P<time>    (?P<timesep>[T\\ ])?    (?P<hour>\\d{1,2})(?P<minsep>:)?(?P<minute>\\d{1,2})?(?P<secsep>:)?(?P<second>\\d{1,2})?    (?P<subsecondsection>        (?:[.,])        (?P<subsecond>\\d{1,9})    )?    (?P<tz>        (?:[-+])\\d{2}:?(?:\\d{2})?|Z    )?)?$\nre.VERBOSE" ∧
    Gen.IsoPy.py_iso_datetime_prologue =
      "parsed = _parse_iso8601_duration(text)\nif parsed is not None:\n    return parsed\nm = ISO8601_DT.match(text)\nif not m:\n    raise ParserError('Invalid ISO 8601 string')" := by
  itie "C07.iso8601_dt_regex_pinned" "iso8601.py::ISO8601_DT (the expression) or the first statements of parse_iso8601" =>
    exact ⟨rfl, rfl⟩

/-- the reference callees: Python's decimal digit table, `date(y, 1, 1) + timedelta(days=n)` inside year `y` -/
def refExt : Ext Unit where
  digit := dv .py
  date_add_days := fun y _ _ n =>
    if 1 ≤ y ∧ y ≤ 9999 then
      .ok (y, Cal.monthOfYday (Cal.isLeap y) n, n + 1 - Cal.daysBeforeMonth (Cal.isLeap y) (Cal.monthOfYday (Cal.isLeap y) n))
    else .error "ValueError"
  Duration := fun _ => .ok ()

theorem iso_source_hypotheses_satisfiable : ExtOk refExt := ⟨rfl, fun _ _ _ _ => rfl⟩

/-- the groups of `2021-03-04T05:06:07.5+01:30`, of `2021W047` and of `202107` (read as 20:21:07) -/
def sampleT : WT := ⟨some 'T', "05".toList, true, some "06".toList, true, some "07".toList, some ('.', "5".toList),
  some (.off false "01".toList true (some "30".toList))⟩
example : (dtGroups (.ymd "2021".toList true "03".toList true "04".toList) (some sampleT)).time =
    some "T05:06:07.5+01:30".toList ∧ (dtGroups (.ymd "2021".toList true "03".toList true "04".toList) (some sampleT)).monthday =
    some "-03-04".toList := by decide
example : (WD.ymd "2021".toList true "03".toList true "04".toList).valid ∧ sampleT.valid := by
  refine ⟨⟨?_, ?_, Or.inr ?_⟩, ?_, Or.inr ?_, ?_, ?_, ?_, ?_⟩ <;>
    simp [Dig, IsDigits, Dig12, sampleT, WTz.valid] <;> decide
example : Gen.IsoPy.py_iso_datetime refExt (dtGroups (.ymd "2021".toList true "03".toList true "04".toList) (some sampleT)) =
    .ok (.datetime 2021 3 4 5 6 7 500000 (.fixed 5400)) := by decide
example : Gen.IsoPy.py_iso_datetime refExt (dtGroups (.week "2021".toList false "04".toList false (some "7".toList)) none) =
    .ok (.date 2021 1 31) := by decide
example : Gen.IsoPy.py_iso_datetime refExt (dtGroups (.ym "2021".toList false "07".toList) none) =
    .ok (.time 20 21 7 0 .none) := by decide
example : Gen.IsoPy.py_iso_datetime refExt (dtGroups (.week "2021".toList true "04".toList false (some "7".toList)) none) =
    .error "ParserError" := by decide
/-- … and on the string itself the model's `pyParse` gives the value of that request -/
example : pyParse "2021-03-04T05:06:07.5+01:30".toList = .ok (dateTimeV 2021 3 4 5 6 7 500000 (some 5400)) := by decide

end Regenerated


/-! ## ===== begin: the compiled date/time parser as regenerated from rust/src/parsing.rs + rust/src/python/parsing.rs (`Gen/IsoRs.lean`, tools/gen_isors.py) ===== -/
namespace Pendulum.Props.C07
open Pendulum Pendulum.Iso Pendulum.IsoRsGen Pendulum.Gen.IsoRs Pendulum.RsStd

/-- **rs_integer_source_eq_model.** `Parser::parse_integer(k, _)` (a `for` over `k` characters with `char::to_digit(10)`), as
regenerated, reads exactly what the hand model's `exactN .rust k 0` reads, from any position. -/
theorem rs_integer_source_eq_model (self : Parser) (r : List Char) (h : At self r) (k : Nat) (name : String) :
    match exactN .rust k 0 r with
    | some (v, r') => ∃ self', Parser.parse_integer self (k : Int) name = .ok ((v : Int), self') ∧ At self' r'
    | none => ∃ e, Parser.parse_integer self (k : Int) name = .error (.fail e) := by
  cases hx : exactN .rust k 0 r with
  | none => exact pi_err h k name hx
  | some x => obtain ⟨v, r'⟩ := x; exact pi_ok h k name hx

/-- **rs_ordinal_source_eq_model.** `Parser::ordinal_to_ymd` (year adjustments, then the `for i in 1..14` walk over `MONTHS_OFFSETS`) and
`Parser::iso_to_ymd` (range checks, `week * 7 + day − (week_day(year, 1, 4) + 3)`), as regenerated, are the hand model's `rsOrdToYmd` /
`rsIsoToYmd` for all arguments: the same `(year, month, day)`, an error where the model has one. -/
theorem rs_ordinal_source_eq_model (self : Parser) (year n w d : Int) (allow : Bool) :
    YmdAgree (Parser.ordinal_to_ymd self year n allow) (rsOrdToYmd year n allow) ∧
    YmdAgree (Parser.iso_to_ymd self year w d) (rsIsoToYmd year w d) :=
  ⟨ordinal_to_ymd_eq self year n allow, iso_to_ymd_eq self year w d⟩

/-- **rs_date_source_eq_model.** The date statement of `parse_datetime` (after the four year digits: `-W…`, `-MM[-DD]`, `-DDD`, `W…`, `MMDD`,
`DDD`), as regenerated, is `rsDateRest`: the same year/month/day, extended-format flag and remaining input, from any position. -/
theorem rs_date_source_eq_model (self : Parser) (r : List Char) (h : At self r) (dt : ParsedDateTime) (year : Nat)
    (hy : dt.year = (year : Int)) (hext : dt.extended_date_format = false) :
    DateAgree (Parser.parse_datetime_top6 self dt) dt (rsDateRest year r) :=
  date_spec self r h dt year hy hext

/-- **rs_offset_source_eq_model.** The `Z` / `±hh[[:]mm]` statement of `parse_time`, as regenerated, is `rsTz`: the same offset in seconds
(sign applied to hours and minutes together), the same rejections (more than +24:00, `hh:` without minutes), the same remaining input. -/
theorem rs_offset_source_eq_model (self : Parser) (r : List Char) (h : At self r) (dt : ParsedDateTime) (hoff : dt.offset = none) :
    OffAgree (Parser.parse_time_top5 self dt) dt (rsTz r) :=
  offset_spec self r h dt hoff

/-- **rs_time_source_eq_model.** `Parser::parse_time`, as regenerated (separator, hour, minutes/seconds in basic or extended format, the three
`while` loops of the fraction: six digits kept, the rest dropped, padding; the basic/extended consistency check; 24:00; the offset), is
`rsTime`: the same hour, minute, second, microsecond, offset and remaining input, for every fuel exceeding the remaining length by 8. -/
theorem rs_time_source_eq_model (fuel : Nat) (self : Parser) (r : List Char) (h : At self r) (hf : r.length + 8 ≤ fuel)
    (dt : ParsedDateTime) (skip : Option Nat) (hsk : ∀ hr, skip = some hr → dt.hour = (hr : Int))
    (hmi : dt.minute = 0) (hs : dt.second = 0) (hus : dt.microsecond = 0) (hoff : dt.offset = none) :
    TimeAgree (Parser.parse_time fuel self dt skip.isSome) dt (rsTime dt.has_date dt.extended_date_format skip r) :=
  time_spec fuel self r h hf dt skip hsk hmi hs hus hoff

/-- **rs_parse_source_eq_model.** `parse_iso8601` (rust/src/python/parsing.rs) over `Parser::new(input).parse()`, as regenerated, is the hand
model `parseIso .rust` on every string that does not start with `P`: the same `date` / `time` / `datetime` value (built by the
PyO3 constructors, `ExtOk`), an exception where the model has one (also for `a/b`: "Not yet implemented"); no loop is cut. -/
theorem rs_parse_source_eq_model {Obj : Type} (ext : Ext Obj) (obj : Value → Obj) (objDur : IsoDur.Parsed → Obj)
    (hext : ExtOk ext obj objDur) (input : List Char) (hP : input.head? ≠ some 'P') (fuel : Nat) (hf : input.length + 8 ≤ fuel) :
    glueView (parse_iso8601 fuel ext input) = some ((parseIso .rust input).toOption.map obj) := by
  rw [parse_iso8601_eq_model (fun _ => true) ext obj objDur hext input fuel hf]
  simp only [ParseAll.isoAny, hP, if_false]
  cases parseIso .rust input with
  | ok v => rfl
  | error k =>
    cases k with
    | other n => simp only []; split <;> rfl
    | parserError => rfl
    | valueError => rfl

/-- **fuel immateriality**: any two sufficient fuels give the same result of `parse_iso8601`, and none cuts a loop -/
theorem rs_parse_fuel_immaterial {Obj : Type} (ext : Ext Obj) (obj : Value → Obj) (objDur : IsoDur.Parsed → Obj)
    (hext : ExtOk ext obj objDur) (input : List Char) (f1 f2 : Nat) (h1 : input.length + 8 ≤ f1) (h2 : input.length + 8 ≤ f2) :
    glueView (parse_iso8601 f1 ext input) = glueView (parse_iso8601 f2 ext input) ∧ glueView (parse_iso8601 f1 ext input) ≠ none := by
  rw [parse_iso8601_eq_model (fun _ => true) ext obj objDur hext input f1 h1,
    parse_iso8601_eq_model (fun _ => true) ext obj objDur hext input f2 h2]
  exact ⟨rfl, by simp⟩

/-- **rs_glue_pinned.** The parts of the glue that are not translated (the `#[pyo3(get, set)]` field list of `Duration`, the PyO3 attributes
and signatures, `FixedTimezone::{tzname, __str__, __repr__, __deepcopy__}`) are verbatim the recorded ones; `FixedTimezone.utcoffset` is
`timedelta(0, offset)`. -/
theorem rs_glue_pinned {Obj : Type} (ext : Ext Obj) (tz : FixedTimezone) (dt : Obj) :
    glueView (FixedTimezone.utcoffset ext tz dt) = some (ext.PyDelta_new_bound 0 tz.offset 0 true).toOption ∧
    (durationFieldsSource, timezoneFieldsSource, glueAttrsSource, timezoneOtherSource) = pinnedGlue :=
  ⟨(timezone_getters ext tz dt).1, glue_pinned⟩

/-- the hypotheses on the PyO3 constructors are satisfiable: the constructors of the hand model themselves -/
def modelExt : Ext ParseAll.IsoRes where
  PyDateTime_new_bound y m d h mi s us tz :=
    match mkDateTime y m d h mi s us (tz.map (·.offset)) with | .ok v => .ok (.val v) | .error _ => .error (.valueError "")
  PyDate_new_bound y m d := match mkDate y m d with | .ok v => .ok (.val v) | .error _ => .error (.valueError "")
  PyTime_new_bound h mi s us tz :=
    match mkTime h mi s us (tz.map (·.offset)) with | .ok v => .ok (.val v) | .error _ => .error (.valueError "")
  PyDelta_new_bound _ _ _ _ := .error (.other "unused")
  duration_to_object d := .dur ⟨d.years, d.months, d.weeks, d.days, d.hours, d.minutes, d.seconds, d.microseconds⟩

theorem ext_hypotheses_satisfiable : ExtOk modelExt ParseAll.IsoRes.val ParseAll.IsoRes.dur := by
  constructor
  · intro y m d h mi s us tz; simp only [modelExt]; cases mkDateTime y m d h mi s us (tz.map (·.offset)) <;> rfl
  · intro y m d; simp only [modelExt]; cases mkDate y m d <;> rfl
  · intro h mi s us tz; simp only [modelExt]; cases mkTime h mi s us (tz.map (·.offset)) <;> rfl
  · intro d; rfl

/-! non-vacuity: the regenerated parser and glue compute on concrete strings -/
example : glueView (parse_iso8601 40 modelExt "2021-W04-7".toList) = some (some (.val (dateV 2021 1 31))) := by rfl
example : glueView (parse_iso8601 60 modelExt "20210304T123456,1234567-0130".toList) =
    some (some (.val (dateTimeV 2021 3 4 12 34 56 123456 (some (-5400))))) := by rfl
example : glueView (parse_iso8601 40 modelExt "2021-02-30".toList) = some none := by rfl
example : glueView (parse_iso8601 40 modelExt "2021-03-04T12+01:".toList) = some none := by rfl

/-! ## ===== end: regenerated compiled date/time parser ===== -/

end Pendulum.Props.C07
