import Pendulum.Proofs.Dur
import Pendulum.Proofs.DurGen
import Pendulum.Model.DurFloat
/-! # C10 — Duration arithmetic agrees with timedelta arithmetic

Property theorems only, about the exact-microsecond model `Pendulum.Dur` (Model/Dur.lean) of the operators of
/repo/src/pendulum/duration.py (`__neg__`, `__add__`, `__sub__`, `__mul__`, `__floordiv__`, `__truediv__`,
`__mod__`, `__divmod__`, `_divide_and_round`, `_to_microseconds`) against `Pendulum.Dur.Td`, the integer
semantics of the native `timedelta` operators.  A Duration is `mk a` for an arbitrary integer argument tuple
`a` (every Duration is made by `Duration.__new__`); "without years or months" is `a.y = 0`, `a.mo = 0`.
The other operand is a Duration or a plain timedelta (`Other`).  No bound on sizes. -/
namespace Pendulum.Props.C10
open Pendulum Pendulum.Dur

/-! ## Python `//`, `%` and round-half-even -/

/-- floor division and modulo as Python defines them: `a = b*q + r`, the remainder has the sign of the divisor -/
theorem floordiv_mod_spec (a b : Int) :
    b * Td.floordiv a b + Td.pymod a b = a ∧
    (0 < b → 0 ≤ Td.pymod a b ∧ Td.pymod a b < b) ∧ (b < 0 → b < Td.pymod a b ∧ Td.pymod a b ≤ 0) := by
  refine ⟨Int.mul_fdiv_add_fmod a b, ?_, ?_⟩
  · intro h; exact ⟨Int.fmod_nonneg_of_pos a h, Int.fmod_lt_of_pos a h⟩
  · intro h; exact fmod_neg_bounds a h
example : (Td.floordiv (-7) 2, Td.pymod (-7) 2, Td.floordiv 7 (-2), Td.pymod 7 (-2)) = (-4, 1, -4, -1) := by decide

/-- `_divide_and_round` is nearest-integer division: the result is within half a divisor of the exact quotient … -/
theorem divideAndRound_nearest (a b : Int) (hb : b ≠ 0) :
    2 * absI (Td.divNear a b * b - a) ≤ absI b := (divNear_nearest a b hb).1

/-- … and an exact half-way tie goes to the even neighbour, for divisors of either sign -/
theorem divideAndRound_tie_even (a b : Int) (hb : b ≠ 0)
    (h : 2 * absI (Td.divNear a b * b - a) = absI b) : Td.divNear a b % 2 = 0 := (divNear_nearest a b hb).2 h
example : (Td.divNear 5 2, Td.divNear 7 2, Td.divNear (-5) 2, Td.divNear 5 (-2), Td.divNear 7 (-2)) = (2, 4, -2, -2, -4) := by
  decide

/-! ## unary operators -/

/-- negation: the native length is negated (years and months included) … -/
theorem neg_native (a : Args) : (neg (mk a)).native = Td.neg (mk a).native := by
  rw [neg_eq, mk_eq]; simp only [canon, Td.neg]; omega

/-- … and years and months are negated component-wise, the rest is the negated part -/
theorem neg_years_months (a : Args) :
    (neg (mk a)).years = -a.y ∧ (neg (mk a)).months = -a.mo ∧ compTotal (neg (mk a)) = -a.part := by
  rw [neg_eq]; exact ⟨rfl, rfl, canon_sum _ _ _⟩
example : neg (mk { y := 1, mo := -2, d := 3, us := -1 }) = mk { y := -1, mo := 2, d := -3, us := 1 } := by decide

/-- `abs()` (base-class slot): the native absolute value -/
theorem abs_native (a : Args) :
    absNative (mk a) = Td.abs (mk a).native ∧ 0 ≤ absNative (mk a) ∧
    (absNative (mk a) = (mk a).native ∨ absNative (mk a) = -(mk a).native) := by
  refine ⟨rfl, ?_, ?_⟩ <;> simp only [absNative, Td.abs] <;> generalize (mk a).native = n <;> split <;> omega
example : absNative (mk { us := -5 }) = 5 := by decide

/-! ## `+` and `-` with a Duration or a plain timedelta on either side -/

/-- `Duration + other`, `other + Duration`: a Duration whose native length is the native sum
    (years/months are folded into days) -/
theorem add_native (a : Args) (o : Other) :
    (add (mk a) o.native).native = Td.add (mk a).native o.native ∧
    (add (mk a) o.native).years = 0 ∧ (add (mk a) o.native).months = 0 ∧
    compTotal (add (mk a) o.native) = (mk a).native + o.native := by
  rw [add, ofNative_eq]
  refine ⟨?_, rfl, rfl, canon_sum _ _ _⟩
  simp only [canon, Td.add]; omega
example : add (mk { d := 1, us := 5 }) (Other.td (-86400000006)).native = mk { us := -1 } := by decide

theorem sub_native (a : Args) (o : Other) :
    (sub (mk a) o.native).native = Td.sub (mk a).native o.native ∧
    (sub (mk a) o.native).years = 0 ∧ (sub (mk a) o.native).months = 0 ∧
    compTotal (sub (mk a) o.native) = (mk a).native - o.native := by
  rw [sub, ofNative_eq]
  refine ⟨?_, rfl, rfl, canon_sum _ _ _⟩
  simp only [canon, Td.sub]; omega
example : sub (mk { us := 1 }) (Other.dur (mk { s := 1 })).native = mk { us := -999999 } := by decide

/-! ## scaling -/

/-- `Duration * int`, `int * Duration`: the native length is scaled (years and months included) and years and
    months are scaled component-wise -/
theorem mulInt_native (a : Args) (k : Int) :
    (mulInt (mk a) k).native = Td.mulInt (mk a).native k ∧
    (mulInt (mk a) k).years = a.y * k ∧ (mulInt (mk a) k).months = a.mo * k ∧
    compTotal (mulInt (mk a) k) = a.part * k := by
  rw [mulInt_eq]
  refine ⟨?_, rfl, rfl, canon_sum _ _ _⟩
  rw [mk_eq]; simp only [canon, Td.mulInt]
  have e1 : (a.y * 365 + a.mo * 30) * 86400000000 * k = (a.y * k * 365 + a.mo * k * 30) * 86400000000 := by
    rw [Int.mul_right_comm _ 86400000000 k, Int.add_mul (a.y * 365), Int.mul_right_comm a.y 365 k,
      Int.mul_right_comm a.mo 30 k]
  have e : (a.part + (a.y * 365 + a.mo * 30) * 86400000000) * k =
      a.part * k + (a.y * k * 365 + a.mo * k * 30) * 86400000000 := by rw [Int.add_mul, e1]
  rw [e]
example : mulInt (mk { y := 1, mo := -2, d := 3, us := -1 }) (-3) = mk { y := -3, mo := 6, d := -9, us := 3 } := by decide

/-- for a Duration without years/months the shadow slots read by `_to_microseconds` are the native length -/
theorem toUs_native (a : Args) (hy : a.y = 0) (hm : a.mo = 0) : toUs (mk a) = (mk a).native := by
  rw [mk_eq, canon_toUs, hy, hm]; simp only [canon]; omega

/-- the other operand's `_to_microseconds`: native length for a plain timedelta and for a Duration without
    years/months -/
def plainOther : Other → Prop
  | .dur d => ∃ b : Args, d = mk b ∧ b.y = 0 ∧ b.mo = 0
  | .td _ => True

theorem other_us_native (o : Other) (h : plainOther o) : o.us = o.native := by
  cases o with
  | dur d => obtain ⟨b, rfl, hy, hm⟩ := h; exact toUs_native b hy hm
  | td n => rfl

/-- `Duration * float` (float given exactly as `p/q`): timedelta's `divide_nearest(us * p, q)` -/
theorem mulFloat_native (a : Args) (hy : a.y = 0) (hm : a.mo = 0) (p q : Int) :
    (mulFloat (mk a) p q).native = Td.mulFloat (mk a).native p q := by
  rw [mulFloat, ofUs_eq, toUs_native a hy hm]; simp only [canon, Td.mulFloat]; omega
example : (mulFloat (mk { us := 5 }) 1 2).native = 2 ∧ (mulFloat (mk { us := 7 }) 1 2).native = 4 := by decide

/-- `Duration / int`: round-half-even of the native length -/
theorem truedivInt_native (a : Args) (hy : a.y = 0) (hm : a.mo = 0) (k : Int) :
    (truedivInt (mk a) k).native = Td.truedivInt (mk a).native k := by
  have e : truedivInt (mk a) k = mk { us := Td.divNear (toUs (mk a)) k, y := Td.divNear a.y k, mo := Td.divNear a.mo k } := rfl
  rw [e, hy, hm, divNear_zero, toUs_native a hy hm]
  exact congrArg D.native (ofUs_eq _) |>.trans (by simp only [canon, Td.truedivInt]; omega)
example : (truedivInt (mk { us := 5 }) 2).native = 2 ∧ (truedivInt (mk { us := -7 }) 2).native = -4 := by decide

/-- `Duration / float` -/
theorem truedivFloat_native (a : Args) (hy : a.y = 0) (hm : a.mo = 0) (p q : Int) :
    (truedivFloat (mk a) p q).native = Td.truedivFloat (mk a).native p q := by
  have e : truedivFloat (mk a) p q = mk { us := Td.divNear (q * toUs (mk a)) p, y := Td.divNear (a.y * q) p, mo := 0 } := rfl
  rw [e, hy, Int.zero_mul, divNear_zero, toUs_native a hy hm]
  exact congrArg D.native (ofUs_eq _) |>.trans (by simp only [canon, Td.truedivFloat, Int.mul_comm q]; omega)
example : (truedivFloat (mk { us := 5 }) 2 1).native = 2 ∧ (truedivFloat (mk { us := 3 }) 1 2).native = 6 := by decide

/-- `Duration // int`: floor of the native length -/
theorem floordivInt_native (a : Args) (hy : a.y = 0) (hm : a.mo = 0) (k : Int) :
    (floordivInt (mk a) k).native = Td.floordivInt (mk a).native k := by
  have e : floordivInt (mk a) k = mk { us := Int.fdiv (toUs (mk a)) k, y := Int.fdiv a.y k, mo := Int.fdiv a.mo k } := rfl
  rw [e, hy, hm, Int.zero_fdiv, toUs_native a hy hm]
  exact congrArg D.native (ofUs_eq _) |>.trans (by simp only [canon, Td.floordivInt, Td.floordiv]; omega)
example : (floordivInt (mk { us := -7 }) 2).native = -4 := by decide

/-- `// int` and `/ int` act on years and months by floor resp. round-half-even (what the code does; the
    property itself only speaks of negation and integer scaling) -/
theorem divInt_years_months (a : Args) (k : Int) :
    (floordivInt (mk a) k).years = Td.floordiv a.y k ∧ (floordivInt (mk a) k).months = Td.floordiv a.mo k ∧
    (truedivInt (mk a) k).years = Td.divNear a.y k ∧ (truedivInt (mk a) k).months = Td.divNear a.mo k :=
  ⟨rfl, rfl, rfl, rfl⟩

/-! ## division family with a Duration or a plain timedelta as the right operand -/

/-- `Duration // other` is the Python floor quotient of the native lengths (an int) -/
theorem floordivDur_native (a : Args) (hy : a.y = 0) (hm : a.mo = 0) (o : Other) (ho : plainOther o) :
    floordivDur (mk a) o = Td.floordivTd (mk a).native o.native := by
  rw [floordivDur, toUs_native a hy hm, other_us_native o ho]; rfl
example : floordivDur (mk { s := -7 }) (.td 2000000) = -4 := by decide

/-- `Duration % other` is a Duration whose native length is the Python remainder of the native lengths -/
theorem modDur_native (a : Args) (hy : a.y = 0) (hm : a.mo = 0) (o : Other) (ho : plainOther o) :
    (modDur (mk a) o).native = Td.modTd (mk a).native o.native ∧ (modDur (mk a) o).years = 0 ∧
    (modDur (mk a) o).months = 0 := by
  rw [modDur, ofUs_eq, toUs_native a hy hm, other_us_native o ho]
  refine ⟨?_, rfl, rfl⟩
  simp only [canon, Td.modTd, Td.pymod]; omega
example : (modDur (mk { s := -7 }) (.dur (mk { s := 2 }))).native = 1000000 := by decide

/-- `divmod(Duration, other)` is the pair of the two, and they recompose the dividend -/
theorem divmodDur_native (a : Args) (hy : a.y = 0) (hm : a.mo = 0) (o : Other) (ho : plainOther o) :
    (divmodDur (mk a) o).1 = Td.floordivTd (mk a).native o.native ∧
    (divmodDur (mk a) o).2.native = Td.modTd (mk a).native o.native ∧
    o.native * (divmodDur (mk a) o).1 + (divmodDur (mk a) o).2.native = (mk a).native := by
  have h1 := floordivDur_native a hy hm o ho
  have h2 := (modDur_native a hy hm o ho).1
  simp only [floordivDur, modDur] at h1 h2
  simp only [divmodDur]
  refine ⟨h1, h2, ?_⟩
  rw [h1, h2]
  exact Int.mul_fdiv_add_fmod _ _
example : (divmodDur (mk { s := 7 }) (.td (-2000000))).1 = -4 ∧ (divmodDur (mk { s := 7 }) (.td (-2000000))).2 = mk { s := -1 } := by
  decide

/-- `Duration / other` is the correctly rounded quotient of the two native lengths (a float; `trueDiv` is the
    model of CPython's int/int true division) -/
theorem truedivDur_native (a : Args) (hy : a.y = 0) (hm : a.mo = 0) (o : Other) (ho : plainOther o) :
    truedivDur (mk a) o = trueDiv (mk a).native o.native := by
  rw [truedivDur, toUs_native a hy hm, other_us_native o ho]
example : truedivDur (mk { s := 7 }) (.td 2000000) = (7, 2) ∧ truedivDur (mk { us := 1 }) (.td 3) = (6004799503160661, 18014398509481984) := by
  decide

/-! ## result types -/

/-- every binary operator with a Duration on the left returns a Duration — except `//` and `/` by a
    duration (int, float) and `divmod` (int, Duration); negation returns a Duration -/
theorem result_type_left (op : Op) (rk : Kind) (t : Ty) (h : resultTy .duration op rk = some t) (hab : op ≠ .abs) :
    (t = .duration ∧ ¬ (op = .floordiv ∧ (rk = .duration ∨ rk = .timedelta)) ∧
      ¬ (op = .truediv ∧ (rk = .duration ∨ rk = .timedelta)) ∧ op ≠ .divmod) ∨
    (t = .int ∧ op = .floordiv ∧ (rk = .duration ∨ rk = .timedelta)) ∨
    (t = .float ∧ op = .truediv ∧ (rk = .duration ∨ rk = .timedelta)) ∨
    (t = .intDuration ∧ op = .divmod ∧ (rk = .duration ∨ rk = .timedelta)) := by
  cases op <;> cases rk <;> cases t <;> simp_all [resultTy]

/-- every operator of the property is defined for every operand kind it names -/
theorem result_type_total :
    (∀ op, op ∈ [Op.add, .sub, .floordiv, .truediv, .mod, .divmod] → ∀ rk, rk ∈ [Kind.duration, .timedelta] →
      (resultTy .duration op rk).isSome = true) ∧
    (∀ op, op ∈ [Op.mul, .truediv] → ∀ rk, rk ∈ [Kind.int, .float] → (resultTy .duration op rk).isSome = true) ∧
    resultTy .duration .floordiv .int = some .duration ∧ resultTy .duration .neg .none = some .duration := by
  decide

/-- `timedelta + Duration`, `int * Duration`, `float * Duration` return a Duration -/
theorem result_type_reflected :
    resultTy .timedelta .add .duration = some .duration ∧ resultTy .int .mul .duration = some .duration ∧
    resultTy .float .mul .duration = some .duration := ⟨rfl, rfl, rfl⟩

/-! ## comparison and hash -/

/-- `==`, ordering (and hash) read the native slots only, so they agree with timedelta; for Durations without
    years/months they compare the component totals -/
theorem cmp_native (a : Args) (o : Other) :
    (eqNative (mk a) o = true ↔ (mk a).native = o.native) ∧ (ltNative (mk a) o = true ↔ (mk a).native < o.native) ∧
    (a.y = 0 → a.mo = 0 → plainOther o → (eqNative (mk a) o = true ↔ toUs (mk a) = o.us)) := by
  refine ⟨by simp [eqNative], by simp [ltNative], ?_⟩
  intro hy hm ho
  rw [toUs_native a hy hm, other_us_native o ho]; simp [eqNative]
example : eqNative (mk { d := 1, h := -24 }) (.td 0) = true ∧ ltNative (mk { us := -1 }) (.dur (mk {})) = true := by decide

/-! ## outside the float-exact range: the double-precision pipeline departs from the exact model

`Fl.*` (Model/DurFloat.lean) is the same code with its binary64 roundings; the correspondence run shows it
reproduces the implementation everywhere.  These are the Lean counterexamples behind the known findings:
the theorems above are about the exact model, which the code follows only on the float-exact range. -/

/-- F17: `+` through `Duration(seconds=<float>)` is one microsecond off at 2.2·10^9 s (operands ≥ 2^31 s) -/
example : (Fl.addF (Fl.mk { us := 3851138782115989 }).1 (-1617014973372588)).native =
    Td.add 3851138782115989 (-1617014973372588) + 1 := by decide
/-- F17: `* int` through `seconds=self._total * other` -/
example : (Fl.mulIntF (Fl.mk { us := -8489915151491 }) 482).native = Td.mulInt (-8489915151491) 482 + 1 := by decide
/-- F18: `__neg__` reads the shadow slots, which are off by one microsecond at 2^33 s -/
example : (Fl.negF (Fl.mk { s := 8589934592, us := 1 }).1).native = Td.neg 8589934592000001 - 1 := by decide
/-- … while on the float-exact range the two models agree (instances; the general statement is the float-bridge assumption) -/
example : (Fl.addF (Fl.mk { us := 2147483647999999 }).1 (-999999)).native = Td.add 2147483647999999 (-999999) := by decide

/-! ## tie to the source: the generated translation of the arithmetic helpers

`Pendulum.Gen.Duration` is regenerated from /repo/src/pendulum/duration.py (tools/gen_duration.py) on every run. -/

/-- `_divide_and_round(a, b)` as written in the source is `divide_nearest` (round half to even) of the native
    implementation, for every integer pair — including negative and zero divisors -/
theorem divide_and_round_source_eq_model (a b : Int) : Gen.Duration.divide_and_round a b = Td.divNear a b :=
  DurGen.divide_and_round_eq a b
example : Gen.Duration.divide_and_round 5 2 = 2 ∧ Gen.Duration.divide_and_round 7 2 = 4 ∧
    Gen.Duration.divide_and_round (-5) 2 = -2 ∧ Gen.Duration.divide_and_round 5 (-2) = -2 := by decide

/-- the operand lengths used by `+`/`-` (`_native_microseconds`) and by `//`, `/`, `%`, `divmod`
    (`_to_microseconds`), as written in the source: for a Duration they are the model's native value and `toUs`;
    for a plain timedelta both return its exact length -/
theorem operand_lengths_source_eq_model (a : Args) (n : Int) :
    Gen.Duration.native_microseconds (mk a).years (mk a).months (mk a).days (mk a).seconds (mk a).micros
      = (mk a).native ∧
    Gen.Duration.to_microseconds (mk a).days (mk a).seconds (mk a).micros = toUs (mk a) ∧
    Gen.Duration.td_native_microseconds (Td.days n) (Td.seconds n) (Td.micros n) = n ∧
    Gen.Duration.td_to_microseconds (Td.days n) (Td.seconds n) (Td.micros n) = n :=
  ⟨DurGen.native_microseconds_eq a, DurGen.to_microseconds_eq (mk a), DurGen.td_native_microseconds_eq n,
   DurGen.td_to_microseconds_eq n⟩
example : Gen.Duration.td_native_microseconds (-1) 86399 999999 = -1 := by decide

/-! ## Interval operands, either side (`Interval.__add__/__radd__/__sub__/__rsub__/__mul__/__rmul__` delegate through `as_duration()`) -/

theorem ofUs_native (n : Int) : (ofUs n).native = n := by
  rw [ofUs, mk_native]; simp [Args.part, Td.ofArgs]

/-- an `Interval` operand enters every operator as `as_duration()` = `Duration(microseconds = n)` (n its native length),
    on either side: `Interval ± x`, `timedelta + Interval`, `timedelta - Interval`, `Interval * k`, `k * Interval`
    have exactly the native lengths (`Drv/C10.lean` routes `V` operands through `asDuration = ofUs` on both sides) -/
theorem interval_operand_native (n m k : Int) :
    (add (ofUs n) m).native = Td.add n m ∧ (sub (ofUs n) m).native = Td.sub n m ∧
    Td.sub m (ofUs n).native = Td.sub m n ∧ (mulInt (ofUs n) k).native = Td.mulInt n k := by
  have ha := (add_native { us := n } (Other.td m)).1
  have hs := (sub_native { us := n } (Other.td m)).1
  have hm := (mulInt_native { us := n } k).1
  have hn := ofUs_native n
  simp only [ofUs] at hn ⊢
  rw [hn] at ha hs hm
  exact ⟨ha, hs, by rw [hn], hm⟩
example : (add (ofUs 5) 7).native = 12 ∧ (mulInt (ofUs (-5)) 3).native = -15 := by decide

end Pendulum.Props.C10
