import Pendulum.Model.Pickle
import Pendulum.Proofs.Pickle
/-! # C14 — pickle, copy and deepcopy reproduce every pendulum value exactly

Statements are about `Model/Pickle.lean` (what each type hands to the pickle/copy machinery and what its
constructor rebuilds), for the code *after* the `fix:` commits recorded for F6; the `_pinned_` theorems
state what held before them (partial result + counterexample). The pickle protocol encodings and the
`copy` module are not modelled (DESIGN §5); protocols 0..5 × {copy, deepcopy, pickle} are covered by the
correspondence/oracle run. -/
namespace Pendulum.Props.C14
open Pendulum Pendulum.Zone Pendulum.DTOps Pendulum.Pickle

/-! ### tzinfo -/

/-- a `FixedTimezone` always carries a non-empty name (`__init__` fills in `±HH:MM`) -/
theorem mkFixed_wf (o : Int) (n : Str) : (mkFixed o n).wf := mkFixed_wf' o n

/-- every tzinfo survives its reduce/rebuild unchanged (name, offset, class, zone table) -/
theorem tz_roundtrip (t : Tz) : rebuildTz (reduceTz t) = t := tz_roundtrip' t

/-- … in particular a FixedTimezone with a custom name keeps name and offset -/
theorem fixed_roundtrip (o : Int) (n : Str) : rebuildTz (reduceTz (mkFixed o n)) = mkFixed o n :=
  tz_roundtrip' _

/-- the constructor arguments `__getinitargs__` returns are by themselves enough (the restored dict agrees with them) -/
theorem fixed_initargs_suffice (o : Int) (n : Str) (h : (Tz.fixed o n).wf) : mkFixed o n = .fixed o n :=
  fixed_args_suffice o n h

example : (rebuildTz (reduceTz (mkFixed 3600 [102, 111, 111]))).obs = ⟨2, [102, 111, 111], some 3600000000⟩ := by decide
example : (mkFixed (-3907) []).obs = ⟨2, [45, 48, 49, 58, 48, 53], some (-3907000000)⟩ := by decide

/-! ### DateTime -/

/-- the reduce path (pickle with any protocol, `copy.copy`) rebuilds the value itself: fields, tzinfo *and* fold -/
theorem dt_reduce_roundtrip (v : DT) : rebuildDT (reduceDT v) = v := by
  cases v with | mk tz w fold => cases fold <;> rfl

/-- `copy.copy` is the reduce path -/
theorem dt_copy_obs (v : DT) : (copyDT v).obs = v.obs := by
  unfold copyDT; rw [dt_reduce_roundtrip]

/-- pickling proper (the tzinfo travels through its own reduce): everything observable is preserved -/
theorem dt_pickle_obs (v : DT) : (pickleDT v).obs = v.obs := by
  rw [pickleDT_eq v]

theorem dt_deepcopy_obs (v : DT) : (deepcopyDT v).obs = v.obs := rfl

/-- second pass of an overlap (fold = 1 on a repeated wall time): offset and instant are kept -/
theorem dt_pickle_keeps_instant (v : DT) :
    (pickleDT v).instant = v.instant ∧ (pickleDT v).offset = v.offset ∧ (pickleDT v).fold = v.fold := by
  rw [pickleDT_eq v]; exact ⟨rfl, rfl, rfl⟩

/-- a zone with one overlap: offset 7200 until instant 1000, 3600 afterwards; walls 4600..8199 are repeated -/
def zOverlap : Z := ⟨7200, [⟨1000, 3600⟩]⟩
def vSecond : DT := ⟨some (.named [80] zOverlap), 5000, true⟩

example : vSecond.foldMatters = true ∧ vSecond.offset = 3600 ∧ (pickleDT vSecond).offset = 3600 := by decide

/-- the pinned code (no fold in `_getstate`) preserved only values whose fold bit is 0 or irrelevant … -/
theorem dt_reduce_pinned_fold0 (v : DT) (h : v.fold = false) :
    rebuildDT (reduceDT_old v) = v := by
  cases v with | mk tz w fold => simp at h; subst h; rfl

/-- … and changed offset and instant of the second pass of an overlap -/
theorem dt_reduce_pinned_counterexample :
    ¬ ∀ v : DT, (rebuildDT (reduceDT_old v)).obs = v.obs := by
  intro h
  have := h vSecond
  revert this; decide

/-! ### Duration -/

/-- `timedelta`'s own triple is a normal form: rebuilding from (days, seconds, microseconds) gives it back -/
theorem base_roundtrip (t : Int) : Base.ofTotal (Base.total (Base.ofTotal t)) = Base.ofTotal t := by
  rw [base_total_ofTotal]

/-- pickle / copy of a Duration built from any integer arguments: the very same value (base triple and
    every attribute: years, months, weeks, days, seconds, microseconds, total) -/
theorem dur_reduce_roundtrip (days seconds micros millis minutes hours weeks years months : Int) :
    rebuildDur (reduceDur (Dur.new days seconds micros millis minutes hours weeks years months)) =
      Dur.new days seconds micros millis minutes hours weeks years months :=
  dur_reduce_roundtrip' _ _ _ _ _ _ _ _ _

/-- deepcopy rebuilds from (years, months, weeks, remaining_days, hours, minutes, remaining_seconds,
    microseconds): these components add up to the original total, for every sign pattern -/
theorem dur_components_total (t y mo : Int) :
    let s := normState t y mo
    argTotal s.rdays s.rsecs s.micros 0 s.minutes s.hours s.weeks = t := comps_total t y mo

theorem dur_deepcopy_roundtrip (days seconds micros millis minutes hours weeks years months : Int) :
    deepcopyDur (Dur.new days seconds micros millis minutes hours weeks years months) =
      Dur.new days seconds micros millis minutes hours weeks years months := by
  unfold deepcopyDur Dur.new
  simp only [comps_total]
  rfl

theorem dur_obs (days seconds micros millis minutes hours weeks years months : Int) :
    let d := Dur.new days seconds micros millis minutes hours weeks years months
    (rebuildDur (reduceDur d)).obs = d.obs ∧ (deepcopyDur d).obs = d.obs := by
  intro d
  exact ⟨by rw [dur_reduce_roundtrip], by rw [dur_deepcopy_roundtrip]⟩

example : (Dur.new 3 0 0 0 0 0 0 1 2).obs = ⟨1, 2, 0, 3, 0, 0, 0, 0, false, 428, 0, 0⟩ := by decide
example : (deepcopyDur (Dur.new (-3) 0 0 0 0 (-5) (-2) 0 0)).obs = ⟨0, 0, -2, -3, -5, 0, 0, 0, true, -18, 68400, 0⟩ := by decide

/-- pinned code: `timedelta.__reduce__` alone folds years/months into days (`years=1, months=2, days=3` → 61 weeks 1 day) -/
theorem dur_reduce_pinned_counterexample :
    (rebuildDur_old (Dur.new 3 0 0 0 0 0 0 1 2)).obs = ⟨0, 0, 61, 1, 0, 0, 0, 0, false, 428, 0, 0⟩ := by decide

/-- the pinned reduce path is right exactly when there are no years and months -/
theorem dur_reduce_pinned_no_years_months (days seconds micros millis minutes hours weeks : Int) :
    rebuildDur_old (Dur.new days seconds micros millis minutes hours weeks 0 0) =
      Dur.new days seconds micros millis minutes hours weeks 0 0 := by
  have := dur_reduce_roundtrip' days seconds micros millis minutes hours weeks 0 0
  unfold rebuildDur reduceDur at this
  unfold rebuildDur_old
  exact dur_old_noym _ _ _ _ _ _ _

/-- pinned `__deepcopy__` dropped the weeks (`weeks=2, days=3` → 3 days) -/
theorem dur_deepcopy_pinned_counterexample :
    (deepcopyDur_old (Dur.new 3 0 0 0 0 0 2 0 0)).obs ≠ (Dur.new 3 0 0 0 0 0 2 0 0).obs := by decide

/-! ### AbsoluteDuration -/

/-- pickle / copy of an AbsoluteDuration built from any integer arguments: the same value — signed `timedelta` base,
    absolute components and the signed `_total` the `invert` flag is read from -/
theorem absdur_reduce_roundtrip (days seconds micros millis minutes hours weeks years months : Int) :
    rebuildAbs (reduceDur (AbsDur.new days seconds micros millis minutes hours weeks years months)) =
      AbsDur.new days seconds micros millis minutes hours weeks years months :=
  absdur_reduce_roundtrip' _ _ _ _ _ _ _ _ _

/-- `__deepcopy__` (= `copy.copy`) likewise -/
theorem absdur_deepcopy_roundtrip (days seconds micros millis minutes hours weeks years months : Int) :
    deepcopyAbs (AbsDur.new days seconds micros millis minutes hours weeks years months) =
      AbsDur.new days seconds micros millis minutes hours weeks years months :=
  absdur_reduce_roundtrip' _ _ _ _ _ _ _ _ _

theorem absdur_obs (days seconds micros millis minutes hours weeks years months : Int) :
    let d := AbsDur.new days seconds micros millis minutes hours weeks years months
    (rebuildAbs (reduceDur d)).absObs = d.absObs ∧ (deepcopyAbs d).absObs = d.absObs := by
  intro d
  exact ⟨by rw [absdur_reduce_roundtrip], by rw [absdur_deepcopy_roundtrip]⟩

/-- the components of an AbsoluteDuration are absolute values in their canonical ranges … -/
theorem absdur_components_nonneg (t y mo : Int) :
    let s := absState t y mo
    0 ≤ s.years ∧ 0 ≤ s.months ∧ 0 ≤ s.weeks ∧ 0 ≤ s.rdays ∧ s.rdays < 7 ∧ 0 ≤ s.hours ∧ s.hours < 24 ∧
      0 ≤ s.minutes ∧ s.minutes < 60 ∧ 0 ≤ s.rsecs ∧ s.rsecs < 60 ∧ 0 ≤ s.micros ∧ s.micros < 1000000 ∧ 0 ≤ s.days :=
  abs_comps_nonneg t y mo

/-- … that add up to |total|: rebuilding from them (what the inherited `Duration.__deepcopy__` did) cannot recover the sign -/
theorem absdur_components_total (t y mo : Int) :
    let s := absState t y mo
    argTotal s.rdays s.rsecs s.micros 0 s.minutes s.hours s.weeks = Pickle.absI t := abs_comps_total t y mo

/-- the sign lives in the `timedelta` base and in `_total` only, and both agree: `invert` ⇔ the base is negative -/
theorem absdur_invert_sign (days seconds micros millis minutes hours weeks years months : Int) :
    let d := AbsDur.new days seconds micros millis minutes hours weeks years months
    d.base.total = argTotal days seconds micros millis minutes hours weeks ∧
      d.absInvert = decide (argTotal days seconds micros millis minutes hours weeks < 0) ∧ d.absInvert = d.invert := by
  intro d
  have hb : d.base.total = argTotal days seconds micros millis minutes hours weeks := base_total_ofTotal _
  refine ⟨hb, rfl, ?_⟩
  show decide (argTotal days seconds micros millis minutes hours weeks < 0) = decide (d.base.total < 0)
  rw [hb]

example : (AbsDur.new 0 0 (-3600000005) 0 0 0 0 0 0).absObs = ⟨0, 0, 0, 0, 1, 0, 0, 5, true, -1, 82799, 999995⟩ := by decide
example : (deepcopyAbs (AbsDur.new (-3) 0 0 0 0 0 0 (-1) 2)).absObs = ⟨1, 2, 0, 3, 0, 0, 0, 0, true, -3, 0, 0⟩ := by decide
example : (absState (-3600000005) 0 0).hours = 1 ∧ (absState (-3600000005) 0 0).micros = 5 := by decide

/-- before the repair `copy.deepcopy` took the inherited `Duration.__deepcopy__` (class on the absolute components):
    right for non-negative values … -/
theorem absdur_deepcopy_pinned_nonneg (days seconds micros millis minutes hours weeks years months : Int)
    (ht : 0 ≤ argTotal days seconds micros millis minutes hours weeks) (hy : 0 ≤ years) (hm : 0 ≤ months) :
    deepcopyAbs_old (AbsDur.new days seconds micros millis minutes hours weeks years months) =
      AbsDur.new days seconds micros millis minutes hours weeks years months := by
  unfold deepcopyAbs_old AbsDur.new
  simp only [abs_comps_total]
  have h1 : Pickle.absI (argTotal days seconds micros millis minutes hours weeks) =
      argTotal days seconds micros millis minutes hours weeks := by unfold Pickle.absI; split <;> omega
  have h2 : Pickle.absI years = years := by unfold Pickle.absI; split <;> omega
  have h3 : Pickle.absI months = months := by unfold Pickle.absI; split <;> omega
  simp only [absState, h1, h2, h3]

/-- … and wrong for every negative one: −1 h 5 µs came back as +1 h 5 µs (`invert` lost, base triple changed) -/
theorem absdur_deepcopy_pinned_counterexample :
    (deepcopyAbs_old (AbsDur.new 0 0 (-3600000005) 0 0 0 0 0 0)).absObs ≠
      (AbsDur.new 0 0 (-3600000005) 0 0 0 0 0 0).absObs := by decide

/-- `timedelta.__reduce__` alone (pinned) kept the sign but not years/months -/
theorem absdur_reduce_pinned_counterexample :
    (rebuildAbs_old (AbsDur.new (-3) 0 0 0 0 0 0 (-1) 2)).absObs = ⟨0, 0, 0, 3, 0, 0, 0, 0, true, -3, 0, 0⟩ ∧
      (AbsDur.new (-3) 0 0 0 0 0 0 (-1) 2).absObs = ⟨1, 2, 0, 3, 0, 0, 0, 0, true, -3, 0, 0⟩ := by decide

/-! ### Interval -/

/-- `_getstate` undoes the swap of an inverted absolute interval, so the constructor redoes it:
    same endpoints, absolute flag, invert flag and length — whenever the endpoints come back unchanged -/
theorem iv_roundtrip (f : DT → DT) (same : Bool) (s e : DT) (a : Bool) (hs : f s = s) (he : f e = e) :
    rebuildIv f same (reduceIv (mkIv same s e a)) = mkIv same s e a := iv_roundtrip' f same s e a hs he

theorem iv_copy (same : Bool) (s e : DT) (a : Bool) :
    (rebuildIv id same (reduceIv (mkIv same s e a))).obs = (mkIv same s e a).obs := by
  rw [iv_roundtrip id same s e a rfl rfl]

theorem iv_deepcopy (same : Bool) (s e : DT) (a : Bool) :
    (rebuildIv deepcopyDT same (reduceIv (mkIv same s e a))).obs = (mkIv same s e a).obs := by
  rw [iv_roundtrip deepcopyDT same s e a rfl rfl]

/-- pickling: endpoints travel through `DateTime.__reduce_ex__` (fold included) and their tzinfo's reduce -/
theorem iv_pickle (same : Bool) (s e : DT) (a : Bool) :
    (rebuildIv pickleDT same (reduceIv (mkIv same s e a))).obs = (mkIv same s e a).obs := by
  rw [iv_roundtrip pickleDT same s e a (pickleDT_eq s) (pickleDT_eq e)]

def vFirst : DT := ⟨some (.named [80] zOverlap), 5000, false⟩

example : (mkIv true vFirst vSecond false).len = 3600 ∧ (mkIv true vSecond vFirst true).len = -3600 := by decide

/-- pinned code: an interval between the two passes of an overlap came back with length 0 -/
theorem iv_pinned_counterexample :
    (rebuildIv (fun v => rebuildDT (reduceDT_old v)) true (reduceIv (mkIv true vFirst vSecond false))).len = 0
      ∧ (mkIv true vFirst vSecond false).len = 3600 := by decide

/-! ### Time, Date -/

theorem time_pickle_obs (t : TimeV) : (pickleTime t).obs = t.obs := by
  unfold pickleTime reduceTime rebuildTime TimeV.obs
  simp only [TimeObs.mk.injEq, true_and]
  cases htz : t.tz with
  | none => rfl
  | some z => simp only [Option.map]; rw [tz_roundtrip' z]

/-- `copy.deepcopy` of a Time (no `__deepcopy__`: reduce path with a deep-copied tzinfo) -/
theorem time_deepcopy_obs (t : TimeV) : (deepcopyTime t).obs = t.obs := time_pickle_obs t

/-- the tzinfo *object* a Time carries comes back equal in every field, not only in what is observed -/
theorem time_pickle_tz (t : TimeV) : (pickleTime t).tz = t.tz ∧ (pickleTime t).tod = t.tod := by
  unfold pickleTime reduceTime rebuildTime
  cases htz : t.tz with
  | none => exact ⟨rfl, rfl⟩
  | some z => simp only [Option.map]; rw [tz_roundtrip' z]; simp

example : (deepcopyTime ⟨3600000001, some (mkFixed 3600 []), true⟩).obs = ⟨3600000001, ⟨2, [43, 48, 49, 58, 48, 48], some 3600000000⟩⟩ := by decide

theorem time_copy_obs (t : TimeV) : (rebuildTime (reduceTime t)).obs = t.obs := rfl

theorem date_roundtrip (y m d : Int) : rebuildDate (reduceDate y m d) = some (y, m, d) := by
  unfold reduceDate rebuildDate
  simp only [Option.some.injEq, Prod.mk.injEq, and_true]
  omega

example : rebuildDate (reduceDate 2020 2 29) = some (2020, 2, 29) := by decide

end Pendulum.Props.C14
