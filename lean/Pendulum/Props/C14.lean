import Pendulum.Model.Pickle
import Pendulum.Proofs.Pickle
import Pendulum.Proofs.PickleGen
import Pendulum.Proofs.IntervalGenState
/-! # C14 — pickle, copy and deepcopy reproduce every pendulum value exactly

Statements are about `Model/Pickle.lean` (what each type hands to the pickle/copy machinery and what its
constructor rebuilds), for the code *after* the `fix:` commits recorded for F6; the `_pinned_` theorems
state what held before them (partial result + counterexample). The pickle protocol encodings and the
`copy` module are not modelled (DESIGN §5); protocols 0..5 × {copy, deepcopy, pickle} are covered by the
correspondence/oracle run. -/
namespace Pendulum.Props.C14
open Pendulum Pendulum.Zone Pendulum.DTOps Pendulum.Pickle

/-! ### tzinfo -/

/-- a `FixedTimezone` always carries a non-empty name (`__init__` fills in `±HH:MM`) -/
theorem mkFixed_wf (o : Int) (n : Str) : (mkFixed o n).wf := mkFixed_wf' o n

/-- every tzinfo survives its reduce/rebuild unchanged (name, offset, class, zone table) -/
theorem tz_roundtrip (t : Tz) : rebuildTz (reduceTz t) = t := tz_roundtrip' t

/-- … in particular a FixedTimezone with a custom name keeps name and offset -/
theorem fixed_roundtrip (o : Int) (n : Str) : rebuildTz (reduceTz (mkFixed o n)) = mkFixed o n :=
  tz_roundtrip' _

/-- the constructor arguments `__getinitargs__` returns are by themselves enough (the restored dict agrees with them) -/
theorem fixed_initargs_suffice (o : Int) (n : Str) (h : (Tz.fixed o n).wf) : mkFixed o n = .fixed o n :=
  fixed_args_suffice o n h

example : (rebuildTz (reduceTz (mkFixed 3600 [102, 111, 111]))).obs = ⟨2, [102, 111, 111], some 3600000000⟩ := by decide
example : (mkFixed (-3907) []).obs = ⟨2, [45, 48, 49, 58, 48, 53], some (-3907000000)⟩ := by decide

/-! ### DateTime -/

/-- the reduce path (pickle with any protocol, `copy.copy`) rebuilds the value itself: fields, tzinfo *and* fold -/
theorem dt_reduce_roundtrip (v : DT) : rebuildDT (reduceDT v) = v := by
  cases v with | mk tz w fold => cases fold <;> rfl

/-- `copy.copy` is the reduce path -/
theorem dt_copy_obs (v : DT) : (copyDT v).obs = v.obs := by
  unfold copyDT; rw [dt_reduce_roundtrip]

/-- pickling proper (the tzinfo travels through its own reduce): everything observable is preserved -/
theorem dt_pickle_obs (v : DT) : (pickleDT v).obs = v.obs := by
  rw [pickleDT_eq v]

theorem dt_deepcopy_obs (v : DT) : (deepcopyDT v).obs = v.obs := rfl

/-- second pass of an overlap (fold = 1 on a repeated wall time): offset and instant are kept -/
theorem dt_pickle_keeps_instant (v : DT) :
    (pickleDT v).instant = v.instant ∧ (pickleDT v).offset = v.offset ∧ (pickleDT v).fold = v.fold := by
  rw [pickleDT_eq v]; exact ⟨rfl, rfl, rfl⟩

/-- a zone with one overlap: offset 7200 until instant 1000, 3600 afterwards; walls 4600..8199 are repeated -/
def zOverlap : Z := ⟨7200, [⟨1000, 3600⟩]⟩
def vSecond : DT := ⟨some (.named [80] zOverlap), 5000, true⟩

example : vSecond.foldMatters = true ∧ vSecond.offset = 3600 ∧ (pickleDT vSecond).offset = 3600 := by decide

/-- the pinned code (no fold in `_getstate`) preserved only values whose fold bit is 0 or irrelevant … -/
theorem dt_reduce_pinned_fold0 (v : DT) (h : v.fold = false) :
    rebuildDT (reduceDT_old v) = v := by
  cases v with | mk tz w fold => simp at h; subst h; rfl

/-- … and changed offset and instant of the second pass of an overlap -/
theorem dt_reduce_pinned_counterexample :
    ¬ ∀ v : DT, (rebuildDT (reduceDT_old v)).obs = v.obs := by
  intro h
  have := h vSecond
  revert this; decide

/-! ### Duration -/

/-- `timedelta`'s own triple is a normal form: rebuilding from (days, seconds, microseconds) gives it back -/
theorem base_roundtrip (t : Int) : Base.ofTotal (Base.total (Base.ofTotal t)) = Base.ofTotal t := by
  rw [base_total_ofTotal]

/-- pickle / copy of a Duration built from any integer arguments: the very same value (base triple and
    every attribute: years, months, weeks, days, seconds, microseconds, total) -/
theorem dur_reduce_roundtrip (days seconds micros millis minutes hours weeks years months : Int) :
    rebuildDur (reduceDur (Dur.new days seconds micros millis minutes hours weeks years months)) =
      Dur.new days seconds micros millis minutes hours weeks years months :=
  dur_reduce_roundtrip' _ _ _ _ _ _ _ _ _

/-- deepcopy rebuilds from (years, months, weeks, remaining_days, hours, minutes, remaining_seconds,
    microseconds): these components add up to the original total, for every sign pattern -/
theorem dur_components_total (t y mo : Int) :
    let s := normState t y mo
    argTotal s.rdays s.rsecs s.micros 0 s.minutes s.hours s.weeks = t := comps_total t y mo

theorem dur_deepcopy_roundtrip (days seconds micros millis minutes hours weeks years months : Int) :
    deepcopyDur (Dur.new days seconds micros millis minutes hours weeks years months) =
      Dur.new days seconds micros millis minutes hours weeks years months := by
  unfold deepcopyDur Dur.new
  simp only [comps_total]
  rfl

theorem dur_obs (days seconds micros millis minutes hours weeks years months : Int) :
    let d := Dur.new days seconds micros millis minutes hours weeks years months
    (rebuildDur (reduceDur d)).obs = d.obs ∧ (deepcopyDur d).obs = d.obs := by
  intro d
  exact ⟨by rw [dur_reduce_roundtrip], by rw [dur_deepcopy_roundtrip]⟩

example : (Dur.new 3 0 0 0 0 0 0 1 2).obs = ⟨1, 2, 0, 3, 0, 0, 0, 0, false, 428, 0, 0⟩ := by decide
example : (deepcopyDur (Dur.new (-3) 0 0 0 0 (-5) (-2) 0 0)).obs = ⟨0, 0, -2, -3, -5, 0, 0, 0, true, -18, 68400, 0⟩ := by decide

/-- pinned code: `timedelta.__reduce__` alone folds years/months into days (`years=1, months=2, days=3` → 61 weeks 1 day) -/
theorem dur_reduce_pinned_counterexample :
    (rebuildDur_old (Dur.new 3 0 0 0 0 0 0 1 2)).obs = ⟨0, 0, 61, 1, 0, 0, 0, 0, false, 428, 0, 0⟩ := by decide

/-- the pinned reduce path is right exactly when there are no years and months -/
theorem dur_reduce_pinned_no_years_months (days seconds micros millis minutes hours weeks : Int) :
    rebuildDur_old (Dur.new days seconds micros millis minutes hours weeks 0 0) =
      Dur.new days seconds micros millis minutes hours weeks 0 0 := by
  have := dur_reduce_roundtrip' days seconds micros millis minutes hours weeks 0 0
  unfold rebuildDur reduceDur at this
  unfold rebuildDur_old
  exact dur_old_noym _ _ _ _ _ _ _

/-- pinned `__deepcopy__` dropped the weeks (`weeks=2, days=3` → 3 days) -/
theorem dur_deepcopy_pinned_counterexample :
    (deepcopyDur_old (Dur.new 3 0 0 0 0 0 2 0 0)).obs ≠ (Dur.new 3 0 0 0 0 0 2 0 0).obs := by decide

/-! ### AbsoluteDuration -/

/-- pickle / copy of an AbsoluteDuration built from any integer arguments: the same value — signed `timedelta` base,
    absolute components and the signed `_total` the `invert` flag is read from -/
theorem absdur_reduce_roundtrip (days seconds micros millis minutes hours weeks years months : Int) :
    rebuildAbs (reduceDur (AbsDur.new days seconds micros millis minutes hours weeks years months)) =
      AbsDur.new days seconds micros millis minutes hours weeks years months :=
  absdur_reduce_roundtrip' _ _ _ _ _ _ _ _ _

/-- `__deepcopy__` (= `copy.copy`) likewise -/
theorem absdur_deepcopy_roundtrip (days seconds micros millis minutes hours weeks years months : Int) :
    deepcopyAbs (AbsDur.new days seconds micros millis minutes hours weeks years months) =
      AbsDur.new days seconds micros millis minutes hours weeks years months :=
  absdur_reduce_roundtrip' _ _ _ _ _ _ _ _ _

theorem absdur_obs (days seconds micros millis minutes hours weeks years months : Int) :
    let d := AbsDur.new days seconds micros millis minutes hours weeks years months
    (rebuildAbs (reduceDur d)).absObs = d.absObs ∧ (deepcopyAbs d).absObs = d.absObs := by
  intro d
  exact ⟨by rw [absdur_reduce_roundtrip], by rw [absdur_deepcopy_roundtrip]⟩

/-- the components of an AbsoluteDuration are absolute values in their canonical ranges … -/
theorem absdur_components_nonneg (t y mo : Int) :
    let s := absState t y mo
    0 ≤ s.years ∧ 0 ≤ s.months ∧ 0 ≤ s.weeks ∧ 0 ≤ s.rdays ∧ s.rdays < 7 ∧ 0 ≤ s.hours ∧ s.hours < 24 ∧
      0 ≤ s.minutes ∧ s.minutes < 60 ∧ 0 ≤ s.rsecs ∧ s.rsecs < 60 ∧ 0 ≤ s.micros ∧ s.micros < 1000000 ∧ 0 ≤ s.days :=
  abs_comps_nonneg t y mo

/-- … that add up to |total|: rebuilding from them (what the inherited `Duration.__deepcopy__` did) cannot recover the sign -/
theorem absdur_components_total (t y mo : Int) :
    let s := absState t y mo
    argTotal s.rdays s.rsecs s.micros 0 s.minutes s.hours s.weeks = Pickle.absI t := abs_comps_total t y mo

/-- the sign lives in the `timedelta` base and in `_total` only, and both agree: `invert` ⇔ the base is negative -/
theorem absdur_invert_sign (days seconds micros millis minutes hours weeks years months : Int) :
    let d := AbsDur.new days seconds micros millis minutes hours weeks years months
    d.base.total = argTotal days seconds micros millis minutes hours weeks ∧
      d.absInvert = decide (argTotal days seconds micros millis minutes hours weeks < 0) ∧ d.absInvert = d.invert := by
  intro d
  have hb : d.base.total = argTotal days seconds micros millis minutes hours weeks := base_total_ofTotal _
  refine ⟨hb, rfl, ?_⟩
  show decide (argTotal days seconds micros millis minutes hours weeks < 0) = decide (d.base.total < 0)
  rw [hb]

example : (AbsDur.new 0 0 (-3600000005) 0 0 0 0 0 0).absObs = ⟨0, 0, 0, 0, 1, 0, 0, 5, true, -1, 82799, 999995⟩ := by decide
example : (deepcopyAbs (AbsDur.new (-3) 0 0 0 0 0 0 (-1) 2)).absObs = ⟨1, 2, 0, 3, 0, 0, 0, 0, true, -3, 0, 0⟩ := by decide
example : (absState (-3600000005) 0 0).hours = 1 ∧ (absState (-3600000005) 0 0).micros = 5 := by decide

/-- before the repair `copy.deepcopy` took the inherited `Duration.__deepcopy__` (class on the absolute components):
    right for non-negative values … -/
theorem absdur_deepcopy_pinned_nonneg (days seconds micros millis minutes hours weeks years months : Int)
    (ht : 0 ≤ argTotal days seconds micros millis minutes hours weeks) (hy : 0 ≤ years) (hm : 0 ≤ months) :
    deepcopyAbs_old (AbsDur.new days seconds micros millis minutes hours weeks years months) =
      AbsDur.new days seconds micros millis minutes hours weeks years months := by
  unfold deepcopyAbs_old AbsDur.new
  simp only [abs_comps_total]
  have h1 : Pickle.absI (argTotal days seconds micros millis minutes hours weeks) =
      argTotal days seconds micros millis minutes hours weeks := by unfold Pickle.absI; split <;> omega
  have h2 : Pickle.absI years = years := by unfold Pickle.absI; split <;> omega
  have h3 : Pickle.absI months = months := by unfold Pickle.absI; split <;> omega
  simp only [absState, h1, h2, h3]

/-- … and wrong for every negative one: −1 h 5 µs came back as +1 h 5 µs (`invert` lost, base triple changed) -/
theorem absdur_deepcopy_pinned_counterexample :
    (deepcopyAbs_old (AbsDur.new 0 0 (-3600000005) 0 0 0 0 0 0)).absObs ≠
      (AbsDur.new 0 0 (-3600000005) 0 0 0 0 0 0).absObs := by decide

/-- `timedelta.__reduce__` alone (pinned) kept the sign but not years/months -/
theorem absdur_reduce_pinned_counterexample :
    (rebuildAbs_old (AbsDur.new (-3) 0 0 0 0 0 0 (-1) 2)).absObs = ⟨0, 0, 0, 3, 0, 0, 0, 0, true, -3, 0, 0⟩ ∧
      (AbsDur.new (-3) 0 0 0 0 0 0 (-1) 2).absObs = ⟨1, 2, 0, 3, 0, 0, 0, 0, true, -3, 0, 0⟩ := by decide

/-! ### Interval -/

/-- `_getstate` undoes the swap of an inverted absolute interval, so the constructor redoes it:
    same endpoints, absolute flag, invert flag and length — whenever the endpoints come back unchanged -/
theorem iv_roundtrip (f : DT → DT) (same : Bool) (s e : DT) (a : Bool) (hs : f s = s) (he : f e = e) :
    rebuildIv f same (reduceIv (mkIv same s e a)) = mkIv same s e a := iv_roundtrip' f same s e a hs he

theorem iv_copy (same : Bool) (s e : DT) (a : Bool) :
    (rebuildIv id same (reduceIv (mkIv same s e a))).obs = (mkIv same s e a).obs := by
  rw [iv_roundtrip id same s e a rfl rfl]

theorem iv_deepcopy (same : Bool) (s e : DT) (a : Bool) :
    (rebuildIv deepcopyDT same (reduceIv (mkIv same s e a))).obs = (mkIv same s e a).obs := by
  rw [iv_roundtrip deepcopyDT same s e a rfl rfl]

/-- pickling: endpoints travel through `DateTime.__reduce_ex__` (fold included) and their tzinfo's reduce -/
theorem iv_pickle (same : Bool) (s e : DT) (a : Bool) :
    (rebuildIv pickleDT same (reduceIv (mkIv same s e a))).obs = (mkIv same s e a).obs := by
  rw [iv_roundtrip pickleDT same s e a (pickleDT_eq s) (pickleDT_eq e)]

def vFirst : DT := ⟨some (.named [80] zOverlap), 5000, false⟩

example : (mkIv true vFirst vSecond false).len = 3600 ∧ (mkIv true vSecond vFirst true).len = -3600 := by decide

/-- pinned code: an interval between the two passes of an overlap came back with length 0 -/
theorem iv_pinned_counterexample :
    (rebuildIv (fun v => rebuildDT (reduceDT_old v)) true (reduceIv (mkIv true vFirst vSecond false))).len = 0
      ∧ (mkIv true vFirst vSecond false).len = 3600 := by decide

/-! ### Time, Date -/

theorem time_pickle_obs (t : TimeV) : (pickleTime t).obs = t.obs := by
  unfold pickleTime reduceTime rebuildTime TimeV.obs
  simp only [TimeObs.mk.injEq, true_and]
  cases htz : t.tz with
  | none => rfl
  | some z => simp only [Option.map]; rw [tz_roundtrip' z]

/-- `copy.deepcopy` of a Time (no `__deepcopy__`: reduce path with a deep-copied tzinfo) -/
theorem time_deepcopy_obs (t : TimeV) : (deepcopyTime t).obs = t.obs := time_pickle_obs t

/-- the tzinfo *object* a Time carries comes back equal in every field, not only in what is observed -/
theorem time_pickle_tz (t : TimeV) : (pickleTime t).tz = t.tz ∧ (pickleTime t).tod = t.tod := by
  unfold pickleTime reduceTime rebuildTime
  cases htz : t.tz with
  | none => exact ⟨rfl, rfl⟩
  | some z => simp only [Option.map]; rw [tz_roundtrip' z]; simp

example : (deepcopyTime ⟨3600000001, some (mkFixed 3600 []), true⟩).obs = ⟨3600000001, ⟨2, [43, 48, 49, 58, 48, 48], some 3600000000⟩⟩ := by decide

theorem time_copy_obs (t : TimeV) : (rebuildTime (reduceTime t)).obs = t.obs := rfl

theorem date_roundtrip (y m d : Int) : rebuildDate (reduceDate y m d) = some (y, m, d) := by
  unfold reduceDate rebuildDate
  simp only [Option.some.injEq, Prod.mk.injEq, and_true]
  omega

example : rebuildDate (reduceDate 2020 2 29) = some (2020, 2, 29) := by decide

/-! ### the state hooks as written in the source

`Gen/Pickle.lean` is regenerated from `_getstate` / `__reduce__` / `__reduce_ex__` / `__deepcopy__` / `__getinitargs__` and the
rebuild helpers of datetime.py, date.py, time.py, duration.py, interval.py, tz/timezone.py, tz/__init__.py on every run
(tools/gen_pickle.py); the theorems below (proofs in `Proofs/PickleGen.lean`) state that, read through the small interface of
that file, the generated hooks *are* `Model/Pickle.lean`'s `reduce…` / `rebuild…` / `deepcopy…`, for all inputs.  What is not
pendulum source is a hypothesis (`DurOk`, `FixedOk`, `NamedOk`, `DateOk`), each shown satisfiable. -/
section Generated
open Pendulum.PickleGen
open Pendulum.Gen.Pickle (Val DateTimeInst DateInst TimeInst DurationInst IntervalInst FixedTimezoneInst TimezoneInst)

/-- which class defines which pickle/copy hook (and the MRO, the instance slots, the named rebuild helpers): a hook
    that appears, disappears or moves to another class changes one of these tables -/
theorem hooks_source_eq_model :
    (Gen.Pickle.DateTime.hooks = [("__getnewargs__", "DateTime"), ("__reduce__", "DateTime"), ("__reduce_ex__", "DateTime"),
        ("__deepcopy__", "DateTime")] ∧
      Gen.Pickle.DateTime.mro = ["DateTime", "datetime", "Date", "FormattableMixin", "date", "object"]) ∧
    (Gen.Pickle.Date.hooks = [] ∧ Gen.Pickle.Date.mro = ["Date", "FormattableMixin", "date", "object"]) ∧
    (Gen.Pickle.Time.hooks = [("__getnewargs__", "Time"), ("__reduce__", "Time"), ("__reduce_ex__", "Time")] ∧
      Gen.Pickle.Time.mro = ["Time", "FormattableMixin", "time", "object"]) ∧
    Gen.Pickle.Duration.hooks = [("__reduce__", "Duration"), ("__deepcopy__", "Duration")] ∧
    Gen.Pickle.AbsoluteDuration.hooks = [("__reduce__", "Duration"), ("__deepcopy__", "AbsoluteDuration")] ∧
    Gen.Pickle.Interval.hooks = [("__reduce__", "Interval"), ("__reduce_ex__", "Interval"), ("__deepcopy__", "Interval")] ∧
    Gen.Pickle.FixedTimezone.hooks = [("__getinitargs__", "FixedTimezone")] ∧
    (Gen.Pickle.Timezone.hooks = [] ∧
      Gen.Pickle.Timezone.mro = ["Timezone", "ZoneInfo", "tzinfo", "PendulumTimezone", "object"]) ∧
    Gen.Pickle.helpers = ["_rebuild_with_fold"] :=
  ⟨DateTime.hooks_source_eq_model, Date.hooks_source_eq_model, Time.hooks_source_eq_model,
   Duration.hooks_source_eq_model.1, AbsoluteDuration.hooks_source_eq_model.1, Interval.hooks_source_eq_model.1,
   FixedTimezone.hooks_source_eq_model.1, Timezone.hooks_source_eq_model, helpers_source_eq_model⟩

/-- the attributes `__new__` / `__init__` assign (what `__dict__` carries through `Duration.__reduce__` and
    `tzinfo.__reduce__`) -/
theorem slots_source_eq_model :
    Gen.Pickle.Duration.slots = ["_total", "_microseconds", "_seconds", "_days", "_remaining_days", "_weeks", "_months",
      "_years", "_signature"] ∧
    Gen.Pickle.AbsoluteDuration.slots = ["_total", "_microseconds", "_seconds", "_days", "_weeks", "_remaining_days",
      "_months", "_years"] ∧
    Gen.Pickle.Interval.slots = ["_invert", "_absolute", "_start", "_end", "_delta"] ∧
    Gen.Pickle.FixedTimezone.slots = ["_name", "_offset", "_utcoffset"] :=
  ⟨Duration.hooks_source_eq_model.2.2, AbsoluteDuration.hooks_source_eq_model.2.2, Interval.hooks_source_eq_model.2.2,
   FixedTimezone.hooks_source_eq_model.2.2⟩

/-! #### DateTime -/

/-- `DateTime.__reduce_ex__` as written (for every protocol): the class on `_getstate`'s eight values when fold = 0, the
    helper `_rebuild_with_fold` on `(self.__class__, *state)` when fold = 1 — the model's `reduceDT`; `__reduce__` is
    `__reduce_ex__(2)` -/
theorem datetime_reduce_source_eq_model (enc : Enc7) (i : DateTimeInst Tz) (p : Int) :
    absRedDT enc (Gen.Pickle.DateTime.pickle_reduce i p) = some (reduceDT (absDT enc i)) ∧
    Gen.Pickle.DateTime.__reduce__ i = Gen.Pickle.DateTime.pickle_reduce i 2 :=
  DateTime.reduce_source_eq_model enc i p

/-- the call made on unpickling — `cls(*state)` or, through the generated body of `_rebuild_with_fold`,
    `cls(*state, fold=1)` on the instance's own class — is the model's `rebuildDT` (`tr`: how the tzinfo travels) -/
theorem datetime_rebuild_args_source_eq_model (tr : Tz → Tz) (enc : Enc7) (i : DateTimeInst Tz) (p : Int) :
    applyDT tr enc (Gen.Pickle.DateTime.pickle_reduce i p) =
      some (rebuildDT ((reduceDT (absDT enc i)).1, ⟨(reduceDT (absDT enc i)).2.w, (reduceDT (absDT enc i)).2.tz.map tr⟩)) :=
  DateTime.rebuild_args_source_eq_model tr enc i p

/-- `DateTime.__deepcopy__` as written: the class on the seven fields, `tzinfo=` the instance's tzinfo object itself
    (not `.tz`, not a copy), `fold=` its fold — the model's `deepcopyDT`; `copy.copy` is the reduce path -/
theorem datetime_deepcopy_source_eq_model (enc : Enc7) (i : DateTimeInst Tz) :
    copiedDT enc (Gen.Pickle.DateTime.deepcopy i) = some (deepcopyDT (absDT enc i)) ∧
    copiedDT enc (Gen.Pickle.DateTime.copy i) = some (copyDT (absDT enc i)) :=
  DateTime.deepcopy_source_eq_model enc i

/-- headline, over the generated hooks: pickle (any protocol), copy and deepcopy of any DateTime give back a value
    with the same wall clock, offset, instant, fold (where it matters) and tzinfo -/
theorem dt_roundtrip_generated (enc : Enc7) (i : DateTimeInst Tz) (p : Int) :
    (applyDT tzTravel enc (Gen.Pickle.DateTime.pickle_reduce i p)).map DT.obs = some (absDT enc i).obs ∧
    (copiedDT enc (Gen.Pickle.DateTime.copy i)).map DT.obs = some (absDT enc i).obs ∧
    (copiedDT enc (Gen.Pickle.DateTime.deepcopy i)).map DT.obs = some (absDT enc i).obs := by
  refine ⟨?_, ?_, ?_⟩
  · rw [datetime_rebuild_args_source_eq_model]
    exact congrArg some (dt_pickle_obs (absDT enc i))
  · rw [(datetime_deepcopy_source_eq_model enc i).2]; exact congrArg some (dt_copy_obs _)
  · rw [(datetime_deepcopy_source_eq_model enc i).1]; rfl

/-- … for every model value `v`, given any field decoding of the wall clock (e.g. the calendar one) -/
theorem dt_roundtrip_generated_all (enc : Enc7) (dec : Int → Int × Int × Int × Int × Int × Int × Int)
    (h : ∀ w, enc (dec w).1 (dec w).2.1 (dec w).2.2.1 (dec w).2.2.2.1 (dec w).2.2.2.2.1 (dec w).2.2.2.2.2.1 (dec w).2.2.2.2.2.2 = w)
    (v : DT) (p : Int) :
    (applyDT tzTravel enc (Gen.Pickle.DateTime.pickle_reduce (instDT dec v) p)).map DT.obs = some v.obs ∧
    (copiedDT enc (Gen.Pickle.DateTime.copy (instDT dec v))).map DT.obs = some v.obs ∧
    (copiedDT enc (Gen.Pickle.DateTime.deepcopy (instDT dec v))).map DT.obs = some v.obs := by
  have := dt_roundtrip_generated enc (instDT dec v) p
  rwa [absDT_instDT enc dec h v] at this

/-- the hypothesis on the encoding is satisfiable by the calendar encoding of the other models -/
theorem dt_encoding_satisfiable (w : Int) :
    encCivil (decCivil w).1 (decCivil w).2.1 (decCivil w).2.2.1 (decCivil w).2.2.2.1 (decCivil w).2.2.2.2.1
      (decCivil w).2.2.2.2.2.1 (decCivil w).2.2.2.2.2.2 = w := encCivil_decCivil w

def iSecond : DateTimeInst Tz := ⟨2013, 10, 27, 2, 30, 0, 0, true, some (.named [80] zOverlap), none, none, fun _ => ⟨.selfClass, [], []⟩, true⟩
example : (Gen.Pickle.DateTime.pickle_reduce iSecond 4).callable = .named "_rebuild_with_fold" ∧
    ((Gen.Pickle.DateTime.pickle_reduce iSecond 4).args.take 3 = [.selfClass, .int 2013, .int 10]) := ⟨rfl, rfl⟩
example : (Gen.Pickle.DateTime.pickle_reduce { iSecond with fold := false } 0).callable = .selfClass := rfl
example : (Gen.Pickle.callHelper "_rebuild_with_fold" [Val.selfClass, Val.int 1, (Val.none : Val Tz)]).map (·.kwargs) =
    some [("fold", .int 1)] := rfl
example : (applyDT id (fun _ _ _ h mi _ _ => h * 60 + mi) (Gen.Pickle.DateTime.pickle_reduce iSecond 2)).map (·.fold) = some true := rfl

/-! #### Time, Date -/

theorem time_reduce_source_eq_model (enc : Enc4) (i : TimeInst Tz) (p : Int) :
    absRedTime id enc (Gen.Pickle.Time.pickle_reduce i p) = some (reduceTime (absTime enc i)) ∧
    Gen.Pickle.Time.__reduce__ i = Gen.Pickle.Time.pickle_reduce i 2 :=
  Time.reduce_source_eq_model enc i p

theorem time_rebuild_args_source_eq_model (tr : Tz → Tz) (enc : Enc4) (i : TimeInst Tz) (p : Int) :
    applyTime tr enc (Gen.Pickle.Time.pickle_reduce i p) =
      some (rebuildTime ((reduceTime (absTime enc i)).1, (reduceTime (absTime enc i)).2.map tr)) :=
  Time.rebuild_args_source_eq_model tr enc i p

/-- `Time` has neither `__copy__` nor `__deepcopy__`: both are `copy._reconstruct` on `__reduce_ex__(4)` -/
theorem time_deepcopy_source_eq_model (enc : Enc4) (i : TimeInst Tz) :
    copiedTime enc (Gen.Pickle.Time.deepcopy i) = some (deepcopyTime (absTime enc i)) ∧
    copiedTime enc (Gen.Pickle.Time.copy i) = some (rebuildTime (reduceTime (absTime enc i))) :=
  Time.deepcopy_source_eq_model enc i

theorem time_roundtrip_generated (enc : Enc4) (i : TimeInst Tz) (p : Int) :
    (applyTime tzTravel enc (Gen.Pickle.Time.pickle_reduce i p)).map TimeV.obs = some (absTime enc i).obs ∧
    (copiedTime enc (Gen.Pickle.Time.copy i)).map TimeV.obs = some (absTime enc i).obs ∧
    (copiedTime enc (Gen.Pickle.Time.deepcopy i)).map TimeV.obs = some (absTime enc i).obs := by
  refine ⟨?_, ?_, ?_⟩
  · rw [time_rebuild_args_source_eq_model]; exact congrArg some (time_pickle_obs (absTime enc i))
  · rw [(time_deepcopy_source_eq_model enc i).2]; rfl
  · rw [(time_deepcopy_source_eq_model enc i).1]; exact congrArg some (time_deepcopy_obs _)

example : Gen.Pickle.Time._get_state (⟨1, 2, 3, 4, true, (none : Option Tz), fun _ => ⟨.selfClass, [], []⟩, true⟩) 3 =
    [.int 1, .int 2, .int 3, .int 4, .none] := rfl

/-- `Date` defines no hook: `datetime.date.__reduce__` (hypothesis `DateOk`) is what the machinery gets -/
theorem date_reduce_source_eq_model {ρ : Type} (i : DateInst ρ) (p : Int) (ok : DateOk i) :
    absRedDate (Gen.Pickle.Date.pickle_reduce i p) = some (reduceDate i.year i.month i.day) :=
  Date.reduce_source_eq_model i p ok

theorem date_rebuild_args_source_eq_model {ρ : Type} (i : DateInst ρ) (p : Int) (ok : DateOk i) :
    (absRedDate (Gen.Pickle.Date.pickle_reduce i p)).bind rebuildDate = rebuildDate (reduceDate i.year i.month i.day) :=
  Date.rebuild_args_source_eq_model i p ok

theorem date_deepcopy_source_eq_model {ρ : Type} (i : DateInst ρ) (ok : DateOk i) :
    copiedDate (Gen.Pickle.Date.deepcopy i) = rebuildDate (reduceDate i.year i.month i.day) ∧
    copiedDate (Gen.Pickle.Date.copy i) = rebuildDate (reduceDate i.year i.month i.day) :=
  Date.deepcopy_source_eq_model i ok

theorem date_roundtrip_generated (y m d p : Int) :
    (absRedDate (Gen.Pickle.Date.pickle_reduce (instDate y m d) p)).bind rebuildDate = some (y, m, d) ∧
    copiedDate (Gen.Pickle.Date.deepcopy (instDate y m d)) = some (y, m, d) := by
  refine ⟨?_, ?_⟩
  · rw [date_rebuild_args_source_eq_model _ _ (instDate_ok y m d)]; exact date_roundtrip y m d
  · rw [(date_deepcopy_source_eq_model _ (instDate_ok y m d)).1]; exact date_roundtrip y m d

/-! #### Duration, AbsoluteDuration -/

/-- `Duration.__reduce__` as written — `(*timedelta.__reduce__(self), self.__dict__)`: the class, the base triple and the
    *whole* instance dictionary — is the model's `reduceDur` -/
theorem duration_reduce_source_eq_model {ρ : Type} (i : DurationInst ρ) (d : Dur) (p : Int) (ok : DurOk i d) :
    absRedDur (Gen.Pickle.Duration.pickle_reduce i p) = some (reduceDur d) ∧
    (Gen.Pickle.Duration.pickle_reduce i p).rest = [.dict i.dict] :=
  Duration.reduce_source_eq_model i d p ok

theorem duration_rebuild_args_source_eq_model {ρ : Type} (i : DurationInst ρ) (d : Dur) (p : Int) (ok : DurOk i d) :
    (absRedDur (Gen.Pickle.Duration.pickle_reduce i p)).map rebuildDur = some (rebuildDur (reduceDur d)) ∧
    (Gen.Pickle.Duration.pickle_reduce i p).callable = .selfClass ∧
    (Gen.Pickle.Duration.pickle_reduce i p).args = [.int d.base.d, .int d.base.s, .int d.base.us] :=
  Duration.rebuild_args_source_eq_model i d p ok

/-- `Duration.__deepcopy__` as written: the class with `days=remaining_days, seconds=remaining_seconds, microseconds=,
    minutes=, hours=, weeks=, years=, months=` — the model's `deepcopyDur` -/
theorem duration_deepcopy_source_eq_model {ρ : Type} (i : DurationInst ρ) (d : Dur) (ok : DurOk i d) :
    copiedDur Dur.new rebuildDur (Gen.Pickle.Duration.deepcopy i) = some (deepcopyDur d) ∧
    copiedDur Dur.new rebuildDur (Gen.Pickle.Duration.copy i) = some (rebuildDur (reduceDur d)) :=
  Duration.deepcopy_source_eq_model i d ok

theorem absduration_reduce_source_eq_model {ρ : Type} (i : DurationInst ρ) (d : Dur) (p : Int) (ok : DurOk i d) :
    absRedDur (Gen.Pickle.AbsoluteDuration.pickle_reduce i p) = some (reduceDur d) ∧
    (Gen.Pickle.AbsoluteDuration.pickle_reduce i p).rest = [.dict i.dict] :=
  AbsoluteDuration.reduce_source_eq_model i d p ok

theorem absduration_rebuild_args_source_eq_model {ρ : Type} (i : DurationInst ρ) (d : Dur) (p : Int) (ok : DurOk i d) :
    (absRedDur (Gen.Pickle.AbsoluteDuration.pickle_reduce i p)).map rebuildAbs = some (rebuildAbs (reduceDur d)) ∧
    (Gen.Pickle.AbsoluteDuration.pickle_reduce i p).callable = .selfClass ∧
    (Gen.Pickle.AbsoluteDuration.pickle_reduce i p).args = [.int d.base.d, .int d.base.s, .int d.base.us] :=
  AbsoluteDuration.rebuild_args_source_eq_model i d p ok

/-- `AbsoluteDuration.__deepcopy__` as written is `copy.copy(self)`, i.e. the reduce path — the model's `deepcopyAbs` -/
theorem absduration_deepcopy_source_eq_model {ρ : Type} (i : DurationInst ρ) (d : Dur) (ok : DurOk i d) :
    copiedDur AbsDur.new rebuildAbs (Gen.Pickle.AbsoluteDuration.deepcopy i) = some (deepcopyAbs d) ∧
    copiedDur AbsDur.new rebuildAbs (Gen.Pickle.AbsoluteDuration.copy i) = some (rebuildAbs (reduceDur d)) :=
  AbsoluteDuration.deepcopy_source_eq_model i d ok

/-- the hypotheses are satisfiable for every model value -/
theorem duration_hypotheses_satisfiable (d : Dur) : DurOk (instDur d) d := instDur_ok d

/-- headline, over the generated hooks: a Duration built from any integer arguments survives pickle / copy / deepcopy -/
theorem dur_roundtrip_generated (days seconds micros millis minutes hours weeks years months p : Int) :
    let d := Dur.new days seconds micros millis minutes hours weeks years months
    ((absRedDur (Gen.Pickle.Duration.pickle_reduce (instDur d) p)).map rebuildDur).map Dur.obs = some d.obs ∧
    (copiedDur Dur.new rebuildDur (Gen.Pickle.Duration.copy (instDur d))).map Dur.obs = some d.obs ∧
    (copiedDur Dur.new rebuildDur (Gen.Pickle.Duration.deepcopy (instDur d))).map Dur.obs = some d.obs := by
  intro d
  have ok := instDur_ok d
  refine ⟨?_, ?_, ?_⟩
  · rw [(duration_rebuild_args_source_eq_model _ d p ok).1]; exact congrArg (fun x => some (Dur.obs x)) (dur_reduce_roundtrip ..)
  · rw [(duration_deepcopy_source_eq_model _ d ok).2]; exact congrArg (fun x => some (Dur.obs x)) (dur_reduce_roundtrip ..)
  · rw [(duration_deepcopy_source_eq_model _ d ok).1]; exact congrArg (fun x => some (Dur.obs x)) (dur_deepcopy_roundtrip ..)

theorem absdur_roundtrip_generated (days seconds micros millis minutes hours weeks years months p : Int) :
    let d := AbsDur.new days seconds micros millis minutes hours weeks years months
    ((absRedDur (Gen.Pickle.AbsoluteDuration.pickle_reduce (instDur d) p)).map rebuildAbs).map Dur.absObs = some d.absObs ∧
    (copiedDur AbsDur.new rebuildAbs (Gen.Pickle.AbsoluteDuration.copy (instDur d))).map Dur.absObs = some d.absObs ∧
    (copiedDur AbsDur.new rebuildAbs (Gen.Pickle.AbsoluteDuration.deepcopy (instDur d))).map Dur.absObs = some d.absObs := by
  intro d
  have ok := instDur_ok d
  refine ⟨?_, ?_, ?_⟩
  · rw [(absduration_rebuild_args_source_eq_model _ d p ok).1]
    exact congrArg (fun x => some (Dur.absObs x)) (absdur_reduce_roundtrip ..)
  · rw [(absduration_deepcopy_source_eq_model _ d ok).2]
    exact congrArg (fun x => some (Dur.absObs x)) (absdur_reduce_roundtrip ..)
  · rw [(absduration_deepcopy_source_eq_model _ d ok).1]
    exact congrArg (fun x => some (Dur.absObs x)) (absdur_deepcopy_roundtrip ..)

example : (Gen.Pickle.Duration.pickle_reduce (instDur (Dur.new 3 0 0 0 0 0 0 1 2)) 2).args = [.int 428, .int 0, .int 0] := by decide
example : (copiedDur Dur.new rebuildDur (Gen.Pickle.Duration.deepcopy (instDur (Dur.new 3 0 0 0 0 0 2 0 0)))).map (·.st.weeks) = some 2 := by decide

/-! #### Interval -/

/-- `Interval._getstate` as written (swap undone when inverted and absolute) under `__reduce_ex__` — the model's `reduceIv` -/
theorem interval_reduce_source_eq_model (i : IntervalInst DT) (len : Int) (same : Bool) (p : Int) :
    absRedIv (Gen.Pickle.Interval.pickle_reduce i p) = some (reduceIv (ivOf i len same)) ∧
    Gen.Pickle.Interval.__reduce__ i = Gen.Pickle.Interval.pickle_reduce i 2 :=
  Interval.reduce_source_eq_model i len same p

theorem interval_rebuild_args_source_eq_model (f : DT → DT) (i : IntervalInst DT) (len : Int) (same : Bool) (p : Int) :
    applyIv f same (Gen.Pickle.Interval.pickle_reduce i p) = some (rebuildIv f same (reduceIv (ivOf i len same))) :=
  Interval.rebuild_args_source_eq_model f i len same p

/-- `Interval.__deepcopy__` as written: the class on *deep copies* of `_getstate()`'s endpoints and the absolute flag -/
theorem interval_deepcopy_source_eq_model (i : IntervalInst DT) (len : Int) (same : Bool) :
    copiedIv same (Gen.Pickle.Interval.deepcopy i) = some (rebuildIv deepcopyDT same (reduceIv (ivOf i len same))) ∧
    copiedIv same (Gen.Pickle.Interval.copy i) = some (rebuildIv id same (reduceIv (ivOf i len same))) :=
  Interval.deepcopy_source_eq_model i len same

/-- headline, over the generated hooks: an Interval built from any endpoints survives pickle / copy / deepcopy -/
theorem iv_roundtrip_generated (same : Bool) (s e : DT) (a : Bool) (p : Int) :
    let v := mkIv same s e a
    (applyIv pickleDT same (Gen.Pickle.Interval.pickle_reduce (instIv v) p)).map Iv.obs = some v.obs ∧
    (copiedIv same (Gen.Pickle.Interval.copy (instIv v))).map Iv.obs = some v.obs ∧
    (copiedIv same (Gen.Pickle.Interval.deepcopy (instIv v))).map Iv.obs = some v.obs := by
  intro v
  have hv : ivOf (instIv v) v.len same = v := ivOf_instIv v
  refine ⟨?_, ?_, ?_⟩
  · rw [interval_rebuild_args_source_eq_model pickleDT (instIv v) v.len same p, hv]
    exact congrArg some (iv_pickle same s e a)
  · rw [(interval_deepcopy_source_eq_model (instIv v) v.len same).2, hv]
    exact congrArg some (iv_copy same s e a)
  · rw [(interval_deepcopy_source_eq_model (instIv v) v.len same).1, hv]
    exact congrArg some (iv_deepcopy same s e a)

example : (absRedIv (Gen.Pickle.Interval.pickle_reduce (instIv (mkIv true vSecond vFirst true)) 2)).map (fun r => (r.1.fold, r.2.1.fold, r.2.2)) =
    some (true, false, true) := by decide

/-! #### FixedTimezone, Timezone, `fixed_timezone` -/

/-- `FixedTimezone.__getinitargs__` as written, under the inherited `tzinfo.__reduce__` (hypothesis `FixedOk`): the
    model's `reduceTz` — constructor arguments `(_offset, _name)` and the instance dict on top -/
theorem fixedtimezone_reduce_source_eq_model {ρ : Type} (i : FixedTimezoneInst ρ) (p : Int) (ok : FixedOk i) :
    absRedFixed (Gen.Pickle.FixedTimezone.pickle_reduce i p) = some (reduceTz (.fixed i._offset i._name)) :=
  FixedTimezone.reduce_source_eq_model i p ok

theorem fixedtimezone_rebuild_args_source_eq_model {ρ : Type} (i : FixedTimezoneInst ρ) (p : Int) (ok : FixedOk i) :
    (absRedFixed (Gen.Pickle.FixedTimezone.pickle_reduce i p)).map rebuildTz =
      some (rebuildTz (reduceTz (.fixed i._offset i._name))) ∧
    (Gen.Pickle.FixedTimezone.pickle_reduce i p).args = [.int i._offset, .str i._name] :=
  FixedTimezone.rebuild_args_source_eq_model i p ok

theorem fixedtimezone_deepcopy_source_eq_model {ρ : Type} (i : FixedTimezoneInst ρ) (ok : FixedOk i) :
    copiedTz absRedFixed (Gen.Pickle.FixedTimezone.deepcopy i) = some (rebuildTz (reduceTz (.fixed i._offset i._name))) ∧
    copiedTz absRedFixed (Gen.Pickle.FixedTimezone.copy i) = some (rebuildTz (reduceTz (.fixed i._offset i._name))) :=
  FixedTimezone.deepcopy_source_eq_model i ok

/-- `Timezone` defines no hook: `zoneinfo.ZoneInfo.__reduce__` = `(cls._unpickle, (key, from_cache))` (hypothesis `NamedOk`) -/
theorem timezone_reduce_source_eq_model {ρ : Type} (i : TimezoneInst ρ) (z : Z) (p : Int) (ok : NamedOk i) :
    absRedNamed z (Gen.Pickle.Timezone.pickle_reduce i p) = some (reduceTz (.named i.key z)) :=
  Timezone.reduce_source_eq_model i z p ok

theorem timezone_rebuild_args_source_eq_model {ρ : Type} (i : TimezoneInst ρ) (z : Z) (p : Int) (ok : NamedOk i) :
    (absRedNamed z (Gen.Pickle.Timezone.pickle_reduce i p)).map rebuildTz = some (.named i.key z) :=
  Timezone.rebuild_args_source_eq_model i z p ok

theorem timezone_deepcopy_source_eq_model {ρ : Type} (i : TimezoneInst ρ) (z : Z) (ok : NamedOk i) :
    copiedTz (absRedNamed z) (Gen.Pickle.Timezone.deepcopy i) = some (.named i.key z) ∧
    copiedTz (absRedNamed z) (Gen.Pickle.Timezone.copy i) = some (.named i.key z) :=
  Timezone.deepcopy_source_eq_model i z ok

theorem tz_hypotheses_satisfiable (o : Int) (n : Pickle.Str) : FixedOk (instFixed o n) ∧ NamedOk (instNamed n) :=
  ⟨instFixed_ok o n, instNamed_ok n⟩

/-- headline, over the generated hooks: a FixedTimezone (any offset, any name) comes back unchanged from pickle / copy /
    deepcopy -/
theorem fixedtimezone_roundtrip_generated (o : Int) (n : Pickle.Str) (p : Int) :
    (absRedFixed (Gen.Pickle.FixedTimezone.pickle_reduce (instFixed o n) p)).map rebuildTz = some (.fixed o n) ∧
    copiedTz absRedFixed (Gen.Pickle.FixedTimezone.deepcopy (instFixed o n)) = some (.fixed o n) ∧
    copiedTz absRedFixed (Gen.Pickle.FixedTimezone.copy (instFixed o n)) = some (.fixed o n) := by
  have ok := instFixed_ok o n
  refine ⟨?_, ?_, ?_⟩
  · rw [(fixedtimezone_rebuild_args_source_eq_model _ p ok).1]; exact congrArg some (tz_roundtrip _)
  · rw [(fixedtimezone_deepcopy_source_eq_model _ ok).1]; exact congrArg some (tz_roundtrip _)
  · rw [(fixedtimezone_deepcopy_source_eq_model _ ok).2]; exact congrArg some (tz_roundtrip _)

example : (Gen.Pickle.FixedTimezone.pickle_reduce (instFixed 3600 [102, 111, 111]) 2).args = [.int 3600, .str [102, 111, 111]] := rfl

/-- `fixed_timezone` as written: the cached object when `_tz_cache` has one, else a fresh `FixedTimezone(offset)` that is
    stored — so asking twice gives the same object (what `Interval` relies on for `start.tzinfo is end.tzinfo`) -/
theorem fixed_timezone_source_eq_model {ρ : Type} (new : List (Val ρ) → ρ) (cache : List (Int × ρ)) (o : Int) :
    Gen.Pickle.fixed_timezone new cache o = internSpec (fun o => new [.int o]) cache o ∧
    Gen.Pickle.fixed_timezone new (Gen.Pickle.fixed_timezone new cache o).2 o = Gen.Pickle.fixed_timezone new cache o := by
  refine ⟨PickleGen.fixed_timezone_source_eq_model new cache o, ?_⟩
  rw [PickleGen.fixed_timezone_source_eq_model, PickleGen.fixed_timezone_source_eq_model]
  exact internSpec_interns _ cache o

example : (Gen.Pickle.fixed_timezone (fun a => a.length) [] 3600).2 = [(3600, 1)] := rfl
example : (Gen.Pickle.fixed_timezone (fun a => a.length) [(3600, 7)] 3600) = (some 7, [(3600, 7)]) := rfl

/-- object-level code outside the translated subset, recorded verbatim: any edit changes a generated string -/
theorem tz_constructors_pinned :
    (Gen.Pickle.FixedTimezone_init_source = expectedFixedInit ∧ Gen.Pickle.FixedTimezone_repr_source = expectedFixedRepr) ∧
    (Gen.Pickle.Timezone_new_source = expectedNamedNew ∧ Gen.Pickle.Timezone_repr_source = expectedNamedRepr) :=
  ⟨FixedTimezone.init_repr_pinned, Timezone.new_repr_pinned⟩

end Generated
/-! ### The model is the code: the Interval state (`src/pendulum/interval.py`, tools/gen_interval.py → `Pendulum.Gen.Interval`)

`_getstate`, `__reduce_ex__`, `__reduce__`, `__deepcopy__`, `__hash__`, `__eq__` are regenerated from the source on every run, over an
abstract type of endpoints; these theorems tie them to `reduceIv` / `rebuildIv`. -/
section Regenerated
open Pendulum.IntervalGen
open Pendulum.Gen.Interval (Ops Self EqRes)

/-- `_getstate` / `__reduce_ex__` / `__reduce__` as written in the source hand the model's `reduceIv` (the endpoints swapped back
    when the interval was built inverted and absolute) to `self.__class__`; `__deepcopy__` calls the class on the deep copies of
    that state — the arguments of the model's `rebuildIv` -/
theorem getstate_source_eq_model (self : Self DT) (iv : Iv) (ops : Ops DT) (protocol : Int)
    (h1 : self.start = iv.start) (h2 : self.end_ = iv.stop) (h3 : self.absolute = iv.absolute) (h4 : self.invert = iv.invert) :
    Gen.Interval.getstate self protocol = reduceIv iv ∧
    Gen.Interval.reduce_ex self protocol = reduceIv iv ∧
    Gen.Interval.reduce self = reduceIv iv ∧
    Gen.Interval.deepcopy ops self = (ops.deepcopy (reduceIv iv).1, ops.deepcopy (reduceIv iv).2.1, (reduceIv iv).2.2) ∧
    (∀ same, rebuildIv ops.deepcopy same (reduceIv iv) =
      mkIv same (Gen.Interval.deepcopy ops self).1 (Gen.Interval.deepcopy ops self).2.1 (Gen.Interval.deepcopy ops self).2.2) := by
  obtain ⟨g1, g2, g3, g4⟩ := getstate_eq self iv ops protocol h1 h2 h3 h4
  refine ⟨g1, g2, g3, g4, fun same => ?_⟩
  rw [g4]; rfl

/-- `__hash__` and `__eq__` as written in the source use the same tuple `(start, end, absolute)`; against a non-Interval `__eq__`
    compares `as_duration()` = `Duration(seconds=self.total_seconds())`; every arithmetic operator returns what the same operator
    of `as_duration()` returns -/
theorem hash_eq_source_eq_model {α : Type} (self other : Self α) :
    Gen.Interval.hash_key self = (self.start, self.end_, self.absolute) ∧
    (∃ l r, Gen.Interval.op_eq self (some other) = EqRes.tuples l r ∧ l = Gen.Interval.hash_key self ∧ r = Gen.Interval.hash_key other) ∧
    (∃ d, Gen.Interval.op_eq self none = EqRes.duration_eq d ∧ d = self.total_seconds) ∧
    Gen.Interval.as_duration self = self.total_seconds ∧
    Gen.Interval.delegates = [("__add__", "__add__"), ("__sub__", "__sub__"), ("__mul__", "__mul__"),
      ("__floordiv__", "__floordiv__"), ("__truediv__", "__truediv__"), ("__mod__", "__mod__"), ("__divmod__", "__divmod__")] ∧
    Gen.Interval.aliases = [("__radd__", "__add__"), ("__rmul__", "__mul__"), ("__div__", "__floordiv__")] :=
  hash_eq_arith_eq self other

/-! non-vacuity: the state of an inverted absolute interval is handed over in the original argument order -/
example : Gen.Interval.getstate (⟨1, 2, true, true, ⟨0, 0, 0, 0, 0, 0, 0, 0⟩, 0, 0⟩ : Self Nat) 3 = (2, 1, true) ∧
    Gen.Interval.getstate (⟨1, 2, false, true, ⟨0, 0, 0, 0, 0, 0, 0, 0⟩, 0, 0⟩ : Self Nat) 3 = (1, 2, false) ∧
    Gen.Interval.deepcopy ⟨fun a b => decide (a ≤ b), fun a b => decide (a ≥ b), fun _ x _ _ => .ok x, fun x => x + 10⟩
      (⟨1, 2, true, true, ⟨0, 0, 0, 0, 0, 0, 0, 0⟩, 0, 0⟩ : Self Nat) = (12, 11, true) := by decide

end Regenerated

end Pendulum.Props.C14
