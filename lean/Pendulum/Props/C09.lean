import Pendulum.Proofs.Dur
import Pendulum.Proofs.DurGen
import Pendulum.Model.DurFloat
/-! # C09 — Duration normalisation is consistent with timedelta and with itself

Property theorems only, about the exact-microsecond model `Pendulum.Dur` (Model/Dur.lean) of
`Duration.__new__`, the component properties, `in_*()` and `AbsoluteDuration.__new__`
(/repo/src/pendulum/duration.py).  Every theorem quantifies over all integer argument tuples, any sign, no
size bound.  The float pipeline of the code is tied to this model by the correspondence run on the
float-exact range (harness/props/c09.py, ASSUMPTIONS). -/
namespace Pendulum.Props.C09
open Pendulum Pendulum.Dur

/-- as a timedelta, the Duration is the native timedelta of the same arguments with a year counted as 365 days
    and a month as 30 days; i.e. the part without years/months plus `(365 y + 30 mo)` days -/
theorem dur_as_timedelta (a : Args) :
    (mk a).native = Td.ofArgs (a.d + a.y * 365 + a.mo * 30) a.s a.us a.ms a.mi a.h a.w ∧
    (mk a).native = a.part + (a.y * 365 + a.mo * 30) * 86400000000 := by
  refine ⟨?_, mk_native a⟩
  simp only [mk, Td.ofArgs]; omega
example : (mk { y := 1, mo := -2, d := 3, us := -1 }).native = 308 * 86400000000 - 1 := by decide

/-- the native slots `(days, seconds, microseconds)` are timedelta's canonical decomposition of that length -/
theorem td_slots_canonical (n : Int) :
    0 ≤ Td.seconds n ∧ Td.seconds n < 86400 ∧ 0 ≤ Td.micros n ∧ Td.micros n < 1000000 ∧
    (Td.days n * 86400 + Td.seconds n) * 1000000 + Td.micros n = n := by
  simp only [Td.seconds, Td.micros, Td.days]; omega
example : (Td.days (-1), Td.seconds (-1), Td.micros (-1)) = (-1, 86399, 999999) := by decide

/-- years and months are reported as given -/
theorem dur_years_months_kept (a : Args) : (mk a).years = a.y ∧ (mk a).months = a.mo := ⟨rfl, rfl⟩

/-- `_total` is the part that excludes years and months -/
theorem dur_total (a : Args) : (mk a).total = a.part := mk_total a

/-- weeks, remaining_days, hours, minutes, remaining_seconds, microseconds all carry the sign of the part
    that excludes years and months -/
theorem dur_sign (a : Args) :
    let d := mk a
    let s := sgn a.part
    0 ≤ d.weeks * s ∧ 0 ≤ d.rdays * s ∧ 0 ≤ hours d * s ∧ 0 ≤ minutes d * s ∧
    0 ≤ remainingSeconds d * s ∧ 0 ≤ d.micros * s := by
  have h := canon_ranges a.y a.mo a.part
  simp only [mk_eq] at h ⊢
  omega
example : let d := mk { d := 1, h := -24, us := -1 }; (d.weeks, d.rdays, hours d, minutes d, remainingSeconds d, d.micros)
    = (0, 0, 0, 0, 0, -1) := by decide

/-- canonical ranges: < 7 days, < 24 h, < 60 min, < 60 s, < 10^6 µs (in absolute value, given the common sign) -/
theorem dur_ranges (a : Args) :
    let d := mk a
    let s := sgn a.part
    d.rdays * s < 7 ∧ hours d * s < 24 ∧ minutes d * s < 60 ∧ remainingSeconds d * s < 60 ∧
    d.micros * s < 1000000 := by
  have h := canon_ranges a.y a.mo a.part
  simp only [mk_eq] at h ⊢
  omega
example : let d := mk { s := -90061, us := -1000001 }; (d.rdays, hours d, minutes d, remainingSeconds d, d.micros)
    = (-1, -1, -1, -2, -1) := by decide

/-- the components sum exactly to the part that excludes years and months -/
theorem dur_sum (a : Args) : compTotal (mk a) = a.part := by
  rw [mk_eq]; exact canon_sum _ _ _
example : compTotal (mk { w := 1, d := -8, h := 25, mi := -61, s := 3, ms := -1, us := 7 }) =
    ({ w := 1, d := -8, h := 25, mi := -61, s := 3, ms := -1, us := 7 } : Args).part := by decide

/-- so do the shadow slots `_days, _seconds, _microseconds` that `_to_microseconds` reads -/
theorem dur_slots (a : Args) : toUs (mk a) = a.part := by
  rw [mk_eq]; exact canon_toUs _ _ _

/-- `_days` is `weeks * 7 + remaining_days` -/
theorem dur_days_split (a : Args) : (mk a).days = (mk a).weeks * 7 + (mk a).rdays := by
  rw [mk_eq]
  simp only [canon, shadow, sgn, absI]
  by_cases h : a.part < 0
  · simp only [h, if_true]; (repeat' split) <;> omega
  · simp only [h, if_false]; (repeat' split) <;> omega

/-- a Duration whose part without years/months is zero has all six components zero (sign-cancelling arguments) -/
theorem dur_cancel (a : Args) (h : a.part = 0) :
    let d := mk a
    d.weeks = 0 ∧ d.rdays = 0 ∧ hours d = 0 ∧ minutes d = 0 ∧ remainingSeconds d = 0 ∧ d.micros = 0 := by
  simp [mk_eq, h, canon, shadow, hours, minutes, remainingSeconds, sgn, absI]
example : ({ d := 1, h := -23, mi := -59, s := -60 } : Args).part = 0 := by decide

/-- rebuilding a Duration from its own components reproduces it (native value and every shadow field) -/
theorem dur_rebuild (a : Args) : mk (comps (mk a)) = mk a := by
  have hp : (comps (mk a)).part = a.part := by
    have h := dur_sum a
    simp only [compTotal, Args.part, Td.ofArgs] at h
    simp only [comps, Args.part, Td.ofArgs]
    omega
  rw [mk_eq (comps (mk a)), hp, mk_eq a]
  rfl
example : mk (comps (mk { y := -1, mo := 14, d := -40, s := 5, us := -3 })) = mk { y := -1, mo := 14, d := -40, s := 5, us := -3 } := by
  decide

/-- `invert` is the sign of the native length; without years/months it is the sign of the components -/
theorem dur_invert (a : Args) :
    (invert (mk a) = true ↔ (mk a).native < 0) ∧
    (a.y = 0 → a.mo = 0 → (invert (mk a) = true ↔ a.part < 0)) := by
  refine ⟨by simp [invert], ?_⟩
  intro hy hm
  have h := mk_native a
  simp only [invert, decide_eq_true_eq, h, hy, hm]
  omega
example : invert (mk { y := 1, d := -400 }) = true ∧ invert (mk { y := 1, d := -300 }) = false := by decide

/-- `in_seconds()` truncates the native length toward zero … -/
theorem dur_in_seconds_trunc (a : Args) :
    let n := (mk a).native
    let q := inSeconds (mk a)
    (0 ≤ n → q * 1000000 ≤ n ∧ n < (q + 1) * 1000000) ∧ (n ≤ 0 → (q - 1) * 1000000 < n ∧ n ≤ q * 1000000) := by
  simp only [inSeconds]
  generalize (mk a).native = n
  constructor
  · intro h; rw [tdiv_lit_nonneg h]; omega
  · intro h; rw [tdiv_lit_neg, tdiv_lit_nonneg (by omega)]; omega
example : inSeconds (mk { us := -1999999 }) = -1 ∧ inSeconds (mk { us := 1999999 }) = 1 := by decide

/-- … and `in_minutes/in_hours/in_days/in_weeks` are the successive truncations of it (all of them are
    `int(total_seconds() / unit)`) -/
theorem dur_totals (a : Args) :
    let d := mk a
    inMinutes d = Int.tdiv (inSeconds d) 60 ∧ inHours d = Int.tdiv (inMinutes d) 60 ∧
    inDays d = Int.tdiv (inHours d) 24 ∧ inWeeks d = Int.tdiv (inDays d) 7 := by
  simp only [inSeconds, inMinutes, inHours, inDays, inWeeks]
  generalize (mk a).native = n
  by_cases h : 0 ≤ n
  · simp only [tdiv_lit_nonneg h]
    have h1 : 0 ≤ n / 1000000 := by omega
    have h2 : 0 ≤ n / 60000000 := by omega
    have h3 : 0 ≤ n / 3600000000 := by omega
    have h4 : 0 ≤ n / 86400000000 := by omega
    rw [tdiv_lit_nonneg h1, tdiv_lit_nonneg h2, tdiv_lit_nonneg h3, tdiv_lit_nonneg h4]
    omega
  · have hn : 0 ≤ -n := by omega
    rw [tdiv_lit_neg n 1000000, tdiv_lit_neg n 60000000, tdiv_lit_neg n 3600000000, tdiv_lit_neg n 86400000000,
      tdiv_lit_neg n 604800000000]
    simp only [tdiv_lit_nonneg hn]
    have h1 : 0 ≤ -n / 1000000 := by omega
    have h2 : 0 ≤ -n / 60000000 := by omega
    have h3 : 0 ≤ -n / 3600000000 := by omega
    have h4 : 0 ≤ -n / 86400000000 := by omega
    rw [tdiv_lit_neg (-(-n / 1000000)), tdiv_lit_neg (-(-n / 60000000)), tdiv_lit_neg (-(-n / 3600000000)),
      tdiv_lit_neg (-(-n / 86400000000))]
    simp only [Int.neg_neg]
    rw [tdiv_lit_nonneg h1, tdiv_lit_nonneg h2, tdiv_lit_nonneg h3, tdiv_lit_nonneg h4]
    omega
example : let d := mk { d := -15, s := 1 }; (inWeeks d, inDays d, inHours d, inMinutes d) = (-2, -14, -359, -21599) := by
  decide

/-! ## AbsoluteDuration -/

/-- the native slots of an AbsoluteDuration are the (signed) timedelta of the arguments without years/months;
    years and months are reported in absolute value -/
theorem absdur_native (a : Args) :
    (mkAbs a).native = a.part ∧ (mkAbs a).years = absI a.y ∧ (mkAbs a).months = absI a.mo := ⟨rfl, rfl, rfl⟩

/-- its components are non-negative, in canonical ranges … -/
theorem absdur_ranges (a : Args) :
    let d := (mkAbs a).asD
    0 ≤ d.weeks ∧ 0 ≤ d.rdays ∧ d.rdays < 7 ∧ 0 ≤ hours d ∧ hours d < 24 ∧ 0 ≤ minutes d ∧ minutes d < 60 ∧
    0 ≤ remainingSeconds d ∧ remainingSeconds d < 60 ∧ 0 ≤ d.micros ∧ d.micros < 1000000 := by
  simp only [mkAbs, AD.asD, hours, minutes, remainingSeconds, sgn, absI]
  by_cases h : a.part < 0
  · simp only [h, if_true]; (repeat' split) <;> omega
  · simp only [h, if_false]; (repeat' split) <;> omega

/-- … and sum exactly to the absolute value of the part without years/months -/
theorem absdur_sum (a : Args) : compTotal (mkAbs a).asD = absI a.part := by
  simp only [compTotal, mkAbs, AD.asD, hours, minutes, remainingSeconds, sgn, absI]
  by_cases h : a.part < 0
  · simp only [h, if_true]; (repeat' split) <;> omega
  · simp only [h, if_false]; (repeat' split) <;> omega
example : compTotal (mkAbs { d := -1177, s := -7284, us := -1000001 }).asD = 101700085000001 := by decide

/-- `invert` remembers the sign that was dropped; `total_seconds()` is the absolute length -/
theorem absdur_invert (a : Args) :
    ((mkAbs a).invert = true ↔ a.part < 0) ∧ (mkAbs a).asD.native = absI a.part ∧ 0 ≤ (mkAbs a).asD.native := by
  refine ⟨by simp only [AD.invert, mkAbs]; exact decide_eq_true_iff, rfl, ?_⟩
  simp only [AD.asD, mkAbs, absI]
  by_cases h : a.part < 0
  · simp only [h, if_true]; omega
  · simp only [h, if_false]; omega
example : (mkAbs { us := -1 }).invert = true ∧ (mkAbs { us := 1 }).invert = false := by decide

/-! ## the float bridge

`Fl.mk` (Model/DurFloat.lean) is `Duration.__new__` with its binary64 roundings (the correspondence run shows it
reproduces the implementation on every generated input, including totals up to 10^9 days).  On the float-exact
range it coincides with the exact model `mk` the theorems are about (assumption, validated by the run); at
2^33 s it does not: -/
example : (Fl.mk { s := 8589934591, us := 999999 }).1.micros = (mk { s := 8589934591, us := 999999 }).micros := by decide
example : (Fl.mk { s := 8589934592, us := 1 }).1.micros = 2 ∧ (mk { s := 8589934592, us := 1 }).micros = 1 := by decide
example : (Fl.mk { y := -201, mo := 383, us := 7652420990549359 }).1.micros = 549358 := by decide

/-! ## tie to the source: the generated translation of `Duration.__new__` and of the component properties

`Pendulum.Gen.Duration` is regenerated from /repo/src/pendulum/duration.py by tools/gen_duration.py on every run
(since the exactness fix `__new__` normalises with integer arithmetic on the native slots, so it translates
statement by statement).  These theorems re-check, against what the code says now, that the model `mk` the
theorems above are about *is* the code: a change to the normalisation either keeps them provable or breaks the build. -/

/-- the positional arguments `__new__` hands to `timedelta.__new__` denote the model's native value, and the slot
    assignments that follow, run on that value's native slots, produce exactly the model's fields -/
theorem new_source_eq_model (a : Args) :
    (let (d, s, us, ms, mi, h, w) := Gen.Duration.new_native_args a.d a.s a.us a.ms a.mi a.h a.w a.y a.mo
     Td.ofArgs d s us ms mi h w) = (mk a).native ∧
    Gen.Duration.new_slots (Td.days (mk a).native) (Td.seconds (mk a).native) (Td.micros (mk a).native)
      a.d a.s a.us a.ms a.mi a.h a.w a.y a.mo
    = ((mk a).total, (mk a).years, (mk a).months, (mk a).weeks, (mk a).days, (mk a).rdays, (mk a).seconds,
       (mk a).micros) :=
  ⟨DurGen.new_native_eq a, DurGen.new_slots_eq a⟩
example : Gen.Duration.new_slots (-1) 86399 999999 0 0 (-1) 0 0 0 0 0 0 = ((-1 : Int), (0 : Int), (0 : Int), (0 : Int), (0 : Int), (0 : Int), (0 : Int), (-1 : Int)) := by rfl

/-- the cached component properties `hours`, `minutes`, `remaining_seconds` as written in the source are the
    model's, for every `_seconds` value -/
theorem accessors_source_eq_model (d : D) :
    Gen.Duration.hours d.seconds = hours d ∧ Gen.Duration.minutes d.seconds = minutes d ∧
    Gen.Duration.remaining_seconds d.seconds = remainingSeconds d :=
  ⟨DurGen.hours_eq d, DurGen.minutes_eq d, DurGen.remaining_seconds_eq d⟩
example : Gen.Duration.hours (-86399) = -23 ∧ Gen.Duration.minutes (-86399) = -59 ∧
    Gen.Duration.remaining_seconds (-86399) = -59 := by decide

end Pendulum.Props.C09
