import Pendulum.Proofs.ParseAllDur
import Pendulum.Props.C07
import Pendulum.Props.C13
/-! # C17 — parse() is total: a supported value or a ValueError/ParserError, nothing else

Property theorems only. `ParseAll.parseAll b o du cs` (`Model/ParseAll.lean`) is the model of `pendulum.parse(text, **options)`
for the parser backend `b` (`rust` = compiled, `py` = pure Python), built on the parser models of C07 (`Model/Iso.lean`) and
C13 (`Model/IsoDur.lean`, `Model/IsoInterval.lean`). Errors are Python exception *kinds*: `parserError`, `valueError`
(both `ValueError`s) and `other "<Name>"` for anything else; every operation of the code that can raise a non-`ValueError`
is a branch of the model that returns `other …`. `du : Dateutil` is `dateutil.parser.parse`, an arbitrary function.
The theorems are about the *repaired* code (fix commits of the C17 report: minute group of `COMMON` mandatory, interval halves
type-checked, interval assembly and dateutil errors reported as `ParserError`, …). -/
set_option linter.unusedSimpArgs false
namespace Pendulum.Props.C17
open Pendulum Pendulum.Iso Pendulum.ParseAll

/-- the result is a value of one of the five types (`Out`: DateTime, Date, Time, Duration, Interval) or a `ValueError` kind -/
def Total (r : Except Kind Out) : Prop := ∀ k, r = .error k → k = .parserError ∨ k = .valueError

/-- **parse_total.** For every string, every option combination (`exact`, `strict`, `day_first`, `year_first`, `tz` absent,
    a fixed offset or `None` (`TzOpt`), any `now`), both backends, and every dateutil that fails only with `ValueError`s or `ArithmeticError`s
    (`DuOk`: OverflowError and decimal.InvalidOperation were observed, the repaired code catches the whole class):
    `parse()` returns a DateTime, Date, Time, Duration or Interval, or raises a `ValueError` (`ParserError` included) —
    never `TypeError`, `AttributeError`, `OverflowError`, … -/
theorem parse_total (b : Backend) (o : Options) (du : Dateutil) (hdu : DuOk du) (cs : List Char) :
    Total (parseAll b o du cs) :=
  parseAll_VE durOk b o du hdu cs

/-- the same statement for the compiled backend alone (proved directly on the recursive-descent model of `parsing.rs`) … -/
theorem parse_total_compiled (o : Options) (du : Dateutil) (hdu : DuOk du) (cs : List Char) :
    Total (parseAll .rust o du cs) := parse_total .rust o du hdu cs

/-- … and for the pure-Python backend (proved on the deterministic recogniser model of the regular expressions; the one shape
    fact about named groups the post-processing code relies on is `common_minute_present` below) -/
theorem parse_total_python (o : Options) (du : Dateutil) (hdu : DuOk du) (cs : List Char) :
    Total (parseAll .py o du cs) := parse_total .py o du hdu cs

/-- with `strict=True` nothing at all is assumed about dateutil -/
theorem parse_total_strict (b : Backend) (o : Options) (hs : o.strict = true) (du : Dateutil) (cs : List Char) :
    Total (parseAll b o du cs) := by
  have h := parseAll_strict durOk b o hs du (fun _ _ _ => .error .parserError) cs
  unfold parseAll
  rw [h]
  exact parseAll_VE durOk b o _ (by intro _ _ _ k hk; cases hk; exact Or.inl rfl) cs

/-- `parse_iso8601` of either backend (date/time strings and durations) fails only with `ValueError` kinds -/
theorem parse_iso8601_total (b : Backend) (cs : List Char) (k : Kind) (h : isoAny durOk b cs = .error k) :
    k = .parserError ∨ k = .valueError := isoAny_VE durOk b cs k h

/-- shape fact of the repaired `COMMON` expression: when the time part matches, the `minute` group is present … -/
theorem common_minute_present (cs : List Char) (h : Nat) (mi s : Option Nat) (fr : Option (List Nat))
    (hm : cmTimeMatch cs = some (h, mi, s, fr)) : mi.isSome = true := cmTimeMatch_minute cs h mi s fr hm

/-- … so `_parse_common` never reaches `int(None)`: it fails only with `ParserError` (no match) or `ValueError` (field range) -/
theorem common_total (dayFirst : Bool) (cs : List Char) (k : Kind) (h : commonParseDF dayFirst cs = .error k) :
    k = .parserError ∨ k = .valueError := commonParseDF_VE dayFirst cs k h

/-- the code path that raised `TypeError` before the repair (`"2:"`: hour, colon, no minute) is still in the model -/
example : cmBuild none (some (2, none, none, none)) = .error (.other "TypeError") := by decide
example : commonParseDF false "2:".toList = .error .parserError := by decide

/-- `_parse_iso8601_interval` (halves type-checked) fails only with `ValueError` kinds: the `AttributeError` / `TypeError`
    paths of the unrepaired code (`P1D/P1D`, `2021-03-04/05:06:07`, `12:00/P1D`, `2021-03-04/P1D`) are unreachable … -/
theorem interval_total (b : Backend) (cs : List Char) (k : Kind) (h : parseIntervalRaw durOk b cs = .error k) :
    k = .parserError ∨ k = .valueError := parseIntervalRaw_VE durOk b cs k h

/-- … and an interval whose endpoint is not a representable datetime (range of `datetime`, of `timedelta`, of the UTC instant
    in `Interval.__new__` / `precise_diff`, offset of 24 h or more) is a `ParserError`, not an `OverflowError` -/
theorem interval_assembly_parser_error (b : Backend) (tz : TzOpt) (r : IntervalRaw) (k : Kind)
    (h : assemble b tz r = .error k) : k = .parserError := assemble_PE b tz r k h

example : parseAll .py {} (fun _ _ _ => .error .parserError) "P1D/P1D".toList = .error .parserError := by decide
example : parseAll .rust {} (fun _ _ _ => .error .parserError) "2021-03-04/05:06:07".toList = .error .parserError := by decide
example : parseAll .py {} (fun _ _ _ => .error .parserError) "2021-03-04/2021-03-05".toList =
    .ok (.interval (dateV 2021 3 4) (dateV 2021 3 5)) := by decide

/-! ### `tz=None`: naive values, and the repaired endpoint check of `parser.py::_interval` -/

/-- the two endpoints of a `start/end` interval string are both DateTimes -/
def BothDateTimes (s e : Value) : Prop := s.kind = .datetime ∧ e.kind = .datetime

/-- **interval_mixed_endpoints_rejected.** Under `tz=None`, a `start/end` interval with one endpoint written with a UTC offset
    and the other without (`2021-03-04T00Z/2021-03-05T00`) is a `ParserError` (a `ValueError`), for both backends, whatever
    the values — before the repair `Interval.__new__` raised `TypeError` -/
theorem interval_mixed_endpoints_rejected (b : Backend) (s e : Value) (hk : BothDateTimes s e)
    (hmix : s.off.isSome ≠ e.off.isSome) : assemble b .naive (.startEnd s e) = .error .parserError := by
  obtain ⟨hs, he⟩ := hk
  obtain ⟨ks, ys, ms, ds, hs', mis, ss, uss, offs⟩ := s
  obtain ⟨ke, ye, me, de, he', mie, se, use, offe⟩ := e
  simp only at hs he
  subst hs he
  have key : assembleRaw b .naive (.startEnd ⟨.datetime, ys, ms, ds, hs', mis, ss, uss, offs⟩
        ⟨.datetime, ye, me, de, he', mie, se, use, offe⟩) = .error .parserError ∨
      assembleRaw b .naive (.startEnd ⟨.datetime, ys, ms, ds, hs', mis, ss, uss, offs⟩
        ⟨.datetime, ye, me, de, he', mie, se, use, offe⟩) = .error .valueError := by
    cases offs <;> cases offe
    · exact absurd rfl hmix
    · rename_i c
      cases hc : offOk c <;> simp [assembleRaw, instanceDT, endOff, isAware, TzOpt.fill, hc]
    · rename_i a
      cases ha : offOk a <;> simp [assembleRaw, instanceDT, endOff, isAware, TzOpt.fill, ha]
    · exact absurd rfl hmix
  unfold assemble
  rcases key with h | h <;> rw [h]

/-- **interval_naive_endpoints.** Under `tz=None` two endpoints without offset give the Interval of the two naive DateTimes,
    unconditionally: nothing is shifted to UTC, so even `0001-01-01T00:00/9999-12-31T23:59:59` is representable -/
theorem interval_naive_endpoints (b : Backend) (s e : Value) (hk : BothDateTimes s e) (hs : s.off = none) (he : e.off = none) :
    assemble b .naive (.startEnd s e) = .ok (.interval s e) := by
  obtain ⟨hs', he'⟩ := hk
  obtain ⟨ks, ys, ms, ds, hs'', mis, ss, uss, offs⟩ := s
  obtain ⟨ke, ye, me, de, he'', mie, se, use, offe⟩ := e
  simp only at hs he hs' he'
  subst hs he hs' he'
  simp [assemble, assembleRaw, instanceDT, endOff, isAware, TzOpt.fill, ofDTa, toDT]

/-- **interval_aware_endpoints.** Two endpoints with explicit offsets (below 24 h, UTC instants representable where the code
    needs them): the Interval of the two aware DateTimes, the same for every value of the `tz` option, `None` included -/
theorem interval_aware_endpoints (b : Backend) (tz : TzOpt) (s e : Value) (hk : BothDateTimes s e) (a c : Int)
    (hs : s.off = some a) (he : e.off = some c) (ha : offOk a = true) (hc : offOk c = true)
    (hu : needUtc b tz s e (toDT s a) (toDT e c) = true → utcOk (toDT s a) = true ∧ utcOk (toDT e c) = true) :
    assemble b tz (.startEnd s e) = .ok (.interval s e) := by
  obtain ⟨hs', he'⟩ := hk
  obtain ⟨ks, ys, ms, ds, hs'', mis, ss, uss, offs⟩ := s
  obtain ⟨ke, ye, me, de, he'', mie, se, use, offe⟩ := e
  simp only at hs he hs' he'
  subst hs he hs' he'
  have hu' : (needUtc b tz ⟨.datetime, ys, ms, ds, hs'', mis, ss, uss, some a⟩ ⟨.datetime, ye, me, de, he'', mie, se, use, some c⟩
      (toDT ⟨.datetime, ys, ms, ds, hs'', mis, ss, uss, some a⟩ a) (toDT ⟨.datetime, ye, me, de, he'', mie, se, use, some c⟩ c) &&
      !(utcOk (toDT ⟨.datetime, ys, ms, ds, hs'', mis, ss, uss, some a⟩ a) &&
        utcOk (toDT ⟨.datetime, ye, me, de, he'', mie, se, use, some c⟩ c))) = false := by
    cases hn : needUtc b tz ⟨.datetime, ys, ms, ds, hs'', mis, ss, uss, some a⟩ ⟨.datetime, ye, me, de, he'', mie, se, use, some c⟩
      (toDT ⟨.datetime, ys, ms, ds, hs'', mis, ss, uss, some a⟩ a) (toDT ⟨.datetime, ye, me, de, he'', mie, se, use, some c⟩ c) with
    | false => rfl
    | true => obtain ⟨h1, h2⟩ := hu hn; rw [h1, h2]; rfl
  simp only [assemble, assembleRaw, instanceDT, endOff, isAware, ha, hc, if_true, Option.isSome_some, bne_self_eq_false,
    Bool.true_and, hu']
  simp [ofDTa, toDT]

/-- the repaired check is unreachable unless `tz=None`: with the default or a fixed-offset `tz` every endpoint is aware
    (the behaviour for every other call is unchanged) -/
theorem endpoints_aware_unless_tz_none (tz : TzOpt) (htz : tz ≠ .naive) (v : Value) : isAware tz v = true := by
  unfold isAware endOff
  cases v.off with
  | some o => rfl
  | none => cases tz with
    | default => rfl
    | fixed o => rfl
    | shared o => rfl
    | naive => exact absurd rfl htz

/-- **tz_none_naive_values.** Under `tz=None` a date, time or date-time written without offset becomes a *naive* value
    (DateTime without tzinfo, or the Date / Time itself with `exact=True`); never an error -/
theorem tz_none_naive_values (exact : Bool) (now : Int × Int × Int) (v : Value) (hv : v.off = none) :
    ∃ w, wrapTz exact .naive now v = .ok w ∧ w.off = none := by
  unfold wrapTz
  simp only
  cases hk : v.kind <;> simp only [hv]
  · cases exact
    · exact ⟨_, rfl, rfl⟩
    · exact ⟨_, rfl, hv⟩
  · cases exact <;> exact ⟨_, rfl, rfl⟩
  · exact ⟨_, rfl, hv⟩

example : parseAll .py { tz := .naive } (fun _ _ _ => .error .parserError) "2021-03-04T00Z/2021-03-05T00".toList =
    .error .parserError := by decide
example : parseAll .rust { tz := .naive } (fun _ _ _ => .error .parserError) "2021-03-04T00/2021-03-05T00Z".toList =
    .error .parserError := by decide
/-- the same strings under the default `tz` (UTC) are Intervals, as before -/
example : parseAll .py {} (fun _ _ _ => .error .parserError) "2021-03-04T00Z/2021-03-05T00".toList =
    .ok (.interval (dateTimeV 2021 3 4 0 0 0 0 (some 0)) (dateTimeV 2021 3 5 0 0 0 0 (some 0))) := by decide
example : parseAll .rust { tz := .naive } (fun _ _ _ => .error .parserError) "2021-03-04T00/2021-03-05T00".toList =
    .ok (.interval (dateTimeV 2021 3 4 0 0 0 0 none) (dateTimeV 2021 3 5 0 0 0 0 none)) := by decide
example : parseAll .py { tz := .naive } (fun _ _ _ => .error .parserError) "2021-03-04T00Z/2021-03-05T00+01:00".toList =
    .ok (.interval (dateTimeV 2021 3 4 0 0 0 0 (some 0)) (dateTimeV 2021 3 5 0 0 0 0 (some 3600))) := by decide
example : parseAll .py { tz := .naive } (fun _ _ _ => .error .parserError) "0001-01-01T00:00/P1D".toList =
    .ok (.interval (dateTimeV 1 1 1 0 0 0 0 none) (dateTimeV 1 1 2 0 0 0 0 none)) := by decide
example : parseAll .rust { tz := .naive } (fun _ _ _ => .error .parserError) "12:34".toList =
    .ok (.dateTime (dateTimeV 2001 2 3 12 34 0 0 none)) := by decide
example : parseAll .py { tz := .naive } (fun _ _ _ => .error .parserError) "2021-03-05T00".toList =
    .ok (.dateTime (dateTimeV 2021 3 5 0 0 0 0 none)) := by decide
example : BothDateTimes (dateTimeV 2021 3 4 0 0 0 0 (some 0)) (dateTimeV 2021 3 5 0 0 0 0 none) ∧
    (dateTimeV 2021 3 4 0 0 0 0 (some 0)).off.isSome ≠ (dateTimeV 2021 3 5 0 0 0 0 none).off.isSome :=
  ⟨⟨rfl, rfl⟩, by decide⟩

/-! ### the strict gate -/

/-- **strict_rejects** (1): with `strict=True` dateutil is never consulted — the result is the same for every dateutil -/
theorem strict_rejects (b : Backend) (o : Options) (hs : o.strict = true) (du du' : Dateutil) (cs : List Char) :
    parseAll b o du cs = parseAll b o du' cs := parseAll_strict durOk b o hs du du' cs

/-- **strict_rejects** (2): with `strict=True` an accepted string is `"now"` or is accepted by one of the three documented
    parsers: ISO 8601 (`parse_iso8601`), ISO 8601 interval, or the common `YYYY-MM-DD HH:MM:SS` family -/
theorem strict_accepts_only_documented (b : Backend) (o : Options) (hs : o.strict = true) (du : Dateutil) (cs : List Char)
    (out : Out) (h : parseAll b o du cs = .ok out) : cs = "now".toList ∨ Documented durOk b o cs := by
  unfold parseAll parseAllG at h
  split at h
  · rename_i hn; exact Or.inl hn
  · split at h
    · cases h
    · rename_i p heq
      exact Or.inr (baseParse_strict_documented durOk b o hs du cs p heq)

/-- free text that only dateutil understands is a `ParserError` under `strict=True`, whatever dateutil would answer -/
example (du : Dateutil) : parseAll .py {} du "10pm".toList = .error .parserError := by
  rw [strict_rejects .py {} rfl du (fun _ _ _ => .error .parserError)]; decide
example (du : Dateutil) : parseAll .rust {} du "Jan 3 2021".toList = .error .parserError := by
  rw [strict_rejects .rust {} rfl du (fun _ _ _ => .error .parserError)]; decide
/-- … and goes to dateutil with `strict=False` (whose naive result gets the `tz` option, here +01:00) -/
example : parseAll .py { strict := false, tz := .fixed 3600 } (fun _ _ _ => .ok (dateTimeV 2026 9 30 22 0 0 0 none)) "10pm".toList =
    .ok (.dateTime (dateTimeV 2026 9 30 22 0 0 0 (some 3600))) := by decide

/-! ### no wrap-around -/

/-- every number the date/time parsers read with `parse_integer(k)` / `\d{k}` is below `10^k` (k ≤ 4 in both parsers), far
    from the `u32` limit: modelling the compiled parser's accumulators by unbounded naturals loses nothing -/
theorem no_wraparound_fields (b : Backend) (k : Nat) : ∀ (acc : Nat) (cs : List Char) (v : Nat) (r : List Char),
    exactN b k acc cs = some (v, r) → v < (acc + 1) * 10 ^ k := by
  have dvlt : ∀ (c : Char) (d : Nat), dv b c = some d → d < 10 := by
    intro c d h
    cases b with
    | rust =>
      simp only [dv] at h
      split at h
      · injection h with h; omega
      · cases h
    | py =>
      simp only [dv, ndDigit] at h
      split at h
      · rename_i s hs
        have := List.find?_some hs
        simp only [Bool.and_eq_true, decide_eq_true_eq] at this
        injection h with h; omega
      · cases h
  induction k with
  | zero => intro acc cs v r h; simp only [exactN] at h; cases h; omega
  | succ k ih =>
    intro acc cs v r h
    cases cs with
    | nil => simp [exactN] at h
    | cons c cs =>
      simp only [exactN] at h
      split at h
      · rename_i d hd
        have hlt := dvlt c d hd
        have := ih _ _ _ _ h
        calc v < (10 * acc + d + 1) * 10 ^ k := this
          _ ≤ (10 * (acc + 1)) * 10 ^ k := Nat.mul_le_mul_right _ (by omega)
          _ = (acc + 1) * 10 ^ (k + 1) := by rw [Nat.pow_succ]; ac_rfl
      · cases h

/-- **no_wraparound (durations).** Under `strict=True`, for a string that starts with `P` and has no `/`: `parse()` returns the
    Duration `d` exactly when the duration parser of C13 returns `d`, and raises `ParserError` when that parser rejects the
    string. Together with `C13.dur_parse_value` (value = decimal value of the digits, fraction rounded to the µs),
    `C13.dur_too_large_rejected` and `C13.rs_huge_number_rejected` (numbers beyond the accumulator are rejected, never wrapped)
    this is the statement that no accepted duration is computed from wrapped-around numbers. -/
theorem no_wraparound_duration (b : Backend) (o : Options) (du : Dateutil) (cs : List Char) (hP : cs.head? = some 'P')
    (hslash : cs.contains '/' = false) (hstrict : o.strict = true) (hascii : asciiDigits cs = cs) :
    (∀ d, IsoDur.parse (bd b) cs = .ok d → parseAll b o du cs = .ok (.duration d)) ∧
    (∀ k, IsoDur.parse (bd b) cs = .error k → parseAll b o du cs = .error .parserError) :=
  parseAll_duration_value b o du cs hP hslash hstrict hascii

/-- the side condition `asciiDigits cs = cs` holds for every ASCII string -/
theorem ascii_unchanged (cs : List Char) (h : ∀ c ∈ cs, c.toNat < 128) : asciiDigits cs = cs := asciiDigits_ascii cs h

/-- a well-formed duration string (C13's `Good` token sequences, any number of digits) parses to its exact value in range … -/
theorem wellformed_duration_value (b : Backend) (o : Options) (du : Dateutil) (hstrict : o.strict = true)
    (ws : List IsoDur.WTok) (hv : ∀ t ∈ ws, t.valid) (hG : IsoDur.Good 0 false (ws.map IsoDur.WTok.tok)) (hne : ws ≠ [])
    (hslash : ('P' :: IsoDur.renderW ws).contains '/' = false) (hascii : asciiDigits ('P' :: IsoDur.renderW ws) = 'P' :: IsoDur.renderW ws)
    (hin : Pendulum.Props.C13.inRange (ws.map IsoDur.WTok.tok)) :
    parseAll b o du ('P' :: IsoDur.renderW ws) =
      .ok (.duration ⟨IsoDur.yOf false (ws.map IsoDur.WTok.tok), IsoDur.moOf false (ws.map IsoDur.WTok.tok),
        IsoDur.usOf false (ws.map IsoDur.WTok.tok)⟩) :=
  (no_wraparound_duration b o du _ rfl hslash hstrict hascii).1 _
    (Pendulum.Props.C13.dur_in_range_parses (bd b) ws hv hG hne hin)

/-- … and is a `ParserError` outside the range of `timedelta` — never a wrapped value, never an `OverflowError` -/
theorem too_large_duration_rejected (b : Backend) (o : Options) (du : Dateutil) (hstrict : o.strict = true)
    (ws : List IsoDur.WTok) (hv : ∀ t ∈ ws, t.valid) (hG : IsoDur.Good 0 false (ws.map IsoDur.WTok.tok)) (hne : ws ≠ [])
    (hslash : ('P' :: IsoDur.renderW ws).contains '/' = false) (hascii : asciiDigits ('P' :: IsoDur.renderW ws) = 'P' :: IsoDur.renderW ws)
    (hbig : ¬ Pendulum.Props.C13.inRange (ws.map IsoDur.WTok.tok)) :
    parseAll b o du ('P' :: IsoDur.renderW ws) = .error .parserError :=
  (no_wraparound_duration b o du _ rfl hslash hstrict hascii).2 _
    (Pendulum.Props.C13.dur_too_large_rejected (bd b) ws hv hG hne hbig)

example : ('P' :: IsoDur.renderW Pendulum.Props.C13.sample) = "P1Y2M3DT4H5M6,5S".toList := by decide
example : ("P1Y2M3DT4H5M6,5S".toList).contains '/' = false ∧ asciiDigits "P1Y2M3DT4H5M6,5S".toList = "P1Y2M3DT4H5M6,5S".toList := by
  decide

/-! ### the two backends -/

/-- **backends_agree_when_both_accept — PARTIAL.** Proved for the well-formed families: (1) every well-formed date-time of C07
    (six date representations × precision × fraction × offset; dates and times alike through `parseAll_of_iso`), for all
    options; (2) every well-formed duration of C13 under `strict=True`. NOT proved for arbitrary strings, and false there:
    see the counterexamples below (known findings F22, F23 of the report; F21 and F24 involve float arithmetic / named
    zones, outside this model). -/
theorem backends_agree_when_both_accept_partial :
    (∀ (o : Options) (du : Dateutil) (f : DForm) (y m d : Nat) (_ : dateOk y m d) (_ : FormOk f y m d) (sep : Char)
        (_ : sep = 'T' ∨ sep = ' ') (h mi s : Nat) (p : Prec) (_ : ClockOk h mi s p) (off : Off) (_ : OffOk off),
      parseAll .rust o du (rDate f y m d ++ sep :: (rTime f.ext h mi s p ++ rOff off)) =
      parseAll .py o du (rDate f y m d ++ sep :: (rTime f.ext h mi s p ++ rOff off))) ∧
    (∀ (o : Options) (du : Dateutil) (_ : o.strict = true) (ws : List IsoDur.WTok) (_ : ∀ t ∈ ws, t.valid)
        (_ : IsoDur.Good 0 false (ws.map IsoDur.WTok.tok)) (_ : ws ≠ [])
        (_ : ('P' :: IsoDur.renderW ws).contains '/' = false)
        (_ : asciiDigits ('P' :: IsoDur.renderW ws) = 'P' :: IsoDur.renderW ws),
      parseAll .rust o du ('P' :: IsoDur.renderW ws) = parseAll .py o du ('P' :: IsoDur.renderW ws)) := by
  constructor
  · intro o du f y m d hv hf sep hsep h mi s p hc off ho
    have hn := rDate_ne_now f y m d (sep :: (rTime f.ext h mi s p ++ rOff off))
    rw [parseAll_of_iso .rust o du _ _ (parse_datetime .rust f y m d hv hf sep hsep h mi s p hc off ho) hn,
      parseAll_of_iso .py o du _ _ (parse_datetime .py f y m d hv hf sep hsep h mi s p hc off ho) hn]
    exact finishOut_val durOk .rust .py o _
  · intro o du hs ws hv hG hne hslash hascii
    have hr := no_wraparound_duration .rust o du _ rfl hslash hs hascii
    have hp := no_wraparound_duration .py o du _ rfl hslash hs hascii
    have e := Pendulum.Props.C13.backends_agree ws hv hG hne
    cases hq : IsoDur.parse .py ('P' :: IsoDur.renderW ws) with
    | ok d => rw [hr.1 d (by rw [← hq]; exact e), hp.1 d hq]
    | error k => rw [hr.2 k (by rw [← hq]; exact e), hp.2 k hq]

/-- F22: `day_first=True`, compact date + colon time: both accept, different values (model level) -/
example : parseAll .rust { dayFirst := true } (fun _ _ _ => .error .parserError) "20210304 1:2".toList =
      .ok (.dateTime (dateTimeV 2021 4 3 1 2 0 0 (some 0))) ∧
    parseAll .py { dayFirst := true } (fun _ _ _ => .error .parserError) "20210304 1:2".toList =
      .ok (.dateTime (dateTimeV 2021 3 4 1 2 0 0 (some 0))) := by decide
/-- F23: `YYYY/MMDD` -/
example : parseAll .rust { exact := true } (fun _ _ _ => .error .parserError) "2021/0304".toList = .ok (.date (dateV 2021 3 4)) ∧
    parseAll .py { exact := true } (fun _ _ _ => .error .parserError) "2021/0304".toList =
      .ok (.interval (dateV 2021 1 1) (dateV 304 1 1)) := by decide
/-- Unicode decimal digits: the pure-Python backend reads them (`\d`, `int()`), the compiled one rejects them -/
example : parseAll .py { exact := true } (fun _ _ _ => .error .parserError) "٢٠٢١-٠٣-٠٤".toList = .ok (.date (dateV 2021 3 4)) ∧
    parseAll .rust { exact := true } (fun _ _ _ => .error .parserError) "٢٠٢١-٠٣-٠٤".toList = .error .parserError := by decide

/-! ### non-vacuity -/

example : DuOk (fun _ _ _ => .error (.other "OverflowError")) := by
  intro _ _ _ k h; cases h; exact Or.inr (Or.inr ⟨_, rfl, by decide⟩)
example : parseAll .py { strict := false } (fun _ _ _ => .error (.other "InvalidOperation")) "x".toList = .error .parserError := by decide
example : parseAll .rust {} (fun _ _ _ => .error .parserError) "now".toList = .ok .now := by decide
example : parseAll .rust { exact := true } (fun _ _ _ => .error .parserError) "12:34".toList = .ok (.time (timeV 12 34 0 0 none)) := by decide
example : parseAll .py {} (fun _ _ _ => .error .parserError) "2021-03-04T12:00:00+99:99".toList = .error .valueError := by decide
/-- the empty string matches `COMMON` (every group is optional) and fails in `date(0, 1, 1)`: a plain `ValueError` -/
example : parseAll .py {} (fun _ _ _ => .error .parserError) "".toList = .error .valueError := by decide

/-! ### the Python front end as regenerated from the source (`Gen/Parser.lean`, tools/gen_parser.py)

`Pendulum.Gen.Parser` is the translation, statement by statement, of `parser.py` (`parse`, `_parse`, `_interval`) and
`parsing/__init__.py` (`parse`, `_normalize`, `_parse`, `_parse_common`, `_parse_iso8601_interval`, `DEFAULT_OPTIONS`),
regenerated on every run. External callees are the fields of `ext : Ext PV`; what the hand model says about them is the
hypothesis `ExtOk` (satisfiable: `front_end_hypotheses_satisfiable`). `durOk` is passed by application only (see
Model/ParseAll.lean on the range predicate). -/

end Pendulum.Props.C17
