import Pendulum.Proofs.ZoneOps
import Pendulum.Model.DTOps
import Pendulum.Gen.Convert
/-! # C02 — wall-clock construction is normalised by the documented DST rules -/
namespace Pendulum.Props.C02
open Pendulum Pendulum.Zone



/-- unique wall time: returned unchanged, and it denotes the only instant rendering as w -/
theorem create_unique (z : Z) (h : z.WF) (l : Local) (r : Bool)
    (heq : z.woff true l.w = z.woff false l.w) :
    convertNaive z l r = .ok l ∧ ∀ u, (u + z.off u = l.w ↔ u = toUtc z l) := by
  constructor
  · unfold convertNaive; simp only [heq]; simp
  · intro u
    have hs := not_skipped_of_le z h l.w (by omega)
    have := preimage_char z.trs z.init l.w u h
    unfold Z.off toUtc Z.woff at *
    unfold Z.skipped at hs
    rw [this]
    cases hf : l.fold <;> simp [hs] <;> omega

/-- repeated wall time: fold=0 is the earlier, fold=1 the later of exactly two instants -/
theorem create_repeated (z : Z) (h : z.WF) (l : Local)
    (hlt : z.woff false l.w > z.woff true l.w) :
    convertNaive z l false = .ok l ∧
    convertNaive z l true = .error .ambiguous ∧
    (∀ u, (u + z.off u = l.w ↔ (u = l.w - z.woff false l.w ∨ u = l.w - z.woff true l.w))) ∧
    l.w - z.woff false l.w < l.w - z.woff true l.w ∧
    toUtc z l = (if l.fold then l.w - z.woff true l.w else l.w - z.woff false l.w) := by
  have hs := not_skipped_of_le z h l.w (by omega)
  refine ⟨?_, ?_, ?_, by omega, ?_⟩
  · unfold convertNaive
    have : ¬ (z.woff true l.w > z.woff false l.w) := by omega
    simp [this]
  · unfold convertNaive
    have : ¬ (z.woff true l.w > z.woff false l.w) := by omega
    simp [this, hlt]
  · intro u
    have := preimage_char z.trs z.init l.w u h
    unfold Z.off Z.woff at *
    unfold Z.skipped at hs
    rw [this]; simp [hs]
  · unfold toUtc; cases l.fold <;> simp

/-- skipped wall time: no instant renders as w; raising mode reports it -/
theorem create_skipped_none (z : Z) (h : z.WF) (l : Local)
    (hgt : z.woff true l.w > z.woff false l.w) :
    (∀ u, u + z.off u ≠ l.w) ∧ convertNaive z l true = .error .nonExisting := by
  constructor
  · intro u hu
    have hg := (gap_iff z.trs z.init l.w h).mpr hgt
    exact noPre z.trs z.init l.w u h hg hu
  · unfold convertNaive; simp [hgt]

/-- exceptions are raised exactly for non-unique wall times, and of the right kind -/
theorem raise_iff (z : Z) (l : Local) :
    (convertNaive z l true = .error .nonExisting ↔ z.woff true l.w > z.woff false l.w) ∧
    (convertNaive z l true = .error .ambiguous ↔ z.woff false l.w > z.woff true l.w) ∧
    (∀ e, convertNaive z l false ≠ .error e) := by
  unfold convertNaive
  refine ⟨?_, ?_, ?_⟩
  · by_cases c : z.woff true l.w > z.woff false l.w <;> simp [c]
    by_cases c2 : z.woff false l.w > z.woff true l.w <;> simp [c2]
  · by_cases c : z.woff true l.w > z.woff false l.w <;> simp [c]
    · omega
  · intro e
    by_cases c : z.woff true l.w > z.woff false l.w <;> simp [c]

/-- skipped wall time, non-raising mode: default (fold=1) moves forward by the gap and denotes the instant
    obtained with the pre-gap offset; fold=0 moves backward by the gap and denotes the instant obtained with
    the post-gap offset. Both results are genuine local times (`fromUtc` of that instant). -/
theorem create_skipped (z : Z) (h : z.WF) (w : Int)
    (hgt : z.woff true w > z.woff false w) :
    convertNaive z ⟨w, true⟩ false = .ok (fromUtc z (w - z.woff false w)) ∧
    convertNaive z ⟨w, false⟩ false = .ok (fromUtc z (w - z.woff true w)) ∧
    (fromUtc z (w - z.woff false w)).w = w + (z.woff true w - z.woff false w) ∧
    (fromUtc z (w - z.woff true w)).w = w - (z.woff true w - z.woff false w) := by
  have hg := (gap_iff z.trs z.init w h).mpr hgt
  obtain ⟨s1, s2, s3, s4, _, _⟩ := gap_shift z.trs z.init w h hg
  unfold Z.woff at hgt
  unfold convertNaive fromUtc Z.off Z.foldOf Z.woff
  simp only [hgt, if_true, Bool.false_eq_true, if_false]
  rw [s1, s2, s3, s4]
  refine ⟨?_, ?_, by omega, by omega⟩
  · congr 2; omega
  · congr 2; omega


/-! ### the DateTime-level statements (`DTOps.create` = `DateTime.create` → `Timezone.convert` on a naive value) -/
open Pendulum.DTOps

/-- `pre` restated: a wall value that is not skipped is the rendering of `w - woff f w` for either fold -/
theorem pre_instant (z : Z) (h : z.WF) (w : Int) (f : Bool) (hs : z.skipped w = false) :
    (w - z.woff f w) + z.off (w - z.woff f w) = w := by
  have := (preimage_char z.trs z.init w (w - z.woff f w) h).mpr
    ⟨hs, by cases f <;> simp [Z.woff]⟩
  exact this

/-- **every value returned is a valid local time**: it is the table's rendering of its own instant, with the
    offset the table assigns to that instant (it survives the round trip through UTC) -/
theorem create_valid (z : Z) (h : z.WF) (w : Int) (fold raise : Bool) (r : V)
    (hc : DTOps.create (.named z) w fold raise = .ok r) :
    r.z = .named z ∧ r.instant + z.off r.instant = r.w ∧ z.off r.instant = r.offset := by
  unfold DTOps.create at hc
  simp only [] at hc
  by_cases hgap : z.woff true w > z.woff false w
  · -- skipped
    cases raise with
    | true => simp [convertNaive, hgap] at hc
    | false =>
      obtain ⟨s1, s2, s3, s4⟩ := create_skipped z h w hgap
      cases fold with
      | true =>
        rw [s1] at hc; simp only [] at hc
        split at hc
        · injection hc with hc; subst hc
          have hi : V.instant ⟨.named z, (fromUtc z (w - z.woff false w)).w, (fromUtc z (w - z.woff false w)).fold⟩
              = w - z.woff false w := by
            simp only [V.instant, V.offset, ZRef.table]; exact toUtc_fromUtc z h _
          refine ⟨rfl, ?_, ?_⟩
          · rw [hi]; rfl
          · rw [hi]; simp only [V.offset, ZRef.table]
            exact (roundtrip z.trs z.init (w - z.woff false w) h).symm
        · cases hc
      | false =>
        rw [s2] at hc; simp only [] at hc
        split at hc
        · injection hc with hc; subst hc
          have hi : V.instant ⟨.named z, (fromUtc z (w - z.woff true w)).w, (fromUtc z (w - z.woff true w)).fold⟩
              = w - z.woff true w := by
            simp only [V.instant, V.offset, ZRef.table]; exact toUtc_fromUtc z h _
          refine ⟨rfl, ?_, ?_⟩
          · rw [hi]; rfl
          · rw [hi]; simp only [V.offset, ZRef.table]
            exact (roundtrip z.trs z.init (w - z.woff true w) h).symm
        · cases hc
  · -- unique or repeated: the value is returned unchanged
    have hs := not_skipped_of_le z h w hgap
    have hconv : convertNaive z ⟨w, fold⟩ raise = .ok ⟨w, fold⟩ ∨ (∃ e, convertNaive z ⟨w, fold⟩ raise = .error e) := by
      unfold convertNaive; simp only [hgap, if_false]
      split
      · right; exact ⟨_, rfl⟩
      · left; rfl
    rcases hconv with hk | ⟨e, he⟩
    · rw [hk] at hc; simp only [] at hc
      split at hc
      · injection hc with hc; subst hc
        have hp := pre_instant z h w fold hs
        refine ⟨rfl, ?_, ?_⟩
        · simpa [V.instant, V.offset, ZRef.table] using hp
        · simp only [V.instant, V.offset, ZRef.table]
          omega
      · cases hc
    · rw [he] at hc; cases e <;> simp at hc

/-- a wall time that exists once is returned as is, for either fold and either raise mode -/
theorem create_unique_dt (z : Z) (w : Int) (fold raise : Bool) (heq : z.woff true w = z.woff false w)
    (hr : inRange w = true) : DTOps.create (.named z) w fold raise = .ok ⟨.named z, w, fold⟩ := by
  unfold DTOps.create convertNaive
  simp [heq, hr]

/-- a repeated wall time: kept as is; `fold=1` denotes the later, `fold=0` the earlier occurrence; raising mode ⇒ AmbiguousTime -/
theorem create_repeated_dt (z : Z) (w : Int) (fold : Bool) (hlt : z.woff false w > z.woff true w) (hr : inRange w = true) :
    DTOps.create (.named z) w fold false = .ok ⟨.named z, w, fold⟩ ∧
    DTOps.create (.named z) w fold true = .error .ambiguous ∧
    (V.instant ⟨.named z, w, true⟩ > V.instant ⟨.named z, w, false⟩) := by
  have hn : ¬ z.woff true w > z.woff false w := by omega
  refine ⟨?_, ?_, ?_⟩
  · unfold DTOps.create convertNaive; simp [hn, hr]
  · unfold DTOps.create convertNaive; simp [hn, hlt]
  · simp only [V.instant, V.offset, ZRef.table]; omega

/-- a skipped wall time: moved forward by the length of the gap by default (`fold=1`), backward with `fold=0`;
    raising mode ⇒ NonExistingTime -/
theorem create_skipped_dt (z : Z) (h : z.WF) (w : Int) (fold : Bool) (hgt : z.woff true w > z.woff false w) (r : V)
    (hc : DTOps.create (.named z) w fold false = .ok r) :
    DTOps.create (.named z) w fold true = .error .nonExisting ∧
    r.w = (if fold then w + (z.woff true w - z.woff false w) else w - (z.woff true w - z.woff false w)) ∧
    r.instant = (if fold then w - z.woff false w else w - z.woff true w) := by
  refine ⟨by unfold DTOps.create convertNaive; simp [hgt], ?_⟩
  obtain ⟨s1, s2, s3, s4⟩ := create_skipped z h w hgt
  unfold DTOps.create at hc
  simp only [] at hc
  cases fold with
  | true =>
    rw [s1] at hc; simp only [] at hc
    split at hc
    · injection hc with hc; subst hc
      refine ⟨by simpa using s3, ?_⟩
      simp only [V.instant, V.offset, ZRef.table, if_true]; exact toUtc_fromUtc z h _
    · cases hc
  | false =>
    rw [s2] at hc; simp only [] at hc
    split at hc
    · injection hc with hc; subst hc
      refine ⟨by simpa using s4, ?_⟩
      simp only [V.instant, V.offset, ZRef.table, Bool.false_eq_true, if_false]; exact toUtc_fromUtc z h _
    · cases hc

/-- exceptions are raised exactly for skipped / repeated wall times, and never without the raise flag -/
theorem raise_iff_dt (z : Z) (w : Int) (fold : Bool) :
    (DTOps.create (.named z) w fold true = .error .nonExisting ↔ z.woff true w > z.woff false w) ∧
    (DTOps.create (.named z) w fold true = .error .ambiguous ↔ z.woff false w > z.woff true w) ∧
    DTOps.create (.named z) w fold false ≠ .error .nonExisting ∧
    DTOps.create (.named z) w fold false ≠ .error .ambiguous := by
  unfold DTOps.create convertNaive
  by_cases c : z.woff true w > z.woff false w
  · have c2 : ¬ z.woff false w > z.woff true w := by omega
    refine ⟨?_, ?_, ?_, ?_⟩ <;> simp [c, c2] <;> (split <;> simp_all) <;> (split <;> simp)
  · by_cases c2 : z.woff false w > z.woff true w
    · refine ⟨?_, ?_, ?_, ?_⟩ <;> simp [c, c2] <;> (try split) <;> simp_all
    · refine ⟨?_, ?_, ?_, ?_⟩ <;> simp [c, c2] <;> (try split) <;> simp_all

/-- fixed offsets and naive values never raise and keep the wall time -/
theorem create_fixed_naive (off w : Int) (fold raise : Bool) :
    DTOps.create (.fixed off) w fold raise = .ok ⟨.fixed off, w, false⟩ ∧
    DTOps.create .naive w fold raise = .ok ⟨.naive, w, fold⟩ := ⟨rfl, rfl⟩

/-- **the source itself**: `Timezone.convert`'s naive branch, regenerated from `tz/timezone.py` on every run by
    `tools/gen_convert.py`, is the hand model `convertNaive` all theorems above are about — for every zone, wall
    value, fold and raise flag. A change to the function's logic breaks this obligation. -/
theorem convert_source_eq_model (z : Z) (w : Int) (fold raise : Bool) :
    Gen.convertNaive (fun f x => z.woff f x) w fold raise =
      (match convertNaive z ⟨w, fold⟩ raise with
       | .ok l => .ok (l.w, l.fold)
       | .error .nonExisting => .error "NonExistingTime"
       | .error .ambiguous => .error "AmbiguousTime") := by
  unfold Gen.convertNaive convertNaive
  cases fold <;> cases raise <;>
    by_cases c : z.woff true w > z.woff false w <;>
    by_cases c2 : z.woff false w > z.woff true w <;>
    simp [c, c2] <;> omega

/-- the aware branch is still a plain `astimezone(self)` (modelled by `DTOps.inTz`, property C01) -/
theorem convert_aware_branch_pinned : Gen.convertAwareSource = "return cast(_DT, dt.astimezone(self))" := by decide

/-! non-vacuity: a table with a gap [4600,8200) and an overlap; a skipped and a repeated wall value -/
example : (⟨3600, [⟨1000, 7200⟩, ⟨20000, 3600⟩]⟩ : Z).WF := by simp [Z.WF, Zone.WF, absI]
example : (⟨3600, [⟨1000, 7200⟩, ⟨20000, 3600⟩]⟩ : Z).woff true 5000 > (⟨3600, [⟨1000, 7200⟩, ⟨20000, 3600⟩]⟩ : Z).woff false 5000 := by decide
example : (⟨3600, [⟨1000, 7200⟩, ⟨20000, 3600⟩]⟩ : Z).woff false 24000 > (⟨3600, [⟨1000, 7200⟩, ⟨20000, 3600⟩]⟩ : Z).woff true 24000 := by decide

/-! ### the construction glue itself (`DateTime.create/set/on/at/replace`, `Timezone.convert`, `FixedTimezone.convert`,
`_safe_timezone`), regenerated from the source on every run by tools/gen_dtconv.py (`Gen/DTConv.lean`) and proved equal to
the hand model for all inputs, under the callee-link hypotheses `EnvOk` (Proofs/DTConvGen.lean; satisfiable: `envOf_ok`) -/

end Pendulum.Props.C02
