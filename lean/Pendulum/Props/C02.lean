import Pendulum.Proofs.ZoneOps
import Pendulum.Model.DTOps
/-! # C02 — wall-clock construction is normalised by the documented DST rules -/
namespace Pendulum.Props.C02
open Pendulum Pendulum.Zone



/-- unique wall time: returned unchanged, and it denotes the only instant rendering as w -/
theorem create_unique (z : Z) (h : z.WF) (l : Local) (r : Bool)
    (heq : z.woff true l.w = z.woff false l.w) :
    convertNaive z l r = .ok l ∧ ∀ u, (u + z.off u = l.w ↔ u = toUtc z l) := by
  constructor
  · unfold convertNaive; simp only [heq]; simp
  · intro u
    have hs := not_skipped_of_le z h l.w (by omega)
    have := preimage_char z.trs z.init l.w u h
    unfold Z.off toUtc Z.woff at *
    unfold Z.skipped at hs
    rw [this]
    cases hf : l.fold <;> simp [hs] <;> omega

/-- repeated wall time: fold=0 is the earlier, fold=1 the later of exactly two instants -/
theorem create_repeated (z : Z) (h : z.WF) (l : Local)
    (hlt : z.woff false l.w > z.woff true l.w) :
    convertNaive z l false = .ok l ∧
    convertNaive z l true = .error .ambiguous ∧
    (∀ u, (u + z.off u = l.w ↔ (u = l.w - z.woff false l.w ∨ u = l.w - z.woff true l.w))) ∧
    l.w - z.woff false l.w < l.w - z.woff true l.w ∧
    toUtc z l = (if l.fold then l.w - z.woff true l.w else l.w - z.woff false l.w) := by
  have hs := not_skipped_of_le z h l.w (by omega)
  refine ⟨?_, ?_, ?_, by omega, ?_⟩
  · unfold convertNaive
    have : ¬ (z.woff true l.w > z.woff false l.w) := by omega
    simp [this]
  · unfold convertNaive
    have : ¬ (z.woff true l.w > z.woff false l.w) := by omega
    simp [this, hlt]
  · intro u
    have := preimage_char z.trs z.init l.w u h
    unfold Z.off Z.woff at *
    unfold Z.skipped at hs
    rw [this]; simp [hs]
  · unfold toUtc; cases l.fold <;> simp

/-- skipped wall time: no instant renders as w; raising mode reports it -/
theorem create_skipped_none (z : Z) (h : z.WF) (l : Local)
    (hgt : z.woff true l.w > z.woff false l.w) :
    (∀ u, u + z.off u ≠ l.w) ∧ convertNaive z l true = .error .nonExisting := by
  constructor
  · intro u hu
    have hg := (gap_iff z.trs z.init l.w h).mpr hgt
    exact noPre z.trs z.init l.w u h hg hu
  · unfold convertNaive; simp [hgt]

/-- exceptions are raised exactly for non-unique wall times, and of the right kind -/
theorem raise_iff (z : Z) (l : Local) :
    (convertNaive z l true = .error .nonExisting ↔ z.woff true l.w > z.woff false l.w) ∧
    (convertNaive z l true = .error .ambiguous ↔ z.woff false l.w > z.woff true l.w) ∧
    (∀ e, convertNaive z l false ≠ .error e) := by
  unfold convertNaive
  refine ⟨?_, ?_, ?_⟩
  · by_cases c : z.woff true l.w > z.woff false l.w <;> simp [c]
    by_cases c2 : z.woff false l.w > z.woff true l.w <;> simp [c2]
  · by_cases c : z.woff true l.w > z.woff false l.w <;> simp [c]
    · omega
  · intro e
    by_cases c : z.woff true l.w > z.woff false l.w <;> simp [c]

/-- skipped wall time, non-raising mode: default (fold=1) moves forward by the gap and denotes the instant
    obtained with the pre-gap offset; fold=0 moves backward by the gap and denotes the instant obtained with
    the post-gap offset. Both results are genuine local times (`fromUtc` of that instant). -/
theorem create_skipped (z : Z) (h : z.WF) (w : Int)
    (hgt : z.woff true w > z.woff false w) :
    convertNaive z ⟨w, true⟩ false = .ok (fromUtc z (w - z.woff false w)) ∧
    convertNaive z ⟨w, false⟩ false = .ok (fromUtc z (w - z.woff true w)) ∧
    (fromUtc z (w - z.woff false w)).w = w + (z.woff true w - z.woff false w) ∧
    (fromUtc z (w - z.woff true w)).w = w - (z.woff true w - z.woff false w) := by
  have hg := (gap_iff z.trs z.init w h).mpr hgt
  obtain ⟨s1, s2, s3, s4, _, _⟩ := gap_shift z.trs z.init w h hg
  unfold Z.woff at hgt
  unfold convertNaive fromUtc Z.off Z.foldOf Z.woff
  simp only [hgt, if_true, Bool.false_eq_true, if_false]
  rw [s1, s2, s3, s4]
  refine ⟨?_, ?_, by omega, by omega⟩
  · congr 2; omega
  · congr 2; omega


end Pendulum.Props.C02
