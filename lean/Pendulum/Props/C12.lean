import Pendulum.Proofs.StartOf
import Pendulum.Proofs.StartOfSub
import Pendulum.Proofs.StartOfGen
/-! # C12 — start_of/end_of delimit exactly the calendar unit that contains the value

Model: `Model/StartOf.lean` (`startOf`, `endOf`, `boundDate`; the repaired tree: day-and-longer units go through
`_boundary`, weeks are computed on the calendar date). Reading of "calendar unit": the set of instants whose
rendering in the zone has the same truncated wall label as x (`sameUnit`: equal `lo`). For second/minute/hour the
oracle additionally demands the same UTC offset (an hour shown twice is two units); the `_noedge` theorems prove
exactly that reading, the `_partial` ones only label equality.

A value x of zone `zt` is written as the rendering of an instant `ux`: wall `ux + zt.off ux`, any fold bit `f`
(both bits are covered, so the statements hold whichever of the two instants of a repeated wall value x denotes).

* day, week (7 consistent configurations), month, year, decade, century, every WF zone table: full theorems under
  `zt.startOK T` / `zt.endOK T` — the boundary label `T` is ordinary, **repeated**, or the **first (last) value of a
  gap**. Not covered (F11 residue, Lean counterexample `straddle_counterexample`): `T` strictly inside a gap.
* second, minute, hour, every WF zone table: FULL theorems (`subday_*_noedge`: order, exact span `w - lo` / `hi - w`, same
  label-unit and same UTC offset, neighbour microsecond in another unit, the unit is exactly the instants between
  start_of and end_of, nominal length, idempotence, genuine local time, fold irrelevant unless the hour is shown
  twice, the two passes of a repeated hour are two disjoint units) whenever the unit contains no edge of a
  gap/overlap (`noEdge`: all its labels ordinary, or all repeated) and x's wall time exists. The complement is
  finding F11b: there only the `_partial` statements (boundary label `T` ordinary ⇒ label equality) hold
  (counterexample `subday_counterexample`).
* fixed offsets, naive values, Dates: full theorems (`plain_*`, `date_*`). -/
set_option linter.unusedSectionVars false
set_option linter.unusedSimpArgs false
namespace Pendulum.Props.C12
open Pendulum Pendulum.Zone Pendulum.DTOps Pendulum.AddDur Pendulum.StartOf

/-- two wall labels lie in the same calendar unit -/
def sameUnit (u : U) (wks : Int) (v w : Int) : Prop := lo u wks v = lo u wks w

/-- local rendering of an instant -/
def render (zt : Z) (i : Int) : Int := i + zt.off i

/-! ### what the model returns -/

theorem startOf_named {u : U} (hsub : u.subDay = false) (wks : Int) (zt : Z) (w : Int) (f : Bool) (s : V)
    (he : startOf u wks ⟨.named zt, w, f⟩ = .ok s) :
    s = startVal zt (lo u wks w) f ∧ inRange (lo u wks w) = true := by
  unfold startOf bound at he
  simp only [hsub, Bool.false_eq_true, if_false] at he
  by_cases hr : inRange (lo u wks w) = true
  · simp only [hr, not_true_eq_false, if_false] at he
    rw [edge_start_eq] at he
    split at he
    · injection he with he; exact ⟨he.symm, hr⟩
    · cases he
  · simp [hr] at he

theorem endOf_named {u : U} (hsub : u.subDay = false) (wke : Int) (zt : Z) (w : Int) (f : Bool) (s : V)
    (he : endOf u wke ⟨.named zt, w, f⟩ = .ok s) :
    s = endVal zt (hi u wke w) f ∧ inRange (hi u wke w) = true := by
  unfold endOf bound at he
  simp only [hsub, Bool.false_eq_true, if_false] at he
  by_cases hr : inRange (hi u wke w) = true
  · simp only [hr, not_true_eq_false, if_false, if_true] at he
    rw [edge_end_eq] at he
    split at he
    · injection he with he; exact ⟨he.symm, hr⟩
    · cases he
  · simp [hr] at he

/-! ### day and longer units, named zones -/

section long
variable (u : U) (hsub : u.subDay = false) (wks wke : Int) (hc : weekCfg wks wke) (zt : Z) (h : zt.WF)
variable (ux : Int) (f : Bool)
include hsub hc h

/-- start_of(u) ≤ x as instants -/
theorem startOf_le (s : V) (hT : zt.startOK (lo u wks (render zt ux)))
    (he : startOf u wks ⟨.named zt, render zt ux, f⟩ = .ok s) : s.instant ≤ ux := by
  obtain ⟨es, _⟩ := startOf_named hsub wks zt _ f s he
  rw [es, startVal_instant zt h]
  apply Classical.byContradiction; intro c
  have := before_first zt h _ ux hT (by omega)
  have := (unit u wks wke hc).lo_le (render zt ux)
  rw [unit_lo] at this
  unfold render at *; omega

/-- x ≤ end_of(u) as instants -/
theorem le_endOf (s : V) (hT : zt.endOK (hi u wke (render zt ux)))
    (he : endOf u wke ⟨.named zt, render zt ux, f⟩ = .ok s) : ux ≤ s.instant := by
  obtain ⟨es, _⟩ := endOf_named hsub wke zt _ f s he
  rw [es, endVal_instant zt h]
  apply Classical.byContradiction; intro c
  have := after_last zt h _ ux hT (by omega)
  have := (unit u wks wke hc).le_hi (render zt ux)
  rw [unit_hi] at this
  unfold render at *; omega

/-- the wall label of start_of(u) lies between the unit's first label and x's label -/
theorem start_between (s : V) (hT : zt.startOK (lo u wks (render zt ux)))
    (he : startOf u wks ⟨.named zt, render zt ux, f⟩ = .ok s) :
    lo u wks (render zt ux) ≤ s.w ∧ s.w ≤ render zt ux := by
  have hle := startOf_le u hsub wks wke hc zt h ux f s hT he
  obtain ⟨es, _⟩ := startOf_named hsub wks zt _ f s he
  refine ⟨by rw [es]; exact startVal_w_ge zt _ f, ?_⟩
  rw [es, startVal_instant zt h] at hle
  have hlo := (unit u wks wke hc).lo_le (render zt ux)
  rw [unit_lo] at hlo
  rw [es]; unfold startVal
  by_cases c1 : zt.woff true (lo u wks (render zt ux)) > zt.woff false (lo u wks (render zt ux))
  · have hs := (skipped_iff zt h _).mpr c1
    have := ge_gapEnd zt.trs zt.init _ ux h hs (hT hs) hle
    simp only [c1, if_true]
    unfold render Z.off Z.woff at *; omega
  · simp only [c1, if_false]
    split <;> exact hlo

theorem end_between (s : V) (hT : zt.endOK (hi u wke (render zt ux)))
    (he : endOf u wke ⟨.named zt, render zt ux, f⟩ = .ok s) :
    render zt ux ≤ s.w ∧ s.w ≤ hi u wke (render zt ux) := by
  have hle := le_endOf u hsub wks wke hc zt h ux f s hT he
  obtain ⟨es, _⟩ := endOf_named hsub wke zt _ f s he
  refine ⟨?_, by rw [es]; exact endVal_w_le zt _ f⟩
  rw [es, endVal_instant zt h] at hle
  have hhi := (unit u wks wke hc).le_hi (render zt ux)
  rw [unit_hi] at hhi
  rw [es]; unfold endVal
  by_cases c1 : zt.woff true (hi u wke (render zt ux)) > zt.woff false (hi u wke (render zt ux))
  · have hs := (skipped_iff zt h _).mpr c1
    have := le_gapStart zt.trs zt.init _ ux h hs (hT hs) hle
    simp only [c1, if_true]
    unfold render Z.off Z.woff at *; omega
  · simp only [c1, if_false]
    split <;> exact hhi

/-- start_of(u) lies in the same calendar unit as x -/
theorem same_unit_start (s : V) (hT : zt.startOK (lo u wks (render zt ux)))
    (he : startOf u wks ⟨.named zt, render zt ux, f⟩ = .ok s) : sameUnit u wks s.w (render zt ux) := by
  obtain ⟨a, b⟩ := start_between u hsub wks wke hc zt h ux f s hT he
  have hhi := (unit u wks wke hc).le_hi (render zt ux)
  have := ((unit u wks wke hc).block s.w (render zt ux) a (by rw [unit_hi] at *; omega)).1
  exact this

/-- end_of(u) lies in the same calendar unit as x -/
theorem same_unit_end (s : V) (hT : zt.endOK (hi u wke (render zt ux)))
    (he : endOf u wke ⟨.named zt, render zt ux, f⟩ = .ok s) : sameUnit u wks s.w (render zt ux) := by
  obtain ⟨a, b⟩ := end_between u hsub wks wke hc zt h ux f s hT he
  have hlo := (unit u wks wke hc).lo_le (render zt ux)
  have := ((unit u wks wke hc).block s.w (render zt ux) (by rw [unit_lo] at *; omega) b).1
  exact this

/-- the microsecond before start_of(u) falls in a different unit -/
theorem pred_other_unit (s : V) (hT : zt.startOK (lo u wks (render zt ux)))
    (he : startOf u wks ⟨.named zt, render zt ux, f⟩ = .ok s) :
    ¬ sameUnit u wks (render zt (s.instant - 1)) (render zt ux) := by
  obtain ⟨es, _⟩ := startOf_named hsub wks zt _ f s he
  rw [es, startVal_instant zt h]
  have hb := before_first zt h _ (lo u wks (render zt ux) - zt.woff false (lo u wks (render zt ux)) - 1) hT (by omega)
  have hl := (unit u wks wke hc).lo_le (render zt (lo u wks (render zt ux) - zt.woff false (lo u wks (render zt ux)) - 1))
  rw [unit_lo] at hl
  unfold sameUnit; unfold render at *; omega

/-- the microsecond after end_of(u) falls in a different unit -/
theorem succ_other_unit (s : V) (hT : zt.endOK (hi u wke (render zt ux)))
    (he : endOf u wke ⟨.named zt, render zt ux, f⟩ = .ok s) :
    ¬ sameUnit u wks (render zt (s.instant + 1)) (render zt ux) := by
  obtain ⟨es, _⟩ := endOf_named hsub wke zt _ f s he
  rw [es, endVal_instant zt h]
  have hb := after_last zt h _ (hi u wke (render zt ux) - zt.woff true (hi u wke (render zt ux)) + 1) hT (by omega)
  intro hsame
  unfold sameUnit at hsame
  -- equal `lo` ⇒ equal `hi`, but the label after the end exceeds `hi`
  have e1 := (unit u wks wke hc).hi_lo (render zt (hi u wke (render zt ux) - zt.woff true (hi u wke (render zt ux)) + 1))
  have e2 := (unit u wks wke hc).hi_lo (render zt ux)
  have hh := (unit u wks wke hc).le_hi (render zt (hi u wke (render zt ux) - zt.woff true (hi u wke (render zt ux)) + 1))
  rw [unit_lo, unit_hi] at e1 e2
  rw [unit_hi] at hh
  rw [hsame, e2] at e1
  unfold render at *; omega

/-- start_of is idempotent -/
theorem idempotent_start (s : V) (hT : zt.startOK (lo u wks (render zt ux)))
    (he : startOf u wks ⟨.named zt, render zt ux, f⟩ = .ok s) : startOf u wks s = .ok s := by
  have hsu := same_unit_start u hsub wks wke hc zt h ux f s hT he
  obtain ⟨es, hr⟩ := startOf_named hsub wks zt _ f s he
  have hrs : inRange s.w = true := by
    unfold startOf bound at he
    simp only [hsub, Bool.false_eq_true, if_false, hr, not_true_eq_false] at he
    rw [edge_start_eq] at he
    split at he
    · injection he with he; rw [← he]; assumption
    · cases he
  unfold sameUnit at hsu
  have hz : s = ⟨.named zt, s.w, s.fold⟩ := by rw [es]; unfold startVal; split <;> (try split) <;> rfl
  rw [hz]
  unfold startOf bound
  simp only [hsub, Bool.false_eq_true, if_false, hsu, hr, not_true_eq_false]
  rw [edge_start_eq]
  have hv : startVal zt (lo u wks (render zt ux)) s.fold = s := by
    rw [es]; unfold startVal
    split
    · rfl
    · split <;> rfl
  rw [hv, if_pos hrs, ← hz]

/-- end_of is idempotent -/
theorem idempotent_end (s : V) (hT : zt.endOK (hi u wke (render zt ux)))
    (he : endOf u wke ⟨.named zt, render zt ux, f⟩ = .ok s) : endOf u wke s = .ok s := by
  have hsu := same_unit_end u hsub wks wke hc zt h ux f s hT he
  obtain ⟨es, hr⟩ := endOf_named hsub wke zt _ f s he
  have hrs : inRange s.w = true := by
    unfold endOf bound at he
    simp only [hsub, Bool.false_eq_true, if_false, if_true, hr, not_true_eq_false] at he
    rw [edge_end_eq] at he
    split at he
    · injection he with he; rw [← he]; assumption
    · cases he
  -- equal `lo` ⇒ equal `hi`
  have hh : hi u wke s.w = hi u wke (render zt ux) := by
    have e1 := (unit u wks wke hc).hi_lo s.w
    have e2 := (unit u wks wke hc).hi_lo (render zt ux)
    rw [unit_lo, unit_hi] at e1 e2
    unfold sameUnit at hsu
    rw [hsu, e2] at e1; exact e1.symm
  have hz : s = ⟨.named zt, s.w, s.fold⟩ := by rw [es]; unfold endVal; split <;> (try split) <;> rfl
  rw [hz]
  unfold endOf bound
  simp only [hsub, Bool.false_eq_true, if_false, if_true, hh, hr, not_true_eq_false]
  rw [edge_end_eq]
  have hv : endVal zt (hi u wke (render zt ux)) s.fold = s := by
    rw [es]; unfold endVal
    split
    · rfl
    · split <;> rfl
  rw [hv, if_pos hrs, ← hz]

/-- the results are genuine local times of the zone (the rendering of their own instant) -/
theorem result_is_local (s : V) :
    (startOf u wks ⟨.named zt, render zt ux, f⟩ = .ok s → s.w = render zt s.instant) ∧
    (endOf u wke ⟨.named zt, render zt ux, f⟩ = .ok s → s.w = render zt s.instant) := by
  constructor
  · intro he
    obtain ⟨es, _⟩ := startOf_named hsub wks zt _ f s he
    rw [es, startVal_instant zt h, startVal_render zt h]; rfl
  · intro he
    obtain ⟨es, _⟩ := endOf_named hsub wke zt _ f s he
    rw [es, endVal_instant zt h, endVal_render zt h]; rfl

end long

/-- both operations keep the timezone — every unit, every kind of zone, no hypothesis -/
theorem keeps_zone (u : U) (wks wke : Int) (last : Bool) (x s : V) (he : bound u wks wke last x = .ok s) :
    (match x.z, s.z with
     | .named a, .named b => a.init = b.init ∧ a.trs.length = b.trs.length
     | .fixed a, .fixed b => a = b
     | .naive, .naive => True
     | _, _ => False) := by
  have key : ∀ T fl, create x.z T fl false = .ok s → (match x.z, s.z with
      | .named a, .named b => a.init = b.init ∧ a.trs.length = b.trs.length
      | .fixed a, .fixed b => a = b
      | .naive, .naive => True
      | _, _ => False) := by
    intro T fl hcr
    unfold create at hcr
    cases hz : x.z with
    | naive => rw [hz] at hcr; injection hcr with hcr; rw [← hcr]; trivial
    | fixed o => rw [hz] at hcr; injection hcr with hcr; rw [← hcr]
    | named zt =>
      rw [hz] at hcr
      simp only [] at hcr
      split at hcr
      · cases hcr
      · cases hcr
      · split at hcr
        · injection hcr with hcr; rw [← hcr]; exact ⟨rfl, rfl⟩
        · cases hcr
  unfold bound at he
  by_cases hr : inRange (if last = true then hi u wke x.w else lo u wks x.w) = true
  · simp only [hr, not_true_eq_false, if_false] at he
    by_cases hs : u.subDay = true
    · simp only [hs, if_true] at he; exact key _ _ he
    · simp only [hs, Bool.false_eq_true, if_false] at he; unfold edge at he; exact key _ _ he
  · simp [hr] at he

/-- the result depends only on the instant and the zone, not on how the value was obtained: two values with the
    same wall label and zone that differ in their fold bit (constructed / converted / parsed) give results with
    the same wall label, the same instant and the same zone (day and longer units, no hypothesis on the zone) -/
theorem origin_independent (u : U) (hsub : u.subDay = false) (wks wke : Int) (zt : Z) (w : Int) (f f' : Bool) (s : V) :
    (startOf u wks ⟨.named zt, w, f⟩ = .ok s →
      ∃ s', startOf u wks ⟨.named zt, w, f'⟩ = .ok s' ∧ s'.w = s.w ∧ s'.instant = s.instant) ∧
    (endOf u wke ⟨.named zt, w, f⟩ = .ok s →
      ∃ s', endOf u wke ⟨.named zt, w, f'⟩ = .ok s' ∧ s'.w = s.w ∧ s'.instant = s.instant) := by
  constructor
  · intro he
    obtain ⟨es, hr⟩ := startOf_named hsub wks zt _ f s he
    have hw : (startVal zt (lo u wks w) f').w = (startVal zt (lo u wks w) f).w := by
      unfold startVal; split
      · rfl
      · split <;> rfl
    have hi' : (startVal zt (lo u wks w) f').instant = (startVal zt (lo u wks w) f).instant := by
      unfold startVal; split
      · rfl
      · split
        · rfl
        · rw [named_instant, named_instant]
          have : zt.woff false (lo u wks w) = zt.woff true (lo u wks w) := by omega
          cases f <;> cases f' <;> simp [this]
    refine ⟨startVal zt (lo u wks w) f', ?_, by rw [es]; exact hw, by rw [es]; exact hi'⟩
    unfold startOf bound at he ⊢
    simp only [hsub, Bool.false_eq_true, if_false, hr, not_true_eq_false] at he ⊢
    rw [edge_start_eq] at he ⊢
    split at he
    · rw [hw, if_pos (by assumption)]
    · cases he
  · intro he
    obtain ⟨es, hr⟩ := endOf_named hsub wke zt _ f s he
    have hw : (endVal zt (hi u wke w) f').w = (endVal zt (hi u wke w) f).w := by
      unfold endVal; split
      · rfl
      · split <;> rfl
    have hi' : (endVal zt (hi u wke w) f').instant = (endVal zt (hi u wke w) f).instant := by
      unfold endVal; split
      · rfl
      · split
        · rfl
        · rw [named_instant, named_instant]
          have : zt.woff false (hi u wke w) = zt.woff true (hi u wke w) := by omega
          cases f <;> cases f' <;> simp [this]
    refine ⟨endVal zt (hi u wke w) f', ?_, by rw [es]; exact hw, by rw [es]; exact hi'⟩
    unfold endOf bound at he ⊢
    simp only [hsub, Bool.false_eq_true, if_false, if_true, hr, not_true_eq_false] at he ⊢
    rw [edge_end_eq] at he ⊢
    split at he
    · rw [hw, if_pos (by assumption)]
    · cases he

/-! ### second, minute, hour (partial: the boundary label must be an ordinary wall time) -/

/-- C12 for sub-day units, start side — partial: `T = lo u x.w` neither skipped nor repeated.
    Missing: repeated/skipped `T` and units containing the edge of a gap/overlap (finding F11). -/
theorem subday_startOf_partial (u : U) (hsub : u.subDay = true) (wks wke : Int) (hc : weekCfg wks wke)
    (zt : Z) (h : zt.WF) (ux : Int) (f : Bool) (s : V)
    (hu : zt.unique (lo u wks (render zt ux)))
    (he : startOf u wks ⟨.named zt, render zt ux, f⟩ = .ok s) :
    s.instant ≤ ux ∧ sameUnit u wks s.w (render zt ux) ∧
    ¬ sameUnit u wks (render zt (s.instant - 1)) (render zt ux) ∧
    startOf u wks s = .ok s ∧ s.w = render zt s.instant := by
  have hll := (unit u wks wke hc).lo_lo (render zt ux)
  rw [unit_lo] at hll
  have hlo := (unit u wks wke hc).lo_le (render zt ux)
  rw [unit_lo] at hlo
  unfold startOf bound at he
  simp only [hsub, if_true, Bool.false_eq_true, if_false] at he
  by_cases hr : inRange (lo u wks (render zt ux)) = true
  · simp only [hr, not_true_eq_false, if_false] at he
    rw [create_unique zt _ f hu, if_pos hr] at he
    injection he with he
    subst he
    have hi' := unique_instant zt (lo u wks (render zt ux)) f hu
    refine ⟨?_, hll, ?_, ?_, ?_⟩
    · rw [hi']
      apply Classical.byContradiction; intro c
      have := before_first zt h _ ux hu.startOK (by omega)
      unfold render at *; omega
    · rw [hi']
      have hb := before_first zt h _ (lo u wks (render zt ux) - zt.woff false (lo u wks (render zt ux)) - 1)
        hu.startOK (by omega)
      have hl := (unit u wks wke hc).lo_le
        (render zt (lo u wks (render zt ux) - zt.woff false (lo u wks (render zt ux)) - 1))
      rw [unit_lo] at hl
      unfold sameUnit; unfold render at *; omega
    · unfold startOf bound
      simp only [hsub, if_true, Bool.false_eq_true, if_false, hll, hr, not_true_eq_false]
      rw [create_unique zt _ f hu, if_pos hr]
    · show lo u wks (render zt ux) = render zt (V.instant ⟨.named zt, lo u wks (render zt ux), f⟩)
      rw [hi']
      have hp := pre false zt.trs zt.init (lo u wks (render zt ux)) h hu.1
      simp only [render, Z.off, Z.woff] at hp ⊢; rw [hp]; omega
  · simp [hr] at he

/-- C12 for sub-day units, end side — partial, same restriction on `T = hi u x.w` -/
theorem subday_endOf_partial (u : U) (hsub : u.subDay = true) (wks wke : Int) (hc : weekCfg wks wke)
    (zt : Z) (h : zt.WF) (ux : Int) (f : Bool) (s : V)
    (hu : zt.unique (hi u wke (render zt ux)))
    (he : endOf u wke ⟨.named zt, render zt ux, f⟩ = .ok s) :
    ux ≤ s.instant ∧ sameUnit u wks s.w (render zt ux) ∧
    ¬ sameUnit u wks (render zt (s.instant + 1)) (render zt ux) ∧
    endOf u wke s = .ok s ∧ s.w = render zt s.instant := by
  have hhh := (unit u wks wke hc).hi_hi (render zt ux)
  have hlh := (unit u wks wke hc).lo_hi (render zt ux)
  rw [unit_hi] at hhh
  rw [unit_lo, unit_hi] at hlh
  have hhi := (unit u wks wke hc).le_hi (render zt ux)
  rw [unit_hi] at hhi
  unfold endOf bound at he
  simp only [hsub, if_true, Bool.false_eq_true, if_false] at he
  by_cases hr : inRange (hi u wke (render zt ux)) = true
  · simp only [hr, not_true_eq_false, if_false] at he
    rw [create_unique zt _ f hu, if_pos hr] at he
    injection he with he
    subst he
    have hi' : (⟨.named zt, hi u wke (render zt ux), f⟩ : V).instant =
        hi u wke (render zt ux) - zt.woff true (hi u wke (render zt ux)) := by
      rw [unique_instant zt _ f hu, hu.2]
    refine ⟨?_, hlh, ?_, ?_, ?_⟩
    · rw [hi']
      apply Classical.byContradiction; intro c
      have := after_last zt h _ ux hu.endOK (by omega)
      unfold render at *; omega
    · rw [hi']
      have hb := after_last zt h _ (hi u wke (render zt ux) - zt.woff true (hi u wke (render zt ux)) + 1)
        hu.endOK (by omega)
      intro hsame
      unfold sameUnit at hsame
      have e1 := (unit u wks wke hc).hi_lo
        (render zt (hi u wke (render zt ux) - zt.woff true (hi u wke (render zt ux)) + 1))
      have e2 := (unit u wks wke hc).hi_lo (render zt ux)
      have hh := (unit u wks wke hc).le_hi
        (render zt (hi u wke (render zt ux) - zt.woff true (hi u wke (render zt ux)) + 1))
      rw [unit_lo, unit_hi] at e1 e2
      rw [unit_hi] at hh
      rw [hsame, e2] at e1
      unfold render at *; omega
    · unfold endOf bound
      simp only [hsub, if_true, Bool.false_eq_true, if_false, hhh, hr, not_true_eq_false]
      rw [create_unique zt _ f hu, if_pos hr]
    · show hi u wke (render zt ux) = render zt (V.instant ⟨.named zt, hi u wke (render zt ux), f⟩)
      rw [hi']
      have hp := pre true zt.trs zt.init (hi u wke (render zt ux)) h hu.1
      simp only [render, Z.off, Z.woff] at hp ⊢; rw [hp]; omega
  · simp [hr] at he

/-! ### fixed offsets and naive values: full -/

/-- for a `FixedTimezone` or a naive value the result is the unit's first/last wall label with the same offset -/
theorem plain_bound (u : U) (wks wke : Int) (last : Bool) (x s : V)
    (hz : (∃ o, x.z = .fixed o) ∨ x.z = .naive) (he : bound u wks wke last x = .ok s) :
    s.w = (if last then hi u wke x.w else lo u wks x.w) ∧ s.offset = x.offset := by
  have key : ∀ T fl, create x.z T fl false = .ok s → s.w = T ∧ s.offset = x.offset := by
    intro T fl hcr
    unfold create at hcr
    rcases hz with ⟨o, hz⟩ | hz
    · rw [hz] at hcr; injection hcr with hcr; rw [← hcr]
      unfold V.offset; rw [hz]; exact ⟨rfl, rfl⟩
    · rw [hz] at hcr; injection hcr with hcr; rw [← hcr]
      unfold V.offset; rw [hz]; exact ⟨rfl, rfl⟩
  unfold bound at he
  by_cases hr : inRange (if last = true then hi u wke x.w else lo u wks x.w) = true
  · simp only [hr, not_true_eq_false, if_false] at he
    by_cases hs : u.subDay = true
    · simp only [hs, if_true] at he; exact key _ _ he
    · simp only [hs, Bool.false_eq_true, if_false] at he; unfold edge at he; exact key _ _ he
  · simp [hr] at he

/-- C12 for fixed offsets / naive values, all nine units, start side -/
theorem plain_startOf (u : U) (wks wke : Int) (hc : weekCfg wks wke) (x s : V)
    (hz : (∃ o, x.z = .fixed o) ∨ x.z = .naive) (he : startOf u wks x = .ok s) :
    s.instant ≤ x.instant ∧ sameUnit u wks s.w x.w ∧
    ¬ sameUnit u wks (s.instant - 1 + x.offset) x.w := by
  obtain ⟨ew, eo⟩ := plain_bound u wks 0 false x s hz he
  simp only [Bool.false_eq_true, if_false] at ew
  have h1 := (unit u wks wke hc).lo_le x.w
  have h2 := (unit u wks wke hc).lo_lo x.w
  have h3 := (unit u wks wke hc).lo_le (lo u wks x.w - 1)
  rw [unit_lo] at h1 h2 h3
  unfold V.instant sameUnit
  rw [ew, eo]
  refine ⟨by omega, h2, ?_⟩
  have : lo u wks x.w - x.offset - 1 + x.offset = lo u wks x.w - 1 := by omega
  rw [this]; omega

/-- C12 for fixed offsets / naive values, all nine units, end side -/
theorem plain_endOf (u : U) (wks wke : Int) (hc : weekCfg wks wke) (x s : V)
    (hz : (∃ o, x.z = .fixed o) ∨ x.z = .naive) (he : endOf u wke x = .ok s) :
    x.instant ≤ s.instant ∧ sameUnit u wks s.w x.w ∧
    ¬ sameUnit u wks (s.instant + 1 + x.offset) x.w := by
  obtain ⟨ew, eo⟩ := plain_bound u 0 wke true x s hz he
  simp only [if_true] at ew
  have h1 := (unit u wks wke hc).le_hi x.w
  have h2 := (unit u wks wke hc).lo_hi x.w
  have h3 := (unit u wks wke hc).le_hi (hi u wke x.w + 1)
  have e1 := (unit u wks wke hc).hi_lo (hi u wke x.w + 1)
  have e2 := (unit u wks wke hc).hi_lo x.w
  rw [unit_hi] at h1 h3
  rw [unit_lo, unit_hi] at h2 e1 e2
  unfold V.instant sameUnit
  rw [ew, eo]
  refine ⟨by omega, h2, ?_⟩
  have : hi u wke x.w - x.offset + 1 + x.offset = hi u wke x.w + 1 := by omega
  rw [this]
  intro hsame
  rw [hsame, e2] at e1
  omega

/-! ### Dates: full -/

/-- `Date.start_of(u)`: first day of the unit, not after the date, same unit, the day before is in another unit,
    idempotent (a Date is the wall value of its midnight) -/
theorem date_startOf (u : U) (wks wke : Int) (hc : weekCfg wks wke) (w s : Int)
    (he : boundDate u wks wke false w = .ok s) :
    s ≤ w ∧ sameUnit u wks s w ∧ ¬ sameUnit u wks (s - 1) w ∧ boundDate u wks wke false s = .ok s := by
  have h1 := (unit u wks wke hc).lo_le w
  have h2 := (unit u wks wke hc).lo_lo w
  have h3 := (unit u wks wke hc).lo_le (lo u wks w - 1)
  rw [unit_lo] at h1 h2 h3
  unfold boundDate at he ⊢
  split at he
  · cases he
  · rename_i hs
    simp only [Bool.false_eq_true, if_false] at he ⊢
    split at he
    · cases he
    · rename_i hr
      injection he with he
      subst he
      unfold sameUnit
      refine ⟨h1, h2, by omega, ?_⟩
      rw [if_neg hs, h2, if_neg hr]

/-- `Date.end_of(u)`: last day of the unit (as the wall value of its midnight) -/
theorem date_endOf (u : U) (hsub : u.subDay = false) (wks wke : Int) (hc : weekCfg wks wke) (w s : Int)
    (he : boundDate u wks wke true w = .ok s) :
    s + (DAY - 1) = hi u wke w ∧ sameUnit u wks (s + (DAY - 1)) w ∧ ¬ sameUnit u wks (s + DAY) w := by
  have h2 := (unit u wks wke hc).lo_hi w
  have h3 := (unit u wks wke hc).le_hi (hi u wke w + 1)
  have e1 := (unit u wks wke hc).hi_lo (hi u wke w + 1)
  have e2 := (unit u wks wke hc).hi_lo w
  rw [unit_hi] at h3
  rw [unit_lo, unit_hi] at h2 e1 e2
  unfold boundDate at he
  simp only [hsub, Bool.false_eq_true, if_false, if_true] at he
  split at he
  · cases he
  · injection he with he
    subst he
    unfold sameUnit
    have e : hi u wke w - (DAY - 1) + (DAY - 1) = hi u wke w := by omega
    have e' : hi u wke w - (DAY - 1) + DAY = hi u wke w + 1 := by omega
    rw [e, e']
    refine ⟨rfl, h2, ?_⟩
    intro hsame
    rw [hsame, e2] at e1
    omega

/-! ### counterexamples for the excluded regions (small zone tables) -/

/-- executable reading of a result (wall, instant, fold), for the concrete statements below -/
def res (r : Except DTOps.Err V) : Option (Int × Int × Bool) :=
  match r with
  | .ok s => some (s.w, s.instant, s.fold)
  | .error _ => none

/-- at 23:30 UTC of day 0 the clock jumps from +0 to +1 h: wall values [23:30, 00:30) are skipped (a gap that
    straddles midnight, as America/Toronto 1919-03-30/31) -/
def zStraddle : Z := ⟨0, [⟨84600000000, 3600000000⟩]⟩

/-- start_of("day") of the value at instant 23:45 UTC (00:45 +01:00 on the day after): midnight lies strictly
    inside the gap, the forward resolution is 01:00 +01:00 = instant 24:00 UTC, which is after x -/
theorem straddle_counterexample :
    zStraddle.WF ∧ ¬ zStraddle.startOK (lo .day 0 (render zStraddle 85500000000)) ∧
    res (startOf .day 0 ⟨.named zStraddle, render zStraddle 85500000000, false⟩) = some (90000000000, 86400000000, false) ∧
    ¬ (86400000000 : Int) ≤ 85500000000 := by
  refine ⟨trivial, by decide, by decide, by decide⟩

/-- at 10:00 UTC the clock jumps from +0 to +0:30: wall values [10:00, 10:30) are skipped -/
def zHalf : Z := ⟨0, [⟨36000000000, 1800000000⟩]⟩

/-- start_of("hour") of 10:30 (+00:30, fold=0): 10:00 is skipped and resolved backwards to 09:30, another unit -/
theorem subday_counterexample :
    zHalf.WF ∧ ¬ zHalf.unique (lo .hour 0 (render zHalf 36000000000)) ∧
    res (startOf .hour 0 ⟨.named zHalf, render zHalf 36000000000, false⟩) = some (34200000000, 34200000000, false) ∧
    ¬ sameUnit .hour 0 34200000000 (render zHalf 36000000000) := by
  refine ⟨trivial, by decide, by decide, by unfold sameUnit; decide⟩

/-! ### second, minute, hour: full statements whenever no edge of a gap/overlap falls inside the unit

Outside finding F11b the sub-day units satisfy the whole of C12 with the oracle's reading of a sub-day unit (same
truncated wall label AND same UTC offset — an hour shown twice is two units). `x = ⟨zt, w, f⟩` is ANY value of the
zone whose wall time exists (`hvalid`); for a repeated `w` the fold `f` selects which of the two instants x denotes. -/

/-- no edge of a gap or overlap falls inside the unit of `w`: the pair (first-pass offset, second-pass offset) is
    the same for every wall label of the unit (so the labels are all ordinary, or all repeated, or all skipped) -/
def noEdge (zt : Z) (u : U) (wks wke w : Int) : Prop :=
  ∀ T, lo u wks w ≤ T → T ≤ hi u wke w → zt.woff false T = zt.woff false w ∧ zt.woff true T = zt.woff true w

/-- nominal length of a sub-day unit in microseconds -/
def nominal : U → Int
  | .second => US
  | .minute => MINUTE
  | _ => HOUR

/-- toy Europe/Paris autumn: at 01:00 UTC the clock goes from +2 h back to +1 h; the wall hour [02:00, 03:00) is
    shown twice (instants [00:00, 01:00) and [01:00, 02:00) UTC) -/
def zOver : Z := ⟨7200000000, [⟨3600000000, 3600000000⟩]⟩

/-- 02:30 in `zOver` (repeated): its hour is exactly the repeated hour, so no edge lies inside it -/
theorem zOver_noEdge : zOver.WF ∧ noEdge zOver .hour 0 0 9000000000 ∧
    zOver.woff false 9000000000 > zOver.woff true 9000000000 := by
  refine ⟨trivial, ?_, by decide⟩
  intro T h1 h2
  have e1 : lo .hour 0 9000000000 = 7200000000 := by decide
  have e2 : hi .hour 0 9000000000 = 10799999999 := by decide
  have e3 : zOver.woff false 9000000000 = 7200000000 := by decide
  have e4 : zOver.woff true 9000000000 = 3600000000 := by decide
  rw [e1] at h1; rw [e2] at h2; rw [e3, e4]
  simp only [Z.woff, zOver, wallOff, thr]
  constructor
  · rw [if_pos (by simp; omega)]
  · rw [if_neg (by simp; omega)]

/-- 14:00 in `zHalf` (ordinary, after the 30-minute change): an ordinary hour -/
theorem zHalf_noEdge : noEdge zHalf .hour 0 0 50400000000 ∧ zHalf.woff false 50400000000 = zHalf.woff true 50400000000 := by
  refine ⟨?_, by decide⟩
  intro T h1 h2
  have e1 : lo .hour 0 50400000000 = 50400000000 := by decide
  have e2 : hi .hour 0 50400000000 = 53999999999 := by decide
  have e3 : zHalf.woff false 50400000000 = 1800000000 := by decide
  have e4 : zHalf.woff true 50400000000 = 1800000000 := by decide
  rw [e1] at h1; rw [e2] at h2; rw [e3, e4]
  simp only [Z.woff, zHalf, wallOff, thr]
  constructor
  · rw [if_neg (by simp; omega)]
  · rw [if_neg (by simp; omega)]

/-- the length of a sub-day unit on the wall clock is its nominal length: 1 s, 1 min, 1 h (minus the last µs) -/
theorem subday_length (u : U) (hsub : u.subDay = true) (wks wke w : Int) :
    hi u wke w - lo u wks w = nominal u - 1 := by
  rw [lo_eq, hi_eq]
  cases u <;> simp only [U.subDay, Bool.false_eq_true] at hsub <;> simp only [loC, hiC, nominal] <;> omega

example : hi .minute 0 9000000000 - lo .minute 0 9000000000 = 59999999 := by decide

section subday
variable (u : U) (hsub : u.subDay = true) (wks wke : Int) (hc : weekCfg wks wke) (zt : Z)
variable (w : Int) (f : Bool)
variable (hvalid : ¬ (zt.woff true w > zt.woff false w)) (hconst : noEdge zt u wks wke w)
include hsub hc hvalid hconst

/-- what the model returns, start side: the unit's first label with x's own fold -/
theorem subday_startOf_named (s : V) (he : startOf u wks ⟨.named zt, w, f⟩ = .ok s) :
    s = ⟨.named zt, lo u wks w, f⟩ ∧ inRange (lo u wks w) = true := by
  have hlo := (unit u wks wke hc).lo_le w
  have hhi := (unit u wks wke hc).le_hi w
  rw [unit_lo] at hlo; rw [unit_hi] at hhi
  obtain ⟨c0, c1⟩ := hconst (lo u wks w) (Int.le_refl _) (by omega)
  have hv : ¬ zt.woff true (lo u wks w) > zt.woff false (lo u wks w) := by rw [c0, c1]; exact hvalid
  unfold startOf bound at he
  simp only [hsub, if_true, Bool.false_eq_true, if_false] at he
  by_cases hr : inRange (lo u wks w) = true
  · simp only [hr, not_true_eq_false, if_false] at he
    rw [create_valid zt _ f hv, if_pos hr] at he
    injection he with he; exact ⟨he.symm, hr⟩
  · simp [hr] at he

example : res (startOf .hour 0 ⟨.named zOver, 9000000000, false⟩) = some (7200000000, 0, false) := by decide

/-- what the model returns, end side: the unit's last label with x's own fold -/
theorem subday_endOf_named (s : V) (he : endOf u wke ⟨.named zt, w, f⟩ = .ok s) :
    s = ⟨.named zt, hi u wke w, f⟩ ∧ inRange (hi u wke w) = true := by
  have hlo := (unit u wks wke hc).lo_le w
  have hhi := (unit u wks wke hc).le_hi w
  rw [unit_lo] at hlo; rw [unit_hi] at hhi
  obtain ⟨c0, c1⟩ := hconst (hi u wke w) (by omega) (Int.le_refl _)
  have hv : ¬ zt.woff true (hi u wke w) > zt.woff false (hi u wke w) := by rw [c0, c1]; exact hvalid
  unfold endOf bound at he
  simp only [hsub, if_true, Bool.false_eq_true, if_false] at he
  by_cases hr : inRange (hi u wke w) = true
  · simp only [hr, not_true_eq_false, if_false] at he
    rw [create_valid zt _ f hv, if_pos hr] at he
    injection he with he; exact ⟨he.symm, hr⟩
  · simp [hr] at he

example : res (endOf .hour 0 ⟨.named zOver, 9000000000, true⟩) = some (10799999999, 7199999999, true) := by decide

/-- C12 for second/minute/hour, start side, FULL: start_of(u) is not after x, lies `w - lo` before it, is in the same
    unit with the same UTC offset (same zone, x's own fold: it stays in x's pass of a repeated hour), the microsecond
    before it is in another unit (another label-unit or another offset), start_of is idempotent and the result is a
    genuine local time of the zone -/
theorem subday_startOf_noedge (h : zt.WF) (s : V) (he : startOf u wks ⟨.named zt, w, f⟩ = .ok s) :
    s.instant ≤ (⟨.named zt, w, f⟩ : V).instant ∧
    s.instant = (⟨.named zt, w, f⟩ : V).instant - (w - lo u wks w) ∧
    sameUnit u wks s.w w ∧ s.offset = (⟨.named zt, w, f⟩ : V).offset ∧ s.fold = f ∧
    ¬ (sameUnit u wks (render zt (s.instant - 1)) w ∧ zt.off (s.instant - 1) = (⟨.named zt, w, f⟩ : V).offset) ∧
    startOf u wks s = .ok s ∧ s.w = render zt s.instant := by
  have hlo := (unit u wks wke hc).lo_le w
  have hhi := (unit u wks wke hc).le_hi w
  have hll := (unit u wks wke hc).lo_lo w
  have hl1 := (unit u wks wke hc).lo_le (lo u wks w - 1)
  rw [unit_lo] at hlo hll hl1; rw [unit_hi] at hhi
  obtain ⟨c0, c1⟩ := hconst (lo u wks w) (Int.le_refl _) (by omega)
  have cf : zt.woff f (lo u wks w) = zt.woff f w := by cases f <;> assumption
  have hv : ¬ zt.woff true (lo u wks w) > zt.woff false (lo u wks w) := by rw [c0, c1]; exact hvalid
  obtain ⟨es, hr⟩ := subday_startOf_named u hsub wks wke hc zt w f hvalid hconst s he
  subst es
  simp only [named_instant, named_offset, cf]
  refine ⟨by omega, by omega, hll, trivial, trivial, ?_, ?_, ?_⟩
  · rintro ⟨hsame, hoff⟩
    unfold sameUnit render at hsame
    rw [hoff] at hsame
    have e : lo u wks w - zt.woff f w - 1 + zt.woff f w = lo u wks w - 1 := by omega
    rw [e] at hsame
    omega
  · unfold startOf bound
    simp only [hsub, if_true, Bool.false_eq_true, if_false, hll, hr, not_true_eq_false]
    rw [create_valid zt _ f hv, if_pos hr]
  · have := valid_off zt h (lo u wks w) f hv
    rw [cf] at this
    unfold render; rw [this]; omega

example : zOver.WF ∧ noEdge zOver .hour 0 0 9000000000 ∧ ¬ (zOver.woff true 9000000000 > zOver.woff false 9000000000) ∧
    res (startOf .hour 0 ⟨.named zOver, 9000000000, true⟩) = some (7200000000, 3600000000, true) :=
  ⟨zOver_noEdge.1, zOver_noEdge.2.1, by decide, by decide⟩

/-- C12 for second/minute/hour, end side, FULL (mirror image of `subday_startOf_noedge`) -/
theorem subday_endOf_noedge (h : zt.WF) (s : V) (he : endOf u wke ⟨.named zt, w, f⟩ = .ok s) :
    (⟨.named zt, w, f⟩ : V).instant ≤ s.instant ∧
    s.instant = (⟨.named zt, w, f⟩ : V).instant + (hi u wke w - w) ∧
    sameUnit u wks s.w w ∧ s.offset = (⟨.named zt, w, f⟩ : V).offset ∧ s.fold = f ∧
    ¬ (sameUnit u wks (render zt (s.instant + 1)) w ∧ zt.off (s.instant + 1) = (⟨.named zt, w, f⟩ : V).offset) ∧
    endOf u wke s = .ok s ∧ s.w = render zt s.instant := by
  have hlo := (unit u wks wke hc).lo_le w
  have hhi := (unit u wks wke hc).le_hi w
  have hhh := (unit u wks wke hc).hi_hi w
  have hlh := (unit u wks wke hc).lo_hi w
  have e1 := (unit u wks wke hc).hi_lo (hi u wke w + 1)
  have e2 := (unit u wks wke hc).hi_lo w
  have hh1 := (unit u wks wke hc).le_hi (hi u wke w + 1)
  rw [unit_lo] at hlo; rw [unit_hi] at hhi hhh hh1; rw [unit_lo, unit_hi] at hlh e1 e2
  obtain ⟨c0, c1⟩ := hconst (hi u wke w) (by omega) (Int.le_refl _)
  have cf : zt.woff f (hi u wke w) = zt.woff f w := by cases f <;> assumption
  have hv : ¬ zt.woff true (hi u wke w) > zt.woff false (hi u wke w) := by rw [c0, c1]; exact hvalid
  obtain ⟨es, hr⟩ := subday_endOf_named u hsub wks wke hc zt w f hvalid hconst s he
  subst es
  simp only [named_instant, named_offset, cf]
  refine ⟨by omega, by omega, hlh, trivial, trivial, ?_, ?_, ?_⟩
  · rintro ⟨hsame, hoff⟩
    unfold sameUnit render at hsame
    rw [hoff] at hsame
    have e : hi u wke w - zt.woff f w + 1 + zt.woff f w = hi u wke w + 1 := by omega
    rw [e] at hsame
    rw [hsame, e2] at e1
    omega
  · unfold endOf bound
    simp only [hsub, if_true, Bool.false_eq_true, if_false, hhh, hr, not_true_eq_false]
    rw [create_valid zt _ f hv, if_pos hr]
  · have := valid_off zt h (hi u wke w) f hv
    rw [cf] at this
    unfold render; rw [this]; omega

example : res (endOf .hour 0 ⟨.named zOver, 9000000000, false⟩) = some (10799999999, 3599999999, false) := by decide

/-- start_of(u) ≤ x ≤ end_of(u) as instants, both carry x's UTC offset, and the unit has its nominal length as a
    span of instants (also inside a repeated hour: each pass is a whole hour of its own) -/
theorem subday_start_le_end_noedge (s e : V) (hs : startOf u wks ⟨.named zt, w, f⟩ = .ok s)
    (hE : endOf u wke ⟨.named zt, w, f⟩ = .ok e) :
    s.instant ≤ (⟨.named zt, w, f⟩ : V).instant ∧ (⟨.named zt, w, f⟩ : V).instant ≤ e.instant ∧
    e.instant - s.instant = hi u wke w - lo u wks w ∧ e.instant - s.instant = nominal u - 1 ∧
    s.offset = e.offset := by
  have hlo := (unit u wks wke hc).lo_le w
  have hhi := (unit u wks wke hc).le_hi w
  rw [unit_lo] at hlo; rw [unit_hi] at hhi
  have hlen := subday_length u hsub wks wke w
  obtain ⟨a0, a1⟩ := hconst (lo u wks w) (Int.le_refl _) (by omega)
  obtain ⟨b0, b1⟩ := hconst (hi u wke w) (by omega) (Int.le_refl _)
  have ca : zt.woff f (lo u wks w) = zt.woff f w := by cases f <;> assumption
  have cb : zt.woff f (hi u wke w) = zt.woff f w := by cases f <;> assumption
  obtain ⟨es, _⟩ := subday_startOf_named u hsub wks wke hc zt w f hvalid hconst s hs
  obtain ⟨ee, _⟩ := subday_endOf_named u hsub wks wke hc zt w f hvalid hconst e hE
  subst es; subst ee
  simp only [named_instant, named_offset, ca, cb]
  refine ⟨by omega, by omega, by omega, by omega, trivial⟩

example : res (startOf .hour 0 ⟨.named zHalf, 52000000000, false⟩) = some (50400000000, 48600000000, false) ∧
    res (endOf .hour 0 ⟨.named zHalf, 52000000000, false⟩) = some (53999999999, 52199999999, false) := by decide

/-- start_of/end_of delimit EXACTLY the unit: an instant lies in x's unit (its rendering has x's truncated label
    and its UTC offset is x's) iff it lies between start_of(u) and end_of(u) -/
theorem subday_unit_exact_noedge (h : zt.WF) (s e : V) (hs : startOf u wks ⟨.named zt, w, f⟩ = .ok s)
    (hE : endOf u wke ⟨.named zt, w, f⟩ = .ok e) (p : Int) :
    (sameUnit u wks (render zt p) w ∧ zt.off p = (⟨.named zt, w, f⟩ : V).offset) ↔
      (s.instant ≤ p ∧ p ≤ e.instant) := by
  have hlo := (unit u wks wke hc).lo_le w
  have hhi := (unit u wks wke hc).le_hi w
  rw [unit_lo] at hlo; rw [unit_hi] at hhi
  obtain ⟨a0, a1⟩ := hconst (lo u wks w) (Int.le_refl _) (by omega)
  obtain ⟨b0, b1⟩ := hconst (hi u wke w) (by omega) (Int.le_refl _)
  have ca : zt.woff f (lo u wks w) = zt.woff f w := by cases f <;> assumption
  have cb : zt.woff f (hi u wke w) = zt.woff f w := by cases f <;> assumption
  obtain ⟨es, _⟩ := subday_startOf_named u hsub wks wke hc zt w f hvalid hconst s hs
  obtain ⟨ee, _⟩ := subday_endOf_named u hsub wks wke hc zt w f hvalid hconst e hE
  subst es; subst ee
  simp only [named_instant, named_offset, ca, cb]
  constructor
  · rintro ⟨hsame, hoff⟩
    unfold sameUnit render at hsame
    rw [hoff] at hsame
    have g1 := (unit u wks wke hc).lo_le (p + zt.woff f w)
    have g2 := (unit u wks wke hc).le_hi (p + zt.woff f w)
    have g3 := (unit u wks wke hc).hi_lo (p + zt.woff f w)
    have g4 := (unit u wks wke hc).hi_lo w
    rw [unit_lo] at g1; rw [unit_hi] at g2; rw [unit_lo, unit_hi] at g3 g4
    rw [hsame, g4] at g3
    omega
  · rintro ⟨p1, p2⟩
    obtain ⟨t0, t1⟩ := hconst (p + zt.woff f w) (by omega) (by omega)
    have tf : zt.woff f (p + zt.woff f w) = zt.woff f w := by cases f <;> assumption
    have tv : ¬ zt.woff true (p + zt.woff f w) > zt.woff false (p + zt.woff f w) := by rw [t0, t1]; exact hvalid
    have ho := valid_off zt h (p + zt.woff f w) f tv
    rw [tf] at ho
    have e : p + zt.woff f w - zt.woff f w = p := by omega
    rw [e] at ho
    refine ⟨?_, ho⟩
    unfold sameUnit render; rw [ho]
    exact ((unit u wks wke hc).block (p + zt.woff f w) w (by rw [unit_lo]; omega) (by rw [unit_hi]; omega)).1

-- both sides true (an instant of the second pass), both sides false (an instant of the first pass) for f = true
example : sameUnit .hour 0 (render zOver 5000000000) 9000000000 ∧ zOver.off 5000000000 = 3600000000 ∧
    ¬ zOver.off 1000000000 = 3600000000 := by unfold sameUnit; decide

/-- the result depends only on (zone, instant): when x's wall time is not repeated, its fold bit is irrelevant -/
theorem subday_origin_noedge (hnr : zt.woff false w = zt.woff true w) (f' : Bool) (s : V) :
    (startOf u wks ⟨.named zt, w, f⟩ = .ok s →
      ∃ s', startOf u wks ⟨.named zt, w, f'⟩ = .ok s' ∧ s'.w = s.w ∧ s'.instant = s.instant ∧ s'.offset = s.offset) ∧
    (endOf u wke ⟨.named zt, w, f⟩ = .ok s →
      ∃ s', endOf u wke ⟨.named zt, w, f'⟩ = .ok s' ∧ s'.w = s.w ∧ s'.instant = s.instant ∧ s'.offset = s.offset) := by
  have hlo := (unit u wks wke hc).lo_le w
  have hhi := (unit u wks wke hc).le_hi w
  rw [unit_lo] at hlo; rw [unit_hi] at hhi
  constructor
  · intro he
    obtain ⟨c0, c1⟩ := hconst (lo u wks w) (Int.le_refl _) (by omega)
    have hv : ¬ zt.woff true (lo u wks w) > zt.woff false (lo u wks w) := by rw [c0, c1]; exact hvalid
    obtain ⟨es, hr⟩ := subday_startOf_named u hsub wks wke hc zt w f hvalid hconst s he
    subst es
    refine ⟨⟨.named zt, lo u wks w, f'⟩, ?_, rfl, ?_, ?_⟩
    · unfold startOf bound
      simp only [hsub, if_true, Bool.false_eq_true, if_false, hr, not_true_eq_false]
      rw [create_valid zt _ f' hv, if_pos hr]
    · simp only [named_instant]; cases f <;> cases f' <;> omega
    · simp only [named_offset]; cases f <;> cases f' <;> omega
  · intro he
    obtain ⟨c0, c1⟩ := hconst (hi u wke w) (by omega) (Int.le_refl _)
    have hv : ¬ zt.woff true (hi u wke w) > zt.woff false (hi u wke w) := by rw [c0, c1]; exact hvalid
    obtain ⟨es, hr⟩ := subday_endOf_named u hsub wks wke hc zt w f hvalid hconst s he
    subst es
    refine ⟨⟨.named zt, hi u wke w, f'⟩, ?_, rfl, ?_, ?_⟩
    · unfold endOf bound
      simp only [hsub, if_true, Bool.false_eq_true, if_false, hr, not_true_eq_false]
      rw [create_valid zt _ f' hv, if_pos hr]
    · simp only [named_instant]; cases f <;> cases f' <;> omega
    · simp only [named_offset]; cases f <;> cases f' <;> omega

example : noEdge zHalf .hour 0 0 50400000000 ∧ zHalf.woff false 50400000000 = zHalf.woff true 50400000000 ∧
    res (startOf .hour 0 ⟨.named zHalf, 50400000000, true⟩) = some (50400000000, 48600000000, true) ∧
    res (startOf .hour 0 ⟨.named zHalf, 50400000000, false⟩) = some (50400000000, 48600000000, false) :=
  ⟨zHalf_noEdge.1, zHalf_noEdge.2, by decide, by decide⟩

end subday

section passes
variable (u : U) (hsub : u.subDay = true) (wks wke : Int) (hc : weekCfg wks wke) (zt : Z) (w : Int)
variable (hrep : zt.woff false w > zt.woff true w) (hconst : noEdge zt u wks wke w)
include hsub hc hrep hconst

/-- a repeated wall time: the two folds of x give the two distinct units — the same labels, each with its own
    offset, the second-pass results later by exactly the length of the overlap -/
theorem subday_two_passes_noedge (s0 s1 e0 e1 : V)
    (h0 : startOf u wks ⟨.named zt, w, false⟩ = .ok s0) (h1 : startOf u wks ⟨.named zt, w, true⟩ = .ok s1)
    (g0 : endOf u wke ⟨.named zt, w, false⟩ = .ok e0) (g1 : endOf u wke ⟨.named zt, w, true⟩ = .ok e1) :
    s0.w = s1.w ∧ e0.w = e1.w ∧ s0.fold = false ∧ s1.fold = true ∧ e0.fold = false ∧ e1.fold = true ∧
    s0.offset = zt.woff false w ∧ e0.offset = zt.woff false w ∧
    s1.offset = zt.woff true w ∧ e1.offset = zt.woff true w ∧
    s1.instant - s0.instant = zt.woff false w - zt.woff true w ∧
    e1.instant - e0.instant = zt.woff false w - zt.woff true w := by
  have hlo := (unit u wks wke hc).lo_le w
  have hhi := (unit u wks wke hc).le_hi w
  rw [unit_lo] at hlo; rw [unit_hi] at hhi
  have hvalid : ¬ (zt.woff true w > zt.woff false w) := by omega
  obtain ⟨a0, a1⟩ := hconst (lo u wks w) (Int.le_refl _) (by omega)
  obtain ⟨b0, b1⟩ := hconst (hi u wke w) (by omega) (Int.le_refl _)
  obtain ⟨x0, _⟩ := subday_startOf_named u hsub wks wke hc zt w false hvalid hconst s0 h0
  obtain ⟨x1, _⟩ := subday_startOf_named u hsub wks wke hc zt w true hvalid hconst s1 h1
  obtain ⟨y0, _⟩ := subday_endOf_named u hsub wks wke hc zt w false hvalid hconst e0 g0
  obtain ⟨y1, _⟩ := subday_endOf_named u hsub wks wke hc zt w true hvalid hconst e1 g1
  subst x0; subst x1; subst y0; subst y1
  simp only [named_instant, named_offset, a0, a1, b0, b1]
  refine ⟨?_, ?_, ?_, ?_, ?_, ?_, ?_, ?_, ?_, ?_, ?_, ?_⟩ <;> first | trivial | omega

example : noEdge zOver .hour 0 0 9000000000 ∧ zOver.woff false 9000000000 > zOver.woff true 9000000000 ∧
    res (endOf .hour 0 ⟨.named zOver, 9000000000, true⟩) = some (10799999999, 7199999999, true) :=
  ⟨zOver_noEdge.2.1, zOver_noEdge.2.2, by decide⟩

/-- the two passes of a repeated unit are disjoint as sets of instants: the first pass ends before the second
    begins -/
theorem subday_passes_disjoint_noedge (h : zt.WF) (e0 s1 : V)
    (g0 : endOf u wke ⟨.named zt, w, false⟩ = .ok e0) (h1 : startOf u wks ⟨.named zt, w, true⟩ = .ok s1) :
    e0.instant < s1.instant := by
  have hlo := (unit u wks wke hc).lo_le w
  have hhi := (unit u wks wke hc).le_hi w
  rw [unit_lo] at hlo; rw [unit_hi] at hhi
  have hvalid : ¬ (zt.woff true w > zt.woff false w) := by omega
  obtain ⟨a0, a1⟩ := hconst (lo u wks w) (Int.le_refl _) (by omega)
  obtain ⟨b0, b1⟩ := hconst (hi u wke w) (by omega) (Int.le_refl _)
  obtain ⟨x1, _⟩ := subday_startOf_named u hsub wks wke hc zt w true hvalid hconst s1 h1
  obtain ⟨y0, _⟩ := subday_endOf_named u hsub wks wke hc zt w false hvalid hconst e0 g0
  subst x1; subst y0
  simp only [named_instant, a1, b0]
  apply Classical.byContradiction; intro c
  -- otherwise the last instant of the first pass would also be an instant of the second pass
  obtain ⟨t0, t1⟩ := hconst (hi u wke w - (zt.woff false w - zt.woff true w)) (by omega) (by omega)
  have tv : ¬ zt.woff true (hi u wke w - (zt.woff false w - zt.woff true w)) >
      zt.woff false (hi u wke w - (zt.woff false w - zt.woff true w)) := by rw [t0, t1]; exact hvalid
  have hv : ¬ zt.woff true (hi u wke w) > zt.woff false (hi u wke w) := by rw [b0, b1]; exact hvalid
  have o1 := valid_off zt h (hi u wke w) false hv
  have o2 := valid_off zt h (hi u wke w - (zt.woff false w - zt.woff true w)) true tv
  rw [b0] at o1; rw [t1] at o2
  have e : hi u wke w - (zt.woff false w - zt.woff true w) - zt.woff true w = hi u wke w - zt.woff false w := by omega
  rw [e] at o2
  omega

example : res (startOf .hour 0 ⟨.named zOver, 9000000000, false⟩) = some (7200000000, 0, false) ∧
    res (startOf .hour 0 ⟨.named zOver, 9000000000, true⟩) = some (7200000000, 3600000000, true) ∧
    res (endOf .hour 0 ⟨.named zOver, 9000000000, false⟩) = some (10799999999, 3599999999, false) := by decide

end passes

/-! ### `noEdge` is the right hypothesis -/

/-- a unit all of whose wall labels are ordinary contains no edge -/
theorem noEdge_of_unique_all (u : U) (wks wke : Int) (hc : weekCfg wks wke) (zt : Z) (h : zt.WF) (w : Int)
    (hall : ∀ T, lo u wks w ≤ T → T ≤ hi u wke w → zt.unique T) : noEdge zt u wks wke w := by
  have hlo := (unit u wks wke hc).lo_le w
  have hhi := (unit u wks wke hc).le_hi w
  rw [unit_lo] at hlo; rw [unit_hi] at hhi
  exact const_of_unique_range zt h _ _ w hlo hhi hall

example : zHalf.unique 50400000000 ∧ zHalf.unique 53999999999 := by decide

/-- conversely, a unit of an existing wall time without an edge consists of ordinary labels only or of repeated
    labels only (an hour shown twice), and `noEdge` is the same for every label of the unit -/
theorem noEdge_kind (u : U) (wks wke : Int) (hc : weekCfg wks wke) (zt : Z) (h : zt.WF) (w : Int)
    (hvalid : ¬ (zt.woff true w > zt.woff false w)) (hconst : noEdge zt u wks wke w) :
    ((∀ T, lo u wks w ≤ T → T ≤ hi u wke w → zt.unique T) ∨
     (∀ T, lo u wks w ≤ T → T ≤ hi u wke w → zt.woff false T > zt.woff true T)) ∧
    (∀ v, lo u wks w ≤ v → v ≤ hi u wke w → noEdge zt u wks wke v) := by
  constructor
  · by_cases c : zt.woff false w = zt.woff true w
    · left; intro T h1 h2
      obtain ⟨c0, c1⟩ := hconst T h1 h2
      exact ⟨not_skipped_of_le zt h T (by rw [c0, c1]; exact hvalid), by rw [c0, c1]; exact c⟩
    · right; intro T h1 h2
      obtain ⟨c0, c1⟩ := hconst T h1 h2
      rw [c0, c1]; omega
  · intro v h1 h2 T t1 t2
    obtain ⟨bl, bh⟩ := (unit u wks wke hc).block v w (by rw [unit_lo]; exact h1) (by rw [unit_hi]; exact h2)
    rw [unit_lo] at bl; rw [unit_hi] at bh
    rw [bl] at t1; rw [bh] at t2
    obtain ⟨c0, c1⟩ := hconst T t1 t2
    obtain ⟨d0, d1⟩ := hconst v h1 h2
    exact ⟨by rw [c0, d0], by rw [c1, d1]⟩

example : zOver.woff false 7200000000 > zOver.woff true 7200000000 ∧
    zOver.woff false 10799999999 > zOver.woff true 10799999999 ∧ zOver.unique 10800000000 := by decide

/-- the excluded region is F11b: in `zHalf` the hour of 10:30 contains the end of the gap [10:00, 10:30) -/
example : ¬ noEdge zHalf .hour 0 0 (render zHalf 36000000000) := by
  intro hn
  have := (hn 36000000000 (by decide) (by decide)).1
  revert this; decide

/-! ### non-vacuity: the hypotheses are satisfiable on the interesting inputs -/

/-- America/Sao_Paulo-like: at 03:00 UTC of day 1 the clock jumps from -3 h to -2 h; midnight of day 1 is skipped -/
def zMid : Z := ⟨-10800000000, [⟨97200000000, -7200000000⟩]⟩

example : zMid.WF := trivial
-- F11 itself: a fold=0 value at 10:00 on the gap day; midnight is the first skipped value; result 01:00 -02:00
example : zMid.startOK (lo .day 0 (render zMid 129600000000)) := by decide
example : res (startOf .day 0 ⟨.named zMid, render zMid 129600000000, false⟩) = some (90000000000, 97200000000, false) := by decide
example : weekCfg 4 3 := by decide   -- weeks starting on Friday: day 1 (1970-01-02) starts the week, its midnight is skipped
example : res (startOf .week 4 ⟨.named zMid, render zMid 129600000000, true⟩) = some (90000000000, 97200000000, false) := by decide
-- an end label that is the last skipped value of a gap: end_of("day") of day 0 is 23:59:59.999999 -03:00
example : zMid.endOK (hi .day 0 (render zMid 50000000000)) := by decide
example : res (endOf .day 0 ⟨.named zMid, render zMid 50000000000, true⟩) = some (86399999999, 97199999999, true) := by decide
example : zHalf.unique (lo .hour 0 (render zHalf 50000000000)) := by decide
example : res (startOf .hour 0 ⟨.named zHalf, render zHalf 50000000000, true⟩) = some (50400000000, 48600000000, true) := by decide
example : res (endOf .century 0 ⟨.fixed 3600000000, 0, false⟩) = some (978307199999999, 978303599999999, false) := by decide
example : (match boundDate .decade 0 6 false 0 with | .ok r => r | .error _ => 1) = 0 := by decide
example : (match boundDate .month 0 6 true 0 with | .ok r => r | .error _ => 1) = 30 * DAY := by decide
example : (match boundDate .decade 0 6 false ((5 * 365 - 719162) * DAY) with | .ok _ => false | .error e => e == .valueError) = true := by decide

/-! ### the source itself: regenerated definitions (tools/gen_startof.py → `Pendulum.Gen.StartOf`) equal the model

`Gen.StartOf` is re-translated from `datetime.py` / `date.py` on every run: one Lean definition per Python method
(`set`, `_boundary`, every `_start_of_<unit>` / `_end_of_<unit>`, the dispatchers `start_of` / `end_of`, and for `Date`
also `replace`, `next`, `previous` with their `while` loops). The theorems below state, for ALL inputs, that what the
translated source computes is what the hand model `Model/StartOf.lean` (about which every theorem above speaks)
computes, under the reading `StartOfGen.inst` of the parameter record (instance fields = civil fields of the wall
value, `tz.utcoffset` = the zone table's `woff`, `weekday()`/`date.add(days=n)` = ordinal arithmetic,
`calendar.monthrange` = the reference `daysInMonth`). What remains outside the translation is exactly what the
statements show on their right-hand sides: the range check of the constructors and `DateTime.create` (`DTOps.create`). -/
section source
open Pendulum.StartOfGen Pendulum.Gen.StartOf

/-- **`DateTime.start_of`**: for every unit, week start, zone, wall value and fold, the model's `startOf` is the
    regenerated dispatcher + unit method + `set`/`_boundary`, followed by the constructor -/
theorem start_of_source_eq_model (u : U) (wks wke : Int) (x : V) :
    startOf u wks x =
      (match dt_start_of (inst x wks wke) (unitName u) with
       | .ok c => if ¬ inRange (callWall c) then .error (rangeErr u) else create x.z (callWall c) c.fold false
       | .error _ => .error .valueError) := by
  obtain ⟨z, w, f⟩ := x
  rw [dt_start_of_eq, ofString_unitName]
  simp only []
  rw [start_label, start_fold]
  unfold startOf bound edge
  cases h : u.subDay <;> simp [h]

/-- **`DateTime.end_of`**, likewise (`_WEEK_ENDS_AT` is the only week parameter it reads) -/
theorem end_of_source_eq_model (u : U) (wks wke : Int) (x : V) :
    endOf u wke x =
      (match dt_end_of (inst x wks wke) (unitName u) with
       | .ok c => if ¬ inRange (callWall c) then .error (rangeErr u) else create x.z (callWall c) c.fold false
       | .error _ => .error .valueError) := by
  obtain ⟨z, w, f⟩ := x
  rw [dt_end_of_eq, ofString_unitName]
  simp only []
  rw [end_label, end_fold]
  unfold endOf bound edge
  cases h : u.subDay <;> simp [h]

/-- the unit-name table: a string is dispatched to `_start_of_<unit>` / `_end_of_<unit>` exactly when the model knows the
    unit, and every other string raises ValueError (no reachable method is missing: never AttributeError) -/
theorem dispatch_source_eq_model (I : Inst) (s : String) :
    dt_start_of I s = (match U.ofString? s with | some u => .ok (startCall I u) | none => .error "ValueError") ∧
    dt_end_of I s = (match U.ofString? s with | some u => .ok (endCall I u) | none => .error "ValueError") :=
  ⟨dt_start_of_eq I s, dt_end_of_eq I s⟩

/-- per unit: the wall time the translated `_start_of_<unit>` / `_end_of_<unit>` requests is the model's first / last
    label `lo` / `hi` of the unit — `self.year - self.year % YEARS_PER_DECADE`, `days_in_month`, the constants
    23/59/999999 and the week arithmetic with `_WEEK_STARTS_AT` / `_WEEK_ENDS_AT` included — for all integers -/
theorem unit_labels_source_eq_model (u : U) (z : ZRef) (w : Int) (fold : Bool) (wks wke : Int) :
    callWall (startCall (inst ⟨z, w, fold⟩ wks wke) u) = lo u wks w ∧
    callWall (endCall (inst ⟨z, w, fold⟩ wks wke) u) = hi u wke w :=
  ⟨start_label u z w fold wks wke, end_label u z w fold wks wke⟩

/-- `_boundary(year, month, day, last)`: the requested fields are that day at 00:00:00.000000 / 23:59:59.999999 and the
    fold handed to `create` is the model's `edgeFold` (the instance's own unless the two `utcoffset`s differ) — for
    every zone (named, fixed, naive), every target date and both values of `last` -/
theorem boundary_source_eq_model (z : ZRef) (y0 m0 d0 t0 : Int) (fold : Bool) (wks wke y m d : Int) (last : Bool) :
    callWall (dt_boundary (instF z y0 m0 d0 t0 fold wks wke) y m d last) = fieldsToWall y m d (if last then DAY - 1 else 0) ∧
    (dt_boundary (instF z y0 m0 d0 t0 fold wks wke) y m d last).fold =
      edgeFold z (fieldsToWall y m d (if last then DAY - 1 else 0)) last fold :=
  ⟨boundary_wall z y0 m0 d0 t0 fold wks wke y m d last, (boundary_eq z y0 m0 d0 t0 fold wks wke y m d last).2.2.2.2⟩

/-- `DateTime.set` (as `start_of` uses it, without `tz`): given fields replace the instance's, the fold is kept -/
theorem set_source_eq_model (I : Inst) (oy om od oh omi os ous : Option Int) :
    dt_set I oy om od oh omi os ous =
      ⟨oy.getD I.year, om.getD I.month, od.getD I.day, oh.getD I.hour, omi.getD I.minute, os.getD I.second,
       ous.getD I.microsecond, I.fold⟩ := set_eq I oy om od oh omi os ous

/-- **`Date.start_of`** for a Date with proleptic ordinal `o` (every Date is one): hypotheses = the week start is a
    weekday number and the `while` loop of `Date.previous` is given at least 6 iterations -/
theorem date_start_of_source_eq_model (u : U) (wks wke o : Int) (fuel : Nat) (hf : 6 ≤ fuel) (hs : 0 ≤ wks ∧ wks ≤ 6) :
    boundDate u wks wke false (ordWall o) =
      (match date_start_of (instD o wks wke) fuel (unitName u) with
       | .ok r => if ¬ inRange (resWall o r) then .error (rangeErr u) else .ok (resWall o r)
       | .error _ => .error .valueError) := by
  rw [date_start_of_eq, ofString_unitName]
  simp only []
  cases h : u.subDay
  · obtain ⟨r, h1, h2⟩ := date_start_label u h o wks wke fuel hf hs
    rw [h1]; simp only [h2, boundDate, h]; simp
  · cases u <;> simp [U.subDay] at h <;> simp [boundDate, U.subDay, dateStartRes]

/-- **`Date.end_of`**, likewise (`while` loop of `Date.next`) -/
theorem date_end_of_source_eq_model (u : U) (wks wke o : Int) (fuel : Nat) (hf : 6 ≤ fuel) (he : 0 ≤ wke ∧ wke ≤ 6) :
    boundDate u wks wke true (ordWall o) =
      (match date_end_of (instD o wks wke) fuel (unitName u) with
       | .ok r => if ¬ inRange (resWall o r) then .error (rangeErr u) else .ok (resWall o r)
       | .error _ => .error .valueError) := by
  rw [date_end_of_eq, ofString_unitName]
  simp only []
  cases h : u.subDay
  · obtain ⟨r, h1, h2⟩ := date_end_label u h o wks wke fuel hf he
    rw [h1]; simp only [h2, boundDate, h]; simp
  · cases u <;> simp [U.subDay] at h <;> simp [boundDate, U.subDay, dateEndRes]

/-- the day-by-day loops of `Date.previous` / `Date.next` (which the Date week units run) compute the closed-form day
    shift that `DateTime._start_of_week` / `_end_of_week` use, whatever iteration bound ≥ 6 is supplied -/
theorem date_walk_source_eq_closed_form (o wks wke wd : Int) (fuel : Nat) (hf : 6 ≤ fuel) (hwd : 0 ≤ wd ∧ wd ≤ 6) :
    date_previous (instD o wks wke) fuel (some wd) = .ok (-((StartOf.dow o - wd - 1) % 7 + 1)) ∧
    date_next (instD o wks wke) fuel (some wd) = .ok ((wd - StartOf.dow o - 1) % 7 + 1) :=
  ⟨date_previous_eq o wks wke wd fuel hf hwd, date_next_eq o wks wke wd fuel hf hwd⟩

/-! non-vacuity: the generated definitions compute; 1970-01-01 was a Thursday -/
example : (dt_start_of (inst ⟨.naive, 0, false⟩ 0 6) "decade").toOption = some ⟨1970, 1, 1, 0, 0, 0, 0, false⟩ := by decide +kernel
example : (dt_end_of (inst ⟨.naive, 0, false⟩ 0 6) "month").toOption = some ⟨1970, 1, 31, 23, 59, 59, 999999, false⟩ := by decide +kernel
example : (dt_start_of (inst ⟨.naive, 0, false⟩ 0 6) "week").toOption = some ⟨1969, 12, 29, 0, 0, 0, 0, false⟩ := by decide +kernel
example : (dt_end_of (inst ⟨.naive, 3723000004, true⟩ 0 6) "minute").toOption = some ⟨1970, 1, 1, 1, 2, 59, 999999, true⟩ := by decide +kernel
example : (match dt_start_of (inst ⟨.naive, 0, false⟩ 0 6) "fortnight" with | .error e => e | .ok _ => "") = "ValueError" := by decide +kernel
example : (dt_boundary (inst ⟨.named zMid, render zMid 129600000000, false⟩ 0 6) 1970 1 2 false).fold = true := by decide +kernel
example : (date_start_of (instD 719163 0 6) 6 "week").toOption = some (.shift (-3)) := by decide +kernel
example : (date_end_of (instD 719163 0 6) 6 "week").toOption = some (.shift 3) := by decide +kernel
example : (date_end_of (instD 719163 0 6) 6 "century").toOption = some (.new 2000 12 31) := by decide +kernel
example : (match date_start_of (instD 719163 0 6) 6 "hour" with | .error e => e | .ok _ => "") = "ValueError" := by decide +kernel

end source

end Pendulum.Props.C12
