import Pendulum.Model.Native
import Pendulum.Proofs.ZoneOps
import Pendulum.Proofs.Zone4
import Pendulum.Proofs.CalRT
/-! # C11 — DateTime, Date and Time are drop-in replacements for the native classes

The inherited accessors are literally the native ones; the theorems are about the **overrides**
(`astimezone`, `replace`, `__sub__`, `date()/time()`) and about the comparison rule the classes inherit
(`Model/Native.lean`). The larger half of C11 is differential testing of the real objects against
`datetime.datetime/date/time` (harness/props/c11.py) and is reported as such. -/
namespace Pendulum.Props.C11
open Pendulum Pendulum.Zone Pendulum.DTOps Pendulum.Native Pendulum.Cal Pendulum.AddDur

/-! ### astimezone -/

/-- `astimezone(tz)` with the tzinfo object the value already carries returns the value (as `datetime` does) -/
theorem astimezone_same (v : V) (t : ZRef) : astimezone v t true = .ok v := rfl

/-- `astimezone` is `in_timezone` (C01's model) -/
theorem astimezone_eq_inTz (v : V) (t : ZRef) (s : Bool) : astimezone v t s = DTOps.inTz v t s := rfl

/-- … to a named zone: the result renders the same instant, with the fields and fold `fromutc` gives -/
theorem astimezone_named (z : Z) (w : Int) (f : Bool) (z' : Z) (h' : z'.WF) (r : V)
    (h : astimezone ⟨.named z, w, f⟩ (.named z') false = .ok r) :
    r.instant = (⟨.named z, w, f⟩ : V).instant ∧
    r.w = (⟨.named z, w, f⟩ : V).instant + z'.off (⟨.named z, w, f⟩ : V).instant ∧
    r.fold = z'.foldOf (⟨.named z, w, f⟩ : V).instant := by
  unfold astimezone DTOps.inTz at h
  simp only [Bool.false_eq_true, if_false, ZRef.table] at h
  split at h
  · simp only [Except.ok.injEq] at h
    subst h
    refine ⟨?_, rfl, rfl⟩
    have := toUtc_fromUtc z' h' (V.instant ⟨.named z, w, f⟩)
    unfold toUtc at this
    simp only [V.instant, V.offset, ZRef.table] at this ⊢
    exact this
  · cases h

/-- … to a fixed offset: same instant, fold 0 -/
theorem astimezone_fixed (z : Z) (w : Int) (f : Bool) (off : Int) (r : V)
    (h : astimezone ⟨.named z, w, f⟩ (.fixed off) false = .ok r) :
    r.instant = (⟨.named z, w, f⟩ : V).instant ∧ r.offset = off ∧ r.fold = false := by
  unfold astimezone DTOps.inTz at h
  simp only [Bool.false_eq_true, if_false, ZRef.table] at h
  split at h
  · simp only [Except.ok.injEq] at h
    subst h
    simp [V.instant, V.offset, ZRef.table, fixedZ, fromUtc, Z.off, Z.woff, offAt, wallOff]
  · cases h

def zOverlap : Z := ⟨7200, [⟨1000, 3600⟩]⟩
/-- instant 1400 is the second pass of wall 5000 in `zOverlap` -/
example : (match astimezone ⟨.fixed 0, 1400, false⟩ (.named zOverlap) false with
    | .ok r => decide (r.w = 5000 ∧ r.fold = true ∧ r.instant = 1400)
    | .error _ => false) = true := by decide

/-! ### replace -/

/-- `replace` on a wall time that exists in the zone gives exactly the requested fields and fold
    (what `datetime.replace` gives); only skipped wall times are normalised (C02) -/
theorem replace_regular (v : V) (z : Z) (hz : v.z = .named z) (w : Int) (fold : Bool)
    (hns : ¬ z.woff true w > z.woff false w) (hr : inRange w = true) :
    Native.replace v w fold = .ok ⟨v.z, w, fold⟩ := by
  unfold Native.replace create
  rw [hz]
  simp only [convertNaive, hns, if_false, Bool.false_eq_true, and_false, hr, if_true]

theorem replace_naive (v : V) (hz : v.z = .naive) (w : Int) (fold : Bool) :
    Native.replace v w fold = .ok ⟨.naive, w, fold⟩ := by
  unfold Native.replace create; rw [hz]

/-! ### subtraction -/

/-- across different tzinfo objects pendulum's `a - b` is `datetime`'s: the elapsed time -/
theorem sub_diff_zone (a b : V) : pendulumSub a b = Native.sub false a b := rfl

/-- with a shared tzinfo it is `datetime`'s whenever the two offsets agree … -/
theorem sub_same_partial (a b : V) (h : a.offset = b.offset) : pendulumSub a b = Native.sub true a b := by
  unfold pendulumSub Native.sub V.instant; simp only [if_true]; omega

/-- … and always the elapsed time (C05), which is *not* `datetime`'s answer across an offset change:
    `datetime` subtracts the wall clocks when the tzinfo object is shared -/
theorem sub_same_counterexample :
    pendulumSub ⟨.named zOverlap, 5000, true⟩ ⟨.named zOverlap, 5000, false⟩ = 3600 ∧
    Native.sub true ⟨.named zOverlap, 5000, true⟩ ⟨.named zOverlap, 5000, false⟩ = 0 := by decide

theorem sub_antisymm (a b : V) : pendulumSub a b = - pendulumSub b a := by
  unfold pendulumSub; omega

/-! ### comparisons (inherited from `datetime`) -/

theorem sign_neg (x : Int) : sign (-x) = - sign x := by
  unfold sign; repeat' split
  all_goals omega

/-- different tzinfo objects: the order is the order of the instants -/
theorem cmp_diff_zone (a b : V) : cmp false a b = sign (a.instant - b.instant) := by
  unfold cmp
  by_cases h : a.offset = b.offset
  · simp only [Bool.false_or, beq_iff_eq, h, if_true]
    unfold V.instant; rw [h]; congr 1; omega
  · simp [h]

/-- same tzinfo object: the order is the order of the wall clocks, as `datetime` defines -/
theorem cmp_same_tzinfo (a b : V) : cmp true a b = sign (a.w - b.w) := by
  unfold cmp; simp

theorem cmp_antisymm (s : Bool) (a b : V) : cmp s a b = - cmp s b a := by
  unfold cmp
  by_cases h : a.offset = b.offset
  · have e1 : (a.offset == b.offset) = true := by simp [h]
    have e2 : (b.offset == a.offset) = true := by simp [h]
    simp only [e1, e2, Bool.or_true, if_true]
    rw [← sign_neg]; congr 1; omega
  · have e1 : (a.offset == b.offset) = false := by simp [h]
    have e2 : (b.offset == a.offset) = false := by simp; exact fun e => h e.symm
    cases s
    · simp only [e1, e2, Bool.or_false, Bool.false_eq_true, if_false]
      rw [← sign_neg]; congr 1; unfold V.instant; omega
    · simp only [Bool.true_or, if_true]
      rw [← sign_neg]; congr 1; omega

/-- `==` with a shared tzinfo is `cmp = 0` -/
theorem eq_same (a b : V) : Native.eq true a b = true ↔ cmp true a b = 0 := by
  unfold Native.eq cmp sign
  simp only [if_true, Bool.true_or, beq_iff_eq]
  constructor
  · intro h; simp [h]
  · intro h; repeat' split at h
    all_goals omega

/-- **Ordering = ordering of instants, partial**: inside one zone (shared tzinfo, wall-clock comparison) the
    wall order *is* the instant order whenever one operand's wall time is unique in the zone (neither repeated nor
    skipped) and the other is a genuine local time (the rendering of an instant). Missing: both operands
    inside the same overlap — there `datetime` orders by wall clock (F12). -/
theorem cmp_instants_partial (z : Z) (h : z.WF) (u T : Int) (fb : Bool)
    (huniq : z.woff false T = z.woff true T) (hns : z.skipped T = false) :
    let a : V := ⟨.named z, (fromUtc z u).w, (fromUtc z u).fold⟩
    let b : V := ⟨.named z, T, fb⟩
    cmp true a b = sign (a.instant - b.instant) := by
  intro a b
  rw [cmp_same_tzinfo]
  have ha : a.instant = u := by
    have := toUtc_fromUtc z h u
    unfold toUtc at this
    simp only [a, V.instant, V.offset, ZRef.table]
    exact this
  have hb : b.instant = T - z.woff false T := by
    simp only [b, V.instant, V.offset, ZRef.table]
    cases fb
    · rfl
    · rw [huniq]
  rw [ha, hb]
  have hw : a.w = u + z.off u := rfl
  have hbw : b.w = T := rfl
  rw [hw, hbw]
  unfold Z.WF at h
  unfold Z.skipped at hns
  unfold Z.woff at huniq
  unfold Z.off Z.woff
  rcases Int.lt_trichotomy u (T - wallOff false z.init z.trs T) with hlt | heq | hgt
  · have := lt_of_lt_unique z.trs z.init T u h hns huniq hlt
    unfold sign
    repeat' split
    all_goals omega
  · have hp := (preimage_char z.trs z.init T u h).mpr ⟨hns, Or.inl heq⟩
    unfold sign
    repeat' split
    all_goals omega
  · have := gt_of_gt_unique z.trs z.init T u h hns huniq hgt
    unfold sign
    repeat' split
    all_goals omega

example : zOverlap.woff false 9000 = zOverlap.woff true 9000 ∧ zOverlap.skipped 9000 = false ∧
    cmp true ⟨.named zOverlap, (fromUtc zOverlap 1400).w, (fromUtc zOverlap 1400).fold⟩ ⟨.named zOverlap, 9000, false⟩ = -1 := by decide

/-- inside an overlap the wall order and the instant order disagree: 5000 (second pass, instant 1400) sorts
    before 5100 (first pass, instant −2100); and the two passes of 5000 compare equal -/
theorem cmp_instants_counterexample :
    let a : V := ⟨.named zOverlap, 5000, true⟩
    let b : V := ⟨.named zOverlap, 5100, false⟩
    let c : V := ⟨.named zOverlap, 5000, false⟩
    cmp true a b = -1 ∧ sign (a.instant - b.instant) = 1 ∧ cmp true a c = 0 ∧ a.instant ≠ c.instant := by decide

/-! ### date() / time() and the integer accessors -/

/-- `date()` and `time()` together carry exactly the fields: rebuilding the wall value from
    (year, month, day) and the time of day gives it back, and the date is a valid calendar date -/
theorem date_time_fields (w : Int) :
    let f := wallToFields w
    fieldsToWall f.1 f.2.1 f.2.2.1 f.2.2.2 = w ∧ validDate f.1 f.2.1 f.2.2.1 ∧ 0 ≤ f.2.2.2 ∧ f.2.2.2 < AddDur.DAY := by
  intro f
  obtain ⟨e, v⟩ := ymd2ord_ord2ymd (w / AddDur.DAY + epochOrd)
  have e' : ymd2ord f.1 f.2.1 f.2.2.1 = w / AddDur.DAY + epochOrd := e
  refine ⟨?_, v, ?_, ?_⟩
  · show (ymd2ord f.1 f.2.1 f.2.2.1 - epochOrd) * AddDur.DAY + w % AddDur.DAY = w
    rw [e']; unfold AddDur.DAY; omega
  · show 0 ≤ w % AddDur.DAY
    unfold AddDur.DAY; omega
  · show w % AddDur.DAY < AddDur.DAY
    unfold AddDur.DAY; omega

/-- `toordinal()`/`time()` split the wall value; `utctimetuple()` splits the instant; `weekday()` is in range -/
theorem acc_consistent (v : V) :
    ((acc v).ordinal - epochOrd) * Native.DAY + (acc v).tod = v.w ∧
    ((acc v).utcOrdinal - epochOrd) * Native.DAY + (acc v).utcTod = v.instant ∧
    (acc v).instant = v.w - (acc v).offset ∧
    0 ≤ (acc v).weekday ∧ (acc v).weekday ≤ 6 := by
  unfold acc Native.DAY isoweekdayOrd V.instant
  simp only
  refine ⟨by omega, by omega, trivial, by omega, by omega⟩

example : (acc ⟨.fixed 3600000000, 0, false⟩).weekday = 3 ∧ (acc ⟨.fixed 3600000000, 0, false⟩).utcTod = 82800000000 := by decide

end Pendulum.Props.C11
