import Pendulum.Model.Native
import Pendulum.Proofs.ZoneOps
import Pendulum.Proofs.Zone4
import Pendulum.Proofs.CalRT
import Pendulum.Proofs.NativeDT
import Pendulum.Proofs.DTArithGenSub
import Pendulum.Proofs.DTArithGenDate
/-! # C11 — DateTime, Date and Time are drop-in replacements for the native classes

The inherited accessors are literally the native ones; the theorems are about the **overrides**
(`astimezone`, `replace`, `__sub__`, `date()/time()`) and about the comparison rule the classes inherit
(`Model/Native.lean`). The larger half of C11 is differential testing of the real objects against
`datetime.datetime/date/time` (harness/props/c11.py) and is reported as such. -/
namespace Pendulum.Props.C11
open Pendulum Pendulum.Zone Pendulum.DTOps Pendulum.Native Pendulum.Cal Pendulum.AddDur

/-! ### astimezone -/

/-- `astimezone(tz)` with the tzinfo object the value already carries returns the value (as `datetime` does) -/
theorem astimezone_same (v : V) (t : ZRef) : astimezone v t true = .ok v := rfl

/-- `astimezone` is `in_timezone` (C01's model) -/
theorem astimezone_eq_inTz (v : V) (t : ZRef) (s : Bool) : astimezone v t s = DTOps.inTz v t s := rfl

/-- … to a named zone: the result renders the same instant, with the fields and fold `fromutc` gives -/
theorem astimezone_named (z : Z) (w : Int) (f : Bool) (z' : Z) (h' : z'.WF) (r : V)
    (h : astimezone ⟨.named z, w, f⟩ (.named z') false = .ok r) :
    r.instant = (⟨.named z, w, f⟩ : V).instant ∧
    r.w = (⟨.named z, w, f⟩ : V).instant + z'.off (⟨.named z, w, f⟩ : V).instant ∧
    r.fold = z'.foldOf (⟨.named z, w, f⟩ : V).instant := by
  unfold astimezone DTOps.inTz at h
  simp only [Bool.false_eq_true, if_false, ZRef.table] at h
  split at h
  · simp only [Except.ok.injEq] at h
    subst h
    refine ⟨?_, rfl, rfl⟩
    have := toUtc_fromUtc z' h' (V.instant ⟨.named z, w, f⟩)
    unfold toUtc at this
    simp only [V.instant, V.offset, ZRef.table] at this ⊢
    exact this
  · cases h

/-- … to a fixed offset: same instant, fold 0 -/
theorem astimezone_fixed (z : Z) (w : Int) (f : Bool) (off : Int) (r : V)
    (h : astimezone ⟨.named z, w, f⟩ (.fixed off) false = .ok r) :
    r.instant = (⟨.named z, w, f⟩ : V).instant ∧ r.offset = off ∧ r.fold = false := by
  unfold astimezone DTOps.inTz at h
  simp only [Bool.false_eq_true, if_false, ZRef.table] at h
  split at h
  · simp only [Except.ok.injEq] at h
    subst h
    simp [V.instant, V.offset, ZRef.table, fixedZ, fromUtc, Z.off, Z.woff, offAt, wallOff]
  · cases h

def zOverlap : Z := ⟨7200, [⟨1000, 3600⟩]⟩
/-- instant 1400 is the second pass of wall 5000 in `zOverlap` -/
example : (match astimezone ⟨.fixed 0, 1400, false⟩ (.named zOverlap) false with
    | .ok r => decide (r.w = 5000 ∧ r.fold = true ∧ r.instant = 1400)
    | .error _ => false) = true := by decide

/-! ### replace -/

/-- `replace` on a wall time that exists in the zone gives exactly the requested fields and fold
    (what `datetime.replace` gives); only skipped wall times are normalised (C02) -/
theorem replace_regular (v : V) (z : Z) (hz : v.z = .named z) (w : Int) (fold : Bool)
    (hns : ¬ z.woff true w > z.woff false w) (hr : inRange w = true) :
    Native.replace v w fold = .ok ⟨v.z, w, fold⟩ := by
  unfold Native.replace create
  rw [hz]
  simp only [convertNaive, hns, if_false, Bool.false_eq_true, and_false, hr, if_true]

theorem replace_naive (v : V) (hz : v.z = .naive) (w : Int) (fold : Bool) :
    Native.replace v w fold = .ok ⟨.naive, w, fold⟩ := by
  unfold Native.replace create; rw [hz]

/-! ### subtraction -/

/-- across different tzinfo objects pendulum's `a - b` is `datetime`'s: the elapsed time -/
theorem sub_diff_zone (a b : V) : pendulumSub a b = Native.sub false a b := rfl

/-- with a shared tzinfo it is `datetime`'s whenever the two offsets agree … -/
theorem sub_same_partial (a b : V) (h : a.offset = b.offset) : pendulumSub a b = Native.sub true a b := by
  unfold pendulumSub Native.sub V.instant; simp only [if_true]; omega

/-- … and always the elapsed time (C05), which is *not* `datetime`'s answer across an offset change:
    `datetime` subtracts the wall clocks when the tzinfo object is shared -/
theorem sub_same_counterexample :
    pendulumSub ⟨.named zOverlap, 5000, true⟩ ⟨.named zOverlap, 5000, false⟩ = 3600 ∧
    Native.sub true ⟨.named zOverlap, 5000, true⟩ ⟨.named zOverlap, 5000, false⟩ = 0 := by decide

theorem sub_antisymm (a b : V) : pendulumSub a b = - pendulumSub b a := by
  unfold pendulumSub; omega

/-! ### comparisons (inherited from `datetime`) -/

theorem sign_neg (x : Int) : sign (-x) = - sign x := by
  unfold sign; repeat' split
  all_goals omega

/-- different tzinfo objects: the order is the order of the instants -/
theorem cmp_diff_zone (a b : V) : cmp false a b = sign (a.instant - b.instant) := by
  unfold cmp
  by_cases h : a.offset = b.offset
  · simp only [Bool.false_or, beq_iff_eq, h, if_true]
    unfold V.instant; rw [h]; congr 1; omega
  · simp [h]

/-- same tzinfo object: the order is the order of the wall clocks, as `datetime` defines -/
theorem cmp_same_tzinfo (a b : V) : cmp true a b = sign (a.w - b.w) := by
  unfold cmp; simp

theorem cmp_antisymm (s : Bool) (a b : V) : cmp s a b = - cmp s b a := by
  unfold cmp
  by_cases h : a.offset = b.offset
  · have e1 : (a.offset == b.offset) = true := by simp [h]
    have e2 : (b.offset == a.offset) = true := by simp [h]
    simp only [e1, e2, Bool.or_true, if_true]
    rw [← sign_neg]; congr 1; omega
  · have e1 : (a.offset == b.offset) = false := by simp [h]
    have e2 : (b.offset == a.offset) = false := by simp; exact fun e => h e.symm
    cases s
    · simp only [e1, e2, Bool.or_false, Bool.false_eq_true, if_false]
      rw [← sign_neg]; congr 1; unfold V.instant; omega
    · simp only [Bool.true_or, if_true]
      rw [← sign_neg]; congr 1; omega

/-- `==` with a shared tzinfo is `cmp = 0` -/
theorem eq_same (a b : V) : Native.eq true a b = true ↔ cmp true a b = 0 := by
  unfold Native.eq cmp sign
  simp only [if_true, Bool.true_or, beq_iff_eq]
  constructor
  · intro h; simp [h]
  · intro h; repeat' split at h
    all_goals omega

/-- **Ordering = ordering of instants, partial**: inside one zone (shared tzinfo, wall-clock comparison) the
    wall order *is* the instant order whenever one operand's wall time is unique in the zone (neither repeated nor
    skipped) and the other is a genuine local time (the rendering of an instant). Missing: both operands
    inside the same overlap — there `datetime` orders by wall clock (F12). -/
theorem cmp_instants_partial (z : Z) (h : z.WF) (u T : Int) (fb : Bool)
    (huniq : z.woff false T = z.woff true T) (hns : z.skipped T = false) :
    let a : V := ⟨.named z, (fromUtc z u).w, (fromUtc z u).fold⟩
    let b : V := ⟨.named z, T, fb⟩
    cmp true a b = sign (a.instant - b.instant) := by
  intro a b
  rw [cmp_same_tzinfo]
  have ha : a.instant = u := by
    have := toUtc_fromUtc z h u
    unfold toUtc at this
    simp only [a, V.instant, V.offset, ZRef.table]
    exact this
  have hb : b.instant = T - z.woff false T := by
    simp only [b, V.instant, V.offset, ZRef.table]
    cases fb
    · rfl
    · rw [huniq]
  rw [ha, hb]
  have hw : a.w = u + z.off u := rfl
  have hbw : b.w = T := rfl
  rw [hw, hbw]
  unfold Z.WF at h
  unfold Z.skipped at hns
  unfold Z.woff at huniq
  unfold Z.off Z.woff
  rcases Int.lt_trichotomy u (T - wallOff false z.init z.trs T) with hlt | heq | hgt
  · have := lt_of_lt_unique z.trs z.init T u h hns huniq hlt
    unfold sign
    repeat' split
    all_goals omega
  · have hp := (preimage_char z.trs z.init T u h).mpr ⟨hns, Or.inl heq⟩
    unfold sign
    repeat' split
    all_goals omega
  · have := gt_of_gt_unique z.trs z.init T u h hns huniq hgt
    unfold sign
    repeat' split
    all_goals omega

example : zOverlap.woff false 9000 = zOverlap.woff true 9000 ∧ zOverlap.skipped 9000 = false ∧
    cmp true ⟨.named zOverlap, (fromUtc zOverlap 1400).w, (fromUtc zOverlap 1400).fold⟩ ⟨.named zOverlap, 9000, false⟩ = -1 := by decide

/-- inside an overlap the wall order and the instant order disagree: 5000 (second pass, instant 1400) sorts
    before 5100 (first pass, instant −2100); and the two passes of 5000 compare equal -/
theorem cmp_instants_counterexample :
    let a : V := ⟨.named zOverlap, 5000, true⟩
    let b : V := ⟨.named zOverlap, 5100, false⟩
    let c : V := ⟨.named zOverlap, 5000, false⟩
    cmp true a b = -1 ∧ sign (a.instant - b.instant) = 1 ∧ cmp true a c = 0 ∧ a.instant ≠ c.instant := by decide

/-! ### date() / time() and the integer accessors -/

/-- `date()` and `time()` together carry exactly the fields: rebuilding the wall value from
    (year, month, day) and the time of day gives it back, and the date is a valid calendar date -/
theorem date_time_fields (w : Int) :
    let f := wallToFields w
    fieldsToWall f.1 f.2.1 f.2.2.1 f.2.2.2 = w ∧ validDate f.1 f.2.1 f.2.2.1 ∧ 0 ≤ f.2.2.2 ∧ f.2.2.2 < AddDur.DAY := by
  intro f
  obtain ⟨e, v⟩ := ymd2ord_ord2ymd (w / AddDur.DAY + epochOrd)
  have e' : ymd2ord f.1 f.2.1 f.2.2.1 = w / AddDur.DAY + epochOrd := e
  refine ⟨?_, v, ?_, ?_⟩
  · show (ymd2ord f.1 f.2.1 f.2.2.1 - epochOrd) * AddDur.DAY + w % AddDur.DAY = w
    rw [e']; unfold AddDur.DAY; omega
  · show 0 ≤ w % AddDur.DAY
    unfold AddDur.DAY; omega
  · show w % AddDur.DAY < AddDur.DAY
    unfold AddDur.DAY; omega

/-- `toordinal()`/`time()` split the wall value; `utctimetuple()` splits the instant; `weekday()` is in range -/
theorem acc_consistent (v : V) :
    ((acc v).ordinal - epochOrd) * Native.DAY + (acc v).tod = v.w ∧
    ((acc v).utcOrdinal - epochOrd) * Native.DAY + (acc v).utcTod = v.instant ∧
    (acc v).instant = v.w - (acc v).offset ∧
    0 ≤ (acc v).weekday ∧ (acc v).weekday ≤ 6 := by
  unfold acc Native.DAY isoweekdayOrd V.instant
  simp only
  refine ⟨by omega, by omega, trivial, by omega, by omega⟩

example : (acc ⟨.fixed 3600000000, 0, false⟩).weekday = 3 ∧ (acc ⟨.fixed 3600000000, 0, false⟩).utcTod = 82800000000 := by decide

/-! ### `Date` overrides: `fromordinal`, `replace`, `__sub__(date)` -/

/-- `Date.fromordinal(n)` answers what `date.fromordinal(n)` answers — the same date, or ValueError alike — as a pendulum `Date` -/
theorem date_fromordinal_native (n : Int) :
    pFromOrdinal n = (match nFromOrdinal n with | .ok r => .ok (Ty.pDate, r) | .error e => .error e) := by
  unfold pFromOrdinal
  cases h : nFromOrdinal n with
  | error e => rfl
  | ok k =>
    have hk : 1 ≤ k ∧ k ≤ maxOrd := by
      unfold nFromOrdinal at h; split at h
      · rename_i hc; cases h; exact hc
      · cases h
    simp only [mkDate_ord2ymd k hk]

theorem date_fromordinal_ok (n : Int) (h : 1 ≤ n ∧ n ≤ maxOrd) : pFromOrdinal n = .ok (.pDate, n) := by
  rw [date_fromordinal_native]; unfold nFromOrdinal; rw [if_pos h]

example : pFromOrdinal 737484 = .ok (.pDate, 737484) ∧ pFromOrdinal 0 = .error .valueError ∧
    pFromOrdinal 3652060 = .error .valueError := by decide

/-- `Date.replace` = `date.replace` (same defaults, same range checks), class `Date` -/
theorem date_replace_native (n : Int) (y m d : Option Int) :
    pDateReplace n y m d = (match nDateReplace n y m d with | .ok r => .ok (Ty.pDate, r) | .error e => .error e) := by
  unfold pDateReplace nDateReplace
  generalize mkDate _ _ _ = r
  cases r <;> rfl

/-- … and the result has exactly the requested fields, the others unchanged, inside the representable range -/
theorem date_replace_fields (n : Int) (y m d : Option Int) (ty : Ty) (r : Int)
    (h : pDateReplace n y m d = .ok (ty, r)) :
    ty = .pDate ∧ ord2ymd r = (y.getD (ord2ymd n).1, m.getD (ord2ymd n).2.1, d.getD (ord2ymd n).2.2) ∧
      1 ≤ r ∧ r ≤ maxOrd := by
  unfold pDateReplace at h
  split at h
  · cases h
  · rename_i r' hr
    simp only [Except.ok.injEq, Prod.mk.injEq] at h
    obtain ⟨h1, h2⟩ := h
    subst h2
    obtain ⟨e, hy1, hy2, hv⟩ := mkDate_ok _ _ _ _ hr
    refine ⟨h1.symm, ?_, ?_⟩
    · rw [e]; exact ord2ymd_ymd2ord _ _ _ hv
    · rw [e]; exact ymd2ord_range _ _ _ ⟨hy1, hy2⟩ hv

/-- `replace()` without arguments is the identity on every representable date -/
theorem date_replace_none (n : Int) (h : 1 ≤ n ∧ n ≤ maxOrd) : pDateReplace n none none none = .ok (.pDate, n) := by
  unfold pDateReplace
  simp only [Option.getD_none, mkDate_ord2ymd n h]

/-- 2020-02-29 (ordinal 737484): `replace(day=30)` and `replace(year=2021)` raise, `replace(year=2024)` is 2024-02-29 -/
example : pDateReplace 737484 none none (some 30) = .error .valueError ∧
    pDateReplace 737484 (some 2021) none none = .error .valueError ∧
    pDateReplace 737484 (some 2024) none none = .ok (.pDate, 737484 + 1461) := by decide

/-- `Date - date` is an `Interval` whose `timedelta` value is `date - date`'s -/
theorem date_sub_native (a b : Int) (hb : 1 ≤ b ∧ b ≤ maxOrd) : pDateSub a b = .ok (.pInterval, nDateSub a b) := by
  unfold pDateSub nDateSub
  simp only [mkDate_ord2ymd b hb]

example : pDateSub 737484 737425 = .ok (.pInterval, 59 * 86400000000) := by decide

/-! ### `Time` overrides: `replace`, `__sub__(time)`, `__rsub__` -/

/-- `Time.replace` answers what `time.replace` answers — time of day, tzinfo object, ValueError alike — as a pendulum
    `Time`; only the `fold` attribute (which selects nothing on a `time`) is reset instead of kept -/
theorem time_replace_native (t : TV) (h m s us : Option Int) (tz : TzArg) (fold : Option Bool) :
    pTimeReplace t h m s us tz fold =
      (match nTimeReplace t h m s us tz fold with
       | .ok r => .ok (Ty.pTime, { r with fold := false })
       | .error e => .error e) := by
  unfold pTimeReplace nTimeReplace
  simp only
  cases hm : mkTod (h.getD (TimeOfDay.fields t.tod).1) (m.getD (TimeOfDay.fields t.tod).2.1)
      (s.getD (TimeOfDay.fields t.tod).2.2.1) (us.getD (TimeOfDay.fields t.tod).2.2.2) with
  | error e => rfl
  | ok tod =>
    obtain ⟨_, h0, h1, _⟩ := mkTod_ok _ _ _ _ _ hm
    simp only [tod_fields tod ⟨h0, h1⟩]

/-- the result has exactly the requested fields, the others unchanged, and the requested tzinfo object -/
theorem time_replace_fields (t : TV) (h m s us : Option Int) (tz : TzArg) (fold : Option Bool) (ty : Ty) (r : TV)
    (e : pTimeReplace t h m s us tz fold = .ok (ty, r)) :
    ty = .pTime ∧ r.tz = tz.apply t.tz ∧ r.fold = false ∧ 0 ≤ r.tod ∧ r.tod < Native.DAY ∧
      TimeOfDay.fields r.tod = (h.getD (TimeOfDay.fields t.tod).1, m.getD (TimeOfDay.fields t.tod).2.1,
        s.getD (TimeOfDay.fields t.tod).2.2.1, us.getD (TimeOfDay.fields t.tod).2.2.2) := by
  rw [time_replace_native] at e
  unfold nTimeReplace at e
  simp only at e
  split at e
  · rename_i r' hr
    split at hr
    · cases hr
    · rename_i tod hm
      simp only [Except.ok.injEq] at hr
      simp only [Except.ok.injEq, Prod.mk.injEq] at e
      obtain ⟨e1, e2⟩ := e
      subst hr; subst e2
      obtain ⟨_, h0, h1, hf⟩ := mkTod_ok _ _ _ _ _ hm
      exact ⟨e1.symm, rfl, rfl, h0, h1, hf⟩
  · cases e

/-- `replace()` without arguments keeps time of day and tzinfo -/
theorem time_replace_none (t : TV) (ht : 0 ≤ t.tod ∧ t.tod < Native.DAY) :
    pTimeReplace t none none none none .keep none = .ok (.pTime, ⟨t.tod, t.tz, false⟩) := by
  rw [time_replace_native]
  unfold nTimeReplace
  simp only [Option.getD_none, tod_fields t.tod ht, TzArg.apply]

example : pTimeReplace ⟨9000000005, some 1, true⟩ (some 3) none none (some 7) .keep (some true) =
    .ok (.pTime, ⟨3 * 3600000000 + 30 * 60000000 + 7, some 1, false⟩) := by decide
example : pTimeReplace ⟨9000000005, some 1, true⟩ (some 24) none none none .keep none = .error .valueError ∧
    pTimeReplace ⟨5, some 1, false⟩ none none none none (.set 2) none = .ok (.pTime, ⟨5, some 2, false⟩) := by decide

/-- `time - time` does not exist natively; the native way to subtract two times is to put them on one day.
    `Time.__sub__` with a naive operand answers exactly that `datetime` difference (for *any* day), as a `Duration` -/
theorem time_sub_via_combine (a b : TV) (hb : b.tz = none) (ord : Int) (fa fb : Bool) :
    pTimeSub a b = .ok (.pDuration, Native.sub true (nCombine ord a.tod .naive fa none) (nCombine ord b.tod .naive fb none)) ∧
    pTimeSub a b = .ok (.pDuration, a.tod - b.tod) := by
  have e : TimeOfDay.sub a.tod b.tod = a.tod - b.tod := by
    unfold TimeOfDay.sub TimeOfDay.diff TimeOfDay.fields
    simp only [Bool.false_eq_true, if_false]; omega
  unfold pTimeSub
  simp only [hb, Option.isSome_none, Bool.false_eq_true, if_false, e]
  have e2 : Native.sub true (nCombine ord a.tod .naive fa none) (nCombine ord b.tod .naive fb none) = a.tod - b.tod := by
    unfold Native.sub nCombine wallOf
    simp only [if_true]; omega
  rw [e2]; simp

/-- a native `time` on the left (`__rsub__`): the mirrored difference -/
theorem time_rsub_naive (self other : TV) (hs : self.tz = none) (ho : other.tz = none) :
    pTimeRsub self other = .ok (.pDuration, other.tod - self.tod) := by
  unfold pTimeRsub
  simp only [ho, Option.isSome_none, Bool.false_eq_true, if_false]
  exact (time_sub_via_combine ⟨other.tod, none, false⟩ self hs 1 false false).2

/-- an aware operand is refused with TypeError (what the native class answers for every `time - time`) -/
theorem time_sub_aware_typeerror (a b : TV) (k : Nat) :
    (b.tz = some k → pTimeSub a b = .error .typeError) ∧ (b.tz = some k → pTimeRsub a b = .error .typeError) ∧
      (a.tz = some k → b.tz = none → pTimeRsub a b = .error .typeError) := by
  refine ⟨fun h => ?_, fun h => ?_, fun h h' => ?_⟩
  · unfold pTimeSub; simp [h]
  · unfold pTimeRsub; simp [h]
  · unfold pTimeRsub pTimeSub; simp [h, h']

example : pTimeSub ⟨18000000001, none, false⟩ ⟨9000000000, none, false⟩ = .ok (.pDuration, 9000000001) ∧
    pTimeSub ⟨5, none, false⟩ ⟨9000000000, some 1, false⟩ = .error .typeError ∧
    pTimeRsub ⟨5, none, false⟩ ⟨9000000000, none, false⟩ = .ok (.pDuration, 8999999995) := by decide

/-! ### `DateTime.date()`, `time()`, `timetz()`, `combine` -/

/-- `date()` is the pendulum `Date` with the ordinal `toordinal()` reports (= the native `date()`) -/
theorem date_of_native (v : V) (h : inRange v.w = true) : pDateOf v = .ok (.pDate, (acc v).ordinal) := by
  have hr : 1 ≤ v.w / AddDur.DAY + epochOrd ∧ v.w / AddDur.DAY + epochOrd ≤ maxOrd := by
    unfold inRange AddDur.minWall AddDur.maxWall at h
    simp only [Bool.and_eq_true, decide_eq_true_eq] at h
    unfold AddDur.DAY epochOrd maxOrd at *; omega
  unfold pDateOf AddDur.wallToFields
  simp only [mkDate_ord2ymd _ hr]
  rfl

/-- `time()` is the pendulum `Time` with the native time of day and no tzinfo; `timetz()` the one that also carries the
    value's own tzinfo object and fold — for every value, no side condition -/
theorem time_of_native (v : V) (k : Option Nat) :
    pTimeOf v = .ok (.pTime, { nTimeOf v with fold := false }) ∧ pTimetzOf v k = .ok (.pTime, nTimetzOf v k) := by
  have ht : 0 ≤ v.w % Native.DAY ∧ v.w % Native.DAY < Native.DAY := by unfold Native.DAY; omega
  unfold pTimeOf pTimetzOf nTimeOf nTimetzOf
  simp only [tod_fields _ ht]
  simp

example : pTimeOf ⟨.fixed 3600000000, 86400000000 + 9000000005, true⟩ = .ok (.pTime, ⟨9000000005, none, false⟩) ∧
    pTimetzOf ⟨.fixed 3600000000, 86400000000 + 9000000005, true⟩ (some 1) = .ok (.pTime, ⟨9000000005, some 1, true⟩) ∧
    pDateOf ⟨.fixed 3600000000, 86400000000 + 9000000005, true⟩ = .ok (.pDate, 719164) := by decide

/-- `combine(date, naive time)` = `datetime.combine`: the fields and the time's fold, naive -/
theorem combine_naive (ord tod : Int) (f : Bool) :
    pCombine ord tod .naive f .naive = .ok (.pDateTime, nCombine ord tod .naive f none) := rfl

/-- `combine` with the tzinfo coming from the time (default argument) or from the argument (naive time), on a wall time
    that exists in the zone: exactly `datetime.combine`'s fields, tzinfo and fold; only skipped wall times are normalised (C02) -/
theorem combine_regular (ord tod : Int) (f : Bool) (z : Z)
    (hns : ¬ z.woff true (wallOf ord tod) > z.woff false (wallOf ord tod)) (hr : inRange (wallOf ord tod) = true) :
    pCombine ord tod (.named z) f .naive = .ok (.pDateTime, nCombine ord tod (.named z) f none) ∧
    pCombine ord tod .naive f (.named z) = .ok (.pDateTime, nCombine ord tod .naive f (some (.named z))) := by
  have hc : create (.named z) (wallOf ord tod) f false = .ok ⟨.named z, wallOf ord tod, f⟩ := by
    unfold create
    simp only [convertNaive, hns, if_false, Bool.false_eq_true, and_false, hr, if_true]
  constructor
  · unfold pCombine
    simp only [instanceAware_self, hc]; rfl
  · unfold pCombine
    simp only [hc]; rfl

/-- fixed offsets: the same fields and offset; the (meaningless) fold is 0 -/
theorem combine_fixed (ord tod off : Int) (f : Bool) :
    pCombine ord tod (.fixed off) f .naive = .ok (.pDateTime, ⟨.fixed off, wallOf ord tod, false⟩) ∧
    pCombine ord tod .naive f (.fixed off) = .ok (.pDateTime, ⟨.fixed off, wallOf ord tod, false⟩) := by
  constructor
  · unfold pCombine; simp only [instanceAware_self]; rfl
  · rfl

/-- `DateTime.combine(x.date(), x.timetz())` is `x.replace()`: the value itself unless its wall time is skipped -/
theorem combine_parts_eq_replace (v : V) :
    pCombine (acc v).ordinal (nTimetzOf v none).tod v.z v.fold .naive =
      (match Native.replace v v.w v.fold with | .ok r => .ok (Ty.pDateTime, r) | .error e => .error e) := by
  have hw : wallOf (acc v).ordinal (nTimetzOf v none).tod = v.w := by
    unfold wallOf acc nTimetzOf Native.DAY epochOrd; simp only; omega
  unfold pCombine Native.replace
  rw [hw]
  cases hz : v.z with
  | naive => rfl
  | fixed o =>
    simp only [instanceAware_self]
    generalize create _ _ _ _ = r
    cases r <;> rfl
  | named z =>
    simp only [instanceAware_self]
    generalize create _ _ _ _ = r
    cases r <;> rfl

/-- an explicit `tzinfo=` argument is ignored when the time is aware (`instance()`: `tz = dt.tzinfo or tz`);
    `datetime.combine` would use the argument — outside what C11 states (class of the result), recorded here -/
theorem combine_tzarg_only_for_naive_time (ord tod : Int) (tz arg : ZRef) (f : Bool) (h : tz ≠ .naive) :
    pCombine ord tod tz f arg = pCombine ord tod tz f .naive := by
  unfold pCombine
  cases tz with
  | naive => exact absurd rfl h
  | fixed o => rfl
  | named z => rfl

/-- first pass of the repeated wall 5000 in `zOverlap` stays the first pass, second stays second -/
example : (match pCombine epochOrd 5000 (.named zOverlap) false .naive with
     | .ok (ty, r) => decide (ty = .pDateTime ∧ r.w = 5000 ∧ r.instant = -2200 ∧ r.fold = false) | .error _ => false) = true ∧
    (match pCombine epochOrd 5000 (.named zOverlap) true .naive with
     | .ok (_, r) => decide (r.w = 5000 ∧ r.instant = 1400 ∧ r.fold = true) | .error _ => false) = true := by decide

/-! ### the operator overrides themselves, regenerated from `src/pendulum/datetime.py` / `date.py` on every run
(`tools/gen_dtarith.py` → `Gen/DTArith.lean`): which operand kinds are answered by pendulum, which are left to the native
class (`NotImplemented` / `super().__add__`) -/
open Pendulum.Gen.DTArith Pendulum.DTArithGen

/-- **`DateTime.__add__/__radd__/__sub__/__rsub__`, from the source**, by kind of the other operand:
    * not a timedelta on `+` → `NotImplemented` (as `datetime`), a timedelta → pendulum's own `_add_timedelta_`, except
      when the calling frame is `astimezone` (CPython's `datetime.astimezone` uses `+` internally) → the native addition;
    * `-`: a timedelta → `_subtract_timedelta`; a datetime → an Interval (never a bare `timedelta`); anything else →
      `NotImplemented`; the reflected `-` only answers datetimes. -/
theorem operator_dispatch_source_eq_model (I : Inst) (caller : String) (o no : Operand) :
    dt_op_add I caller o =
      (if !isDelta o.kind then .ok .notImplemented
       else if caller = "astimezone" then .ok .super_add
       else Except.map Res.value (dt_add_timedelta I o)) ∧
    dt_op_radd I o = (if !isDelta o.kind then .ok .notImplemented else Except.map Res.value (dt_add_timedelta I o)) ∧
    dt_op_sub I o no =
      (if isDelta o.kind then Except.map Res.value (dt_subtract_timedelta I o no)
       else if o.kind = .datetime ∨ o.kind = .pendulumDT then .ok (.interval (rebuilt o) .self false)
       else .ok .notImplemented) ∧
    dt_op_rsub I o =
      (if o.kind = .datetime ∨ o.kind = .pendulumDT then .ok (.interval .self (rebuilt o) false)
       else .ok .notImplemented) :=
  ⟨(op_add_eq I caller o).1, (op_add_eq I caller o).2, op_sub_eq I o no, op_rsub_eq I o⟩

/-- the length of the Interval `self - other` builds is pendulum's `pendulumSub` (the elapsed time), for two instances of
    the class on different tzinfo objects — where the native `datetime.__sub__` (`Native.sub`) agrees -/
theorem sub_source_eq_native (I : Inst) (sv ov : V) (o no : Operand) (hk : o.kind = .pendulumDT) :
    (dt_op_sub I o no).toOption.map (resLen sv ov (.ok ov) false) = some (.ok (pendulumSub sv ov)) ∧
    pendulumSub sv ov = Native.sub false sv ov := by
  constructor
  · rw [op_sub_eq]
    simp [isDelta, rebuilt, hk, resLen, whoV, Except.toOption, Interval.new, Interval.delta, pendulumSub, V.instant]
    omega
  · rfl

/-- **`Date.__add__/__sub__`, from the source**: a timedelta → `_add_timedelta` / `_subtract_timedelta`; a date or
    datetime on the right of `-` → an Interval between Dates; anything else → `NotImplemented` -/
theorem date_operator_dispatch_source_eq_model (D : DateInst) (o : Operand) :
    date_op_add D o = (if !isDelta o.kind then .ok .notImplemented else Except.map Res.value (date_add_timedelta D o)) ∧
    date_op_sub D o =
      (if isDelta o.kind then Except.map Res.value (date_subtract_timedelta D o)
       else if o.kind = .date ∨ o.kind = .datetime ∨ o.kind = .pendulumDT then
         .ok (.interval (.date o.year o.month o.day) (.as_date .self) false)
       else .ok .notImplemented) := date_op_eq D o

/-- the way `__add__` reads its calling frame is pinned verbatim -/
theorem add_caller_guard_pinned : caller_source = "traceback.extract_stack(limit=2)[0].name" := by decide

example : (dt_op_add (instOf ⟨.naive, 0, false⟩) "f" ⟨.other, false, 0, 0, 0, 0, 0, 0, 0, 0, 0, 0, 0, 0, 0, 0, 0, 0, 0, 0, 0, 0, 0, 0, 0, 0, 0⟩).toOption
    = some .notImplemented := by decide +kernel

end Pendulum.Props.C11
