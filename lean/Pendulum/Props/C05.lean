import Pendulum.Proofs.C05
import Pendulum.Proofs.DTArithGenSub
import Pendulum.Proofs.IntervalGenNew
import Pendulum.Proofs.IntervalGenInit
import Pendulum.Proofs.IntervalGenUnits
/-! # C05 — an interval's length is the exact elapsed time between its endpoints

Theorems over the model of `Interval.__new__` and of the paths into it (Model/Interval.lean), for every
well-formed zone table, every instant, either fold. Lengths are exact integer microseconds; the float step
`Duration(seconds=delta.total_seconds())` is the validated bridge of DESIGN §5 (exact below 2^33 s). -/
namespace Pendulum.Props.C05
open Pendulum Pendulum.Zone Pendulum.DTOps Pendulum.AddDur Pendulum.Interval

/-! ### length = difference of the instants -/

/-- both branches of `Interval.__new__` — offsets removed by hand for one shared tzinfo object, stdlib aware
    subtraction otherwise — yield `instant(end) − instant(start)`, where `instant = wall − utcoffset(fold)`;
    the different-object branch never fails -/
theorem interval_len (s e : V) (same : Bool) :
    (∀ r, delta s e same = .ok r → r = e.instant - s.instant) ∧
    delta s e false = .ok (e.instant - s.instant) := by
  refine ⟨fun r h => delta_ok s e same r h, ?_⟩
  unfold delta V.instant
  simp only [Bool.false_eq_true, if_false, Except.ok.injEq]; omega

/-- for endpoints that are the local renderings of instants `u`, `u'` in well-formed zones `z`, `z'` (same object,
    same name or different zones; whatever fold bit the rendering carries) the length is exactly `u' − u` -/
theorem interval_len_instants (z z' : Z) (hz : z.WF) (hz' : z'.WF) (u u' : Int) (same : Bool) (r : Int)
    (h : delta ⟨.named z, (fromUtc z u).w, (fromUtc z u).fold⟩
               ⟨.named z', (fromUtc z' u').w, (fromUtc z' u').fold⟩ same = .ok r) :
    r = u' - u := by
  have := delta_ok _ _ same r h
  rw [rendered_instant z hz u, rendered_instant z' hz' u'] at this
  exact this

/-- on a wall time that is not repeated the fold bit does not matter (a constructed value carries the default
    `fold=1`, a converted one `fold=0`): same instant -/
theorem fold_irrelevant_when_unique (z : Z) (w : Int) (hu : z.woff false w = z.woff true w) (f g : Bool) :
    (⟨.named z, w, f⟩ : V).instant = (⟨.named z, w, g⟩ : V).instant := by
  unfold V.instant V.offset ZRef.table
  cases f <;> cases g <;> simp [hu]

/-- `b - a`, `a.diff(b, False)`, `interval(a, b)`: the same length `instant(b) − instant(a)` -/
theorem sub_diff_len (a b : V) (same : Bool) (r : Int) :
    (sub b a same = .ok r → r = b.instant - a.instant) ∧
    (diff a b same false = .ok r → r = b.instant - a.instant) ∧
    sub b a same = diff a b same false := by
  refine ⟨?_, ?_, rfl⟩
  · intro h
    unfold sub new at h
    simp only [Bool.false_and, Bool.false_eq_true, if_false] at h
    exact delta_ok _ _ _ _ h
  · intro h
    unfold diff new at h
    simp only [Bool.false_and, Bool.false_eq_true, if_false] at h
    exact delta_ok _ _ _ _ h

/-- Paris 2013-10-27: 02:30 first pass → 02:30 second pass is one hour (same tzinfo object) -/
example : lenOf (new ⟨.named parisZ, 1382841000000000, false⟩ ⟨.named parisZ, 1382841000000000, true⟩ true false)
    = some 3600000000 := by decide +kernel

/-! ### truncating counts -/

/-- `in_seconds/in_minutes/in_hours` truncate the length toward zero -/
theorem in_units_trunc (len : Int) :
    (0 ≤ len → (inSeconds len * 1000000 ≤ len ∧ len < (inSeconds len + 1) * 1000000) ∧
               (inMinutes len * 60000000 ≤ len ∧ len < (inMinutes len + 1) * 60000000) ∧
               (inHours len * 3600000000 ≤ len ∧ len < (inHours len + 1) * 3600000000)) ∧
    (len ≤ 0 → ((inSeconds len - 1) * 1000000 < len ∧ len ≤ inSeconds len * 1000000) ∧
               ((inMinutes len - 1) * 60000000 < len ∧ len ≤ inMinutes len * 60000000) ∧
               ((inHours len - 1) * 3600000000 < len ∧ len ≤ inHours len * 3600000000)) := by
  unfold inSeconds inMinutes inHours
  constructor
  · intro h
    rw [Int.tdiv_eq_ediv_of_nonneg h, Int.tdiv_eq_ediv_of_nonneg h, Int.tdiv_eq_ediv_of_nonneg h]
    omega
  · intro h
    rw [tdiv_nonpos len _ h, tdiv_nonpos len _ h, tdiv_nonpos len _ h]
    omega

example : inSeconds (-1500000) = -1 ∧ inMinutes 119999999 = 1 ∧ inHours (-3600000000) = -1 := by decide +kernel

/-- negating the length negates every truncated count -/
theorem in_units_neg (len : Int) :
    inSeconds (-len) = -inSeconds len ∧ inMinutes (-len) = -inMinutes len ∧ inHours (-len) = -inHours len :=
  ⟨Int.neg_tdiv _ _, Int.neg_tdiv _ _, Int.neg_tdiv _ _⟩

/-! ### swapping the endpoints -/

/-- swapping the endpoints negates the length (hence `(a - b) = -(b - a)` and `-(b - a)` = `Interval(b, a)`) -/
theorem swap_neg (a b : V) (same : Bool) (r : Int) (h : new a b same false = .ok r) :
    new b a same false = .ok (-r) ∧ negSub b a same = .ok (-r) ∧ sub a b same = .ok (-r) := by
  unfold negSub sub new at *
  simp only [Bool.false_and, Bool.false_eq_true, if_false] at *
  exact ⟨delta_swap _ _ _ _ h, delta_swap _ _ _ _ h, delta_swap _ _ _ _ h⟩

/-! ### absolute intervals -/

/-- `absolute=True` / `abs()` / `diff()` default give the magnitude whenever the comparison the code uses
    (`start > end`: wall clocks for one shared tzinfo object) agrees with the order of the instants.
    NOT covered (F12): both endpoints share the tzinfo object and their wall-clock order differs from the
    order of their instants — see `abs_wall_order_counterexample`. -/
theorem abs_magnitude_partial (a b : V) (same : Bool) (r : Int)
    (hord : same = true → (a.w > b.w ↔ a.instant > b.instant))
    (h : new a b same true = .ok r) :
    r = (if a.instant > b.instant then a.instant - b.instant else b.instant - a.instant) ∧ 0 ≤ r := by
  unfold new gt at h
  have hgt : (if same then decide (a.w > b.w) else decide (a.instant > b.instant)) = decide (a.instant > b.instant) := by
    cases same
    · rfl
    · simp only [if_true]
      have := hord rfl
      by_cases c : a.instant > b.instant
      · simp [c, this.mpr c]
      · have : ¬ a.w > b.w := fun x => c (this.mp x)
        simp [c, this]
  simp only [Bool.true_and] at h
  rw [hgt] at h
  by_cases c : a.instant > b.instant
  · simp only [c, decide_true, if_true] at h ⊢
    have := delta_ok _ _ _ _ h; omega
  · simp only [c, decide_false, Bool.false_eq_true, if_false] at h ⊢
    have := delta_ok _ _ _ _ h; omega

/-- distinct tzinfo objects (different zones, or equal names but separate objects): always the magnitude -/
theorem abs_magnitude_distinct (a b : V) (r : Int) (h : new a b false true = .ok r) :
    r = (if a.instant > b.instant then a.instant - b.instant else b.instant - a.instant) ∧ 0 ≤ r :=
  abs_magnitude_partial a b false r (fun x => by cases x) h

/-- one shared tzinfo object: the magnitude is right as soon as ONE endpoint's wall time is not repeated,
    i.e. everywhere except when both endpoints lie inside an overlap -/
theorem abs_magnitude_outside_overlap (z : Z) (hz : z.WF) (u u' : Int) (r : Int)
    (huniq : z.woff false (fromUtc z u).w = z.woff true (fromUtc z u).w ∨
             z.woff false (fromUtc z u').w = z.woff true (fromUtc z u').w)
    (h : new ⟨.named z, (fromUtc z u).w, (fromUtc z u).fold⟩ ⟨.named z, (fromUtc z u').w, (fromUtc z u').fold⟩ true true = .ok r) :
    r = (if u > u' then u - u' else u' - u) ∧ 0 ≤ r := by
  have hw : ((fromUtc z u).w > (fromUtc z u').w ↔ u > u') := by
    rcases huniq with h1 | h1
    · have := wall_order_of_unique z hz u' u h1
      constructor
      · intro x
        rcases Int.lt_trichotomy u u' with c | c | c
        · have := this.mpr (by omega); omega
        · subst c; omega
        · exact c
      · intro x
        rcases Int.lt_trichotomy (fromUtc z u).w (fromUtc z u').w with c | c | c
        · have := this.mp (by omega); omega
        · have e1 := toUtc_fromUtc z hz u
          have e2 := toUtc_fromUtc z hz u'
          unfold toUtc at e1 e2
          rw [← c] at e2
          have : z.woff (fromUtc z u').fold (fromUtc z u).w = z.woff (fromUtc z u).fold (fromUtc z u).w := by
            cases (fromUtc z u').fold <;> cases (fromUtc z u).fold <;> simp [h1]
          omega
        · exact c
    · exact wall_order_of_unique z hz u u' h1
  have := abs_magnitude_partial _ _ true r (fun _ => by
    rw [rendered_instant z hz u, rendered_instant z hz u']; exact hw) h
  rw [rendered_instant z hz u, rendered_instant z hz u'] at this
  exact this

/-- F12: inside an overlap the swap test compares wall clocks; `abs(fold0 − fold1)` is negative
    (Paris 2013-10-27 02:30, both endpoints on the same tzinfo object) -/
theorem abs_wall_order_counterexample :
    ∃ (z : Z) (a b : V), z.WF ∧ a.z.table = some z ∧ b.z.table = some z ∧
      lenOf (new a b true true) = some (-3600000000) :=
  ⟨parisZ, ⟨.named parisZ, 1382841000000000, true⟩, ⟨.named parisZ, 1382841000000000, false⟩,
    parisZ_wf, rfl, rfl, by decide +kernel⟩

/-! ### native operands, dates -/

/-- `self − native` and `native − self` for a native operand that is a valid local time (not inside a gap):
    the difference of the instants, as the native subtraction of the UTC-normalised values -/
theorem native_sub (self n : V) (same : Bool) (r : Int)
    (hvalid : ∀ z, n.z = .named z → ¬ (z.woff true n.w > z.woff false n.w)) :
    (subNative self n same = .ok r → r = self.instant - n.instant) ∧
    (rsubNative self n same = .ok r → r = n.instant - self.instant) := by
  unfold subNative rsubNative
  cases hi : instanceOf n with
  | error x => simp
  | ok o =>
    have e := instanceOf_instant n o hvalid hi
    simp only []
    constructor
    · intro h; have := (sub_diff_len o self same r).1 h; omega
    · intro h; have := (sub_diff_len self o same r).2.1 h; omega

/-- Date pairs: whole days; `absolute` gives the magnitude (dates compare by their day numbers) -/
theorem date_len (a b : Int) :
    dateNew a b false = (b - a) * DAY ∧
    dateNew a b true = (if a > b then a - b else b - a) * DAY ∧ 0 ≤ dateNew a b true := by
  unfold dateNew DAY
  refine ⟨by simp, ?_, ?_⟩ <;> by_cases c : a > b <;> simp [c] <;> omega

/-! ### naive pairs (both endpoints carry tzinfo `None`: one shared "object", `same = true`) -/

/-- two naive values: the interval never fails, its length is the plain difference of the wall clocks (which ARE the
    instants); `absolute=True` gives the magnitude, never negative — no F12 region, wall order = instant order -/
theorem naive_len (a b : V) (ha : a.z = .naive) (hb : b.z = .naive) :
    new a b true false = .ok (b.w - a.w) ∧
    new a b true true = .ok (if a.w > b.w then a.w - b.w else b.w - a.w) ∧
    0 ≤ (if a.w > b.w then a.w - b.w else b.w - a.w) ∧
    a.instant = a.w ∧ b.instant = b.w := by
  refine ⟨?_, ?_, ?_, naive_instant a ha, naive_instant b hb⟩
  · unfold new
    simp only [Bool.false_and, Bool.false_eq_true, if_false]
    exact naive_delta a b ha hb
  · unfold new gt
    simp only [Bool.true_and, if_true]
    by_cases c : a.w > b.w
    · simp only [c, decide_true, if_true]; exact naive_delta b a hb ha
    · simp only [c, decide_false, Bool.false_eq_true, if_false]; exact naive_delta a b ha hb
  · by_cases c : a.w > b.w <;> simp only [c, if_true, if_false] <;> omega

example : lenOf (new ⟨.naive, 1577919600000000, false⟩ ⟨.naive, 1577926800000000, true⟩ true false) = some 7200000000 ∧
    lenOf (new ⟨.naive, 1577926800000000, true⟩ ⟨.naive, 1577919600000000, false⟩ true true) = some 7200000000 := by
  decide +kernel

/-- naive pairs: swapping the endpoints negates the length -/
theorem naive_swap_neg (a b : V) (ha : a.z = .naive) (hb : b.z = .naive) :
    new b a true false = .ok (-(b.w - a.w)) ∧
    (∀ r, new a b true false = .ok r → new b a true false = .ok (-r)) := by
  have h1 := (naive_len a b ha hb).1
  have h2 := (naive_len b a hb ha).1
  refine ⟨?_, ?_⟩
  · rw [h2]; congr 1; omega
  · intro r h
    rw [h1] at h
    simp only [Except.ok.injEq] at h
    rw [h2, ← h]; congr 1; omega

example : lenOf (new ⟨.naive, 1577926800000000, true⟩ ⟨.naive, 1577919600000000, false⟩ true false) = some (-7200000000) := by
  decide +kernel

/-- naive pairs: with `absolute=True` the order of the arguments does not matter -/
theorem naive_abs_symm (a b : V) (ha : a.z = .naive) (hb : b.z = .naive) :
    new a b true true = new b a true true := by
  rw [(naive_len a b ha hb).2.1, (naive_len b a hb ha).2.1]
  congr 1
  by_cases c : a.w > b.w <;> by_cases d : b.w > a.w <;> simp only [c, d, if_true, if_false] <;> omega

example : lenOf (new ⟨.naive, 5, false⟩ ⟨.naive, -7, true⟩ true true) = some 12 ∧
    lenOf (new ⟨.naive, -7, true⟩ ⟨.naive, 5, false⟩ true true) = some 12 := by decide +kernel

/-- naive pairs through the operator paths: `b - a`, `abs(b - a)`, `-(b - a)` -/
theorem naive_paths (a b : V) (ha : a.z = .naive) (hb : b.z = .naive) :
    sub b a true = .ok (b.w - a.w) ∧
    negSub b a true = .ok (a.w - b.w) ∧
    absSub b a true = .ok (if a.w > b.w then a.w - b.w else b.w - a.w) ∧
    absSub b a true = absSub a b true ∧
    diff a b true false = .ok (b.w - a.w) := by
  unfold sub negSub absSub diff
  refine ⟨(naive_len a b ha hb).1, ?_, (naive_len a b ha hb).2.1, naive_abs_symm a b ha hb, (naive_len a b ha hb).1⟩
  rw [(naive_len b a hb ha).1]

example : lenOf (sub ⟨.naive, 5, false⟩ ⟨.naive, -7, true⟩ true) = some 12 ∧
    lenOf (negSub ⟨.naive, 5, false⟩ ⟨.naive, -7, true⟩ true) = some (-12) ∧
    lenOf (absSub ⟨.naive, -7, false⟩ ⟨.naive, 5, true⟩ true) = some 12 := by decide +kernel

/-! ### Date pairs -/

/-- Date pairs: swapping the endpoints negates the length -/
theorem date_swap_neg (a b : Int) : dateNew b a false = - dateNew a b false := by
  unfold dateNew DAY
  simp only [Bool.false_and, Bool.false_eq_true, if_false]; omega

example : dateNew 18262 18293 false = 2678400000000 ∧ dateNew 18293 18262 false = -2678400000000 := by decide +kernel

/-- Date pairs: with `absolute=True` the order of the arguments does not matter; the result is the magnitude of the
    plain length -/
theorem date_abs_symm (a b : Int) :
    dateNew a b true = dateNew b a true ∧
    dateNew a b true = (if dateNew a b false < 0 then - dateNew a b false else dateNew a b false) := by
  rw [(date_len a b).1, (date_len a b).2.1, (date_len b a).2.1]
  unfold DAY
  constructor
  · by_cases c : a > b <;> by_cases d : b > a <;> simp only [c, d, if_true, if_false] <;> omega
  · by_cases c : a > b <;> simp only [c, if_true, if_false] <;> split <;> omega

example : dateNew 18293 18262 true = 2678400000000 ∧ dateNew 18262 18293 true = 2678400000000 := by decide +kernel

/-- Date pairs: the length is a whole number of days -/
theorem date_whole_days (a b : Int) (ab : Bool) : dateNew a b ab % DAY = 0 := by
  unfold dateNew DAY
  split <;> omega

example : dateNew (-5) 7 true % DAY = 0 ∧ dateNew (-5) 7 true ≠ 0 := by decide +kernel

/-! ### `in_days()` / `in_weeks()`: calendar day counts -/

/-- the literal model of `Interval.__init__` (swap when `start > end and absolute`) followed by `precise_diff`
    (early zero, swap + sign) is the plain difference of the calendar days of the wall clocks; with `absolute` its
    magnitude; swapping the endpoints negates it -/
theorem in_days_plain (s e : V) :
    inDays s e false = dayOf e.w - dayOf s.w ∧
    inDays s e true = (if s.w > e.w then dayOf s.w - dayOf e.w else dayOf e.w - dayOf s.w) ∧
    0 ≤ inDays s e true ∧
    inDays e s false = - inDays s e false := by
  have key : ∀ x y : V, inDays x y false = dayOf y.w - dayOf x.w := by
    intro x y
    unfold inDays initEnds
    simp only [Bool.and_false, Bool.false_eq_true, if_false]
    exact totalDays_plain _ _ _ _ (fun h => by rw [h])
  have habs : inDays s e true = (if s.w > e.w then dayOf s.w - dayOf e.w else dayOf e.w - dayOf s.w) := by
    unfold inDays initEnds gt
    simp only [Bool.and_true, if_true]
    by_cases c : s.w > e.w
    · simp only [c, decide_true, if_true]
      exact totalDays_plain _ _ _ _ (fun h => by rw [h])
    · simp only [c, decide_false, Bool.false_eq_true, if_false]
      exact totalDays_plain _ _ _ _ (fun h => by rw [h])
  refine ⟨key s e, habs, ?_, ?_⟩
  · rw [habs]
    by_cases c : s.w > e.w
    · simp only [c, if_true]; have := dayOf_mono e.w s.w (by omega); omega
    · simp only [c, if_false]; have := dayOf_mono s.w e.w (by omega); omega
  · rw [key e s, key s e]; omega

example : inDays ⟨.naive, 1577919600000000, false⟩ ⟨.naive, 1580598000000000, false⟩ false = 31 ∧
    inDays ⟨.naive, 1580598000000000, false⟩ ⟨.naive, 1577919600000000, false⟩ false = -31 ∧
    inDays ⟨.naive, 1580598000000000, false⟩ ⟨.naive, 1577919600000000, false⟩ true = 31 := by decide +kernel

/-- one tzinfo object across a transition: Paris 2013-10-26T23:30 (CEST) → 2013-10-27T23:30 (CET) is 25 h long and
    `in_days() = 1`; 2013-10-27T00:30 → 02:30 second pass is 3 h long and `in_days() = 0` -/
example : lenOf (new ⟨.named parisZ, 1382830200000000, false⟩ ⟨.named parisZ, 1382916600000000, false⟩ true false) = some 90000000000 ∧
    inDays ⟨.named parisZ, 1382830200000000, false⟩ ⟨.named parisZ, 1382916600000000, false⟩ false = 1 ∧
    lenOf (new ⟨.named parisZ, 1382833800000000, false⟩ ⟨.named parisZ, 1382841000000000, true⟩ true false) = some 10800000000 ∧
    inDays ⟨.named parisZ, 1382833800000000, false⟩ ⟨.named parisZ, 1382841000000000, true⟩ false = 0 := by decide +kernel

/-- Date pairs: `in_days()` is exactly the length counted in days -/
theorem date_in_days_exact (a b : Int) (ab : Bool) :
    dateInDays a b ab * DAY = dateNew a b ab ∧
    dateInDays a b false = b - a ∧
    dateInDays a b true = (if a > b then a - b else b - a) := by
  have key : ∀ x y : Int, totalDays x y x y = y - x := fun x y => totalDays_plain x y x y (fun h => h)
  have h0 : dateInDays a b false = b - a := by
    unfold dateInDays
    simp only [Bool.and_false, Bool.false_eq_true, if_false]; exact key a b
  have h1 : dateInDays a b true = (if a > b then a - b else b - a) := by
    unfold dateInDays
    simp only [Bool.and_true]
    by_cases c : a > b
    · simp only [c, decide_true, if_true]; exact key b a
    · simp only [c, decide_false, Bool.false_eq_true, if_false]; exact key a b
  refine ⟨?_, h0, h1⟩
  cases ab
  · rw [h0, (date_len a b).1]
  · rw [h1, (date_len a b).2.1]

example : dateInDays 18293 18262 false = -31 ∧ dateInDays 18293 18262 true = 31 ∧
    dateInDays 18293 18262 false * DAY = dateNew 18293 18262 false := by decide +kernel

/-- `in_weeks()` is `in_days()` truncated toward zero to whole weeks -/
theorem in_weeks_trunc (d : Int) :
    inWeeks d = Int.tdiv d 7 ∧
    (0 ≤ d → inWeeks d * 7 ≤ d ∧ d < (inWeeks d + 1) * 7) ∧
    (d ≤ 0 → (inWeeks d - 1) * 7 < d ∧ d ≤ inWeeks d * 7) := by
  have h : inWeeks d = Int.tdiv d 7 := by
    unfold inWeeks
    by_cases c : d < 0
    · simp only [c, if_true]
      rw [tdiv_nonpos d 7 (by omega)]; omega
    · simp only [c, if_false]
      rw [Int.tdiv_eq_ediv_of_nonneg (by omega)]; omega
  refine ⟨h, ?_, ?_⟩
  · intro hd; rw [h, Int.tdiv_eq_ediv_of_nonneg hd]; omega
  · intro hd; rw [h, tdiv_nonpos d 7 hd]; omega

example : inWeeks 13 = 1 ∧ inWeeks (-13) = -1 ∧ inWeeks 14 = 2 ∧ inWeeks (-6) = 0 := by decide +kernel

/-- negating the day count negates the week count -/
theorem in_weeks_neg (d : Int) : inWeeks (-d) = - inWeeks d := by
  rw [(in_weeks_trunc (-d)).1, (in_weeks_trunc d).1]; exact Int.neg_tdiv _ _

example : inWeeks (-(20)) = -2 ∧ inWeeks 20 = 2 := by decide +kernel

/-- naive pair, non-negative length: `in_days()` (calendar days between the wall dates) is the length truncated to
    whole days, or one more; it is the truncation exactly when the end's time of day is not before the start's -/
theorem in_days_vs_truncation (s e : V) (hs : s.z = .naive) (he : e.z = .naive) (len : Int)
    (h : new s e true false = .ok len) (hpos : 0 ≤ len) :
    len = e.w - s.w ∧
    Int.tdiv len DAY ≤ inDays s e false ∧ inDays s e false ≤ Int.tdiv len DAY + 1 ∧
    (inDays s e false = Int.tdiv len DAY ↔ e.w % DAY ≥ s.w % DAY) := by
  rw [(naive_len s e hs he).1] at h
  simp only [Except.ok.injEq] at h
  rw [(in_days_plain s e).1, Int.tdiv_eq_ediv_of_nonneg hpos, ← h]
  unfold dayOf DAY
  refine ⟨rfl, ?_, ?_, ?_⟩ <;> omega

example : new ⟨.naive, 1577919600000000, false⟩ ⟨.naive, 1578006000000000 + 5, false⟩ true false = .ok 86400000005 ∧
    inDays ⟨.naive, 1577919600000000, false⟩ ⟨.naive, 1578006000000000 + 5, false⟩ false = 1 := by
  constructor
  · rfl
  · decide +kernel

/-- naive pair, non-positive length: the mirror image -/
theorem in_days_vs_truncation_neg (s e : V) (hs : s.z = .naive) (he : e.z = .naive) (len : Int)
    (h : new s e true false = .ok len) (hneg : len ≤ 0) :
    len = e.w - s.w ∧
    Int.tdiv len DAY - 1 ≤ inDays s e false ∧ inDays s e false ≤ Int.tdiv len DAY ∧
    (inDays s e false = Int.tdiv len DAY ↔ s.w % DAY ≥ e.w % DAY) := by
  rw [(naive_len s e hs he).1] at h
  simp only [Except.ok.injEq] at h
  rw [(in_days_plain s e).1, tdiv_nonpos len DAY hneg, ← h]
  unfold dayOf DAY
  refine ⟨rfl, ?_, ?_, ?_⟩ <;> omega

example : lenOf (new ⟨.naive, 1578006000000000, false⟩ ⟨.naive, 1577919600000000, false⟩ true false) = some (-86400000000) ∧
    inDays ⟨.naive, 1578006000000000, false⟩ ⟨.naive, 1577919600000000, false⟩ false = -1 := by decide +kernel

/-- `in_days()` is a CALENDAR count, not the elapsed time in days: 2020-01-01T23:00 → 2020-01-02T01:00 (naive) is a
    2-hour interval with `in_days() = 1` (and `in_hours() = 2`) -/
theorem in_days_calendar_not_truncation :
    ∃ s e : V, s.z = .naive ∧ e.z = .naive ∧ new s e true false = .ok 7200000000 ∧
      inHours 7200000000 = 2 ∧ Int.tdiv 7200000000 DAY = 0 ∧ inDays s e false = 1 :=
  ⟨⟨.naive, 1577919600000000, false⟩, ⟨.naive, 1577926800000000, false⟩, rfl, rfl, rfl,
    by decide +kernel, by decide +kernel, by decide +kernel⟩

/-! ### `interval(a, b, absolute=True)` versus `interval(b, a, absolute=True)` -/

/-- outside the wall-order region (F12) — the comparison the code uses agrees with the order of the instants — an
    absolute interval has the same length whichever endpoint comes first (a failure of the same-object branch is
    symmetric too: both orders shift both endpoints) -/
theorem abs_symm_outside_wall_order (a b : V) (same : Bool) (r : Int)
    (hord : same = true → ((a.w > b.w ↔ a.instant > b.instant) ∧ (b.w > a.w ↔ b.instant > a.instant)))
    (h : new a b same true = .ok r) : new b a same true = .ok r := by
  unfold new gt at h ⊢
  simp only [Bool.true_and] at h ⊢
  cases same
  · simp only [Bool.false_eq_true, if_false] at h ⊢
    by_cases c : a.instant > b.instant
    · have d : ¬ b.instant > a.instant := by omega
      simp only [c, d, decide_true, decide_false, if_true, Bool.false_eq_true, if_false] at h ⊢; exact h
    · simp only [c, decide_false, Bool.false_eq_true, if_false] at h
      by_cases d : b.instant > a.instant
      · simp only [d, decide_true, if_true]; exact h
      · simp only [d, decide_false, Bool.false_eq_true, if_false]
        have e := delta_swap _ _ _ _ h
        have : r = 0 := by have := delta_ok _ _ _ _ h; omega
        rw [e]; congr 1; omega
  · have ho := hord rfl
    simp only [if_true] at h ⊢
    by_cases c : a.w > b.w
    · have d : ¬ b.w > a.w := by omega
      simp only [c, d, decide_true, decide_false, if_true, Bool.false_eq_true, if_false] at h ⊢; exact h
    · simp only [c, decide_false, Bool.false_eq_true, if_false] at h
      by_cases d : b.w > a.w
      · simp only [d, decide_true, if_true]; exact h
      · simp only [d, decide_false, Bool.false_eq_true, if_false]
        have e := delta_swap _ _ _ _ h
        have c' : ¬ a.instant > b.instant := fun x => c (ho.1.mpr x)
        have d' : ¬ b.instant > a.instant := fun x => d (ho.2.mpr x)
        have : r = 0 := by have := delta_ok _ _ _ _ h; omega
        rw [e]; congr 1; omega

/-- Paris 2013-10-27 01:59:59 (CEST) and 03:00 (CET), one tzinfo object: 1 h 0 min 1 s apart in either order -/
example : lenOf (new ⟨.named parisZ, 1382839199000000, false⟩ ⟨.named parisZ, 1382842800000000, false⟩ true true) = some 7201000000 ∧
    lenOf (new ⟨.named parisZ, 1382842800000000, false⟩ ⟨.named parisZ, 1382839199000000, false⟩ true true) = some 7201000000 := by
  decide +kernel

/-- outside the wall-order region the absolute length is the magnitude of the plain length -/
theorem abs_eq_abs_of_plain (a b : V) (same : Bool) (r r' : Int)
    (hord : same = true → ((a.w > b.w ↔ a.instant > b.instant) ∧ (b.w > a.w ↔ b.instant > a.instant)))
    (h : new a b same true = .ok r) (h' : new a b same false = .ok r') :
    r = (if r' < 0 then -r' else r') := by
  have hmag := (abs_magnitude_partial a b same r (fun x => (hord x).1) h).1
  have hp : r' = b.instant - a.instant := by
    unfold new at h'
    simp only [Bool.false_and, Bool.false_eq_true, if_false] at h'
    exact delta_ok _ _ _ _ h'
  rw [hmag, hp]
  by_cases c : a.instant > b.instant <;> simp only [c, if_true, if_false] <;> split <;> omega

example : lenOf (new ⟨.named parisZ, 1382842800000000, false⟩ ⟨.named parisZ, 1382839199000000, false⟩ true false) = some (-7201000000) ∧
    lenOf (new ⟨.named parisZ, 1382842800000000, false⟩ ⟨.named parisZ, 1382839199000000, false⟩ true true) = some 7201000000 := by
  decide +kernel

/-- F12, seen as an asymmetry: inside the region (both occurrences of Paris 2013-10-27 02:30 on one tzinfo object)
    `interval(a, b, absolute=True)` and `interval(b, a, absolute=True)` differ (+1 h versus −1 h) -/
theorem abs_symm_wall_order_counterexample :
    ∃ (z : Z) (a b : V), z.WF ∧ a.z.table = some z ∧ b.z.table = some z ∧
      lenOf (new a b true true) = some 3600000000 ∧ lenOf (new b a true true) = some (-3600000000) :=
  ⟨parisZ, ⟨.named parisZ, 1382841000000000, false⟩, ⟨.named parisZ, 1382841000000000, true⟩,
    parisZ_wf, rfl, rfl, by decide +kernel, by decide +kernel⟩

/-! ### `DateTime.__sub__` / `__rsub__` / `diff` themselves, regenerated from `src/pendulum/datetime.py` on every run
(`tools/gen_dtarith.py` → `Gen/DTArith.lean`): which operand becomes which endpoint of the Interval -/
open Pendulum.Gen.DTArith Pendulum.DTArithGen

/-- **`self - other` and the reflected `other - self`, from the source**, for a datetime operand `other` that denotes the
    model value `ov` (`hf`: its seven fields; `ha`: its awareness): the translated operators build
    `Interval(<other rebuilt>, self, absolute=False)` resp. `Interval(self, <other rebuilt>, absolute=False)`, where an instance
    of the class is used as it stands (model `sub` / `diff`), a naive native value is rebuilt from its fields with
    `pendulum.naive` and an aware one through `self.instance(other)` (model `subNative` / `rsubNative`, `instance` read as
    the model's `instanceOf`). Length by `Interval.new` in every case. -/
theorem sub_datetime_source_eq_model (I : Inst) (sv ov : V) (o no : Operand) (same : Bool)
    (hf : toWall ⟨o.year, o.month, o.day, o.hour, o.minute, o.second, o.microsecond⟩ = ov.w)
    (ha : o.aware = Interval.aware ov) :
    (o.kind = .pendulumDT →
      (dt_op_sub I o no).toOption.map (resLen sv ov (.ok ov) same) = some (Interval.sub sv ov same) ∧
      (dt_op_rsub I o).toOption.map (resLen sv ov (.ok ov) same) = some (Interval.diff sv ov same false)) ∧
    (o.kind = .datetime →
      (dt_op_sub I o no).toOption.map (resLen sv ov (Interval.instanceOf ov) same) = some (Interval.subNative sv ov same) ∧
      (dt_op_rsub I o).toOption.map (resLen sv ov (Interval.instanceOf ov) same) = some (Interval.rsubNative sv ov same)) :=
  sub_datetime_model I sv ov o no same hf ha

/-- **which operand kinds give an Interval**: `__sub__` → a timedelta (plain, Duration, Interval) is subtracted
    (`_subtract_timedelta`), a datetime gives `Interval(rebuilt other, self, absolute=False)`, anything else
    `NotImplemented`; `__rsub__` → a datetime gives `Interval(self, rebuilt other, absolute=False)`, anything else
    `NotImplemented` -/
theorem sub_dispatch_source_eq_model (I : Inst) (o no : Operand) :
    dt_op_sub I o no =
      (if isDelta o.kind then Except.map Res.value (dt_subtract_timedelta I o no)
       else if o.kind = .datetime ∨ o.kind = .pendulumDT then .ok (.interval (rebuilt o) .self false)
       else .ok .notImplemented) ∧
    dt_op_rsub I o =
      (if o.kind = .datetime ∨ o.kind = .pendulumDT then .ok (.interval .self (rebuilt o) false)
       else .ok .notImplemented) := ⟨op_sub_eq I o no, op_rsub_eq I o⟩

/-- **`diff(dt, abs)`, from the source**: `Interval(self, dt, absolute=abs)` with `dt` defaulting to now in the instance's
    zone; for two given values its length is the model's `diff` -/
theorem diff_source_eq_model (sv ov : V) (same abs : Bool) (me : Who) (dt : Option Who) :
    dt_diff me dt abs = .interval me (dt.getD (.now me)) abs ∧
    resLen sv ov (.ok ov) same (dt_diff .self (some .other) abs) = Interval.diff sv ov same abs := by
  refine ⟨diff_eq me dt abs, ?_⟩
  rw [diff_eq]; simp [resLen, whoV, Interval.diff]

/-! non-vacuity: a naive native operand (1970-01-02T00:00) on either side of `-` -/
example :
    (dt_op_sub (instOf ⟨.naive, 0, false⟩) ⟨.datetime, false, 1970, 1, 2, 0, 0, 0, 0, 0, 0, 0, 0, 0, 0, 0, 0, 0, 0, 0, 0, 0, 0, 0, 0, 0, 0⟩
        ⟨.other, false, 0, 0, 0, 0, 0, 0, 0, 0, 0, 0, 0, 0, 0, 0, 0, 0, 0, 0, 0, 0, 0, 0, 0, 0, 0⟩).toOption
      = some (.interval (.naive 1970 1 2 0 0 0 0) .self false) := by decide +kernel
example : lenOf (resLen ⟨.naive, 0, false⟩ ⟨.naive, 86400000000, false⟩ (.ok ⟨.naive, 86400000000, false⟩) true
    (.interval (.naive 1970 1 2 0 0 0 0) .self false)) = some (-86400000000) := by decide +kernel
/-! ### The model is the code: regenerated definitions

`Pendulum.Gen.Interval` is produced from `src/pendulum/interval.py` on every run (tools/gen_interval.py): `Interval.__new__`,
`__init__`, the component properties, `in_*`, `range`, `__contains__`, `__neg__`, `__abs__`, `_getstate` … statement by statement,
with the stdlib operations they call (`>`, `utcoffset()`, `x - timedelta`, `a - b`, `pendulum.instance`) as fields of a parameter
record `Env`.  These theorems re-check, against what the code says now, that the model `Interval.new` the theorems above are
about *is* that code: an edit to the source either keeps them provable or breaks the build.  `IntervalGen.EnvOk env` states what
the model assumes about the stdlib (tied by the correspondence run); `IntervalGen.Rep env A v`: the endpoint record `A`
(class, civil fields, fold, tzinfo identity) denotes the model value `v`. -/
section Regenerated
open Pendulum.IntervalGen
open Pendulum.Gen.Interval (Ep Kind Cls Env Self isinst)

/-- `Interval.__new__` as written in the source (type checks, the `absolute` swap decided by `start > end`, both endpoints rebuilt
    as native values *with their own folds*, the UTC shift of both when they share the tzinfo object, `_end - _start`):
    * two datetimes of either class, both naive or both aware: the model's `new` (same length or same exception);
    * two dates of either class: the model's `dateNew`;
    * exactly one datetime → ValueError; a naive and an aware datetime → TypeError -/
theorem new_source_eq_model (env : Env) (ok : EnvOk env) (A B : Ep) (absolute : Bool) :
    (∀ s e : V, Rep env A s → Rep env B e → isinst A.kind .datetime = true → isinst B.kind .datetime = true →
      aware s = aware e →
      Gen.Interval.new env A B absolute = liftE (new s e (decide (A.tz = B.tz)) absolute)) ∧
    (∀ a b : Int, DateRep A a → DateRep B b → Gen.Interval.new env A B absolute = .ok (dateNew a b absolute)) ∧
    (isinst A.kind .datetime ≠ isinst B.kind .datetime → Gen.Interval.new env A B absolute = .error "ValueError") ∧
    (isinst A.kind .datetime = true → isinst B.kind .datetime = true → ¬ Compat A B →
      Gen.Interval.new env A B absolute = .error "TypeError") :=
  ⟨fun s e hA hB hdA hdB haw => new_eq env ok A B absolute s e hA hB hdA hdB haw,
   fun a b hA hB => new_date_eq env ok A B absolute a b hA hB,
   (new_raises env A B absolute).1, (new_raises env A B absolute).2⟩

/-- `Interval.__init__` as written in the source, for two pendulum endpoints on one tzinfo object (or both naive): `_invert` is
    the model's `gt`, the endpoints kept are the model's `initEnds` (swapped iff `start > end and absolute`) — the pair whose
    calendar days `inDays` counts -/
theorem init_ends_source_eq_model (env : Env) (ok : EnvOk env) (A B : Ep) (s e : V) (absolute : Bool)
    (hA : Rep env A s) (hB : Rep env B e) (hpA : isinst A.kind .pDate = true) (hpB : isinst B.kind .pDate = true)
    (htz : A.tz = B.tz) :
    ∃ r, Gen.Interval.init env A B absolute = .ok r ∧ r.invert = gt s e true ∧ r.absolute = absolute ∧
      Rep env r.start (initEnds s e absolute).1 ∧ Rep env r.end_ (initEnds s e absolute).2 :=
  init_ends env ok A B s e absolute hA hB hpA hpB htz

/-- `-(b - a)` and `abs(b - a)` as written in the source: `__neg__` calls the class on `(end, start, absolute)`, `__abs__` on
    `(start, end, absolute=True)`; through `__new__` these are the model's `negSub` / `absSub` -/
theorem neg_abs_source_eq_model (env : Env) (ok : EnvOk env) (self : Self Ep) (a b : V)
    (hA : Rep env self.start a) (hB : Rep env self.end_ b) (hab : self.absolute = false)
    (hdA : isinst self.start.kind .datetime = true) (hdB : isinst self.end_.kind .datetime = true) (haw : aware a = aware b) :
    Gen.Interval.op_neg self = (self.end_, self.start, self.absolute) ∧
    Gen.Interval.op_abs self = (self.start, self.end_, true) ∧
    Gen.Interval.new env (Gen.Interval.op_neg self).1 (Gen.Interval.op_neg self).2.1 (Gen.Interval.op_neg self).2.2
      = liftE (negSub b a (decide (self.end_.tz = self.start.tz))) ∧
    Gen.Interval.new env (Gen.Interval.op_abs self).1 (Gen.Interval.op_abs self).2.1 (Gen.Interval.op_abs self).2.2
      = liftE (absSub b a (decide (self.start.tz = self.end_.tz))) := by
  obtain ⟨h1, h2⟩ := neg_abs_eq self
  refine ⟨h1, h2, ?_, ?_⟩
  · rw [h1, hab]
    exact new_eq env ok self.end_ self.start false b a hB hA hdB hdA haw.symm
  · rw [h2]
    exact new_eq env ok self.start self.end_ true a b hA hB hdA hdB haw

/-- `in_years/in_months/in_days/in_weeks` as written in the source: `in_days()` is `_delta.total_days`, `in_weeks()` the model's
    `inWeeks` of it (sign · (|days| // 7)) -/
theorem in_units_source_eq_model {α : Type} (self : Self α) :
    Gen.Interval.in_years self = self.delta.years ∧
    Gen.Interval.in_months self = self.delta.years * 12 + self.delta.months ∧
    Gen.Interval.in_days self = self.delta.total_days ∧
    Gen.Interval.in_weeks self = inWeeks (Gen.Interval.in_days self) := by
  obtain ⟨h1, h2, h3, h4⟩ := in_units_eq self
  exact ⟨h1, by rw [h2]; rfl, h3, h4⟩

/-- the hypotheses are satisfiable: the reference parameters built from the model's own zone arithmetic satisfy `EnvOk`, and
    under them every endpoint record denotes a model value -/
theorem interval_env_hypotheses_satisfiable (zoneOf : Int → ZRef) (h0 : zoneOf 0 = .naive) (h1 : ∀ t, t ≠ 0 → zoneOf t ≠ .naive) :
    EnvOk (refEnv zoneOf) ∧ ∀ A : Ep, Rep (refEnv zoneOf) A (epV zoneOf A) :=
  ⟨refEnv_ok zoneOf, refEnv_rep zoneOf h0 h1⟩

/-! non-vacuity: the generated `__new__` on the F12 pair (Paris 2013-10-27 02:30, both folds, one tzinfo object), on two tzinfo
objects, on Date endpoints, and its three exceptions -/
example : Gen.Interval.new (refEnv exZone) ⟨.pdt, 2013, 10, 27, 2, 30, 0, 0, false, 1⟩ ⟨.pdt, 2013, 10, 27, 2, 30, 0, 0, true, 1⟩ false
    = .ok 3600000000 := by decide +kernel
example : Gen.Interval.new (refEnv exZone) ⟨.pdt, 2013, 10, 27, 2, 30, 0, 0, true, 1⟩ ⟨.ndt, 2013, 10, 27, 2, 30, 0, 0, false, 1⟩ true
    = .ok (-3600000000) := by decide +kernel
example : Gen.Interval.new (refEnv exZone) ⟨.pdt, 2013, 10, 27, 2, 30, 0, 0, false, 1⟩ ⟨.pdt, 2013, 10, 27, 2, 30, 0, 0, true, 2⟩ true
    = .ok 3600000000 := by decide +kernel
example : Gen.Interval.new (refEnv exZone) ⟨.pdate, 2020, 2, 1, 0, 0, 0, 0, false, 0⟩ ⟨.ndate, 2020, 1, 1, 0, 0, 0, 0, false, 0⟩ true
    = .ok 2678400000000 := by decide +kernel
example : Gen.Interval.new (refEnv exZone) ⟨.pdt, 2020, 1, 1, 0, 0, 0, 0, false, 0⟩ ⟨.pdate, 2020, 1, 2, 0, 0, 0, 0, false, 0⟩ false
    = .error "ValueError" := by decide +kernel
example : Gen.Interval.new (refEnv exZone) ⟨.pdt, 2020, 1, 1, 0, 0, 0, 0, false, 0⟩ ⟨.ndt, 2020, 1, 2, 0, 0, 0, 0, false, 2⟩ false
    = .error "TypeError" := by decide +kernel
example : Gen.Interval.new (refEnv exZone) ⟨.pdt, 1, 1, 1, 0, 30, 0, 0, false, 2⟩ ⟨.pdt, 1, 1, 1, 0, 45, 0, 0, false, 2⟩ false
    = .error "OverflowError" := by decide +kernel
example : Gen.Interval.in_weeks (⟨(), (), false, false, ⟨0, 0, -20, 0, 0, 0, 0, -20⟩, -20, 0⟩ : Self Unit) = -2 := by decide

end Regenerated

end Pendulum.Props.C05
