import Pendulum.Proofs.C05
/-! # C05 — an interval's length is the exact elapsed time between its endpoints

Theorems over the model of `Interval.__new__` and of the paths into it (Model/Interval.lean), for every
well-formed zone table, every instant, either fold. Lengths are exact integer microseconds; the float step
`Duration(seconds=delta.total_seconds())` is the validated bridge of DESIGN §5 (exact below 2^33 s). -/
namespace Pendulum.Props.C05
open Pendulum Pendulum.Zone Pendulum.DTOps Pendulum.AddDur Pendulum.Interval

/-! ### length = difference of the instants -/

/-- both branches of `Interval.__new__` — offsets removed by hand for one shared tzinfo object, stdlib aware
    subtraction otherwise — yield `instant(end) − instant(start)`, where `instant = wall − utcoffset(fold)`;
    the different-object branch never fails -/
theorem interval_len (s e : V) (same : Bool) :
    (∀ r, delta s e same = .ok r → r = e.instant - s.instant) ∧
    delta s e false = .ok (e.instant - s.instant) := by
  refine ⟨fun r h => delta_ok s e same r h, ?_⟩
  unfold delta V.instant
  simp only [Bool.false_eq_true, if_false, Except.ok.injEq]; omega

/-- for endpoints that are the local renderings of instants `u`, `u'` in well-formed zones `z`, `z'` (same object,
    same name or different zones; whatever fold bit the rendering carries) the length is exactly `u' − u` -/
theorem interval_len_instants (z z' : Z) (hz : z.WF) (hz' : z'.WF) (u u' : Int) (same : Bool) (r : Int)
    (h : delta ⟨.named z, (fromUtc z u).w, (fromUtc z u).fold⟩
               ⟨.named z', (fromUtc z' u').w, (fromUtc z' u').fold⟩ same = .ok r) :
    r = u' - u := by
  have := delta_ok _ _ same r h
  rw [rendered_instant z hz u, rendered_instant z' hz' u'] at this
  exact this

/-- on a wall time that is not repeated the fold bit does not matter (a constructed value carries the default
    `fold=1`, a converted one `fold=0`): same instant -/
theorem fold_irrelevant_when_unique (z : Z) (w : Int) (hu : z.woff false w = z.woff true w) (f g : Bool) :
    (⟨.named z, w, f⟩ : V).instant = (⟨.named z, w, g⟩ : V).instant := by
  unfold V.instant V.offset ZRef.table
  cases f <;> cases g <;> simp [hu]

/-- `b - a`, `a.diff(b, False)`, `interval(a, b)`: the same length `instant(b) − instant(a)` -/
theorem sub_diff_len (a b : V) (same : Bool) (r : Int) :
    (sub b a same = .ok r → r = b.instant - a.instant) ∧
    (diff a b same false = .ok r → r = b.instant - a.instant) ∧
    sub b a same = diff a b same false := by
  refine ⟨?_, ?_, rfl⟩
  · intro h
    unfold sub new at h
    simp only [Bool.false_and, Bool.false_eq_true, if_false] at h
    exact delta_ok _ _ _ _ h
  · intro h
    unfold diff new at h
    simp only [Bool.false_and, Bool.false_eq_true, if_false] at h
    exact delta_ok _ _ _ _ h

/-- Paris 2013-10-27: 02:30 first pass → 02:30 second pass is one hour (same tzinfo object) -/
example : lenOf (new ⟨.named parisZ, 1382841000000000, false⟩ ⟨.named parisZ, 1382841000000000, true⟩ true false)
    = some 3600000000 := by decide +kernel

/-! ### truncating counts -/

/-- `in_seconds/in_minutes/in_hours` truncate the length toward zero -/
theorem in_units_trunc (len : Int) :
    (0 ≤ len → (inSeconds len * 1000000 ≤ len ∧ len < (inSeconds len + 1) * 1000000) ∧
               (inMinutes len * 60000000 ≤ len ∧ len < (inMinutes len + 1) * 60000000) ∧
               (inHours len * 3600000000 ≤ len ∧ len < (inHours len + 1) * 3600000000)) ∧
    (len ≤ 0 → ((inSeconds len - 1) * 1000000 < len ∧ len ≤ inSeconds len * 1000000) ∧
               ((inMinutes len - 1) * 60000000 < len ∧ len ≤ inMinutes len * 60000000) ∧
               ((inHours len - 1) * 3600000000 < len ∧ len ≤ inHours len * 3600000000)) := by
  unfold inSeconds inMinutes inHours
  constructor
  · intro h
    rw [Int.tdiv_eq_ediv_of_nonneg h, Int.tdiv_eq_ediv_of_nonneg h, Int.tdiv_eq_ediv_of_nonneg h]
    omega
  · intro h
    rw [tdiv_nonpos len _ h, tdiv_nonpos len _ h, tdiv_nonpos len _ h]
    omega

example : inSeconds (-1500000) = -1 ∧ inMinutes 119999999 = 1 ∧ inHours (-3600000000) = -1 := by decide +kernel

/-- negating the length negates every truncated count -/
theorem in_units_neg (len : Int) :
    inSeconds (-len) = -inSeconds len ∧ inMinutes (-len) = -inMinutes len ∧ inHours (-len) = -inHours len :=
  ⟨Int.neg_tdiv _ _, Int.neg_tdiv _ _, Int.neg_tdiv _ _⟩

/-! ### swapping the endpoints -/

/-- swapping the endpoints negates the length (hence `(a - b) = -(b - a)` and `-(b - a)` = `Interval(b, a)`) -/
theorem swap_neg (a b : V) (same : Bool) (r : Int) (h : new a b same false = .ok r) :
    new b a same false = .ok (-r) ∧ negSub b a same = .ok (-r) ∧ sub a b same = .ok (-r) := by
  unfold negSub sub new at *
  simp only [Bool.false_and, Bool.false_eq_true, if_false] at *
  exact ⟨delta_swap _ _ _ _ h, delta_swap _ _ _ _ h, delta_swap _ _ _ _ h⟩

/-! ### absolute intervals -/

/-- `absolute=True` / `abs()` / `diff()` default give the magnitude whenever the comparison the code uses
    (`start > end`: wall clocks for one shared tzinfo object) agrees with the order of the instants.
    NOT covered (F12): both endpoints share the tzinfo object and their wall-clock order differs from the
    order of their instants — see `abs_wall_order_counterexample`. -/
theorem abs_magnitude_partial (a b : V) (same : Bool) (r : Int)
    (hord : same = true → (a.w > b.w ↔ a.instant > b.instant))
    (h : new a b same true = .ok r) :
    r = (if a.instant > b.instant then a.instant - b.instant else b.instant - a.instant) ∧ 0 ≤ r := by
  unfold new gt at h
  have hgt : (if same then decide (a.w > b.w) else decide (a.instant > b.instant)) = decide (a.instant > b.instant) := by
    cases same
    · rfl
    · simp only [if_true]
      have := hord rfl
      by_cases c : a.instant > b.instant
      · simp [c, this.mpr c]
      · have : ¬ a.w > b.w := fun x => c (this.mp x)
        simp [c, this]
  simp only [Bool.true_and] at h
  rw [hgt] at h
  by_cases c : a.instant > b.instant
  · simp only [c, decide_true, if_true] at h ⊢
    have := delta_ok _ _ _ _ h; omega
  · simp only [c, decide_false, Bool.false_eq_true, if_false] at h ⊢
    have := delta_ok _ _ _ _ h; omega

/-- distinct tzinfo objects (different zones, or equal names but separate objects): always the magnitude -/
theorem abs_magnitude_distinct (a b : V) (r : Int) (h : new a b false true = .ok r) :
    r = (if a.instant > b.instant then a.instant - b.instant else b.instant - a.instant) ∧ 0 ≤ r :=
  abs_magnitude_partial a b false r (fun x => by cases x) h

/-- one shared tzinfo object: the magnitude is right as soon as ONE endpoint's wall time is not repeated,
    i.e. everywhere except when both endpoints lie inside an overlap -/
theorem abs_magnitude_outside_overlap (z : Z) (hz : z.WF) (u u' : Int) (r : Int)
    (huniq : z.woff false (fromUtc z u).w = z.woff true (fromUtc z u).w ∨
             z.woff false (fromUtc z u').w = z.woff true (fromUtc z u').w)
    (h : new ⟨.named z, (fromUtc z u).w, (fromUtc z u).fold⟩ ⟨.named z, (fromUtc z u').w, (fromUtc z u').fold⟩ true true = .ok r) :
    r = (if u > u' then u - u' else u' - u) ∧ 0 ≤ r := by
  have hw : ((fromUtc z u).w > (fromUtc z u').w ↔ u > u') := by
    rcases huniq with h1 | h1
    · have := wall_order_of_unique z hz u' u h1
      constructor
      · intro x
        rcases Int.lt_trichotomy u u' with c | c | c
        · have := this.mpr (by omega); omega
        · subst c; omega
        · exact c
      · intro x
        rcases Int.lt_trichotomy (fromUtc z u).w (fromUtc z u').w with c | c | c
        · have := this.mp (by omega); omega
        · have e1 := toUtc_fromUtc z hz u
          have e2 := toUtc_fromUtc z hz u'
          unfold toUtc at e1 e2
          rw [← c] at e2
          have : z.woff (fromUtc z u').fold (fromUtc z u).w = z.woff (fromUtc z u).fold (fromUtc z u).w := by
            cases (fromUtc z u').fold <;> cases (fromUtc z u).fold <;> simp [h1]
          omega
        · exact c
    · exact wall_order_of_unique z hz u u' h1
  have := abs_magnitude_partial _ _ true r (fun _ => by
    rw [rendered_instant z hz u, rendered_instant z hz u']; exact hw) h
  rw [rendered_instant z hz u, rendered_instant z hz u'] at this
  exact this

/-- F12: inside an overlap the swap test compares wall clocks; `abs(fold0 − fold1)` is negative
    (Paris 2013-10-27 02:30, both endpoints on the same tzinfo object) -/
theorem abs_wall_order_counterexample :
    ∃ (z : Z) (a b : V), z.WF ∧ a.z.table = some z ∧ b.z.table = some z ∧
      lenOf (new a b true true) = some (-3600000000) :=
  ⟨parisZ, ⟨.named parisZ, 1382841000000000, true⟩, ⟨.named parisZ, 1382841000000000, false⟩,
    parisZ_wf, rfl, rfl, by decide +kernel⟩

/-! ### native operands, dates -/

/-- `self − native` and `native − self` for a native operand that is a valid local time (not inside a gap):
    the difference of the instants, as the native subtraction of the UTC-normalised values -/
theorem native_sub (self n : V) (same : Bool) (r : Int)
    (hvalid : ∀ z, n.z = .named z → ¬ (z.woff true n.w > z.woff false n.w)) :
    (subNative self n same = .ok r → r = self.instant - n.instant) ∧
    (rsubNative self n same = .ok r → r = n.instant - self.instant) := by
  unfold subNative rsubNative
  cases hi : instanceOf n with
  | error x => simp
  | ok o =>
    have e := instanceOf_instant n o hvalid hi
    simp only []
    constructor
    · intro h; have := (sub_diff_len o self same r).1 h; omega
    · intro h; have := (sub_diff_len self o same r).2.1 h; omega

/-- Date pairs: whole days; `absolute` gives the magnitude (dates compare by their day numbers) -/
theorem date_len (a b : Int) :
    dateNew a b false = (b - a) * DAY ∧
    dateNew a b true = (if a > b then a - b else b - a) * DAY ∧ 0 ≤ dateNew a b true := by
  unfold dateNew DAY
  refine ⟨by simp, ?_, ?_⟩ <;> by_cases c : a > b <;> simp [c] <;> omega

end Pendulum.Props.C05
