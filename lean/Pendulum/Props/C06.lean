import Pendulum.Proofs.PD5
/-! # C06 — Interval components are canonical and rebuild the end from the start

Theorems about `Model/PreciseDiff.lean` (the repaired `precise_diff`, both implementations) and
`Model/AddDur.lean` (`helpers.add_duration`), for every year (no bound inside the calendar lemmas; the range
hypotheses `1 ≤ year ≤ 9999` are `datetime`'s own). An endpoint is a field tuple `E`; `E.Valid` = a real
calendar date and time of day; `E.le` = `a <= b` for two values sharing a tzinfo. -/
namespace Pendulum.Props.C06
open Pendulum Pendulum.Cal Pendulum.AddDur Pendulum.PreciseDiff

/-- the pair is decomposed on its own wall clock: the UTC shift of `precise_diff` is not taken (same named
    zone, different days) or is the identity (naive values, `date`s, UTC: offset 0) -/
def NoShift (a b : E) : Prop :=
  (a.off = 0 ∧ b.off = 0) ∨ (a.tz > 0 ∧ Gen.day_number b.y b.m b.d - Gen.day_number a.y a.m a.d ≠ 0)

theorem pyShift_off0 (e : E) (h : e.off = 0) : pyShift e = e := by
  unfold pyShift; simp [h]

/-- for an ordered pair sharing a tzinfo, `precise_diff` is the plain decomposition of the two field tuples -/
theorem pd_eq_decompose (a b : E) (htz : a.tz = b.tz) (hns : NoShift a b) (hgt : pyGt a b = false)
    (hne : pyEq a b = false) :
    preciseDiffPy a b = decompose dimPy a b (Gen.day_number b.y b.m b.d - Gen.day_number a.y a.m a.d) := by
  unfold preciseDiffPy
  simp only [hne, hgt, Bool.false_eq_true, if_false]
  rw [scale_one]
  rcases hns with ⟨h1, h2⟩ | ⟨h1, h2⟩
  · simp only [pyShift_off0 a h1, pyShift_off0 b h2, ite_self]
  · have hb0 : b.tz > 0 := by omega
    have e1 : (decide (a.tz = b.tz) && decide (a.tz > 0)) = true := by
      simp only [htz, hb0, decide_true, Bool.and_self]
    have e2 : decide (Gen.day_number b.y b.m b.d - Gen.day_number a.y a.m a.d = 0) = false := by simp [h2]
    simp only [e1, e2, Bool.not_true, Bool.or_self, Bool.and_false, Bool.false_eq_true, if_false]

theorem key_eq (a b : E) (h : a.key = b.key) :
    a.y = b.y ∧ a.m = b.m ∧ a.d = b.d ∧ a.h = b.h ∧ a.mi = b.mi ∧ a.s = b.s ∧ a.us = b.us := by
  simp only [E.key, List.cons.injEq, and_true] at h
  exact h

/-- adding nothing returns the value -/
theorem addDuration_zero (e : E) (hv : e.Valid) (h1 : 1 ≤ e.y) (h2 : e.y ≤ 9999) :
    addDuration e.wallUs 0 0 0 0 0 0 0 0 = .ok e.wallUs := by
  obtain ⟨hd, ht⟩ := hv
  have htod : 0 ≤ e.tod ∧ e.tod < 86400000000 := by
    obtain ⟨t1, t2, t3, t4, t5, t6, t7, t8⟩ := ht
    unfold E.tod; omega
  have hr := wall_in_range e ⟨hd, ht⟩ h1 h2
  unfold E.wallUs at hr ⊢
  rw [addDuration_canon e.y e.m e.d e.tod 0 0 0 0 0 0 0 0 hd htod (by omega) (by omega) (by omega) (by omega) (by omega)]
  have hm : ¬ (e.m > 12) := by have := hd.2.1; omega
  have hmin : min (dimL (isLeap e.y) e.m) e.d = e.d := by
    have := hd.2.2.2; rw [daysInMonth_eq] at this; omega
  simp only [addYMc, Int.add_zero, if_neg hm, hmin]
  have ht0 : totalUs (0 + 0 * 7) 0 0 0 0 = 0 := by decide
  rw [ht0, Int.add_zero]
  have a1 : ¬ (e.y < 1 ∨ e.y > 9999) := by omega
  have a2 : ¬ (fieldsToWall e.y e.m e.d e.tod < minWall ∨ fieldsToWall e.y e.m e.d e.tod > maxWall) := by omega
  rw [if_neg a1, if_neg a2]

/-- **canonical ranges**: for a ≤ b in the same timezone (same offset) the components are non-negative,
    months ≤ 11, days ≤ 30, hours ≤ 23, minutes/seconds ≤ 59, microseconds ≤ 999999 -/
theorem pd_ranges (a b : E) (ha : a.Valid) (hb : b.Valid) (htz : a.tz = b.tz) (hns : NoShift a b)
    (hle : a.le b) (hdt : b.isDt = true) (hy1 : 1 ≤ a.y) (hy2 : b.y ≤ 9999) :
    (preciseDiffPy a b).Canonical := by
  have hgt : pyGt a b = false := by
    unfold pyGt; rw [if_pos htz]; exact lexLt_false_of_le a b ha.2 hb.2 hle
  cases hne : pyEq a b
  · rw [pd_eq_decompose a b htz hns hgt hne]
    exact (decompose_spec a b ha hb hle hdt hy1 hy2 _ 0 (by omega)).1
  · unfold preciseDiffPy; rw [hne]; simp only [if_true]
    unfold PD.Canonical PD.zero; simp

/-- **rebuild**: `a.add(years, months, weeks, remaining_days, hours, minutes, remaining_seconds, microseconds)`
    of the components of `b − a` is exactly `b` (`helpers.add_duration` on the wall clock), a ≤ b, same timezone -/
theorem pd_rebuild (a b : E) (ha : a.Valid) (hb : b.Valid) (htz : a.tz = b.tz) (hns : NoShift a b)
    (hle : a.le b) (hdt : b.isDt = true) (hy1 : 1 ≤ a.y) (hy2 : b.y ≤ 9999) (el : Int) (hel : 0 ≤ el) :
    let p := preciseDiffPy a b
    addDuration a.wallUs p.years p.months (weeksOf p) (remainingDaysOf p el) p.hours p.minutes p.seconds p.micros
      = .ok b.wallUs := by
  have hgt : pyGt a b = false := by
    unfold pyGt; rw [if_pos htz]; exact lexLt_false_of_le a b ha.2 hb.2 hle
  cases hne : pyEq a b
  · simp only [pd_eq_decompose a b htz hns hgt hne]
    exact (decompose_spec a b ha hb hle hdt hy1 hy2 _ el hel).2
  · have hk : a.key = b.key := by
      unfold pyEq at hne; rw [if_pos htz] at hne; simpa using hne
    obtain ⟨k1, k2, k3, k4, k5, k6, k7⟩ := key_eq a b hk
    have hw : b.wallUs = a.wallUs := by
      unfold E.wallUs E.tod; rw [k1, k2, k3, k4, k5, k6, k7]
    have hz : preciseDiffPy a b = PD.zero := by unfold preciseDiffPy; rw [hne]; simp
    simp only [hz, hw]
    have e1 : weeksOf PD.zero = 0 := by decide
    have e2 : remainingDaysOf PD.zero el = 0 := by
      unfold remainingDaysOf PD.zero absI; simp
    rw [e1, e2]
    exact addDuration_zero a ha hy1 (by rw [k1]; exact hy2)

/-- **reversed = negated**: `precise_diff(b, a)` reports the components of `precise_diff(a, b)` negated
    (every pair of endpoints, any zones) -/
theorem pd_reverse_neg (a b : E) : preciseDiffPy b a = (preciseDiffPy a b).scale (-1) := by
  unfold preciseDiffPy
  rw [pyEq_comm b a]
  cases hne : pyEq a b
  · simp only [Bool.false_eq_true, if_false]
    rw [pyGt_flip a b hne]
    cases hgt : pyGt a b
    · simp only [Bool.not_false, if_true, Bool.false_eq_true, if_false]
      rw [scale_scale]; rfl
    · simp only [Bool.not_true, Bool.false_eq_true, if_false, if_true]
      rw [scale_scale]; rfl
  · simp only [if_true]; rw [scale_zero]

/-- `in_months()` is `12 * years + months` -/
theorem in_months_eq (p : PD) : inMonthsOf p = 12 * p.years + p.months := by
  unfold inMonthsOf; omega

/-- `in_months()` of the reversed interval is the negation -/
theorem in_months_reverse (a b : E) : inMonthsOf (preciseDiffPy b a) = - inMonthsOf (preciseDiffPy a b) := by
  rw [pd_reverse_neg]; unfold inMonthsOf PD.scale; simp only []; omega

/-- `weeks`/`remaining_days` split the day component of a forward interval: 7·weeks + remaining_days = days,
    0 ≤ remaining_days ≤ 6 -/
theorem weeks_remaining_days (p : PD) (el : Int) (hd : 0 ≤ p.days) (hel : 0 ≤ el) :
    remainingDaysOf p el + weeksOf p * 7 = p.days ∧ 0 ≤ weeksOf p ∧ 0 ≤ remainingDaysOf p el ∧ remainingDaysOf p el ≤ 6 :=
  weeks_days p el hd hel

/-- and of an inverted one (elapsed time ≤ −1 day): both getters carry the sign -/
theorem weeks_remaining_days_neg (p : PD) (el : Int) (hd : p.days ≤ 0) (hel : el ≤ -86400000000) :
    remainingDaysOf p el + weeksOf p * 7 = p.days ∧ weeksOf p ≤ 0 ∧ -6 ≤ remainingDaysOf p el ∧ remainingDaysOf p el ≤ 0 := by
  unfold remainingDaysOf weeksOf absI PreciseDiff.sgn
  simp only [if_pos hel]
  by_cases h0 : p.days < 0
  · simp only [if_pos h0]; omega
  · have : p.days = 0 := by omega
    simp only [this]; decide

/-- **differently named zones ⇒ UTC**: the components are the plain decomposition of the two endpoints shifted
    to UTC (`pyShift` = fields of `wall − offset`, see `utc_shift_denotes_instant`) -/
theorem pd_utc_when_zones_differ (a b : E) (htz : a.tz ≠ b.tz) (hda : a.isDt = true) (hdb : b.isDt = true)
    (hgt : pyGt a b = false) (hne : pyEq a b = false) :
    preciseDiffPy a b =
      decompose dimPy (pyShift a) (pyShift b) (Gen.day_number b.y b.m b.d - Gen.day_number a.y a.m a.d) := by
  unfold preciseDiffPy
  simp only [hne, hgt, Bool.false_eq_true, if_false]
  rw [scale_one]
  have e1 : (decide (a.tz = b.tz) && decide (a.tz > 0)) = false := by simp [htz]
  simp only [e1, hda, hdb, Bool.not_false, Bool.true_or, Bool.and_self, if_true]

/-- the shifted tuple is a valid date/time and denotes the instant `wall − offset` -/
theorem utc_shift_denotes_instant (e : E) (hv : e.Valid) :
    (pyShift e).Valid ∧
    ymd2ord (pyShift e).y (pyShift e).m (pyShift e).d * 86400 + (pyShift e).secOfDay = e.instSec ∧
    (pyShift e).us = e.us := pyShift_spec e hv

/-- **cross-zone ranges + rebuild in UTC**: for endpoints in differently named zones with instant(a) < instant(b)
    the components are canonical and, added to `a` expressed in UTC, give `b` expressed in UTC -/
theorem pd_utc_rebuild (a b : E) (ha : a.Valid) (hb : b.Valid) (htz : a.tz ≠ b.tz)
    (hda : a.isDt = true) (hdb : b.isDt = true)
    (hlt : a.instSec < b.instSec ∨ (a.instSec = b.instSec ∧ a.us < b.us))
    (hy1 : 1 ≤ (pyShift a).y) (hy2 : (pyShift b).y ≤ 9999) (el : Int) (hel : 0 ≤ el) :
    let p := preciseDiffPy a b
    p.Canonical ∧
    addDuration (pyShift a).wallUs p.years p.months (weeksOf p) (remainingDaysOf p el) p.hours p.minutes p.seconds
      p.micros = .ok (pyShift b).wallUs := by
  have hne : pyEq a b = false := by
    unfold pyEq; rw [if_neg htz]
    simp only [Bool.and_eq_false_imp, decide_eq_true_eq, decide_eq_false_iff_not]; omega
  have hgt : pyGt a b = false := by
    unfold pyGt; rw [if_neg htz]
    simp only [Bool.or_eq_false_iff, Bool.and_eq_false_imp, decide_eq_true_eq, decide_eq_false_iff_not]
    constructor <;> omega
  obtain ⟨va, ia, ua⟩ := pyShift_spec a ha
  obtain ⟨vb, ib, ub⟩ := pyShift_spec b hb
  have sa : 0 ≤ (pyShift a).secOfDay ∧ (pyShift a).secOfDay < 86400 := by
    obtain ⟨_, t1, t2, t3, t4, t5, t6, _, _⟩ := va; unfold E.secOfDay; omega
  have sb : 0 ≤ (pyShift b).secOfDay ∧ (pyShift b).secOfDay < 86400 := by
    obtain ⟨_, t1, t2, t3, t4, t5, t6, _, _⟩ := vb; unfold E.secOfDay; omega
  have hle : (pyShift a).le (pyShift b) := by
    constructor
    · exact dateLe_of_ord_le _ _ _ _ _ _ va.1 vb.1 (by omega)
    · intro ⟨e1, e2, e3⟩
      rw [e1, e2, e3] at ia
      have ⟨_, p1, p2, p3, p4, p5, p6, p7, p8⟩ := va
      have ⟨_, q1, q2, q3, q4, q5, q6, q7, q8⟩ := vb
      unfold E.tod; unfold E.secOfDay at ia ib; omega
  simp only [pd_utc_when_zones_differ a b htz hda hdb hgt hne]
  have hdb' : (pyShift b).isDt = true := by
    unfold pyShift; split
    · exact hdb
    · simpa using hdb
  exact decompose_spec (pyShift a) (pyShift b) va vb hle hdb' hy1 hy2 _ el hel

/-- **the compiled and the pure-Python helper agree** on every pair that is decomposed on its own wall clock
    (same tzinfo, different days; naive, UTC, fixed and named zones), in either argument order -/
theorem pd_backends_agree (a b : E) (htz : a.tz = b.tz) (hda : a.isDt = true) (hdb : b.isDt = true)
    (hya : 1 ≤ a.y) (hyb : 1 ≤ b.y) (hma : 1 ≤ a.m ∧ a.m ≤ 12) (hmb : 1 ≤ b.m ∧ b.m ≤ 12)
    (hns : (a.off = 0 ∧ b.off = 0) ∨ a.tz > 0)
    (hdays : Gen.day_number b.y b.m b.d - Gen.day_number a.y a.m a.d ≠ 0) :
    preciseDiffRs a b = preciseDiffPy a b := by
  have hne : pyEq a b = false := by
    unfold pyEq; rw [if_pos htz]
    simp only [decide_eq_false_iff_not]
    intro hk
    obtain ⟨k1, k2, k3, _⟩ := key_eq a b hk
    rw [k1, k2, k3] at hdays; omega
  have hb0 : b.tz > 0 ∨ (a.off = 0 ∧ b.off = 0) := by omega
  unfold preciseDiffRs preciseDiffPy
  rw [Pendulum.Props.C15.rs_day_number_eq a.y a.m a.d hya hma, Pendulum.Props.C15.rs_day_number_eq b.y b.m b.d hyb hmb]
  have e2 : decide (Gen.day_number b.y b.m b.d - Gen.day_number a.y a.m a.d = 0) = false := by simp [hdays]
  have e3 : ∀ e : E, ((!(decide (a.tz = b.tz) && decide (a.tz > 0)) && decide (e.off ≠ 0)) ||
      decide (Gen.day_number b.y b.m b.d - Gen.day_number a.y a.m a.d = 0)) = true → (e = a ∨ e = b) → False := by
    intro e he hor
    rw [e2] at he
    simp only [Bool.or_false, Bool.and_eq_true, Bool.not_eq_true', Bool.and_eq_false_imp, decide_eq_true_eq,
      decide_eq_false_iff_not, ne_eq] at he
    rcases hns with ⟨h1, h2⟩ | h1
    · rcases hor with rfl | rfl <;> omega
    · exact he.1 htz h1
  have pa : (if a.isDt = true then (if ((!(decide (a.tz = b.tz) && decide (a.tz > 0)) && decide (a.off ≠ 0)) ||
      decide (Gen.day_number b.y b.m b.d - Gen.day_number a.y a.m a.d = 0)) = true then rsShift a else a) else a.dateOnly) = a := by
    rw [if_pos hda]; split
    · exact absurd (Or.inl rfl) (fun h => e3 a ‹_› h)
    · rfl
  have pb : (if b.isDt = true then (if ((!(decide (a.tz = b.tz) && decide (a.tz > 0)) && decide (b.off ≠ 0)) ||
      decide (Gen.day_number b.y b.m b.d - Gen.day_number a.y a.m a.d = 0)) = true then rsShift b else b) else b.dateOnly) = b := by
    rw [if_pos hdb]; split
    · exact absurd (Or.inr rfl) (fun h => e3 b ‹_› h)
    · rfl
  simp only [pa, pb, hne, Bool.false_eq_true, if_false]
  have hgt : pyGt a b = lexLt b.key a.key := by unfold pyGt; rw [if_pos htz]
  rw [hgt]
  cases hsw : lexLt b.key a.key
  · simp only [Bool.false_eq_true, if_false]
    have hsh : ∀ e : E, (e = a ∨ e = b) →
        (if (b.isDt && a.isDt && (!(decide (a.tz = b.tz) && decide (a.tz > 0)) ||
          decide (Gen.day_number b.y b.m b.d - Gen.day_number a.y a.m a.d = 0))) = true then pyShift e else e) = e := by
      intro e hor
      split
      · rename_i hc
        rw [e2] at hc
        rcases hns with ⟨h1, h2⟩ | h1
        · rcases hor with rfl | rfl
          · exact pyShift_off0 _ h1
          · exact pyShift_off0 _ h2
        · have hb1 : b.tz > 0 := by omega
          simp [htz, hb1] at hc
      · rfl
    rw [hsh a (Or.inl rfl), hsh b (Or.inr rfl)]
    unfold decompose
    simp only [hdb, if_true]
    rw [dateDiff_rs _ _ _ _ _ _ _ hyb]
  · simp only [if_true]
    have hsh : ∀ e : E, (e = a ∨ e = b) →
        (if (a.isDt && b.isDt && (!(decide (b.tz = a.tz) && decide (b.tz > 0)) ||
          decide (Gen.day_number a.y a.m a.d - Gen.day_number b.y b.m b.d = 0))) = true then pyShift e else e) = e := by
      intro e hor
      split
      · rename_i hc
        have e2' : decide (Gen.day_number a.y a.m a.d - Gen.day_number b.y b.m b.d = 0) = false := by
          simp only [decide_eq_false_iff_not]; omega
        rw [e2'] at hc
        rcases hns with ⟨h1, h2⟩ | h1
        · rcases hor with rfl | rfl
          · exact pyShift_off0 _ h1
          · exact pyShift_off0 _ h2
        · have hb1 : b.tz > 0 := by omega
          simp [htz, hb1] at hc
      · rfl
    rw [hsh b (Or.inr rfl), hsh a (Or.inl rfl)]
    unfold decompose
    simp only [hda, if_true]
    rw [dateDiff_rs _ _ _ _ _ _ _ hya]
    have : -(Gen.day_number b.y b.m b.d - Gen.day_number a.y a.m a.d) = Gen.day_number a.y a.m a.d - Gen.day_number b.y b.m b.d := by omega
    rw [this]

/-! non-vacuity -/
def ex1 : E := ⟨2021, 5, 2, 0, 0, 0, 0, 0, 0, true⟩
def ex2 : E := ⟨2021, 6, 1, 0, 0, 0, 0, 0, 0, true⟩
/-- the pair of the defect report (F8): 30 days, not "1 month" -/
example : (preciseDiffPy ex1 ex2).toList = [0, 0, 30, 0, 0, 0, 0, 30] := by decide
example : ex1.Valid ∧ ex2.Valid ∧ ex1.le ex2 ∧ NoShift ex1 ex2 := by
  refine ⟨?_, ?_, ?_, ?_⟩
  · unfold E.Valid E.timeOK; decide
  · unfold E.Valid E.timeOK; decide
  · unfold E.le dateLe; decide
  · left; decide
example : (preciseDiffPy ex2 ex1).toList = [0, 0, -30, 0, 0, 0, 0, -30] := by decide

end Pendulum.Props.C06
