import Pendulum.Proofs.PD5
import Pendulum.Proofs.IvRebuild
import Pendulum.Proofs.PDGen
import Pendulum.Proofs.PDGenRs
import Pendulum.Proofs.IntervalGenInit
import Pendulum.Proofs.IntervalGenPD
/-! # C06 — Interval components are canonical and rebuild the end from the start

Theorems about `Model/PreciseDiff.lean` (the repaired `precise_diff`, both implementations) and
`Model/AddDur.lean` (`helpers.add_duration`), for every year (no bound inside the calendar lemmas; the range
hypotheses `1 ≤ year ≤ 9999` are `datetime`'s own). An endpoint is a field tuple `E`; `E.Valid` = a real
calendar date and time of day; `E.le` = `a <= b` for two values sharing a tzinfo. -/
namespace Pendulum.Props.C06
open Pendulum Pendulum.Cal Pendulum.AddDur Pendulum.PreciseDiff

/-- the pair is decomposed on its own wall clock: the UTC shift of `precise_diff` is not taken (same named
    zone, different days) or is the identity (naive values, `date`s, UTC: offset 0) -/
def NoShift (a b : E) : Prop :=
  (a.off = 0 ∧ b.off = 0) ∨ (a.tz > 0 ∧ Gen.day_number b.y b.m b.d - Gen.day_number a.y a.m a.d ≠ 0)

theorem pyShift_off0 (e : E) (h : e.off = 0) : pyShift e = e := by
  unfold pyShift; simp [h]

/-- for an ordered pair sharing a tzinfo, `precise_diff` is the plain decomposition of the two field tuples -/
theorem pd_eq_decompose (a b : E) (htz : a.tz = b.tz) (hns : NoShift a b) (hgt : pyGt a b = false)
    (hne : pyEq a b = false) :
    preciseDiffPy a b = decompose dimPy a b (Gen.day_number b.y b.m b.d - Gen.day_number a.y a.m a.d) := by
  unfold preciseDiffPy
  simp only [hne, hgt, Bool.false_eq_true, if_false]
  rw [scale_one]
  rcases hns with ⟨h1, h2⟩ | ⟨h1, h2⟩
  · simp only [pyShift_off0 a h1, pyShift_off0 b h2, ite_self]
  · have hb0 : b.tz > 0 := by omega
    have e1 : (decide (a.tz = b.tz) && decide (a.tz > 0)) = true := by
      simp only [htz, hb0, decide_true, Bool.and_self]
    have e2 : decide (Gen.day_number b.y b.m b.d - Gen.day_number a.y a.m a.d = 0) = false := by simp [h2]
    simp only [e1, e2, Bool.not_true, Bool.or_self, Bool.and_false, Bool.false_eq_true, if_false]

theorem key_eq (a b : E) (h : a.key = b.key) :
    a.y = b.y ∧ a.m = b.m ∧ a.d = b.d ∧ a.h = b.h ∧ a.mi = b.mi ∧ a.s = b.s ∧ a.us = b.us := by
  simp only [E.key, List.cons.injEq, and_true] at h
  exact h

/-- adding nothing returns the value -/
theorem addDuration_zero (e : E) (hv : e.Valid) (h1 : 1 ≤ e.y) (h2 : e.y ≤ 9999) :
    addDuration e.wallUs 0 0 0 0 0 0 0 0 = .ok e.wallUs := by
  obtain ⟨hd, ht⟩ := hv
  have htod : 0 ≤ e.tod ∧ e.tod < 86400000000 := by
    obtain ⟨t1, t2, t3, t4, t5, t6, t7, t8⟩ := ht
    unfold E.tod; omega
  have hr := wall_in_range e ⟨hd, ht⟩ h1 h2
  unfold E.wallUs at hr ⊢
  rw [addDuration_canon e.y e.m e.d e.tod 0 0 0 0 0 0 0 0 hd htod (by omega) (by omega) (by omega) (by omega) (by omega)]
  have hm : ¬ (e.m > 12) := by have := hd.2.1; omega
  have hmin : min (dimL (isLeap e.y) e.m) e.d = e.d := by
    have := hd.2.2.2; rw [daysInMonth_eq] at this; omega
  simp only [addYMc, Int.add_zero, if_neg hm, hmin]
  have ht0 : totalUs (0 + 0 * 7) 0 0 0 0 = 0 := by decide
  rw [ht0, Int.add_zero]
  have a1 : ¬ (e.y < 1 ∨ e.y > 9999) := by omega
  have a2 : ¬ (fieldsToWall e.y e.m e.d e.tod < minWall ∨ fieldsToWall e.y e.m e.d e.tod > maxWall) := by omega
  rw [if_neg a1, if_neg a2]

/-- **canonical ranges**: for a ≤ b in the same timezone (same offset) the components are non-negative,
    months ≤ 11, days ≤ 30, hours ≤ 23, minutes/seconds ≤ 59, microseconds ≤ 999999 -/
theorem pd_ranges (a b : E) (ha : a.Valid) (hb : b.Valid) (htz : a.tz = b.tz) (hns : NoShift a b)
    (hle : a.le b) (hdt : b.isDt = true) (hy1 : 1 ≤ a.y) (hy2 : b.y ≤ 9999) :
    (preciseDiffPy a b).Canonical := by
  have hgt : pyGt a b = false := by
    unfold pyGt; rw [if_pos htz]; exact lexLt_false_of_le a b ha.2 hb.2 hle
  cases hne : pyEq a b
  · rw [pd_eq_decompose a b htz hns hgt hne]
    exact (decompose_spec a b ha hb hle hdt hy1 hy2 _ 0 (by omega)).1
  · unfold preciseDiffPy; rw [hne]; simp only [if_true]
    unfold PD.Canonical PD.zero; simp

/-- **rebuild**: `a.add(years, months, weeks, remaining_days, hours, minutes, remaining_seconds, microseconds)`
    of the components of `b − a` is exactly `b` (`helpers.add_duration` on the wall clock), a ≤ b, same timezone -/
theorem pd_rebuild (a b : E) (ha : a.Valid) (hb : b.Valid) (htz : a.tz = b.tz) (hns : NoShift a b)
    (hle : a.le b) (hdt : b.isDt = true) (hy1 : 1 ≤ a.y) (hy2 : b.y ≤ 9999) (el : Int) (hel : 0 ≤ el) :
    let p := preciseDiffPy a b
    addDuration a.wallUs p.years p.months (weeksOf p) (remainingDaysOf p el) p.hours p.minutes p.seconds p.micros
      = .ok b.wallUs := by
  have hgt : pyGt a b = false := by
    unfold pyGt; rw [if_pos htz]; exact lexLt_false_of_le a b ha.2 hb.2 hle
  cases hne : pyEq a b
  · simp only [pd_eq_decompose a b htz hns hgt hne]
    exact (decompose_spec a b ha hb hle hdt hy1 hy2 _ el hel).2
  · have hk : a.key = b.key := by
      unfold pyEq at hne; rw [if_pos htz] at hne; simpa using hne
    obtain ⟨k1, k2, k3, k4, k5, k6, k7⟩ := key_eq a b hk
    have hw : b.wallUs = a.wallUs := by
      unfold E.wallUs E.tod; rw [k1, k2, k3, k4, k5, k6, k7]
    have hz : preciseDiffPy a b = PD.zero := by unfold preciseDiffPy; rw [hne]; simp
    simp only [hz, hw]
    have e1 : weeksOf PD.zero = 0 := by decide
    have e2 : remainingDaysOf PD.zero el = 0 := by
      unfold remainingDaysOf PD.zero absI; simp
    rw [e1, e2]
    exact addDuration_zero a ha hy1 (by rw [k1]; exact hy2)

/-- **reversed = negated**: `precise_diff(b, a)` reports the components of `precise_diff(a, b)` negated
    (every pair of endpoints, any zones) -/
theorem pd_reverse_neg (a b : E) : preciseDiffPy b a = (preciseDiffPy a b).scale (-1) := by
  unfold preciseDiffPy
  rw [pyEq_comm b a]
  cases hne : pyEq a b
  · simp only [Bool.false_eq_true, if_false]
    rw [pyGt_flip a b hne]
    cases hgt : pyGt a b
    · simp only [Bool.not_false, if_true, Bool.false_eq_true, if_false]
      rw [scale_scale]; rfl
    · simp only [Bool.not_true, Bool.false_eq_true, if_false, if_true]
      rw [scale_scale]; rfl
  · simp only [if_true]; rw [scale_zero]

/-- `in_months()` is `12 * years + months` -/
theorem in_months_eq (p : PD) : inMonthsOf p = 12 * p.years + p.months := by
  unfold inMonthsOf; omega

/-- `in_months()` of the reversed interval is the negation -/
theorem in_months_reverse (a b : E) : inMonthsOf (preciseDiffPy b a) = - inMonthsOf (preciseDiffPy a b) := by
  rw [pd_reverse_neg]; unfold inMonthsOf PD.scale; simp only []; omega

/-- `weeks`/`remaining_days` split the day component of a forward interval: 7·weeks + remaining_days = days,
    0 ≤ remaining_days ≤ 6 -/
theorem weeks_remaining_days (p : PD) (el : Int) (hd : 0 ≤ p.days) (hel : 0 ≤ el) :
    remainingDaysOf p el + weeksOf p * 7 = p.days ∧ 0 ≤ weeksOf p ∧ 0 ≤ remainingDaysOf p el ∧ remainingDaysOf p el ≤ 6 :=
  weeks_days p el hd hel

/-- and of an inverted one (elapsed time ≤ −1 day): both getters carry the sign -/
theorem weeks_remaining_days_neg (p : PD) (el : Int) (hd : p.days ≤ 0) (hel : el ≤ -86400000000) :
    remainingDaysOf p el + weeksOf p * 7 = p.days ∧ weeksOf p ≤ 0 ∧ -6 ≤ remainingDaysOf p el ∧ remainingDaysOf p el ≤ 0 := by
  unfold remainingDaysOf weeksOf absI PreciseDiff.sgn
  simp only [if_pos hel]
  by_cases h0 : p.days < 0
  · simp only [if_pos h0]; omega
  · have : p.days = 0 := by omega
    simp only [this]; decide

/-- **differently named zones ⇒ UTC**: the components are the plain decomposition of the two endpoints shifted
    to UTC (`pyShift` = fields of `wall − offset`, see `utc_shift_denotes_instant`) -/
theorem pd_utc_when_zones_differ (a b : E) (htz : a.tz ≠ b.tz) (hda : a.isDt = true) (hdb : b.isDt = true)
    (hgt : pyGt a b = false) (hne : pyEq a b = false) :
    preciseDiffPy a b =
      decompose dimPy (pyShift a) (pyShift b) (Gen.day_number b.y b.m b.d - Gen.day_number a.y a.m a.d) := by
  unfold preciseDiffPy
  simp only [hne, hgt, Bool.false_eq_true, if_false]
  rw [scale_one]
  have e1 : (decide (a.tz = b.tz) && decide (a.tz > 0)) = false := by simp [htz]
  simp only [e1, hda, hdb, Bool.not_false, Bool.true_or, Bool.and_self, if_true]

/-- the shifted tuple is a valid date/time and denotes the instant `wall − offset` -/
theorem utc_shift_denotes_instant (e : E) (hv : e.Valid) :
    (pyShift e).Valid ∧
    ymd2ord (pyShift e).y (pyShift e).m (pyShift e).d * 86400 + (pyShift e).secOfDay = e.instSec ∧
    (pyShift e).us = e.us := pyShift_spec e hv

/-- **cross-zone ranges + rebuild in UTC**: for endpoints in differently named zones with instant(a) < instant(b)
    the components are canonical and, added to `a` expressed in UTC, give `b` expressed in UTC -/
theorem pd_utc_rebuild (a b : E) (ha : a.Valid) (hb : b.Valid) (htz : a.tz ≠ b.tz)
    (hda : a.isDt = true) (hdb : b.isDt = true)
    (hlt : a.instSec < b.instSec ∨ (a.instSec = b.instSec ∧ a.us < b.us))
    (hy1 : 1 ≤ (pyShift a).y) (hy2 : (pyShift b).y ≤ 9999) (el : Int) (hel : 0 ≤ el) :
    let p := preciseDiffPy a b
    p.Canonical ∧
    addDuration (pyShift a).wallUs p.years p.months (weeksOf p) (remainingDaysOf p el) p.hours p.minutes p.seconds
      p.micros = .ok (pyShift b).wallUs := by
  have hne : pyEq a b = false := by
    unfold pyEq; rw [if_neg htz]
    simp only [Bool.and_eq_false_imp, decide_eq_true_eq, decide_eq_false_iff_not]; omega
  have hgt : pyGt a b = false := by
    unfold pyGt; rw [if_neg htz]
    simp only [Bool.or_eq_false_iff, Bool.and_eq_false_imp, decide_eq_true_eq, decide_eq_false_iff_not]
    constructor <;> omega
  obtain ⟨va, ia, ua⟩ := pyShift_spec a ha
  obtain ⟨vb, ib, ub⟩ := pyShift_spec b hb
  have sa : 0 ≤ (pyShift a).secOfDay ∧ (pyShift a).secOfDay < 86400 := by
    obtain ⟨_, t1, t2, t3, t4, t5, t6, _, _⟩ := va; unfold E.secOfDay; omega
  have sb : 0 ≤ (pyShift b).secOfDay ∧ (pyShift b).secOfDay < 86400 := by
    obtain ⟨_, t1, t2, t3, t4, t5, t6, _, _⟩ := vb; unfold E.secOfDay; omega
  have hle : (pyShift a).le (pyShift b) := by
    constructor
    · exact dateLe_of_ord_le _ _ _ _ _ _ va.1 vb.1 (by omega)
    · intro ⟨e1, e2, e3⟩
      rw [e1, e2, e3] at ia
      have ⟨_, p1, p2, p3, p4, p5, p6, p7, p8⟩ := va
      have ⟨_, q1, q2, q3, q4, q5, q6, q7, q8⟩ := vb
      unfold E.tod; unfold E.secOfDay at ia ib; omega
  simp only [pd_utc_when_zones_differ a b htz hda hdb hgt hne]
  have hdb' : (pyShift b).isDt = true := by
    unfold pyShift; split
    · exact hdb
    · simpa using hdb
  exact decompose_spec (pyShift a) (pyShift b) va vb hle hdb' hy1 hy2 _ el hel

/-- **the compiled and the pure-Python helper agree** on every pair that is decomposed on its own wall clock
    (same tzinfo, different days; naive, UTC, fixed and named zones), in either argument order -/
theorem pd_backends_agree (a b : E) (htz : a.tz = b.tz) (hda : a.isDt = true) (hdb : b.isDt = true)
    (hya : 1 ≤ a.y) (hyb : 1 ≤ b.y) (hma : 1 ≤ a.m ∧ a.m ≤ 12) (hmb : 1 ≤ b.m ∧ b.m ≤ 12)
    (hns : (a.off = 0 ∧ b.off = 0) ∨ a.tz > 0)
    (hdays : Gen.day_number b.y b.m b.d - Gen.day_number a.y a.m a.d ≠ 0) :
    preciseDiffRs a b = preciseDiffPy a b := by
  have hne : pyEq a b = false := by
    unfold pyEq; rw [if_pos htz]
    simp only [decide_eq_false_iff_not]
    intro hk
    obtain ⟨k1, k2, k3, _⟩ := key_eq a b hk
    rw [k1, k2, k3] at hdays; omega
  have hb0 : b.tz > 0 ∨ (a.off = 0 ∧ b.off = 0) := by omega
  unfold preciseDiffRs preciseDiffPy
  rw [Pendulum.Props.C15.rs_day_number_eq a.y a.m a.d hya hma, Pendulum.Props.C15.rs_day_number_eq b.y b.m b.d hyb hmb]
  have e2 : decide (Gen.day_number b.y b.m b.d - Gen.day_number a.y a.m a.d = 0) = false := by simp [hdays]
  have e3 : ∀ e : E, ((!(decide (a.tz = b.tz) && decide (a.tz > 0)) && decide (e.off ≠ 0)) ||
      decide (Gen.day_number b.y b.m b.d - Gen.day_number a.y a.m a.d = 0)) = true → (e = a ∨ e = b) → False := by
    intro e he hor
    rw [e2] at he
    simp only [Bool.or_false, Bool.and_eq_true, Bool.not_eq_true', Bool.and_eq_false_imp, decide_eq_true_eq,
      decide_eq_false_iff_not, ne_eq] at he
    rcases hns with ⟨h1, h2⟩ | h1
    · rcases hor with rfl | rfl <;> omega
    · exact he.1 htz h1
  have pa : (if a.isDt = true then (if ((!(decide (a.tz = b.tz) && decide (a.tz > 0)) && decide (a.off ≠ 0)) ||
      decide (Gen.day_number b.y b.m b.d - Gen.day_number a.y a.m a.d = 0)) = true then rsShift a else a) else a.dateOnly) = a := by
    rw [if_pos hda]; split
    · exact absurd (Or.inl rfl) (fun h => e3 a ‹_› h)
    · rfl
  have pb : (if b.isDt = true then (if ((!(decide (a.tz = b.tz) && decide (a.tz > 0)) && decide (b.off ≠ 0)) ||
      decide (Gen.day_number b.y b.m b.d - Gen.day_number a.y a.m a.d = 0)) = true then rsShift b else b) else b.dateOnly) = b := by
    rw [if_pos hdb]; split
    · exact absurd (Or.inr rfl) (fun h => e3 b ‹_› h)
    · rfl
  simp only [pa, pb, hne, Bool.false_eq_true, if_false]
  have hgt : pyGt a b = lexLt b.key a.key := by unfold pyGt; rw [if_pos htz]
  rw [hgt]
  cases hsw : lexLt b.key a.key
  · simp only [Bool.false_eq_true, if_false]
    have hsh : ∀ e : E, (e = a ∨ e = b) →
        (if (b.isDt && a.isDt && (!(decide (a.tz = b.tz) && decide (a.tz > 0)) ||
          decide (Gen.day_number b.y b.m b.d - Gen.day_number a.y a.m a.d = 0))) = true then pyShift e else e) = e := by
      intro e hor
      split
      · rename_i hc
        rw [e2] at hc
        rcases hns with ⟨h1, h2⟩ | h1
        · rcases hor with rfl | rfl
          · exact pyShift_off0 _ h1
          · exact pyShift_off0 _ h2
        · have hb1 : b.tz > 0 := by omega
          simp [htz, hb1] at hc
      · rfl
    rw [hsh a (Or.inl rfl), hsh b (Or.inr rfl)]
    unfold decompose
    simp only [hdb, if_true]
    rw [dateDiff_rs _ _ _ _ _ _ _ hyb]
  · simp only [if_true]
    have hsh : ∀ e : E, (e = a ∨ e = b) →
        (if (a.isDt && b.isDt && (!(decide (b.tz = a.tz) && decide (b.tz > 0)) ||
          decide (Gen.day_number a.y a.m a.d - Gen.day_number b.y b.m b.d = 0))) = true then pyShift e else e) = e := by
      intro e hor
      split
      · rename_i hc
        have e2' : decide (Gen.day_number a.y a.m a.d - Gen.day_number b.y b.m b.d = 0) = false := by
          simp only [decide_eq_false_iff_not]; omega
        rw [e2'] at hc
        rcases hns with ⟨h1, h2⟩ | h1
        · rcases hor with rfl | rfl
          · exact pyShift_off0 _ h1
          · exact pyShift_off0 _ h2
        · have hb1 : b.tz > 0 := by omega
          simp [htz, hb1] at hc
      · rfl
    rw [hsh b (Or.inr rfl), hsh a (Or.inl rfl)]
    unfold decompose
    simp only [hda, if_true]
    rw [dateDiff_rs _ _ _ _ _ _ _ hya]
    have : -(Gen.day_number b.y b.m b.d - Gen.day_number a.y a.m a.d) = Gen.day_number a.y a.m a.d - Gen.day_number b.y b.m b.d := by omega
    rw [this]

/-- **ranges + rebuild for every pair sharing a tzinfo with one UTC offset** (naive, UTC, `FixedTimezone`, any zone
    between two transitions): `pd_ranges`/`pd_rebuild` without the `NoShift` restriction. When both endpoints fall on the
    same wall-clock day `precise_diff` decomposes the pair *after* shifting it to UTC; the shifted pair is less than a day
    apart, so its components hold no years or months (monotonicity of `add_duration` in the month count) and rebuild the
    unshifted end from the unshifted start as well. `hs1`/`hs2`: the UTC readings of the endpoints are representable
    (`d - d.utcoffset()` does not overflow). -/
theorem pd_rebuild_same_offset (a b : E) (ha : a.Valid) (hb : b.Valid) (htz : a.tz = b.tz) (hoff : a.off = b.off)
    (hpos : a.off ≠ 0 → a.tz > 0) (hle : a.le b) (hda : a.isDt = true) (hdt : b.isDt = true)
    (hy1 : 1 ≤ a.y) (hy2 : b.y ≤ 9999) (hs1 : 1 ≤ (pyShift a).y) (hs2 : (pyShift b).y ≤ 9999)
    (el : Int) (hel : 0 ≤ el) :
    let p := preciseDiffPy a b
    p.Canonical ∧
    addDuration a.wallUs p.years p.months (weeksOf p) (remainingDaysOf p el) p.hours p.minutes p.seconds p.micros
      = .ok b.wallUs := by
  by_cases hns : NoShift a b
  · exact ⟨pd_ranges a b ha hb htz hns hle hdt hy1 hy2, pd_rebuild a b ha hb htz hns hle hdt hy1 hy2 el hel⟩
  · have hoffne : a.off ≠ 0 := by
      intro h0; exact hns (Or.inl ⟨h0, by rw [← hoff]; exact h0⟩)
    have htzp := hpos hoffne
    have hday : Gen.day_number b.y b.m b.d - Gen.day_number a.y a.m a.d = 0 := by
      by_cases c : Gen.day_number b.y b.m b.d - Gen.day_number a.y a.m a.d = 0
      · exact c
      · exact absurd (Or.inr ⟨htzp, c⟩) hns
    have hgt : pyGt a b = false := by
      unfold pyGt; rw [if_pos htz]; exact lexLt_false_of_le a b ha.2 hb.2 hle
    have hya : a.y ≤ 9999 ∧ 1 ≤ b.y := by
      have := hle.1; unfold dateLe at this; omega
    cases hne : pyEq a b
    · simp only [pd_same_day_shift a b hda hdt hday hgt hne]
      obtain ⟨va, _, _⟩ := pyShift_spec a ha
      obtain ⟨vb, _, _⟩ := pyShift_spec b hb
      have wa := pyShift_wallUs a ha
      have wb := pyShift_wallUs b hb
      have hwle := wallUs_of_le a b ha hb hle
      have hle' : (pyShift a).le (pyShift b) := le_of_wallUs _ _ va vb (by rw [wa, wb, hoff]; omega)
      have hdb' : (pyShift b).isDt = true := by
        unfold pyShift; split
        · exact hdt
        · simpa using hdt
      have hsp := decompose_spec (pyShift a) (pyShift b) va vb hle' hdb' hs1 hs2 0 el hel
      simp only [] at hsp
      obtain ⟨hc, hr⟩ := hsp
      refine ⟨hc, ?_⟩
      obtain ⟨c1, c2, _, c4, _, c6, _, c8, _, c10, _, c12, _⟩ := hc
      have wk := weeks_days _ el c4 hel
      rw [wa, wb, ← hoff] at hr
      have hlt : b.wallUs - a.wallUs < DAY := by
        rw [Pendulum.Props.C15.day_number_eq _ _ _ ⟨hb.1.1, hb.1.2.1⟩,
          Pendulum.Props.C15.day_number_eq _ _ _ ⟨ha.1.1, ha.1.2.1⟩] at hday
        have ta := E.tod_range a ha
        have tb := E.tod_range b hb
        unfold E.wallUs fieldsToWall DAY; omega
      exact (same_day_transfer a.wallUs b.wallUs (a.off * 1000000) _ _ _ _ _ _ _ _ c1 c2 wk.2.1 wk.2.2.1 c6 c8 c10 c12
        hr hlt (wall_in_range a ha hy1 hya.1) (wall_in_range b hb hya.2 hy2)).2.2
    · have hk : a.key = b.key := by
        unfold pyEq at hne; rw [if_pos htz] at hne; simpa using hne
      obtain ⟨k1, k2, k3, k4, k5, k6, k7⟩ := key_eq a b hk
      have hw : b.wallUs = a.wallUs := by
        unfold E.wallUs E.tod; rw [k1, k2, k3, k4, k5, k6, k7]
      have hz : preciseDiffPy a b = PD.zero := by unfold preciseDiffPy; rw [hne]; simp
      simp only [hz, hw]
      refine ⟨by unfold PD.Canonical PD.zero; simp, ?_⟩
      have e1 : weeksOf PD.zero = 0 := by decide
      have e2 : remainingDaysOf PD.zero el = 0 := by
        unfold remainingDaysOf PD.zero absI; simp
      rw [e1, e2]
      exact addDuration_zero a ha hy1 (by rw [k1]; exact hy2)

/-- **rebuild as pendulum values** — `interval.start + interval` (`DateTime.add` of years, months, weeks, remaining_days,
    hours, minutes, remaining_seconds, microseconds of `b − a`) **is `b`**: same zone, same wall time, same instant, for two
    `DateTime`s `a ≤ b` sharing a tzinfo whose UTC offset never changes (`ConstZone`: naive; UTC or any named zone without
    transitions; `FixedTimezone`), `absolute` or not. `DateTime.add` takes the wall-clock branch when a calendar component
    is present and the UTC branch otherwise; both land on `b`. Hypotheses: whole-second offset, a non-zero offset comes
    from a named tzinfo (tag > 0), and the endpoints and their UTC readings are inside years 1..9999. -/
theorem iv_rebuild_value (a b : IntervalPD.EP) (absolute : Bool) (z : DTOps.ZRef) (off : Int)
    (hcz : IntervalPD.ConstZone z off) (hza : a.v.z = z) (hzb : b.v.z = z) (hsec : off % 1000000 = 0)
    (htag : a.tag = b.tag) (hpos : off ≠ 0 → 0 < a.tag) (hda : a.isDt = true) (hdb : b.isDt = true)
    (hle : IntervalPD.gtEP a b = false)
    (hra : DTOps.inRange a.v.w = true) (hrb : DTOps.inRange b.v.w = true)
    (hua : DTOps.inRange (a.v.w - off) = true) (hub : DTOps.inRange (b.v.w - off) = true) :
    ∃ r, (IntervalPD.mk false a b absolute).rebuild = .ok r ∧ r.z = b.v.z ∧ r.w = b.v.w ∧
      r.instant = b.v.instant := by
  obtain ⟨vA, wA, tA, dA, _⟩ := IntervalPD.native_facts a hda
  obtain ⟨vB, wB, tB, dB, _⟩ := IntervalPD.native_facts b hdb
  have offA := IntervalPD.native_off a hda z off hcz hza
  have offB := IntervalPD.native_off b hdb z off hcz hzb
  have hwle : a.v.w ≤ b.v.w := by
    unfold IntervalPD.gtEP at hle; rw [if_pos htag] at hle; simpa using hle
  have hAle : a.native.le b.native := le_of_wallUs _ _ vA vB (by rw [wA, wB]; exact hwle)
  have yA := year_range_of_wallUs a.native vA (by rw [wA]; exact (IntervalPD.inRange_iff _).mp hra)
  have yB := year_range_of_wallUs b.native vB (by rw [wB]; exact (IntervalPD.inRange_iff _).mp hrb)
  have hoffmul : off / US * 1000000 = off := by unfold US; omega
  have sA := year_range_of_wallUs (pyShift a.native) (pyShift_spec a.native vA).1 (by
    rw [pyShift_wallUs a.native vA, wA, offA, hoffmul]; exact (IntervalPD.inRange_iff _).mp hua)
  have sB := year_range_of_wallUs (pyShift b.native) (pyShift_spec b.native vB).1 (by
    rw [pyShift_wallUs b.native vB, wB, offB, hoffmul]; exact (IntervalPD.inRange_iff _).mp hub)
  have oa := IntervalPD.offset_of a.v off (by rw [hza]; exact hcz)
  have ob := IntervalPD.offset_of b.v off (by rw [hzb]; exact hcz)
  have hel : 0 ≤ b.v.instant - a.v.instant := by unfold DTOps.V.instant; rw [oa, ob]; omega
  have hcore := pd_rebuild_same_offset a.native b.native vA vB (by rw [tA, tB]; exact htag) (by rw [offA, offB])
    (by intro h0; rw [tA]; apply hpos; intro h; rw [offA, h] at h0; exact h0 (by decide)) hAle dA dB yA.1 yB.2 sA.1 sB.2
    (b.v.instant - a.v.instant) hel
  simp only [] at hcore
  obtain ⟨_, hr⟩ := hcore
  rw [wA, wB] at hr
  have hmk : (IntervalPD.mk false a b absolute).rebuild =
      DTOps.add a.v (preciseDiffPy a.native b.native).years (preciseDiffPy a.native b.native).months
        (weeksOf (preciseDiffPy a.native b.native))
        (remainingDaysOf (preciseDiffPy a.native b.native) (b.v.instant - a.v.instant))
        (preciseDiffPy a.native b.native).hours (preciseDiffPy a.native b.native).minutes
        (preciseDiffPy a.native b.native).seconds (preciseDiffPy a.native b.native).micros := by
    unfold IntervalPD.Iv.rebuild IntervalPD.mk
    simp [hle, hda]
  rw [hmk]
  obtain ⟨r, e, rz, rw'⟩ := IntervalPD.add_of_addDuration a.v z off hcz hza _ _ _ _ _ _ _ _ b.v.w hr hra hrb hua hub
  refine ⟨r, e, by rw [rz, hzb], rw', ?_⟩
  have or' := IntervalPD.offset_of r off (by rw [rz]; exact hcz)
  unfold DTOps.V.instant; rw [or', ob, rw']

/-- **rebuild as values, `Date`s**: `start + interval` of two `Date`s `a ≤ b` (wall values of their midnights) is the
    `Date` `b` (`Date.add` of years, months, weeks, remaining_days; a `date` pair is decomposed like the pair of its
    midnights and has no time components) -/
theorem iv_rebuild_date (a b : IntervalPD.EP) (absolute : Bool) (hza : a.v.z = .naive) (hzb : b.v.z = .naive)
    (hda : a.isDt = false) (hdb : b.isDt = false) (hma : a.v.w % DAY = 0) (hmb : b.v.w % DAY = 0)
    (htag : a.tag = b.tag) (hle : IntervalPD.gtEP a b = false)
    (hra : DTOps.inRange a.v.w = true) (hrb : DTOps.inRange b.v.w = true) :
    (IntervalPD.mk false a b absolute).rebuild = .ok ⟨.naive, b.v.w, false⟩ := by
  have nA := IntervalPD.native_midnight a hma hza
  have nB := IntervalPD.native_midnight b hmb hzb
  obtain ⟨vA, wA, _⟩ := IntervalPD.native_facts ⟨a.v, 0, true⟩ rfl
  obtain ⟨vB, wB, _⟩ := IntervalPD.native_facts ⟨b.v, 0, true⟩ rfl
  rw [nA] at vA wA
  rw [nB] at vB wB
  simp only [] at wA wB
  have hwle : a.v.w ≤ b.v.w := by
    unfold IntervalPD.gtEP at hle; rw [if_pos htag] at hle; simpa using hle
  have hAle := le_of_wallUs _ _ vA vB (by rw [wA, wB]; exact hwle)
  have yA := year_range_of_wallUs _ vA (by rw [wA]; exact (IntervalPD.inRange_iff _).mp hra)
  have yB := year_range_of_wallUs _ vB (by rw [wB]; exact (IntervalPD.inRange_iff _).mp hrb)
  have oa := Range.naive_offset a.v hza
  have ob := Range.naive_offset b.v hzb
  have hel : 0 ≤ b.v.instant - a.v.instant := by unfold DTOps.V.instant; rw [oa, ob]; omega
  have hr := pd_rebuild _ _ vA vB rfl (Or.inl ⟨rfl, rfl⟩) hAle rfl yA.1 yB.2 (b.v.instant - a.v.instant) hel
  simp only [] at hr
  rw [wA, wB, ← pd_date_as_datetime] at hr
  obtain ⟨z1, z2, z3, z4⟩ := pd_date_time_zero (wallToFields a.v.w).1 (wallToFields a.v.w).2.1 (wallToFields a.v.w).2.2.1
    (wallToFields b.v.w).1 (wallToFields b.v.w).2.1 (wallToFields b.v.w).2.2.1
  rw [z1, z2, z3, z4] at hr
  unfold IntervalPD.Iv.rebuild IntervalPD.mk
  simp only [hle, Bool.and_false, Bool.false_eq_true, if_false, hda]
  rw [IntervalPD.native_date a hda, IntervalPD.native_date b hdb, hr]

/-- … and the same for the interval built with the **compiled** `precise_diff`, whenever the endpoints fall on different
    wall-clock days (where `pd_backends_agree` applies; same-day pairs of the compiled helper are tied by the
    correspondence run only) -/
theorem iv_rebuild_value_rs (a b : IntervalPD.EP) (absolute : Bool) (z : DTOps.ZRef) (off : Int)
    (hcz : IntervalPD.ConstZone z off) (hza : a.v.z = z) (hzb : b.v.z = z) (hsec : off % 1000000 = 0)
    (htag : a.tag = b.tag) (hpos : off ≠ 0 → 0 < a.tag) (hda : a.isDt = true) (hdb : b.isDt = true)
    (hle : IntervalPD.gtEP a b = false)
    (hra : DTOps.inRange a.v.w = true) (hrb : DTOps.inRange b.v.w = true)
    (hua : DTOps.inRange (a.v.w - off) = true) (hub : DTOps.inRange (b.v.w - off) = true)
    (hdays : a.v.w / DAY ≠ b.v.w / DAY) :
    ∃ r, (IntervalPD.mk true a b absolute).rebuild = .ok r ∧ r.z = b.v.z ∧ r.w = b.v.w ∧
      r.instant = b.v.instant := by
  have agree : ∀ x y : IntervalPD.EP, x.isDt = true → y.isDt = true → x.v.z = z → y.v.z = z → x.tag = y.tag →
      (off ≠ 0 → 0 < x.tag) → DTOps.inRange x.v.w = true → DTOps.inRange y.v.w = true → x.v.w / DAY ≠ y.v.w / DAY →
      preciseDiffRs x.native y.native = preciseDiffPy x.native y.native := by
    intro x y hx hy zx zy ht hp rx ry hd
    obtain ⟨vX, wX, tX, dX, yX, mX, ddX, _⟩ := IntervalPD.native_facts x hx
    obtain ⟨vY, wY, tY, dY, yY, mY, ddY, _⟩ := IntervalPD.native_facts y hy
    have yrX := year_range_of_wallUs x.native vX (by rw [wX]; exact (IntervalPD.inRange_iff _).mp rx)
    have yrY := year_range_of_wallUs y.native vY (by rw [wY]; exact (IntervalPD.inRange_iff _).mp ry)
    have offX := IntervalPD.native_off x hx z off hcz zx
    have offY := IntervalPD.native_off y hy z off hcz zy
    apply pd_backends_agree _ _ (by rw [tX, tY]; exact ht) dX dY yrX.1 yrY.1 ⟨vX.1.1, vX.1.2.1⟩ ⟨vY.1.1, vY.1.2.1⟩
    · by_cases h0 : off = 0
      · left; rw [offX, offY, h0]; decide
      · right; rw [tX]; exact hp h0
    · rw [Pendulum.Props.C15.day_number_eq _ _ _ ⟨vY.1.1, vY.1.2.1⟩,
        Pendulum.Props.C15.day_number_eq _ _ _ ⟨vX.1.1, vX.1.2.1⟩, yX, mX, ddX, yY, mY, ddY,
        IntervalPD.wallToFields_ord, IntervalPD.wallToFields_ord]
      omega
  have key : ∀ x y : IntervalPD.EP, (x = a ∧ y = b) ∨ (x = b ∧ y = a) →
      preciseDiffRs x.native y.native = preciseDiffPy x.native y.native := by
    rintro x y (⟨rfl, rfl⟩ | ⟨rfl, rfl⟩)
    · exact agree _ _ hda hdb hza hzb htag hpos hra hrb hdays
    · exact agree _ _ hdb hda hzb hza htag.symm (by rw [← htag]; exact hpos) hrb hra (Ne.symm hdays)
  rw [IntervalPD.rebuild_rs_eq a b absolute key]
  exact iv_rebuild_value a b absolute z off hcz hza hzb hsec htag hpos hda hdb hle hra hrb hua hub

/-! non-vacuity -/
def ex1 : E := ⟨2021, 5, 2, 0, 0, 0, 0, 0, 0, true⟩
def ex2 : E := ⟨2021, 6, 1, 0, 0, 0, 0, 0, 0, true⟩
/-- the pair of the defect report (F8): 30 days, not "1 month" -/
example : (preciseDiffPy ex1 ex2).toList = [0, 0, 30, 0, 0, 0, 0, 30] := by decide
example : ex1.Valid ∧ ex2.Valid ∧ ex1.le ex2 ∧ NoShift ex1 ex2 := by
  refine ⟨?_, ?_, ?_, ?_⟩
  · unfold E.Valid E.timeOK; decide
  · unfold E.Valid E.timeOK; decide
  · unfold E.le dateLe; decide
  · left; decide
example : (preciseDiffPy ex2 ex1).toList = [0, 0, -30, 0, 0, 0, 0, -30] := by decide

/-! non-vacuity of the same-offset / value-level theorems: 2021-03-01T00:30+01:00 → 2021-03-01T23:45+01:00 (one wall day; the
UTC readings straddle the month end: Feb 28 23:30Z → Mar 1 22:45Z) and → 2024-02-29T23:45+01:00 -/
def ex3 : E := ⟨2021, 3, 1, 0, 30, 0, 0, 3600, 7, true⟩
def ex4 : E := ⟨2021, 3, 1, 23, 45, 0, 0, 3600, 7, true⟩
example : ex3.Valid ∧ ex4.Valid ∧ ex3.le ex4 ∧ ¬ NoShift ex3 ex4 ∧ (pyShift ex3).y = 2021 ∧ (pyShift ex3).m = 2 ∧
    (preciseDiffPy ex3 ex4).toList = [0, 0, 0, 23, 15, 0, 0, 0] := by
  refine ⟨?_, ?_, ?_, ?_, ?_, ?_, ?_⟩
  · unfold E.Valid E.timeOK; decide
  · unfold E.Valid E.timeOK; decide
  · unfold E.le dateLe; decide
  · unfold NoShift; decide
  · decide
  · decide
  · decide
def epA : IntervalPD.EP := ⟨⟨.fixed 3600000000, 1614558600000000, false⟩, 1000003600000000, true⟩
def epB : IntervalPD.EP := ⟨⟨.fixed 3600000000, 1614642300000000, false⟩, 1000003600000000, true⟩
def epC : IntervalPD.EP := ⟨⟨.fixed 3600000000, 1709250300000000, false⟩, 1000003600000000, true⟩
/-- both branches of `DateTime.add`: only hours/minutes (UTC branch), and 2 years 11 months 4 weeks 23 h 15 min -/
example : (IntervalPD.mk false epA epB false).components = [0, 0, 0, 0, 23, 15, 0, 0, 0, 0] ∧
    (IntervalPD.mk false epA epC false).components = [2, 11, 4, 0, 23, 15, 0, 0, 35, 1095] ∧
    (match (IntervalPD.mk false epA epB false).rebuild with | .ok r => r.w | _ => 0) = epB.v.w ∧
    (match (IntervalPD.mk false epA epC false).rebuild with | .ok r => r.w | _ => 0) = epC.v.w := by decide +kernel
/-- the hypotheses of `iv_rebuild_value` hold for these values -/
example : ∃ r, (IntervalPD.mk false epA epC true).rebuild = .ok r ∧ r.z = epC.v.z ∧ r.w = epC.v.w ∧
    r.instant = epC.v.instant :=
  iv_rebuild_value epA epC true (.fixed 3600000000) 3600000000 (.fixed _) rfl rfl (by decide) rfl (by decide) rfl rfl
    (by decide) (by decide) (by decide) (by decide) (by decide)

def dtA : IntervalPD.EP := ⟨⟨.naive, 1582934400000000, false⟩, 0, false⟩
def dtB : IntervalPD.EP := ⟨⟨.naive, 1735689600000000, false⟩, 0, false⟩
/-- `Date`s 2020-02-29 → 2025-01-01: 4 years 10 months 3 days, and the hypotheses of `iv_rebuild_date` hold -/
example : (IntervalPD.mk false dtA dtB false).components = [4, 10, 0, 3, 0, 0, 0, 0, 58, 1768] ∧
    (IntervalPD.mk false dtA dtB false).rebuild = .ok ⟨.naive, dtB.v.w, false⟩ :=
  ⟨by decide +kernel, iv_rebuild_date dtA dtB false rfl rfl rfl rfl (by decide) (by decide) rfl (by decide) (by decide)
    (by decide)⟩
/-- … and those of `iv_rebuild_value_rs` for the fixed-offset pair on different days -/
example : ∃ r, (IntervalPD.mk true epA epC false).rebuild = .ok r ∧ r.z = epC.v.z ∧ r.w = epC.v.w ∧
    r.instant = epC.v.instant :=
  iv_rebuild_value_rs epA epC false (.fixed 3600000000) 3600000000 (.fixed _) rfl rfl (by decide) rfl (by decide) rfl rfl
    (by decide) (by decide) (by decide) (by decide) (by decide) (by decide)

/-! ### The model is the code: regenerated definitions

`Pendulum.Gen.PreciseDiff` is produced from `src/pendulum/_helpers.py` on every run (tools/gen_precisediff.py): the
integer layer of `precise_diff` (borrow cascade, month borrow with `DAYS_PER_MONTHS[int(is_leap(..))][..]`, year borrow,
the signed result tuple, `total_days`) statement by statement in ONE definition `core`, and the plain logic of the
object layer (`sign`, the zone-name block, condition and position of the UTC shift). These theorems re-check, against
what the code says now, that the model `preciseDiffPy` the theorems above are about *is* that code: an edit to the
source either keeps them provable or breaks the build. Hand-modelled and tied by the correspondence run only: `==`
and `>` of `datetime` (`pyEq`, `pyGt`) and `d.replace(tzinfo=None) - d.utcoffset()` (`pyShift`). -/

/-- the integer core as written in the source, applied to the fields of the ordered and UTC-shifted values, the two
    `isinstance` flags and the sign, is the model's `decompose` scaled by the sign — for ALL integer field values
    (no range hypothesis); `DateZero`: a `date` endpoint is encoded with zero time-of-day fields -/
theorem precise_diff_core_source_eq_model (e1 e2 : E) (sign total : Int) (hz : PDGen.DateZero e1) :
    Gen.PreciseDiff.core e1.isDt e2.isDt sign total e1.y e1.m e1.d e1.h e1.mi e1.s e1.us
        e2.y e2.m e2.d e2.h e2.mi e2.s e2.us =
      ((decompose dimPy e1 e2 total).scale sign).toList :=
  PDGen.core_eq e1 e2 sign total hz

/-- the logic of the object layer as written in the source: the sign set by the swap, the zero tuple of the
    equality return, `total_days`, the zone-name block (= the model's `sameTz` on zone tags), and the UTC shift being
    taken exactly for two datetimes with `not in_same_tz or total_days == 0` -/
theorem precise_diff_shift_source_eq_model (sw dt1 dt2 same : Bool) (t1 t2 total y1 m1 d1 y2 m2 d2 : Int) :
    Gen.PreciseDiff.sign_of sw = (if sw then -1 else 1) ∧
    Gen.PreciseDiff.equal_result = PD.zero.toList ∧
    Gen.PreciseDiff.total_days y1 m1 d1 y2 m2 d2 = Gen.day_number y2 m2 d2 - Gen.day_number y1 m1 d1 ∧
    Gen.PreciseDiff.in_same_tz (PDGen.tzTruthy t1) (PDGen.tzTruthy t2) (PDGen.tzName t1) (PDGen.tzName t2) =
      (decide (t1 = t2) && decide (t1 > 0)) ∧
    Gen.PreciseDiff.shift_taken dt1 dt2 same total = (dt2 && dt1 && (!same || decide (total = 0))) :=
  ⟨PDGen.sign_of_eq sw, PDGen.equal_result_eq, PDGen.total_days_eq y1 m1 d1 y2 m2 d2, PDGen.in_same_tz_eq t1 t2,
   PDGen.shift_taken_eq dt1 dt2 same total⟩

/-- the whole function: the generated pieces chained by `PDGen.sourcePreciseDiff` (equality test, swap, `total_days` on
    the unshifted fields, zone names, shift, core) compute the model `preciseDiffPy` for every pair of endpoints -/
theorem precise_diff_source_eq_model (a b : E) (ha : PDGen.DateZero a) (hb : PDGen.DateZero b) :
    (preciseDiffPy a b).toList = PDGen.sourcePreciseDiff a b :=
  (PDGen.source_eq_model a b ha hb).symm

/-- the statements recorded verbatim (tzinfo extraction and the naive/aware guard; the body of the UTC shift) are the
    ones the model was written against -/
theorem precise_diff_object_layer_pinned :
    Gen.PreciseDiff.preludeSource = PDGen.expectedPrelude ∧ Gen.PreciseDiff.shiftSource = PDGen.expectedShiftBody :=
  ⟨PDGen.prelude_pinned, PDGen.shift_body_pinned⟩

/-! non-vacuity: the generated core on the F8 pair (2021-05-02 → 2021-06-01: 30 days), on a borrow through every unit
(2024-03-31T00:00:00.000000 → 2024-05-01T... minus 1 µs) and on a date/datetime pair; `DateZero` holds for the examples -/
example : Gen.PreciseDiff.core true true 1 30 2021 5 2 0 0 0 0 2021 6 1 0 0 0 0 = [0, 0, 30, 0, 0, 0, 0, 30] := by decide
example : Gen.PreciseDiff.core true true (-1) 30 2024 3 31 0 0 0 1 2024 4 30 0 0 0 0 = [0, 0, -29, -23, -59, -59, -999999, -30] := by
  decide
example : Gen.PreciseDiff.core false true 1 366 2023 2 28 0 0 0 0 2024 2 29 13 0 0 5 = [1, 0, 1, 13, 0, 0, 5, 366] := by decide
example : PDGen.DateZero ex1 ∧ PDGen.DateZero ex2 ∧ PDGen.sourcePreciseDiff ex1 ex2 = [0, 0, 30, 0, 0, 0, 0, 30] ∧
    PDGen.sourcePreciseDiff ex4 ex3 = [0, 0, 0, -23, -15, 0, 0, 0] ∧
    Gen.PreciseDiff.shift_taken true true true 0 = true ∧ Gen.PreciseDiff.shift_taken true true true 1 = false ∧
    Gen.PreciseDiff.in_same_tz true true (some 7) (some 7) = true ∧ Gen.PreciseDiff.in_same_tz true true none none = false := by
  refine ⟨?_, ?_, ?_, ?_, ?_, ?_, ?_, ?_⟩
  · intro h; exact absurd h (by decide)
  · intro h; exact absurd h (by decide)
  all_goals decide

/-! ### … and the compiled twin (`rust/src/python/helpers.rs`, tools/gen_rust_pd.py → `Pendulum.Gen.RsPreciseDiff`)

Translated: `in_same_tz`, `total_days`, condition and position of `shift_to_utc()` in both endpoint blocks, the unix time
`shift_to_utc` hands to `local_time`, and — as ONE definition `core` — everything from `if dtinfo1 > dtinfo2 {` (sign,
exchange of the structs, `total_days = -total_days`) to `Ok(PreciseDiff { … })`. Fixed-width integers are rendered as
`Int` (no overflow for years 1..9999, an assumption of the evidence). Hand-modelled: pyo3 field extraction,
`helpers::local_time` (C15), the derived tuple ordering (source pinned). -/

/-- the integer core of the compiled function as written in the source is the tail of the model `preciseDiffRs`, for ALL
    integer field values and both orders -/
theorem precise_diff_rs_core_source_eq_model (a b : E) (total : Int) :
    Gen.RsPreciseDiff.core (lexLt b.key a.key) total a.y a.m a.d a.h a.mi a.s a.us b.y b.m b.d b.h b.mi b.s b.us =
      (let sw := lexLt b.key a.key
       let d1 := if sw then b else a
       let d2 := if sw then a else b
       let sign : Int := if sw then -1 else 1
       let total := if sw then -total else total
       let (dd0, h, mi, s, us) := timeDiff d1 d2
       let (yd, md, dd) := dateDiff dimRs d1.y d1.m d1.d d2.y d2.m d2.d dd0
       PD.scale sign ⟨yd, md, dd, h, mi, s, us, total⟩).toList :=
  PDGen.rs_core_eq a b total

/-- the whole compiled function: the generated pieces chained by `PDGen.sourcePreciseDiffRs` compute the model
    `preciseDiffRs` for every pair of endpoints (no hypothesis) -/
theorem precise_diff_rs_source_eq_model (a b : E) :
    (preciseDiffRs a b).toList = PDGen.sourcePreciseDiffRs a b :=
  (PDGen.source_eq_model_rs a b).symm

/-- zone-name test, `total_days`, shift conditions, shift timestamp, and the pinned object-level statements -/
theorem precise_diff_rs_object_layer_source_eq_model (t1 t2 y1 m1 d1 y2 m2 d2 off total : Int) (dt same : Bool) (e : E) :
    Gen.RsPreciseDiff.in_same_tz (PDGen.tzName t1) (PDGen.tzName t2) = (decide (t1 = t2) && decide (t1 > 0)) ∧
    Gen.RsPreciseDiff.total_days y1 m1 d1 y2 m2 d2 = Rs.day_number y2 m2 d2 - Rs.day_number y1 m1 d1 ∧
    Gen.RsPreciseDiff.shift_taken_1 dt same off total = (dt && ((!same && decide (off ≠ 0)) || decide (total = 0))) ∧
    Gen.RsPreciseDiff.shift_taken_2 dt same off total = (dt && ((!same && decide (off ≠ 0)) || decide (total = 0))) ∧
    rsShift e = (let (y, m, d, h, mi, s) := LocalTime.localTime true LocalTime.rsTbl
                    (Gen.RsPreciseDiff.shift_timestamp e.y e.m e.d e.h e.mi e.s e.off) 0
                 { e with y := y, m := m, d := d, h := h, mi := mi, s := s, off := 0 }) ∧
    Gen.RsPreciseDiff.preludeSource = PDGen.expectedRsPrelude ∧
    Gen.RsPreciseDiff.endpointSource_1 = PDGen.expectedRsEndpoint1 ∧
    Gen.RsPreciseDiff.endpointSource_2 = PDGen.expectedRsEndpoint2 ∧
    Gen.RsPreciseDiff.shiftSource = PDGen.expectedRsShift ∧ Gen.RsPreciseDiff.cmpSource = PDGen.expectedRsCmp :=
  ⟨PDGen.rs_in_same_tz_eq t1 t2, PDGen.rs_total_days_eq y1 m1 d1 y2 m2 d2, (PDGen.rs_shift_taken_eq dt same off total).1,
   (PDGen.rs_shift_taken_eq dt same off total).2, PDGen.rs_shift_eq e, PDGen.rs_verbatim_pinned⟩

/-! non-vacuity: the generated compiled core on the F8 pair in both orders, and the assembled function on the
fixed-offset pair `ex3`/`ex4` (shifted to UTC: Feb 28 23:30Z → Mar 1 22:45Z) -/
example : Gen.RsPreciseDiff.core false 30 2021 5 2 0 0 0 0 2021 6 1 0 0 0 0 = [0, 0, 30, 0, 0, 0, 0, 30] ∧
    Gen.RsPreciseDiff.core true (-30) 2021 6 1 0 0 0 0 2021 5 2 0 0 0 0 = [0, 0, -30, 0, 0, 0, 0, -30] := by decide
example : PDGen.sourcePreciseDiffRs ex3 ex4 = [0, 0, 0, 23, 15, 0, 0, 0] ∧
    PDGen.sourcePreciseDiffRs ex4 ex3 = [0, 0, 0, -23, -15, 0, 0, 0] ∧
    Gen.RsPreciseDiff.shift_timestamp 2021 3 1 0 30 0 3600 = 1614555000 := by decide +kernel

/-! ### … and the object around it (`src/pendulum/interval.py`, tools/gen_interval.py → `Pendulum.Gen.Interval`)

`Interval.__init__` (endpoint normalisation, the native copies handed to `precise_diff`, `_invert`, the `absolute` swap) and the
component properties are regenerated statement by statement; these theorems tie them to `IntervalPD.mk` and `Iv.components`.
`IntervalGen.RepEP env A a`: the generated pendulum endpoint `A` (class, civil fields, fold, tzinfo identity) denotes the model
endpoint `a`; `IntervalGen.EnvOk env`: what the model assumes about `>` on datetimes (wall clocks for one tzinfo object, instants
otherwise). -/
section RegeneratedInterval
open Pendulum.IntervalGen
open Pendulum.Gen.Interval (Ep Kind Env Self)

/-- `Interval.__init__` as written in the source, for two pendulum endpoints: `_invert`, `_absolute`, `_start`, `_end` are those of
    the model `IntervalPD.mk`, and the two values handed to `precise_diff` are the model's `EP.native` — same civil fields,
    **fold dropped**, `datetime` for a DateTime and `date` for a Date -/
theorem init_source_eq_model (rs : Bool) (env : Env) (ok : EnvOk env) (A B : Ep) (a b : IntervalPD.EP)
    (hA : RepEP env A a) (hB : RepEP env B b) (hc : Compat A B) (absolute : Bool) :
    ∃ r, Gen.Interval.init env A B absolute = .ok r ∧
      r.invert = (IntervalPD.mk rs a b absolute).invert ∧ r.absolute = (IntervalPD.mk rs a b absolute).absolute ∧
      RepEP env r.start (IntervalPD.mk rs a b absolute).start ∧ RepEP env r.end_ (IntervalPD.mk rs a b absolute).stop ∧
      toE r.pd_start (IntervalPD.mk rs a b absolute).start.native.off = (IntervalPD.mk rs a b absolute).start.native ∧
      toE r.pd_end (IntervalPD.mk rs a b absolute).stop.native.off = (IntervalPD.mk rs a b absolute).stop.native ∧
      r.pd_start.fold = false ∧ r.pd_end.fold = false :=
  init_eq_mk rs env ok A B a b hA hB hc absolute

/-- the getters `years, months, weeks, remaining_days, hours, minutes, remaining_seconds, microseconds, in_months(), in_days()`
    as written in the source are the model's `Iv.components`; `hdays`: the sign of `Duration._days` is the one the model reads off
    the elapsed microseconds — which is what `Duration.__new__` computes (second part) -/
theorem components_source_eq_model {α : Type} (self : Self α) (i : IntervalPD.Iv) (hd : self.delta = pdtOf i.delta)
    (hdays : self.days < 0 ↔ i.elapsed ≤ -86400000000) :
    [Gen.Interval.p_years self, Gen.Interval.p_months self, Gen.Interval.p_weeks self, Gen.Interval.p_remaining_days self,
     Gen.Interval.p_hours self, Gen.Interval.p_minutes self, Gen.Interval.p_remaining_seconds self,
     Gen.Interval.p_microseconds self, Gen.Interval.in_months self, Gen.Interval.in_days self] = i.components ∧
    ((Pickle.normState i.elapsed 0 0).days < 0 ↔ i.elapsed ≤ -86400000000) :=
  ⟨components_eq self i hd hdays, days_sign_satisfiable i.elapsed⟩

/-! non-vacuity: `__init__` on an inverted absolute pair (the stored endpoints are swapped, the natives lose their fold) and the
getters on the components of 2021-03-01T00:30+01:00 → 2024-02-29T23:45+01:00 -/
example : Gen.Interval.init (refEnv exZone) ⟨.pdt, 2020, 1, 2, 3, 4, 5, 6, true, 1⟩ ⟨.pdt, 2020, 1, 1, 0, 0, 0, 0, true, 1⟩ true
    = .ok ⟨true, true, ⟨.pdt, 2020, 1, 1, 0, 0, 0, 0, true, 1⟩, ⟨.pdt, 2020, 1, 2, 3, 4, 5, 6, true, 1⟩,
           ⟨.ndt, 2020, 1, 1, 0, 0, 0, 0, false, 1⟩, ⟨.ndt, 2020, 1, 2, 3, 4, 5, 6, false, 1⟩⟩ := by decide +kernel
example : Gen.Interval.init (refEnv exZone) ⟨.pdate, 2020, 2, 29, 0, 0, 0, 0, false, 0⟩ ⟨.ndate, 2025, 1, 1, 0, 0, 0, 0, false, 0⟩ false
    = .ok ⟨false, false, ⟨.pdate, 2020, 2, 29, 0, 0, 0, 0, false, 0⟩, ⟨.pdate, 2025, 1, 1, 0, 0, 0, 0, false, 0⟩,
           ⟨.ndate, 2020, 2, 29, 0, 0, 0, 0, false, 0⟩, ⟨.pdate, 2025, 1, 1, 0, 0, 0, 0, false, 0⟩⟩ := by decide +kernel
example : (let self : Self Unit := ⟨(), (), false, false, pdtOf (IntervalPD.mk false epA epC false).delta, 1095, 0⟩
    [Gen.Interval.p_years self, Gen.Interval.p_months self, Gen.Interval.p_weeks self, Gen.Interval.p_remaining_days self,
     Gen.Interval.p_hours self, Gen.Interval.p_minutes self, Gen.Interval.p_remaining_seconds self,
     Gen.Interval.p_microseconds self, Gen.Interval.in_months self, Gen.Interval.in_days self]) =
    [2, 11, 4, 0, 23, 15, 0, 0, 35, 1095] := by decide +kernel

end RegeneratedInterval

end Pendulum.Props.C06
