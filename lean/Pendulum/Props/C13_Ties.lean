import Pendulum.Props.C13
import Pendulum.Proofs.IsoPyDurGen
import Pendulum.Proofs.IsoRsGlue
/-! # C13 — tie theorems: the definitions regenerated from the source on every run (`Gen/*.lean`) equal the hand model
the theorems of `Props/C13.lean` are about. Kept in a module of its own so that a broken tie stops this module only:
the hand-model theorems of `Props/C13.lean`, which other properties import, keep building. Same namespace; the axiom audit
enumerates both modules. -/
namespace Pendulum.Props.C13
open Pendulum.IsoDur

section Regenerated
open Pendulum.IsoPyDurGen
open Pendulum.Gen.IsoPy (Ext DurArgs)

/-- the model's `parse` for the pure-Python backend is: lexer, `pyMatch` (the regular expression: which groups), then the
    per-group code `pyEval` and the range check `finish` — the last two are what the regenerated definition is tied to -/
theorem parse_py_eq (rest : List Char) :
    parse .py ('P' :: rest) =
      (match lex .py rest with
        | .error k => .error k
        | .ok ts =>
          match pyMatch ts with
          | none => .error .syntax
          | some g => (match pyEval g with | .ok p => finish p | .error k => .error k)) := by
  simp only [parse, parseParsed, run, pyRun]
  cases lex .py rest with
  | error k => rfl
  | ok ts =>
    dsimp only
    cases pyMatch ts with
    | none => rfl
    | some g => dsimp only; cases pyEval g <;> rfl

/-- what the model says about `Duration(**kw)`: the range check `fin`, an `OverflowError` outside it (generic in the range check,
    instantiated with `finish`: the kernel must not unfold its 10^15-sized literals) -/
def DurationOkF (fin : Parsed → Except Kind Dur) (ext : Ext Dur) : Prop :=
  ∀ p : Parsed, ext.Duration (argsOf p) = (match fin p with | .ok d => .ok d | .error _ => .error "OverflowError")

/-- `Duration(**kw)` is the range check of `timedelta` -/
def DurationOk (ext : Ext Dur) : Prop := DurationOkF finish ext

/-- **iso_duration_source_eq_model.** `_parse_iso8601_duration` after `ISO8601_DURATION.match`, as written in the source and
    regenerated on every run — the weeks block, the years/months/days block and the hours/minutes/seconds block (order check
    on the group positions, the `fractional` flag, `.replace` / `.split` / `int()` of the group texts,
    `_fraction_to_microseconds`), then `Duration(...)` inside `try … except OverflowError: raise ParserError` — is the model's
    `pyEval` followed by `finish`, for every match of the expression (`WG`: any groups, any digits, `.` or `,`), every rejection
    being a `ParserError`. Hypotheses: `int()` reads ASCII digits (`DigitOk`), `Duration` is the range check (`DurationOk`);
    satisfiable: `iso_duration_hypotheses_satisfiable`. -/
theorem iso_duration_source_eq_model (ext : Ext Dur) (hx : DigitOk ext) (hD : DurationOk ext) (g : WG) (hv : g.valid) :
    Gen.IsoPy.py_iso_duration ext (durGroups g) =
      liftK id (match pyEval g.py with | .ok p => finish p | .error k => .error k) := by
  rw [duration_core ext hx g hv]
  cases pyEval g.py with
  | error k => rfl
  | ok p =>
    dsimp only
    rw [hD p]
    cases finish p <;> rfl

/-- … and, with `Duration` left open, the keyword arguments handed to it are the model's components -/
theorem iso_duration_args_source_eq_model (ext : Ext DurArgs) (hx : DigitOk ext) (hD : ∀ a, ext.Duration a = .ok a) (g : WG)
    (hv : g.valid) :
    Gen.IsoPy.py_iso_duration ext (durGroups g) = liftK argsOf (pyEval g.py) := by
  rw [duration_core ext hx g hv]
  cases pyEval g.py with
  | error k => rfl
  | ok p => dsimp only; rw [hD]; rfl

/-- `_fraction_to_microseconds` as regenerated is the model's `fracUs` (whose rounding is `frac_nearest` above) -/
theorem iso_fraction_source_eq_model {V : Type} (ext : Ext V) (hx : DigitOk ext) (f : List Nat) (hf : digitsOk f) (U : Nat) :
    Gen.IsoPy.py_fraction_to_microseconds ext (renderDigits f) (U : Int) = .ok ((fracUs f (U * 1000000) : Nat) : Int) :=
  fraction_tie ext hx f hf U

/-- the expression whose matching is not translated, and the statements of the function up to the match test, verbatim -/
theorem iso8601_duration_regex_pinned :
    Gen.IsoPy.ISO8601_DURATION_pattern =
      "^P(?P<w>    (?P<weeks>\\d+(?:[.,]\\d+)?W))?(?P<ymd>    (?P<years>\\d+(?:[.,]\\d+)?Y)?    (?P<months>\\d+(?:[.,]\\d+)?M)?    (?P<days>\\d+(?:[.,]\\d+)?D)?)?(?P<hms>    (?P<timesep>T)    (?P<hours>\\d+(?:[.,]\\d+)?H)?    (?P<minutes>\\d+(?:[.,]\\d+)?M)?    (?P<seconds>\\d+(?:[.,]\\d+)?S)?)?$\nre.VERBOSE" ∧
    Gen.IsoPy.py_iso_duration_prologue = "m = ISO8601_DURATION.match(text)\nif not m:\n    return None" := by
  dtie "C13.iso8601_duration_regex_pinned" "iso8601.py::ISO8601_DURATION (the expression) or the first statements of _parse_iso8601_duration" =>
    exact ⟨rfl, rfl⟩

/-- the reference callees: ASCII digits, `Duration` = the range check `fin` -/
def refExtF (fin : Parsed → Except Kind Dur) : Ext Dur where
  digit := digitVal
  date_add_days := fun _ _ _ _ => .error "unused"
  Duration := fun a =>
    match fin ⟨a.years.toNat, a.months.toNat, a.weeks.toNat, a.days.toNat, a.hours.toNat, a.minutes.toNat, a.seconds.toNat,
      a.microseconds.toNat⟩ with
    | .ok d => .ok d
    | .error _ => .error "OverflowError"

theorem refExtF_ok (fin : Parsed → Except Kind Dur) : DigitOk (refExtF fin) ∧ DurationOkF fin (refExtF fin) := by
  refine ⟨fun c d h => h, fun p => ?_⟩
  obtain ⟨y, mo, w, d, h, mi, s, us⟩ := p
  simp only [refExtF, argsOf, Int.toNat_natCast]

def refExt : Ext Dur := refExtF finish

theorem iso_duration_hypotheses_satisfiable : DigitOk refExt ∧ DurationOk refExt := refExtF_ok finish

/-- the groups of `P1Y2M3DT4H5M6,5S` -/
def sampleG : WG :=
  ⟨none, some ⟨[1], '.', none, 'Y'⟩, some ⟨[2], '.', none, 'M'⟩, some ⟨[3], '.', none, 'D'⟩,
    some (some ⟨[4], '.', none, 'H'⟩, some ⟨[5], '.', none, 'M'⟩, some ⟨[6], ',', some [5], 'S'⟩)⟩

def okIs {α : Type} [DecidableEq α] (r : Except String α) (v : α) : Bool :=
  match r with
  | .ok a => decide (a = v)
  | .error _ => false

def errIs {α : Type} (r : Except String α) (e : String) : Bool :=
  match r with
  | .ok _ => false
  | .error x => x == e

example : (durGroups sampleG).ymd = some "1Y2M3D".toList ∧ (durGroups sampleG).hms = some "T4H5M6,5S".toList ∧
    (durGroups sampleG).months_start = 3 ∧ (durGroups sampleG).seconds_start = 12 := by decide
example : sampleG.valid := by
  refine ⟨?_, ?_, ?_, ?_, ?_⟩
  · intro w h; cases h
  all_goals
    simp only [sampleG, ValidU, Option.some.injEq, Prod.mk.injEq, forall_eq', and_imp]
    try intro h mi s e1 e2 e3
    try subst e1 e2 e3
    simp [WItem.valid, digitsOk] <;> decide
/-- the regenerated code evaluates: 1 year, 2 months, 3 d 4 h 5 min 6.5 s -/
example : okIs (Gen.IsoPy.py_iso_duration refExt (durGroups sampleG)) ⟨1, 2, 273906500000⟩ = true := by decide
/-- fractional years are refused -/
example : errIs (Gen.IsoPy.py_iso_duration refExt (durGroups ⟨none, some ⟨[1], '.', some [5], 'Y'⟩, none, none, none⟩))
    "ParserError" = true := by decide

end Regenerated


/-! ## ===== begin: the compiled duration parser as regenerated from rust/src/parsing.rs (`Gen/IsoRs.lean`, tools/gen_isors.py) ===== -/
namespace Pendulum.Props.C13
open Pendulum.IsoDur Pendulum.IsoRsGen Pendulum.Gen.IsoRs Pendulum.RsStd

/-- **rs_duration_source_eq_model.** `Parser::parse_duration` with `parse_duration_number`, `parse_duration_number_frac`,
`ParsedDuration::add_fraction` and `fraction_to_microseconds`, translated statement by statement from the source on every run
(state machine over `got_t`, `last_had_fraction`, `last_unit`; checked u64 arithmetic; byte offsets of the fraction slice), computes the
hand model `parseParsed .rust` (lexer + `rsStep` fold) on EVERY string `P…` — the same components on success, an error where the
model has one — for every fuel exceeding the input's length by 8 (`durView … ≠ none`: no `while`/`loop` is ever cut). -/
theorem rs_duration_source_eq_model (cs : List Char) (fuel : Nat) (hf : cs.length + 9 ≤ fuel) :
    durView (Parser.parse_duration fuel (Parser.new ('P' :: cs)) Parsed.new) = some (parseParsed .rust ('P' :: cs)).toOption := by
  rw [new_eq]
  exact (parse_duration_eq_model fuel [] cs Parsed.new (by omega)).1

/-- **fuel immateriality** for the duration parser: any two sufficient fuels give the same result, and none cuts a loop -/
theorem rs_duration_fuel_immaterial (cs : List Char) (f1 f2 : Nat) (h1 : cs.length + 9 ≤ f1) (h2 : cs.length + 9 ≤ f2) :
    durView (Parser.parse_duration f1 (Parser.new ('P' :: cs)) Parsed.new) =
      durView (Parser.parse_duration f2 (Parser.new ('P' :: cs)) Parsed.new) ∧
    durView (Parser.parse_duration f1 (Parser.new ('P' :: cs)) Parsed.new) ≠ none := by
  rw [rs_duration_source_eq_model cs f1 h1, rs_duration_source_eq_model cs f2 h2]
  exact ⟨rfl, by simp⟩

/-- **rs_fraction_source_eq_model.** The regenerated `fraction_to_microseconds` (a `for` over the reversed byte slice) is the hand model's
`fracUsRs` — hence (`frac_backends_equal`, `frac_nearest`) the exact value rounded half up — and the regenerated `add_fraction` with its
four `checked_add`s is the hand model's `rsFrac`, for every digit string, unit and starting components. -/
theorem rs_fraction_source_eq_model (digits : List Char) (U : Nat) (d : ParsedDuration) (v : Nat) (u : Char) :
    fraction_to_microseconds (bytesOf digits) U = fracUsRs (digits.map dval) U ∧
    (ParsedDuration.add_fraction d (bytesOf digits) U).map toParsed =
      (match rsFrac ⟨v, some (digits.map dval), u⟩ U (toParsed d) with | .ok q => some q | .error _ => none) :=
  ⟨fraction_eq digits U, add_fraction_eq d digits U v u⟩

/-- **rs_duration_step_source_eq_model.** One iteration of the loop body on a "number [fraction] designator" = `rsStep` of the hand
model (all seven designator arms, the order checks on `last_unit`, the fraction rules), from any state. -/
theorem rs_duration_step_source_eq_model (fuel : Nat) (self : Parser) (pre' dw : List Char) (d : ParsedDuration) (g l : Bool) (lu : Int)
    (hlu : 0 ≤ lu) (value : Nat) (hv : value < 2 ^ 64) (fcs : Option (List Char)) (hT : (self.current == 'T') = false)
    (hnum : Parser.parse_duration_number_frac fuel self = .ok ((value, fcs.map bytesOf), stAt pre' dw)) :
    StepAgree (Parser.parse_duration_loop1_top0 fuel self d g l lu) (stAt pre' dw)
      (rsStep (toSt d g l lu) (.item ⟨value, fcs.map (·.map dval), dw.headD '\x00'⟩)) :=
  s6_item fuel self pre' dw d g l lu hlu value hv fcs hT hnum

/-- **rs_duration_glue_source_eq_model.** `parse_iso8601` (rust/src/python/parsing.rs) on a string `P…`, as regenerated: a `Duration` object
carrying exactly the components of the hand model (`Duration::new(Some(years), …)`), or an exception; `remaining_days` / `remaining_seconds`
(what `parser.py` reads) are the `days` / `seconds` fields. Hypothesis `ExtOk`: the PyO3 constructors are the modelled CPython ones
(satisfiable: `ext_hypotheses_satisfiable` in Props/C07). -/
theorem rs_duration_glue_source_eq_model {Obj : Type} (ext : Ext Obj) (obj : Iso.Value → Obj) (objDur : IsoDur.Parsed → Obj)
    (hext : ExtOk ext obj objDur) (cs : List Char) (fuel : Nat) (hf : cs.length + 9 ≤ fuel) :
    glueView (parse_iso8601 fuel ext ('P' :: cs)) = some ((parseParsed .rust ('P' :: cs)).toOption.map objDur) ∧
    (∀ d : Duration, Duration.remaining_days d = .ok d.days ∧ Duration.remaining_seconds d = .ok d.seconds) := by
  refine ⟨?_, duration_getters⟩
  rw [parse_iso8601_eq_model (fun _ => true) ext obj objDur hext ('P' :: cs) fuel (by simp; omega)]
  simp only [ParseAll.isoAny, List.head?_cons, if_true]
  cases parseParsed .rust ('P' :: cs) <;> rfl

/-! non-vacuity: the regenerated parser computes on concrete strings (`P1Y2M3DT4H5M6.5S`, `P1.5W`, `PT0M1H`, 2^64 days) -/
example : durView (Parser.parse_duration 30 (Parser.new "P1Y2M3DT4H5M6.5S".toList) Parsed.new) =
    some (some ⟨1, 2, 0, 3, 4, 5, 6, 500000⟩) := by decide
example : durView (Parser.parse_duration 30 (Parser.new "P1.5W".toList) Parsed.new) = some (some ⟨0, 0, 1, 3, 12, 0, 0, 0⟩) := by decide
example : durView (Parser.parse_duration 30 (Parser.new "PT0M1H".toList) Parsed.new) = some none := by decide
example : durView (Parser.parse_duration 40 (Parser.new "P18446744073709551616D".toList) Parsed.new) = some none := by decide

/-! ## ===== end: regenerated compiled duration parser ===== -/

end Pendulum.Props.C13
