import Pendulum.Proofs.ZoneOps
import Pendulum.Model.DTOps
import Pendulum.Proofs.AddDur
import Pendulum.Proofs.AddDurGen
import Pendulum.Props.C01
/-! # C03 — adding fixed-length units moves the instant by exactly that elapsed time -/
namespace Pendulum.Props.C03
open Pendulum Pendulum.Zone

/-! ### C03 : fixed-length units move the instant exactly -/

theorem addFixed_instant (z : Z) (h : z.WF) (l : Local) (d : Int) :
    toUtc z (addFixed z l d) = toUtc z l + d := toUtc_fromUtc z h _

theorem addFixed_fields (z : Z) (l : Local) (d : Int) :
    (addFixed z l d).w = (toUtc z l + d) + z.off (toUtc z l + d) := rfl

/-- subtract undoes add: same instant, hence same rendering, offset and fold -/
theorem subtract_inverse (z : Z) (h : z.WF) (l : Local) (d : Int) :
    addFixed z (addFixed z l d) (-d) = fromUtc z (toUtc z l) := by
  unfold addFixed; rw [toUtc_fromUtc z h]; congr 1; omega

/-- and for a value that is itself a rendering of an instant (every value pendulum produces), it is the value -/
theorem subtract_inverse' (z : Z) (h : z.WF) (u d : Int) :
    addFixed z (addFixed z (fromUtc z u) d) (-d) = fromUtc z u := by
  rw [subtract_inverse z h, toUtc_fromUtc z h]


/-! ### the same on the DateTime-level model (`DTOps.add`), which the correspondence run ties to `DateTime.add` -/
open Pendulum.DTOps Pendulum.AddDur

/-- the requested amount, in microseconds -/
def amount (hours minutes seconds micros : Int) : Int := totalUs 0 hours minutes seconds micros

/-- the sign-aware carry normalisation of `add_duration` never changes the amount -/
theorem carry_preserves_amount (days hours minutes seconds micros : Int) :
    let r := normTime days hours minutes seconds micros
    totalUs r.1 r.2.1 r.2.2.1 r.2.2.2.1 r.2.2.2.2 = totalUs days hours minutes seconds micros :=
  normTime_total days hours minutes seconds micros

/-- **aware value in a named zone**: the instant moves by exactly the requested amount, the zone is kept, and the
    fields and offset are the table's rendering of the new instant -/
theorem add_fixed_named (z : Z) (hz : z.WF) (w : Int) (f : Bool) (hh mi s us : Int) (r : V)
    (h : DTOps.add ⟨.named z, w, f⟩ 0 0 0 0 hh mi s us = .ok r) :
    let u' := (V.instant ⟨.named z, w, f⟩) + amount hh mi s us
    r.instant = u' ∧ r.w = u' + z.off u' ∧ r.offset = z.off u' ∧ r.fold = z.foldOf u' := by
  unfold DTOps.add at h
  simp only [ne_eq, not_true_eq_false, or_self, if_false] at h
  split at h
  · cases h
  · cases h
  · rename_i dt hdt
    have hd := addDuration_fixed _ _ _ _ _ _ hdt
    split at h
    · injection h with h; subst h
      simp only [amount, V.instant, V.offset, ZRef.table] at *
      rw [← hd]
      refine ⟨?_, rfl, ?_, rfl⟩
      · exact toUtc_fromUtc z hz dt
      · exact roundtrip z.trs z.init dt hz
    · cases h

/-- **fixed offset**: the own clock moves by exactly the amount -/
theorem add_fixed_fixed (off w : Int) (f : Bool) (hh mi s us : Int) (r : V)
    (h : DTOps.add ⟨.fixed off, w, f⟩ 0 0 0 0 hh mi s us = .ok r) :
    r.w = w + amount hh mi s us ∧ r.offset = off := by
  unfold DTOps.add at h
  simp only [ne_eq, not_true_eq_false, or_self, if_false] at h
  split at h
  · cases h
  · cases h
  · rename_i dt hdt
    have hd := addDuration_fixed _ _ _ _ _ _ hdt
    split at h
    · injection h with h; subst h
      simp only [amount, V.offset, ZRef.table, fixedZ, Z.woff, wallOff] at *
      exact ⟨by omega, trivial⟩
    · cases h

/-- **naive value**: shifted on its own clock -/
theorem add_fixed_naive (w : Int) (f : Bool) (hh mi s us : Int) (r : V)
    (h : DTOps.add ⟨.naive, w, f⟩ 0 0 0 0 hh mi s us = .ok r) : r.w = w + amount hh mi s us := by
  unfold DTOps.add at h
  simp only [ne_eq, not_true_eq_false, or_self, if_false] at h
  split at h
  · cases h
  · cases h
  · rename_i dt hdt
    have hd := addDuration_fixed _ _ _ _ _ _ hdt
    injection h with h; subst h
    simp only [amount, V.offset, ZRef.table] at *
    omega

/-- **subtract() with the same arguments returns to the original instant, offset and rendering** -/
theorem subtract_returns (z : Z) (hz : z.WF) (w : Int) (f : Bool) (hh mi s us : Int) (r1 r2 : V)
    (h1 : DTOps.add ⟨.named z, w, f⟩ 0 0 0 0 hh mi s us = .ok r1)
    (h2 : DTOps.add r1 0 0 0 0 (-hh) (-mi) (-s) (-us) = .ok r2) :
    let u := V.instant ⟨.named z, w, f⟩
    r2.instant = u ∧ r2.w = u + z.off u ∧ r2.offset = z.off u := by
  have a1 := add_fixed_named z hz w f hh mi s us r1 h1
  simp only [] at a1
  -- r1 is a value of the same zone
  have hz1 : r1.z = .named z := by
    unfold DTOps.add at h1
    simp only [ne_eq, not_true_eq_false, or_self, if_false] at h1
    split at h1
    · cases h1
    · cases h1
    · split at h1
      · injection h1 with h1; subst h1; rfl
      · cases h1
  obtain ⟨z1, w1, f1⟩ := r1
  simp only at hz1; subst hz1
  have a2 := add_fixed_named z hz w1 f1 (-hh) (-mi) (-s) (-us) r2 h2
  simp only [] at a2
  have e : amount (-hh) (-mi) (-s) (-us) = - amount hh mi s us := by
    unfold amount totalUs; omega
  rw [a1.1, e] at a2
  have e2 : V.instant ⟨.named z, w, f⟩ + amount hh mi s us + -amount hh mi s us = V.instant ⟨.named z, w, f⟩ := by omega
  rw [e2] at a2
  exact ⟨a2.1, a2.2.1, a2.2.2.1⟩

/-- the driver's `addChecked` is `add` whenever the start's reading on the UTC clock is representable (years 1..9999);
    otherwise, with fixed-length units only, the implementation's intermediate native value overflows -/
theorem addChecked_eq_add (v : V) (y mo wk d hh mi s us : Int) (h : inRange (v.w - v.offset) = true) :
    DTOps.addChecked v y mo wk d hh mi s us = DTOps.add v y mo wk d hh mi s us := by
  unfold DTOps.addChecked; simp [h]

/-- **the source itself**: `helpers.add_duration`, regenerated from `src/pendulum/helpers.py` on every run
    (`tools/gen_addduration.py`, one Lean definition per source statement), computes for a datetime argument exactly what the
    hand model `AddDur.addDuration` computes — for every start and every integer argument tuple. A change to the carry
    code, the month overflow or the day clamp breaks this obligation. -/
theorem add_duration_source_eq_model (w years months weeks days hours minutes seconds micros : Int) :
    AddDur.addDuration w years months weeks days hours minutes seconds micros =
      (match Gen.add_duration (wallToFields w).1 (wallToFields w).2.1 (wallToFields w).2.2.1 false
              years months weeks days hours minutes seconds micros with
       | .ok (y2, m2, day, d', h, mi, s, us) =>
         if y2 < 1 ∨ y2 > 9999 then .error .valueError
         else
           let r := fieldsToWall y2 m2 day (wallToFields w).2.2.2 + totalUs d' h mi s us
           if r < minWall ∨ r > maxWall then .error .overflow else .ok r
       | .error _ => .error .valueError) := by
  rw [add_duration_gen]
  unfold AddDur.addDuration
  simp only []

/-- and for a plain `date` argument it raises RuntimeError exactly when a time component is passed -/
theorem add_duration_source_date (y m d years months weeks days hours minutes seconds micros : Int) :
    (Gen.add_duration y m d true years months weeks days hours minutes seconds micros = .error "RuntimeError") ↔
      (hours ≠ 0 ∨ minutes ≠ 0 ∨ seconds ≠ 0 ∨ micros ≠ 0) :=
  add_duration_gen_date y m d years months weeks days hours minutes seconds micros

/-! non-vacuity -/
example : (DTOps.add ⟨.named ⟨3600000000, [⟨1000000000000, 7200000000⟩]⟩, 1001800000000, false⟩ 0 0 0 0 1 0 0 0).toOption.map (·.w)
    = some (1001800000000 + 3600000000 + 3600000000) := by decide +kernel

end Pendulum.Props.C03
