import Pendulum.Proofs.ZoneOps
import Pendulum.Model.DTOps
import Pendulum.Proofs.AddDur
import Pendulum.Proofs.AddDurGen
import Pendulum.Proofs.DTArithGenAdd
import Pendulum.Proofs.DTArithGenOps
import Pendulum.Props.C01
/-! # C03 — adding fixed-length units moves the instant by exactly that elapsed time -/
namespace Pendulum.Props.C03
open Pendulum Pendulum.Zone

/-! ### C03 : fixed-length units move the instant exactly -/

theorem addFixed_instant (z : Z) (h : z.WF) (l : Local) (d : Int) :
    toUtc z (addFixed z l d) = toUtc z l + d := toUtc_fromUtc z h _

theorem addFixed_fields (z : Z) (l : Local) (d : Int) :
    (addFixed z l d).w = (toUtc z l + d) + z.off (toUtc z l + d) := rfl

/-- subtract undoes add: same instant, hence same rendering, offset and fold -/
theorem subtract_inverse (z : Z) (h : z.WF) (l : Local) (d : Int) :
    addFixed z (addFixed z l d) (-d) = fromUtc z (toUtc z l) := by
  unfold addFixed; rw [toUtc_fromUtc z h]; congr 1; omega

/-- and for a value that is itself a rendering of an instant (every value pendulum produces), it is the value -/
theorem subtract_inverse' (z : Z) (h : z.WF) (u d : Int) :
    addFixed z (addFixed z (fromUtc z u) d) (-d) = fromUtc z u := by
  rw [subtract_inverse z h, toUtc_fromUtc z h]


/-! ### the same on the DateTime-level model (`DTOps.add`), which the correspondence run ties to `DateTime.add` -/
open Pendulum.DTOps Pendulum.AddDur

/-- the requested amount, in microseconds -/
def amount (hours minutes seconds micros : Int) : Int := totalUs 0 hours minutes seconds micros

/-- the sign-aware carry normalisation of `add_duration` never changes the amount -/
theorem carry_preserves_amount (days hours minutes seconds micros : Int) :
    let r := normTime days hours minutes seconds micros
    totalUs r.1 r.2.1 r.2.2.1 r.2.2.2.1 r.2.2.2.2 = totalUs days hours minutes seconds micros :=
  normTime_total days hours minutes seconds micros

/-- **aware value in a named zone**: the instant moves by exactly the requested amount, the zone is kept, and the
    fields and offset are the table's rendering of the new instant -/
theorem add_fixed_named (z : Z) (hz : z.WF) (w : Int) (f : Bool) (hh mi s us : Int) (r : V)
    (h : DTOps.add ⟨.named z, w, f⟩ 0 0 0 0 hh mi s us = .ok r) :
    let u' := (V.instant ⟨.named z, w, f⟩) + amount hh mi s us
    r.instant = u' ∧ r.w = u' + z.off u' ∧ r.offset = z.off u' ∧ r.fold = z.foldOf u' := by
  unfold DTOps.add at h
  simp only [ne_eq, not_true_eq_false, or_self, if_false] at h
  split at h
  · cases h
  · cases h
  · rename_i dt hdt
    have hd := addDuration_fixed _ _ _ _ _ _ hdt
    split at h
    · injection h with h; subst h
      simp only [amount, V.instant, V.offset, ZRef.table] at *
      rw [← hd]
      refine ⟨?_, rfl, ?_, rfl⟩
      · exact toUtc_fromUtc z hz dt
      · exact roundtrip z.trs z.init dt hz
    · cases h

/-- **fixed offset**: the own clock moves by exactly the amount -/
theorem add_fixed_fixed (off w : Int) (f : Bool) (hh mi s us : Int) (r : V)
    (h : DTOps.add ⟨.fixed off, w, f⟩ 0 0 0 0 hh mi s us = .ok r) :
    r.w = w + amount hh mi s us ∧ r.offset = off := by
  unfold DTOps.add at h
  simp only [ne_eq, not_true_eq_false, or_self, if_false] at h
  split at h
  · cases h
  · cases h
  · rename_i dt hdt
    have hd := addDuration_fixed _ _ _ _ _ _ hdt
    split at h
    · injection h with h; subst h
      simp only [amount, V.offset, ZRef.table, fixedZ, Z.woff, wallOff] at *
      exact ⟨by omega, trivial⟩
    · cases h

/-- **naive value**: shifted on its own clock -/
theorem add_fixed_naive (w : Int) (f : Bool) (hh mi s us : Int) (r : V)
    (h : DTOps.add ⟨.naive, w, f⟩ 0 0 0 0 hh mi s us = .ok r) : r.w = w + amount hh mi s us := by
  unfold DTOps.add at h
  simp only [ne_eq, not_true_eq_false, or_self, if_false] at h
  split at h
  · cases h
  · cases h
  · rename_i dt hdt
    have hd := addDuration_fixed _ _ _ _ _ _ hdt
    injection h with h; subst h
    simp only [amount, V.offset, ZRef.table] at *
    omega

/-- **subtract() with the same arguments returns to the original instant, offset and rendering** -/
theorem subtract_returns (z : Z) (hz : z.WF) (w : Int) (f : Bool) (hh mi s us : Int) (r1 r2 : V)
    (h1 : DTOps.add ⟨.named z, w, f⟩ 0 0 0 0 hh mi s us = .ok r1)
    (h2 : DTOps.add r1 0 0 0 0 (-hh) (-mi) (-s) (-us) = .ok r2) :
    let u := V.instant ⟨.named z, w, f⟩
    r2.instant = u ∧ r2.w = u + z.off u ∧ r2.offset = z.off u := by
  have a1 := add_fixed_named z hz w f hh mi s us r1 h1
  simp only [] at a1
  -- r1 is a value of the same zone
  have hz1 : r1.z = .named z := by
    unfold DTOps.add at h1
    simp only [ne_eq, not_true_eq_false, or_self, if_false] at h1
    split at h1
    · cases h1
    · cases h1
    · split at h1
      · injection h1 with h1; subst h1; rfl
      · cases h1
  obtain ⟨z1, w1, f1⟩ := r1
  simp only at hz1; subst hz1
  have a2 := add_fixed_named z hz w1 f1 (-hh) (-mi) (-s) (-us) r2 h2
  simp only [] at a2
  have e : amount (-hh) (-mi) (-s) (-us) = - amount hh mi s us := by
    unfold amount totalUs; omega
  rw [a1.1, e] at a2
  have e2 : V.instant ⟨.named z, w, f⟩ + amount hh mi s us + -amount hh mi s us = V.instant ⟨.named z, w, f⟩ := by omega
  rw [e2] at a2
  exact ⟨a2.1, a2.2.1, a2.2.2.1⟩

/-- the driver's `addChecked` is `add` whenever the start's reading on the UTC clock is representable (years 1..9999);
    otherwise, with fixed-length units only, the implementation's intermediate native value overflows -/
theorem addChecked_eq_add (v : V) (y mo wk d hh mi s us : Int) (h : inRange (v.w - v.offset) = true) :
    DTOps.addChecked v y mo wk d hh mi s us = DTOps.add v y mo wk d hh mi s us := by
  unfold DTOps.addChecked; simp [h]

/-- **the source itself**: `helpers.add_duration`, regenerated from `src/pendulum/helpers.py` on every run
    (`tools/gen_addduration.py`, one Lean definition per source statement), computes for a datetime argument exactly what the
    hand model `AddDur.addDuration` computes — for every start and every integer argument tuple. A change to the carry
    code, the month overflow or the day clamp breaks this obligation. -/
theorem add_duration_source_eq_model (w years months weeks days hours minutes seconds micros : Int) :
    AddDur.addDuration w years months weeks days hours minutes seconds micros =
      (match Gen.add_duration (wallToFields w).1 (wallToFields w).2.1 (wallToFields w).2.2.1 false
              years months weeks days hours minutes seconds micros with
       | .ok (y2, m2, day, d', h, mi, s, us) =>
         if y2 < 1 ∨ y2 > 9999 then .error .valueError
         else
           let r := fieldsToWall y2 m2 day (wallToFields w).2.2.2 + totalUs d' h mi s us
           if r < minWall ∨ r > maxWall then .error .overflow else .ok r
       | .error _ => .error .valueError) := by
  rw [add_duration_gen]
  unfold AddDur.addDuration
  simp only []

/-- and for a plain `date` argument it raises RuntimeError exactly when a time component is passed -/
theorem add_duration_source_date (y m d years months weeks days hours minutes seconds micros : Int) :
    (Gen.add_duration y m d true years months weeks days hours minutes seconds micros = .error "RuntimeError") ↔
      (hours ≠ 0 ∨ minutes ≠ 0 ∨ seconds ≠ 0 ∨ micros ≠ 0) :=
  add_duration_gen_date y m d years months weeks days hours minutes seconds micros

/-! non-vacuity -/
example : (DTOps.add ⟨.named ⟨3600000000, [⟨1000000000000, 7200000000⟩]⟩, 1001800000000, false⟩ 0 0 0 0 1 0 0 0).toOption.map (·.w)
    = some (1001800000000 + 3600000000 + 3600000000) := by decide +kernel

/-! ### the entry points themselves: `DateTime.add`, `subtract`, `_add_timedelta_`, `_subtract_timedelta`, `__add__`, `__radd__`,
`__sub__`, regenerated from `src/pendulum/datetime.py` on every run (`tools/gen_dtarith.py` → `Gen/DTArith.lean`, one Lean
definition per method, statement by statement). The callees (`helpers.add_duration`, native `datetime - timedelta`,
`self.tz.convert(<UTC value>)`) are parameters of the generated code; `DTArithGen.Linked I v` states their link to the
model (`addDuration`, range check, `inTz` from UTC) and is satisfiable for every value (`DTArithGen.linked_instOf`). -/
open Pendulum.Gen.DTArith Pendulum.DTArithGen

/-- **`DateTime.add`, from the source**: the `units_of_variable_length` test, the conditional `current_dt - offset`, the call of
    `add_duration`, the choice between `create(..., tz=self.tz)` (default fold) and the route through UTC
    (`datetime(..., tzinfo=UTC)`, `self.tz.convert`, `self.__class__(..., tzinfo=self.tz, fold=dt.fold)`), read back with the
    model's `create`, are the hand model `DTOps.addChecked` — for every value, every amount (a float `seconds=` worth
    `t` µs counting as `t` microseconds) -/
theorem add_source_eq_model (I : Inst) (v : V) (hl : Linked I v) (hv : inRange v.w = true)
    (years months weeks days hours minutes : Int) (seconds : Sec) (micros : Int) :
    interp v (dt_add I years months weeks days hours minutes seconds micros) =
      DTOps.addChecked v years months weeks days hours minutes (secS seconds) (micros + secU seconds) :=
  add_eq I v hl hv years months weeks days hours minutes seconds micros

/-- **`DateTime.subtract`, from the source**: every keyword is negated and handed to `add` -/
theorem subtract_source_eq_model (I : Inst) (v : V) (hl : Linked I v) (hv : inRange v.w = true)
    (years months weeks days hours minutes : Int) (seconds : Sec) (micros : Int) :
    dt_subtract I years months weeks days hours minutes seconds micros =
      dt_add I (-years) (-months) (-weeks) (-days) (-hours) (-minutes) (Sec.neg seconds) (-micros) ∧
    interp v (dt_subtract I years months weeks days hours minutes seconds micros) =
      DTOps.addChecked v (-years) (-months) (-weeks) (-days) (-hours) (-minutes) (-(secS seconds)) (-(micros + secU seconds)) :=
  ⟨subtract_eq I _ _ _ _ _ _ _ _, subtract_model I v hl hv _ _ _ _ _ _ _ _⟩

/-- **the operators with a plain timedelta of `t` µs, from the source**: `dt + td`, `td + dt` (any calling frame other
    than `astimezone`) and `dt - td` reach `add(seconds=td.total_seconds())` / `subtract(seconds=…)`: the model's
    `addChecked` with `± t` µs and nothing else (C03: the instant moves by exactly the elapsed time) -/
theorem operators_source_eq_model (I : Inst) (v : V) (hl : Linked I v) (hv : inRange v.w = true) (caller : String)
    (o no : Operand) (hk : o.kind = .timedelta) (hc : caller ≠ "astimezone") :
    (dt_op_add I caller o).toOption.bind (fun r => match r with | .value q => some (reqV v q) | _ => none)
      = (dt_add_timedelta I o).toOption.map (reqV v) ∧
    dt_op_radd I o = dt_op_add I "__radd__" o ∧
    interp v (dt_add_timedelta I o) = DTOps.addChecked v 0 0 0 0 0 0 0 o.total_seconds ∧
    dt_op_sub I o no = Except.map Res.value (dt_subtract_timedelta I o no) ∧
    interp v (dt_subtract_timedelta I o no) = DTOps.addChecked v 0 0 0 0 0 0 0 (-o.total_seconds) := by
  have t := timedelta_model I v hl hv o no hk
  refine ⟨?_, ?_, t.1, ?_, t.2⟩
  · rw [(op_add_eq I caller o).1]
    simp only [isDelta, hk, hc]
    cases dt_add_timedelta I o <;> simp [Except.map, Except.toOption]
  · rw [(op_add_eq I "__radd__" o).1, (op_add_eq I "__radd__" o).2]; simp
  · rw [op_sub_eq]; simp [isDelta, hk]

/-- the operand kinds `__add__` / `__radd__` accept: anything that is not a timedelta → `NotImplemented`; called from the
    frame `astimezone` (CPython's `datetime.astimezone` adds the offset with `+`) → the native addition -/
theorem add_dispatch_source_eq_model (I : Inst) (caller : String) (o : Operand) :
    (isDelta o.kind = false → dt_op_add I caller o = .ok .notImplemented ∧ dt_op_radd I o = .ok .notImplemented) ∧
    (isDelta o.kind = true → dt_op_add I "astimezone" o = .ok .super_add) := by
  constructor
  · intro h; rw [(op_add_eq I caller o).1, (op_add_eq I caller o).2]; simp [h]
  · intro h; rw [(op_add_eq I "astimezone" o).1]; simp [h]

/-- the way the calling frame is read is pinned verbatim -/
theorem caller_guard_pinned : caller_source = "traceback.extract_stack(limit=2)[0].name" := by decide

/-! non-vacuity: the link hypotheses hold for `instOf v`; the generated `add` computes: +1 h across the transition of the
    example zone above goes through UTC and ends in the raw constructor with the fold of the conversion -/
example (v : V) : Linked (instOf v) v := linked_instOf v
example : (dt_add (instOf ⟨.named ⟨3600000000, [⟨1000000000000, 7200000000⟩]⟩, 1001800000000, false⟩) 0 0 0 0 1 0 (.int 0) 0).toOption
    = some (.construct 1970 1 12 16 16 40 0 false) := by decide +kernel
example : (dt_add (instOf ⟨.naive, 0, false⟩) 0 1 0 0 0 0 (.int 0) 0).toOption = some (.create 1970 2 1 0 0 0 0 true) := by
  decide +kernel

end Pendulum.Props.C03
