import Pendulum.Proofs.ZoneOps
import Pendulum.Model.DTOps
import Pendulum.Proofs.CalRT
/-! # C03 — adding fixed-length units moves the instant by exactly that elapsed time -/
namespace Pendulum.Props.C03
open Pendulum Pendulum.Zone

/-! ### C03 : fixed-length units move the instant exactly -/

theorem addFixed_instant (z : Z) (h : z.WF) (l : Local) (d : Int) :
    toUtc z (addFixed z l d) = toUtc z l + d := toUtc_fromUtc z h _

theorem addFixed_fields (z : Z) (l : Local) (d : Int) :
    (addFixed z l d).w = (toUtc z l + d) + z.off (toUtc z l + d) := rfl

/-- subtract undoes add: same instant, hence same rendering, offset and fold -/
theorem subtract_inverse (z : Z) (h : z.WF) (l : Local) (d : Int) :
    addFixed z (addFixed z l d) (-d) = fromUtc z (toUtc z l) := by
  unfold addFixed; rw [toUtc_fromUtc z h]; congr 1; omega

/-- and for a value that is itself a rendering of an instant (every value pendulum produces), it is the value -/
theorem subtract_inverse' (z : Z) (h : z.WF) (u d : Int) :
    addFixed z (addFixed z (fromUtc z u) d) (-d) = fromUtc z u := by
  rw [subtract_inverse z h, toUtc_fromUtc z h]


end Pendulum.Props.C03
