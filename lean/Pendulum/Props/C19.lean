import Pendulum.Proofs.Range
import Pendulum.Proofs.RangeAdd
import Pendulum.Proofs.RangeCal
import Pendulum.Proofs.IntervalGenRange
/-! # C19 — IntervalPD.range() steps from the start without drift and stays inside

`Range.range step inside amount fuel` is the loop of `Interval.range` (Model/Range.lean): `step i` =
`self.start.add(unit = ±i)`, `inside v` = the loop's comparison with the end, `cand k = step (amount * k)` the
k-th value *computed from the start*. The theorems hold for every step function, comparison, amount and fuel —
in particular for `rangeIv` (every zone, unit, direction). Strict monotonicity / reachability / finiteness are
stated over an integer key of the values (the instant): they apply whenever the key of the candidates is
strictly increasing, which is the case outside F15 (two requests normalising to one value) and — for the
comparison — when the loop's order is the order of the keys (outside F16). -/
namespace Pendulum.Props.C19
open Pendulum Pendulum.Range Pendulum.DTOps Pendulum.IntervalPD

variable {α : Type}

/-- **no drift**: the k-th yielded value is `start.add(unit = k·amount)`, computed from the start -/
theorem range_nth (step : Int → α) (inside : α → Bool) (amount : Int) (fuel k : Nat) (v : α)
    (h : (range step inside amount fuel)[k]? = some v) : v = step (amount * k) := by
  rw [range_spec] at h
  exact (cands_getElem?_some step amount fuel k v (takeWhile_getElem? inside _ k v h)).1

/-- **stays inside**: every yielded value passed the loop's comparison with the end -/
theorem range_inside (step : Int → α) (inside : α → Bool) (amount : Int) (fuel : Nat) (v : α)
    (h : v ∈ range step inside amount fuel) : inside v = true := by
  rw [range_spec] at h
  exact mem_takeWhile_true inside _ v h

/-- **stops at the last value not beyond the end**: if the loop ended before the fuel ran out, the next
    candidate failed the comparison (and by `range_inside` all earlier ones passed) -/
theorem range_stops_at_last (step : Int → α) (inside : α → Bool) (amount : Int) (fuel : Nat)
    (h : (range step inside amount fuel).length < fuel) :
    inside (step (amount * ((range step inside amount fuel).length : Nat))) = false := by
  rw [range_spec] at h ⊢
  have hl : (cands step amount fuel).length = fuel := by unfold cands; simp
  obtain ⟨x, hx, hp⟩ := takeWhile_stop inside (cands step amount fuel) (by omega)
  obtain ⟨e, _⟩ := cands_getElem?_some step amount fuel _ x hx
  rw [e] at hp; exact hp

/-- **finite / fuel-independent**: once some candidate `N` fails the comparison, any fuel above `N` gives the
    same list, of length at most `N` -/
theorem range_finite (step : Int → α) (inside : α → Bool) (amount : Int) (N fuel : Nat)
    (hN : inside (step (amount * N)) = false) (hf : N < fuel) :
    range step inside amount fuel = range step inside amount (N + 1) ∧
    (range step inside amount fuel).length ≤ N := by
  have split : cands step amount fuel = cands step amount (N + 1) ++
      ((List.range (fuel - (N + 1))).map (fun j => cand step amount (N + 1 + j))) := by
    unfold cands
    have e : fuel = (N + 1) + (fuel - (N + 1)) := by omega
    conv => lhs; rw [e, List.range_add, List.map_append, List.map_map]
    rfl
  have hmem : ∃ x ∈ cands step amount (N + 1), inside x = false := by
    refine ⟨cand step amount N, ?_, hN⟩
    unfold cands; exact List.mem_map.mpr ⟨N, by simp, rfl⟩
  have heq : range step inside amount fuel = range step inside amount (N + 1) := by
    rw [range_spec, range_spec, split, takeWhile_append_stop inside _ _ hmem]
  refine ⟨heq, ?_⟩
  rw [heq, range_spec]
  have hlen : ((cands step amount (N + 1)).takeWhile inside).length ≤ N + 1 := by
    have := length_takeWhile_le' inside (cands step amount (N + 1))
    unfold cands at this ⊢; simpa using this
  by_cases c : ((cands step amount (N + 1)).takeWhile inside).length = N + 1
  · exfalso
    have hall : (cands step amount (N + 1)).takeWhile inside = cands step amount (N + 1) := by
      have hs := List.takeWhile_sublist inside (l := cands step amount (N + 1))
      exact hs.eq_of_length (by unfold cands at c ⊢; simpa using c)
    obtain ⟨x, hx, hp⟩ := hmem
    rw [← hall] at hx
    have := mem_takeWhile_true inside _ x hx
    rw [this] at hp; exact absurd hp (by simp)
  · omega

/-- **strictly monotone**: when the instants of the candidates strictly increase, so do those of the yielded
    values (`key` = instant for a forward range, minus the instant for an inverted one) -/
theorem range_strict_mono (step : Int → α) (inside : α → Bool) (amount : Int) (fuel : Nat) (key : α → Int)
    (hstep : ∀ k : Nat, key (cand step amount k) < key (cand step amount (k + 1))) :
    (range step inside amount fuel).Pairwise (fun a b => key a < key b) := by
  rw [range_spec]
  apply List.Pairwise.sublist (List.takeWhile_sublist inside)
  unfold cands
  rw [List.pairwise_map]
  apply List.Pairwise.imp _ (List.pairwise_lt_range (n := fuel))
  intro i j hij
  have := key_mono step amount key hstep i (j - i)
  have e : i + (j - i) = j := by omega
  rw [e] at this
  have : (((j - i : Nat)) : Int) ≥ 1 := by omega
  omega

/-- **the end is yielded exactly when it is reachable**: with strictly increasing keys and the loop comparing
    keys with the end's, a value with the end's key is yielded iff some candidate has that key -/
theorem end_yielded_iff (step : Int → α) (amount : Int) (fuel : Nat) (key : α → Int) (stop : Int)
    (hstep : ∀ k : Nat, key (cand step amount k) < key (cand step amount (k + 1))) :
    (∃ v ∈ range step (fun v => decide (key v ≤ stop)) amount fuel, key v = stop) ↔
    (∃ k, k < fuel ∧ key (step (amount * k)) = stop) := by
  constructor
  · rintro ⟨v, hv, hk⟩
    obtain ⟨k, hk'⟩ := List.getElem?_of_mem hv
    have h1 := range_nth step _ amount fuel k v hk'
    rw [range_spec] at hk'
    have h2 := (cands_getElem?_some step amount fuel k v (takeWhile_getElem? _ _ k v hk')).2
    exact ⟨k, h2, by rw [← h1]; exact hk⟩
  · rintro ⟨k, hk, he⟩
    refine ⟨cand step amount k, ?_, he⟩
    rw [range_spec]
    apply List.mem_of_getElem? (i := k)
    apply takeWhile_all _ _ k _ (cands_getElem? step amount fuel k hk)
    intro j x hj hx
    obtain ⟨ex, _⟩ := cands_getElem?_some step amount fuel j x hx
    have := key_mono step amount key hstep j (k - j)
    have e : j + (k - j) = k := by omega
    rw [e] at this
    simp only [decide_eq_true_eq]
    rw [ex]
    unfold cand at this ⊢
    omega

/-- **explicit bound** (⇒ the fuel-based model is total): with strictly increasing integer keys the loop yields
    at most `stop − key(start) + 1` values -/
theorem range_length_bound (step : Int → α) (amount : Int) (fuel : Nat) (key : α → Int) (stop : Int)
    (hstep : ∀ k : Nat, key (cand step amount k) < key (cand step amount (k + 1)))
    (hfuel : (stop - key (step 0) + 1).toNat < fuel) :
    (range step (fun v => decide (key v ≤ stop)) amount fuel).length ≤ (stop - key (step 0) + 1).toNat := by
  apply (range_finite step _ amount _ fuel _ hfuel).2
  have := key_mono step amount key hstep 0 (stop - key (step 0) + 1).toNat
  rw [Nat.zero_add] at this
  simp only [decide_eq_false_iff_not]
  unfold cand at this
  simp only [Int.natCast_zero, Int.mul_zero] at this
  omega

/-! ### the concrete loop of `Interval.range` -/

/-- the theorems above, read for `rangeIv`: the k-th value is `start.add(unit = ±k·amount)` and passed the
    comparison with the end, for every interval, unit, amount and zone -/
theorem rangeIv_nth_inside (iv : Iv) (unit : Nat) (amount : Int) (fuel k : Nat) (r : Except Err V)
    (h : (rangeIv iv unit amount fuel)[k]? = some r) :
    r = stepOf iv unit (amount * k) ∧ insideOf iv r = true :=
  ⟨range_nth _ _ amount fuel k r h, range_inside _ _ amount fuel r (List.mem_of_getElem? h)⟩

/-- values of a naive / fixed-offset / UTC interval compare by their instants -/
theorem leV_fixed (tag : Int) (a b : V) (off : Int) (ha : a.offset = off) (hb : b.offset = off) :
    leV tag a tag b = decide (a.instant ≤ b.instant) := by
  unfold leV V.instant
  simp only [if_true, ha, hb]
  by_cases h : a.w ≤ b.w
  · have : a.w - off ≤ b.w - off := by omega
    simp [h, this]
  · have : ¬ (a.w - off ≤ b.w - off) := by omega
    simp [h, this]

/-- **`x in interval` ⇔ start ≤ x ≤ end** (by instants) for naive, Date, fixed-offset and UTC values, and for
    any values of differently tagged zones -/
theorem contains_iff (iv : Iv) (tagX : Int) (x : V) (off : Int)
    (hs : iv.start.tag = tagX → iv.start.v.offset = off ∧ x.offset = off)
    (he : tagX = iv.stop.tag → iv.stop.v.offset = off ∧ x.offset = off) :
    containsIv iv tagX x = true ↔ (iv.start.v.instant ≤ x.instant ∧ x.instant ≤ iv.stop.v.instant) := by
  unfold containsIv
  rw [Bool.and_eq_true]
  have h1 : leV iv.start.tag iv.start.v tagX x = decide (iv.start.v.instant ≤ x.instant) := by
    by_cases c : iv.start.tag = tagX
    · obtain ⟨a, b⟩ := hs c
      subst c; exact leV_fixed _ _ _ off a b
    · unfold leV; rw [if_neg c]
  have h2 : leV tagX x iv.stop.tag iv.stop.v = decide (x.instant ≤ iv.stop.v.instant) := by
    by_cases c : tagX = iv.stop.tag
    · obtain ⟨a, b⟩ := he c
      subst c; exact leV_fixed _ _ _ off b a
    · unfold leV; rw [if_neg c]
  rw [h1, h2]; simp

/-- **`_partial`: DST zones** — for two values of the same zone `in` follows the instants as long as their
    wall-clock order is the order of their instants (hypotheses `hs`, `he`); it is the wall-clock order otherwise
    (F16, see the counterexample below) -/
theorem contains_iff_partial (iv : Iv) (tagX : Int) (x : V)
    (hs : iv.start.tag = tagX → (iv.start.v.w ≤ x.w ↔ iv.start.v.instant ≤ x.instant))
    (he : tagX = iv.stop.tag → (x.w ≤ iv.stop.v.w ↔ x.instant ≤ iv.stop.v.instant)) :
    containsIv iv tagX x = true ↔ (iv.start.v.instant ≤ x.instant ∧ x.instant ≤ iv.stop.v.instant) := by
  unfold containsIv leV
  rw [Bool.and_eq_true]
  by_cases c1 : iv.start.tag = tagX <;> by_cases c2 : tagX = iv.stop.tag
  · simp only [if_pos c1, if_pos c2, decide_eq_true_eq, hs c1, he c2]
  · simp only [if_pos c1, if_neg c2, decide_eq_true_eq, hs c1]
  · simp only [if_neg c1, if_pos c2, decide_eq_true_eq, he c2]
  · simp only [if_neg c1, if_neg c2, decide_eq_true_eq]

/-- **full strength, naive `DateTime`, weeks … microseconds, forward**: every yielded value is
    `start + k·amount·unit` exactly (no drift, no exception inside the list) -/
theorem naive_range_nth (a b : EP) (hz : a.v.z = .naive) (hdt : a.isDt = true) (hfw : gtEP a b = false)
    (unit : Nat) (hu : 2 ≤ unit ∧ unit ≤ 7) (amount : Int) (hw : AddDur.minWall ≤ a.v.w ∧ a.v.w ≤ AddDur.maxWall)
    (fuel k : Nat) (r : Except Err V)
    (h : (rangeIv (IntervalPD.mk false a b false) unit amount fuel)[k]? = some r) :
    ∃ v, r = .ok v ∧ v.w = a.v.w + amount * k * unitUs unit ∧ v.z = .naive := by
  obtain ⟨h1, h2⟩ := rangeIv_nth_inside _ unit amount fuel k r h
  have hstep : stepOf (IntervalPD.mk false a b false) unit (amount * k) = addUnit a unit (amount * k) := by
    unfold stepOf IntervalPD.mk
    simp [hfw]
  rw [hstep] at h1
  cases r with
  | error e => simp [insideOf] at h2
  | ok v =>
    obtain ⟨e1, e2⟩ := addUnit_naive a unit (amount * k) hz hdt hu hw v h1.symm
    exact ⟨v, rfl, e1, e2⟩

/-- … hence strictly increasing wall clocks (= instants) for `amount ≥ 1` -/
theorem naive_range_strict_mono (a b : EP) (hz : a.v.z = .naive) (hdt : a.isDt = true) (hfw : gtEP a b = false)
    (unit : Nat) (hu : 2 ≤ unit ∧ unit ≤ 7) (amount : Int) (ham : 1 ≤ amount)
    (hw : AddDur.minWall ≤ a.v.w ∧ a.v.w ≤ AddDur.maxWall) (fuel i j : Nat) (hij : i < j) (ri rj : Except Err V)
    (hi : (rangeIv (IntervalPD.mk false a b false) unit amount fuel)[i]? = some ri)
    (hj : (rangeIv (IntervalPD.mk false a b false) unit amount fuel)[j]? = some rj) :
    ∃ vi vj, ri = .ok vi ∧ rj = .ok vj ∧ vi.w < vj.w := by
  obtain ⟨vi, e1, w1, _⟩ := naive_range_nth a b hz hdt hfw unit hu amount hw fuel i ri hi
  obtain ⟨vj, e2, w2, _⟩ := naive_range_nth a b hz hdt hfw unit hu amount hw fuel j rj hj
  refine ⟨vi, vj, e1, e2, ?_⟩
  have hU : 1 ≤ unitUs unit := by
    have : unit = 2 ∨ unit = 3 ∨ unit = 4 ∨ unit = 5 ∨ unit = 6 ∨ unit = 7 := by omega
    rcases this with rfl | rfl | rfl | rfl | rfl | rfl <;> decide
  have hk : amount * (i : Int) + 1 ≤ amount * (j : Int) := by
    have : (i : Int) + 1 ≤ j := by omega
    have := Int.mul_le_mul_of_nonneg_left this (by omega : 0 ≤ amount)
    rw [Int.mul_add, Int.mul_one] at this; omega
  have := Int.mul_le_mul_of_nonneg_right hk (by omega : 0 ≤ unitUs unit)
  rw [Int.add_mul, Int.one_mul] at this
  omega

/-- **`_partial`: any zone (DST included)** — the yielded values are strictly monotone in the instant whenever the
    instants of consecutive candidates `start.add(unit = k·amount)` strictly increase. Missing: the cases where two
    consecutive requested wall times normalise to the same value (F15: a skipped stretch at least as long as the
    step — counterexample `zK` below); and the loop's own comparison with the end is the wall-clock one for two
    values of the same zone (F16), which `range_inside` reports faithfully -/
theorem rangeIv_strict_mono_partial (iv : Iv) (unit : Nat) (amount : Int) (fuel : Nat) (key : Except Err V → Int)
    (hstep : ∀ k : Nat, key (stepOf iv unit (amount * k)) < key (stepOf iv unit (amount * ((k + 1 : Nat) : Int)))) :
    (rangeIv iv unit amount fuel).Pairwise (fun a b => key a < key b) :=
  range_strict_mono (stepOf iv unit) (insideOf iv) amount fuel key hstep

/-- F15 in the model: a Pacific/Kiritimati-like whole-day skip (−10:00 → +14:00 at 1994-12-31T10:00Z); the day
    range 1994-12-30T12:00 … 1995-01-02T12:00 yields 1995-01-01T12:00 twice — the hypothesis `hstep` of
    `range_strict_mono` fails exactly there -/
def zK : Zone.Z := ⟨-36000000000, [⟨788868000000000, 50400000000⟩]⟩
def kS : EP := ⟨⟨.named zK, 788788800000000, false⟩, 1, true⟩
def kE : EP := ⟨⟨.named zK, 789048000000000, false⟩, 1, true⟩
def walls (l : List (Except Err V)) : List Int := l.map fun r => match r with | .ok v => v.w | .error _ => 0
example : walls (rangeIv (IntervalPD.mk false kS kE false) 3 1 10) =
    [788788800000000, 788961600000000, 788961600000000, 789048000000000] := by decide +kernel

/-! non-vacuity and the F16 counterexample -/

/-- a toy step on integers: `start = 10`, unit step 3 -/
example : range (fun i => 10 + 3 * i) (fun v => decide (v ≤ 20)) 1 100 = [10, 13, 16, 19] := by decide
example : ∀ k : Nat, (fun v : Int => v) (cand (fun i => 10 + 3 * i) 1 k) < (fun v : Int => v) (cand (fun i => 10 + 3 * i) 1 (k + 1)) := by
  intro k; unfold cand; push_cast; omega

/-- Europe/Paris-like overlap (offset 7200 → 3600 at instant 1000000): x = wall 1006000 second pass
    (instant 1002400) is *after* the end = wall 1006500 first pass (instant 999300) but `in` says contained -/
def zP : Zone.Z := ⟨7200, [⟨1000000, 3600⟩]⟩
def epS : EP := ⟨⟨.named zP, 1000000, false⟩, 1, true⟩
def epE : EP := ⟨⟨.named zP, 1006500, false⟩, 1, true⟩
def xV : V := ⟨.named zP, 1006000, true⟩
example : containsIv (IntervalPD.mk false epS epE false) 1 xV = true ∧ ¬ (xV.instant ≤ epE.v.instant) := by decide

/-! ### calendar units (`years`, `months`) on naive `DateTime`s and `Date`s, and the inverted direction

`dir iv` = −1 for an inverted, non-absolute interval (the loop calls `subtract` and compares with `>=`), +1 otherwise;
`stepOf iv unit i = addUnit iv.start unit (dir iv · i)`. The theorems below hold for **every** `Iv` (either direction,
absolute or not); `mk_dir_start` reads `dir` and `start` for an interval built by `Interval(a, b, absolute)`.
`AddDur.shiftMonths w n` is the wall value `n` months from `w` with the day of month of `w` itself clamped to the target
month (`cal_step_fields`), so "no drift" includes the end-of-month clamp: Jan 31 → Feb 28/29 → Mar 31 → Apr 30 … -/

/-- direction and start of `Interval(a, b, absolute)` -/
theorem mk_dir_start (rs : Bool) (a b : EP) (ab : Bool) :
    dir (IntervalPD.mk rs a b ab) = (if !ab && gtEP a b then -1 else 1) ∧
    (IntervalPD.mk rs a b ab).start = (if ab && gtEP a b then b else a) := ⟨rfl, rfl⟩

/-- a calendar step in civil fields: (year, month) by month-index arithmetic `12·y + (m − 1) + n`, day =
    min(day of the **start**, length of the target month), time of day kept — for every integer `n`, any year -/
theorem cal_step_fields (w n : Int) :
    AddDur.wallToFields (AddDur.shiftMonths w n) =
      ((AddDur.monthIdx w + n) / 12, (AddDur.monthIdx w + n) % 12 + 1,
       min (AddDur.wallToFields w).2.2.1
         (Cal.daysInMonth ((AddDur.monthIdx w + n) / 12) ((AddDur.monthIdx w + n) % 12 + 1)),
       (AddDur.wallToFields w).2.2.2) := AddDur.shiftMonths_fields w n

/-- monotonicity of `add_duration` in the month count: more months from the same start ⇒ at least one day later,
    whatever the start day (29–31 included) -/
theorem cal_step_strict_mono (w n n' : Int) (h : n < n') :
    AddDur.shiftMonths w n + AddDur.DAY ≤ AddDur.shiftMonths w n' := AddDur.shiftMonths_lt w n n' h

/-- **full strength, `range("years"|"months", amount)` on a naive `DateTime` or a `Date`, either direction**: every
    yielded value is `start.add(unit = ±k·amount)` = the month shift computed from the start (clamp included), never an
    exception -/
theorem cal_range_nth (iv : Iv) (hz : iv.start.v.z = .naive) (unit : Nat) (hu : unit ≤ 1) (amount : Int)
    (fuel k : Nat) (r : Except Err V) (h : (rangeIv iv unit amount fuel)[k]? = some r) :
    ∃ v, r = .ok v ∧ v.z = .naive ∧
      v.w = AddDur.shiftMonths iv.start.v.w (monthsOf unit (dir iv * (amount * k))) := by
  obtain ⟨h1, h2⟩ := rangeIv_nth_inside _ unit amount fuel k r h
  rw [stepOf_dir] at h1
  cases r with
  | error e => simp [insideOf] at h2
  | ok v =>
    obtain ⟨e1, e2⟩ := addUnit_cal_naive iv.start unit _ hz hu v h1.symm
    exact ⟨v, rfl, e2, e1⟩

/-- … hence strictly increasing (forward) / strictly decreasing (inverted) wall clocks for `amount ≥ 1`, consecutive
    values at least a day apart -/
theorem cal_range_strict_mono (iv : Iv) (hz : iv.start.v.z = .naive) (unit : Nat) (hu : unit ≤ 1) (amount : Int)
    (ham : 1 ≤ amount) (fuel i j : Nat) (hij : i < j) (ri rj : Except Err V)
    (hi : (rangeIv iv unit amount fuel)[i]? = some ri) (hj : (rangeIv iv unit amount fuel)[j]? = some rj) :
    ∃ vi vj, ri = .ok vi ∧ rj = .ok vj ∧ dir iv * vi.w + AddDur.DAY ≤ dir iv * vj.w := by
  obtain ⟨vi, e1, _, w1⟩ := cal_range_nth iv hz unit hu amount fuel i ri hi
  obtain ⟨vj, e2, _, w2⟩ := cal_range_nth iv hz unit hu amount fuel j rj hj
  refine ⟨vi, vj, e1, e2, ?_⟩
  have hk : amount * (i : Int) + 1 ≤ amount * (j : Int) := by
    have : (i : Int) + 1 ≤ j := by omega
    have := Int.mul_le_mul_of_nonneg_left this (by omega : 0 ≤ amount)
    rw [Int.mul_add, Int.mul_one] at this; omega
  rw [w1, w2]
  generalize amount * (i : Int) = p at hk ⊢
  generalize amount * (j : Int) = q at hk ⊢
  have hu' : unit = 0 ∨ unit = 1 := by omega
  rcases dir_cases iv with hd | hd <;> rw [hd]
  · have := AddDur.shiftMonths_lt iv.start.v.w (monthsOf unit (1 * p)) (monthsOf unit (1 * q)) (by
      unfold monthsOf; rcases hu' with rfl | rfl <;> simp <;> omega)
    omega
  · have := AddDur.shiftMonths_lt iv.start.v.w (monthsOf unit (-1 * q)) (monthsOf unit (-1 * p)) (by
      unfold monthsOf; rcases hu' with rfl | rfl <;> simp <;> omega)
    omega

/-- **fixed-length units (weeks … microseconds) on a naive `DateTime`, either direction**: the k-th value is
    `start ± k·amount·unit` exactly (`naive_range_nth` is the forward case) -/
theorem naive_range_nth_dir (iv : Iv) (hz : iv.start.v.z = .naive) (hdt : iv.start.isDt = true)
    (unit : Nat) (hu : 2 ≤ unit ∧ unit ≤ 7) (amount : Int)
    (hw : AddDur.minWall ≤ iv.start.v.w ∧ iv.start.v.w ≤ AddDur.maxWall)
    (fuel k : Nat) (r : Except Err V) (h : (rangeIv iv unit amount fuel)[k]? = some r) :
    ∃ v, r = .ok v ∧ v.z = .naive ∧ v.w = iv.start.v.w + dir iv * (amount * k) * unitUs unit := by
  obtain ⟨h1, h2⟩ := rangeIv_nth_inside _ unit amount fuel k r h
  rw [stepOf_dir] at h1
  cases r with
  | error e => simp [insideOf] at h2
  | ok v =>
    obtain ⟨e1, e2⟩ := addUnit_naive iv.start unit _ hz hdt hu hw v h1.symm
    exact ⟨v, rfl, e2, e1⟩

/-- … strictly increasing forward, strictly decreasing for an inverted interval (`amount ≥ 1`) -/
theorem naive_range_strict_mono_dir (iv : Iv) (hz : iv.start.v.z = .naive) (hdt : iv.start.isDt = true)
    (unit : Nat) (hu : 2 ≤ unit ∧ unit ≤ 7) (amount : Int) (ham : 1 ≤ amount)
    (hw : AddDur.minWall ≤ iv.start.v.w ∧ iv.start.v.w ≤ AddDur.maxWall) (fuel i j : Nat) (hij : i < j)
    (ri rj : Except Err V)
    (hi : (rangeIv iv unit amount fuel)[i]? = some ri) (hj : (rangeIv iv unit amount fuel)[j]? = some rj) :
    ∃ vi vj, ri = .ok vi ∧ rj = .ok vj ∧ dir iv * vi.w < dir iv * vj.w := by
  obtain ⟨vi, e1, _, w1⟩ := naive_range_nth_dir iv hz hdt unit hu amount hw fuel i ri hi
  obtain ⟨vj, e2, _, w2⟩ := naive_range_nth_dir iv hz hdt unit hu amount hw fuel j rj hj
  refine ⟨vi, vj, e1, e2, ?_⟩
  have hU : 1 ≤ unitUs unit := by
    have : unit = 2 ∨ unit = 3 ∨ unit = 4 ∨ unit = 5 ∨ unit = 6 ∨ unit = 7 := by omega
    rcases this with rfl | rfl | rfl | rfl | rfl | rfl <;> decide
  have hk : amount * (i : Int) + 1 ≤ amount * (j : Int) := by
    have : (i : Int) + 1 ≤ j := by omega
    have := Int.mul_le_mul_of_nonneg_left this (by omega : 0 ≤ amount)
    rw [Int.mul_add, Int.mul_one] at this; omega
  have hm := Int.mul_le_mul_of_nonneg_right hk (by omega : 0 ≤ unitUs unit)
  rw [Int.add_mul, Int.one_mul] at hm
  rw [w1, w2]
  generalize amount * (i : Int) = p at hm ⊢
  generalize amount * (j : Int) = q at hm ⊢
  rcases dir_cases iv with hd | hd <;> rw [hd]
  · simp only [Int.one_mul]; omega
  · have e1 : -1 * p * unitUs unit = -(p * unitUs unit) := by rw [Int.mul_assoc]; omega
    have e2 : -1 * q * unitUs unit = -(q * unitUs unit) := by rw [Int.mul_assoc]; omega
    rw [e1, e2]; omega

/-! non-vacuity of the calendar-unit / inverted theorems (naive `DateTime`s 2020-01-31T12:00 and 2020-06-01T00:00;
`Date`s 2020-02-29 and 2025-01-01) -/
def cA : EP := ⟨⟨.naive, 1580472000000000, false⟩, 0, true⟩
def cB : EP := ⟨⟨.naive, 1590969600000000, false⟩, 0, true⟩
def cD1 : EP := ⟨⟨.naive, 1582934400000000, false⟩, 0, false⟩
def cD2 : EP := ⟨⟨.naive, 1735689600000000, false⟩, 0, false⟩
def fieldsOf (l : List (Except Err V)) : List (Int × Int × Int × Int) := (walls l).map AddDur.wallToFields
/-- monthly from Jan 31: Feb 29, Mar 31, Apr 30, May 31 — the clamp never sticks -/
example : fieldsOf (rangeIv (IntervalPD.mk false cA cB false) 1 1 10) =
    [(2020, 1, 31, 43200000000), (2020, 2, 29, 43200000000), (2020, 3, 31, 43200000000), (2020, 4, 30, 43200000000),
     (2020, 5, 31, 43200000000)] := by decide +kernel
/-- the inverted interval walks back from its own start: Jun 1, May 1, …, Feb 1; `dir` = −1 -/
example : fieldsOf (rangeIv (IntervalPD.mk false cB cA false) 1 1 10) =
    [(2020, 6, 1, 0), (2020, 5, 1, 0), (2020, 4, 1, 0), (2020, 3, 1, 0), (2020, 2, 1, 0)] ∧
    dir (IntervalPD.mk false cB cA false) = -1 ∧ dir (IntervalPD.mk false cB cA true) = 1 := by decide +kernel
/-- `Date`s, every second year from Feb 29: 2022-02-28, then 2024-02-29 again -/
example : fieldsOf (rangeIv (IntervalPD.mk false cD1 cD2 false) 0 2 10) =
    [(2020, 2, 29, 0), (2022, 2, 28, 0), (2024, 2, 29, 0)] := by decide +kernel
/-- inverted, 50-day steps -/
example : walls (rangeIv (IntervalPD.mk false cB cA false) 3 50 10) =
    [1590969600000000, 1586649600000000, 1582329600000000] := by decide +kernel

/-! ### The model is the code: regenerated definitions

`Pendulum.Gen.Interval.range` / `range_loop` / `iter` / `contains` are produced from `Interval.range`, `__iter__`, `__contains__` of
`src/pendulum/interval.py` on every run (tools/gen_interval.py): the `method`/`op` choice, the `while op(start, end)` loop with
`yield start`, the step `getattr(self.start, method)(**{unit: i})` inside `try/except (OverflowError, ValueError): break`, and
`i += amount`, over an abstract type of endpoints with `<=`, `>=` and the step as parameters (`Ops`).  `IntervalGen.OpsOk`: the
parameters are what `Model/Range.lean` says they are (`leV`, `addUnit` with `±n`; tied by the correspondence run). -/
section Regenerated
open Pendulum.IntervalGen
open Pendulum.Gen.Interval (Ops Self Method)

/-- `Interval.range(unit, amount)` as written in the source yields exactly the model's `rangeIv` list — for EVERY fuel (so in
    particular for every fuel ≥ the number of yielded values), either direction, absolute or not — and no exception escapes the
    generator; `__iter__` is `range("days", 1)` -/
theorem range_source_eq_model (ops : Ops EP) (self : Self EP) (iv : Iv) (u : Nat) (unit : String) (amount : Int) (fuel : Nat)
    (hs : SelfRep self iv) (hops : OpsOk ops iv.start u unit) :
    (Gen.Interval.range ops self unit amount fuel).1.map (fun e => Except.ok e.v) = rangeIv iv u amount fuel ∧
    (Gen.Interval.range ops self unit amount fuel).2 = none ∧
    Gen.Interval.iter ops self fuel = Gen.Interval.range ops self "days" 1 fuel :=
  ⟨(range_eq ops self iv u unit amount fuel hs hops).1, (range_eq ops self iv u unit amount fuel hs hops).2, iter_eq ops self fuel⟩

/-- stop conditions of the loop as written in the source: the comparison with the end fails → the generator ends; the step raises
    OverflowError or ValueError → it ends after the value just yielded; any other exception escapes after that value -/
theorem range_stop_source {α : Type} (ops : Ops α) (self : Self α) (unit : String) (amount : Int) (m : Method) (op : α → α → Bool)
    (stop cur : α) (fuel : Nat) (i : Int) :
    (op cur stop = false → Gen.Interval.range_loop ops self unit amount m op stop (fuel + 1) cur i = ([], none)) ∧
    (∀ err, op cur stop = true → ops.call m self.start unit i = .error err →
      Gen.Interval.range_loop ops self unit amount m op stop (fuel + 1) cur i =
        if err = "OverflowError" ∨ err = "ValueError" then ([cur], none) else ([cur], some err)) := by
  refine ⟨fun h => ?_, fun err h1 h2 => range_stop ops self unit amount m op stop cur fuel i err h1 h2⟩
  rw [loop_step, h]; rfl

/-- `item in interval` as written in the source (`self.start <= item <= self.end`) is the model's `containsIv` -/
theorem contains_source_eq_model (ops : Ops EP) (self : Self EP) (iv : Iv) (item : EP) (hs : SelfRep self iv)
    (hle : ∀ a b, ops.le a b = leV a.tag a.v b.tag b.v) (hge : ∀ a b, ops.ge a b = leV b.tag b.v a.tag a.v) :
    Gen.Interval.contains ops self item = containsIv iv item.tag item.v :=
  contains_eq ops self iv item hs hle hge

/-- the hypotheses are satisfiable: the parameters read off the model satisfy `OpsOk` for every start, unit and keyword -/
theorem range_hypotheses_satisfiable (start : EP) (u : Nat) (unit : String) : OpsOk (refOps u) start u unit :=
  refOps_ok start u unit

/-! non-vacuity: the generated loop on the monthly range from Jan 31 (`cA` … `cB`, forward), on the inverted one, and with a step
that raises: ValueError ends the iteration, TypeError escapes -/
def selfOf (iv : Iv) : Self EP := ⟨iv.start, iv.stop, iv.absolute, iv.invert, ⟨0, 0, 0, 0, 0, 0, 0, 0⟩, 0, 0⟩
example : fieldsOf ((Gen.Interval.range (refOps 1) (selfOf (IntervalPD.mk false cA cB false)) "months" 1 10).1.map (fun e => .ok e.v)) =
    [(2020, 1, 31, 43200000000), (2020, 2, 29, 43200000000), (2020, 3, 31, 43200000000), (2020, 4, 30, 43200000000),
     (2020, 5, 31, 43200000000)] := by decide +kernel
example : fieldsOf ((Gen.Interval.range (refOps 1) (selfOf (IntervalPD.mk false cB cA false)) "months" 1 10).1.map (fun e => .ok e.v)) =
    [(2020, 6, 1, 0), (2020, 5, 1, 0), (2020, 4, 1, 0), (2020, 3, 1, 0), (2020, 2, 1, 0)] := by decide +kernel
def raisingOps (err : String) : Ops Int := ⟨fun a b => decide (a ≤ b), fun a b => decide (a ≥ b), fun _ _ _ _ => .error err, id⟩
example : Gen.Interval.range (raisingOps "ValueError") ⟨1, 5, false, false, ⟨0, 0, 0, 0, 0, 0, 0, 0⟩, 0, 0⟩ "parsecs" 1 10 = ([1], none) := by
  decide
example : Gen.Interval.range (raisingOps "TypeError") ⟨1, 5, false, false, ⟨0, 0, 0, 0, 0, 0, 0, 0⟩, 0, 0⟩ "days" 1 10 = ([1], some "TypeError") := by
  decide

end Regenerated

end Pendulum.Props.C19
