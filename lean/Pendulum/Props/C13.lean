import Pendulum.Proofs.IsoDurPy
/-! # C13 — ISO 8601 durations and intervals parse to their exact value

Model: `Model/IsoDur.lean` (the two duration parsers after the repairs, shared lexer, `finish` = range of
`timedelta`; interval assembly over abstract `parseDT`/`add`/`sub`). A duration string is `'P' :: renderW ws`
for a list `ws` of *written tokens* (`WTok`: integer digit list, separator `.`/`,`, optional fraction digit
list, designator; or `T`). `Good 0 false ts` says the token sequence is a well-formed `PnYnMnDTnHnMnS` /
`PnW` (designators in order, at most once, `T` before the time part, a fraction only on the last component
and not on Y/M, numbers below 2^64 - 1 — which covers the property's "up to 10 digits").
No bound on the number of fraction digits or on leading zeros anywhere. -/
namespace Pendulum.Props.C13
open Pendulum.IsoDur

/-! ## fractions -/

/-- The compiled parser's digit loop (`fraction_to_microseconds`, u64 schoolbook multiplication from the last
digit) computes the same number as the Python parser's big-integer formula, for every digit string. -/
theorem frac_backends_equal (ds : List Nat) (U : Nat) : fracUsRs ds U = fracUs ds U := fracUsRs_eq ds U

/-- That number is the exact value `0.ds × U` rounded to the nearest microsecond (half up): the error is at
most ½ µs. (`2·10ⁿ·r ≤ 2·N·U + 10ⁿ < 2·10ⁿ·(r+1)` ⇔ `r − ½ ≤ N·U/10ⁿ < r + ½`.) -/
theorem frac_nearest (ds : List Nat) (U : Nat) :
    2 * 10 ^ ds.length * fracUs ds U ≤ 2 * (numVal ds * U) + 10 ^ ds.length ∧
    2 * (numVal ds * U) + 10 ^ ds.length < 2 * 10 ^ ds.length * (fracUs ds U + 1) := fracUs_nearest ds U

example : fracUs [2, 5] 3600000000 = 900000000 ∧ fracUsRs [4, 4, 2] 3600000000 = 1591200000 := by decide

/-! ## from strings to tokens -/

/-- Both lexers read back exactly the written tokens (any number of integer and fraction digits, leading
zeros, `.` or `,`). -/
theorem lex_roundtrip (b : Backend) (ws : List WTok) (h : ∀ t ∈ ws, t.valid) :
    lex b (renderW ws) = .ok (ws.map WTok.tok) := lex_renderW b ws h

example : renderW [.item ⟨[1], '.', some [2, 5], 'H'⟩] = ['1', '.', '2', '5', 'H'] := by decide

/-! ## well-formed durations: exact value, identical in both backends -/

theorem finish_congr (p q : Parsed) (h1 : p.y = q.y) (h2 : p.mo = q.mo) (h3 : p.restUs = q.restUs) :
    finish p = finish q := by
  simp [finish, h1, h2, h3]

/-- the exact reading of a token sequence: years and months as written, the rest in µs -/
def exactDur (ts : List Tok) : Parsed := { y := yOf false ts, mo := moOf false ts, us := usOf false ts }

/-- both parsers succeed on a well-formed token sequence and return components whose total is exact -/
theorem run_good (b : Backend) (ts : List Tok) (hG : Good 0 false ts) (hne : ts ≠ []) :
    ∃ p, run b ts = .ok p ∧ p.y = yOf false ts ∧ p.mo = moOf false ts ∧ p.restUs = usOf false ts := by
  cases b with
  | py =>
    obtain ⟨hO, hF⟩ := good_ordered ts 0 false hG
    exact py_good ts hO hF
  | rust =>
    have inv0 : Inv ({} : RsState) := by constructor <;> simp
    obtain ⟨st', e, a, b, c⟩ := rs_good ts {} rfl inv0 hG
    refine ⟨st'.p, ?_, by simpa using a, by simpa using b, by simpa [Parsed.restUs] using c⟩
    cases ts with
    | nil => exact absurd rfl hne
    | cons t tl => simp [run, rsRun, e, Except.map]

theorem parse_of_run (b : Backend) (ws : List WTok) (hv : ∀ t ∈ ws, t.valid) :
    parse b ('P' :: renderW ws) = (match run b (ws.map WTok.tok) with | .ok p => finish p | .error k => .error k) := by
  simp only [parse, parseParsed, lex_renderW b ws hv]
  cases run b (ws.map WTok.tok) <;> rfl

/-- **`parse` on a well-formed duration string** = the exact value, range-checked; the same expression for
both backends. -/
theorem parse_wellformed (b : Backend) (ws : List WTok) (hv : ∀ t ∈ ws, t.valid)
    (hG : Good 0 false (ws.map WTok.tok)) (hne : ws ≠ []) :
    parse b ('P' :: renderW ws) = finish (exactDur (ws.map WTok.tok)) := by
  obtain ⟨p, e, a, b', c⟩ := run_good b (ws.map WTok.tok) hG (by simpa using hne)
  rw [parse_of_run b ws hv, e]
  exact finish_congr _ _ a b' (by rw [c]; simp [exactDur, Parsed.restUs])

/-- **dur_parse_value.** If a well-formed duration string parses to `r`, then the years and months are the
written ones and the remaining length is the exact rational value of the other components rounded to the
microsecond: `r.us = intUs + k` where `intUs` is the exact length of the integer parts and `k` is within ½ µs
of `0.f × U` for the fraction digits `f` on the (last) component of unit length `U` (`k = 0` without fraction). -/
theorem dur_parse_value (b : Backend) (ws : List WTok) (hv : ∀ t ∈ ws, t.valid)
    (hG : Good 0 false (ws.map WTok.tok)) (hne : ws ≠ []) (r : Dur)
    (h : parse b ('P' :: renderW ws) = .ok r) :
    r.years = yOf false (ws.map WTok.tok) ∧ r.months = moOf false (ws.map WTok.tok) ∧
    intUs false (ws.map WTok.tok) ≤ r.us ∧
    (match fracOf false (ws.map WTok.tok) with
      | none => r.us = intUs false (ws.map WTok.tok)
      | some (f, U) =>
        2 * 10 ^ f.length * (r.us - intUs false (ws.map WTok.tok)) ≤ 2 * (numVal f * U) + 10 ^ f.length ∧
        2 * (numVal f * U) + 10 ^ f.length < 2 * 10 ^ f.length * (r.us - intUs false (ws.map WTok.tok) + 1)) := by
  rw [parse_wellformed b ws hv hG hne] at h
  unfold finish at h
  split at h
  · injection h with h
    subst h
    have hs := usOf_split (ws.map WTok.tok) 0 false hG
    simp only [exactDur, Parsed.restUs]
    simp only [Nat.zero_mul, Nat.zero_add]
    refine ⟨trivial, trivial, by omega, ?_⟩
    cases hf : fracOf false (ws.map WTok.tok) with
    | none => simp only [hf] at hs ⊢; omega
    | some x =>
      obtain ⟨f, U⟩ := x
      simp only [hf] at hs ⊢
      have := fracUs_nearest f U
      have e : usOf false (ws.map WTok.tok) - intUs false (ws.map WTok.tok) = fracUs f U := by omega
      rw [e]
      exact this
  · cases h

/-- **backends_agree.** Every well-formed duration string gives the same result in both backends. -/
theorem backends_agree (ws : List WTok) (hv : ∀ t ∈ ws, t.valid)
    (hG : Good 0 false (ws.map WTok.tok)) (hne : ws ≠ []) :
    parse .rust ('P' :: renderW ws) = parse .py ('P' :: renderW ws) := by
  rw [parse_wellformed .rust ws hv hG hne, parse_wellformed .py ws hv hG hne]

/-- the range of a `timedelta`: fewer than 10⁹ days once years and months count for 365 and 30 days -/
def inRange (ts : List Tok) : Prop :=
  (yOf false ts * 365 + moOf false ts * 30) * usD + usOf false ts < 1000000000 * usD

/-- **dur_too_large_rejected** (never wrapped): a well-formed duration outside the representable range is an
error in both backends … -/
theorem dur_too_large_rejected (b : Backend) (ws : List WTok) (hv : ∀ t ∈ ws, t.valid)
    (hG : Good 0 false (ws.map WTok.tok)) (hne : ws ≠ []) (hbig : ¬ inRange (ws.map WTok.tok)) :
    parse b ('P' :: renderW ws) = .error .tooLarge := by
  rw [parse_wellformed b ws hv hG hne]
  unfold finish
  have : ¬ ((exactDur (ws.map WTok.tok)).y * 365 + (exactDur (ws.map WTok.tok)).mo * 30) * usD +
      (exactDur (ws.map WTok.tok)).restUs < 1000000000 * usD := by
    simpa [exactDur, Parsed.restUs, inRange] using hbig
  simp [this]

/-- … and inside the range it parses (so `dur_parse_value` is not vacuous). -/
theorem dur_in_range_parses (b : Backend) (ws : List WTok) (hv : ∀ t ∈ ws, t.valid)
    (hG : Good 0 false (ws.map WTok.tok)) (hne : ws ≠ []) (hin : inRange (ws.map WTok.tok)) :
    parse b ('P' :: renderW ws) =
      .ok ⟨yOf false (ws.map WTok.tok), moOf false (ws.map WTok.tok), usOf false (ws.map WTok.tok)⟩ := by
  rw [parse_wellformed b ws hv hG hne]
  unfold finish
  have : ((exactDur (ws.map WTok.tok)).y * 365 + (exactDur (ws.map WTok.tok)).mo * 30) * usD +
      (exactDur (ws.map WTok.tok)).restUs < 1000000000 * usD := by
    simpa [exactDur, Parsed.restUs, inRange] using hin
  rw [if_pos this]
  simp [exactDur, Parsed.restUs]

/-- a number that does not fit the compiled parser's u64 accumulator is rejected wherever it stands -/
theorem rs_huge_number_rejected (pre post : List Tok) (i : Item) (h : i.int ≥ 2 ^ 64) :
    ∃ k, run .rust (pre ++ .item i :: post) = .error k := by
  have key : ∀ (pre : List Tok) (st : RsState), ∃ k, rsFold st (pre ++ .item i :: post) = .error k := by
    intro pre
    induction pre with
    | nil => intro st; exact ⟨.tooLarge, by simp [rsFold, rsStep, h]⟩
    | cons t tl ih =>
      intro st
      simp only [List.cons_append, rsFold]
      cases rsStep st t with
      | error k => exact ⟨k, rfl⟩
      | ok st1 => exact ih st1
  obtain ⟨k, e⟩ := key pre {}
  refine ⟨k, ?_⟩
  cases pre <;> simp_all [run, rsRun, Except.map]

/-- the Python parser computes on unbounded integers: whatever it accepts, the components add up exactly -/
theorem py_value_exact (ts : List Tok) (p : Parsed) (h : run .py ts = .ok p) :
    p.y = yOf false ts ∧ p.mo = moOf false ts ∧ p.restUs = usOf false ts := by
  obtain ⟨hO, hF⟩ := py_sound ts p h
  obtain ⟨p', e, a, b, c⟩ := py_good ts hO hF
  have : p = p' := by
    have : Except.ok p = (Except.ok p' : Except Kind Parsed) := by rw [← h, ← e]; rfl
    injection this
  subst this
  exact ⟨a, b, c⟩

/-! ## malformed durations are rejected by both backends -/

/-- whatever either parser accepts has its designators in order (Y < M < D < T < H < M < S, each at most
once, `nW` alone) and its only fraction on the last component, not on years or months -/
theorem run_ok_wellformed (b : Backend) (ts : List Tok) (p : Parsed) (h : run b ts = .ok p) :
    Ordered 0 false ts ∧ FracOk false ts := by
  cases b with
  | py => exact py_sound ts p h
  | rust =>
    cases ts with
    | nil => simp [run, rsRun] at h
    | cons t tl =>
      simp only [run, rsRun, Except.map] at h
      split at h
      · cases h
      · rename_i st' e
        have := rs_sound (t :: tl) {} st' e
        exact ⟨this.1, this.2.2 rfl⟩

/-- **dur_order_rejected.** Out-of-order or repeated designators (including `T`), or weeks mixed with other
components, are rejected by both backends — whatever the values, zero included. -/
theorem dur_order_rejected (b : Backend) (ts : List Tok) (h : ¬ Ordered 0 false ts) :
    ∃ k, run b ts = .error k := by
  cases e : run b ts with
  | error k => exact ⟨k, rfl⟩
  | ok p => exact absurd (run_ok_wellformed b ts p e).1 h

theorem fracOk_append (pre rest : List Tok) : ∀ g, FracOk g (pre ++ rest) → ∃ g', FracOk g' rest ∧ (g = true → g' = true) ∧
    ((∀ t ∈ pre, t ≠ Tok.T) → g' = g) := by
  induction pre with
  | nil => intro g h; exact ⟨g, h, id, fun _ => rfl⟩
  | cons t tl ih =>
    intro g h
    cases t with
    | T =>
      obtain ⟨g', a, b, _⟩ := ih true h
      exact ⟨g', a, fun _ => b rfl, fun hn => absurd rfl (hn .T (by simp))⟩
    | item i =>
      obtain ⟨g', a, b, c⟩ := ih g h.2
      exact ⟨g', a, b, fun hn => c (fun t ht => hn t (by simp [ht]))⟩

/-- **dur_frac_year_month_rejected.** A fraction on the years, or on the months (an `M` before any `T`), is
rejected by both backends. -/
theorem dur_frac_year_month_rejected (b : Backend) (pre post : List Tok) (i : Item)
    (hf : i.frac.isSome = true)
    (hu : i.unit = 'Y' ∨ (i.unit = 'M' ∧ ∀ t ∈ pre, t ≠ Tok.T)) :
    ∃ k, run b (pre ++ .item i :: post) = .error k := by
  cases e : run b (pre ++ .item i :: post) with
  | error k => exact ⟨k, rfl⟩
  | ok p =>
    exfalso
    obtain ⟨g', a, _, c⟩ := fracOk_append pre (.item i :: post) false (run_ok_wellformed b _ p e).2
    have h3 := (a.1 hf).1
    rcases hu with hy | ⟨hm, hn⟩
    · cases g' <;> simp [rankOf, hy] at h3
    · rw [c hn] at h3
      simp [rankOf, hm] at h3

/-- **dur_frac_only_last.** A fraction on a component that is followed by another component is rejected by
both backends. -/
theorem dur_frac_only_last (b : Backend) (pre mid post : List Tok) (i j : Item) (hf : i.frac.isSome = true) :
    ∃ k, run b (pre ++ .item i :: (mid ++ .item j :: post)) = .error k := by
  cases e : run b (pre ++ .item i :: (mid ++ .item j :: post)) with
  | error k => exact ⟨k, rfl⟩
  | ok p =>
    exfalso
    obtain ⟨g', a, _, _⟩ := fracOk_append pre _ false (run_ok_wellformed b _ p e).2
    have hn := (a.1 hf).2
    clear a e
    induction mid with
    | nil => simp [noItem] at hn
    | cons t tl ih =>
      cases t with
      | T => exact ih (by simpa [noItem] using hn)
      | item x => simp [noItem] at hn

/-- the rejections at the level of strings: a written token sequence that is not well-formed is refused by
`parse` in both backends -/
theorem parse_malformed_rejected (b : Backend) (ws : List WTok) (hv : ∀ t ∈ ws, t.valid)
    (h : ¬ (Ordered 0 false (ws.map WTok.tok) ∧ FracOk false (ws.map WTok.tok))) :
    ∃ k, parse b ('P' :: renderW ws) = .error k := by
  rw [parse_of_run b ws hv]
  cases e : run b (ws.map WTok.tok) with
  | error k => exact ⟨k, rfl⟩
  | ok p => exact absurd (run_ok_wellformed b _ p e) h

/-! ## intervals -/

theorem splitSlash_append (a b : List Char) (ha : '/' ∉ a) (hb : '/' ∉ b) :
    splitSlash (a ++ '/' :: b) = some (a, b) := by
  induction a with
  | nil => simp [splitSlash, hb]
  | cons c cs ih =>
    have hc : c ≠ '/' := fun e => ha (by simp [e])
    have := ih (fun h => ha (by simp [h]))
    simp [splitSlash, hc, this]

/-- **interval_endpoints, start/duration**: the interval is `(start, add start d)` -/
theorem interval_start_duration {DT : Type} (b : Backend) (parseDT : List Char → Except Kind DT)
    (add sub : DT → Dur → Except Kind DT) (a d : List Char) (s e : DT) (du : Dur)
    (ha : '/' ∉ a) (hd : '/' ∉ d) (hap : a.head? ≠ some 'P') (hdp : d.head? = some 'P')
    (hs : parseDT a = .ok s) (hdu : parseForInterval b d = .ok du) (he : add s du = .ok e) :
    parseInterval b parseDT add sub (a ++ '/' :: d) = .ok (s, e) := by
  simp [parseInterval, splitSlash_append a d ha hd, hap, hdp, hs, hdu, he, bind, Except.bind]

/-- **interval_endpoints, duration/end**: the interval is `(sub end d, end)` -/
theorem interval_duration_end {DT : Type} (b : Backend) (parseDT : List Char → Except Kind DT)
    (add sub : DT → Dur → Except Kind DT) (d a : List Char) (s e : DT) (du : Dur)
    (ha : '/' ∉ a) (hd : '/' ∉ d) (hdp : d.head? = some 'P')
    (he : parseDT a = .ok e) (hdu : parseForInterval b d = .ok du) (hs : sub e du = .ok s) :
    parseInterval b parseDT add sub (d ++ '/' :: a) = .ok (s, e) := by
  simp [parseInterval, splitSlash_append d a hd ha, hdp, he, hdu, hs, bind, Except.bind]

/-- **interval_endpoints, start/end**: both endpoints as written -/
theorem interval_start_end {DT : Type} (b : Backend) (parseDT : List Char → Except Kind DT)
    (add sub : DT → Dur → Except Kind DT) (a c : List Char) (s e : DT)
    (ha : '/' ∉ a) (hc : '/' ∉ c) (hap : a.head? ≠ some 'P') (hcp : c.head? ≠ some 'P')
    (hs : parseDT a = .ok s) (he : parseDT c = .ok e) :
    parseInterval b parseDT add sub (a ++ '/' :: c) = .ok (s, e) := by
  simp [parseInterval, splitSlash_append a c ha hc, hap, hcp, hs, he, bind, Except.bind]

/-- the duration handed to `add`/`subtract` inside an interval is the exact value, in both backends -/
theorem interval_duration_exact (b : Backend) (ws : List WTok) (hv : ∀ t ∈ ws, t.valid)
    (hG : Good 0 false (ws.map WTok.tok)) (hne : ws ≠ []) (du : Dur)
    (h : parseForInterval b ('P' :: renderW ws) = .ok du) :
    du = ⟨yOf false (ws.map WTok.tok), moOf false (ws.map WTok.tok), usOf false (ws.map WTok.tok)⟩ := by
  cases b with
  | py =>
    simp only [parseForInterval] at h
    rw [parse_wellformed .py ws hv hG hne] at h
    unfold finish at h
    split at h
    · injection h with h; subst h; simp [exactDur, Parsed.restUs]
    · cases h
  | rust =>
    obtain ⟨p, e, a, b', c⟩ := run_good .rust (ws.map WTok.tok) hG (by simpa using hne)
    simp only [parseForInterval, parseParsed, lex_renderW .rust ws hv, e, Except.map] at h
    injection h with h
    subst h
    simp [a, b', c]

/-! ## non-vacuity: concrete well-formed and malformed inputs -/

/-- `P1Y2M3DT4H5M6.5S` -/
def sample : List WTok :=
  [.item ⟨[1], '.', none, 'Y'⟩, .item ⟨[2], '.', none, 'M'⟩, .item ⟨[3], '.', none, 'D'⟩, .T,
   .item ⟨[4], '.', none, 'H'⟩, .item ⟨[5], '.', none, 'M'⟩, .item ⟨[6], ',', some [5], 'S'⟩]

example : renderW sample = "1Y2M3DT4H5M6,5S".toList := by decide
example : (∀ t ∈ sample, t.valid) := by
  intro t ht
  simp only [sample, List.mem_cons, List.mem_nil_iff, or_false] at ht
  rcases ht with h | h | h | h | h | h | h <;> subst h <;>
    simp [WTok.valid, WItem.valid, digitsOk] <;> decide
example : Good 0 false (sample.map WTok.tok) := by
  simp [sample, WTok.tok, WItem.tok, Good, rankOf, noItem, numVal]
example : inRange (sample.map WTok.tok) := by
  simp [sample, WTok.tok, WItem.tok, inRange, yOf, moOf, usOf, rankOf, itemUs, unitUs, numVal, fracUs,
    usD, usH, usMi, usS, usW]
/-- `PT0M1H`: out of order although the minutes are zero (accepted by the compiled parser before the repair) -/
example : ¬ Ordered 0 false [.T, .item ⟨0, none, 'M'⟩, .item ⟨1, none, 'H'⟩] := by
  simp [Ordered, rankOf]
example : rankOf false 'M' = 2 ∧ rankOf true 'M' = 6 := by decide


/-! ## the pure-Python duration parser as regenerated from the source (`Gen/IsoPy.lean`, tools/gen_isopy.py) -/

end Pendulum.Props.C13
