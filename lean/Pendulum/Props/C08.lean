import Pendulum.Proofs.FmtMisc
import Pendulum.Proofs.FmtTokenize
import Pendulum.Proofs.FmtLocales
import Pendulum.Props.C15
import Pendulum.Proofs.GettersFmtGen
import Pendulum.Proofs.GettersRef
import Pendulum.Proofs.FormatterGenParse2
/-! # C08 — format() renders every token correctly and from_format() inverts it

Property theorems only. `Gen.Format.*` / `Gen.FormatLocales.*` / `Gen.py_*` are regenerated from
`formatting/formatter.py`, `datetime.py`, `constants.py` and the 27 locale packages on every run; `Fmt.*` is the
hand model of `Formatter.format` / `Formatter.parse` (repaired code) tied by the correspondence run; `Cal.*` is the
reference calendar.  Values: `Fmt.Val` (wall fields, utc offset, zone name, abbreviation); the domain of the
property is `Fmt.InRange` (years 1000..9999, valid clock fields, whole-minute offset below 100 h).
The round-trip class 𝓕 (`Fmt.NTok`, `Fmt.FItem`): `Proofs/FmtClass.lean` (tokens, recognisers, read-back), `Proofs/FmtRoundTrip.lean`
(matching, `_check_parsed` on the states the class produces), `Proofs/FmtTokenize.lean` (tokenizer on class format strings). -/
namespace Pendulum.Props.C08
open Pendulum Pendulum.Fmt

/-! ## the regenerated tables the hand-written recognisers were written against -/

/-- `_REGEX_TOKENS`: every regex source is the one the recognisers of `Fmt.groupOf` model (`z` after the F13 repair) -/
theorem regex_table_pinned :
    Gen.Format.regexTokens.filter (fun p => !["MMM", "MMMM", "dddd", "ddd", "dd"].contains p.1) =
    [("Y", ["[+-]?\\d+"]), ("YY", ["\\d\\d?", "\\d\\d"]), ("YYYY", ["\\d{1,4}", "\\d{4}"]), ("Q", ["\\d"]), ("Qo", []),
     ("M", ["\\d\\d?"]), ("MM", ["\\d\\d?", "\\d\\d"]), ("D", ["\\d\\d?"]), ("DD", ["[0-9 ]\\d?", "\\d\\d"]),
     ("DDD", ["\\d{1,3}"]), ("DDDD", ["\\d{3}"]), ("d", ["\\d"]), ("e", ["\\d"]), ("E", ["\\d"]), ("Do", []),
     ("H", ["\\d\\d?"]), ("HH", ["\\d\\d?", "\\d\\d"]), ("h", ["\\d\\d?"]), ("hh", ["\\d\\d?", "\\d\\d"]),
     ("m", ["\\d\\d?"]), ("mm", ["\\d\\d?", "\\d\\d"]), ("s", ["\\d\\d?"]), ("ss", ["\\d\\d?", "\\d\\d"]),
     ("S", ["\\d{1,3}", "\\d"]), ("SS", ["\\d{1,3}", "\\d\\d"]), ("SSS", ["\\d{1,3}", "\\d{3}"]), ("SSSS", ["\\d+"]),
     ("SSSSS", ["\\d+"]), ("SSSSSS", ["\\d+"]), ("x", ["[+-]?\\d+"]), ("X", ["[+-]?\\d+(\\.\\d{1,6})?"]),
     ("ZZ", ["[Zz]|[+-]\\d\\d(?::?\\d\\d)?"]), ("Z", ["[Zz]|[+-]\\d\\d:?\\d\\d"]),
     ("z", ["[A-Za-z0-9-+]+(/[A-Za-z0-9-+_]+)*"])] := by decide

/-- the token group of `_TOKENS`, expanded in the regex engine's priority order -/
theorem token_alternation_pinned :
    Gen.Format.tokenAlts =
    ["Mo", "MMMM", "MMM", "MM", "M", "Do", "DDDo", "DDDD", "DDD", "DD", "D", "dddd", "ddd", "dd", "do", "d", "eo", "e",
     "EEEE", "EEE", "EE", "E", "wo", "w|", "ww", "w", "Wo", "W|", "WW", "W", "Qo", "Q", "YYYY", "YY", "Y", "ggggg", "gggg",
     "gg", "GGGGG", "GGGG", "GG", "a", "A", "hh", "h", "HH", "H", "kk", "k", "mm", "m", "ss", "s", "SSSSSSSSS", "SSSSSSSS",
     "SSSSSSS", "SSSSSS", "SSSSS", "SSSS", "SSS", "SS", "S", "x", "X", "zz", "z", "ZZ", "Z", "LTS", "LT", "LLLL", "LLL",
     "LL", "L"] := by decide

/-- key sets of `_TOKENS_RULES`, `_PARSE_TOKENS`, `_LOCALIZABLE_TOKENS`: every rule token has a parser or is output-only,
    every parse token has a regex -/
theorem key_sets :
    Gen.Format.tokensRulesKeys = ["YYYY", "YY", "Y", "Q", "MM", "M", "DD", "D", "DDDD", "DDD", "d", "E", "HH", "H", "hh", "h",
      "mm", "m", "ss", "s", "S", "SS", "SSS", "SSSS", "SSSSS", "SSSSSS", "X", "x", "zz", "z"] ∧
    (Gen.Format.parseTokensKeys.all fun k => (Gen.Format.regexTokens.any fun p => p.1 == k) ||
      (Gen.Format.localizableKeys.any fun p => p.1 == k)) = true ∧
    ((Gen.Format.regexTokens.filter fun p => !p.2.isEmpty).all fun p => Gen.Format.parseTokensKeys.contains p.1
      || p.1 == "e") = true := by decide

/-! ## format(): one theorem per token family -/

/-- `YYYY` and `Y`: the four decimal digits of the year; `YY`: its last two digits -/
theorem fmt_YYYY (L : Loc) (v : Val) (hy : 1000 ≤ v.y ∧ v.y ≤ 9999) :
    formatToken L v.toDTF "YYYY" = .ok (digitsW 4 v.y.toNat) ∧ formatToken L v.toDTF "Y" = .ok (digitsW 4 v.y.toNat) ∧
    formatToken L v.toDTF "YY" = .ok (digitsW 2 (v.y.toNat % 100)) := by
  have e : pyFmtD 0 v.y = digitsW 4 v.y.toNat :=
    pyFmtD_plain 4 v.y (by omega) (by decide) (Or.inl (by simp; omega)) (by simp; omega)
  refine ⟨?_, ?_, ?_⟩
  · show Except.ok (pyFmtD 0 v.y) = _; rw [e]
  · show Except.ok (pyFmtD 0 v.y) = _; rw [e]
  · show Except.ok ((pyFmtD 0 v.y).drop 2) = _; rw [yy_drop v.y hy]

/-- two-digit zero-padded fields (`MM DD HH mm ss`) and their unpadded forms (`M D H m s`) -/
theorem fmt_two_digit (L : Loc) (v : Val) (hv : InRange v) :
    formatToken L v.toDTF "MM" = .ok (digitsW 2 v.mo.toNat) ∧ formatToken L v.toDTF "M" = .ok (natStr v.mo.toNat) ∧
    formatToken L v.toDTF "DD" = .ok (digitsW 2 v.d.toNat) ∧ formatToken L v.toDTF "D" = .ok (natStr v.d.toNat) ∧
    formatToken L v.toDTF "HH" = .ok (digitsW 2 v.h.toNat) ∧ formatToken L v.toDTF "H" = .ok (natStr v.h.toNat) ∧
    formatToken L v.toDTF "mm" = .ok (digitsW 2 v.mi.toNat) ∧ formatToken L v.toDTF "m" = .ok (natStr v.mi.toNat) ∧
    formatToken L v.toDTF "ss" = .ok (digitsW 2 v.s.toNat) ∧ formatToken L v.toDTF "s" = .ok (natStr v.s.toNat) := by
  obtain ⟨_, h2, h3, h4, h5, h6, _, _⟩ := hv
  have two : ∀ (n : Int), 0 ≤ n → n ≤ 99 → pyFmtD 2 n = digitsW 2 n.toNat := fun n a b =>
    pyFmtD_fixed 2 n a (by decide) (by simp; omega)
  refine ⟨?_, ?_, ?_, ?_, ?_, ?_, ?_, ?_, ?_, ?_⟩
  · show Except.ok (pyFmtD 2 v.mo) = _; rw [two _ (by omega) (by omega)]
  · show Except.ok (pyFmtD 0 v.mo) = _; rw [natStr_eq _ (by omega)]
  · show Except.ok (pyFmtD 2 v.d) = _; rw [two _ (by omega) (by omega)]
  · show Except.ok (pyFmtD 0 v.d) = _; rw [natStr_eq _ (by omega)]
  · show Except.ok (pyFmtD 2 v.h) = _; rw [two _ (by omega) (by omega)]
  · show Except.ok (pyFmtD 0 v.h) = _; rw [natStr_eq _ (by omega)]
  · show Except.ok (pyFmtD 2 v.mi) = _; rw [two _ (by omega) (by omega)]
  · show Except.ok (pyFmtD 0 v.mi) = _; rw [natStr_eq _ (by omega)]
  · show Except.ok (pyFmtD 2 v.s) = _; rw [two _ (by omega) (by omega)]
  · show Except.ok (pyFmtD 0 v.s) = _; rw [natStr_eq _ (by omega)]

/-- 12-hour clock: `hh`/`h` write `h mod 12`, with 12 for 0 — a value in 1..12 congruent to the hour -/
theorem fmt_hh (L : Loc) (v : Val) :
    ∃ k : Int, 1 ≤ k ∧ k ≤ 12 ∧ k % 12 = v.h % 12 ∧
      formatToken L v.toDTF "hh" = .ok (digitsW 2 k.toNat) ∧ formatToken L v.toDTF "h" = .ok (natStr k.toNat) := by
  by_cases h0 : v.h % 12 = 0
  · have hb : (v.h % 12 != 0) = false := by simp [h0]
    refine ⟨12, by omega, by omega, by omega, ?_, ?_⟩
    · show Except.ok (pyFmtD 2 (if v.h % 12 != 0 then v.h % 12 else 12)) = _
      simp only [hb, Bool.false_eq_true, if_false]; rfl
    · show Except.ok (pyFmtD 0 (if v.h % 12 != 0 then v.h % 12 else 12)) = _
      simp only [hb, Bool.false_eq_true, if_false]; rfl
  · have hb : (v.h % 12 != 0) = true := by simp [h0]
    refine ⟨v.h % 12, by omega, by omega, by omega, ?_, ?_⟩
    · show Except.ok (pyFmtD 2 (if v.h % 12 != 0 then v.h % 12 else 12)) = _
      simp only [hb, if_true]
      rw [pyFmtD_fixed 2 _ (by omega) (by decide) (by simp; omega)]
    · show Except.ok (pyFmtD 0 (if v.h % 12 != 0 then v.h % 12 else 12)) = _
      simp only [hb, if_true]
      rw [natStr_eq _ (by omega)]

/-- fractional seconds: `S`…`SSSSSS` write the first 1…6 digits of the microsecond field -/
theorem fmt_S (L : Loc) (v : Val) (hus : 0 ≤ v.us ∧ v.us ≤ 999999) :
    formatToken L v.toDTF "S" = .ok (digitsW 1 (v.us.toNat / 100000)) ∧
    formatToken L v.toDTF "SS" = .ok (digitsW 2 (v.us.toNat / 10000)) ∧
    formatToken L v.toDTF "SSS" = .ok (digitsW 3 (v.us.toNat / 1000)) ∧
    formatToken L v.toDTF "SSSS" = .ok (digitsW 4 (v.us.toNat / 100)) ∧
    formatToken L v.toDTF "SSSSS" = .ok (digitsW 5 (v.us.toNat / 10)) ∧
    formatToken L v.toDTF "SSSSSS" = .ok (digitsW 6 v.us.toNat) := by
  have k : ∀ (w : Nat) (q : Int) (n : Nat), 1 ≤ w → 0 ≤ q → q.toNat = n → n < 10 ^ w → pyFmtD w q = digitsW w n := by
    intro w q n hw hq e hn; subst e; exact pyFmtD_fixed w q hq hw hn
  refine ⟨?_, ?_, ?_, ?_, ?_, ?_⟩
  · show Except.ok (pyFmtD 1 (v.us / 100000)) = _; rw [k 1 _ (v.us.toNat / 100000) (by decide) (by omega) (by omega) (by simp; omega)]
  · show Except.ok (pyFmtD 2 (v.us / 10000)) = _; rw [k 2 _ (v.us.toNat / 10000) (by decide) (by omega) (by omega) (by simp; omega)]
  · show Except.ok (pyFmtD 3 (v.us / 1000)) = _; rw [k 3 _ (v.us.toNat / 1000) (by decide) (by omega) (by omega) (by simp; omega)]
  · show Except.ok (pyFmtD 4 (v.us / 100)) = _; rw [k 4 _ (v.us.toNat / 100) (by decide) (by omega) (by omega) (by simp; omega)]
  · show Except.ok (pyFmtD 5 (v.us / 10)) = _; rw [k 5 _ (v.us.toNat / 10) (by decide) (by omega) (by omega) (by simp; omega)]
  · show Except.ok (pyFmtD 6 v.us) = _; rw [k 6 _ v.us.toNat (by decide) (by omega) rfl (by simp; omega)]

/-- day of year: `DDDD`/`DDD` write the reference calendar's day of the year (generated closed form of `Date.day_of_year`) -/
theorem fmt_DDDD (L : Loc) (v : Val) (hm : 1 ≤ v.mo ∧ v.mo ≤ 12) :
    formatToken L v.toDTF "DDDD" = .ok (pyFmtD 3 (Cal.dayOfYear v.y v.mo v.d)) ∧
    formatToken L v.toDTF "DDD" = .ok (pyFmtD 0 (Cal.dayOfYear v.y v.mo v.d)) := by
  have e : Gen.date_day_of_year (Cal.isLeap v.y) v.mo v.d = Cal.dayOfYear v.y v.mo v.d :=
    Props.C15.day_of_year_spec _ _ _ hm
  constructor
  · show Except.ok (pyFmtD 3 (Gen.date_day_of_year (Cal.isLeap v.y) v.mo v.d)) = _; rw [e]
  · show Except.ok (pyFmtD 0 (Gen.date_day_of_year (Cal.isLeap v.y) v.mo v.d)) = _; rw [e]

/-- weekday numbers: `E` is the ISO weekday (Monday=1 … Sunday=7), `d` is Sunday=0 … Saturday=6 (`strftime("%w")`) -/
theorem fmt_E_d (L : Loc) (v : Val) :
    formatToken L v.toDTF "E" = .ok (pyFmtD 0 (Cal.isoweekday v.y v.mo v.d)) ∧
    formatToken L v.toDTF "d" = .ok (pyFmtD 0 (Cal.isoweekday v.y v.mo v.d % 7)) := by
  constructor
  · rfl
  · show Except.ok (pyFmtD 0 ((Cal.isoweekday v.y v.mo v.d - 1 + 1) % 7)) = _
    rw [show Cal.isoweekday v.y v.mo v.d - 1 + 1 = Cal.isoweekday v.y v.mo v.d by omega]

/-- quarter: `Q` writes the quarter 1..4 that contains the month -/
theorem fmt_Q (L : Loc) (v : Val) (hm : 1 ≤ v.mo ∧ v.mo ≤ 12) :
    ∃ q : Int, 1 ≤ q ∧ q ≤ 4 ∧ 3 * q - 2 ≤ v.mo ∧ v.mo ≤ 3 * q ∧ formatToken L v.toDTF "Q" = .ok (natStr q.toNat) := by
  refine ⟨(v.mo + 2) / 3, by omega, by omega, by omega, by omega, ?_⟩
  show Except.ok (pyFmtD 0 ((v.mo + 2) / 3)) = _
  rw [natStr_eq _ (by omega)]

/-- timestamps: `X` writes the integer number of seconds between the epoch and the instant (wall clock minus offset),
    `x` the integer number of milliseconds; the text reads back as that integer, for either sign -/
theorem fmt_X (L : Loc) (v : Val) :
    formatToken L v.toDTF "X" = .ok (pyFmtD 0 v.timestamp) ∧
    formatToken L v.toDTF "x" = .ok (pyFmtD 0 (v.timestamp * 1000 + v.us / 1000)) ∧
    v.timestamp = (Cal.ymd2ord v.y v.mo v.d - Cal.ymd2ord 1970 1 1) * 86400 + v.h * 3600 + v.mi * 60 + v.s - v.off ∧
    intOf (pyFmtD 0 v.timestamp) = some v.timestamp ∧
    intOf (pyFmtD 0 (v.timestamp * 1000 + v.us / 1000)) = some (v.timestamp * 1000 + v.us / 1000) := by
  refine ⟨rfl, rfl, ?_, intOf_pyFmtD _ _, intOf_pyFmtD _ _⟩
  have : Cal.ymd2ord 1970 1 1 = Cal.epochOrd := by decide
  rw [this]; rfl

/-- offsets: for every whole-minute offset below 100 h — negative sub-hour ones included — `Z` writes `±hh:mm` and `ZZ`
    `±hhmm` with the sign of the offset and `(hh·60+mm)·60 = |offset|`, and the text reads back as the offset -/
theorem fmt_Z (L : Loc) (v : Val) (ho : v.off % 60 = 0 ∧ -360000 < v.off ∧ v.off < 360000) :
    ∃ a b c d : Nat, a < 10 ∧ b < 10 ∧ c < 10 ∧ d < 10 ∧
      formatToken L v.toDTF "Z" = .ok ((if v.off ≥ 0 then '+' else '-') :: [digitChar a, digitChar b, ':', digitChar c, digitChar d]) ∧
      formatToken L v.toDTF "ZZ" = .ok ((if v.off ≥ 0 then '+' else '-') :: [digitChar a, digitChar b, digitChar c, digitChar d]) ∧
      (((10 * a + b) * 60 + (10 * c + d) : Nat) : Int) * 60 = (if v.off ≥ 0 then v.off else -v.off) := by
  obtain ⟨a, b, c, d, ha, hb, hc, hd, hf, hs⟩ := offsetStr_form v.off ho.2
  refine ⟨a, b, c, d, ha, hb, hc, hd, ?_, ?_, ?_⟩
  · show Except.ok (offsetStr true v.off) = _; rw [hf true]; rfl
  · show Except.ok (offsetStr false v.off) = _; rw [hf false]; rfl
  · rw [hs]; split <;> omega

/-- zone name and abbreviation: `z` writes `timezone_name`, `zz` writes `tzname()` -/
theorem fmt_z (L : Loc) (v : Val) :
    formatToken L v.toDTF "z" = .ok v.zname ∧ formatToken L v.toDTF "zz" = .ok v.abbr := ⟨rfl, rfl⟩

/-- meridiem: `A` writes the locale's PM word from noon on, its AM word before -/
theorem fmt_A (L : Loc) (v : Val) :
    formatToken L v.toDTF "A" = .ok (if v.h ≥ 12 then L.pm.toList else L.am.toList) := rfl

/-- localized names: `MMMM MMM dddd ddd dd` index the locale tables by month and by ISO weekday − 1 -/
theorem fmt_names (L : Loc) (v : Val) :
    formatToken L v.toDTF "MMMM" = nameAt L.monthsWide (v.mo - 1) ∧ formatToken L v.toDTF "MMM" = nameAt L.monthsAbbr (v.mo - 1) ∧
    formatToken L v.toDTF "dddd" = nameAt L.daysWide (Cal.isoweekday v.y v.mo v.d - 1) ∧
    formatToken L v.toDTF "ddd" = nameAt L.daysAbbr (Cal.isoweekday v.y v.mo v.d - 1) ∧
    formatToken L v.toDTF "dd" = nameAt L.daysShort (Cal.isoweekday v.y v.mo v.d - 1) := ⟨rfl, rfl, rfl, rfl, rfl⟩

/-- text inside `[...]` is emitted verbatim (no bracket inside), whatever letters it contains -/
theorem fmt_literal (L : Loc) (v : Val) (s : Str) (h1 : s.all (· != '[') = true) (h2 : s.all (· != ']') = true) :
    format L v ('[' :: (s ++ [']'])) = .ok s := by
  unfold format
  rw [tokenize_bracket s h1 h2]
  simp [expandItems, formatItems]

/-! ## named formats -/

/-- `DateTime._FORMATS` maps the names to the constants of `constants.py`, and the constants tokenize into the documented
    compositions (ATOM/ISO8601/RFC3339/W3C `YYYY-MM-DDTHH:mm:ssZ`, COOKIE `dddd, DD-MMM-YYYY HH:mm:ss zz`, RFC822/1036
    `ddd, DD MMM YY HH:mm:ss ZZ`, RFC850 `dddd, DD-MMM-YY HH:mm:ss zz`, RFC1123/2822/RSS `ddd, DD MMM YYYY HH:mm:ss ZZ`) -/
theorem named_formats :
    Gen.Format.namedFormats = [("atom", Gen.py_ATOM), ("cookie", Gen.py_COOKIE), ("iso8601", "<callable>"),
      ("rfc822", Gen.py_RFC822), ("rfc850", Gen.py_RFC850), ("rfc1036", Gen.py_RFC1036), ("rfc1123", Gen.py_RFC1123),
      ("rfc2822", Gen.py_RFC2822), ("rfc3339", "<callable>"), ("rss", Gen.py_RSS), ("w3c", Gen.py_W3C)] ∧
    let T := fun (s : String) => Item.tok s.toList
    let l := fun (s : String) => s.toList.map (fun c => Item.lit [c])
    tokenize Gen.py_ATOM.toList = [T "YYYY"] ++ l "-" ++ [T "MM"] ++ l "-" ++ [T "DD"] ++ l "T" ++ [T "HH"] ++ l ":" ++ [T "mm"]
      ++ l ":" ++ [T "ss", T "Z"] ∧
    Gen.py_W3C = Gen.py_ATOM ∧ Gen.py_ISO8601 = Gen.py_ATOM ∧ Gen.py_RFC3339 = Gen.py_ATOM ∧
    tokenize Gen.py_ISO8601_EXTENDED.toList = [T "YYYY"] ++ l "-" ++ [T "MM"] ++ l "-" ++ [T "DD"] ++ l "T" ++ [T "HH"] ++ l ":"
      ++ [T "mm"] ++ l ":" ++ [T "ss"] ++ l "." ++ [T "SSSSSS", T "Z"] ∧
    tokenize Gen.py_COOKIE.toList = [T "dddd"] ++ l ", " ++ [T "DD"] ++ l "-" ++ [T "MMM"] ++ l "-" ++ [T "YYYY"] ++ l " " ++ [T "HH"]
      ++ l ":" ++ [T "mm"] ++ l ":" ++ [T "ss"] ++ l " " ++ [T "zz"] ∧
    tokenize Gen.py_RFC850.toList = [T "dddd"] ++ l ", " ++ [T "DD"] ++ l "-" ++ [T "MMM"] ++ l "-" ++ [T "YY"] ++ l " " ++ [T "HH"]
      ++ l ":" ++ [T "mm"] ++ l ":" ++ [T "ss"] ++ l " " ++ [T "zz"] ∧
    tokenize Gen.py_RFC822.toList = [T "ddd"] ++ l ", " ++ [T "DD"] ++ l " " ++ [T "MMM"] ++ l " " ++ [T "YY"] ++ l " " ++ [T "HH"]
      ++ l ":" ++ [T "mm"] ++ l ":" ++ [T "ss"] ++ l " " ++ [T "ZZ"] ∧
    Gen.py_RFC1036 = Gen.py_RFC822 ∧
    tokenize Gen.py_RFC1123.toList = [T "ddd"] ++ l ", " ++ [T "DD"] ++ l " " ++ [T "MMM"] ++ l " " ++ [T "YYYY"] ++ l " " ++ [T "HH"]
      ++ l ":" ++ [T "mm"] ++ l ":" ++ [T "ss"] ++ l " " ++ [T "ZZ"] ∧
    Gen.py_RFC2822 = Gen.py_RFC1123 ∧ Gen.py_RSS = Gen.py_RFC1123 := by decide

/-- the `to_*_string()` helpers are `format()` of the documented strings / `_FORMATS` entries (generated from datetime.py) -/
theorem to_string_helpers :
    Gen.Format.toStringHelpers =
    [("to_time_string", "format", "HH:mm:ss", ""), ("to_datetime_string", "format", "YYYY-MM-DD HH:mm:ss", ""),
     ("to_day_datetime_string", "format", "ddd, MMM D, YYYY h:mm A", "en"), ("to_atom_string", "named", "atom", ""),
     ("to_cookie_string", "named", "cookie", "en"), ("to_iso8601_string", "hand", "", ""),
     ("to_rfc822_string", "named", "rfc822", ""), ("to_rfc850_string", "named", "rfc850", ""),
     ("to_rfc1036_string", "named", "rfc1036", ""), ("to_rfc1123_string", "named", "rfc1123", ""),
     ("to_rfc2822_string", "named", "rfc2822", ""), ("to_rfc3339_string", "named", "rfc3339", ""),
     ("to_rss_string", "named", "rss", ""), ("to_w3c_string", "named", "w3c", "")] := by decide

/-! ## from_format() -/

/-- **round trip on the class 𝓕** (tokens `YYYY YY MM M DD D DDDD DDD HH H hh h A mm m ss s S SS SSS SSSS SSSSS SSSSSS Z ZZ`,
    each at most once, single literal characters between them, a non-digit literal / an offset token / the end after every
    variable-width token; with `A`, a locale whose AM word cannot match the PM word — `meridiem_words_distinct`):
    for every value of the domain, every such format and every `now`, `parse(format(v))` reads exactly the fields the
    tokens carry (`NTok.set`: `YY` through the pivot, `hh`/`h` as the 12-hour number, `A` as the meridiem, `S`…`SSSSS` as the
    printed digits scaled to microseconds) and fills the rest by the rules of `_check_parsed`.  `_partial`: the property's class
    also has localized names (see `localized_roundtrip`) and zone-name tokens, which are covered by the correspondence and
    oracle runs only. -/
theorem fromFormat_format_partial (L : Loc) (v : Val) (hv : InRange v) (its : List FItem) (now : Now)
    (hne : its ≠ []) (hsep : WellSep its = true) (hrep : NoRepeat its = true) (hL : LocOK L its) :
    formatItems L v.toDTF (its.map FItem.toItem) = .ok (rendered L v its) ∧
    parseItems L (rendered L v its) (its.map FItem.toItem) now =
      checkParsed ((toks its).foldl (fun p t => t.set v p) {}) now :=
  parse_format_class L v hv its now hne hsep hrep hL

/-- **tokenization of class formats** (general, no per-format evaluation): the format string assembled from an item list of
    the class — token texts and literal characters — is cut back by the tokenizer of `format()`/`from_format()` into exactly
    these items, provided every literal is a character no token alternative starts with (and not `[` or `\`) and the character
    after a token does not continue it into a longer alternative of `_TOKENS` (`TokSep`, decidable per format; e.g. `D` may not
    be followed by `o`, `DD` or `D`, `S` not by `S`) -/
theorem tokenize_class_format (its : List FItem) (h : TokSep its = true) :
    tokenize (fmtChars its) = its.map FItem.toItem := tokenize_class its h

example : TokSep [.tok .YYYY, .lit '-', .tok .MM, .lit '-', .tok .DD, .lit 'T', .tok .HH, .lit ':', .tok .mm, .lit ':', .tok .ss,
    .lit '.', .tok .SSSSSS, .tok .Z] = true ∧
    fmtChars [.tok .YYYY, .lit '-', .tok .MM, .lit '-', .tok .DD, .lit 'T', .tok .HH, .lit ':', .tok .mm, .lit ':', .tok .ss,
    .lit '.', .tok .SSSSSS, .tok .Z] = Gen.py_ISO8601_EXTENDED.toList := by decide
/-- the side condition is needed: `D` followed by the literal `o` is the ordinal token `Do` -/
example : TokSep [.tok .D, .lit 'o'] = false ∧ tokenize (fmtChars [.tok .D, .lit 'o']) = [Item.tok "Do".toList] := by decide

/-- **round trip, full formats of the extended class**: if the format string tokenizes into a format of the class that carries
    a full date (year as `YYYY`, or as `YY` for years inside the pivot window 1969..2068; month and day, or the day of the year
    `DDDD`/`DDD` for a valid date), a full time (24-hour clock, or `hh`/`h` together with the meridiem `A`), one fraction token
    `f` among `S`…`SSSSSS` and an offset, then `from_format(dt.format(fmt), fmt)` has `dt`'s fields and offset — the microsecond
    truncated to the precision `f` prints — for every `dt` of the domain and every `now` -/
theorem fromFormat_format_ext (L : Loc) (v : Val) (hv : InRange v) (fmt : Str) (its : List FItem) (f : NTok) (now : Now)
    (htok : tokenize fmt = its.map FItem.toItem)
    (hsep : WellSep its = true) (hrep : NoRepeat its = true) (hL : LocOK L its) (hfull : FullX its f = true)
    (hyy : NTok.YY ∈ toks its → 1969 ≤ v.y ∧ v.y ≤ 2068)
    (hvd : (toks its).any NTok.isDoy = true → Cal.validDate v.y v.mo v.d) :
    ∃ s, format L v fmt = .ok s ∧
      parse L s fmt now = .ok ⟨v.y, v.mo, v.d, v.h, v.mi, v.s, v.us / f.scale * f.scale, some (TzP.fixed v.off)⟩ := by
  refine ⟨rendered L v its, ?_, ?_⟩
  · unfold format; rw [htok, expandItems_class, formatItems_class]
  · unfold parse; rw [htok]; exact parse_format_fullX L v hv its f now hsep hrep hL hfull hyy hvd

/-- the same for the format *string* assembled from the items, the tokenization being proved once and for all
    (`tokenize_class_format`) instead of being evaluated per format -/
theorem fromFormat_format_string (L : Loc) (v : Val) (hv : InRange v) (its : List FItem) (f : NTok) (now : Now)
    (htok : TokSep its = true)
    (hsep : WellSep its = true) (hrep : NoRepeat its = true) (hL : LocOK L its) (hfull : FullX its f = true)
    (hyy : NTok.YY ∈ toks its → 1969 ≤ v.y ∧ v.y ≤ 2068)
    (hvd : (toks its).any NTok.isDoy = true → Cal.validDate v.y v.mo v.d) :
    ∃ s, format L v (fmtChars its) = .ok s ∧
      parse L s (fmtChars its) now = .ok ⟨v.y, v.mo, v.d, v.h, v.mi, v.s, v.us / f.scale * f.scale, some (TzP.fixed v.off)⟩ :=
  fromFormat_format_ext L v hv _ its f now (tokenize_class its htok) hsep hrep hL hfull hyy hvd

/-- **fraction tokens: printed precision**. What comes back for the microsecond is the value rounded down to a multiple of the
    last printed digit's weight: it differs from the value by less than that weight, and `SSSSSS` returns it exactly -/
theorem fraction_precision (f : NTok) (us : Int) (hus : 0 ≤ us) :
    us / f.scale * f.scale ≤ us ∧ us < us / f.scale * f.scale + f.scale ∧ us / f.scale * f.scale = us - us % f.scale ∧
    (f = NTok.SSSSSS → us / f.scale * f.scale = us) ∧
    (f.isFrac = true → f.scale = 10 ^ (6 - f.str.length)) := by
  have hs : f.scale = 100000 ∨ f.scale = 10000 ∨ f.scale = 1000 ∨ f.scale = 100 ∨ f.scale = 10 ∨ f.scale = 1 := by
    cases f <;> simp [NTok.scale]
  refine ⟨?_, ?_, ?_, ?_, ?_⟩
  · rcases hs with h|h|h|h|h|h <;> rw [h] <;> omega
  · rcases hs with h|h|h|h|h|h <;> rw [h] <;> omega
  · rcases hs with h|h|h|h|h|h <;> rw [h] <;> omega
  · intro e; subst e; simp [NTok.scale]
  · intro hf; cases f <;> first | (simp [NTok.isFrac] at hf; done) | decide

example : (123456 : Int) / NTok.SSS.scale * NTok.SSS.scale = 123000 ∧ NTok.S.scale = 100000 := by decide

/-- **the 27 shipped locales tell their meridiem words apart** (hypothesis `LocOK` of the class theorems holds for each): the AM
    word, read as the regex it becomes, cannot match where the PM word was written -/
theorem meridiem_words_distinct : (Gen.FormatLocales.all.all AmPmOK) = true := by decide +kernel

/-- instance, 12-hour clock: `YYYY-MM-DD hh:mm:ss.SSS A Z` in any locale with distinguishable meridiem words — milliseconds -/
theorem roundtrip_12h_meridiem (L : Loc) (hL : AmPmOK L = true) (v : Val) (hv : InRange v) (now : Now) :
    ∃ s, format L v "YYYY-MM-DD hh:mm:ss.SSS A Z".toList = .ok s ∧
      parse L s "YYYY-MM-DD hh:mm:ss.SSS A Z".toList now
        = .ok ⟨v.y, v.mo, v.d, v.h, v.mi, v.s, v.us / 1000 * 1000, some (TzP.fixed v.off)⟩ :=
  fromFormat_format_string L v hv
    [.tok .YYYY, .lit '-', .tok .MM, .lit '-', .tok .DD, .lit ' ', .tok .hh, .lit ':', .tok .mm, .lit ':', .tok .ss, .lit '.',
     .tok .SSS, .lit ' ', .tok .A, .lit ' ', .tok .Z] .SSS now (by decide) (by decide) (by decide) (fun _ => hL) (by decide)
    (fun h => by simp [toks] at h) (fun h => by simp [toks, NTok.isDoy] at h)

/-- instance, day of the year: `YYYY DDDD H:m:s.SSSSSS ZZ` for every valid date of the domain -/
theorem roundtrip_day_of_year (L : Loc) (v : Val) (hv : InRange v) (hd : Cal.validDate v.y v.mo v.d) (now : Now) :
    ∃ s, format L v "YYYY DDDD H:m:s.SSSSSS ZZ".toList = .ok s ∧
      parse L s "YYYY DDDD H:m:s.SSSSSS ZZ".toList now
        = .ok ⟨v.y, v.mo, v.d, v.h, v.mi, v.s, v.us, some (TzP.fixed v.off)⟩ := by
  obtain ⟨s, h1, h2⟩ := fromFormat_format_string L v hv
    [.tok .YYYY, .lit ' ', .tok .DDDD, .lit ' ', .tok .H, .lit ':', .tok .m, .lit ':', .tok .s, .lit '.',
     .tok .SSSSSS, .lit ' ', .tok .ZZ] .SSSSSS now (by decide) (by decide) (by decide) (fun h => by simp [toks] at h) (by decide)
    (fun h => by simp [toks] at h) (fun _ => hd)
  refine ⟨s, h1, ?_⟩
  have e : v.us / NTok.SSSSSS.scale * NTok.SSSSSS.scale = v.us := by simp [NTok.scale]
  rw [e] at h2
  exact h2

/-- instance, two-digit year: `DD/MM/YY h:mm:ss.S A ZZ` for the years 1969..2068 (tenths of a second) -/
theorem roundtrip_two_digit_year (L : Loc) (hL : AmPmOK L = true) (v : Val) (hv : InRange v)
    (hy : 1969 ≤ v.y ∧ v.y ≤ 2068) (now : Now) :
    ∃ s, format L v "DD/MM/YY h:mm:ss.S A ZZ".toList = .ok s ∧
      parse L s "DD/MM/YY h:mm:ss.S A ZZ".toList now
        = .ok ⟨v.y, v.mo, v.d, v.h, v.mi, v.s, v.us / 100000 * 100000, some (TzP.fixed v.off)⟩ :=
  fromFormat_format_string L v hv
    [.tok .DD, .lit '/', .tok .MM, .lit '/', .tok .YY, .lit ' ', .tok .h, .lit ':', .tok .mm, .lit ':', .tok .ss, .lit '.',
     .tok .S, .lit ' ', .tok .A, .lit ' ', .tok .ZZ] .S now (by decide) (by decide) (by decide) (fun _ => hL) (by decide)
    (fun _ => hy) (fun h => by simp [toks, NTok.isDoy] at h)

/-- outside the pivot window the two-digit year does not come back (1950 is written `50` and read as 2050): the window
    hypothesis of the class theorem is needed -/
theorem yy_outside_window_counterexample :
    format Gen.FormatLocales.loc_en ⟨1950, 3, 5, 14, 7, 9, 0, 0, "UTC".toList, "UTC".toList⟩ "YY-MM-DD".toList = .ok "50-03-05".toList ∧
    parse Gen.FormatLocales.loc_en "50-03-05".toList "YY-MM-DD".toList ⟨2000, 1, 1⟩
      = .ok ⟨2050, 3, 5, 0, 0, 0, 0, none⟩ := by decide +kernel

/-- **round trip, full formats (basic tokens)**: if the format string tokenizes into a format of the class that carries a full
    date, time, six-digit fraction and offset, then `from_format(dt.format(fmt), fmt)` has `dt`'s fields and offset, for every
    `dt` of the domain, every locale and every `now` -/
theorem fromFormat_format (L : Loc) (v : Val) (hv : InRange v) (fmt : Str) (its : List FItem) (now : Now)
    (htok : tokenize fmt = its.map FItem.toItem)
    (hsep : WellSep its = true) (hrep : NoRepeat its = true) (hfull : Full its = true) :
    ∃ s, format L v fmt = .ok s ∧
      parse L s fmt now = .ok ⟨v.y, v.mo, v.d, v.h, v.mi, v.s, v.us, some (TzP.fixed v.off)⟩ := by
  refine ⟨rendered L v its, ?_, ?_⟩
  · unfold format; rw [htok, expandItems_class, formatItems_class]
  · unfold parse; rw [htok]; exact parse_format_full L v hv its now hsep hrep hfull

/-- instance: `ISO8601_EXTENDED` / `RFC3339_EXTENDED` (`YYYY-MM-DDTHH:mm:ss.SSSSSSZ`, regenerated from constants.py) -/
theorem iso8601_extended_roundtrip (L : Loc) (v : Val) (hv : InRange v) (now : Now) :
    ∃ s, format L v Gen.py_ISO8601_EXTENDED.toList = .ok s ∧
      parse L s Gen.py_ISO8601_EXTENDED.toList now = .ok ⟨v.y, v.mo, v.d, v.h, v.mi, v.s, v.us, some (TzP.fixed v.off)⟩ :=
  fromFormat_format L v hv _
    [.tok .YYYY, .lit '-', .tok .MM, .lit '-', .tok .DD, .lit 'T', .tok .HH, .lit ':', .tok .mm, .lit ':', .tok .ss, .lit '.',
     .tok .SSSSSS, .tok .Z] now (by decide) (by decide) (by decide) (by decide)

/-- **defaults**: when only plain date/clock fields were read, the year comes from `now`; the month comes from `now` only if no
    year was given (else 1); the day comes from `now` only if neither year nor month was given (else 1); clock fields are 0 -/
theorem defaults_from_now (p : Parsed) (now : Now)
    (h1 : p.timestamp = none) (h2 : p.quarter = none) (h3 : p.day_of_year = none) (h4 : p.day_of_week = none)
    (h5 : p.meridiem = none) :
    checkParsed p now = .ok ⟨p.year.getD now.year,
      (match p.month with | some m => m | none => if p.year.isSome then 1 else now.month),
      (match p.day with | some d => d | none => if p.year.isSome || p.month.isSome then 1 else now.day),
      p.hour.getD 0, p.minute.getD 0, p.second.getD 0, p.microsecond.getD 0, p.tz⟩ :=
  checkParsed_plain p now h1 h2 h3 h4 h5

/-- **mismatch**: a string the pattern does not match in full raises `ValueError` (any format whose tokens are supported),
    and for a format of the class 𝓕 *no* input string can make `parse` raise anything but `ValueError` -/
theorem mismatch_valueerror (L : Loc) (time : Str) (items : List Item) (now : Now) (els : List El)
    (hels : elsOf L (pelsOf items) = .ok els) (hdup : hasDup ((pelsOf items).filterMap PEl.tokName?) = false)
    (hno : dfs (fun s => s.isEmpty) els time = none) :
    parseItems L time items now = .error "ValueError" := by
  unfold parseItems
  by_cases he : items.isEmpty = true
  · simp [he]
  · simp [he, hels, hdup, hno]

theorem class_only_valueerror (L : Loc) (its : List FItem) (hrep : NoRepeat its = true)
    (time : Str) (now : Now) :
    (∃ r, parseItems L time (its.map FItem.toItem) now = .ok r) ∨
      parseItems L time (its.map FItem.toItem) now = .error "ValueError" :=
  parse_class_kinds L its hrep time now

/-- a 24-hour token next to the meridiem (repaired code: the members of `(hour, minute, second, microsecond)` that the
    format does not supply are read as 0 in the test against `(13, 0, 0, 0)`; the shipped code raised `TypeError` on
    `from_format("13 PM", "HH A")`): an hour of 13 or more is a `ValueError` whatever else was read, hours up to 12 are
    taken modulo 12 and moved to the afternoon by `PM` -/
theorem hour24_with_meridiem (p : Parsed) (now : Now) (h : Int) (pm : Bool)
    (h1 : p.timestamp = none) (h2 : p.quarter = none) (h3 : p.day_of_year = none) (h4 : p.day_of_week = none)
    (hm : p.meridiem = some pm) (hh : p.hour = some h) (h0 : 0 ≤ h)
    (hmi : ∀ x, p.minute = some x → 0 ≤ x) (hs : ∀ x, p.second = some x → 0 ≤ x)
    (hus : ∀ x, p.microsecond = some x → 0 ≤ x) :
    (13 ≤ h → checkParsed p now = .error "ValueError") ∧
    (h ≤ 12 → ∃ r, checkParsed p now = .ok r ∧ r.hour = h % 12 + (if pm then 12 else 0) ∧
      r.minute = p.minute.getD 0 ∧ r.second = p.second.getD 0 ∧ r.microsecond = p.microsecond.getD 0) := by
  have z : ∀ (o : Option Int), (∀ x, o = some x → 0 ≤ x) → 0 ≤ orZero o := by
    intro o ho
    cases o with
    | none => simp [orZero]
    | some x => simpa [orZero] using ho x rfl
  have z1 := z _ hmi; have z2 := z _ hs; have z3 := z _ hus
  constructor
  · intro hge
    have hl : meridiemTooLate h p.minute p.second p.microsecond = true := by
      unfold meridiemTooLate
      by_cases c : h > 13
      · simp [c]
      · have : h = 13 := by omega
        subst this
        by_cases c1 : orZero p.minute > 0
        · simp [c1]
        · have e1 : orZero p.minute = 0 := by omega
          by_cases c2 : orZero p.second > 0
          · simp [e1, c2]
          · have e2 : orZero p.second = 0 := by omega
            simp [e1, e2, z3]
    unfold checkParsed checkQuarter checkDayOfYear checkDayOfWeek checkMeridiem checkFinal
    simp [h1, h2, h3, h4, hm, hh, hl, bind, Except.bind, pure, Except.pure, throw, throwThe, MonadExceptOf.throw]
  · intro hle
    have hl := meridiemTooLate_small h p.minute p.second p.microsecond hle
    unfold checkParsed checkQuarter checkDayOfYear checkDayOfWeek checkMeridiem checkFinal
    simp [h1, h2, h3, h4, hm, hh, hl, bind, Except.bind, pure, Except.pure]

/-- … on concrete strings: `"13 PM"`, `"13 AM"` (and `"13:00 PM"`, `"14 PM"`) against `HH A` are `ValueError`s,
    `"11 PM"` is 23:00, `"12 AM"` is 00:00, `"12 PM"` is 12:00 -/
theorem hour24_with_meridiem_strings :
    parse Gen.FormatLocales.loc_en "13 PM".toList "HH A".toList ⟨2000, 1, 1⟩ = .error "ValueError" ∧
    parse Gen.FormatLocales.loc_en "13 AM".toList "HH A".toList ⟨2000, 1, 1⟩ = .error "ValueError" ∧
    parse Gen.FormatLocales.loc_en "13 pm".toList "H a".toList ⟨2000, 1, 1⟩ = .error "ValueError" ∧
    parse Gen.FormatLocales.loc_en "13:00 PM".toList "HH:mm A".toList ⟨2000, 1, 1⟩ = .error "ValueError" ∧
    parse Gen.FormatLocales.loc_en "14 PM".toList "HH A".toList ⟨2000, 1, 1⟩ = .error "ValueError" ∧
    parse Gen.FormatLocales.loc_en "11 PM".toList "HH A".toList ⟨2000, 1, 1⟩ = .ok ⟨2000, 1, 1, 23, 0, 0, 0, none⟩ ∧
    parse Gen.FormatLocales.loc_en "12 AM".toList "HH A".toList ⟨2000, 1, 1⟩ = .ok ⟨2000, 1, 1, 0, 0, 0, 0, none⟩ ∧
    parse Gen.FormatLocales.loc_en "12 PM".toList "HH A".toList ⟨2000, 1, 1⟩ = .ok ⟨2000, 1, 1, 12, 0, 0, 0, none⟩ ∧
    parse Gen.FormatLocales.loc_en "12:59 am".toList "H:mm a".toList ⟨2000, 1, 1⟩ = .ok ⟨2000, 1, 1, 0, 59, 0, 0, none⟩ := by
  decide +kernel

/-! ## per-locale table theorems (regenerated data, kernel evaluation) -/

def nodupB : List String → Bool
  | [] => true
  | a :: r => !r.contains a && nodupB r

/-- every locale: 12 month names and 7 day names per table, no name twice in a table (so a parsed name determines the
    month / weekday), AM and PM words different (also lower-cased) -/
theorem locale_tables_injective :
    Gen.FormatLocales.all.length = 27 ∧
    (Gen.FormatLocales.all.all fun L =>
      L.monthsWide.length == 12 && L.monthsAbbr.length == 12 && L.daysWide.length == 7 && L.daysAbbr.length == 7 &&
      L.daysShort.length == 7 && nodupB L.monthsWide && nodupB L.monthsAbbr && nodupB L.daysWide && nodupB L.daysAbbr &&
      nodupB L.daysShort && L.am != L.pm && L.amLower != L.pmLower) = true := by decide +kernel

/-- every locale with custom ordinal suffixes has a suffix for the CLDR category of every number a token can produce
    (day ≤ 31, month, quarter, ISO week ≤ 53, day of year ≤ 366) -/
theorem ordinal_total :
    (Gen.FormatLocales.all.all fun L =>
      match L.ordinalSuffix with
      | none => true
      | some tbl => (List.range 367).all fun n => (lookupS tbl (L.ordinalCat n)).isSome) = true := by decide +kernel

/-- **localized round trip**: in each of the 27 locales every month name (`MMMM`, `MMM`) written by `format()` is read back as
    that month and every day name (`dddd`, `ddd`, `dd`) as that weekday of `now`'s week (`monthRT`/`dayRT` run the model's
    `Formatter.parse` on the name; `fmt_names` says `format()` writes exactly these table entries) -/
theorem localized_roundtrip :
    (Gen.FormatLocales.all.all fun L =>
      (List.range 12).all (monthRT L "MMMM" L.monthsWide) && (List.range 12).all (monthRT L "MMM" L.monthsAbbr) &&
      (List.range 7).all (dayRT L "dddd" L.daysWide) && (List.range 7).all (dayRT L "ddd" L.daysAbbr) &&
      (List.range 7).all (dayRT L "dd" L.daysShort)) = true ∧
    tokenize "MMMM".toList = [Item.tok "MMMM".toList] ∧ tokenize "MMM".toList = [Item.tok "MMM".toList] ∧
    tokenize "dddd".toList = [Item.tok "dddd".toList] ∧ tokenize "ddd".toList = [Item.tok "ddd".toList] ∧
    tokenize "dd".toList = [Item.tok "dd".toList] := by
  refine ⟨?_, single_token_formats⟩
  have h1 := months_wide_rt; have h2 := months_abbr_rt; have h3 := days_wide_rt; have h4 := days_abbr_rt; have h5 := days_short_rt
  simp only [List.all_eq_true, Bool.and_eq_true] at h1 h2 h3 h4 h5 ⊢
  intro L hL
  exact ⟨⟨⟨⟨h1 L hL, h2 L hL⟩, h3 L hL⟩, h4 L hL⟩, h5 L hL⟩

/-! ## non-vacuity and the recorded finding -/

/-- a value of the domain with a negative sub-hour offset -/
def sample : Val := ⟨2021, 3, 5, 14, 7, 9, 123456, -1800, "-00:30".toList, "-00:30".toList⟩

example : InRange sample := ⟨by decide, by decide, by decide, by decide, by decide, by decide, by decide, by decide⟩
/-- … a valid date inside the two-digit-year window (hypotheses of `roundtrip_day_of_year`, `roundtrip_two_digit_year`) -/
example : Cal.validDate sample.y sample.mo sample.d ∧ 1969 ≤ sample.y ∧ sample.y ≤ 2068 := by decide

example : format Gen.FormatLocales.loc_en sample "YYYY-MM-DD[T]HH:mm:ss.SSSSSS Z ZZ [Q]Q DDDD E d hh A X".toList
    = .ok "2021-03-05T14:07:09.123456 -00:30 -0030 Q1 064 5 5 02 PM 1614955029".toList := by decide +kernel

example : parse Gen.FormatLocales.loc_en "2021-03-05T14:07:09.123456-00:30".toList Gen.py_ISO8601_EXTENDED.toList ⟨1999, 12, 31⟩
    = .ok ⟨2021, 3, 5, 14, 7, 9, 123456, some (TzP.fixed (-1800))⟩ := by decide +kernel

example : WellSep [.tok .D, .lit '/', .tok .M, .lit '/', .tok .YYYY, .lit ' ', .tok .H, .lit ':', .tok .mm, .lit ':', .tok .s, .lit '.',
    .tok .SSSSSS, .tok .ZZ] = true ∧ Full [.tok .D, .lit '/', .tok .M, .lit '/', .tok .YYYY, .lit ' ', .tok .H, .lit ':', .tok .mm,
    .lit ':', .tok .s, .lit '.', .tok .SSSSSS, .tok .ZZ] = true := by decide

example : WellSep [.tok .DD, .lit '/', .tok .MM, .lit '/', .tok .YY, .lit ' ', .tok .h, .lit ':', .tok .mm, .lit ':', .tok .ss, .lit '.',
    .tok .S, .lit ' ', .tok .A, .lit ' ', .tok .ZZ] = true ∧ FullX [.tok .DD, .lit '/', .tok .MM, .lit '/', .tok .YY, .lit ' ', .tok .h,
    .lit ':', .tok .mm, .lit ':', .tok .ss, .lit '.', .tok .S, .lit ' ', .tok .A, .lit ' ', .tok .ZZ] .S = true := by decide

/-- the extended class at work: midnight hour on the 12-hour clock, day 64 of the year, two-digit year, milliseconds -/
example : format Gen.FormatLocales.loc_en ⟨2021, 3, 5, 0, 7, 9, 123456, -1800, "-00:30".toList, "-00:30".toList⟩
      "YY DDDD hh:mm:ss.SSS A Z".toList = .ok "21 064 12:07:09.123 AM -00:30".toList ∧
    parse Gen.FormatLocales.loc_en "21 064 12:07:09.123 AM -00:30".toList "YY DDDD hh:mm:ss.SSS A Z".toList ⟨1999, 12, 31⟩
      = .ok ⟨2021, 3, 5, 0, 7, 9, 123000, some (TzP.fixed (-1800))⟩ := by decide +kernel

example : AmPmOK Gen.FormatLocales.loc_en = true ∧ NoRepeat [.tok .HH, .lit ' ', .tok .A] = true := by decide
/-- `hour24_with_meridiem` is not vacuous: the state read from `"13 PM"` / `HH A` -/
example : checkParsed { hour := some 13, meridiem := some true } ⟨2000, 1, 1⟩ = .error "ValueError" ∧
    checkParsed { hour := some 11, meridiem := some true } ⟨2000, 1, 1⟩ = .ok ⟨2000, 1, 1, 23, 0, 0, 0, none⟩ := by decide +kernel

/-- defaults: only a time of day was read -/
example : checkParsed { hour := some 12, minute := some 30 } ⟨2015, 11, 12⟩ = .ok ⟨2015, 11, 12, 12, 30, 0, 0, none⟩ := by decide +kernel
/-- defaults: only a year was read -/
example : checkParsed { year := some 1999 } ⟨2015, 11, 12⟩ = .ok ⟨1999, 1, 1, 0, 0, 0, 0, none⟩ := by decide +kernel

/-- mismatch: a separator replaced, trailing text, a trailing newline -/
example : parse Gen.FormatLocales.loc_en "2021/03-05".toList "YYYY-MM-DD".toList ⟨2000, 1, 1⟩ = .error "ValueError" ∧
    parse Gen.FormatLocales.loc_en "2021-03-05 x".toList "YYYY-MM-DD".toList ⟨2000, 1, 1⟩ = .error "ValueError" ∧
    parse Gen.FormatLocales.loc_en "2021-03-05\n".toList "YYYY-MM-DD".toList ⟨2000, 1, 1⟩ = .error "ValueError" := by decide +kernel

/-- F13 (repaired): a three-part zone name is read by the `z` token -/
example : parse Gen.FormatLocales.loc_en "2021-03-05 America/Argentina/Buenos_Aires".toList "YYYY-MM-DD z".toList ⟨2000, 1, 1⟩
    = .ok ⟨2021, 3, 5, 0, 0, 0, 0, some (TzP.named "America/Argentina/Buenos_Aires".toList)⟩ := by decide +kernel

/-- **recorded finding F30** (why `d` is not a token of the class): `format()` writes Friday 2021-03-05 as `5` (Sunday = 0) and
    `Formatter.parse` reads `5` as Saturday (Monday = 0), so the round trip of a full date plus `d` lands on the next day -/
theorem d_token_counterexample :
    format Gen.FormatLocales.loc_en sample "YYYY-MM-DD d".toList = .ok "2021-03-05 5".toList ∧
    parse Gen.FormatLocales.loc_en "2021-03-05 5".toList "YYYY-MM-DD d".toList ⟨2000, 1, 1⟩
      = .ok ⟨2021, 3, 6, 0, 0, 0, 0, none⟩ := by decide +kernel

/-! ### ---- BEGIN section added by the `Gen/Getters` translator (tools/gen_getters.py) ----
the `to_*_string()` helpers as regenerated statement by statement from datetime.py -/

/-- **the `to_*_string()` helpers of the source dispatch as the model does**: `Gen.Getters.dt_to_<x>_string` (regenerated from
    the method bodies of datetime.py with `_to_string`, the `_FORMATS` lookup, the `callable` test and `FormattableMixin.format`
    inlined) hands `Formatter.format` / `isoformat("T")` exactly the format string and locale that `Fmt.toStringHelper` takes
    from the tables of `Gen/Format.lean` (`GettersGen.helperReq` is that dispatch written as the call it makes), for every
    helper, every instance and every implementation `E` of the formatter; the two translators list the same 14 helpers -/
theorem to_string_dispatch_source {O : Type} (E : Gen.Getters.Ext O) (self : Gen.Getters.Inst O) :
    (Gen.Getters.dt_to_string_helpers (O := O)).map (·.1) = Gen.Format.toStringHelpers.map (·.1) ∧
    (Gen.Getters.dt_to_string_helpers (O := O)).map (fun p => some (p.2 E self)) =
      Gen.Format.toStringHelpers.map (GettersGen.helperReq E self) ∧
    -- the documented compositions, helper by helper (constants of constants.py)
    (Gen.Getters.dt_to_string_helpers (O := O)).map (fun p => (p.1, p.2 E self)) =
      [("to_time_string", E.dt_format self.obj "HH:mm:ss" none),
       ("to_datetime_string", E.dt_format self.obj "YYYY-MM-DD HH:mm:ss" none),
       ("to_day_datetime_string", E.dt_format self.obj "ddd, MMM D, YYYY h:mm A" (some "en")),
       ("to_atom_string", E.dt_format self.obj Gen.py_ATOM none),
       ("to_cookie_string", E.dt_format self.obj Gen.py_COOKIE (some "en")),
       ("to_iso8601_string", GettersGen.iso8601Req E self),
       ("to_rfc822_string", E.dt_format self.obj Gen.py_RFC822 none),
       ("to_rfc850_string", E.dt_format self.obj Gen.py_RFC850 none),
       ("to_rfc1036_string", E.dt_format self.obj Gen.py_RFC1036 none),
       ("to_rfc1123_string", E.dt_format self.obj Gen.py_RFC1123 none),
       ("to_rfc2822_string", E.dt_format self.obj Gen.py_RFC2822 none),
       ("to_rfc3339_string", E.dt_isoformat self.obj (some "T")),
       ("to_rss_string", E.dt_format self.obj Gen.py_RSS none),
       ("to_w3c_string", E.dt_format self.obj Gen.py_W3C none)] :=
  ⟨(GettersGen.to_string_dispatch E self).1, (GettersGen.to_string_dispatch E self).2,
   GettersGen.to_string_documented E self⟩

/-- non-vacuity: the named format reaches the formatter, the callable entries reach `isoformat("T")` -/
example : GettersGen.helperReq GettersGen.refExt (GettersGen.refExt.view 0) ("to_rss_string", "named", "rss", "") =
    some (GettersGen.refExt.dt_format 0 "ddd, DD MMM YYYY HH:mm:ss ZZ" none) := by decide +kernel
/-! ### ---- END section added by the `Gen/Getters` translator ---- -/
/-! ## the control flow of `Formatter.format` / `Formatter.parse`, regenerated from formatter.py, equals the hand model

`Gen.Formatter.*` is regenerated on every run by tools/gen_formatter.py from the *statements* of formatter.py (and of the
wrappers in mixins/default.py / __init__.py); the theorems below prove it equal to the hand model for all inputs, under
explicit hypotheses on what the code calls from outside (`FormatterGen.refOps re L find deflt now`: the locale object as the
record `L`, `int()` as `intOf`, floats as `parseTimestamp`, `re.fullmatch` of the assembled pattern as the model's
recognisers and matcher, DateTime arithmetic as the reference calendar; `re` = `_FORMAT_RE` applied to a format, with
`FormatterGen.SegsOk re fmt`: its matches read as the model's token list).  An edit of the translated source changes the
generated definition and breaks the proof (the build names the theorem), an edit outside the subset is a fallback. -/

section source_eq_model
open Pendulum.FormatterGen
open Pendulum.Gen.Formatter (LocArg PDict VDict PatEl Segs)
variable (re : Str → Segs) (L : Loc) (find : String → Option Loc) (deflt : String) (now : Now)

/-- the two compiled regular expressions and the module-level `Formatter()` objects the parameters stand for -/
theorem formatter_regex_pinned :
    Gen.Formatter.FORMAT_RE_source = "re.compile(_TOKENS)" ∧
    Gen.Formatter.FROM_FORMAT_RE_source = "re.compile('(?<!\\\\\\\\\\\\[)' + _TOKENS + '(?!\\\\\\\\\\\\])')" ∧
    Gen.Formatter.formatter_objects = "Formatter() / Formatter()" := by decide

/-- **`_format_token` / `_format_localizable_token`** (branch order, `Do`/`dddd`/`MMMM`/`A`/`e`/`eo`…, the `Z`/`ZZ` arithmetic):
    a date-format token (`LT` … `LLLL`) recurses into `self.format` with the locale's (else the default) format string, any
    other token is rendered as the model's `formatToken` does -/
theorem format_token_source_eq_model (sf : DTF → Str → LocArg Loc → Except String Str) (l : Loc) (dt : DTF) (tok : String) :
    Gen.Formatter.format_token sf (refOps re L find deflt now) dt tok l =
      (if isDateFormat tok then sf dt (dateFormatOf l tok).toList (LocArg.obj l) else formatToken l dt tok) ∧
    Gen.Formatter.format_localizable_token (refOps re L find deflt now) dt tok l = formatLocalizable l dt tok :=
  ⟨format_token_tie sf re L l find deflt now dt tok, format_localizable_tie re L l find deflt now dt tok⟩

/-- **`Formatter.format`** (the `_FORMAT_RE.sub` callback: `[...]` text, `\c`, tokens; recursion through the date formats, fuel
    `n + 1` = `n` levels of expansion): the generated method equals `formatItems` on the expanded token list -/
theorem format_source_eq_model (hre : ∀ f, SegsOk re f) (l : Loc) (la : LocArg Loc)
    (hla : (refOps re L find deflt now).Locale_load (LocArg.or la (LocArg.name deflt)) = .ok l) (dt : DTF) (n : Nat) (fmt : Str) :
    Gen.Formatter.format (refOps re L find deflt now) (n + 1) dt fmt la =
      formatItems l dt (expandItems l n (tokenize fmt)) :=
  format_tie_arg re hre L l find deflt now dt la hla n fmt

/-- **`DateTime.format(fmt, locale=None)`** = the model's `format` in the locale the argument (else `pendulum.get_locale()`) names -/
theorem datetime_format_source_eq_model (hre : ∀ f, SegsOk re f) (l : Loc) (v : Val) (locale : Option String)
    (hl : find (Gen.Formatter.optStringOr locale deflt) = some l) (fmt : Str) :
    Gen.Formatter.datetime_format (refOps re L find deflt now) 4 v.toDTF fmt locale = Fmt.format l v fmt :=
  datetime_format_tie re hre L l find deflt now v locale hl fmt

/-- **`_check_parsed`** (timestamp branch, quarter loop, day-of-year, day-of-week, the meridiem block with the repaired
    `(h, mi or 0, s or 0, us or 0) >= (13, 0, 0, 0)` test, defaults from `now`, the returned dictionary): equal to
    `checkParsed` for every state of `parsed` (a timestamp with its microseconds in range), every `now` and enough loop fuel -/
theorem check_parsed_source_eq_model (fuel : Nat) (g : PDict (Int × Int) TzP) (hf : 40000 ≤ fuel)
    (hnow : 1 ≤ now.year ∧ now.year ≤ 9999) (hts : ∀ f, g.timestamp = some f → 0 ≤ f.2 ∧ f.2 < 1000000) :
    Gen.Formatter.check_parsed (refOps re L find deflt now) fuel g (DV.ofNow now) =
      mapE ofResult (checkParsed (toParsed g) now) :=
  check_parsed_tie re L find deflt now fuel g hf hnow hts

/-- **`_get_parsed_value`**, every token: the `if/elif` chain (year pivot for `YY`, 12-hour check, fraction scaling through
    `_PARSE_TOKENS`, `X`/`x`, offsets, `z` validation) equals `applyKind (classify tok)` -/
theorem parsed_value_source_eq_model (g : PDict (Int × Int) TzP) (tok : String) (v : Str) :
    mapE toParsed (Gen.Formatter.get_parsed_value (refOps re L find deflt now) tok v g (DV.ofNow now)) =
      match Gen.Format.parseKind tok with
      | none => .error "KeyError"
      | some kind => applyKind (classify tok) kind v (toParsed g) :=
  get_parsed_value_tie re L find deflt now g tok v

/-- **`_get_parsed_locale_value`** (month / day names, `Do`, `A`/`a`) equals `applyLocalized`; an `a` value is lower-case
    already, a `Do` value starts with a digit (what the groups of the pattern guarantee) -/
theorem parsed_locale_value_source_eq_model (g : PDict (Int × Int) TzP) (tok : String) (v : Str)
    (hlow : tok = "a" → (refOps re L find deflt now).str_lower v = v)
    (hL : L.pm = L.am → L.pmLower = L.amLower) (hDo : tok = "Do" → (v.takeWhile Char.isDigit) ≠ []) :
    mapE toParsed (Gen.Formatter.get_parsed_locale_value (refOps re L find deflt now) tok v g L) =
      applyLocalized L tok v (toParsed g) :=
  get_parsed_locale_value_tie re L find deflt now g tok v hlow hL hDo

/-- **`_get_parsed_values`**: the loop over the groups and the dispatch on `_LOCALIZABLE_TOKENS` equal `applyGroups` -/
theorem parsed_values_source_eq_model (hL : L.pm = L.am → L.pmLower = L.amLower) (m : List (String × Str))
    (g : PDict (Int × Int) TzP) (hm : GroupsOk re L find deflt now m) :
    mapE toParsed (Gen.Formatter.get_parsed_values (refOps re L find deflt now) m g L (DV.ofNow now)) =
      applyGroups L m (toParsed g) :=
  get_parsed_values_tie re L find deflt now hL m g hm

/-- **`_replace_tokens`** (+ the lambdas of `_LOCALIZABLE_TOKENS`): for every alternative of `_TOKENS`, the exception the model's
    `groupOf` has, else the named group with the alternatives the model's recogniser was written for -/
theorem replace_tokens_source_eq_model (hL : L.pm = L.am → L.pmLower = L.amLower) (hN : NamesOk L) (tok : String)
    (htok : tok ∈ Gen.Format.tokenAlts) :
    ReplOk L tok (Gen.Formatter.replace_tokens (refOps re L find deflt now) tok L) :=
  replace_tokens_tie re L find deflt now hL hN tok htok

/-- **`Formatter.parse`** (the `findall` check, locale resolution, pattern assembly from `re.escape`d text and
    `_replace_tokens`, `re.fullmatch` with its duplicate-group error, `_get_parsed_values`, `_check_parsed`) equals the model's
    `parse`.  `hne`: the format has at least one match of `_FORMAT_RE` or is empty (for a format made of unmatched characters
    only, the source raises `ValueError` where the model goes on — see the report); `MatchOk`: what the final match guarantees
    about the `a`, `Do`, `X`, `x` values -/
theorem parse_source_eq_model (fuel : Nat) (hf : 40000 ≤ fuel) (hnow : 1 ≤ now.year ∧ now.year ≤ 9999)
    (hL : L.pm = L.am → L.pmLower = L.amLower) (hN : NamesOk L) (time fmt : Str) (locale : Option String)
    (hloc : find (Gen.Formatter.optStringOr locale deflt) = some L)
    (hseg : SegsOk re fmt) (hne : (re fmt).ms = [] → (re fmt).tail = [])
    (hmatch : MatchOk re L find deflt now time (tokenize fmt)) :
    Gen.Formatter.parse (refOps re L find deflt now) fuel time fmt (DV.ofNow now) locale =
      mapE ofResult (Fmt.parse L time fmt now) :=
  parse_tie re L find deflt now fuel hf hnow hL hN time fmt locale hloc hseg hne hmatch

/-- **`pendulum.from_format(string, fmt, tz, locale)`** = `Formatter.parse` with `now = pendulum.now(tz)`, the `tz` argument
    where the string carried no zone, then `pendulum.datetime(**parts)` -/
theorem from_format_wrapper_source_eq_model (fuel : Nat) (hf : 40000 ≤ fuel) (hnow : 1 ≤ now.year ∧ now.year ≤ 9999)
    (hL : L.pm = L.am → L.pmLower = L.amLower) (hN : NamesOk L) (string fmt : Str) (tz : TzP) (locale : Option String)
    (hloc : find (Gen.Formatter.optStringOr locale deflt) = some L)
    (hseg : SegsOk re fmt) (hne : (re fmt).ms = [] → (re fmt).tail = [])
    (hmatch : MatchOk re L find deflt now string (tokenize fmt)) :
    Gen.Formatter.from_format (refOps re L find deflt now) fuel string fmt tz locale =
      fromFormatSpec L string fmt tz now :=
  from_format_tie re L find deflt now fuel hf hnow hL hN string fmt tz locale hloc hseg hne hmatch

end source_eq_model

/-! the hypotheses of the tie theorems are satisfiable -/

/-- `SegsOk` / `hne` hold for the segmentation read off the model's tokenizer, for every format -/
example (fmt : Str) : FormatterGen.SegsOk (fun f => FormatterGen.refSegs (tokenize f)) fmt ∧
    ((FormatterGen.refSegs (tokenize fmt)).ms = [] → (FormatterGen.refSegs (tokenize fmt)).tail = []) :=
  ⟨FormatterGen.refSegs_ok fmt, FormatterGen.refSegs_tail fmt⟩

/-- the locale hypotheses (`NamesOk`, distinct meridiem words) hold for each of the 27 shipped locales -/
theorem shipped_locales_ok :
    (Gen.FormatLocales.all.all fun L => !L.monthsWide.isEmpty && !L.monthsAbbr.isEmpty && !L.daysWide.isEmpty &&
      !L.daysAbbr.isEmpty && !L.daysShort.isEmpty && L.pm != L.am) = true := by decide +kernel

/-- `MatchOk` for `YYYY-MM-DD` on `2021-03-05`, and the instantiated tie: the generated `Formatter.parse` returns the date -/
example : Gen.Formatter.parse (FormatterGen.refOps (fun f => FormatterGen.refSegs (tokenize f)) Gen.FormatLocales.loc_en
      Gen.FormatLocales.find "en" ⟨2000, 1, 1⟩) 40000 "2021-03-05".toList "YYYY-MM-DD".toList
      (FormatterGen.DV.ofNow ⟨2000, 1, 1⟩) none =
    .ok (FormatterGen.ofResult ⟨2021, 3, 5, 0, 0, 0, 0, none⟩) := by
  have hm : FormatterGen.MatchOk (fun f => FormatterGen.refSegs (tokenize f)) Gen.FormatLocales.loc_en Gen.FormatLocales.find "en"
      ⟨2000, 1, 1⟩ "2021-03-05".toList (tokenize "YYYY-MM-DD".toList) := by
    intro els ns hels hd
    have e1 : elsOf Gen.FormatLocales.loc_en (pelsOf (tokenize "YYYY-MM-DD".toList)) =
        .ok [fun s => lensD 1 4 s ++ lensD 4 4 s, litEl '-', fun s => lensD 1 2 s ++ lensD 2 2 s, litEl '-',
             fun s => lensPad s ++ lensD 2 2 s] := by rfl
    rw [e1] at hels
    cases hels
    have e2 : dfs (fun s => s.isEmpty) [fun s => lensD 1 4 s ++ lensD 4 4 s, litEl '-', fun s => lensD 1 2 s ++ lensD 2 2 s,
        litEl '-', fun s => lensPad s ++ lensD 2 2 s] "2021-03-05".toList = some [4, 1, 2, 1, 2] := by decide +kernel
    rw [e2] at hd
    cases hd
    have e3 : groupValues (pelsOf (tokenize "YYYY-MM-DD".toList)) [4, 1, 2, 1, 2] "2021-03-05".toList =
        [("YYYY", "2021".toList), ("MM", "03".toList), ("DD", "05".toList)] := by decide +kernel
    rw [e3]
    constructor
    · intro t v h
      simp only [List.mem_cons, Prod.mk.injEq, List.not_mem_nil, or_false] at h
      rcases h with ⟨rfl, _⟩ | ⟨rfl, _⟩ | ⟨rfl, _⟩ <;> exact ⟨fun h => absurd h (by decide), fun h => absurd h (by decide)⟩
    · intro p f hp hf
      have e4 : applyGroups Gen.FormatLocales.loc_en [("YYYY", "2021".toList), ("MM", "03".toList), ("DD", "05".toList)] {} =
          .ok { year := some 2021, month := some 3, day := some 5 } := by rfl
      rw [e4] at hp
      cases hp
      cases hf
  rw [parse_source_eq_model _ Gen.FormatLocales.loc_en Gen.FormatLocales.find "en" ⟨2000, 1, 1⟩ 40000 (by decide) (by decide)
    (by decide) (by unfold FormatterGen.NamesOk; decide) _ _ none rfl (FormatterGen.refSegs_ok _) (FormatterGen.refSegs_tail _) hm]
  have : Fmt.parse Gen.FormatLocales.loc_en "2021-03-05".toList "YYYY-MM-DD".toList ⟨2000, 1, 1⟩ =
      .ok ⟨2021, 3, 5, 0, 0, 0, 0, none⟩ := by decide +kernel
  rw [this]; rfl

/-- `_check_parsed`, instantiated on the state read from `"13 PM"` / `HH A` and on a quarter -/
example : Gen.Formatter.check_parsed (FormatterGen.refOps (fun f => FormatterGen.refSegs (tokenize f)) Gen.FormatLocales.loc_en
      Gen.FormatLocales.find "en" ⟨2000, 1, 1⟩) 40000 { hour := some 13, meridiem := some "pm".toList }
      (FormatterGen.DV.ofNow ⟨2000, 1, 1⟩) = .error "ValueError" := by
  rw [check_parsed_source_eq_model _ _ _ _ _ 40000 _ (by decide) (by decide) (by intro f h; cases h)]
  have : checkParsed (FormatterGen.toParsed { hour := some 13, meridiem := some "pm".toList }) ⟨2000, 1, 1⟩ = .error "ValueError" := by
    decide +kernel
  rw [this]; rfl

end Pendulum.Props.C08
