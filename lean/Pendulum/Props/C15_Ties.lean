import Pendulum.Props.C15
import Pendulum.Proofs.LocalTimeGen
import Pendulum.Proofs.GettersRef
import Pendulum.Drv.C15
/-! # C15 — tie theorems: the definitions regenerated from the source on every run (`Gen/*.lean`) equal the hand model
the theorems of `Props/C15.lean` are about. Kept in a module of its own so that a broken tie stops this module only:
the hand-model theorems of `Props/C15.lean`, which other properties import, keep building. Same namespace; the axiom audit
enumerates both modules. -/
namespace Pendulum.Props.C15
open Pendulum Pendulum.Cal Pendulum.C15
open Pendulum.GettersGen (ValidD refExt)

/-! ### `local_time` as regenerated from the two sources -/

/-- **source = model, both backends**: the definitions regenerated from `_helpers.py::local_time` and from
    `rust/src/helpers.rs::local_time` (statement by statement, loops from their own bodies) equal the hand model for
    ALL integer timestamps and offsets — no range hypothesis -/
theorem local_time_source_eq_model :
    (∀ t off : Int, Gen.py_local_time t off = LocalTime.localTime false LocalTime.pyTbl t off) ∧
    (∀ t off : Int, Gen.rs_local_time t off = LocalTime.localTime true LocalTime.rsTbl t off) :=
  ⟨LocalTimeGen.py_local_time_eq_model, LocalTimeGen.rs_local_time_eq_model⟩

/-- the cut of the generated `while` loops (64) is immaterial: every cut from 40 on gives the same result, i.e. all four
    loops of both sources are left through their own condition, for every input -/
theorem local_time_source_cut_immaterial (F : Nat) (hF : 40 ≤ F) (t off : Int) :
    Gen.py_local_time_fuel F t off = Gen.py_local_time t off ∧ Gen.rs_local_time_fuel F t off = Gen.rs_local_time t off :=
  ⟨LocalTimeGen.py_local_time_fuel_indep F hF t off, LocalTimeGen.rs_local_time_fuel_indep F hF t off⟩

/-- **`local_time_spec` about the regenerated Python code**: valid civil date with ordinal
    `ordinal(1970-01-01) + ⌊(t+off)/86400⌋`, h:m:s = `(t+off) mod 86400`, every integer `t`, `off` -/
theorem local_time_source_spec (t off : Int) :
    let r := Gen.py_local_time t off
    validDate r.1 r.2.1 r.2.2.1 ∧ ymd2ord r.1 r.2.1 r.2.2.1 = epochOrd + (t + off) / 86400 ∧
    r.2.2.2.1 * 3600 + r.2.2.2.2.1 * 60 + r.2.2.2.2.2 = (t + off) % 86400 ∧
    0 ≤ r.2.2.2.1 ∧ r.2.2.2.1 < 24 ∧ 0 ≤ r.2.2.2.2.1 ∧ r.2.2.2.2.1 < 60 ∧ 0 ≤ r.2.2.2.2.2 ∧ r.2.2.2.2.2 < 60 := by
  rw [LocalTimeGen.py_local_time_eq_model]
  exact LocalTime.localTime_py_spec t off

/-- the same about the regenerated Rust code -/
theorem local_time_source_rs_spec (t off : Int) :
    let r := Gen.rs_local_time t off
    validDate r.1 r.2.1 r.2.2.1 ∧ ymd2ord r.1 r.2.1 r.2.2.1 = epochOrd + (t + off) / 86400 ∧
    r.2.2.2.1 * 3600 + r.2.2.2.2.1 * 60 + r.2.2.2.2.2 = (t + off) % 86400 ∧
    0 ≤ r.2.2.2.1 ∧ r.2.2.2.1 < 24 ∧ 0 ≤ r.2.2.2.2.1 ∧ r.2.2.2.2.1 < 60 ∧ 0 ≤ r.2.2.2.2.2 ∧ r.2.2.2.2.2 < 60 := by
  rw [LocalTimeGen.rs_local_time_eq_model, LocalTime.localTime_rs_eq]
  exact LocalTime.localTime_py_spec t off

/-- the civil date computed by the regenerated Python code is *the* date with that ordinal -/
theorem local_time_source_date (t off : Int) :
    let r := Gen.py_local_time t off
    (r.1, r.2.1, r.2.2.1) = ord2ymd (epochOrd + (t + off) / 86400) := by
  rw [LocalTimeGen.py_local_time_eq_model]
  exact local_time_date t off

/-- **`local_time_rs_eq_py` about the regenerated code**: the Rust source and the Python source compute the same
    broken-down time for every integer timestamp and offset -/
theorem local_time_source_rs_eq_py (t off : Int) : Gen.rs_local_time t off = Gen.py_local_time t off := by
  rw [LocalTimeGen.rs_local_time_eq_model, LocalTimeGen.py_local_time_eq_model]
  exact LocalTime.localTime_rs_eq t off

/-! ### Date getters that are computed by pendulum itself -/

/-- `week_of_month = ceil((day + first_of_month.isoweekday() - 1) / 7)` as integer arithmetic: the 1-based index of the
    Monday-started calendar row that contains the day -/
theorem week_of_month_rows (d wd1 : Int) (hd : 1 ≤ d) (hw : 1 ≤ wd1 ∧ wd1 ≤ 7) :
    (d + wd1 - 1 + 6) / 7 = (d + wd1 - 2) / 7 + 1 := by omega

/-- `quarter = ceil(month / 3)` as integer arithmetic -/
theorem quarter_spec (m : Int) (hm : 1 ≤ m ∧ m ≤ 12) : (m + 2) / 3 = (m - 1) / 3 + 1 ∧ 1 ≤ (m + 2) / 3 ∧ (m + 2) / 3 ≤ 4 := by
  omega


/-! ### the getters as regenerated from date.py / datetime.py / day.py / helpers.py (tools/gen_getters.py)

`Gen.Getters.date_<m> E self` / `dt_<m> E self` are regenerated statement by statement on every run; `E : Ext O` holds what
is not pendulum source (the standard library, other pendulum modules). `GettersGen.StdOk E` says that the standard
library's calendar functions are the reference calendar `Cal` on valid dates of years 1..9999, `DateOk` / `DtOk` what the
hand models say about intervals, `add`, comparisons; `GettersGen.refExt` satisfies all of them. -/

section Getters
open Pendulum.Gen.Getters Pendulum.GettersGen Pendulum.Getters
variable {O : Type}

/-- **source = specification, all eight getters of the property**: on every valid date of years 1..9999 the regenerated
    `day_of_week`, `day_of_year`, `week_of_year`, `week_of_month`, `days_in_month`, `quarter`, `is_leap_year`,
    `is_long_year` are the standard library's proleptic Gregorian answers -/
theorem getters_source_eq_model (E : Ext O) (hE : StdOk E) (d : D) (hv : ValidD d) :
    date_day_of_week E d = .ok (isoweekday d.year d.month d.day - 1) ∧
    date_day_of_year E d = daysBeforeMonth (isLeap d.year) d.month + d.day ∧
    date_week_of_year E d = (isoCalendar d.year d.month d.day).2.1 ∧
    date_week_of_month E d = (d.day + isoweekday d.year d.month 1 - 2) / 7 + 1 ∧
    date_days_in_month E d = daysInMonth d.year d.month ∧
    date_quarter E d = (d.month - 1) / 3 + 1 ∧
    date_is_leap_year E d = isLeap d.year ∧
    date_is_long_year E d = decide (isoWeeksInYear d.year = 53) :=
  ⟨day_of_week_eq E hE d hv, day_of_year_eq E hE d hv, week_of_year_eq E hE d hv, week_of_month_eq E hE d hv,
   days_in_month_eq E hE d hv, quarter_eq E d, is_leap_year_eq E hE d, is_long_year_eq E hE d hv⟩

theorem day_of_week_source_eq_model (E : Ext O) (hE : StdOk E) (d : D) (hv : ValidD d) :
    date_day_of_week E d = .ok (dayOfWeek d.year d.month d.day) := day_of_week_eq E hE d hv

theorem day_of_year_source_eq_model (E : Ext O) (hE : StdOk E) (d : D) (hv : ValidD d) :
    date_day_of_year E d = dayOfYear d.year d.month d.day ∧
    date_day_of_year E d = Gen.date_day_of_year (isLeap d.year) d.month d.day := by
  refine ⟨day_of_year_eq E hE d hv, ?_⟩
  rw [day_of_year_eq E hE d hv, day_of_year_spec _ _ _ ⟨hv.2.2.1, hv.2.2.2.1⟩]; rfl

theorem week_of_year_source_eq_model (E : Ext O) (hE : StdOk E) (d : D) (hv : ValidD d) :
    date_week_of_year E d = (isoCalendar d.year d.month d.day).2.1 := week_of_year_eq E hE d hv

theorem week_of_month_source_eq_model (E : Ext O) (hE : StdOk E) (d : D) (hv : ValidD d) :
    date_week_of_month E d = weekOfMonth d.year d.month d.day := week_of_month_eq E hE d hv

theorem days_in_month_source_eq_model (E : Ext O) (hE : StdOk E) (d : D) (hv : ValidD d) :
    date_days_in_month E d = daysInMonth d.year d.month := days_in_month_eq E hE d hv

theorem quarter_source_eq_model (E : Ext O) (d : D) : date_quarter E d = quarter d.month := quarter_eq E d

theorem is_leap_year_source_eq_model (E : Ext O) (hE : StdOk E) (d : D) :
    date_is_leap_year E d = isLeap d.year ∧ date_is_leap_year E d = Gen.is_leap d.year :=
  ⟨is_leap_year_eq E hE d, by rw [is_leap_year_eq E hE d, is_leap_iff]⟩

/-- `Date.is_long_year()` (via December 28th) agrees with the helper `is_long_year` of `_helpers.py` -/
theorem is_long_year_source_eq_model (E : Ext O) (hE : StdOk E) (d : D) (hv : ValidD d) :
    date_is_long_year E d = decide (isoWeeksInYear d.year = 53) ∧ date_is_long_year E d = Gen.is_long_year d.year := by
  refine ⟨is_long_year_eq E hE d hv, ?_⟩
  rw [is_long_year_eq E hE d hv]
  by_cases h : isoWeeksInYear d.year = 53
  · rw [decide_eq_true h, (is_long_year_iff d.year).mpr h]
  · rw [decide_eq_false h]
    cases hl : Gen.is_long_year d.year
    · rfl
    · exact absurd ((is_long_year_iff d.year).mp hl) h

/-- **source = the model the correspondence run tests**: the list of regenerated getters is the answer of the C15
    driver (`Drv/C15.lean::getters`, compared with the real code on every run) -/
theorem getters_source_eq_driver (E : Ext O) (hE : StdOk E) (d : D) (hv : ValidD d) :
    [date_day_of_week E d, .ok (date_day_of_year E d), .ok (date_week_of_year E d), .ok (date_week_of_month E d),
     .ok (date_days_in_month E d), .ok (date_quarter E d), .ok (Drv.b2i (date_is_leap_year E d)),
     .ok (Drv.b2i (date_is_long_year E d))] = (Drv.C15.getters d.year d.month d.day).map Except.ok := by
  obtain ⟨h1, h2, h3, h4, h5, h6, h7, h8⟩ := getters_source_eq_model E hE d hv
  have e2 := (day_of_year_source_eq_model E hE d hv).2
  have hr := isoweekday_range d.year d.month 1
  rw [h1, e2, h3, h4, h5, h6, h7, h8, dec28_week d.year |>.symm]
  simp only [Drv.C15.getters, List.map_cons, List.map_nil]
  have a : (d.day + isoweekday d.year d.month 1 - 2) / 7 + 1 = (d.day + isoweekday d.year d.month 1 - 1 + 6) / 7 := by omega
  have b : (d.month - 1) / 3 + 1 = (d.month + 2) / 3 := by omega
  rw [a, b]
  rcases hi : isoCalendar d.year d.month d.day with ⟨i1, i2, i3⟩
  rcases hj : isoCalendar d.year 12 28 with ⟨j1, j2, j3⟩
  have e53 : (j2 == 53) = decide (j2 = 53) := by rw [Bool.eq_iff_iff]; simp
  rw [e53]

/-- **`WeekDay`** (day.py): MONDAY = 0 … SUNDAY = 6, `WeekDay(v)` is defined exactly for 0..6; `day_of_week` maps the
    standard library's `weekday()` through it: Monday = 0 … Sunday = 6 of the proleptic Gregorian calendar -/
theorem weekday_enum_source :
    (∀ p : String × Int, p ∈ WeekDay_members ↔
      p ∈ [("MONDAY", 0), ("TUESDAY", 1), ("WEDNESDAY", 2), ("THURSDAY", 3), ("FRIDAY", 4), ("SATURDAY", 5),
           ("SUNDAY", (6 : Int))]) ∧
    (∀ v : Int, WeekDay_call v = if 0 ≤ v ∧ v ≤ 6 then .ok v else .error "ValueError") ∧
    (∀ (E : Ext O) (_ : StdOk E) (d : D) (_ : ValidD d), date_day_of_week E d = .ok (isoweekday d.year d.month d.day - 1)) :=
  ⟨weekday_members, weekday_call, fun E hE d hv => day_of_week_eq E hE d hv⟩

/-- the assumption `Gen/StartOf.lean` / `Gen/WeekNav.lean` make about their parameter `weekday` (C12, C16: the readings
    `weekday_at n := dow (ordinal + n)`, `weekday d := dow (ordinal d)`) is what the regenerated `day_of_week` computes -/
theorem day_of_week_source_eq_dow (E : Ext O) (hE : StdOk E) (d : D) (hv : ValidD d) :
    date_day_of_week E d = .ok (StartOf.dow (ymd2ord d.year d.month d.day)) ∧
    date_day_of_week E d = .ok (WeekNav.dow (ymd2ord d.year d.month d.day)) := by
  rw [day_of_week_eq E hE d hv]
  simp only [dayOfWeek, isoweekday, isoweekdayOrd, StartOf.dow, WeekNav.dow]
  exact ⟨by congr 1; omega, by congr 1; omega⟩

/-- **week globals** (helpers.py, __init__.py): `week_starts_at` / `week_ends_at` store exactly a weekday 0..6 and raise
    ValueError otherwise; the initial week is Monday … Sunday — so the week configuration always meets the range
    assumption `0 ≤ _WEEK_STARTS_AT, _WEEK_ENDS_AT ≤ 6` of the C12 tie theorems -/
theorem week_globals_source_eq_model (E : Ext O) (w : Int) :
    (helpers_week_starts_at E w = match setWeekDay w with
      | some v => .ok ⟨"_WEEK_STARTS_AT", v⟩ | none => .error "ValueError") ∧
    (helpers_week_ends_at E w = match setWeekDay w with
      | some v => .ok ⟨"_WEEK_ENDS_AT", v⟩ | none => .error "ValueError") ∧
    (∀ g, (helpers_week_starts_at E w = .ok g ∨ helpers_week_ends_at E w = .ok g) → 0 ≤ g.value ∧ g.value ≤ 6) ∧
    init_WEEK_STARTS_AT = 0 ∧ init_WEEK_ENDS_AT = 6 := by
  refine ⟨week_starts_at_eq E w, week_ends_at_eq E w, ?_, week_globals_init.1, week_globals_init.2⟩
  intro g hg
  rw [week_starts_at_eq, week_ends_at_eq] at hg
  unfold setWeekDay at hg
  by_cases h : 0 ≤ w ∧ w ≤ 6
  · simp only [h, and_self, if_true] at hg
    rcases hg with hg | hg <;> (cases hg; exact h)
  · simp only [h, if_false] at hg
    rcases hg with hg | hg <;> cases hg

/-- **`closest` / `farthest`**, Date (two candidates, the first only when strictly closer / farther — in days) and
    DateTime (any number of candidates after `instance()`: Python's `min` / `max` over `(abs(self - dt), dt)` is the model
    `pickBy` — the first candidate at the smallest / largest distance; none → ValueError) -/
theorem closest_farthest_source_eq_model (E : Ext O) (yb : D → D → Int) (hD : DateOk E yb) (instant : O → Int)
    (hT : DtOk E instant) (self dt1 dt2 : D)
    (hs : ValidD self) (h1 : ValidD dt1) (h2 : ValidD dt2) (I : Inst O) (dts : List O) :
    (date_closest E self dt1 dt2 = (if absI (ordD dt1 - ordD self) < absI (ordD dt2 - ordD self) then dt1 else dt2) ∧
     ordD (date_closest E self dt1 dt2) = closestDate (ordD self) (ordD dt1) (ordD dt2)) ∧
    (date_farthest E self dt1 dt2 = (if absI (ordD dt1 - ordD self) > absI (ordD dt2 - ordD self) then dt1 else dt2) ∧
     ordD (date_farthest E self dt1 dt2) = farthestDate (ordD self) (ordD dt1) (ordD dt2)) ∧
    dt_closest E I dts =
      (match pickBy (fun c => absI (instant I.obj - instant c)) false (dts.map E.dt_instance) with
       | none => .error "ValueError" | some c => .ok c) ∧
    dt_farthest E I dts =
      (match pickBy (fun c => absI (instant I.obj - instant c)) true (dts.map E.dt_instance) with
       | none => .error "ValueError" | some c => .ok c) :=
  ⟨date_closest_eq E yb hD self dt1 dt2 hs h1 h2, date_farthest_eq E yb hD self dt1 dt2 hs h1 h2,
   dt_closest_eq E instant hT I dts, dt_farthest_eq E instant hT I dts⟩

/-- what `DateTime.closest` / `farthest` return is one of the candidates (after `instance()`), and no candidate is
    strictly closer / farther from the instance (as elapsed time) -/
theorem closest_farthest_source_spec (E : Ext O) (instant : O → Int) (hE : DtOk E instant) (I : Inst O) (dts : List O) (r : O) :
    (dt_closest E I dts = .ok r → r ∈ dts.map E.dt_instance ∧
      ∀ c ∈ dts, absI (instant I.obj - instant r) ≤ absI (instant I.obj - instant c)) ∧
    (dt_farthest E I dts = .ok r → r ∈ dts.map E.dt_instance ∧
      ∀ c ∈ dts, absI (instant I.obj - instant c) ≤ absI (instant I.obj - instant r)) := by
  constructor
  · intro h
    rw [dt_closest_eq E instant hE] at h
    cases hp : pickBy (fun c => absI (instant I.obj - instant c)) false (dts.map E.dt_instance) with
    | none => rw [hp] at h; cases h
    | some c =>
      rw [hp] at h
      cases h
      obtain ⟨hm, hall⟩ := pickBy_spec _ _ _ _ hp
      refine ⟨hm, fun c hc => ?_⟩
      have := hall (E.dt_instance c) (List.mem_map_of_mem hc)
      simp only [Bool.false_eq_true, if_false, hE.instance_instant] at this
      exact this
  · intro h
    rw [dt_farthest_eq E instant hE] at h
    cases hp : pickBy (fun c => absI (instant I.obj - instant c)) true (dts.map E.dt_instance) with
    | none => rw [hp] at h; cases h
    | some c =>
      rw [hp] at h
      cases h
      obtain ⟨hm, hall⟩ := pickBy_spec _ _ _ _ hp
      refine ⟨hm, fun c hc => ?_⟩
      have := hall (E.dt_instance c) (List.mem_map_of_mem hc)
      simp only [if_true, hE.instance_instant] at this
      exact this

/-- **`average`**: Date — the date `int(days / 2)` days away (half of the signed day difference, rounded towards the
    instance); DateTime — the instant moved by `⌊elapsed µs / 2⌋`; the default argument is today / now -/
theorem average_source_eq_model (E : Ext O) (yb : D → D → Int) (hD : DateOk E yb) (instant : O → Int) (hT : DtOk E instant)
    (self : D) (dt : Option D) (hs : ValidD self) (hd : ValidD (dt.getD E.date_today))
    (hr : ValidD (dOf (averageDate (ordD self) (ordD (dt.getD E.date_today))))) (I : Inst O) (odt : Option O) :
    date_average E self dt = dOf (averageDate (ordD self) (ordD (dt.getD E.date_today))) ∧
    instant (dt_average E I odt) = averageInstant (instant I.obj) (instant (odt.getD (E.dt_now (dt_tz E I)))) :=
  ⟨date_average_eq E yb hD self dt hs hd hr, dt_average_eq E instant hT I odt⟩

/-- `age` (signed full years to today), `is_future` / `is_past` / `is_same_day`, `is_anniversary` / `is_birthday` of Date -/
theorem date_relations_source_eq_model (E : Ext O) (yb : D → D → Int) (hD : DateOk E yb) (self dt : D) (odt : Option D)
    (hs : ValidD self) (hd : ValidD dt) :
    date_age E self = yb self E.date_today ∧
    date_is_future E self = decide (ordD self > ordD E.date_today) ∧
    date_is_past E self = decide (ordD self < ordD E.date_today) ∧
    date_is_same_day E self dt = decide (self = dt) ∧
    date_is_anniversary E self odt =
      decide (self.month = (odt.getD E.date_today).month ∧ self.day = (odt.getD E.date_today).day) ∧
    date_is_birthday E self odt = date_is_anniversary E self odt :=
  ⟨date_age_eq E yb hD self hs, (date_compare_eq E yb hD self dt hs hd).1, (date_compare_eq E yb hD self dt hs hd).2.1,
   (date_compare_eq E yb hD self dt hs hd).2.2, (date_is_anniversary_eq E self odt).1, (date_is_anniversary_eq E self odt).2⟩

/-- the DateTime additions: `get_offset` / `offset` (whole seconds, None when naive), `offset_hours`, `float_timestamp`,
    `timezone` / `tz` / `timezone_name`, `is_utc` / `is_dst` / `is_local`, `date()`, `is_long_year` -/
theorem datetime_getters_source_eq_model (E : Ext O) (instant : O → Int) (hT : DtOk E instant) (I : Inst O)
    (hy : 1 ≤ I.year ∧ I.year ≤ 9999) :
    dt_get_offset E I = I.utcoffset.map (fun td => Int.tdiv td 1000000) ∧ dt_offset E I = dt_get_offset E I ∧
    dt_offset_hours E I = I.utcoffset.map (fun td => ((Int.tdiv td 1000000, 3600) : Frac)) ∧
    dt_float_timestamp E I = ((I.timestamp, 1000000) : Frac) ∧
    dt_timezone E I = (if I.tzinfo.isPendulum then I.tzinfo else TzInfo.none) ∧ dt_tz E I = dt_timezone E I ∧
    dt_timezone_name E I = (match I.tzinfo with | .pendulum n => some n | _ => none) ∧
    dt_is_utc E I = (match I.utcoffset with | none => false | some td => decide (Int.tdiv td 1000000 = 0)) ∧
    dt_is_dst E I = (match I.dst with | none => true | some td => decide (td ≠ 0)) ∧
    dt_is_local E I = (dt_get_offset E I == dt_get_offset E (E.view (E.dt_in_timezone I.obj E.local_timezone))) ∧
    dt_date E I = ⟨I.year, I.month, I.day⟩ ∧
    dt_is_long_year E I = decide (isoWeeksInYear I.year = 53) :=
  ⟨(dt_offset_eq E I).1, (dt_offset_eq E I).2.1, (dt_offset_eq E I).2.2.1, (dt_offset_eq E I).2.2.2,
   (dt_timezone_eq E I).1, (dt_timezone_eq E I).2.1, (dt_timezone_eq E I).2.2,
   (dt_flags_eq E I).1, (dt_flags_eq E I).2.1, (dt_flags_eq E I).2.2, dt_date_eq E I, dt_is_long_year_eq E instant hT I hy⟩

/-- DateTime `is_same_day` / `is_anniversary` (same civil date / same month and day as `instance(dt)`), `is_future` /
    `is_past` / `age` (against now in the instance's timezone) -/
theorem datetime_relations_source_eq_model (E : Ext O) (yb : D → D → Int) (hD : DateOk E yb) (instant : O → Int)
    (hT : DtOk E instant) (I : Inst O) (hself : E.view I.obj = I) (dt : O) (odt : Option O)
    (hs : ValidD ⟨I.year, I.month, I.day⟩)
    (hn : ValidD ⟨(E.view (E.dt_now (dt_tz E I))).year, (E.view (E.dt_now (dt_tz E I))).month,
      (E.view (E.dt_now (dt_tz E I))).day⟩) :
    dt_is_same_day E I dt = decide (I.year = (E.view (E.dt_instance dt)).year ∧
      I.month = (E.view (E.dt_instance dt)).month ∧ I.day = (E.view (E.dt_instance dt)).day) ∧
    dt_is_anniversary E I odt =
      decide (I.month = (E.view (E.dt_instance (odt.getD (E.dt_now (dt_tz E I))))).month ∧
              I.day = (E.view (E.dt_instance (odt.getD (E.dt_now (dt_tz E I))))).day) ∧
    dt_is_future E I = decide (E.dt_cmp I.obj (E.dt_now (dt_timezone E I)) > 0) ∧
    dt_is_past E I = decide (E.dt_cmp I.obj (E.dt_now (dt_timezone E I)) < 0) ∧
    dt_age E I = yb ⟨I.year, I.month, I.day⟩
      ⟨(E.view (E.dt_now (dt_tz E I))).year, (E.view (E.dt_now (dt_tz E I))).month, (E.view (E.dt_now (dt_tz E I))).day⟩ :=
  ⟨(dt_same_day_eq E instant hT I hself dt odt).1, (dt_same_day_eq E instant hT I hself dt odt).2,
   (dt_now_eq E yb hD I hs hn).1, (dt_now_eq E yb hD I hs hn).2.1, (dt_now_eq E yb hD I hs hn).2.2⟩

/-- the string methods: Date `to_date_string` / `to_formatted_date_string` (strftime patterns), `__repr__`, `__str__` /
    `for_json` (isoformat), `__format__`; DateTime `__str__` (`isoformat(" ")`) and `__repr__` -/
theorem strings_source_eq_model (E : Ext O) (self : D) (spec : String) (I : Inst O) :
    (date_to_date_string E self = E.date_strftime self "%Y-%m-%d" ∧
     date_to_formatted_date_string E self = E.date_strftime self "%b %d, %Y" ∧
     date_repr E self = E.date_clsname ++ "(" ++ toString self.year ++ ", " ++ toString self.month ++ ", "
       ++ toString self.day ++ ")" ∧
     date_str E self = E.date_isoformat self ∧ date_for_json E self = E.date_isoformat self ∧
     date_format_spec E self spec =
       (if spec.length > 0 then (if py_str_contains spec "%" then E.date_strftime self spec else E.date_format self spec none)
        else E.date_isoformat self)) ∧
    dt_str E I = E.dt_isoformat I.obj (some " ") ∧
    dt_repr E I = I.clsname ++ "(" ++ toString I.year ++ ", " ++ toString I.month ++ ", " ++ toString I.day
      ++ ", " ++ toString I.hour ++ ", " ++ toString I.minute ++ ", " ++ toString I.second
      ++ (if I.microsecond ≠ 0 then ", " ++ toString I.microsecond else "")
      ++ (if I.tzinfo.isNone then "" else ", tzinfo=" ++ E.tz_repr I.tzinfo) ++ ")" :=
  ⟨date_strings_eq E self spec, (dt_str_repr_eq E I).1, (dt_str_repr_eq E I).2⟩

/-- the hypotheses of the theorems above are jointly satisfiable (`refExt`: datetimes = UTC instants, the standard
    library = `Cal`) -/
theorem getters_hypotheses_satisfiable :
    StdOk refExt ∧ DateOk refExt (fun a b => b.year - a.year) ∧ DtOk refExt (fun o => o) ∧
    (∀ o : Int, refExt.view (refExt.view o).obj = refExt.view o) :=
  ⟨refExt_std, refExt_date, refExt_dt, refExt_view_obj⟩

end Getters

/-! non-vacuity: the hypotheses are met by ordinary dates -/
example : LocalTime.localTime false LocalTime.pyTbl 951782400 3600 = (2000, 2, 29, 1, 0, 0) := by decide +kernel
example : LocalTime.localTime true LocalTime.rsTbl (-1) 0 = (1969, 12, 31, 23, 59, 59) := by decide +kernel
example : Gen.py_local_time 951782400 3600 = (2000, 2, 29, 1, 0, 0) := by decide +kernel
example : Gen.rs_local_time (-1) 0 = (1969, 12, 31, 23, 59, 59) := by decide +kernel
example : Gen.rs_local_time (-62135596800) (-86399) = (0, 12, 31, 0, 0, 1) ∧ Gen.py_local_time 253402300799 86399 = (10000, 1, 1, 23, 59, 58) := by decide +kernel
example : (40 : Nat) ≤ 40 ∧ Gen.py_local_time_fuel 40 1 0 = (1970, 1, 1, 0, 0, 1) := by decide +kernel
example : (1 : Int) ≤ 2 ∧ (2 : Int) ≤ 12 := by omega
example : Gen.week_day 2024 2 29 = 4 ∧ isoweekday 2024 2 29 = 4 := by decide
example : Gen.is_long_year 2020 = true ∧ isoWeeksInYear 2020 = 53 := by decide
example : Rs.week_day 2024 2 29 = 4 := by decide
example : ValidD ⟨2024, 2, 29⟩ ∧ (Gen.Getters.date_day_of_week refExt ⟨2024, 2, 29⟩).toOption = some 3 ∧
    Gen.Getters.date_week_of_month refExt ⟨2024, 2, 29⟩ = 5 ∧ Gen.Getters.date_quarter refExt ⟨2024, 2, 29⟩ = 1 ∧
    Gen.Getters.date_day_of_year refExt ⟨2024, 12, 31⟩ = 366 ∧ Gen.Getters.date_is_long_year refExt ⟨2020, 1, 1⟩ = true := by
  decide
example : Gen.Getters.date_average refExt ⟨2020, 1, 4⟩ (some ⟨2020, 1, 1⟩) = ⟨2020, 1, 3⟩ ∧
    Gen.Getters.date_closest refExt ⟨2020, 1, 1⟩ ⟨2020, 1, 4⟩ ⟨2019, 12, 29⟩ = ⟨2019, 12, 29⟩ := by decide +kernel
example : (Gen.Getters.dt_closest refExt (refExt.view 0) [5, 3, -3]).toOption = some 3 ∧
    (Gen.Getters.dt_farthest refExt (refExt.view 0) [5, -3, 3]).toOption = some 5 ∧
    (Gen.Getters.dt_farthest refExt (refExt.view 0) []).toOption = none ∧
    Gen.Getters.dt_average refExt (refExt.view 10) (some 3) = 6 := by decide +kernel
example : (Gen.Getters.helpers_week_starts_at refExt 7).toOption = none ∧
    (Gen.Getters.helpers_week_starts_at refExt 6).toOption = some ⟨"_WEEK_STARTS_AT", 6⟩ := by decide

end Pendulum.Props.C15
