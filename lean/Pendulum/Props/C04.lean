import Pendulum.Proofs.AddDurCal
import Pendulum.Proofs.C04
import Pendulum.Proofs.DTArithGenAdd
import Pendulum.Proofs.DTArithGenDate
import Pendulum.Props.C02
/-! # C04 — calendar-unit arithmetic follows the wall clock with end-of-month clamping

Theorems over the literal models of `helpers.add_duration` (Model/AddDur.lean), `DateTime.add`
(Model/DTOps.lean) and the operator / `subtract` / `Date` paths (Model/CalOps.lean, the code *after* the two
`fix:` commits to `DateTime._subtract_timedelta`). No bound on years, amounts, signs or zone tables.
`Gen.*` (the `DAYS_PER_MONTHS` table and `is_leap`) are regenerated from the source on every run. -/
namespace Pendulum.Props.C04
open Pendulum Pendulum.Cal Pendulum.Zone Pendulum.AddDur Pendulum.DTOps Pendulum.CalOps

/-! ### years and months: month-index arithmetic, clamp from the shipped table -/

/-- the code's month handling (sign trick, `divmod` by 12 beyond 11 months, one-step overflow) is
    month-index arithmetic `k = 12·y + (m−1) + 12·years + months ↦ (k / 12, k % 12 + 1)`, any integers -/
theorem addMonths_spec (y m years months : Int) (hm : 1 ≤ m ∧ m ≤ 12) :
    addYM y m years months =
      ((y * 12 + (m - 1) + years * 12 + months) / 12, (y * 12 + (m - 1) + years * 12 + months) % 12 + 1) ∧
    1 ≤ (addYM y m years months).2 ∧ (addYM y m years months).2 ≤ 12 := by
  rw [addYM_spec y m years months hm]
  exact ⟨rfl, addYMspec_month y m years months⟩

example : addYM 2023 11 0 14 = (2025, 1) ∧ addYM 2023 1 (-1) (-25) = (2019, 12) := by decide +kernel

/-- the clamp `DAYS_PER_MONTHS[int(is_leap(year))][month]` (generated table, generated `is_leap`) is the length
    of that month in the proleptic Gregorian calendar -/
theorem clamp_table (y m : Int) (hm : 1 ≤ m ∧ m ≤ 12) : daysPerMonth y m = daysInMonth y m :=
  daysPerMonth_eq y m hm

example : daysPerMonth 2024 2 = 29 ∧ daysPerMonth 1900 2 = 28 := by decide +kernel

/-- the µs → s → min → h → days carries preserve the total for amounts of any sign and size -/
theorem carry_preserves_total (d h mi s us : Int) :
    totalUs (normTime d h mi s us).1 (normTime d h mi s us).2.1 (normTime d h mi s us).2.2.1
      (normTime d h mi s us).2.2.2.1 (normTime d h mi s us).2.2.2.2 = totalUs d h mi s us :=
  normTime_total' d h mi s us

/-- `add_duration` on a naive value = month-index arithmetic on (year, month), the day clamped with
    `min(day, daysInMonth)`, then weeks, days and all time units added on the calendar (`calSpec`);
    `ValueError`/`OverflowError` exactly when the intermediate year / the result leaves 0001..9999 -/
theorem addDuration_spec (w years months weeks days hours minutes seconds micros : Int) :
    addDuration w years months weeks days hours minutes seconds micros
      = calSpec w years months weeks days hours minutes seconds micros :=
  addDuration_eq_calSpec _ _ _ _ _ _ _ _ _

/-- Jan 31 + 1 month = Feb 29 (2024) / Feb 28 (2023); Feb 29 + 1 year = Feb 28; Mar 31 − 25 months = Feb 28 -/
example :
    addDuration (fieldsToWall 2024 1 31 5) 0 1 0 0 0 0 0 0 = .ok (fieldsToWall 2024 2 29 5) ∧
    addDuration (fieldsToWall 2023 1 31 5) 0 1 0 0 0 0 0 0 = .ok (fieldsToWall 2023 2 28 5) ∧
    addDuration (fieldsToWall 2024 2 29 0) 1 0 0 0 0 0 0 0 = .ok (fieldsToWall 2025 2 28 0) ∧
    addDuration (fieldsToWall 2024 3 31 0) 0 (-25) 0 0 0 0 0 0 = .ok (fieldsToWall 2022 2 28 0) ∧
    addDuration (fieldsToWall 2024 1 31 0) 0 1 0 1 0 0 0 0 = .ok (fieldsToWall 2024 3 1 0) := by decide +kernel

/-! ### DateTime.add with calendar units -/

/-- order of operations of `DateTime.add` when any of years/months/weeks/days is non-zero: the calendar
    specification on the wall clock (the source offset plays no role), then the construction rules (C02) in the
    value's own zone with the default `fold=1`, non-raising -/
theorem addCalendar_order (v : V) (y mo wk d h mi s us : Int) (hvar : y ≠ 0 ∨ mo ≠ 0 ∨ wk ≠ 0 ∨ d ≠ 0) :
    add v y mo wk d h mi s us =
      match calSpec v.w y mo wk d h mi s us with
      | .ok w' => create v.z w' true false
      | .error .valueError => .error .valueError
      | .error .overflow => .error .overflow := by
  unfold add
  simp only [hvar, if_true]
  rw [addDuration_eq_calSpec]
  cases calSpec v.w y mo wk d h mi s us with
  | error e => cases e <;> rfl
  | ok w' => rfl

/-- with calendar units the result depends on the wall clock only: neither the fold bit nor the current offset
    of the source enters (contrast C03, where the instant is what moves) -/
theorem add_calendar_ignores_fold (z : ZRef) (w : Int) (f g : Bool) (y mo wk d h mi s us : Int)
    (hvar : y ≠ 0 ∨ mo ≠ 0 ∨ wk ≠ 0 ∨ d ≠ 0) :
    add ⟨z, w, f⟩ y mo wk d h mi s us = add ⟨z, w, g⟩ y mo wk d h mi s us := by
  rw [addCalendar_order _ _ _ _ _ _ _ _ _ hvar, addCalendar_order _ _ _ _ _ _ _ _ _ hvar]

/-- the timezone is kept, whatever the amounts (both branches of `add`) -/
theorem add_keeps_zone (v r : V) (y mo wk d h mi s us : Int) (hr : add v y mo wk d h mi s us = .ok r) :
    r.z = v.z := add_zone v r y mo wk d h mi s us hr

/-- target wall time exists once in the zone: it is the result -/
theorem add_target_unique (z : Z) (w' : Int) (heq : z.woff true w' = z.woff false w') (hr : inRange w' = true) :
    create (.named z) w' true false = .ok ⟨.named z, w', true⟩ := by
  unfold create convertNaive; simp [heq, hr]

/-- target wall time is repeated (overlap): the wall value is kept and denotes the *later* of its two instants -/
theorem add_target_repeated (z : Z) (h : z.WF) (w' : Int) (hlt : z.woff false w' > z.woff true w')
    (hr : inRange w' = true) :
    create (.named z) w' true false = .ok ⟨.named z, w', true⟩ ∧
    (⟨.named z, w', true⟩ : V).instant = w' - z.woff true w' ∧
    ∀ u, u + z.off u = w' → u ≤ w' - z.woff true w' := by
  obtain ⟨c, _, pre, lt, _⟩ := C02.create_repeated z h ⟨w', true⟩ hlt
  refine ⟨?_, rfl, ?_⟩
  · unfold create; simp only [c]; simp [hr]
  · intro u hu
    have := (pre u).mp hu
    simp only [] at this lt
    omega

/-- target wall time is skipped (gap): the result is moved forward by the length of the gap and is the genuine
    local time of the instant read with the pre-gap offset -/
theorem add_target_skipped (z : Z) (h : z.WF) (w' : Int) (hgt : z.woff true w' > z.woff false w')
    (hr : inRange (w' + (z.woff true w' - z.woff false w')) = true) :
    create (.named z) w' true false
      = .ok ⟨.named z, w' + (z.woff true w' - z.woff false w'), (fromUtc z (w' - z.woff false w')).fold⟩ ∧
    (fromUtc z (w' - z.woff false w')).w = w' + (z.woff true w' - z.woff false w') := by
  obtain ⟨c, _, e, _⟩ := C02.create_skipped z h w' hgt
  refine ⟨?_, e⟩
  unfold create; simp only [c]
  rw [e]; simp [hr]

/-- fixed offsets and naive values: the calendar result itself -/
theorem add_target_fixed (off w' : Int) (fold : Bool) :
    create (.fixed off) w' fold false = .ok ⟨.fixed off, w', false⟩ ∧
    create .naive w' fold false = .ok ⟨.naive, w', fold⟩ := ⟨rfl, rfl⟩

/-! ### subtract and negative amounts -/

/-- negative amounts given to `add()` behave exactly like `subtract()` and vice versa -/
theorem add_neg_eq_subtract (v : V) (y mo wk d h mi s us : Int) :
    add v (-y) (-mo) (-wk) (-d) (-h) (-mi) (-s) (-us) = subtract v y mo wk d h mi s us ∧
    subtract v (-y) (-mo) (-wk) (-d) (-h) (-mi) (-s) (-us) = add v y mo wk d h mi s us := by
  refine ⟨rfl, ?_⟩
  unfold subtract; simp only [Int.neg_neg]

/-! ### operators with a Duration (code after the F9 fix) -/

/-- `-d` is the Duration whose every normalised component is negated, for a Duration built from any signature -/
theorem neg_components (s : Sig) :
    (neg (mkDur s)).years = -(mkDur s).years ∧ (neg (mkDur s)).months = -(mkDur s).months ∧
    (neg (mkDur s)).weeks = -(mkDur s).weeks ∧ (neg (mkDur s)).rdays = -(mkDur s).rdays ∧
    (neg (mkDur s)).secs = -(mkDur s).secs ∧ (neg (mkDur s)).us = -(mkDur s).us ∧
    (neg (mkDur s)).days = -(mkDur s).days := neg_comps s

/-- `dt - d` = `dt + (-d)` for every Duration -/
theorem sub_duration_eq_add_neg (v : V) (d : Dur) : subDur v d = addDur v (neg d) := rfl

/-- `dt - d` = `dt.subtract(years=d.years, months=d.months, weeks=d.weeks, days=d.remaining_days, hours=d.hours,
    minutes=d.minutes, seconds=d.remaining_seconds, microseconds=d.microseconds)` for a Duration built from any
    signature (e.g. `Duration(hours=25)`: both subtract 1 day and 1 hour on the wall clock) -/
theorem sub_duration_eq_subtract_components (v : V) (s : Sig) :
    subDur v (mkDur s) = subComponents v (mkDur s) := sub_eq_components v s

/-- the code before the fix (`subtract(years, months, seconds=d._total)`) violates both equalities across a DST
    change: Europe/Paris 2013 table, 2013-04-01T02:30, `Duration(days=1)` → 01:30+01:00 instead of 03:30+02:00 -/
theorem unfixed_sub_duration_counterexample :
    ∃ (z : Z) (v : V) (d : Dur), z.WF ∧ v.z.table = some z ∧
      subDurOld v d ≠ addDur v (neg d) ∧ subDurOld v d ≠ subComponents v d := paris_counterexample

/-! ### Date -/

/-- `Date.add` = the same calendar specification at midnight; the result is again a whole day -/
theorem date_add_spec (n y mo wk d : Int) :
    dateAdd n y mo wk d =
      (match calSpec (n * DAY) y mo wk d 0 0 0 0 with
       | .ok w => .ok (w / DAY)
       | .error e => .error e) ∧
    ∀ w, calSpec (n * DAY) y mo wk d 0 0 0 0 = .ok w → w % DAY = 0 := by
  constructor
  · unfold dateAdd; rw [addDuration_eq_calSpec]
    cases calSpec (n * DAY) y mo wk d 0 0 0 0 <;> rfl
  · exact date_midnight n y mo wk d

theorem date_add_neg_eq_subtract (n y mo wk d : Int) :
    dateAdd n (-y) (-mo) (-wk) (-d) = dateSubtract n y mo wk d ∧
    dateSubtract n (-y) (-mo) (-wk) (-d) = dateAdd n y mo wk d := by
  refine ⟨rfl, ?_⟩
  unfold dateSubtract; simp only [Int.neg_neg]

/-- `date - d` = `date + (-d)` = `date.subtract(<d's calendar components>)` for a Duration built from any signature -/
theorem date_sub_duration (n : Int) (s : Sig) :
    dateSubDur n (mkDur s) = dateAddDur n (neg (mkDur s)) ∧
    dateSubDur n (mkDur s) = dateSubtract n (mkDur s).years (mkDur s).months (mkDur s).weeks (mkDur s).rdays := by
  refine ⟨?_, rfl⟩
  obtain ⟨a, b, c, d, _⟩ := neg_comps s
  unfold dateSubDur dateAddDur dateSubtract
  rw [a, b, c, d]

/-- 2024-03-31 − 1 month = 2024-02-29; 2024-01-31 + Duration(months=1, hours=36) = 2024-03-01 (time part dropped after
    normalising 36 h to 1 day 12 h) -/
example :
    dateSubtract 19813 0 1 0 0 = .ok 19782 ∧
    dateAddDur 19753 (mkDur ⟨0, 1, 0, 0, 36, 0, 0, 0⟩) = .ok 19783 := by decide +kernel

/-! ### the entry points themselves, regenerated from `src/pendulum/datetime.py` / `date.py` on every run
(`tools/gen_dtarith.py` → `Gen/DTArith.lean`; callee links `DTArithGen.Linked` / `DLinked`, satisfiable by
`linked_instOf` / `dlinked_dinstOf`) -/
open Pendulum.Gen.DTArith Pendulum.DTArithGen

/-- **`DateTime.add` with a calendar unit, from the source**: when any of years/months/weeks/days is non-zero the
    translated method never subtracts the offset, hands the instance's own fields to `add_duration` and ends in
    `create(..., tz=self.tz)` with `create`'s default `fold=1` — the calendar specification on the wall clock followed by
    the construction rules in the value's own zone, for every value and every amount -/
theorem add_calendar_source_eq_model (I : Inst) (v : V) (hl : Linked I v) (hv : inRange v.w = true)
    (y mo wk d h mi : Int) (s : Sec) (us : Int) (hvar : y ≠ 0 ∨ mo ≠ 0 ∨ wk ≠ 0 ∨ d ≠ 0) :
    interp v (dt_add I y mo wk d h mi s us) =
      (match calSpec v.w y mo wk d h mi (secS s) (us + secU s) with
       | .ok w' => create v.z w' true false
       | .error .valueError => .error .valueError
       | .error .overflow => .error .overflow) := by
  rw [add_eq I v hl hv, ← addCalendar_order v y mo wk d h mi (secS s) (us + secU s) hvar]
  unfold addChecked
  have : ¬(y = 0 ∧ mo = 0 ∧ wk = 0 ∧ d = 0 ∧ inRange (v.w - v.offset) = false) := by omega
  rw [if_neg this]

/-- **`dt + d` / `dt - d` for a Duration, from the source**: `_add_timedelta_` passes `**d._signature` to `add`;
    `_subtract_timedelta` goes through `_add_timedelta_(-d)` — the model's `addDur` / `subDur` (whenever the start's UTC
    reading is representable, else OverflowError for a pure clock amount: `addChecked`) -/
theorem duration_operand_source_eq_model (I : Inst) (v : V) (hl : Linked I v) (hv : inRange v.w = true) (d : Dur)
    (hu : inRange (v.w - v.offset) = true) :
    interp v (dt_add_timedelta I (opOfDur d)) = addDur v d ∧
    interp v (dt_subtract_timedelta I (opOfDur d) (opOfDur (neg d))) = subDur v d := by
  constructor
  · rw [add_duration_model I v hl hv, addSigC_eq v _ hu]; rfl
  · rw [sub_duration_model I v hl hv d _ rfl, addSigC_eq v _ hu]; rfl

/-- **`dt ± iv` for an Interval, from the source**: both methods read the eight components
    `years, months, weeks, remaining_days, hours, minutes, remaining_seconds, microseconds` and hand them to
    `add` / `subtract` (no detour through `-iv`, whose components belong to the swapped endpoints) -/
theorem interval_operand_source_eq_model (I : Inst) (v : V) (hl : Linked I v) (hv : inRange v.w = true) (δ nδ : Operand)
    (hk : δ.kind = .interval) :
    interp v (dt_add_timedelta I δ) =
      addChecked v δ.years δ.months δ.weeks δ.remaining_days δ.hours δ.minutes δ.remaining_seconds δ.microseconds ∧
    interp v (dt_subtract_timedelta I δ nδ) =
      addChecked v (-δ.years) (-δ.months) (-δ.weeks) (-δ.remaining_days) (-δ.hours) (-δ.minutes)
        (-δ.remaining_seconds) (-δ.microseconds) :=
  interval_model I v hl hv δ nδ hk

/-- **`Date.add` / `subtract` / `± Duration`, from the source**: `add_duration(date(y, m, d), years, months, weeks, days)`
    re-wrapped in the class; `subtract` negates the four keywords; a Duration travels as `years, months, weeks,
    remaining_days` -/
theorem date_source_eq_model (D : DateInst) (n : Int) (hl : DLinked D n) (y mo wk d : Int) (dur : Dur) :
    dinterp (date_add D y mo wk d) = dateAdd n y mo wk d ∧
    dinterp (date_subtract D y mo wk d) = dateSubtract n y mo wk d ∧
    dinterp (date_add_timedelta D (opOfDur dur)) = dateAddDur n dur ∧
    dinterp (date_subtract_timedelta D (opOfDur dur)) = dateSubDur n dur := by
  refine ⟨date_add_eq D n hl _ _ _ _, ?_, (date_duration_model D n hl dur).1, (date_duration_model D n hl dur).2⟩
  rw [date_subtract_eq, date_add_eq D n hl]; rfl

/-- `Date.__add__` / `__sub__`: operand kinds -/
theorem date_operators_source_eq_model (D : DateInst) (o : Operand) :
    date_op_add D o = (if !isDelta o.kind then .ok .notImplemented else Except.map Res.value (date_add_timedelta D o)) ∧
    date_op_sub D o =
      (if isDelta o.kind then Except.map Res.value (date_subtract_timedelta D o)
       else if o.kind = .date ∨ o.kind = .datetime ∨ o.kind = .pendulumDT then
         .ok (.interval (.date o.year o.month o.day) (.as_date .self) false)
       else .ok .notImplemented) := date_op_eq D o

/-! non-vacuity: Jan 31 + 1 month on the generated code, DateTime and Date -/
example (n : Int) : DLinked (dinstOf n) n := dlinked_dinstOf n
example : (dt_add (instOf ⟨.naive, fieldsToWall 2024 1 31 5, false⟩) 0 1 0 0 0 0 (.int 0) 0).toOption
    = some (.create 2024 2 29 0 0 0 5 true) := by decide +kernel
example : (date_add (dinstOf 19753) 0 1 0 0).toOption = some (.date 2024 2 29) := by decide +kernel

end Pendulum.Props.C04
