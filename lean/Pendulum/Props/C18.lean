import Pendulum.Proofs.DiffSpec
import Pendulum.Proofs.LocRange
import Pendulum.Proofs.DiffDir
import Pendulum.Proofs.DiffFmtGen
/-! # C18 — human-readable differences are total, localized and correctly directed

Property theorems only. `Gen.Locales.*` (27 locale dictionaries as `Node` trees, templates pre-split into literal /
replacement-field segments, CLDR `plural`/`ordinal` lambdas as `Int → String`) are regenerated from
`src/pendulum/locales/*/locale.py` + `custom.py` on every run, so the table theorems are re-checked against what the
source says now. `Loc.format`, `Loc.inWords`, `Loc.formatToken` (Model/Diff.lean) are the hand model of
`DifferenceFormatter.format`, `Duration/Interval.in_words` and `Formatter._format_localizable_token`, tied to the code by
the correspondence run. Strings are lists of characters; Python exceptions are `Except.error`.

`Good r` = `r` is `.ok s` with `s ≠ []` and no `{` / `}` left in `s`. -/
namespace Pendulum.Props.C18
open Pendulum Pendulum.Loc Pendulum.Loc.Range Pendulum.Gen.Locales

set_option maxRecDepth 8000

/-! ## the CLDR lambdas stay inside the declared classes -/

/-- every locale's `plural(n)` is one of the class names the lambda mentions, for every integer `n` -/
theorem plural_range : ∀ ℓ ∈ Gen.Locales.all, ∀ n : Int, ℓ.plural n ∈ ℓ.pluralClasses := plural_range_all

/-- same for `ordinal(n)` -/
theorem ordinal_range : ∀ ℓ ∈ Gen.Locales.all, ∀ n : Int, ℓ.ordinal n ∈ ℓ.ordinalClasses := ordinal_range_all

example : L_ru.loc.plural 22 = "few" ∧ L_ru.loc.plural 25 = "many" ∧ L_ru.loc.plural 21 = "one" := by decide
example : L_en.loc.ordinal 23 = "few" ∧ L_en.loc.ordinal 11 = "other" := by decide

/-! ## the tables are complete for every key the code can build -/

/-- for every locale × unit × plural class × (invert, is_now, absolute): every `locale.get(key)` of
`DifferenceFormatter.format` succeeds, yields a template whose replacement fields are exactly the one positional
argument the code passes (`{}` once or `{0}`), whose literal text has no brace, and the chain renders a non-empty
text; likewise the `few_second` branch -/
theorem keys_total : ∀ ℓ ∈ Gen.Locales.all, locOK ℓ = true := by decide +kernel

/-- `translations.units.<unit>.<class>` (7 units and `microsecond`) is a well-formed template for every class -/
theorem words_keys_total : ∀ ℓ ∈ Gen.Locales.all, wordsOK ℓ = true := by decide +kernel

/-- month and day names for 1..12 / 0..6, `week_data.first_day`, am/pm and the `custom.ordinal` suffixes are present
and usable as the formatter uses them -/
theorem token_keys_total : ∀ ℓ ∈ Gen.Locales.all, tokOK ℓ = true := by decide +kernel

/-- the direction is visible: `relative.<u>.future.<p>` ≠ `relative.<u>.past.<p>`, `after` ≠ `before`,
`from_now` ≠ `ago` in every locale -/
theorem markers_distinct : ∀ ℓ ∈ Gen.Locales.all, markersOK ℓ = true := by decide +kernel

/-- month (wide, abbreviated) and day (wide, abbreviated, short) name tables contain only strings, no name twice -/
theorem name_tables_nodup : ∀ ℓ ∈ Gen.Locales.all, namesInjOK ℓ = true := by decide +kernel

/-- hence a month / day name determines its number in every locale (what `from_format` relies on, C08) -/
theorem names_injective : ∀ ℓ ∈ Gen.Locales.all, ∀ path ∈ nameTables,
    ∃ kvs, ℓ.get path = .ok (some (.dict kvs)) ∧
      ∀ k1 k2 s, lookup k1 kvs = some (.str s) → lookup k2 kvs = some (.str s) → k1 = k2 := by
  intro ℓ hℓ path hp
  have h := List.all_eq_true.mp (name_tables_nodup ℓ hℓ) path hp
  cases hg : ℓ.get path with
  | error e => simp [hg] at h
  | ok o =>
    match o, hg with
    | some (.dict kvs), hg =>
      simp only [hg] at h
      exact ⟨kvs, rfl, fun k1 k2 s h1 h2 => lookup_inj h h1 h2⟩
    | none, hg => simp [hg] at h
    | some (.str _), hg => simp [hg] at h
    | some (.tmpl _), hg => simp [hg] at h
    | some (.int _), hg => simp [hg] at h

example : okIs (nameAt L_ru.loc ["translations", "months", "wide"] 3) "марта" = true := by decide +kernel

example : ¬ (locOK { L_en.loc with data := .dict [] } = true) := by decide +kernel
example : wfGo [.hole "time", .lit "后"] .unset = false := by decide   -- the shape zh shipped before the fix

/-! ## totality -/

/-- `DifferenceFormatter.format` / `format_diff` / `diff_for_humans`: for every shipped locale, every component
tuple (any integers, any sign) and every flag combination the result is a non-empty string without braces; no exception -/
theorem format_diff_total : ∀ ℓ ∈ Gen.Locales.all, ∀ (c : Comps) (isNow absolute : Bool),
    Good (format ℓ c isNow absolute) := by
  intro ℓ hℓ c isNow ab
  exact format_good_of (keys_total ℓ hℓ) (plural_range ℓ hℓ) c isNow ab

example : okIs (format L_en.loc ⟨0, 0, 0, 3, 0, 0, 0, false⟩ true false) "3 days ago" = true := by decide +kernel
example : okIs (format L_zh.loc ⟨0, 0, 0, 3, 0, 0, 0, true⟩ false false) "3天后" = true := by decide +kernel

/-- `Duration.in_words` / `Interval.in_words`: total and non-empty for every locale, components of any sign, any
microseconds and any separator; brace-free when the separator is -/
theorem in_words_total : ∀ ℓ ∈ Gen.Locales.all, ∀ (c : Comps) (us : Int) (sep : Str),
    ∃ s, inWords ℓ c us sep = .ok s ∧ s ≠ [] ∧ (Clean sep → Clean s) := by
  intro ℓ hℓ c us sep
  exact inWords_good_of (words_keys_total ℓ hℓ) (plural_range ℓ hℓ) c us sep

example : okIs (inWords L_fr.loc ⟨1, 2, 0, 0, 3, 0, 0, false⟩ 0 [' ']) "1 an 2 mois 3 heures" = true := by decide +kernel

/-- the 14 locale-dependent format tokens render (no exception, non-empty) for every locale, month 1..12,
weekday 0..6 and any other field values -/
theorem locale_tokens_total : ∀ ℓ ∈ Gen.Locales.all, ∀ tok ∈ locTokens, ∀ a : TokArgs,
    1 ≤ a.month ∧ a.month ≤ 12 → 0 ≤ a.dayOfWeek ∧ a.dayOfWeek ≤ 6 → Rendered (formatToken ℓ tok a) := by
  intro ℓ hℓ tok ht a hm hd
  exact formatToken_rendered (token_keys_total ℓ hℓ) (ordinal_range ℓ hℓ) ht a hm hd

example : okIs (formatToken L_nl.loc "eo" ⟨1, 6, 7, 1, 1, 7, 3⟩) "7e" = true := by decide +kernel

/-! ## unit and count -/

/-- on an absolute difference the unit is the largest non-zero component and the count is that component or one
more (rounding up) — except the documented promotion of 11 months and more than 15 days to "1 year" -/
theorem select_unit (c : Comps) (h : NonNeg c) (u : TUnit) (n : Int) (hs : selectUnit c = some (u, n)) :
    (∃ k, lead c = some (u, k) ∧ (n = k ∨ n = k + 1)) ∨
    (u = .year ∧ n = 1 ∧ c.years = 0 ∧ c.months = 11 ∧ c.weeks * 7 + c.days > 15) := by
  obtain ⟨h1, h2, h3, h4, h5, h6, h7⟩ := h
  unfold selectUnit at hs
  repeat' split at hs
  all_goals simp only [Option.some.injEq, Prod.mk.injEq, reduceCtorEq] at hs
  all_goals obtain ⟨rfl, rfl⟩ := hs
  · left; exact ⟨c.years, lead_year (by omega), by omega⟩
  · left; exact ⟨c.years, lead_year (by omega), by omega⟩
  · right; exact ⟨rfl, rfl, by omega, by omega, by omega⟩
  · left; exact ⟨c.months, lead_month (by omega) (by omega), by omega⟩
  · left; exact ⟨c.months, lead_month (by omega) (by omega), by omega⟩
  · left; exact ⟨c.weeks, lead_week (by omega) (by omega) (by omega), by omega⟩
  · left; exact ⟨c.weeks, lead_week (by omega) (by omega) (by omega), by omega⟩
  · left; exact ⟨c.days, lead_day (by omega) (by omega) (by omega) (by omega), by omega⟩
  · left; exact ⟨c.days, lead_day (by omega) (by omega) (by omega) (by omega), by omega⟩
  · left; exact ⟨c.hours, lead_hour (by omega) (by omega) (by omega) (by omega) (by omega), by omega⟩
  · left; exact ⟨c.minutes, lead_minute (by omega) (by omega) (by omega) (by omega) (by omega) (by omega), by omega⟩
  · left; exact ⟨c.seconds, lead_second (by omega) (by omega) (by omega) (by omega) (by omega) (by omega) (by omega), by omega⟩

/-- the exact rounding thresholds of the code: years round up past 6 months, months from 27 days, weeks past 3 days,
days from 22 hours -/
theorem count_rounding (c : Comps) :
    (c.years > 0 → selectUnit c = some (.year, if c.months > 6 then c.years + 1 else c.years)) ∧
    (c.years ≤ 0 → c.months > 0 → ¬ (c.months = 11 ∧ c.weeks * 7 + c.days > 15) →
      selectUnit c = some (.month, if c.weeks * 7 + c.days ≥ 27 then c.months + 1 else c.months)) ∧
    (c.years ≤ 0 → c.months ≤ 0 → c.weeks > 0 →
      selectUnit c = some (.week, if c.days > 3 then c.weeks + 1 else c.weeks)) ∧
    (c.years ≤ 0 → c.months ≤ 0 → c.weeks ≤ 0 → c.days > 0 →
      selectUnit c = some (.day, if c.hours ≥ 22 then c.days + 1 else c.days)) := by
  refine ⟨?_, ?_, ?_, ?_⟩
  · intro h; simp [selectUnit, h]
  · intro h1 h2 h3
    have : ¬ c.years > 0 := by omega
    simp [selectUnit, this, h3, h2]
  · intro h1 h2 h3
    have a : ¬ c.years > 0 := by omega
    have b : ¬ c.months > 0 := by omega
    have b' : ¬ (c.months = 11 ∧ c.weeks * 7 + c.days > 15) := by omega
    simp [selectUnit, a, b, b', h3]
  · intro h1 h2 h3 h4
    have a : ¬ c.years > 0 := by omega
    have b : ¬ c.months > 0 := by omega
    have b' : ¬ (c.months = 11 ∧ c.weeks * 7 + c.days > 15) := by omega
    have d : ¬ c.weeks > 0 := by omega
    simp [selectUnit, a, b, b', d, h4]

/-- the count that is printed is at least 1 (`count == 0 ⇒ 1`) -/
theorem count_pos (c : Comps) (h : NonNeg c) :
    (∀ u n, selectUnit c = some (u, n) → 1 ≤ n) ∧ 1 ≤ fixCount c.seconds := by
  obtain ⟨h1, h2, h3, h4, h5, h6, h7⟩ := h
  constructor
  · intro u n hs
    unfold selectUnit at hs
    repeat' split at hs
    all_goals simp only [Option.some.injEq, Prod.mk.injEq, reduceCtorEq] at hs
    all_goals obtain ⟨rfl, rfl⟩ := hs
    all_goals omega
  · unfold fixCount
    split <;> omega

/-- no unit is selected only when nothing but (at most 10, or more than 59) seconds elapsed: the "few seconds" case -/
theorem select_unit_none (c : Comps) (h : NonNeg c) (hs : selectUnit c = none) :
    c.years = 0 ∧ c.months = 0 ∧ c.weeks = 0 ∧ c.days = 0 ∧ c.hours = 0 ∧ c.minutes = 0 ∧
    (c.seconds ≤ 10 ∨ 59 < c.seconds) := by
  obtain ⟨h1, h2, h3, h4, h5, h6, h7⟩ := h
  unfold selectUnit at hs
  repeat' split at hs
  all_goals first
    | omega
    | (simp at hs)

example : selectUnit ⟨0, 11, 2, 2, 0, 0, 0, false⟩ = some (.year, 1) := by decide
example : selectUnit ⟨0, 0, 0, 0, 0, 0, 7, false⟩ = none := by decide
example : NonNeg ⟨0, 11, 2, 2, 0, 0, 0, false⟩ := by simp [NonNeg]

/-! ## within one unit of the elapsed time -/

/-- fixed-length units: the printed count times the unit differs from the elapsed seconds by less than one unit -/
theorem within_one_unit (c : Comps) (h : Canon c) (hy : c.years = 0) (hm : c.months = 0)
    (u : TUnit) (n : Int) (hs : selectUnit c = some (u, n)) :
    elapsed c - unitSecs u < n * unitSecs u ∧ n * unitSecs u < elapsed c + unitSecs u := by
  obtain ⟨⟨h1, h2, h3, h4, h5, h6, h7⟩, g1, g2, g3, g4, g5⟩ := h
  unfold selectUnit at hs
  unfold elapsed
  repeat' split at hs
  all_goals simp only [Option.some.injEq, Prod.mk.injEq, reduceCtorEq] at hs
  all_goals obtain ⟨rfl, rfl⟩ := hs
  all_goals simp only [unitSecs]
  all_goals omega

/-- the week and day **promotions** spelled out: more than 3 remaining days print one more week, 22 hours or more
print one more day; the printed amount then exceeds the elapsed time by at most 3 days, resp. 2 hours (never by a
whole unit), and without promotion it falls short by less than 4 days, resp. 22 hours -/
theorem within_one_unit_promotions (c : Comps) (h : Canon c) (hy : c.years = 0) (hm : c.months = 0) :
    (c.weeks > 0 → c.days > 3 → selectUnit c = some (.week, c.weeks + 1) ∧
      0 < (c.weeks + 1) * 604800 - elapsed c ∧ (c.weeks + 1) * 604800 - elapsed c ≤ 3 * 86400) ∧
    (c.weeks > 0 → c.days ≤ 3 → selectUnit c = some (.week, c.weeks) ∧
      0 ≤ elapsed c - c.weeks * 604800 ∧ elapsed c - c.weeks * 604800 < 4 * 86400) ∧
    (c.weeks = 0 → c.days > 0 → c.hours ≥ 22 → selectUnit c = some (.day, c.days + 1) ∧
      0 < (c.days + 1) * 86400 - elapsed c ∧ (c.days + 1) * 86400 - elapsed c ≤ 2 * 3600) ∧
    (c.weeks = 0 → c.days > 0 → c.hours < 22 → selectUnit c = some (.day, c.days) ∧
      0 ≤ elapsed c - c.days * 86400 ∧ elapsed c - c.days * 86400 < 22 * 3600) := by
  obtain ⟨⟨h1, h2, h3, h4, h5, h6, h7⟩, g1, g2, g3, g4, g5⟩ := h
  have a : ¬ c.years > 0 := by omega
  have b : ¬ c.months > 0 := by omega
  have b' : ¬ (c.months = 11 ∧ c.weeks * 7 + c.days > 15) := by omega
  unfold elapsed
  refine ⟨?_, ?_, ?_, ?_⟩
  · intro hw hd
    refine ⟨by simp [selectUnit, a, b, b', hw, hd], by omega, by omega⟩
  · intro hw hd
    have hd' : ¬ c.days > 3 := by omega
    refine ⟨by simp [selectUnit, a, b, b', hw, hd'], by omega, by omega⟩
  · intro hw hd hh
    have hw' : ¬ c.weeks > 0 := by omega
    refine ⟨by simp [selectUnit, a, b, b', hw', hd, hh], by omega, by omega⟩
  · intro hw hd hh
    have hw' : ¬ c.weeks > 0 := by omega
    have hh' : ¬ c.hours ≥ 22 := by omega
    refine ⟨by simp [selectUnit, a, b, b', hw', hd, hh'], by omega, by omega⟩

example : Canon ⟨0, 0, 0, 2, 22, 0, 0, false⟩ ∧ selectUnit ⟨0, 0, 0, 2, 22, 0, 0, false⟩ = some (.day, 3) ∧
    3 * 86400 - elapsed ⟨0, 0, 0, 2, 22, 0, 0, false⟩ = 7200 := by
  refine ⟨by simp [Canon, NonNeg], by decide, by decide⟩

/-- calendar units: with `M = 12·years + months` whole months elapsed (plus less than a month), a count of `n` years
satisfies `12(n−1) < M + 1` and `M < 12(n+1)`; a count of `n` months satisfies `n − 1 ≤ months < n + 1` -/
theorem within_one_unit_calendar (c : Comps) (h : Canon c) (n : Int) :
    (selectUnit c = some (.year, n) → 12 * (n - 1) < 12 * c.years + c.months + 1 ∧ 12 * c.years + c.months < 12 * (n + 1)) ∧
    (selectUnit c = some (.month, n) → c.years = 0 ∧ n - 1 ≤ c.months ∧ c.months < n + 1) := by
  obtain ⟨⟨h1, h2, h3, h4, h5, h6, h7⟩, g1, g2, g3, g4, g5⟩ := h
  constructor
  all_goals
    intro hs
    unfold selectUnit at hs
    repeat' split at hs
    all_goals simp only [Option.some.injEq, Prod.mk.injEq, reduceCtorEq, false_and, true_and] at hs
    all_goals omega

/-- when nothing is selected on canonical components, at most 10 seconds elapsed, and what is printed (a few
seconds, or the count with 0 read as 1) is within one second… of at most ten -/
theorem within_few_seconds (c : Comps) (h : Canon c) (hs : selectUnit c = none) :
    elapsed c = c.seconds ∧ 0 ≤ c.seconds ∧ c.seconds ≤ 10 ∧ (fixCount c.seconds - c.seconds ≤ 1) := by
  have hn := select_unit_none c h.1 hs
  obtain ⟨⟨h1, h2, h3, h4, h5, h6, h7⟩, g1, g2, g3, g4, g5⟩ := h
  obtain ⟨a1, a2, a3, a4, a5, a6, a7⟩ := hn
  unfold elapsed fixCount
  refine ⟨by simp [a3, a4, a5, a6], h7, by omega, ?_⟩
  split <;> omega

example : Canon ⟨0, 0, 2, 5, 3, 0, 0, false⟩ ∧ selectUnit ⟨0, 0, 2, 5, 3, 0, 0, false⟩ = some (.week, 3) := by
  constructor
  · simp [Canon, NonNeg]
  · decide

/-! ## direction -/

/-- relative to now: the template is `relative.<unit>.future.<class>` iff `invert` (the instance is later than the
reference), else `relative.<unit>.past.<class>`; the argument is the count -/
theorem direction_marker_now (ℓ : Locale) (c : Comps) (u : TUnit) (n : Int) (hs : selectUnit c = some (u, n)) :
    plan ℓ c true false = .ok ⟨showInt (fixCount n),
      [tmplAt ℓ ["translations", "relative", u.key, if c.invert then "future" else "past", ℓ.plural (fixCount n)]]⟩ := by
  simp [plan, hs, mainPlan, stepsUC, dirKey]

/-- relative to another value: the last template applied is `custom.after` iff `invert`, else `custom.before`;
it wraps the phrase produced by the first template from the count -/
theorem direction_marker_other : ∀ ℓ ∈ Gen.Locales.all, ∀ (c : Comps) (u : TUnit) (n : Int),
    selectUnit c = some (u, n) →
    ∃ first, plan ℓ c false false = .ok ⟨showInt (fixCount n),
      [first, tmplAt ℓ ["custom", if c.invert then "after" else "before"]]⟩ := by
  intro ℓ hℓ c u n hs
  have hOK := keys_total ℓ hℓ
  simp only [locOK, Bool.and_eq_true] at hOK
  have h1 := List.all_eq_true.mp hOK.1 u u.mem_all
  have h2 := List.all_eq_true.mp h1 _ (plural_range ℓ hℓ (fixCount n))
  have h3 := all_bool (all_bool (all_bool h2 c.invert) false) false
  simp only [plan, hs, mainPlan]
  unfold stepsUC at h3 ⊢
  simp only [Bool.false_eq_true, if_false] at h3 ⊢
  cases hg : ℓ.get ["custom", "units_relative", u.key, dirKey c.invert] with
  | error e => simp [hg] at h3
  | ok trans =>
    exact ⟨if falsy trans then tmplAt ℓ ["translations", "units", u.key, ℓ.plural (fixCount n)]
           else indexTmpl trans (ℓ.plural (fixCount n)), by simp [relKey]⟩

/-- the "few seconds" branch: `from_now`/`after` iff `invert`, `ago`/`before` otherwise -/
theorem direction_marker_few (ℓ : Locale) (c : Comps) (isNow : Bool) (time : String)
    (hs : selectUnit c = none) (hf : ℓ.get ["custom", "units", "few_second"] = .ok (some (.str time))) :
    plan ℓ c isNow false = .ok ⟨time.toList,
      [tmplAt ℓ ["custom", if isNow then (if c.invert then "from_now" else "ago")
                          else (if c.invert then "after" else "before")]]⟩ := by
  simp [plan, hs, fewPlan, hf, nodeStr, nowKey, relKey]

/-- `absolute=True`: no marker — the result does not depend on the direction nor on `is_now`, and is the bare
`units.<unit>.<class>` phrase (or the bare "few seconds" text) -/
theorem absolute_no_marker (ℓ : Locale) (c : Comps) (isNow isNow' inv' : Bool) :
    format ℓ { c with invert := inv' } isNow' true = format ℓ c isNow true := by
  have hsel : selectUnit { c with invert := inv' } = selectUnit c := rfl
  unfold format plan
  rw [hsel]
  cases selectUnit c with
  | some un => simp [mainPlan, stepsUC]
  | none =>
    simp only [fewPlan, mainPlan, stepsUC, if_true]

/-! ### the direction is visible in the *rendered* text, for every count -/

/-- table check behind `rendered_direction_distinct`: for every locale × unit × plural class × {now, other} the chain of
templates of the future direction and the chain of the past direction, flattened into literal characters and occurrences
of the count (`Proofs/DiffDir.lean`), differ at a position that does not depend on the count (a literal against a
different literal, a literal that cannot start an integer against the count, or one text ending first); and the
"few seconds" text wrapped by `from_now`/`ago` and `after`/`before` gives two different strings -/
theorem direction_rendered_table : ∀ ℓ ∈ Gen.Locales.all, dirOK ℓ = true := by decide +kernel

/-- **for every locale, every component tuple (hence every unit and every count, of any size and sign) and both
reference kinds, the phrase rendered for a later instance differs from the phrase rendered for an earlier one** —
no locale, unit or count where they coincide. (`absolute=True` prints no marker: `absolute_no_marker`.) -/
theorem rendered_direction_distinct : ∀ ℓ ∈ Gen.Locales.all, ∀ (c : Comps) (isNow : Bool),
    ∃ sf sp, format ℓ { c with invert := true } isNow false = .ok sf ∧
      format ℓ { c with invert := false } isNow false = .ok sp ∧ sf ≠ sp := by
  intro ℓ hℓ c isNow
  obtain ⟨sf, hf, _, _⟩ := format_diff_total ℓ hℓ { c with invert := true } isNow false
  obtain ⟨sp, hp, _, _⟩ := format_diff_total ℓ hℓ { c with invert := false } isNow false
  refine ⟨sf, sp, hf, hp, ?_⟩
  have := format_dir_ne_of (direction_rendered_table ℓ hℓ) (plural_range ℓ hℓ) c isNow
  rw [hf, hp] at this
  intro e; exact this (by rw [e])

/-- the same, per unit and count: the phrase for count `n` of unit `u` (what `format` prints once the unit is selected) -/
theorem rendered_past_future_distinct : ∀ ℓ ∈ Gen.Locales.all, ∀ (u : TUnit) (n : Int) (isNow : Bool),
    ∃ pf pp sf sp, mainPlan ℓ u n true isNow false = .ok pf ∧ mainPlan ℓ u n false isNow false = .ok pp ∧
      pf.run = .ok sf ∧ pp.run = .ok sp ∧ sf ≠ sp := by
  intro ℓ hℓ u n isNow
  have hOK := keys_total ℓ hℓ
  simp only [locOK, Bool.and_eq_true] at hOK
  obtain ⟨pf, hpf, sf, hsf, _, _⟩ := mainPlan_good hOK.1 (plural_range ℓ hℓ) u n true isNow false
  obtain ⟨pp, hpp, sp, hsp, _, _⟩ := mainPlan_good hOK.1 (plural_range ℓ hℓ) u n false isNow false
  refine ⟨pf, pp, sf, sp, hpf, hpp, hsf, hsp, ?_⟩
  have hD := direction_rendered_table ℓ hℓ
  simp only [dirOK, Bool.and_eq_true] at hD
  have := mainPlan_dir_ne hD.1 (plural_range ℓ hℓ) u n isNow
  simp only [hpf, hpp, hsf, hsp] at this
  intro e; exact this (by rw [e])

example : okIs (format L_ru.loc ⟨0, 0, 0, 0, 5, 0, 0, true⟩ true false) "через 5 часов" = true ∧
    okIs (format L_ru.loc ⟨0, 0, 0, 0, 5, 0, 0, false⟩ true false) "5 часов назад" = true := by decide +kernel
example : okIs (format L_de.loc ⟨2, 0, 0, 0, 0, 0, 0, true⟩ false false) "2 Jahren später" = true ∧
    okIs (format L_de.loc ⟨2, 0, 0, 0, 0, 0, 0, false⟩ false false) "2 Jahren zuvor" = true := by decide +kernel
example : okIs (format L_en.loc ⟨0, 0, 0, 0, 0, 0, 3, true⟩ true false) "in a few seconds" = true ∧
    okIs (format L_en.loc ⟨0, 0, 0, 0, 0, 0, 3, false⟩ true false) "a few seconds ago" = true := by decide +kernel
/-- the check is not vacuous: identical chains are rejected, and so is a literal digit facing the count
    (`"1{0}"` and `"{0}1"` render the same text for the count 1) -/
example : symNe [none, some ' ', some 'x'] [none, some ' ', some 'x'] = false ∧
    symNe [some '1', none] [none, some '1'] = false ∧
    evalSym [some '1', none] ['1'] = evalSym [none, some '1'] ['1'] := by decide
example : dirOK { L_en.loc with data := .dict [] } = false := by decide +kernel

example : okIs (format L_en.loc ⟨0, 0, 0, 3, 0, 0, 0, true⟩ true false) "in 3 days" = true := by decide +kernel
example : okIs (format L_en.loc ⟨0, 0, 0, 3, 0, 0, 0, true⟩ false false) "3 days after" = true := by decide +kernel
example : okIs (format L_en.loc ⟨0, 0, 0, 3, 0, 0, 0, false⟩ false false) "3 days before" = true := by decide +kernel
example : okIs (format L_en.loc ⟨0, 0, 0, 3, 0, 0, 0, true⟩ false true) "3 days" = true := by decide +kernel

/-! ## the model is what the source says (regenerated on every run)

`Pendulum.Gen.DiffFmt` is regenerated by tools/gen_difffmt.py from difference_formatter.py, helpers.py, duration.py,
interval.py, datetime.py, date.py, time.py and locales/locale.py — statement by statement; Python built-ins on objects
(`PyOps`) and the loaded locale (`LocaleOps`) are parameters, instantiated below with the hand model's reading (`pyM`,
`locM ℓ`; Proofs/DiffFmtGen.lean). `obs` reads the returned object as text. -/
section SourceTie
open Pendulum.DiffFmtGen
open Pendulum.Gen.DiffFmt (DiffAttrs)

/-- the `if/elif` cascade of `DifferenceFormatter.format` as written (order of the tests, thresholds, `count += 1`
promotions) selects the unit and count of `selectUnit`, for every component tuple -/
theorem select_unit_source_eq_model (c : Comps) :
    Gen.DiffFmt.select_unit (attrs c) = (selectUnit c).map (fun un => (un.1.key, un.2)) := select_unit_eq c
example : Gen.DiffFmt.select_unit ⟨0, 11, 2, 2, 0, 0, 0, false⟩ = some ("year", 1) := by decide
example : Gen.DiffFmt.select_unit ⟨0, 0, 1, 4, 0, 0, 0, false⟩ = some ("week", 2) := by decide
example : Gen.DiffFmt.select_unit ⟨0, 0, 0, 0, 0, 0, 10, false⟩ = none := by decide

/-- after the cascade: `count == 0 ⇒ 1`, the key built from `absolute` / `is_now` / `invert` (CLDR `translations.units` /
`translations.relative.<unit>.future|past`, or `custom.units_relative` with its fall-back, wrapped by `custom.after|before`)
and the chain of `.format` calls are the model's `stepsUC` run on the count; the final `else` of the cascade ("a few
seconds": `custom.units.few_second`, returned bare when `absolute`, else wrapped by `from_now|ago|after|before`, else
falling through to unit `second`) is the model's `fewPlan` — for every locale value -/
theorem template_choice_source_eq_model (ℓ : Locale) (d : DiffAttrs) (isNow ab : Bool) :
    (∀ (u : String) (n : Int), obs (Gen.DiffFmt.render pyM (locM ℓ) d isNow ab u n) =
      (match stepsUC ℓ u (ℓ.plural (fixCount n)) d.invert isNow ab with
       | .error e => .error e
       | .ok steps => runSteps steps (showInt (fixCount n)))) ∧
    obs (Gen.DiffFmt.few_seconds pyM (locM ℓ) d isNow ab (fun unit count => Gen.DiffFmt.render pyM (locM ℓ) d isNow ab unit count)) =
      (match fewPlan ℓ d.remaining_seconds d.invert isNow ab with
       | .error e => .error e
       | .ok p => p.run) :=
  ⟨fun u n => render_eq ℓ d isNow ab u n, few_eq ℓ d isNow ab⟩

/-- **`DifferenceFormatter.format` as written = `Loc.format`**, for every locale (in particular every locale of the
regenerated tree), every component tuple, every flag combination; `locale=None` uses the instance's own locale -/
theorem format_source_eq_model (ℓs : Locale) (L : String → Locale) (c : Comps) (isNow ab locNone : Bool) (loc : String) :
    obs (Gen.DiffFmt.format pyM (locM ℓs) (fun n => locM (L n)) (attrs c) isNow ab locNone loc) =
      format (if locNone then ℓs else L loc) c isNow ab := format_eq ℓs L c isNow ab locNone loc

/-- hence the generated `format` is total on the regenerated locale tree -/
theorem format_source_total : ∀ ℓ ∈ Gen.Locales.all, ∀ (c : Comps) (isNow ab : Bool),
    Good (obs (Gen.DiffFmt.format pyM (locM ℓ) (fun _ => locM ℓ) (attrs c) isNow ab true "")) := by
  intro ℓ hℓ c isNow ab
  rw [format_source_eq_model]
  exact format_diff_total ℓ hℓ c isNow ab

example : okIs (obs (Gen.DiffFmt.format pyM (locM L_en.loc) (fun _ => locM L_ru.loc) ⟨0, 0, 0, 3, 0, 0, 0, false⟩ true false true ""))
    "3 days ago" = true := by decide +kernel
example : okIs (obs (Gen.DiffFmt.format pyM (locM L_en.loc) (fun _ => locM L_ru.loc) ⟨0, 0, 0, 0, 5, 0, 0, true⟩ true false false "ru"))
    "через 5 часов" = true := by decide +kernel
example : okIs (obs (Gen.DiffFmt.format pyM (locM L_de.loc) (fun _ => locM L_de.loc) ⟨2, 0, 0, 0, 0, 0, 0, false⟩ false false true ""))
    "2 Jahren zuvor" = true := by decide +kernel
example : okIs (obs (Gen.DiffFmt.format pyM (locM L_en.loc) (fun _ => locM L_en.loc) ⟨0, 0, 0, 0, 0, 0, 3, true⟩ true false true ""))
    "in a few seconds" = true := by decide +kernel

/-- `Duration.in_words` and `Interval.in_words` as written (the component list in source order, the `abs(count) > 0`
filter, the plural class of `abs(count)`, the empty-parts branch with `abs(microseconds) / 1e6` rendered `:.2f` or the
`microsecond` unit, `separator.join`) = `inWords` on the locale they resolve (`locale` if given, else the process-wide
one; `Interval` also treats `""` as absent) -/
theorem in_words_source_eq_model (L : String → Locale) (cur : String) (c : Comps) (us : Int) (locNone : Bool)
    (loc : String) (sep : Str) :
    obs (Gen.DiffFmt.duration_in_words pyM (fun n => locM (L n)) cur c.years c.months c.weeks c.days c.hours c.minutes
      c.seconds us locNone loc (.text sep)) =
      inWords (L (resolveLocale (if locNone then none else some loc) cur)) c us sep ∧
    obs (Gen.DiffFmt.interval_in_words pyM (fun n => locM (L n)) cur c.years c.months c.weeks c.days c.hours c.minutes
      c.seconds us locNone loc (.text sep)) =
      inWords (L (resolveLocaleOr (if locNone then none else some loc) cur)) c us sep :=
  ⟨duration_in_words_eq L cur c us locNone loc sep, interval_in_words_eq L cur c us locNone loc sep⟩
example : okIs (obs (Gen.DiffFmt.duration_in_words pyM (fun _ => locM L_fr.loc) "fr" 1 2 0 0 3 0 0 0 true "" (.text [' '])))
    "1 an 2 mois 3 heures" = true := by decide +kernel
example : okIs (obs (Gen.DiffFmt.interval_in_words pyM (fun _ => locM L_en.loc) "en" 0 0 0 0 0 0 0 250000 true "" (.text [' '])))
    "0.25 second" = true := by decide +kernel

/-- `DateTime`/`Date`/`Time.diff_for_humans` and `helpers.format_diff` as written: `is_now = other is None`, the
reference replaced by the current moment in that case, the class's own `diff` called with its default `abs=True`
(read from `diff`'s signature), and `format_diff(diff, is_now, absolute, locale)` = the module-level
`DifferenceFormatter().format` on the locale `locale` or, when `None`, `pendulum._LOCALE`.  `Date.diff` /
`DateTime.diff` (the Interval they build) are pinned verbatim; `Time.diff` is tied in C20. -/
theorem diff_for_humans_source_eq_model {O : Type} (L : String → Locale) (cur : String) (now : O)
    (diff : O → Bool → DiffAttrs) (otherNone : Bool) (other : O) (ab locNone : Bool) (loc : String) :
    let model := format (L (resolveLocale (if locNone then none else some loc) cur))
      (compsOf (diff (if otherNone then now else other) true)) otherNone ab
    obs (Gen.DiffFmt.datetime_diff_for_humans pyM (fun n => locM (L n)) cur now diff otherNone other ab locNone loc) = model ∧
    obs (Gen.DiffFmt.date_diff_for_humans pyM (fun n => locM (L n)) cur now diff otherNone other ab locNone loc) = model ∧
    obs (Gen.DiffFmt.time_diff_for_humans pyM (fun n => locM (L n)) cur now diff otherNone other ab locNone loc) = model ∧
    (∀ c isNow, obs (Gen.DiffFmt.format_diff pyM (fun n => locM (L n)) cur (attrs c) isNow ab locNone loc) =
      format (L (resolveLocale (if locNone then none else some loc) cur)) c isNow ab) := by
  have hm : modelHumans L cur now diff (if otherNone then none else some other) ab (if locNone then none else some loc) =
      format (L (resolveLocale (if locNone then none else some loc) cur))
        (compsOf (diff (if otherNone then now else other) true)) otherNone ab := by
    cases otherNone <;> rfl
  exact ⟨(datetime_dfh_eq L cur now diff otherNone other ab locNone loc).trans hm,
    (date_dfh_eq L cur now diff otherNone other ab locNone loc).trans hm,
    (time_dfh_eq L cur now diff otherNone other ab locNone loc).trans hm,
    fun c isNow => format_diff_eq L cur c isNow ab locNone loc⟩

/-- the text of `Date.diff` / `DateTime.diff` the previous theorem relies on -/
theorem diff_for_humans_diff_pinned :
    Gen.DiffFmt.date_diff_src = "def diff(self, dt: date | None=None, abs: bool=True) -> Interval[Date]:\n    if dt is None:\n        dt = self.today()\n    return Interval(self, Date(dt.year, dt.month, dt.day), absolute=abs)" :=
  diff_pinned.2
example : okIs (obs (Gen.DiffFmt.date_diff_for_humans (O := Nat) pyM (fun _ => locM L_en.loc) "en" 0
    (fun o a => ⟨0, 0, 0, (o : Int), 0, 0, 0, a⟩) false 3 false true "")) "3 days after" = true := by decide +kernel

/-- `Locale.normalize_locale` (its regex compiled by the translator, class membership under `re.I` computed with
Python's `re`) and `Locale.load` as written: the cache key, the name of the `Locale` and the directory imported are
all the normalised name; a name without a directory is a `ValueError` (the `while` loop never reaches its fall-back) -/
theorem locale_name_source_eq_model (lower : Str → Str) (pathExists : Str → Bool) (s : Str) :
    Gen.DiffFmt.normalize_locale lower s = normalizeLocale lower s ∧
    Gen.DiffFmt.locale_load lower pathExists s = loadKey lower pathExists s :=
  ⟨normalize_eq lower s, load_eq lower pathExists s⟩
example : Gen.DiffFmt.normalize_locale asciiLower "EN-gb".toList = "en_gb".toList := by decide
example : Gen.DiffFmt.normalize_locale asciiLower "pt_BR.UTF-8".toList = "pt_br".toList := by decide
example : Gen.DiffFmt.normalize_locale asciiLower "Fr".toList = "fr".toList := by decide
example : (match Gen.DiffFmt.locale_load asciiLower (fun d => d == "en".toList) "en_XX".toList with
    | .error e => e == "ValueError"
    | .ok _ => false) = true := by decide
example : (match Gen.DiffFmt.locale_load asciiLower (fun d => d == "en_gb".toList) "EN-gb".toList with
    | .ok (a, b) => a == "en_gb".toList && b == "en_gb".toList
    | .error _ => false) = true := by decide
/-- every shipped name, spelled in upper case and with `-`, normalises to itself (the `alias` ops of the harness) -/
theorem shipped_names_normalise : ∀ n ∈ Gen.Locales.names,
    normalizeLocale asciiLower (n.toList.map (fun ch => if ch = '_' then '-' else ch.toUpper)) = n.toList := by
  decide +kernel

/-- `Locale.get` (walk of the nested dictionaries, `except KeyError: default`; a `TypeError` escapes),
`translation`, `plural`, `ordinal`, `ordinalize` as written are `getFrom`, the `translations.` prefix, the two
lambdas of the locale data and `Loc.ordinalize`; `match_translation` is pinned -/
theorem locale_lookup_source_eq_model (ℓ : Locale) (p : String) (ps : List String) (key : List String) (n : Int) :
    Gen.DiffFmt.locale_get pyM (.node (some ℓ.data)) (.node none) p ps =
      (match ℓ.get (p :: ps) with
       | .error e => .error e
       | .ok o => .ok (.node o)) ∧
    Gen.DiffFmt.locale_translation (locM ℓ) key = (locM ℓ).get ("translations" :: key) ∧
    Gen.DiffFmt.locale_plural ℓ.plural n = ℓ.plural n ∧ Gen.DiffFmt.locale_ordinal ℓ.ordinal n = ℓ.ordinal n ∧
    obs (Gen.DiffFmt.locale_ordinalize pyM (locM ℓ) n) = ordinalize ℓ n :=
  ⟨get_eq ℓ.data p ps, (locale_methods_eq ℓ key n).1, (locale_methods_eq ℓ key n).2.1, (locale_methods_eq ℓ key n).2.2,
    ordinalize_eq ℓ n⟩
example : okIs (obs (Gen.DiffFmt.locale_ordinalize pyM (locM L_en.loc) 23)) "23rd" = true := by decide +kernel
example : (match Gen.DiffFmt.locale_get pyM (.node (some L_en.loc.data)) (.node none) "translations" ["units", "day", "zzz"] with
    | .ok (.node none) => true
    | _ => false) = true := by decide +kernel

end SourceTie

end Pendulum.Props.C18
