import Pendulum.Proofs.WeekNav2
import Pendulum.Proofs.WeekNavDT
/-! # C16 — weekday navigation lands on the right day inside the right unit

Property theorems only. `WeekNav.*` (Model/WeekNav.lean) is the hand model of `Date`/`DateTime`
`next`, `previous`, `first_of`, `last_of`, `nth_of` (date.py:463-718, datetime.py:924-1171), tied to the
code by the correspondence run of `harness/props/c16.py`. A date is its proleptic ordinal; "inside the
month/quarter/year of the instance" (`inUnit`) is stated on the calendar *fields* (`Cal.ord2ymd`), weekdays are
Monday = 0 … Sunday = 6 (`dow`). No bound on the year or on `n`. -/
namespace Pendulum.Props.C16
open Pendulum Pendulum.Cal Pendulum.WeekNav Pendulum.DTOps

/-- `next(wd)`: the nearest strictly later date falling on `wd`, 1..7 days away (loop with fuel 7 suffices) -/
theorem next_spec (o wd : Int) (hwd : 0 ≤ wd ∧ wd ≤ 6) :
    dow (next o wd) = wd ∧ o < next o wd ∧ next o wd ≤ o + 7 ∧
    (∀ k, o < k → k < next o wd → dow k ≠ wd) := next_spec' o wd hwd

example : next 738000 3 = 738007 ∧ dow 738007 = 3 ∧ next 738000 4 = 738001 := by decide

/-- `previous(wd)`: the nearest strictly earlier date falling on `wd`, 1..7 days away -/
theorem previous_spec (o wd : Int) (hwd : 0 ≤ wd ∧ wd ≤ 6) :
    dow (previous o wd) = wd ∧ previous o wd < o ∧ o - 7 ≤ previous o wd ∧
    (∀ k, previous o wd < k → k < o → dow k ≠ wd) := previous_spec' o wd hwd

example : previous 738000 6 = 737996 := by decide

/-- the day-by-day loops equal the one-step formulas used by the repaired `DateTime.next/previous` -/
theorem next_one_step (o wd : Int) (hwd : 0 ≤ wd ∧ wd ≤ 6) :
    next o wd = o + ((wd - dow o - 1) % 7 + 1) ∧ previous o wd = o - ((dow o - wd - 1) % 7 + 1) := by
  have h1 := next_closed o wd hwd
  have h2 := previous_closed o wd hwd
  unfold firstIn lastIn dow at *; omega

/-- the instance lies in its own unit, and a unit is a set of consecutive days -/
theorem unit_convex (u : Unit') (o a b k : Int) (ha : inUnit u o a) (hb : inUnit u o b)
    (h1 : a ≤ k) (h2 : k ≤ b) : inUnit u o o ∧ inUnit u o k := by
  rw [inUnit_iff] at ha hb
  exact ⟨self_in_unit u o, (inUnit_iff u o k).mpr ⟨by omega, by omega⟩⟩

/-- `first_of(unit)` without a weekday: the first day of the unit -/
theorem first_of_none (u : Unit') (o : Int) :
    inUnit u o (firstOf u o none) ∧ ∀ k, inUnit u o k → firstOf u o none ≤ k := by
  rw [firstOf_none u o]
  have := unit_len u o
  refine ⟨(inUnit_iff u o _).mpr ⟨by omega, by omega⟩, fun k hk => ((inUnit_iff u o k).mp hk).1⟩

/-- `last_of(unit)` without a weekday: the last day of the unit -/
theorem last_of_none (u : Unit') (o : Int) :
    inUnit u o (lastOf u o none) ∧ ∀ k, inUnit u o k → k ≤ lastOf u o none := by
  rw [lastOf_none u o]
  have := unit_len u o
  refine ⟨(inUnit_iff u o _).mpr ⟨by omega, by omega⟩, fun k hk => ((inUnit_iff u o k).mp hk).2⟩

/-- `first_of(unit, wd)`: inside the unit, on weekday `wd`, and no earlier such day exists in the unit
    (month: `monthcalendar` rows 0/1; quarter and year: the same lookup on the unit's first month) -/
theorem first_of_spec (u : Unit') (o wd : Int) (hwd : 0 ≤ wd ∧ wd ≤ 6) :
    inUnit u o (firstOf u o (some wd)) ∧ dow (firstOf u o (some wd)) = wd ∧
    ∀ k, inUnit u o k → dow k = wd → firstOf u o (some wd) ≤ k := by
  rw [firstOf_some u o wd hwd]
  have hl := unit_len u o
  obtain ⟨f1, f2, f3, f4⟩ := firstIn_spec (uLo u o) wd hwd
  refine ⟨(inUnit_iff u o _).mpr ⟨by omega, by omega⟩, f3, fun k hk hd => f4 k ((inUnit_iff u o k).mp hk).1 hd⟩

example : firstOf .quarter 738000 (some 0) = 737976 := by decide

/-- `last_of(unit, wd)`: inside the unit, on weekday `wd`, and no later such day exists in the unit -/
theorem last_of_spec (u : Unit') (o wd : Int) (hwd : 0 ≤ wd ∧ wd ≤ 6) :
    inUnit u o (lastOf u o (some wd)) ∧ dow (lastOf u o (some wd)) = wd ∧
    ∀ k, inUnit u o k → dow k = wd → k ≤ lastOf u o (some wd) := by
  rw [lastOf_some u o wd hwd]
  have hl := unit_len u o
  obtain ⟨f1, f2, f3, f4⟩ := lastIn_spec (uHi u o) wd hwd
  refine ⟨(inUnit_iff u o _).mpr ⟨by omega, by omega⟩, f3, fun k hk hd => f4 k ((inUnit_iff u o k).mp hk).2 hd⟩

example : lastOf .year 738000 (some 6) = 738150 := by decide

/-- the days of the unit falling on `wd`, in increasing order, are `first, first + 7, first + 14, …`:
    every such day is `first + 7 j`, and if `first + 7 j` is in the unit so are all earlier ones -/
theorem unit_weekdays (u : Unit') (o wd : Int) (hwd : 0 ≤ wd ∧ wd ≤ 6) :
    (∀ k, inUnit u o k → dow k = wd → ∃ j : Nat, k = firstOf u o (some wd) + 7 * (j : Int)) ∧
    (∀ j : Nat, inUnit u o (firstOf u o (some wd) + 7 * (j : Int)) →
       ∀ i : Nat, i ≤ j → inUnit u o (firstOf u o (some wd) + 7 * (i : Int)) ∧
                          dow (firstOf u o (some wd) + 7 * (i : Int)) = wd) := by
  obtain ⟨h1, h2, h3⟩ := first_of_spec u o wd hwd
  constructor
  · intro k hk hd
    have := h3 k hk hd
    refine ⟨((k - firstOf u o (some wd)) / 7).toNat, ?_⟩
    unfold dow at h2 hd; omega
  · intro j hj i hij
    constructor
    · exact (unit_convex u o _ _ _ h1 hj (by omega) (by omega)).2
    · unfold dow at *; omega

/-- `nth_of(unit, n, wd)` for every n ≥ 1: a returned date is the n-th `wd` of the unit
    (`first + 7 (n − 1)`, inside the unit, on `wd`) -/
theorem nth_of_some (u : Unit') (o : Int) (n : Nat) (wd r : Int) (hn : 1 ≤ n) (hwd : 0 ≤ wd ∧ wd ≤ 6)
    (h : nthOf u o n wd = some r) :
    r = firstOf u o (some wd) + 7 * ((n : Int) - 1) ∧ inUnit u o r ∧ dow r = wd := by
  rw [nthOf_eq u o n wd hn hwd] at h
  rw [firstOf_some u o wd hwd]
  obtain ⟨f1, f2, f3, f4⟩ := firstIn_spec (uLo u o) wd hwd
  unfold nthSpec at h
  split at h
  · injection h with h
    subst h
    refine ⟨rfl, (inUnit_iff u o _).mpr ⟨by omega, by assumption⟩, ?_⟩
    unfold dow at *; omega
  · cases h

example : nthOf .month 738000 4 2 = some 737999 := by decide

/-- … and `PendulumException` is raised exactly when the unit holds fewer than n such days:
    no day of the unit on `wd` is as late as the n-th candidate -/
theorem nth_of_none_iff (u : Unit') (o : Int) (n : Nat) (wd : Int) (hn : 1 ≤ n) (hwd : 0 ≤ wd ∧ wd ≤ 6) :
    nthOf u o n wd = none ↔
      ∀ k, inUnit u o k → dow k = wd → k < firstOf u o (some wd) + 7 * ((n : Int) - 1) := by
  rw [nthOf_eq u o n wd hn hwd, firstOf_some u o wd hwd]
  obtain ⟨f1, f2, f3, f4⟩ := firstIn_spec (uLo u o) wd hwd
  unfold nthSpec
  constructor
  · intro h k hk hd
    split at h
    · cases h
    · have := ((inUnit_iff u o k).mp hk).2; omega
  · intro h
    split
    · rename_i hle
      have hin : inUnit u o (firstIn (uLo u o) wd + 7 * ((n : Int) - 1)) :=
        (inUnit_iff u o _).mpr ⟨by omega, hle⟩
      have := h _ hin (by unfold dow at *; omega)
      omega
    · rfl

example : nthOf .month 738000 5 0 = none := by decide

/-- totality: for every n ≥ 1 the call either returns the n-th occurrence or raises, according to whether
    `first + 7 (n − 1)` is still inside the unit -/
theorem nth_of_total (u : Unit') (o : Int) (n : Nat) (wd : Int) (hn : 1 ≤ n) (hwd : 0 ≤ wd ∧ wd ≤ 6) :
    (inUnit u o (firstOf u o (some wd) + 7 * ((n : Int) - 1)) ∧
       nthOf u o n wd = some (firstOf u o (some wd) + 7 * ((n : Int) - 1))) ∨
    (¬ inUnit u o (firstOf u o (some wd) + 7 * ((n : Int) - 1)) ∧ nthOf u o n wd = none) := by
  rw [nthOf_eq u o n wd hn hwd, firstOf_some u o wd hwd]
  obtain ⟨f1, f2, f3, f4⟩ := firstIn_spec (uLo u o) wd hwd
  unfold nthSpec
  by_cases hle : firstIn (uLo u o) wd + 7 * ((n : Int) - 1) ≤ uHi u o
  · left; rw [if_pos hle]
    exact ⟨(inUnit_iff u o _).mpr ⟨by omega, hle⟩, rfl⟩
  · right; rw [if_neg hle]
    exact ⟨fun h => hle ((inUnit_iff u o _).mp h).2, rfl⟩

/-- `nth_of(unit, 1, wd)` is `first_of(unit, wd)` -/
theorem nth_of_one (u : Unit') (o wd : Int) (hwd : 0 ≤ wd ∧ wd ≤ 6) :
    nthOf u o 1 wd = some (firstOf u o (some wd)) := by
  rw [nthOf_eq u o 1 wd (by omega) hwd, firstOf_some u o wd hwd]
  exact nthSpec_one _ _ _ hwd (unit_len u o)

/-- every unit holds at least four and at most 53 days of each weekday -/
theorem nth_of_four_always (u : Unit') (o : Int) (n : Nat) (wd : Int) (hn : 1 ≤ n) (h4 : n ≤ 4)
    (hwd : 0 ≤ wd ∧ wd ≤ 6) : nthOf u o n wd ≠ none := by
  rw [nthOf_eq u o n wd hn hwd]
  obtain ⟨f1, f2, f3, f4⟩ := firstIn_spec (uLo u o) wd hwd
  have := unit_len u o
  unfold nthSpec
  rw [if_pos (by omega)]; simp

/-! ## DateTime (zone kept, time 00:00 unless keep_time)

`Plain z w` = "`DateTime.create` builds the wall value `w` unchanged in zone `z`" — always true for naive values
and fixed offsets, and for a named zone exactly when `w` is not skipped (and inside years 1..9999). The
`_partial` theorems hold on the region where the wall times the algorithm constructs are `Plain`; its
complement is the region of known finding F11 (matcher `c16_constructed_wall_irregular`). -/

/-- for a named zone, `Plain` fails on skipped wall values and holds on all others inside the supported range;
    "skipped" is the code's own test `utcoffset(fold=1) > utcoffset(fold=0)` (≡ no instant maps to it, `Zone.gap_iff`) -/
theorem plain_named_iff (zt : Zone.Z) (w : Int) (hr : inRange w = true) :
    Plain (.named zt) w ↔ ¬ zt.woff true w > zt.woff false w :=
  ⟨fun h hs => not_plain_of_skipped zt w hs h, fun hs => plain_named zt w hs hr⟩

/-- naive values and fixed offsets have no skipped wall time -/
theorem plain_naive_fixed (z : ZRef) (hz : z = .naive ∨ ∃ off, z = .fixed off) (w : Int) : Plain z w := by
  rcases hz with h | ⟨off, h⟩ <;> subst h
  · exact plain_naive w
  · exact plain_fixed off w

/-- `DateTime.next(wd)` (repaired one-step version): the Date-level `next` of the instance's day, at 00:00, zone
    kept — provided the midnights of the instance's day and of the target day are not skipped -/
theorem dt_next_partial (v : V) (wd : Int) (hwd : 0 ≤ wd ∧ wd ≤ 6)
    (hs : Plain v.z (wallOf (dayOrd v.w) 0)) (ht : Plain v.z (wallOf (next (dayOrd v.w) wd) 0)) :
    ∃ f', dtNext v wd false = .ok ⟨v.z, wallOf (next (dayOrd v.w) wd) 0, f'⟩ := dtNext_plain v wd hwd hs ht

/-- `next(wd, keep_time=True)`: same day as the Date-level `next`, time of day kept -/
theorem dt_next_keep_time_partial (v : V) (wd : Int) (hwd : 0 ≤ wd ∧ wd ≤ 6)
    (ht : Plain v.z (wallOf (next (dayOrd v.w) wd) (tod v.w))) :
    ∃ f', dtNext v wd true = .ok ⟨v.z, wallOf (next (dayOrd v.w) wd) (tod v.w), f'⟩ := dtNext_keep_plain v wd hwd ht

theorem dt_previous_partial (v : V) (wd : Int) (hwd : 0 ≤ wd ∧ wd ≤ 6)
    (hs : Plain v.z (wallOf (dayOrd v.w) 0)) (ht : Plain v.z (wallOf (previous (dayOrd v.w) wd) 0)) :
    ∃ f', dtPrevious v wd false = .ok ⟨v.z, wallOf (previous (dayOrd v.w) wd) 0, f'⟩ := dtPrevious_plain v wd hwd hs ht

theorem dt_previous_keep_time_partial (v : V) (wd : Int) (hwd : 0 ≤ wd ∧ wd ≤ 6)
    (ht : Plain v.z (wallOf (previous (dayOrd v.w) wd) (tod v.w))) :
    ∃ f', dtPrevious v wd true = .ok ⟨v.z, wallOf (previous (dayOrd v.w) wd) (tod v.w), f'⟩ :=
  dtPrevious_keep_plain v wd hwd ht

/-- `DateTime.first_of("month", wd | None)` lands on the Date-level result at 00:00 -/
theorem dt_first_of_month_partial (v : V) (wd : Option Int) (hwd : ∀ w, wd = some w → 0 ≤ w ∧ w ≤ 6)
    (hs : Plain v.z (wallOf (dayOrd v.w) 0)) (ht : Plain v.z (wallOf (firstOf .month (dayOrd v.w) wd) 0)) :
    ∃ f', dtFirstOf .month v wd = .ok ⟨v.z, wallOf (firstOf .month (dayOrd v.w) wd) 0, f'⟩ :=
  dtFirstOfMonth_plain v wd hwd hs ht

theorem dt_last_of_month_partial (v : V) (wd : Option Int) (hwd : ∀ w, wd = some w → 0 ≤ w ∧ w ≤ 6)
    (hs : Plain v.z (wallOf (dayOrd v.w) 0)) (ht : Plain v.z (wallOf (lastOf .month (dayOrd v.w) wd) 0)) :
    ∃ f', dtLastOf .month v wd = .ok ⟨v.z, wallOf (lastOf .month (dayOrd v.w) wd) 0, f'⟩ :=
  dtLastOfMonth_plain v wd hwd hs ht

/-- `DateTime.nth_of("month", n, wd)`, every n ≥ 1: Date-level result at 00:00, and `PendulumException` in exactly
    the same cases — provided the midnights (and the instance's time of day) of the days walked over are not skipped -/
theorem dt_nth_of_month_partial (v : V) (nth : Nat) (wd : Int) (hn : 1 ≤ nth) (hwd : 0 ≤ wd ∧ wd ≤ 6)
    (hs : Plain v.z (wallOf (dayOrd v.w) 0))
    (hp : RegularOn v.z (tod v.w) (firstOf .month (dayOrd v.w) none) (firstOf .month (dayOrd v.w) none + 7 * nth)) :
    (∃ r f', nthOf .month (dayOrd v.w) nth wd = some r ∧ dtNthOf .month v nth wd = .ok (some ⟨v.z, wallOf r 0, f'⟩)) ∨
    (nthOf .month (dayOrd v.w) nth wd = none ∧ dtNthOf .month v nth wd = .ok none) := by
  rw [firstOf_none] at hp
  exact dtNthOfMonth_plain v nth wd hn hwd hs hp

/-- on naive values and fixed offsets the month-level DateTime functions agree with the Date level unconditionally -/
theorem dt_naive_fixed_month (v : V) (hz : v.z = .naive ∨ ∃ off, v.z = .fixed off) (nth : Nat) (wd : Int)
    (hn : 1 ≤ nth) (hwd : 0 ≤ wd ∧ wd ≤ 6) :
    (∃ f', dtNext v wd false = .ok ⟨v.z, wallOf (next (dayOrd v.w) wd) 0, f'⟩) ∧
    (∃ f', dtPrevious v wd false = .ok ⟨v.z, wallOf (previous (dayOrd v.w) wd) 0, f'⟩) ∧
    (∃ f', dtNext v wd true = .ok ⟨v.z, wallOf (next (dayOrd v.w) wd) (tod v.w), f'⟩) ∧
    (∃ f', dtFirstOf .month v (some wd) = .ok ⟨v.z, wallOf (firstOf .month (dayOrd v.w) (some wd)) 0, f'⟩) ∧
    (∃ f', dtLastOf .month v (some wd) = .ok ⟨v.z, wallOf (lastOf .month (dayOrd v.w) (some wd)) 0, f'⟩) ∧
    ((∃ r f', nthOf .month (dayOrd v.w) nth wd = some r ∧ dtNthOf .month v nth wd = .ok (some ⟨v.z, wallOf r 0, f'⟩)) ∨
     (nthOf .month (dayOrd v.w) nth wd = none ∧ dtNthOf .month v nth wd = .ok none)) := by
  have P := plain_naive_fixed v.z hz
  have hw : ∀ w, some wd = some w → 0 ≤ w ∧ w ≤ 6 := by intro w h; cases h; exact hwd
  exact ⟨dt_next_partial v wd hwd (P _) (P _), dt_previous_partial v wd hwd (P _) (P _),
    dt_next_keep_time_partial v wd hwd (P _), dt_first_of_month_partial v (some wd) hw (P _) (P _),
    dt_last_of_month_partial v (some wd) hw (P _) (P _),
    dt_nth_of_month_partial v nth wd hn hwd (P _) (fun k _ _ => ⟨P _, P _⟩)⟩

/-- toy copy of America/Sao_Paulo around 2013-10-20 (UTC−3 → UTC−2 at 03:00Z: local 00:00–01:00 skipped) -/
def saoPaulo2013 : Zone.Z := ⟨-10800000000, [⟨1382238000000000, -7200000000⟩]⟩

/-- F11, first witness: outside the `Plain` region `first_of("month")` does not land on 00:00 —
    2013-10-20T12:00 → 2013-10-01T01:00 -/
theorem dt_first_of_month_counterexample :
    (match dtFirstOf .month ⟨.named saoPaulo2013, 1382270400000000, true⟩ none with
     | .ok r => r.w | .error _ => 0) = wallOf (firstOf .month 735161 none) 0 + 3600000000 := by decide

/-- F11, second witness: `nth_of("month", 4, SUNDAY)` from 2013-10-01T12:00 returns the *third* Sunday
    (2013-10-20T01:00) although the Date level gives 2013-10-27 -/
theorem dt_nth_of_month_counterexample :
    nthOf .month 735142 4 6 = some 735168 ∧
    (match dtNthOf .month ⟨.named saoPaulo2013, 1380628800000000, true⟩ 4 6 with
     | .ok (some r) => r.w | _ => 0) = wallOf 735161 0 + 3600000000 := by decide

end Pendulum.Props.C16
