import Pendulum.Proofs.WeekNav2
import Pendulum.Proofs.WeekNavDT
import Pendulum.Proofs.WeekNavDTQY
import Pendulum.Proofs.WeekNavGen
/-! # C16 — weekday navigation lands on the right day inside the right unit

Property theorems only. `WeekNav.*` (Model/WeekNav.lean) is the hand model of `Date`/`DateTime`
`next`, `previous`, `first_of`, `last_of`, `nth_of` (date.py:463-718, datetime.py:924-1171), tied to the
code by the correspondence run of `harness/props/c16.py`. A date is its proleptic ordinal; "inside the
month/quarter/year of the instance" (`inUnit`) is stated on the calendar *fields* (`Cal.ord2ymd`), weekdays are
Monday = 0 … Sunday = 6 (`dow`). No bound on the year or on `n`. -/
namespace Pendulum.Props.C16
open Pendulum Pendulum.Cal Pendulum.WeekNav Pendulum.DTOps

/-- `next(wd)`: the nearest strictly later date falling on `wd`, 1..7 days away (loop with fuel 7 suffices) -/
theorem next_spec (o wd : Int) (hwd : 0 ≤ wd ∧ wd ≤ 6) :
    dow (next o wd) = wd ∧ o < next o wd ∧ next o wd ≤ o + 7 ∧
    (∀ k, o < k → k < next o wd → dow k ≠ wd) := next_spec' o wd hwd

example : next 738000 3 = 738007 ∧ dow 738007 = 3 ∧ next 738000 4 = 738001 := by decide

/-- `previous(wd)`: the nearest strictly earlier date falling on `wd`, 1..7 days away -/
theorem previous_spec (o wd : Int) (hwd : 0 ≤ wd ∧ wd ≤ 6) :
    dow (previous o wd) = wd ∧ previous o wd < o ∧ o - 7 ≤ previous o wd ∧
    (∀ k, previous o wd < k → k < o → dow k ≠ wd) := previous_spec' o wd hwd

example : previous 738000 6 = 737996 := by decide

/-- the day-by-day loops equal the one-step formulas used by the repaired `DateTime.next/previous` -/
theorem next_one_step (o wd : Int) (hwd : 0 ≤ wd ∧ wd ≤ 6) :
    next o wd = o + ((wd - dow o - 1) % 7 + 1) ∧ previous o wd = o - ((dow o - wd - 1) % 7 + 1) := by
  have h1 := next_closed o wd hwd
  have h2 := previous_closed o wd hwd
  unfold firstIn lastIn dow at *; omega

/-- the instance lies in its own unit, and a unit is a set of consecutive days -/
theorem unit_convex (u : Unit') (o a b k : Int) (ha : inUnit u o a) (hb : inUnit u o b)
    (h1 : a ≤ k) (h2 : k ≤ b) : inUnit u o o ∧ inUnit u o k := by
  rw [inUnit_iff] at ha hb
  exact ⟨self_in_unit u o, (inUnit_iff u o k).mpr ⟨by omega, by omega⟩⟩

/-- `first_of(unit)` without a weekday: the first day of the unit -/
theorem first_of_none (u : Unit') (o : Int) :
    inUnit u o (firstOf u o none) ∧ ∀ k, inUnit u o k → firstOf u o none ≤ k := by
  rw [firstOf_none u o]
  have := unit_len u o
  refine ⟨(inUnit_iff u o _).mpr ⟨by omega, by omega⟩, fun k hk => ((inUnit_iff u o k).mp hk).1⟩

/-- `last_of(unit)` without a weekday: the last day of the unit -/
theorem last_of_none (u : Unit') (o : Int) :
    inUnit u o (lastOf u o none) ∧ ∀ k, inUnit u o k → k ≤ lastOf u o none := by
  rw [lastOf_none u o]
  have := unit_len u o
  refine ⟨(inUnit_iff u o _).mpr ⟨by omega, by omega⟩, fun k hk => ((inUnit_iff u o k).mp hk).2⟩

/-- `first_of(unit, wd)`: inside the unit, on weekday `wd`, and no earlier such day exists in the unit
    (month: `monthcalendar` rows 0/1; quarter and year: the same lookup on the unit's first month) -/
theorem first_of_spec (u : Unit') (o wd : Int) (hwd : 0 ≤ wd ∧ wd ≤ 6) :
    inUnit u o (firstOf u o (some wd)) ∧ dow (firstOf u o (some wd)) = wd ∧
    ∀ k, inUnit u o k → dow k = wd → firstOf u o (some wd) ≤ k := by
  rw [firstOf_some u o wd hwd]
  have hl := unit_len u o
  obtain ⟨f1, f2, f3, f4⟩ := firstIn_spec (uLo u o) wd hwd
  refine ⟨(inUnit_iff u o _).mpr ⟨by omega, by omega⟩, f3, fun k hk hd => f4 k ((inUnit_iff u o k).mp hk).1 hd⟩

example : firstOf .quarter 738000 (some 0) = 737976 := by decide

/-- `last_of(unit, wd)`: inside the unit, on weekday `wd`, and no later such day exists in the unit -/
theorem last_of_spec (u : Unit') (o wd : Int) (hwd : 0 ≤ wd ∧ wd ≤ 6) :
    inUnit u o (lastOf u o (some wd)) ∧ dow (lastOf u o (some wd)) = wd ∧
    ∀ k, inUnit u o k → dow k = wd → k ≤ lastOf u o (some wd) := by
  rw [lastOf_some u o wd hwd]
  have hl := unit_len u o
  obtain ⟨f1, f2, f3, f4⟩ := lastIn_spec (uHi u o) wd hwd
  refine ⟨(inUnit_iff u o _).mpr ⟨by omega, by omega⟩, f3, fun k hk hd => f4 k ((inUnit_iff u o k).mp hk).2 hd⟩

example : lastOf .year 738000 (some 6) = 738150 := by decide

/-- the days of the unit falling on `wd`, in increasing order, are `first, first + 7, first + 14, …`:
    every such day is `first + 7 j`, and if `first + 7 j` is in the unit so are all earlier ones -/
theorem unit_weekdays (u : Unit') (o wd : Int) (hwd : 0 ≤ wd ∧ wd ≤ 6) :
    (∀ k, inUnit u o k → dow k = wd → ∃ j : Nat, k = firstOf u o (some wd) + 7 * (j : Int)) ∧
    (∀ j : Nat, inUnit u o (firstOf u o (some wd) + 7 * (j : Int)) →
       ∀ i : Nat, i ≤ j → inUnit u o (firstOf u o (some wd) + 7 * (i : Int)) ∧
                          dow (firstOf u o (some wd) + 7 * (i : Int)) = wd) := by
  obtain ⟨h1, h2, h3⟩ := first_of_spec u o wd hwd
  constructor
  · intro k hk hd
    have := h3 k hk hd
    refine ⟨((k - firstOf u o (some wd)) / 7).toNat, ?_⟩
    unfold dow at h2 hd; omega
  · intro j hj i hij
    constructor
    · exact (unit_convex u o _ _ _ h1 hj (by omega) (by omega)).2
    · unfold dow at *; omega

/-- `nth_of(unit, n, wd)` for every n ≥ 1: a returned date is the n-th `wd` of the unit
    (`first + 7 (n − 1)`, inside the unit, on `wd`) -/
theorem nth_of_some (u : Unit') (o : Int) (n : Nat) (wd r : Int) (hn : 1 ≤ n) (hwd : 0 ≤ wd ∧ wd ≤ 6)
    (h : nthOf u o n wd = some r) :
    r = firstOf u o (some wd) + 7 * ((n : Int) - 1) ∧ inUnit u o r ∧ dow r = wd := by
  rw [nthOf_eq u o n wd hn hwd] at h
  rw [firstOf_some u o wd hwd]
  obtain ⟨f1, f2, f3, f4⟩ := firstIn_spec (uLo u o) wd hwd
  unfold nthSpec at h
  split at h
  · injection h with h
    subst h
    refine ⟨rfl, (inUnit_iff u o _).mpr ⟨by omega, by assumption⟩, ?_⟩
    unfold dow at *; omega
  · cases h

example : nthOf .month 738000 4 2 = some 737999 := by decide

/-- … and `PendulumException` is raised exactly when the unit holds fewer than n such days:
    no day of the unit on `wd` is as late as the n-th candidate -/
theorem nth_of_none_iff (u : Unit') (o : Int) (n : Nat) (wd : Int) (hn : 1 ≤ n) (hwd : 0 ≤ wd ∧ wd ≤ 6) :
    nthOf u o n wd = none ↔
      ∀ k, inUnit u o k → dow k = wd → k < firstOf u o (some wd) + 7 * ((n : Int) - 1) := by
  rw [nthOf_eq u o n wd hn hwd, firstOf_some u o wd hwd]
  obtain ⟨f1, f2, f3, f4⟩ := firstIn_spec (uLo u o) wd hwd
  unfold nthSpec
  constructor
  · intro h k hk hd
    split at h
    · cases h
    · have := ((inUnit_iff u o k).mp hk).2; omega
  · intro h
    split
    · rename_i hle
      have hin : inUnit u o (firstIn (uLo u o) wd + 7 * ((n : Int) - 1)) :=
        (inUnit_iff u o _).mpr ⟨by omega, hle⟩
      have := h _ hin (by unfold dow at *; omega)
      omega
    · rfl

example : nthOf .month 738000 5 0 = none := by decide

/-- totality: for every n ≥ 1 the call either returns the n-th occurrence or raises, according to whether
    `first + 7 (n − 1)` is still inside the unit -/
theorem nth_of_total (u : Unit') (o : Int) (n : Nat) (wd : Int) (hn : 1 ≤ n) (hwd : 0 ≤ wd ∧ wd ≤ 6) :
    (inUnit u o (firstOf u o (some wd) + 7 * ((n : Int) - 1)) ∧
       nthOf u o n wd = some (firstOf u o (some wd) + 7 * ((n : Int) - 1))) ∨
    (¬ inUnit u o (firstOf u o (some wd) + 7 * ((n : Int) - 1)) ∧ nthOf u o n wd = none) := by
  rw [nthOf_eq u o n wd hn hwd, firstOf_some u o wd hwd]
  obtain ⟨f1, f2, f3, f4⟩ := firstIn_spec (uLo u o) wd hwd
  unfold nthSpec
  by_cases hle : firstIn (uLo u o) wd + 7 * ((n : Int) - 1) ≤ uHi u o
  · left; rw [if_pos hle]
    exact ⟨(inUnit_iff u o _).mpr ⟨by omega, hle⟩, rfl⟩
  · right; rw [if_neg hle]
    exact ⟨fun h => hle ((inUnit_iff u o _).mp h).2, rfl⟩

/-- `nth_of(unit, 1, wd)` is `first_of(unit, wd)` -/
theorem nth_of_one (u : Unit') (o wd : Int) (hwd : 0 ≤ wd ∧ wd ≤ 6) :
    nthOf u o 1 wd = some (firstOf u o (some wd)) := by
  rw [nthOf_eq u o 1 wd (by omega) hwd, firstOf_some u o wd hwd]
  exact nthSpec_one _ _ _ hwd (unit_len u o)

/-- every unit holds at least four and at most 53 days of each weekday -/
theorem nth_of_four_always (u : Unit') (o : Int) (n : Nat) (wd : Int) (hn : 1 ≤ n) (h4 : n ≤ 4)
    (hwd : 0 ≤ wd ∧ wd ≤ 6) : nthOf u o n wd ≠ none := by
  rw [nthOf_eq u o n wd hn hwd]
  obtain ⟨f1, f2, f3, f4⟩ := firstIn_spec (uLo u o) wd hwd
  have := unit_len u o
  unfold nthSpec
  rw [if_pos (by omega)]; simp

/-! ## DateTime (zone kept, time 00:00 unless keep_time) — repaired tree

Without `keep_time` every function returns `self._boundary(y, m, d)` (`boundaryOrd`, i.e. `StartOf.edge`, the model of
`_boundary` from property C12) of the **Date-level** result proved above; `dt_boundary_*` say what that value is:
00:00 of the day in the same zone, moved forward by the length of the gap when 00:00 is skipped there — whatever the
fold of the instance. Nothing is assumed about the zone table. -/

/-- `_boundary` on a naive value or a fixed offset: 00:00 of the day, zone kept -/
theorem dt_boundary_naive_fixed (w : Int) (f : Bool) (off o : Int) :
    boundaryOrd ⟨.naive, w, f⟩ o = .ok ⟨.naive, wallOf o 0, f⟩ ∧
    boundaryOrd ⟨.fixed off, w, f⟩ o = .ok ⟨.fixed off, wallOf o 0, false⟩ :=
  ⟨boundaryOrd_naive w f o, boundaryOrd_fixed off w f o⟩

/-- `_boundary` in a named zone (any table): the zone is kept; the wall time is 00:00 of the day when that is not
    skipped, and 00:00 + (length of the gap) when it is — for both folds of the instance; the only failure is leaving
    years 1..9999. (`Proofs/StartOf.lean` `startVal_render`: for well-formed tables this is the rendering of the
    first instant of the day.) -/
theorem dt_boundary_named (zt : Zone.Z) (w : Int) (f : Bool) (o : Int) :
    (∃ r, boundaryOrd ⟨.named zt, w, f⟩ o = .ok r ∧ r.z = .named zt ∧
        r.w = (if zt.woff true (wallOf o 0) > zt.woff false (wallOf o 0)
               then wallOf o 0 + (zt.woff true (wallOf o 0) - zt.woff false (wallOf o 0)) else wallOf o 0)) ∨
    boundaryOrd ⟨.named zt, w, f⟩ o = .error .overflow := by
  rw [boundaryOrd_named]
  split
  · left
    refine ⟨_, rfl, ?_, startVal_wall zt (wallOf o 0) f⟩
    unfold StartOf.startVal; split
    · rfl
    · split <;> rfl
  · right; rfl

/-- `DateTime.next(wd)` / `previous(wd)`: the first moment of the Date-level `next` / `previous` of the instance's day -/
theorem dt_next (v : V) (wd : Int) (hwd : 0 ≤ wd ∧ wd ≤ 6) :
    dtNext v wd false = boundaryOrd v (next (dayOrd v.w) wd) ∧
    dtPrevious v wd false = boundaryOrd v (previous (dayOrd v.w) wd) :=
  ⟨dtNext_eq v wd hwd, dtPrevious_eq v wd hwd⟩

/-- `next/previous(wd, keep_time=True)`: the instance's time of day on the Date-level target day, built by
    `DateTime.create` with the default fold (a skipped time is moved forward by the documented rule) -/
theorem dt_next_keep_time (v : V) (wd : Int) (hwd : 0 ≤ wd ∧ wd ≤ 6) :
    dtNext v wd true = create v.z (wallOf (next (dayOrd v.w) wd) (tod v.w)) true false ∧
    dtPrevious v wd true = create v.z (wallOf (previous (dayOrd v.w) wd) (tod v.w)) true false :=
  ⟨dtNext_keep_eq v wd hwd, dtPrevious_keep_eq v wd hwd⟩

/-- `DateTime.first_of("month", wd | None)` / `last_of` -/
theorem dt_first_last_of_month (v : V) (wd : Option Int) (hwd : ∀ w, wd = some w → 0 ≤ w ∧ w ≤ 6) :
    dtFirstOf .month v wd = boundaryOrd v (firstOf .month (dayOrd v.w) wd) ∧
    dtLastOf .month v wd = boundaryOrd v (lastOf .month (dayOrd v.w) wd) :=
  ⟨dtFirstOfMonth_eq v wd hwd, dtLastOfMonth_eq v wd hwd⟩

/-- `DateTime.nth_of("month", n, wd)`, every n ≥ 1: `_boundary` of the Date-level result, `PendulumException` in exactly
    the same cases. Partial: assumes that none of the days walked over (first of the month … + 7 n) is skipped
    *entirely* in the zone (`OnDay`; Pacific/Kiritimati 1994-12-31, Pacific/Apia 2011-12-30) — there the walk restarts
    from the following day; covered by the correspondence run only. -/
theorem dt_nth_of_month_partial (v : V) (nth : Nat) (wd : Int) (hn : 1 ≤ nth) (hwd : 0 ≤ wd ∧ wd ≤ 6)
    (hp : ∀ j, firstOf .month (dayOrd v.w) none ≤ j → j ≤ firstOf .month (dayOrd v.w) none + 7 * nth → OnDay v.z j) :
    dtNthOf .month v nth wd =
      match nthOf .month (dayOrd v.w) nth wd with
      | some r => (boundaryOrd v r).map some
      | none => .ok none := by
  rw [firstOf_none] at hp
  exact dtNthOfMonth_eq v nth wd hn hwd hp

/-- the side condition of `dt_nth_of_month_partial` always holds for naive values and fixed offsets, and for a named
    zone on every day whose midnight is not skipped by a gap of 24 h or more -/
theorem on_day_cases (o off : Int) (zt : Zone.Z)
    (hg : zt.woff true (wallOf o 0) - zt.woff false (wallOf o 0) < WeekNav.DAY)
    (hr : ∀ f, inRange (StartOf.startVal zt (wallOf o 0) f).w = true) :
    OnDay .naive o ∧ OnDay (.fixed off) o ∧ OnDay (.named zt) o :=
  ⟨onDay_naive o, onDay_fixed off o, onDay_named zt o hg hr⟩

/-- toy copy of America/Sao_Paulo around 2013-10-20 (UTC−3 → UTC−2 at 03:00Z: local 00:00–01:00 skipped) -/
def saoPaulo2013 : Zone.Z := ⟨-10800000000, [⟨1382238000000000, -7200000000⟩]⟩

/-- regression witnesses for the repaired defect (F11): from 2013-10-20T12:00 `first_of("month")` is 2013-10-01T00:00,
    and from 2013-10-01T12:00 `nth_of("month", 3 | 4, SUNDAY)` are 2013-10-20T01:00 (midnight skipped) and 2013-10-27T00:00,
    for both folds of the instance -/
theorem dt_sao_paulo_2013 :
    ∀ f, (match dtFirstOf .month ⟨.named saoPaulo2013, 1382270400000000, f⟩ none with
          | .ok r => r.w | .error _ => 0) = wallOf 735142 0 ∧
         (match dtNthOf .month ⟨.named saoPaulo2013, 1380628800000000, f⟩ 3 6 with
          | .ok (some r) => r.w | _ => 0) = wallOf 735161 0 + 3600000000 ∧
         (match dtNthOf .month ⟨.named saoPaulo2013, 1380628800000000, f⟩ 4 6 with
          | .ok (some r) => r.w | _ => 0) = wallOf 735168 0 := by decide

/-! ## DateTime, quarter and year variants

`first_of/last_of("quarter"|"year")` build an *anchor* with `self._boundary` (first day of the unit; first day of the
unit's last month) and call the month-level function **on the anchor**; `nth_of` walks with `next()` from such an anchor and
ends with `self._boundary(self.year, dt.month, dt.day)`. Side condition as for the month: the anchor day / the walked days
are not skipped entirely in the zone (`OnDay`; always true for naive values and fixed offsets, `on_day_cases`). -/

/-- `DateTime.first_of("quarter"|"year", wd | None)`: `_boundary` — called from the anchor `r0 = self._boundary(first day
    of the unit)` — of the Date-level result. Partial: the first day of the unit is not skipped entirely in the zone. -/
theorem dt_first_of_quarter_year_partial (u : Unit') (hu : u ≠ .month) (v : V) (wd : Option Int)
    (hwd : ∀ w, wd = some w → 0 ≤ w ∧ w ≤ 6) (hp : OnDay v.z (firstOf u (dayOrd v.w) none)) :
    ∃ r0, boundaryOrd v (firstOf u (dayOrd v.w) none) = .ok r0 ∧ r0.z = v.z ∧
      dayOrd r0.w = firstOf u (dayOrd v.w) none ∧
      dtFirstOf u v wd = boundaryOrd r0 (firstOf u (dayOrd v.w) wd) := by
  rw [firstOf_none] at hp ⊢
  cases u with
  | month => exact absurd rfl hu
  | quarter => exact dtFirstOfQuarter_eq v wd hwd hp
  | year => exact dtFirstOfYear_eq v wd hwd hp

/-- `DateTime.last_of("quarter"|"year", wd | None)`: `_boundary` — called from the anchor `r0 = self._boundary(first day
    of the unit's last month)` — of the Date-level result. Partial: that day is not skipped entirely in the zone. -/
theorem dt_last_of_quarter_year_partial (u : Unit') (hu : u ≠ .month) (v : V) (wd : Option Int)
    (hwd : ∀ w, wd = some w → 0 ≤ w ∧ w ≤ 6)
    (hp : OnDay v.z (firstOf .month (lastOf u (dayOrd v.w) none) none)) :
    ∃ r0, boundaryOrd v (firstOf .month (lastOf u (dayOrd v.w) none) none) = .ok r0 ∧ r0.z = v.z ∧
      dayOrd r0.w = firstOf .month (lastOf u (dayOrd v.w) none) none ∧
      dtLastOf u v wd = boundaryOrd r0 (lastOf u (dayOrd v.w) wd) := by
  rw [lastOf_none, firstOf_none] at hp ⊢
  cases u with
  | month => exact absurd rfl hu
  | quarter => exact dtLastOfQuarter_eq v wd hwd hp
  | year => exact dtLastOfYear_eq v wd hwd hp

/-- calling `_boundary` from the anchor instead of from the instance changes nothing when the anchor carries the
    instance's fold (`AnchorPlain`: naive, fixed offset, fold 0, or an anchor midnight that is neither skipped nor
    repeated) … -/
theorem dt_boundary_via_anchor (v r0 : V) (A o : Int) (h : boundaryOrd v A = .ok r0) (hpl : AnchorPlain v A) :
    boundaryOrd r0 o = boundaryOrd v o := boundaryOrd_via_anchor v r0 A o h hpl

/-- … and otherwise only the `fold` attribute of an ordinary midnight: two `_boundary` calls for the same day from any two
    instances of one zone have the same outcome, and on success the same zone, wall time and UTC offset (same instant) -/
theorem dt_boundary_same_moment (v v' : V) (o : Int) (hz : v.z = v'.z) :
    match boundaryOrd v o, boundaryOrd v' o with
    | .ok a, .ok b => a.z = b.z ∧ a.w = b.w ∧ a.offset = b.offset ∧ a.instant = b.instant
    | .error e, .error e' => e = e'
    | _, _ => False := by
  have h := boundaryOrd_same_moment v v' o hz
  revert h
  cases boundaryOrd v o <;> cases boundaryOrd v' o <;> simp only [imp_self]
  rintro ⟨a, b, c⟩
  exact ⟨a, b, c, by unfold V.instant; rw [b, c]⟩

/-- `first_of` / `last_of` for quarter and year at full strength — exactly `self._boundary` of the Date-level result —
    when the anchors are not skipped entirely and carry the instance's fold -/
theorem dt_first_last_of_quarter_year (u : Unit') (hu : u ≠ .month) (v : V) (wd : Option Int)
    (hwd : ∀ w, wd = some w → 0 ≤ w ∧ w ≤ 6)
    (hp1 : OnDay v.z (firstOf u (dayOrd v.w) none)) (ha1 : AnchorPlain v (firstOf u (dayOrd v.w) none))
    (hp2 : OnDay v.z (firstOf .month (lastOf u (dayOrd v.w) none) none))
    (ha2 : AnchorPlain v (firstOf .month (lastOf u (dayOrd v.w) none) none)) :
    dtFirstOf u v wd = boundaryOrd v (firstOf u (dayOrd v.w) wd) ∧
    dtLastOf u v wd = boundaryOrd v (lastOf u (dayOrd v.w) wd) := by
  obtain ⟨r0, e0, _, _, h0⟩ := dt_first_of_quarter_year_partial u hu v wd hwd hp1
  obtain ⟨r1, e1, _, _, h1⟩ := dt_last_of_quarter_year_partial u hu v wd hwd hp2
  exact ⟨by rw [h0, boundaryOrd_via_anchor v r0 _ _ e0 ha1], by rw [h1, boundaryOrd_via_anchor v r1 _ _ e1 ha2]⟩

/-- naive values and fixed offsets: no side condition at all, for month, quarter and year -/
theorem dt_first_last_of_naive_fixed (u : Unit') (v : V) (hz : v.z = .naive ∨ ∃ off, v.z = .fixed off)
    (wd : Option Int) (hwd : ∀ w, wd = some w → 0 ≤ w ∧ w ≤ 6) :
    dtFirstOf u v wd = boundaryOrd v (firstOf u (dayOrd v.w) wd) ∧
    dtLastOf u v wd = boundaryOrd v (lastOf u (dayOrd v.w) wd) := by
  have hod : ∀ o, OnDay v.z o := by
    intro o; rcases hz with h | ⟨off, h⟩ <;> rw [h]
    · exact onDay_naive o
    · exact onDay_fixed off o
  have hap : ∀ A, AnchorPlain v A := by
    intro A; unfold AnchorPlain; rcases hz with h | ⟨off, h⟩ <;> rw [h] <;> trivial
  by_cases hu : u = .month
  · subst hu; exact dt_first_last_of_month v wd hwd
  · exact dt_first_last_of_quarter_year u hu v wd hwd (hod _) (hap _) (hod _) (hap _)

/-- `DateTime.nth_of("quarter"|"year", n, wd)`, every n ≥ 1: `_boundary` of the Date-level result — from the instance for
    n ≥ 2, from the anchor `r0` for n = 1 (which is `first_of`) —, `PendulumException` (`none`) in exactly the same cases.
    Partial: none of the days walked over (first of the unit … + 7 n) and, for the quarter, the first day of its last month
    (the starting anchor `self._boundary(self.year, self.quarter * 3, 1)`) is skipped entirely in the zone. -/
theorem dt_nth_of_quarter_year_partial (u : Unit') (hu : u ≠ .month) (v : V) (nth : Nat) (wd : Int) (hn : 1 ≤ nth)
    (hwd : 0 ≤ wd ∧ wd ≤ 6)
    (hA : u = .quarter → OnDay v.z (firstOf .month (lastOf u (dayOrd v.w) none) none))
    (hp : ∀ j, firstOf u (dayOrd v.w) none ≤ j → j ≤ firstOf u (dayOrd v.w) none + 7 * nth → OnDay v.z j) :
    ∃ r0, boundaryOrd v (firstOf u (dayOrd v.w) none) = .ok r0 ∧ r0.z = v.z ∧
      dtNthOf u v nth wd =
        match nthOf u (dayOrd v.w) nth wd with
        | some r => (boundaryOrd (if nth = 1 then r0 else v) r).map some
        | none => .ok none := by
  have hwd' : ∀ w, some wd = some w → 0 ≤ w ∧ w ≤ 6 := by intro w hw; cases hw; exact hwd
  obtain ⟨r0, e0, z0, _, h0⟩ := dt_first_of_quarter_year_partial u hu v (some wd) hwd' (hp _ (by omega) (by omega))
  refine ⟨r0, e0, z0, ?_⟩
  by_cases h1 : nth = 1
  · subst h1
    have e1 : dtNthOf u v 1 wd = (dtFirstOf u v (some wd)).map some := by
      cases u <;> simp [dtNthOf, dtNthOfMonth, dtNthOfQuarter, dtNthOfYear, dtFirstOf]
    have e2 : nthOf u (dayOrd v.w) 1 wd = some (firstOf u (dayOrd v.w) (some wd)) := by
      cases u <;> simp [nthOf, nthOfMonth, nthOfQuarter, nthOfYear, firstOf]
    rw [e1, e2, h0]; simp only [if_true]
  · simp only [if_neg h1]
    rw [firstOf_none] at hp
    cases u with
    | month => exact absurd rfl hu
    | quarter =>
      have hA' := hA rfl
      rw [lastOf_none, firstOf_none] at hA'
      exact dtNthOfQuarter_eq v nth wd (by omega) hwd hA' hp
    | year => exact dtNthOfYear_eq v nth wd (by omega) hwd hp

/-- naive values and fixed offsets: `nth_of` for month, quarter and year, every n ≥ 1, with no side condition -/
theorem dt_nth_of_naive_fixed (u : Unit') (v : V) (hz : v.z = .naive ∨ ∃ off, v.z = .fixed off)
    (nth : Nat) (wd : Int) (hn : 1 ≤ nth) (hwd : 0 ≤ wd ∧ wd ≤ 6) :
    dtNthOf u v nth wd =
      match nthOf u (dayOrd v.w) nth wd with
      | some r => (boundaryOrd v r).map some
      | none => .ok none := by
  have hod : ∀ o, OnDay v.z o := by
    intro o; rcases hz with h | ⟨off, h⟩ <;> rw [h]
    · exact onDay_naive o
    · exact onDay_fixed off o
  have hap : ∀ A, AnchorPlain v A := by
    intro A; unfold AnchorPlain; rcases hz with h | ⟨off, h⟩ <;> rw [h] <;> trivial
  by_cases hu : u = .month
  · subst hu; exact dt_nth_of_month_partial v nth wd hn hwd (fun j _ _ => hod j)
  · obtain ⟨r0, e0, _, h⟩ := dt_nth_of_quarter_year_partial u hu v nth wd hn hwd (fun _ => hod _) (fun j _ _ => hod j)
    rw [h]
    cases nthOf u (dayOrd v.w) nth wd with
    | none => rfl
    | some r =>
      simp only []
      split
      · rw [boundaryOrd_via_anchor v r0 _ r e0 (hap _)]
      · rfl

/-! non-vacuity of the quarter / year theorems: 2013-10-20T12:00 (ordinal 735161), naive, fixed +01:00 and the toy
Sao_Paulo table (00:00 of 2013-10-20 skipped) -/
example : (match dtFirstOf .quarter ⟨.naive, 1382270400000000, true⟩ (some 0) with | .ok r => r.w | .error _ => 0)
      = wallOf (firstOf .quarter 735161 (some 0)) 0 ∧ firstOf .quarter 735161 (some 0) = 735148 ∧
    (match dtLastOf .year ⟨.fixed 3600000000, 1382270400000000, true⟩ (some 6) with | .ok r => r.w | .error _ => 0)
      = wallOf (lastOf .year 735161 (some 6)) 0 ∧ lastOf .year 735161 (some 6) = 735231 := by decide
/-- third Sunday of the quarter = 42nd Sunday of the year = 2013-10-20, whose midnight is skipped: 01:00; there is no 14th
    Sunday in the quarter and no 53rd in the year -/
example : ∀ f, nthOf .quarter 735161 3 6 = some 735161 ∧ nthOf .year 735161 42 6 = some 735161 ∧
    (match dtNthOf .quarter ⟨.named saoPaulo2013, 1382270400000000, f⟩ 3 6 with | .ok (some r) => r.w | _ => 0)
      = wallOf 735161 0 + 3600000000 ∧
    (match dtNthOf .year ⟨.named saoPaulo2013, 1382270400000000, f⟩ 42 6 with | .ok (some r) => r.w | _ => 0)
      = wallOf 735161 0 + 3600000000 ∧
    nthOf .quarter 735161 14 6 = none ∧ nthOf .year 735161 53 6 = none ∧
    (match dtNthOf .quarter ⟨.named saoPaulo2013, 1382270400000000, f⟩ 14 6 with | .ok none => 1 | _ => 0) = 1 ∧
    (match dtNthOf .year ⟨.named saoPaulo2013, 1382270400000000, f⟩ 53 6 with | .ok none => 1 | _ => 0) = 1 := by
  decide +kernel
/-- the side conditions are satisfiable in a zone with a skipped midnight -/
example : OnDay (.named saoPaulo2013) 735161 ∧ OnDay (.named saoPaulo2013) 735142 ∧
    AnchorPlain ⟨.named saoPaulo2013, 1382270400000000, true⟩ 735142 :=
  ⟨onDay_named _ _ (by decide) (by decide), onDay_named _ _ (by decide) (by decide), Or.inr (by decide)⟩

/-! ### the source itself: regenerated definitions (tools/gen_weeknav.py → `Pendulum.Gen.WeekNav`) equal the model

`Gen.WeekNav` is re-translated from `date.py` on every run, one Lean definition per Python method (`replace`, `set`,
`next`/`previous` with their `while` loops, the nine `_first_of_*`/`_last_of_*`/`_nth_of_*` with their `for` loops and
month-calendar lookups, the dispatchers `first_of`/`last_of`/`nth_of`). Under the reading `WeekNavGen.env` of the
parameter record (`weekday`, `add(days=n)` = ordinal arithmetic; `calendar.monthrange/monthcalendar` = the reference
calendar and the model's `mcal`) what the translated source computes is what the Date-level hand model computes, for
every valid date (`validD`; every ordinal gives one: `dOf`), every weekday 0..6, every n, and every iteration bound
≥ 6 handed to the `while` loops. -/
section source
open Pendulum.WeekNavGen Pendulum.Gen.WeekNav

/-- `Date.next` / `Date.previous`: the translated day-by-day loops are the model's `next` / `previous` -/
theorem next_previous_source_eq_model (d : D) (wd : Int) (fuel : Nat) (hf : 6 ≤ fuel) (hwd : 0 ≤ wd ∧ wd ≤ 6) :
    date_next env fuel d (some wd) = .ok (dOf (next (ordD d) wd)) ∧
    date_previous env fuel d (some wd) = .ok (dOf (previous (ordD d) wd)) :=
  ⟨next_eq d wd fuel hf hwd, previous_eq d wd fuel hf hwd⟩

/-- … and a weekday outside 0..6 raises ValueError -/
theorem next_previous_source_invalid_weekday (d : D) (wd : Int) (fuel : Nat) (hwd : wd < 0 ∨ 6 < wd) :
    date_next env fuel d (some wd) = .error "ValueError" ∧ date_previous env fuel d (some wd) = .error "ValueError" :=
  next_invalid d wd fuel hwd

/-- `_first_of_month/_quarter/_year`, `_last_of_*` (month-calendar lookups, `quarter * 3 - 2`, `set(month=1)` …) -/
theorem first_last_of_source_eq_model (u : Unit') (d : D) (hv : validD d) (wd : Option Int) :
    ordD (firstGen env d wd u) = firstOf u (ordD d) wd ∧ ordD (lastGen env d wd u) = lastOf u (ordD d) wd := by
  cases u
  · exact ⟨first_of_month_eq d hv wd, last_of_month_eq d hv wd⟩
  · exact ⟨first_of_quarter_eq d hv wd, last_of_quarter_eq d hv wd⟩
  · exact ⟨first_of_year_eq d hv wd, last_of_year_eq d hv wd⟩

/-- `_nth_of_month/_quarter/_year`: the `nth == 1` shortcut, the `range(nth - (1 if … else 0))` walk and the three
    different "still inside the unit?" tests; `none` = the method returns None -/
theorem nth_of_source_eq_model (u : Unit') (d : D) (hv : validD d) (nth : Nat) (wd : Int) (fuel : Nat) (hf : 6 ≤ fuel)
    (hwd : 0 ≤ wd ∧ wd ≤ 6) :
    resOrd (nthGen env fuel d nth wd u) = some (nthOf u (ordD d) nth wd) := by
  cases u
  · exact nth_of_month_eq d hv nth wd fuel hf hwd
  · exact nth_of_quarter_eq d hv nth wd fuel hf hwd
  · exact nth_of_year_eq d hv nth wd fuel hf hwd

/-- the unit tables of `first_of` / `last_of` / `nth_of`: exactly "month", "quarter", "year" are dispatched (to the
    method of that name), every other string raises ValueError, a `None` from `_nth_of_*` becomes PendulumException -/
theorem dispatch_source_eq_model (E : Env) (fuel : Nat) (d : D) (s : String) (wd : Option Int) (nth w : Int) :
    date_first_of E d s wd = (match unitOf? s with | some u => .ok (firstGen E d wd u) | none => .error "ValueError") ∧
    date_last_of E d s wd = (match unitOf? s with | some u => .ok (lastGen E d wd u) | none => .error "ValueError") ∧
    date_nth_of E fuel d s nth w =
      (match unitOf? s with
       | some u => (match nthGen E fuel d nth w u with
                    | .error e => .error e | .ok none => .error "PendulumException" | .ok (some r) => .ok r)
       | none => .error "ValueError") :=
  ⟨first_of_dispatch E d s wd, last_of_dispatch E d s wd, nth_of_dispatch E fuel d s nth w⟩

/-- every Date is covered: an ordinal's Date is valid and denotes that ordinal -/
theorem source_domain (o : Int) : validD (dOf o) ∧ ordD (dOf o) = o := ⟨validD_dOf o, ordD_dOf o⟩

/-! non-vacuity: 2013-10-20 (ordinal 735161, a Sunday) -/
example : dOf 735161 = ⟨2013, 10, 20⟩ := by decide +kernel
example : (date_first_of env ⟨2013, 10, 20⟩ "quarter" (some 0)).toOption = some ⟨2013, 10, 7⟩ := by decide +kernel
example : (date_last_of env ⟨2013, 10, 20⟩ "year" (some 6)).toOption = some ⟨2013, 12, 29⟩ := by decide +kernel
example : (date_nth_of env 6 ⟨2013, 10, 20⟩ "month" 3 6).toOption = some ⟨2013, 10, 20⟩ := by decide +kernel
example : (match date_nth_of env 6 ⟨2013, 10, 20⟩ "month" 5 6 with | .error e => e | .ok _ => "") = "PendulumException" := by
  decide +kernel
example : (match date_first_of env ⟨2013, 10, 20⟩ "week" none with | .error e => e | .ok _ => "") = "ValueError" := by
  decide +kernel
example : (date_next env 6 ⟨2013, 10, 20⟩ (some 6)).toOption = some ⟨2013, 10, 27⟩ := by decide +kernel

/-! DateTime level (datetime.py `next`, `previous`, `_first_of_month`, `_last_of_month`, translated on the parameter record
of C12's generator; `_boundary` is `Gen.StartOf.dt_boundary`, tied to `StartOf.edge` in Props/C12). `run` = the
constructor layer outside the translation: `self.add(days=n)`, date validation + `DateTime.create`. The quarter / year
/ nth variants call methods on a *created* DateTime and stay with the hand model + correspondence run. -/

/-- `DateTime.next` / `previous` (both `keep_time` branches): for every zone, wall value, fold and weekday 0..6 -/
theorem dt_next_previous_source_eq_model (v : V) (wks wke wd : Int) (keep : Bool) (hwd : 0 ≤ wd ∧ wd ≤ 6) :
    dtNext v wd keep = run v (Gen.WeekNav.dt_next dtEnv (StartOfGen.inst v wks wke) (some wd) keep) ∧
    dtPrevious v wd keep = run v (dt_previous dtEnv (StartOfGen.inst v wks wke) (some wd) keep) :=
  ⟨dt_next_eq v wks wke wd keep hwd, dt_previous_eq v wks wke wd keep hwd⟩

/-- `DateTime._first_of_month` / `_last_of_month`: with and without a weekday, no hypothesis -/
theorem dt_first_last_of_month_source_eq_model (v : V) (wks wke : Int) (wd : Option Int) :
    dtFirstOfMonth v wd = run v (.ok (dt_first_of_month dtEnv (StartOfGen.inst v wks wke) wd)) ∧
    dtLastOfMonth v wd = run v (.ok (dt_last_of_month dtEnv (StartOfGen.inst v wks wke) wd)) :=
  ⟨dt_first_of_month_eq v wks wke wd, dt_last_of_month_eq v wks wke wd⟩

example : (match Gen.WeekNav.dt_next dtEnv (StartOfGen.inst ⟨.naive, 1382270400000000, true⟩ 0 6) (some 0) true with
    | .ok (.add_days n) => n | _ => 0) = 1 := by decide +kernel
example : (match dt_first_of_month dtEnv (StartOfGen.inst ⟨.naive, 1382270400000000, true⟩ 0 6) (some 0) with
    | .create c => (c.year, c.month, c.day, c.hour) | _ => (0, 0, 0, 1)) = (2013, 10, 7, 0) := by decide +kernel

end source

end Pendulum.Props.C16
