import Pendulum.Props.C02
import Pendulum.Proofs.DTConvGen
/-! # C02 — tie theorems: the definitions regenerated from the source on every run (`Gen/*.lean`) equal the hand model
the theorems of `Props/C02.lean` are about. Kept in a module of its own so that a broken tie stops this module only:
the hand-model theorems of `Props/C02.lean`, which other properties import, keep building. Same namespace; the axiom audit
enumerates both modules. -/
namespace Pendulum.Props.C02
open Pendulum Pendulum.Zone
open Pendulum.DTOps

section SourceTie
open Pendulum.Gen.DTConv Pendulum.DTConvGen

/-- **`DateTime.create`** (hence `pendulum.datetime(...)`): for every field tuple, `tz` argument of any accepted form, fold and
    raise flag, the regenerated code — `_safe_timezone(tz)`, the naive value with the given fold,
    `tz.convert(dt, raise_on_unknown_times=…)`, the copy of fields/tzinfo/fold — is `DTOps.create` in the zone `tz` denotes -/
theorem create_source_eq_model (env : Env) (db : String → Z) (h : EnvOk env db) (y mo dd hh mi ss us : Int) (tz : TzArg)
    (fold raise : Bool) (hw : inRange (wallF y mo dd hh mi ss us) = true) :
    resOf db (dt_create env y mo dd hh mi ss us tz fold raise) =
      DTOps.create (createRef env db tz) (wallF y mo dd hh mi ss us) fold raise ∧
    p_datetime env y mo dd hh mi ss us tz fold raise = dt_create env y mo dd hh mi ss us tz fold raise := by
  refine ⟨create_eq env db h y mo dd hh mi ss us tz fold raise hw, ?_⟩
  simp only [p_datetime, bind_ok]

/-- the zone `create` ends up in when handed the instance's own `tz` -/
theorem createRef_selfTz (env : Env) (db : String → Z) (h : EnvOk env db) (d : DtVal) :
    createRef env db (selfTz d) = argRef db d.tzinfo := by
  cases ht : d.tzinfo <;> simp [createRef, selfTz, ht, TzArg.isNone, argRef, safe_timezone_eq env h.cache, specSafe]

/-- **`set` / `on` / `at` / `replace`**: each is `create` at the wall time in which the given fields override the
    instance's, in the instance's zone, non-raising, with the instance's fold (`replace`: the `fold=` argument when given) -/
theorem set_on_at_replace_source_eq_model (env : Env) (db : String → Z) (h : EnvOk env db) (d : DtVal)
    (oy om od oh omi os ous : Option Int) (ofold : Option Bool) (t : Tz) (ht : d.tzinfo = .tz t ∨ d.tzinfo = .none)
    (hw : inRange (wallF (oy.getD d.year) (om.getD d.month) (od.getD d.day) (oh.getD d.hour) (omi.getD d.minute)
      (os.getD d.second) (ous.getD d.microsecond)) = true) :
    resOf db (dt_set env d oy om od oh omi os ous .none) =
      DTOps.create (argRef db d.tzinfo) (wallF (oy.getD d.year) (om.getD d.month) (od.getD d.day) (oh.getD d.hour)
        (omi.getD d.minute) (os.getD d.second) (ous.getD d.microsecond)) d.fold false ∧
    resOf db (dt_replace env d oy om od oh omi os ous .keep ofold) =
      DTOps.create (argRef db d.tzinfo) (wallF (oy.getD d.year) (om.getD d.month) (od.getD d.day) (oh.getD d.hour)
        (omi.getD d.minute) (os.getD d.second) (ous.getD d.microsecond)) (ofold.getD d.fold) false ∧
    (∀ y m dd, dt_on env d y m dd = dt_set env d (some y) (some m) (some dd) none none none none .none) ∧
    (∀ hh mi ss us, dt_at env d hh mi ss us = dt_set env d none none none (some hh) (some mi) (some ss) (some us) .none) := by
  refine ⟨?_, ?_, ?_, ?_⟩
  · rw [set_eq]
    simp only [TzArg.isNone, if_true]
    rw [create_eq env db h _ _ _ _ _ _ _ _ _ _ hw, createRef_selfTz env db h]
  · rw [replace_eq, create_eq env db h _ _ _ _ _ _ _ _ _ _ hw]
    rcases ht with ht | ht <;>
      simp [replTz, createRef, ht, TzArg.isNone, argRef, safe_timezone_eq env h.cache, specSafe]
  · intro y m dd; rw [on_eq, set_eq]; simp [TzArg.isNone]
  · intro hh mi ss us; rw [at_eq, set_eq]; simp [TzArg.isNone]

/-- **`Timezone.convert` / `FixedTimezone.convert` / `tz.datetime(...)`** on a naive value, at the level of datetime values -/
theorem convert_dt_source_eq_model (env : Env) (db : String → Z) (h : EnvOk env db) (d : DtVal) (hn : d.tzinfo = .none)
    (hw : inRange (wallOf d) = true) (raise : Bool) :
    (∀ t, IsZone db t → resOf db (zone_convert_n env t d raise) = DTOps.create (.named (zoneOf db t)) (wallOf d) d.fold raise) ∧
    (∀ o, resOf db (fixed_convert_n env o d raise) = DTOps.create (.fixed o.utcoffset) (wallOf d) d.fold raise) := by
  refine ⟨fun t hz => zone_convert_n_naive env db h t hz d hn hw raise, fun o => ?_⟩
  rw [fixed_convert_n_naive env o d hn]
  simp only [resOf, valOf, argRef, tzRef, DTOps.create]
  rfl

/-- **`instance()` of a naive native value** with a `tz`: `create` in that zone with the source's fold, non-raising -/
theorem instance_naive_source_eq_model (env : Env) (db : String → Z) (h : EnvOk env db) (dt : DtVal) (hn : dt.tzinfo = .none)
    (tz : TzArg) (hw : inRange (wallOf dt) = true) :
    resOf db (dt_instance env dt tz) = DTOps.create (createRef env db tz) (wallOf dt) dt.fold false :=
  instance_naive_eq env db h dt hn tz hw

/-- the other entry points: `tz.datetime(...)` converts the naive value with fold 1; `pendulum.datetime` is `create`;
    `pendulum.local` is `create` in `local_timezone()` with the defaults fold=1, non-raising; `naive` builds the plain value -/
theorem entry_points_source_eq_model (env : Env) (t : Tz) (o : FixedObj) (y mo dd hh mi ss us : Int) (tz : TzArg) (fold raise : Bool) :
    zone_datetime env t y mo dd hh mi ss us = zone_convert_n env t (DtVal.mk y mo dd hh mi ss us true .none) false ∧
    fixed_datetime env o y mo dd hh mi ss us = fixed_convert_n env o (DtVal.mk y mo dd hh mi ss us true .none) false ∧
    p_datetime env y mo dd hh mi ss us tz fold raise = dt_create env y mo dd hh mi ss us tz fold raise ∧
    p_local env y mo dd hh mi ss us = dt_create env y mo dd hh mi ss us (.tz env.local_timezone) true false ∧
    p_naive env y mo dd hh mi ss us fold = DtVal.mk y mo dd hh mi ss us fold .none ∧
    (∀ d : DtVal, dt_naive env d = DtVal.mk d.year d.month d.day d.hour d.minute d.second d.microsecond false .none) :=
  entry_points_eq env t o y mo dd hh mi ss us tz fold raise

/-! non-vacuity: the link hypotheses hold for a concrete environment; the generated code computes -/
example (db : String → Z) : EnvOk (envOf db) db := envOf_ok db
example : (dt_create (envOf fun _ => ⟨0, []⟩) 2021 3 4 5 6 7 8 (.num 2 1) true false).toOption.map (·.tzinfo) =
    some (.tz (fixedTz 7200)) := by decide +kernel
example : (dt_set (envOf fun _ => ⟨0, []⟩) ⟨2021, 3, 4, 5, 6, 7, 8, false, .tz .utc⟩ none none none (some 9) none none none .none).toOption
    = some ⟨2021, 3, 4, 9, 6, 7, 8, false, .tz .utc⟩ := by decide +kernel

end SourceTie

end Pendulum.Props.C02
