import Pendulum.Props.C01
import Pendulum.Proofs.DTConvGen
/-! # C01 — tie theorems: the definitions regenerated from the source on every run (`Gen/*.lean`) equal the hand model
the theorems of `Props/C01.lean` are about. Kept in a module of its own so that a broken tie stops this module only:
the hand-model theorems of `Props/C01.lean`, which other properties import, keep building. Same namespace; the axiom audit
enumerates both modules. -/
namespace Pendulum.Props.C01
open Pendulum Pendulum.Zone
open Pendulum.DTOps

section SourceTie
open Pendulum.Gen.DTConv Pendulum.DTConvGen

/-- **`in_timezone` / `in_tz`** of an instance carrying a pendulum timezone `s`, for a target given in any form
    `_safe_timezone` accepts: the regenerated code is the model's `inTz` (identity when the target is the very same object) -/
theorem in_timezone_source_eq_model (env : Env) (db : String → Z) (h : EnvOk env db) (d : DtVal) (s : Tz)
    (hs : d.tzinfo = .tz s) (tz : TzArg) :
    resOf db (dt_in_timezone env d tz) =
      DTOps.inTz (valOf db d) (tzRef db (safe_timezone env tz)) (decide (s = safe_timezone env tz)) ∧
    dt_in_tz env d tz = dt_in_timezone env d tz :=
  ⟨in_timezone_eq env db h d s hs tz, in_tz_eq env d tz⟩

/-- **`astimezone(tz)`** with a pendulum timezone -/
theorem astimezone_source_eq_model (env : Env) (db : String → Z) (h : EnvOk env db) (d : DtVal) (s t : Tz)
    (hs : d.tzinfo = .tz s) :
    resOf db (dt_astimezone env d (.tz t)) = DTOps.inTz (valOf db d) (tzRef db t) (decide (s = t)) :=
  astimezone_eq env db h d s t hs

/-- `in_timezone` of a *naive* instance hands `self.replace(fold=1)` to `tz.convert` -/
theorem in_timezone_naive_source (env : Env) (d : DtVal) (hn : d.tzinfo = .none) (tz : TzArg) :
    dt_in_timezone env d tz = tz_convert_p env (safe_timezone env tz) { d with fold := true } false :=
  in_timezone_naive env d hn tz

/-- **end to end**: whenever the regenerated `in_timezone` returns a value in a different zone object, that value denotes the
    same instant as the instance (composition of the tie with `inTz_instant_dt`) -/
theorem in_timezone_source_preserves_instant (env : Env) (db : String → Z) (h : EnvOk env db) (d r : DtVal) (s : Tz)
    (hs : d.tzinfo = .tz s) (tz : TzArg) (hne : s ≠ safe_timezone env tz)
    (hwf : ZRef.WF (tzRef db (safe_timezone env tz))) (hr : dt_in_timezone env d tz = .ok r) :
    (valOf db r).instant = (valOf db d).instant := by
  have e := in_timezone_eq env db h d s hs tz
  rw [hr] at e
  simp only [resOf, hne, decide_false] at e
  have hv : (valOf db d).z.table ≠ none := by
    simp only [valOf, hs, argRef, tzRef_table]; simp
  exact inTz_instant_dt (valOf db d) (valOf db r) _ _ hv (tzRef_table db _) hwf e.symm

/-- **`from_timestamp(t, tz)`** (t in µs): the UTC reading of `t` with pendulum's default fold, converted with `in_timezone` -/
theorem from_timestamp_source_eq_model (env : Env) (db : String → Z) (h : EnvOk env db) (ts : Int) (tz : TzArg) :
    resOf db (p_from_timestamp env ts tz) =
      DTOps.inTz ⟨.named ⟨0, []⟩, ts, true⟩ (tzRef db (safe_timezone env tz)) (decide (Tz.utc = safe_timezone env tz)) :=
  from_timestamp_eq env db h ts tz

/-- **`int_timestamp`**: floor of the instant in seconds — the value rebuilt for the subtraction keeps `fold` and `tzinfo` -/
theorem int_timestamp_source_eq_model (env : Env) (db : String → Z) (h : EnvOk env db) (d : DtVal) :
    dt_int_timestamp env d = (valOf db d).instant / AddDur.US := by
  rw [int_timestamp_eq env db h d]; rfl

/-- **`_safe_timezone`**, `timezone()`, `fixed_timezone()`: per kind of argument; a number of hours n/d is the fixed offset of
    `n·3600/d` seconds truncated toward zero, e.g. −5.5 h ↦ −19800 s and 5.75 h ↦ 20700 s -/
theorem safe_timezone_source_eq_model (env : Env) (hc : CacheOk env) (a : TzArg) :
    safe_timezone env a = specSafe env a ∧
    (∀ n d, safe_timezone env (.num n d) = fixedTz (hoursToSeconds n d)) ∧
    hoursToSeconds (-11) 2 = -19800 ∧ hoursToSeconds 23 4 = 20700 ∧ hoursToSeconds (-1) 4 = -900 ∧
    (∀ k, (fixed_timezone env k).1 = fixedTz k) ∧
    (∀ k, ∀ p ∈ (fixed_timezone env k).2, p.2 = fixedTz p.1) := by
  refine ⟨safe_timezone_eq env hc a, fun n d => ?_, by decide, by decide, by decide,
    fun k => (fixed_timezone_eq env hc k).1, fun k => (fixed_timezone_eq env hc k).2⟩
  rw [safe_timezone_eq env hc]; rfl

/-- **`FixedTimezone.__init__`**: the default name is sign of the offset, |offset| div 3600, |offset| div 60 mod 60 (two digits
    each, separated by ":"); the stored offset and `utcoffset()` are the argument -/
theorem fixed_name_source_eq_model (env : Env) (off : Int) :
    fixed_init env off none = ⟨specName off, off, off * 1000000⟩ ∧
    fixed_name env (fixed_init env off none) =
      [.str (if off < 0 then "-" else "+"), .int "02d" ((if off < 0 then -off else off) / 3600), .str ":",
       .int "02d" ((if off < 0 then -off else off) / 60 % 60)] ∧
    fixed_utcoffset env (fixed_init env off none) = off * 1000000 ∧
    specName (-1800) = [.str "-", .int "02d" 0, .str ":", .int "02d" 30] := by
  refine ⟨fixed_init_eq env off none, ?_, ?_, by decide⟩
  · rw [fixed_init_eq]; rfl
  · rw [fixed_init_eq]; rfl

/-- **`instance()` of an aware native value** (any tzinfo kind `_safe_timezone` resolves): the regenerated `DateTime.instance`
    is the model's `instanceAware` in the zone the tzinfo denotes -/
theorem instance_source_eq_model (env : Env) (db : String → Z) (h : EnvOk env db) (dt : DtVal)
    (hna : dt.tzinfo.isNone = false) (off : Int) (hoff : dt_utcoffset env dt = some off) (tz : TzArg)
    (hw : inRange (wallOf dt) = true) :
    resOf db (dt_instance env dt tz) =
      DTOps.instanceAware (tzRef db (safe_timezone env dt.tzinfo)) (wallOf dt) dt.fold off ∧
    p_instance env .datetime dt tz = .dt (dt_instance env dt tz) := by
  refine ⟨instance_eq env db h dt hna off hoff tz hw, ?_⟩
  rw [p_instance_eq]

/-- `tz.name`: the key of a `Timezone`, the stored name of a `FixedTimezone` -/
def nameOfTz : Tz → List NamePart
  | .fixed o => o.name | .utc => [.str "UTC"] | .named k => [.str k]

/-- `offset`, `timezone`, `tz`, `timezone_name` of an instance carrying a pendulum timezone -/
theorem offset_name_source_eq_model (env : Env) (db : String → Z) (h : EnvOk env db) (d : DtVal) (t : Tz) (ht : d.tzinfo = .tz t) :
    dt_offset env d = some (tdSeconds (valOf db d).offset) ∧ dt_tz env d = some t ∧
    dt_timezone_name env d = some (nameOfTz t) := by
  obtain ⟨a, b, c⟩ := timezone_name_eq env d
  refine ⟨(offset_eq env db h d t ht).1, ?_, ?_⟩
  · rw [b, a, ht]
  · rw [c, ht]; cases t <;> rfl

/-- the other `FixedTimezone` methods and the aware branch of both `convert`s -/
theorem fixed_methods_source_eq_model (env : Env) (db : String → Z) (h : EnvOk env db) (o : FixedObj) (t : Tz) (d : DtVal)
    (raise : Bool) :
    fixed_fromutc env o d = (if inRange (wallOf d + o.utcoffset) then
      .ok { mkDt (wallOf d + o.utcoffset) false d.tzinfo with tzinfo := .tz (.fixed o) } else .error "OverflowError") ∧
    fixed_dst env o = 0 ∧ fixed_tzname env o = o.name ∧ fixed_offset env o = o.offset ∧
    tz_utcoffset env (.fixed o) d = o.utcoffset ∧
    (d.tzinfo.isNone = false → zone_convert_n env t d raise = env.native_astimezone d (.tz t) ∧
      fixed_convert_n env o d raise = env.native_astimezone d (.tz (.fixed o))) := by
  obtain ⟨a, b, c, e⟩ := fixed_fromutc_eq env db h o d
  refine ⟨a, b, c, e, ?_, fun ha => convert_aware_eq env t o d ha raise⟩
  rw [tz_utcoffset_eq env db h]; exact fixed_woff _ _ _

/-! non-vacuity -/
example (db : String → Z) : EnvOk (envOf db) db := envOf_ok db
example : safe_timezone (envOf fun _ => ⟨0, []⟩) (.num (-11) 2) = fixedTz (-19800) := by decide +kernel
example : (fixed_init (envOf fun _ => ⟨0, []⟩) 20700 none).name = [.str "+", .int "02d" 5, .str ":", .int "02d" 45] := by decide +kernel

end SourceTie

end Pendulum.Props.C01
