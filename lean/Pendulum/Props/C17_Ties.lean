import Pendulum.Props.C17
import Pendulum.Props.C07_Ties
import Pendulum.Props.C13_Ties
import Pendulum.Proofs.ParserGen
/-! # C17 — tie theorems: the definitions regenerated from the source on every run (`Gen/*.lean`) equal the hand model
the theorems of `Props/C17.lean` are about. Kept in a module of its own so that a broken tie stops this module only:
the hand-model theorems of `Props/C17.lean`, which other properties import, keep building. Same namespace; the axiom audit
enumerates both modules. -/
namespace Pendulum.Props.C17
open Pendulum Pendulum.Iso Pendulum.ParseAll

section SourceTie
open Pendulum.ParserGen
open Pendulum.Gen.Parser (Exc Obj IntervalObj Parsed TzVal NowV Dict Ext)

/-- **front_end_source_eq_model.** The try/suppress chain of `parsing._parse` as written in the source —
    `suppress(ValueError)` around `parse_iso8601`, `suppress(ValueError)` around `_parse_iso8601_interval`,
    `suppress(ParserError)` around `_parse_common`, `options.get("strict", True)`, dateutil with `day_first` / `year_first`
    inside `except (ValueError, ArithmeticError)` — is the fallback order of the model's `baseParse`, for either value of the
    strict flag, every string and both backends -/
theorem front_end_source_eq_model {V : Type} (b : Backend) (durObj : IsoDur.Parsed → Obj) (hd : DurObjOk b durObj)
    (du : Dateutil) (ext : Ext V) (hiso : IsoOk durOk b durObj ext) (hcm : CommonOk ext.COMMON_match) (hstd : StdOk ext)
    (hdu : DuExtOk du ext) (harith : ext.issubclass_ArithmeticError = isArithmetic) (cs : List Char) (d : Dict) (o : Options)
    (h1 : d.strict = some o.strict) (h2 : d.day_first = some o.dayFirst) (h3 : d.year_first = some o.yearFirst) :
    Gen.Parser.parsing_p_parse ext cs d = liftE (parsedOf durObj) (baseParse durOk b o du cs) :=
  parse_chain_eq durOk b durObj hd du ext hiso hcm hstd hdu harith cs d o h1 h2 h3

/-- **parse_common_source_eq_model.** `_parse_common` as written in the source (which groups are tested, the `int()`
    conversions, `day_first` swapping month and day, the defaults 0 / 1 / 1, the fraction cut to six digits and padded, which
    constructor gets which arguments) is the model's `commonParseDF`, for every `COMMON.match` that agrees with the model's
    recogniser (`CommonOk`) and stdlib constructors that range-check as the model's (`StdOk`) -/
theorem parse_common_source_eq_model {V : Type} (ext : Ext V) (hcm : CommonOk ext.COMMON_match) (hstd : StdOk ext)
    (cs : List Char) (o : Dict) (df : Bool) (hdf : o.day_first = some df) :
    Gen.Parser.parsing_p_parse_common ext cs o = liftE objOf (commonParseDF df cs) :=
  parse_common_eq ext hcm hstd cs o df hdf

/-- `_parse_iso8601_interval` as written in the source (`"/" in text`, `split("/")` into exactly two parts, the three
    shapes by `[:1] == "P"`, the type checks on the halves) is the model's `parseIntervalRaw` -/
theorem interval_parse_source_eq_model {V : Type} (b : Backend) (durObj : IsoDur.Parsed → Obj) (hd : DurObjOk b durObj)
    (ext : Ext V) (hiso : IsoOk durOk b durObj ext) (cs : List Char) :
    Gen.Parser.parsing_p_parse_iso8601_interval ext cs = liftE (ivOf durObj) (parseIntervalRaw durOk b cs) :=
  parse_interval_eq durOk b durObj hd ext hiso cs

/-- **normalize_source_eq_model.** `_normalize` as written in the source: `exact` → unchanged; a time is completed with the
    year, month, day of `options["now"] or datetime.now()`; a date that is not a datetime becomes midnight; anything else
    (datetime, `_Interval`, duration) is returned as it is -/
theorem normalize_source_eq_model {V : Type} (ext : Ext V) (hstd : StdOk ext) (d : Dict) :
    (∀ (v : Value) (n : Option NowV), WF v → d.now = some n →
      dateOk (nowOf (n.getD ext.datetime_now)).1 (nowOf (n.getD ext.datetime_now)).2.1 (nowOf (n.getD ext.datetime_now)).2.2 →
      Gen.Parser.parsing_p_normalize ext (.obj (objOf v)) d =
        .ok (.obj (objOf (normalizeM (Gen.Parser.py_truthy_optbool d.exact) (nowOf (n.getD ext.datetime_now)) v)))) ∧
    (∀ p : Parsed, p.isinstance .time = false → p.isinstance .date = false → Gen.Parser.parsing_p_normalize ext p d = .ok p) :=
  ⟨fun v n hv hn hnow => normalize_val_eq ext hstd v hv d n hn hnow, fun p h1 h2 => normalize_other_eq ext p d h1 h2⟩

/-- **wrap_source_eq_model.** `_normalize` followed by the type dispatch of `parser._parse` as written in the source (aware
    datetime → `pendulum.instance(parsed)`; naive → `pendulum.datetime(<the seven fields>, tz=options.get("tz", UTC))`; date →
    `pendulum.date`; time → `pendulum.time`) is the model's `wrapTz` with its `tz` handling -/
theorem wrap_source_eq_model (b : Backend) (ext : Ext PV) (hstd : StdOk ext) (hp : PendOk durOk b ext) (text : List Char)
    (v : Value) (hv : WF v) (d o : Dict) (n : Option NowV) (hn : d.now = some n)
    (hnow : dateOk (nowOf (n.getD ext.datetime_now)).1 (nowOf (n.getD ext.datetime_now)).2.1 (nowOf (n.getD ext.datetime_now)).2.2) :
    mapE PV.toOut (Gen.Parser.bindE (Gen.Parser.parsing_p_normalize ext (.obj (objOf v)) d) fun p =>
        Gen.Parser.parser_p_parse_dispatch ext text p o) =
      liftE outOfValue (wrapTz (Gen.Parser.py_truthy_optbool d.exact) (tzOf (o.tz.getD .UTC)) (nowOf (n.getD ext.datetime_now)) v) :=
  wrap_eq durOk b ext hstd hp text v hv d o n hn hnow

/-- **interval_source_eq_model.** `_interval` as written in the source — duration + start: `dt = instance(start, tz=tz)`,
    `interval(dt, dt.add(years=…years, months=…months, weeks=…weeks, days=…remaining_days, hours=…hours, minutes=…minutes,
    seconds=…remaining_seconds, microseconds=…microseconds))`; duration + end: `interval(dt.subtract(<the same>), dt)`;
    start + end: both through `instance(…, tz=tz)`, the naive/aware endpoint check, `interval(start, end)` — is the model's
    `assembleRaw`, and inside `except (OverflowError, ValueError): raise ParserError` the model's `assemble` -/
theorem interval_source_eq_model (b : Backend) (durObj : IsoDur.Parsed → Obj) (hd : DurObjOk b durObj) (ext : Ext PV)
    (hp : PendOk durOk b ext) (r : IntervalRaw) (hr : RawOk r) :
    (∀ tz : TzVal, mapE PV.toOut (Gen.Parser.parser_p_interval ext (ivOf durObj r) tz) = liftE id (assembleRaw b (tzOf tz) r)) ∧
    (∀ (text : List Char) (d : Dict), mapE PV.toOut (Gen.Parser.parser_p_parse_dispatch ext text (.interval (ivOf durObj r)) d) =
      liftE id (assemble b (tzOf (d.tz.getD .UTC)) r)) :=
  ⟨fun tz => interval_eq durOk b durObj hd ext hp tz r hr,
   fun text d => dispatch_interval_eq durOk b durObj hd ext hp text d r hr⟩

/-- **parse_source_eq_model.** `pendulum.parse` as written in the source, end to end = the model's `parseAll`, for every
    string, every options dictionary `u` (any of the six keys present or absent; `optsOf` = the defaults the model applies),
    both backends -/
theorem parse_source_eq_model (b : Backend) (durObj : IsoDur.Parsed → Obj) (du : Dateutil) (ext : Ext PV)
    (h : ExtOk durOk b durObj du ext) (hduwf : DuWF du) (u : Dict) (cs : List Char)
    (hnow : dateOk (optsOf u ext.datetime_now).now.1 (optsOf u ext.datetime_now).now.2.1 (optsOf u ext.datetime_now).now.2.2) :
    mapE PV.toOut (Gen.Parser.parser_parse ext cs u) = liftE id (parseAll b (optsOf u ext.datetime_now) du cs) :=
  front_end_eq durOk b durObj du ext h hduwf u cs hnow

/-- **parse_total_source.** `parse_total` restated over the generated front end: `pendulum.parse` as written in the source
    raises nothing but `ParserError` / `ValueError` -/
theorem parse_total_source (b : Backend) (durObj : IsoDur.Parsed → Obj) (du : Dateutil) (ext : Ext PV)
    (h : ExtOk durOk b durObj du ext) (hduwf : DuWF du) (hdu : DuOk du) (u : Dict) (cs : List Char)
    (hnow : dateOk (optsOf u ext.datetime_now).now.1 (optsOf u ext.datetime_now).now.2.1 (optsOf u ext.datetime_now).now.2.2)
    (e : Exc) (he : Gen.Parser.parser_parse ext cs u = .error e) : e = .ParserError ∨ e = .ValueError :=
  front_end_total durOk b durObj du ext h hduwf hdu u cs hnow e he

/-- the hypotheses on the external callees are satisfiable, for both backends, every dateutil and every "today": the model's
    own functions (`extRef`), the raw duration components (`rawDurObj`), the model's recogniser as `COMMON.match` (`cmRef`) -/
theorem front_end_hypotheses_satisfiable (b : Backend) (du : Dateutil) (today : NowV) :
    ExtOk durOk b (rawDurObj b) du (extRef durOk b (rawDurObj b) du cmRef today) :=
  extRef_ok durOk b (rawDurObj b) (rawDurObj_ok b) du cmRef cmRef_ok today

/-- the defaults of `DEFAULT_OPTIONS` as written in the source -/
theorem default_options_source :
    Gen.Parser.DEFAULT_OPTIONS =
      { day_first := some false, year_first := some true, strict := some true, exact := some false, now := some none } := by
  first
    | rfl
    | (exfalso; fail "GENERATED-MODEL TIE BROKEN: theorem Pendulum.Props.C17.default_options_source — DEFAULT_OPTIONS of parsing/__init__.py was edited (Gen.Parser.DEFAULT_OPTIONS)")

/-- the `COMMON` regular expression (whose matching is the parameter `COMMON.match`, modelled by `cmTimeMatch` / `commonParseDF`)
    is the one the model was written for -/
theorem common_regex_pinned : Gen.Parser.COMMON_pattern =
    "^(?P<date>    (?P<classic>        (?P<year>\\d{4})        (?P<monthday>            (?P<monthsep>[/:])?(?P<month>\\d{2})            ((?P<daysep>[/:])?(?P<day>\\d{2}))        )?    ))?(?P<time>    (?P<timesep>\\ )?    (?P<hour>\\d{1,2}):(?P<minute>\\d{1,2})(?::(?P<second>\\d{1,2}))?    (?P<subsecondsection>        (?:[.,])        (?P<subsecond>\\d{1,9})    )?)?$\nre.VERBOSE" := by
  first
    | rfl
    | (exfalso; fail "GENERATED-MODEL TIE BROKEN: theorem Pendulum.Props.C17.common_regex_pinned — the COMMON regular expression of parsing/__init__.py was edited (Gen.Parser.COMMON_pattern)")

/-- the reference callees for the examples: no dateutil, today = 2001-02-03 -/
abbrev refExt (b : Backend) : Ext PV := extRef durOk b (rawDurObj b) (fun _ _ _ => .error .parserError) cmRef ⟨2001, 2, 3⟩

example : mapE PV.toOut (Gen.Parser.parser_parse (refExt .py) "2021/03/04 1:2:3.5".toList {}) =
    .ok (.dateTime (dateTimeV 2021 3 4 1 2 3 500000 (some 0))) := by decide
example : mapE PV.toOut (Gen.Parser.parser_parse (refExt .rust) "2021/03/04 1:2".toList { day_first := some true, tz := some (.fixed 3600) }) =
    .ok (.dateTime (dateTimeV 2021 4 3 1 2 0 0 (some 3600))) := by decide
example : mapE PV.toOut (Gen.Parser.parser_parse (refExt .rust) "12:34".toList { tz := some .None }) =
    .ok (.dateTime (dateTimeV 2001 2 3 12 34 0 0 none)) := by decide
example : mapE PV.toOut (Gen.Parser.parser_parse (refExt .py) "12:34".toList { exact := some true }) =
    .ok (.time (timeV 12 34 0 0 none)) := by decide
example : mapE PV.toOut (Gen.Parser.parser_parse (refExt .py) "12:34".toList { now := some (some ⟨1999, 12, 31⟩) }) =
    .ok (.dateTime (dateTimeV 1999 12 31 12 34 0 0 (some 0))) := by decide
example : mapE PV.toOut (Gen.Parser.parser_parse (refExt .rust) "P1Y2M3DT4H5M6S".toList {}) =
    .ok (.duration ⟨1, 2, 3 * 86400000000 + 4 * 3600000000 + 5 * 60000000 + 6000000⟩) := by decide
example : mapE PV.toOut (Gen.Parser.parser_parse (refExt .py) "2021-03-04T12:00:00+01:00/PT36H".toList {}) =
    .ok (.interval (dateTimeV 2021 3 4 12 0 0 0 (some 3600)) (dateTimeV 2021 3 6 0 0 0 0 (some 3600))) := by decide
example : mapE PV.toOut (Gen.Parser.parser_parse (refExt .rust) "P1M/2021-03-31T10:00:00".toList { tz := some .None }) =
    .ok (.interval (dateTimeV 2021 2 28 10 0 0 0 none) (dateTimeV 2021 3 31 10 0 0 0 none)) := by decide
example : Gen.Parser.parser_parse (refExt .py) "2021-03-04T00Z/2021-03-05T00".toList { tz := some .None } = .error .ParserError := by decide
example : Gen.Parser.parser_parse (refExt .rust) "9999-12-31T00:00/P1D".toList {} = .error .ParserError := by decide
example : Gen.Parser.parser_parse (refExt .py) "2:".toList {} = .error .ParserError := by decide
example : Gen.Parser.parser_parse (refExt .py) "10pm".toList { strict := some false } = .error .ParserError := by decide
example : mapE PV.toOut (Gen.Parser.parser_parse (refExt .py) "now".toList {}) = .ok .now := by decide

end SourceTie

/-! ### the pure-Python ISO 8601 parser as regenerated from the source (`Gen/IsoPy.lean`) raises nothing but `ValueError`s -/

section RegeneratedIso
open Pendulum.IsoPyGen

/-- the post-processing half of the model's `pyParse` fails only with `ParserError` / `ValueError` -/
theorem pyPost_VE (dg : PyD) (tg : Option PyT) : VE (pyPost dg tg) := by
  intro k h
  unfold pyPost at h
  split at h
  · rename_i heq; cases h; exact pyDateFields_VE _ k heq
  · split at h
    · split at h
      · split at h
        · exact mkTime_VE _ _ _ _ _ k h
        · cases h; exact Or.inl rfl
      · exact mkDate_VE _ _ _ k h
    · repeat' split at h
      all_goals first
        | (cases h; exact Or.inl rfl)
        | (rename_i heq; cases h; exact pyTimeFields_VE _ k heq)
        | (exact mkTime_VE _ _ _ _ _ k h)
        | (exact mkDateTime_VE _ _ _ _ _ _ _ _ k h)

/-- **iso_source_total.** `parse_iso8601` (pure Python) after the match, as regenerated from the source, followed by the
    standard-library constructor it calls: whatever the groups of the match, the only exceptions are `ParserError` and
    `ValueError` — what `parse()`'s `suppress(ValueError)` chain catches (no `TypeError` from an absent group, no
    `OverflowError` from the date arithmetic of a week date). -/
theorem iso_source_total {V : Type} (ext : Gen.IsoPy.Ext V) (hx : ExtOk ext) (d : WD) (t : Option WT) (hd : d.valid)
    (ht : ∀ x, t = some x → x.valid) (e : String)
    (h : Gen.IsoPy.bindE (Gen.IsoPy.py_iso_datetime ext (dtGroups d t)) build = .error e) :
    e = "ParserError" ∨ e = "ValueError" := by
  rw [datetime_tie ext hx d t hd ht] at h
  cases hp : pyPost d.py (t.map WT.py) with
  | ok v => rw [hp] at h; cases h
  | error k =>
    rw [hp] at h
    injection h with h
    subst h
    rcases pyPost_VE _ _ k hp with rfl | rfl
    · exact Or.inl rfl
    · exact Or.inr rfl

/-- … and so does the week-date conversion on its own (the date arithmetic stays inside the year it was given) -/
theorem iso_week_source_total {V : Type} (ext : Gen.IsoPy.Ext V) (hx : ExtOk ext) (ty tw : List Char) (twd : Option (List Char))
    (hy : Dig 4 ty) (hw : Dig 2 tw) (hwd : ∀ t, twd = some t → Dig 1 t) (e : String)
    (h : Gen.IsoPy.py_get_iso_8601_week ext (some ty) (some tw) twd = .error e) : e = "ParserError" ∨ e = "ValueError" := by
  have := week_tie ext hx ty tw twd hy hw hwd
  rw [h] at this
  cases hm : pyWeek (val ty) (val tw) (twd.map val) with
  | ok v => rw [hm] at this; exact this.elim
  | error k => rw [hm] at this; exact this

end RegeneratedIso

/-! ## ===== begin: `parse_iso8601` of the compiled backend as regenerated from the Rust sources (`Gen/IsoRs.lean`, tools/gen_isors.py) ===== -/
namespace Pendulum.Props.C17
open Pendulum Pendulum.Iso Pendulum.IsoRsGen Pendulum.Gen.IsoRs

/-- **rs_iso_source_eq_model.** `parse_iso8601` of the compiled extension (`Parser::new(input).parse()` + the PyO3 conversion), translated
from rust/src/parsing.rs and rust/src/python/parsing.rs on every run, is `ParseAll.isoAny _ .rust` — the first stage of the pipeline
model of this property — on EVERY string: a date / time / datetime value, a `Duration` with the raw components, or an exception; for
every fuel exceeding the input's length by 8 (no loop is cut). `ExtOk`: the PyO3 constructors are the modelled CPython ones
(satisfiable: `Props.C07.ext_hypotheses_satisfiable`). -/
theorem rs_iso_source_eq_model {Obj : Type} (rk : IsoDur.Parsed → Bool) (ext : Ext Obj) (obj : Value → Obj)
    (objDur : IsoDur.Parsed → Obj) (hext : ExtOk ext obj objDur) (input : List Char) (fuel : Nat) (hf : input.length + 8 ≤ fuel) :
    glueView (parse_iso8601 fuel ext input) = some ((ParseAll.isoAny rk .rust input).toOption.map (objOf obj objDur)) :=
  parse_iso8601_eq_model rk ext obj objDur hext input fuel hf

/-! ## ===== end: regenerated compiled `parse_iso8601` ===== -/

end Pendulum.Props.C17
