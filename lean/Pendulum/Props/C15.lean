import Pendulum.Proofs.C15
import Pendulum.Gen.RsHelpers
import Pendulum.Proofs.LocalTime
import Pendulum.Model.WeekNav
/-! # C15 — calendar primitives agree with the proleptic Gregorian calendar, both backends

Property theorems only. `Gen.*` are regenerated from `/repo/src/pendulum/_helpers.py`, `date.py`,
`constants.py` and `rust/src/constants.rs` on every run; `Rs.*` is the hand model of
`rust/src/helpers.rs`; `Cal.*` is the reference (the standard library's algorithms).
`Gen.py_local_time` / `Gen.rs_local_time` are regenerated statement by statement from `_helpers.py::local_time` and
`rust/src/helpers.rs::local_time` (tools/gen_localtime.py); `LocalTime.localTime` is the hand model they are tied to. -/
namespace Pendulum.Props.C15
open Pendulum Pendulum.Cal Pendulum.C15

/-- `is_leap` is the Gregorian rule, every integer year -/
theorem is_leap_iff (y : Int) : Gen.is_leap y = Cal.isLeap y := by
  rw [year_rep y, gen_leap_shift, isLeap_shift]
  have hr : (y % 400).toNat < 400 := by omega
  have h := all_range leapCycle_true _ hr
  simp only [beq_iff_eq] at h
  have e1 : ((y % 400).toNat : Int) = y % 400 := by omega
  rw [e1] at h
  exact h

/-- `days_in_year` is the distance between consecutive New Year ordinals, every integer year -/
theorem days_in_year_spec (y : Int) : Gen.days_in_year y = daysBeforeYear (y + 1) - daysBeforeYear y := by
  have e : (y + 1) = (y % 400 + 400 + 1) + 400 * (y / 400 - 1) := by omega
  rw [year_rep y, gen_diy_shift]
  rw [show y % 400 + 400 + 400 * (y / 400 - 1) + 1 = (y % 400 + 400 + 1) + 400 * (y / 400 - 1) by omega,
      dby_shift, dby_shift]
  have hr : (y % 400).toNat < 400 := by omega
  have h := all_range diyCycle_true _ hr
  simp only [beq_iff_eq] at h
  have e1 : ((y % 400).toNat : Int) = y % 400 := by omega
  rw [e1] at h
  omega

/-- pendulum's `week_day` is the ISO weekday of the proleptic Gregorian calendar, for every year,
    month 1..12 and any day number -/
theorem week_day_correct (y m d : Int) (hm : 1 ≤ m ∧ m ≤ 12) :
    Gen.week_day y m d = isoweekday y m d := by
  have hd : d = d % 7 + 7 * (d / 7) := by omega
  rw [year_rep y, wd_periodic_y, iso_periodic_y, hd, wd_periodic_d, iso_periodic_d]
  have hr : (y % 400).toNat < 400 := by omega
  have hm' : (m - 1).toNat < 12 := by omega
  have hd' : (d % 7).toNat < 7 := by omega
  have h := all_range (all_range (all_range wdCycle_true _ hr) _ hm') _ hd'
  simp only [beq_iff_eq] at h
  have e1 : ((y % 400).toNat : Int) = y % 400 := by omega
  have e2 : (((m - 1).toNat : Int) + 1) = m := by omega
  have e3 : ((d % 7).toNat : Int) = d % 7 := by omega
  rw [e1, e2, e3] at h
  exact h

/-- `is_long_year` ⇔ the ISO year has 53 weeks (weeks counted with the stdlib's `_isoweek1monday`) -/
theorem is_long_year_iff (y : Int) : Gen.is_long_year y = true ↔ isoWeeksInYear y = 53 := by
  rw [year_rep y, long_periodic, weeks_periodic]
  have hr : (y % 400).toNat < 400 := by omega
  have h := all_range longCycle_true _ hr
  simp only [beq_iff_eq] at h
  have e1 : ((y % 400).toNat : Int) = y % 400 := by omega
  rw [e1] at h
  rw [h]; simp

/-- `_day_number` is the proleptic ordinal shifted by a constant, so its differences are day counts -/
theorem day_number_eq (y m d : Int) (hm : 1 ≤ m ∧ m ≤ 12) :
    Gen.day_number y m d = ymd2ord y m d + 305 := by
  rw [year_rep y, dn_shift, ord_shift, dn_day, ord_day]
  have hr : (y % 400).toNat < 400 := by omega
  have hm' : (m - 1).toNat < 12 := by omega
  have h := all_range (all_range dnCycle_true _ hr) _ hm'
  simp only [beq_iff_eq] at h
  have e1 : ((y % 400).toNat : Int) = y % 400 := by omega
  have e2 : (((m - 1).toNat : Int) + 1) = m := by omega
  rw [e1, e2] at h
  omega

/-- `Date.day_of_year` closed form (`275*m//9 - k*((m+9)//12) + d - 30`) = days before the month + day -/
theorem day_of_year_spec (leap : Bool) (m d : Int) (hm : 1 ≤ m ∧ m ≤ 12) :
    Gen.date_day_of_year leap m d = daysBeforeMonth leap m + d := by
  obtain ⟨h1, h2⟩ := hm
  have : m = 1 ∨ m = 2 ∨ m = 3 ∨ m = 4 ∨ m = 5 ∨ m = 6 ∨ m = 7 ∨ m = 8 ∨ m = 9 ∨ m = 10 ∨ m = 11 ∨ m = 12 := by omega
  rcases this with h|h|h|h|h|h|h|h|h|h|h|h <;> subst h <;> cases leap <;>
    simp [Gen.date_day_of_year, daysBeforeMonth] <;> omega

/-- the month tables shipped in `constants.py` are the reference month lengths and offsets -/
theorem py_tables_correct (y m : Int) (hm : 1 ≤ m ∧ m ≤ 12) :
    (if isLeap y then Gen.py_DAYS_PER_MONTHS_1 m else Gen.py_DAYS_PER_MONTHS_0 m) = daysInMonth y m ∧
    (if isLeap y then Gen.py_MONTHS_OFFSETS_1 m else Gen.py_MONTHS_OFFSETS_0 m) = daysBeforeMonth (isLeap y) m := by
  obtain ⟨h1, h2⟩ := hm
  have : m = 1 ∨ m = 2 ∨ m = 3 ∨ m = 4 ∨ m = 5 ∨ m = 6 ∨ m = 7 ∨ m = 8 ∨ m = 9 ∨ m = 10 ∨ m = 11 ∨ m = 12 := by omega
  rcases this with h|h|h|h|h|h|h|h|h|h|h|h <;> subst h <;> cases hl : isLeap y <;>
    simp [Gen.py_DAYS_PER_MONTHS_0, Gen.py_DAYS_PER_MONTHS_1, Gen.py_MONTHS_OFFSETS_0, Gen.py_MONTHS_OFFSETS_1,
      daysInMonth, daysBeforeMonth, hl]

/-- the Rust tables are the Python tables (both regenerated from source) -/
theorem rs_tables_eq_py :
    (∀ i : Int, Gen.rs_DAYS_PER_MONTHS_0 i = Gen.py_DAYS_PER_MONTHS_0 i) ∧
    (∀ i : Int, Gen.rs_DAYS_PER_MONTHS_1 i = Gen.py_DAYS_PER_MONTHS_1 i) ∧
    (∀ i : Int, Gen.rs_MONTHS_OFFSETS_0 i = Gen.py_MONTHS_OFFSETS_0 i) ∧
    (∀ i : Int, Gen.rs_MONTHS_OFFSETS_1 i = Gen.py_MONTHS_OFFSETS_1 i) ∧
    (∀ i : Int, Gen.rs_DAY_OF_WEEK_TABLE i = Gen.py_DAY_OF_WEEK_TABLE i) ∧
    (∀ i : Int, Gen.rs_SECS_PER_100_YEARS i = Gen.py_SECS_PER_100_YEARS i) ∧
    (∀ i : Int, Gen.rs_SECS_PER_4_YEARS i = Gen.py_SECS_PER_4_YEARS i) ∧
    (∀ i : Int, Gen.rs_SECS_PER_YEAR i = Gen.py_SECS_PER_YEAR i) ∧
    Gen.rs_SECS_PER_400_YEARS = Gen.py_SECS_PER_400_YEARS ∧ Gen.rs_SECS_PER_DAY = Gen.py_SECS_PER_DAY ∧
    Gen.rs_SECS_PER_HOUR = Gen.py_SECS_PER_HOUR ∧ Gen.rs_SECS_PER_MIN = Gen.py_SECS_PER_MIN ∧
    Gen.rs_EPOCH_YEAR = Gen.py_EPOCH_YEAR ∧ Gen.rs_DAYS_PER_N_YEAR = Gen.py_DAYS_PER_N_YEAR ∧
    Gen.rs_DAYS_PER_L_YEAR = Gen.py_DAYS_PER_L_YEAR := by
  refine ⟨?_, ?_, ?_, ?_, ?_, ?_, ?_, ?_, rfl, rfl, rfl, rfl, rfl, rfl, rfl⟩ <;> intro i <;> rfl

/-! ### compiled backend = pure-Python backend (years ≥ 1, i.e. all of `datetime`'s range) -/

theorem rs_is_leap_eq (y : Int) (hy : 0 ≤ y) : Rs.is_leap y = Gen.is_leap y := by
  unfold Rs.is_leap Gen.is_leap
  simp only [Int.tmod_eq_emod_of_nonneg hy]
  -- finished on the propositional level, so that a rearrangement of either source expression is harmless
  all_goals
    rw [Bool.eq_iff_iff]
    simp only [Bool.and_eq_true, Bool.or_eq_true, beq_iff_eq, bne_iff_ne, ne_eq]
    omega

theorem rs_p_eq (y : Int) (hy : 0 ≤ y) : Rs.p y = gp y := by
  unfold Rs.p gp
  simp only [Int.tdiv_eq_ediv_of_nonneg hy]
  all_goals omega

theorem gp_nonneg (y : Int) (hy : 0 ≤ y) : 0 ≤ gp y := by unfold gp; omega

theorem rs_is_long_year_eq (y : Int) (hy : 1 ≤ y) : Rs.is_long_year y = Gen.is_long_year y := by
  unfold Rs.is_long_year Gen.is_long_year
  rw [rs_p_eq y (by omega), rs_p_eq (y - 1) (by omega)]
  rw [Int.tmod_eq_emod_of_nonneg (gp_nonneg y (by omega)), Int.tmod_eq_emod_of_nonneg (gp_nonneg (y - 1) (by omega))]
  rfl

theorem rs_days_in_year_eq (y : Int) (hy : 0 ≤ y) : Rs.days_in_year y = Gen.days_in_year y := by
  unfold Rs.days_in_year Gen.days_in_year
  rw [rs_is_leap_eq y hy]; rfl

theorem rs_week_day_eq (y m d : Int) (hy : 1 ≤ y) (_hm : 1 ≤ m ∧ m ≤ 12) (hd : 0 ≤ d) :
    Rs.week_day y m d = Gen.week_day y m d := by
  unfold Rs.week_day Gen.week_day
  simp only []
  have ht : ∀ i : Int, 0 ≤ Gen.py_DAY_OF_WEEK_TABLE i := by
    intro i; unfold Gen.py_DAY_OF_WEEK_TABLE; split <;> omega
  have hrt : ∀ i : Int, Gen.rs_DAY_OF_WEEK_TABLE i = Gen.py_DAY_OF_WEEK_TABLE i := fun _ => rfl
  by_cases c : m < 3 <;> simp only [c, if_true, if_false, decide_true, decide_false, Bool.false_eq_true]
  · rw [rs_p_eq (y - 1) (by omega), hrt]
    have hn : 0 ≤ gp (y - 1) + Gen.py_DAY_OF_WEEK_TABLE (m - 1) + d := by
      have := gp_nonneg (y - 1) (by omega); have := ht (m - 1); omega
    rw [Int.tmod_eq_emod_of_nonneg hn]
    unfold gp
    split <;> simp_all <;> omega
  · rw [Int.sub_zero, rs_p_eq y (by omega), hrt]
    have hn : 0 ≤ gp y + Gen.py_DAY_OF_WEEK_TABLE (m - 1) + d := by
      have := gp_nonneg y (by omega); have := ht (m - 1); omega
    rw [Int.tmod_eq_emod_of_nonneg hn]
    unfold gp
    split <;> simp_all <;> omega

theorem rs_day_number_eq (y m d : Int) (hy : 1 ≤ y) (hm : 1 ≤ m ∧ m ≤ 12) :
    Rs.day_number y m d = Gen.day_number y m d := by
  unfold Rs.day_number Gen.day_number
  simp only []
  have h1 : Int.tmod (m + 9) 12 = (m + 9) % 12 := Int.tmod_eq_emod_of_nonneg (by omega)
  rw [h1]
  have h2 : Int.tdiv ((m + 9) % 12) 10 = ((m + 9) % 12) / 10 := Int.tdiv_eq_ediv_of_nonneg (by omega)
  rw [h2]
  have hy' : 0 ≤ y - ((m + 9) % 12) / 10 := by omega
  rw [Int.tdiv_eq_ediv_of_nonneg hy', Int.tdiv_eq_ediv_of_nonneg hy', Int.tdiv_eq_ediv_of_nonneg hy']
  rw [Int.tdiv_eq_ediv_of_nonneg (by omega)]

/-! ### broken-down time of a Unix timestamp at a given offset -/

/-- **`local_time`, pure-Python backend**: for every integer timestamp of either sign and every offset the result is
    a valid civil date whose proleptic ordinal is `ordinal(1970-01-01) + ⌊(t+off)/86400⌋` and whose h:m:s is the
    time of day `(t+off) mod 86400` (the 400/100/4/1-year chunk loops and the month walk, over the generated tables) -/
theorem local_time_spec (t off : Int) :
    let r := LocalTime.localTime false LocalTime.pyTbl t off
    validDate r.1 r.2.1 r.2.2.1 ∧ ymd2ord r.1 r.2.1 r.2.2.1 = epochOrd + (t + off) / 86400 ∧
    r.2.2.2.1 * 3600 + r.2.2.2.2.1 * 60 + r.2.2.2.2.2 = (t + off) % 86400 ∧
    0 ≤ r.2.2.2.1 ∧ r.2.2.2.1 < 24 ∧ 0 ≤ r.2.2.2.2.1 ∧ r.2.2.2.2.1 < 60 ∧ 0 ≤ r.2.2.2.2.2 ∧ r.2.2.2.2.2 < 60 :=
  LocalTime.localTime_py_spec t off

/-- the civil date is *the* date with that ordinal (uniqueness from injectivity of `ymd2ord`) -/
theorem local_time_date (t off : Int) :
    let r := LocalTime.localTime false LocalTime.pyTbl t off
    (r.1, r.2.1, r.2.2.1) = ord2ymd (epochOrd + (t + off) / 86400) := by
  have h := LocalTime.localTime_py_spec t off
  simp only [] at h ⊢
  obtain ⟨hv, ho, _⟩ := h
  rw [← ho, ord2ymd_ymd2ord _ _ _ hv]

/-- **compiled backend** (truncating division + sign fix-up, Rust tables): identical result for every input -/
theorem local_time_rs_eq_py (t off : Int) :
    LocalTime.localTime true LocalTime.rsTbl t off = LocalTime.localTime false LocalTime.pyTbl t off :=
  LocalTime.localTime_rs_eq t off

end Pendulum.Props.C15
