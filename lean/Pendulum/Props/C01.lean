import Pendulum.Proofs.ZoneOps
import Pendulum.Model.DTOps
/-! # C01 — timezone conversion preserves the instant and matches the tz database

Theorems over the zone-table model (`Model/Zone.lean`), for every well-formed table (`Z.WF`): no bound on the
number of transitions, on instants or on offsets. That the shipped tzdata tables are well-formed and that the
model reproduces `zoneinfo` on them is evaluated on every run (DESIGN §5). -/
namespace Pendulum.Props.C01
open Pendulum Pendulum.Zone



theorem inTz_instant (z z' : Z) (h' : z'.WF) (l : Local) : toUtc z' (inTz z z' l) = toUtc z l :=
  toUtc_fromUtc z' h' _

theorem inTz_fields (z z' : Z) (l : Local) :
    (inTz z z' l).w = toUtc z l + z'.off (toUtc z l) ∧ (inTz z z' l).fold = z'.foldOf (toUtc z l) := ⟨rfl, rfl⟩

theorem inTz_compose (z z' z'' : Z) (h' : z'.WF) (l : Local) :
    inTz z' z'' (inTz z z' l) = inTz z z'' l := by
  unfold inTz; rw [toUtc_fromUtc z' h']


/-! ### the same statements on the DateTime-level model (`DTOps`), which is what the correspondence run ties to the code -/
open Pendulum.DTOps

/-- the well-formedness a zone reference needs: named tables must be `WF`; fixed offsets always are -/
def ZRef.WF : ZRef → Prop
  | .named z => z.WF
  | _ => True

theorem table_wf {t : ZRef} {zt : Z} (hw : ZRef.WF t) (ht : t.table = some zt) : zt.WF := by
  cases t with
  | named z => simp [ZRef.table] at ht; subst ht; exact hw
  | fixed off => simp [ZRef.table] at ht; subst ht; simp [Z.WF, fixedZ, Zone.WF]
  | naive => simp [ZRef.table] at ht

/-- a `FixedTimezone` is the zone without transitions: constant offset, fold never set -/
theorem fixed_is_zone (off u w : Int) (f : Bool) :
    (fixedZ off).WF ∧ (fixedZ off).off u = off ∧ (fixedZ off).woff f w = off ∧ (fixedZ off).foldOf u = false := by
  simp [Z.WF, fixedZ, Zone.WF, Z.off, offAt, Z.woff, wallOff, Z.foldOf, foldAt]

/-- what `inTz` returns for an aware source and a distinct target object -/
theorem inTz_ok_shape (v r : V) (t : ZRef) (zt : Z) (hv : v.z.table ≠ none) (ht : t.table = some zt)
    (h : DTOps.inTz v t false = .ok r) :
    r.z = t ∧ r.w = (fromUtc zt v.instant).w ∧ r.fold = (fromUtc zt v.instant).fold := by
  unfold DTOps.inTz at h
  simp only [Bool.false_eq_true, if_false] at h
  cases hz : v.z with
  | naive => simp [hz, ZRef.table] at hv
  | named z0 =>
    simp only [hz, ht] at h
    split at h
    · injection h with h; subst h
      refine ⟨rfl, rfl, ?_⟩
      cases t with
      | fixed off => simp [ZRef.table] at ht; subst ht; simp [fromUtc, fixedZ, Z.foldOf, foldAt]
      | named _ => rfl
      | naive => simp [ZRef.table] at ht
    · cases h
  | fixed o0 =>
    simp only [hz, ht] at h
    split at h
    · injection h with h; subst h
      refine ⟨rfl, rfl, ?_⟩
      cases t with
      | fixed off => simp [ZRef.table] at ht; subst ht; simp [fromUtc, fixedZ, Z.foldOf, foldAt]
      | named _ => rfl
      | naive => simp [ZRef.table] at ht
    · cases h

/-- **conversion preserves the instant**, to the unit of the table (microseconds), for every aware source,
    every target zone or fixed offset -/
theorem inTz_instant_dt (v r : V) (t : ZRef) (zt : Z) (hv : v.z.table ≠ none) (ht : t.table = some zt)
    (hw : ZRef.WF t) (h : DTOps.inTz v t false = .ok r) : r.instant = v.instant := by
  obtain ⟨e1, e2, e3⟩ := inTz_ok_shape v r t zt hv ht h
  have hwf := table_wf hw ht
  unfold V.instant V.offset
  rw [e1, ht]
  simp only []
  rw [e2, e3]
  exact toUtc_fromUtc zt hwf v.instant

/-- **local fields and offset are the ones the zone table assigns to that instant**, and the zone is the requested one -/
theorem inTz_fields_dt (v r : V) (t : ZRef) (zt : Z) (hv : v.z.table ≠ none) (ht : t.table = some zt)
    (hw : ZRef.WF t) (h : DTOps.inTz v t false = .ok r) :
    r.z = t ∧ r.w = v.instant + zt.off v.instant ∧ r.offset = zt.off v.instant := by
  obtain ⟨e1, e2, e3⟩ := inTz_ok_shape v r t zt hv ht h
  have hwf := table_wf hw ht
  refine ⟨e1, e2, ?_⟩
  unfold V.offset
  rw [e1, ht]
  simp only []
  rw [e2, e3]
  exact roundtrip zt.trs zt.init v.instant hwf

/-- **A→B→C = A→C** on every observable (zone, wall fields, offset; hence the instant) -/
theorem inTz_compose_dt (v r1 r2 r3 : V) (b c : ZRef) (zb zc : Z) (hv : v.z.table ≠ none)
    (hb : b.table = some zb) (hc : c.table = some zc) (hwb : ZRef.WF b) (hwc : ZRef.WF c)
    (h1 : DTOps.inTz v b false = .ok r1) (h2 : DTOps.inTz r1 c false = .ok r2) (h3 : DTOps.inTz v c false = .ok r3) :
    r2.z = r3.z ∧ r2.w = r3.w ∧ r2.offset = r3.offset := by
  have i1 := inTz_instant_dt v r1 b zb hv hb hwb h1
  have hr1 : r1.z.table ≠ none := by
    rw [(inTz_ok_shape v r1 b zb hv hb h1).1, hb]; simp
  obtain ⟨a1, a2, a3⟩ := inTz_fields_dt r1 r2 c zc hr1 hc hwc h2
  obtain ⟨b1, b2, b3⟩ := inTz_fields_dt v r3 c zc hv hc hwc h3
  rw [i1] at a2 a3
  exact ⟨by rw [a1, b1], by rw [a2, b2], by rw [a3, b3]⟩

/-- **`int_timestamp` inverts `from_timestamp`**: a timestamp of `t` seconds and `us` microseconds rendered in any
    zone reports `t` again (UTC is the table without transitions and offset 0) -/
theorem fromTimestamp_intTimestamp (t us : Int) (f : Bool) (tz : ZRef) (zt : Z) (r : V) (hus : 0 ≤ us ∧ us < AddDur.US)
    (ht : tz.table = some zt) (hw : ZRef.WF tz)
    (h : DTOps.inTz ⟨.named ⟨0, []⟩, t * AddDur.US + us, f⟩ tz false = .ok r) :
    r.instant / AddDur.US = t := by
  have hi := inTz_instant_dt _ r tz zt (by simp [ZRef.table]) ht hw h
  rw [hi]
  simp only [V.instant, V.offset, ZRef.table, Z.woff, wallOff]
  unfold AddDur.US at *
  omega

/-- **`instance()` of an aware native value keeps its instant**: if the source's own offset `srcOff` is one the zone
    assigns to that wall time (for either fold) — which is what "an aware datetime in that zone" means — the result
    denotes `w - srcOff`, whatever the source's fold bit was (pytz never sets it) -/
theorem instance_instant (z : Z) (w srcOff : Int) (fold f0 : Bool) (r : V)
    (hsrc : srcOff = z.woff f0 w) (hns : ¬ z.woff true w > z.woff false w)
    (h : instanceAware (.named z) w fold srcOff = .ok r) : r.instant = w - srcOff := by
  unfold instanceAware at h
  simp only [ZRef.table] at h
  -- the fold actually used has offset srcOff
  have key : ∀ f' : Bool, z.woff f' w = srcOff → DTOps.create (.named z) w f' false = .ok r → r.instant = w - srcOff := by
    intro f' hf' hc
    unfold DTOps.create at hc
    simp only [convertNaive, hns, if_false, Bool.false_eq_true, and_false] at hc
    split at hc
    · injection hc with hc; subst hc
      simp [V.instant, V.offset, ZRef.table, hf']
    · cases hc
  by_cases c : z.woff fold w ≠ srcOff ∧ z.woff (!fold) w = srcOff
  · rw [if_pos c] at h; exact key _ c.2 h
  · rw [if_neg c] at h
    have : z.woff fold w = srcOff := by
      cases hf : f0 <;> cases hg : fold <;> simp_all
    exact key _ this h

/-! non-vacuity: a two-transition table, a value inside its overlap, a conversion that succeeds -/
example : (⟨3600, [⟨1000000, 7200⟩, ⟨2000000, 3600⟩]⟩ : Z).WF := by
  simp [Z.WF, Zone.WF, absI]
example : (DTOps.inTz ⟨.named ⟨3600, [⟨1000000, 7200⟩, ⟨2000000, 3600⟩]⟩, 2005000, true⟩ (.fixed 0) false).toOption.map (·.w)
    = some 2001400 := by decide

/-! ### the conversion glue itself (`in_timezone`/`in_tz`/`astimezone`, the aware branch of `Timezone.convert` and
`FixedTimezone.convert`, `from_timestamp`, `int_timestamp`, `_safe_timezone`, `timezone()`, `fixed_timezone`,
`FixedTimezone.__init__`), regenerated from the source on every run by tools/gen_dtconv.py (`Gen/DTConv.lean`) and proved
equal to the hand model for all inputs, under the callee-link hypotheses `EnvOk` (Proofs/DTConvGen.lean; satisfiable) -/

end Pendulum.Props.C01
