import Pendulum.Proofs.ZoneOps
import Pendulum.Model.DTOps
/-! # C01 — timezone conversion preserves the instant and matches the tz database

Theorems over the zone-table model (`Model/Zone.lean`), for every well-formed table (`Z.WF`): no bound on the
number of transitions, on instants or on offsets. That the shipped tzdata tables are well-formed and that the
model reproduces `zoneinfo` on them is evaluated on every run (DESIGN §5). -/
namespace Pendulum.Props.C01
open Pendulum Pendulum.Zone



theorem inTz_instant (z z' : Z) (h' : z'.WF) (l : Local) : toUtc z' (inTz z z' l) = toUtc z l :=
  toUtc_fromUtc z' h' _

theorem inTz_fields (z z' : Z) (l : Local) :
    (inTz z z' l).w = toUtc z l + z'.off (toUtc z l) ∧ (inTz z z' l).fold = z'.foldOf (toUtc z l) := ⟨rfl, rfl⟩

theorem inTz_compose (z z' z'' : Z) (h' : z'.WF) (l : Local) :
    inTz z' z'' (inTz z z' l) = inTz z z'' l := by
  unfold inTz; rw [toUtc_fromUtc z' h']


end Pendulum.Props.C01
