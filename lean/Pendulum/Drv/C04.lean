import Pendulum.Drv.DTUtil
import Pendulum.Model.CalOps
/-! C04 requests (the plain `add <zref> <wall> <fold> <8 amounts>` request is served by Drv/C03):
* `c04dur <plus|minus|plusneg|subcomp> <zref> <wall> <fold> <8 signature ints>` → `ok <wall> <offset> <fold>`
  (`dt + d`, `dt - d`, `dt + (-d)`, `dt.subtract(<d's components>)` for `d = Duration(**signature)`)
* `c04comps <8 signature ints>` → `ok years months weeks rdays hours minutes rsecs us days secs` then the same for `-d`
* `c04date <add|subtract> <day number> <years> <months> <weeks> <days>` → `ok <day number>`
* `c04datedur <plus|minus|plusneg|subcomp> <day number> <8 signature ints>` → `ok <day number>` -/
namespace Pendulum.Drv.C04
open Pendulum Pendulum.Drv Pendulum.DTOps Pendulum.CalOps

def mkSig : List Int → Option Sig
  | [y, mo, wk, dd, hh, mi, s, us] => some ⟨y, mo, wk, dd, hh, mi, s, us⟩
  | _ => none

def comps (d : Dur) : List Int :=
  [d.years, d.months, d.weeks, d.rdays, d.hours, d.minutes, d.rsecs, d.us, d.days, d.secs]

def replyN : Except AddDur.Err Int → String
  | .ok n => okInts [n]
  | .error .valueError => "err ValueError"
  | .error .overflow => "err OverflowError"

def handle (zs : Zones) (ws : List String) : Option String :=
  match ws with
  | "c04dur" :: mode :: z :: w :: f :: rest => do
    let v ← parseV zs z w f
    let s ← (ints rest).bind mkSig
    let d := mkDur s
    match mode with
    | "plus" => some (replyV (addDur v d))
    | "minus" => some (replyV (subDur v d))
    | "plusneg" => some (replyV (addDur v (neg d)))
    | "subcomp" => some (replyV (subComponents v d))
    | _ => none
  | "c04comps" :: rest => do
    let s ← (ints rest).bind mkSig
    let d := mkDur s
    some (okInts (comps d ++ comps (neg d)))
  | ["c04date", mode, n, a, b, c, d] => do
    match ints [n, a, b, c, d] with
    | some [n, y, mo, wk, dd] =>
      match mode with
      | "add" => some (replyN (dateAdd n y mo wk dd))
      | "subtract" => some (replyN (dateSubtract n y mo wk dd))
      | _ => none
    | _ => none
  | "c04datedur" :: mode :: n :: rest => do
    let n ← n.toInt?
    let s ← (ints rest).bind mkSig
    let d := mkDur s
    match mode with
    | "plus" => some (replyN (dateAddDur n d))
    | "minus" => some (replyN (dateSubDur n d))
    | "plusneg" => some (replyN (dateAddDur n (neg d)))
    | "subcomp" => some (replyN (dateSubtract n d.years d.months d.weeks d.rdays))
    | _ => none
  | _ => none

end Pendulum.Drv.C04
