import Pendulum.Drv.Util
import Pendulum.Model.Diff
import Pendulum.Gen.Locales
/-! request handler for property C18 (human-readable differences, in_words, locale tokens) -/
namespace Pendulum.Drv.C18
open Pendulum Pendulum.Drv Pendulum.Loc

def findLoc (w : String) : Option Locale := Gen.Locales.all.find? (·.name == w)

def reply : Except Err Str → String
  | .ok s => "ok " ++ encStr (String.ofList s)
  | .error e => "err " ++ e.name

def handle (_zs : Zones) (ws : List String) : Option String :=
  match ws with
  | ["c18fmt", l, y, mo, w, d, h, mi, s, inv, isNow, ab] => do
    let ℓ ← findLoc l
    let y ← y.toInt?; let mo ← mo.toInt?; let w ← w.toInt?; let d ← d.toInt?
    let h ← h.toInt?; let mi ← mi.toInt?; let s ← s.toInt?
    some (reply (format ℓ ⟨y, mo, w, d, h, mi, s, inv == "1"⟩ (isNow == "1") (ab == "1")))
  | ["c18words", l, y, mo, w, d, h, mi, s, us, sep] => do
    let ℓ ← findLoc l
    let y ← y.toInt?; let mo ← mo.toInt?; let w ← w.toInt?; let d ← d.toInt?
    let h ← h.toInt?; let mi ← mi.toInt?; let s ← s.toInt?; let us ← us.toInt?
    let sep ← decStr sep
    some (reply (inWords ℓ ⟨y, mo, w, d, h, mi, s, false⟩ us sep.toList))
  | ["c18plural", l, n] => do
    let ℓ ← findLoc l
    let n ← n.toInt?
    some ("ok " ++ encStr (ℓ.plural n) ++ " " ++ encStr (ℓ.ordinal n))
  | ["c18ordz", l, n] => do
    let ℓ ← findLoc l
    let n ← n.toInt?
    some (reply (ordinalize ℓ n))
  | ["c18tok", l, tok, month, dow, day, q, woy, doy, hour] => do
    let ℓ ← findLoc l
    let month ← month.toInt?; let dow ← dow.toInt?; let day ← day.toInt?; let q ← q.toInt?
    let woy ← woy.toInt?; let doy ← doy.toInt?; let hour ← hour.toInt?
    some (reply (formatToken ℓ tok ⟨month, dow, day, q, woy, doy, hour⟩))
  | ["c18micro", x] => do
    let x ← x.toNat?
    some ("ok " ++ encStr (String.ofList (fmtMicro x)))
  | ["c18locales"] => some ("ok " ++ encStr (",".intercalate Gen.Locales.names))
  | _ => none

end Pendulum.Drv.C18
