import Pendulum.Drv.Util
import Pendulum.Drv.DTUtil
import Pendulum.Model.WeekNav
/-! request handler for property C16 (weekday navigation). `<u>` = 0 month | 1 quarter | 2 year;
`<wd>` = 0 (Monday) … 6 (Sunday), `-1` = no weekday given. Dates are proleptic ordinals.
  `dnext|dprev <ord> <wd>`                       → `ok <ord>`
  `dfirst|dlast <u> <ord> <wd|-1>`               → `ok <ord>`
  `dnth <u> <ord> <n> <wd>`                      → `ok <ord>` / `err PendulumException`
  `tnext|tprev <zref> <wall> <fold> <wd> <keep>` → `ok <wall> <offset> <fold>` / `err <Kind>`
  `tfirst|tlast <u> <zref> <wall> <fold> <wd|-1>`
  `tnth <u> <zref> <wall> <fold> <n> <wd>`       → … / `err PendulumException` -/
namespace Pendulum.Drv.C16
open Pendulum Pendulum.Drv Pendulum.WeekNav Pendulum.DTOps

def unitOf : String → Option Unit'
  | "0" => some .month | "1" => some .quarter | "2" => some .year | _ => none

def wdOpt (w : String) : Option (Option Int) := do
  let x ← w.toInt?
  some (if x < 0 then none else some x)

def handle (zs : Zones) (ws : List String) : Option String :=
  match ws with
  | ["dnext", o, wd] => do
    let o ← o.toInt?; let wd ← wd.toInt?
    some (okInts [next o wd])
  | ["dprev", o, wd] => do
    let o ← o.toInt?; let wd ← wd.toInt?
    some (okInts [previous o wd])
  | ["dfirst", u, o, wd] => do
    let u ← unitOf u; let o ← o.toInt?; let wd ← wdOpt wd
    some (okInts [firstOf u o wd])
  | ["dlast", u, o, wd] => do
    let u ← unitOf u; let o ← o.toInt?; let wd ← wdOpt wd
    some (okInts [lastOf u o wd])
  | ["dnth", u, o, n, wd] => do
    let u ← unitOf u; let o ← o.toInt?; let n ← n.toNat?; let wd ← wd.toInt?
    match nthOf u o n wd with
    | some r => some (okInts [r])
    | none => some "err PendulumException"
  | ["tnext", z, w, f, wd, keep] => do
    let v ← parseV zs z w f; let wd ← wd.toInt?
    some (replyV (dtNext v wd (keep == "1")))
  | ["tprev", z, w, f, wd, keep] => do
    let v ← parseV zs z w f; let wd ← wd.toInt?
    some (replyV (dtPrevious v wd (keep == "1")))
  | ["tfirst", u, z, w, f, wd] => do
    let u ← unitOf u; let v ← parseV zs z w f; let wd ← wdOpt wd
    some (replyV (dtFirstOf u v wd))
  | ["tlast", u, z, w, f, wd] => do
    let u ← unitOf u; let v ← parseV zs z w f; let wd ← wdOpt wd
    some (replyV (dtLastOf u v wd))
  | ["tnth", u, z, w, f, n, wd] => do
    let u ← unitOf u; let v ← parseV zs z w f; let n ← n.toNat?; let wd ← wd.toInt?
    match dtNthOf u v n wd with
    | .ok (some r) => some (okV r)
    | .ok none => some "err PendulumException"
    | .error e => some ("err " ++ e.name)
  | _ => none

end Pendulum.Drv.C16
