import Pendulum.Drv.DTUtil
import Pendulum.Model.Pickle
/-! C14 requests (`way` = copy | deepcopy | p0..p5):
  `c14dt <way> <tzref> <name> <wall> <fold>`                       → `ok <wall> <offset> <foldsel> <tzkind> <name> <fixedoff|x>`
  `c14dur <way> <y> <mo> <wk> <d> <h> <mi> <s> <ms> <us>`          → `ok <12 observed ints>`
  `c14adur <way> <y> <mo> <wk> <d> <h> <mi> <s> <ms> <us>`         → `ok <12 observed ints>` (AbsoluteDuration)
  `c14iv <way> <same> <tzA> <nameA> <wA> <fA> <tzB> <nameB> <wB> <fB> <absolute>` → `ok <start 3> <end 3> <abs> <invert> <len>`
  `c14time <way> <tod> <tzref> <name> <fold>`                      → `ok <tod> <tzkind> <name> <fixedoff|x>`
  `c14date <way> <y> <m> <d>`                                      → `ok <y> <m> <d>`
  `c14tz <way> <tzref> <name>`                                     → `ok <tzkind> <name> <fixedoff|x>`
tzref: `n` | `<idx>` Timezone | `Z<idx>` zoneinfo.ZoneInfo | `f<seconds>` FixedTimezone(seconds, name) | `T<µs>` datetime.timezone -/
namespace Pendulum.Drv.C14
open Pendulum Pendulum.Drv Pendulum.DTOps Pendulum.Pickle

def encL (s : Str) : String :=
  match s with
  | [] => "-"
  | _ => ",".intercalate (s.map toString)

def decL (w : String) : Option Str :=
  if w == "-" then some [] else (w.splitOn ",").mapM String.toNat?

/-- `none` = malformed, `some none` = naive -/
def parseTz (zs : Zones) (r name : String) : Option (Option Tz) := do
  let nm ← decL name
  if r == "n" then some none
  else if r.startsWith "f" then (r.drop 1).toString.toInt?.map fun o => some (mkFixed o nm)
  else if r.startsWith "T" then (r.drop 1).toString.toInt?.map fun o => some (.ntz o)
  else if r.startsWith "Z" then (getZone zs (r.drop 1).toString).map fun z => some (.zinfo nm z)
  else (getZone zs r).map fun z => some (.named nm z)

def tzWords (o : TzObs) : String :=
  s!"{o.kind} {encL o.name} " ++ (match o.fixedOff with | some x => toString x | none => "x")

def dtWords (o : DTObs) : String :=
  s!"{o.w} {o.offset} " ++ (match o.foldSel with | some b => toString (b2i b) | none => "-1")

def isPickle (way : String) : Bool := way.startsWith "p"

def applyDT (way : String) (v : DT) : DT :=
  if way == "deepcopy" then deepcopyDT v else if way == "copy" then copyDT v else pickleDT v

def handle (zs : Zones) (ws : List String) : Option String :=
  match ws with
  | ["c14dt", way, r, name, w, f] => do
    let tz ← parseTz zs r name
    let w ← w.toInt?
    let o := (applyDT way ⟨tz, w, f == "1"⟩).obs
    some ("ok " ++ dtWords o ++ " " ++ tzWords o.tz)
  | ["c14dur", way, a, b, c, d, e, g, h, i, j] => do
    match ints [a, b, c, d, e, g, h, i, j] with
    | some [y, mo, wk, dd, hh, mi, s, ms, us] =>
      let v := Dur.new dd s us ms mi hh wk y mo
      let r := if way == "deepcopy" then deepcopyDur v else rebuildDur (reduceDur v)
      let o := r.obs
      some (okInts [o.years, o.months, o.weeks, o.rdays, o.hours, o.minutes, o.rsecs, o.micros, b2i o.invert,
                    o.days, o.secs, o.us])
    | _ => none
  | ["c14adur", way, a, b, c, d, e, g, h, i, j] => do
    match ints [a, b, c, d, e, g, h, i, j] with
    | some [y, mo, wk, dd, hh, mi, s, ms, us] =>
      let v := AbsDur.new dd s us ms mi hh wk y mo
      let r := if way == "deepcopy" then deepcopyAbs v else rebuildAbs (reduceDur v)
      let o := r.absObs
      some (okInts [o.years, o.months, o.weeks, o.rdays, o.hours, o.minutes, o.rsecs, o.micros, b2i o.invert,
                    o.days, o.secs, o.us])
    | _ => none
  | ["c14iv", way, same, ra, na, wa, fa, rb, nb, wb, fb, ab] => do
    let tza ← parseTz zs ra na
    let tzb ← parseTz zs rb nb
    let wa ← wa.toInt?
    let wb ← wb.toInt?
    let sm := same == "1"
    let iv := mkIv sm ⟨tza, wa, fa == "1"⟩ ⟨tzb, wb, fb == "1"⟩ (ab == "1")
    let f : DT → DT := if way == "deepcopy" then deepcopyDT else if way == "copy" then id else pickleDT
    let o := (rebuildIv f sm (reduceIv iv)).obs
    some ("ok " ++ dtWords o.start ++ " " ++ dtWords o.stop ++ s!" {b2i o.absolute} {b2i o.invert} {o.len}")
  | ["c14time", way, tod, r, name, f] => do
    let tz ← parseTz zs r name
    let tod ← tod.toInt?
    let t : TimeV := ⟨tod, tz, f == "1"⟩
    -- Time has no `__deepcopy__`: the generic deepcopy is the reduce path with deep-copied arguments
    let o := (if way == "copy" then rebuildTime (reduceTime t) else if way == "deepcopy" then deepcopyTime t
              else pickleTime t).obs
    some (s!"ok {o.tod} " ++ tzWords o.tz)
  | ["c14date", _way, y, m, d] => do
    match ints [y, m, d] with
    | some [y, m, d] =>
      match rebuildDate (reduceDate y m d) with
      | some (y', m', d') => some (okInts [y', m', d'])
      | none => some "err State"
    | _ => none
  | ["c14tz", _way, r, name] => do
    let tz ← parseTz zs r name
    match tz with
    | some t => some ("ok " ++ tzWords (rebuildTz (reduceTz t)).obs)
    | none => none
  | _ => none

end Pendulum.Drv.C14
