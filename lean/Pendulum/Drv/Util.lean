import Pendulum.Model.Zone
/-! line-protocol helpers shared by the per-property request handlers -/
namespace Pendulum.Drv
open Pendulum.Zone

abbrev Zones := Array Z

def ints (ws : List String) : Option (List Int) := ws.mapM String.toInt?

def b2i (b : Bool) : Int := if b then 1 else 0

def okInts (xs : List Int) : String :=
  xs.foldl (fun acc x => acc ++ " " ++ toString x) "ok"

/-- strings travel as comma-separated code points, `-` = empty -/
def decStr (w : String) : Option String :=
  if w == "-" then some "" else
    (w.splitOn ",").foldlM (fun acc x => x.toNat?.map fun n => acc.push (Char.ofNat n)) ""

def encStr (s : String) : String :=
  if s.isEmpty then "-" else ",".intercalate (s.toList.map fun c => toString c.toNat)

def mkTrs : List Int → List Tr
  | t :: o :: rest => ⟨t, o⟩ :: mkTrs rest
  | _ => []

/-- decidable version of `Zone.WF` plus strictly increasing instants -/
def wfB (init : Int) : List Tr → Bool
  | [] => true
  | [_] => true
  | a :: b :: rest =>
    decide (b.t - a.t ≥ absI (a.off - init) + absI (b.off - a.off)) && decide (a.t < b.t) && wfB a.off (b :: rest)

/-- zone reference on the wire: index into the table sent with `zone` lines -/
def getZone (zs : Zones) (w : String) : Option Z :=
  match w.toNat? with
  | some i => zs[i]?
  | none => none

end Pendulum.Drv
