import Pendulum.Drv.DTUtil
import Pendulum.Model.Native
/-! C11 requests:
  `c11u <zref> <wall> <fold>`                                   → `ok <14 integer accessors>`
  `c11az <zref> <wall> <fold> <zref'> <same>`                   → `ok <wall> <offset> <fold>`
  `c11cmp <same> <zrefA> <wallA> <foldA> <zrefB> <wallB> <foldB>` → `ok <cmp> <eq>`
  `c11sub <same> <zrefA> <wallA> <foldA> <zrefB> <wallB> <foldB>` → `ok <a - b in µs>`
  `c11repl <zref> <wall> <fold> <wall'> <fold'>`                → `ok <wall> <offset> <fold>` -/
namespace Pendulum.Drv.C11
open Pendulum Pendulum.Drv Pendulum.DTOps Pendulum.Native

def handle (zs : Zones) (ws : List String) : Option String :=
  match ws with
  | ["c11u", z, w, f] => do
    let v ← parseV zs z w f
    let a := acc v
    some (okInts [a.offset, a.instant, a.ordinal, a.weekday, a.isoY, a.isoW, a.isoD, a.year, a.month, a.day,
                  a.tod, a.yday, a.utcOrdinal, a.utcTod])
  | ["c11az", z, w, f, z', same] => do
    let v ← parseV zs z w f
    let t ← parseZRef zs z'
    some (replyV (astimezone v t (same == "1")))
  | ["c11cmp", same, za, wa, fa, zb, wb, fb] => do
    let a ← parseV zs za wa fa
    let b ← parseV zs zb wb fb
    some (okInts [cmp (same == "1") a b, b2i (Native.eq (same == "1") a b)])
  | ["c11sub", _same, za, wa, fa, zb, wb, fb] => do
    let a ← parseV zs za wa fa
    let b ← parseV zs zb wb fb
    some (okInts [pendulumSub a b])
  | ["c11repl", z, w, f, w', f'] => do
    let v ← parseV zs z w f
    let w' ← w'.toInt?
    some (replyV (Native.replace v w' (f' == "1")))
  | _ => none

end Pendulum.Drv.C11
