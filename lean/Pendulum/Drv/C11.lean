import Pendulum.Drv.DTUtil
import Pendulum.Model.Native
/-! C11 requests:
  `c11u <zref> <wall> <fold>`                                   → `ok <14 integer accessors>`
  `c11az <zref> <wall> <fold> <zref'> <same>`                   → `ok <wall> <offset> <fold>`
  `c11cmp <same> <zrefA> <wallA> <foldA> <zrefB> <wallB> <foldB>` → `ok <cmp> <eq>`
  `c11sub <same> <zrefA> <wallA> <foldA> <zrefB> <wallB> <foldB>` → `ok <a - b in µs>`
  `c11repl <zref> <wall> <fold> <wall'> <fold'>`                → `ok <wall> <offset> <fold>`
  `c11parts <zref> <wall> <fold>`      date() time() timetz()    → `ok <ty> <ord> <ty> <tod> <tz> <fold> <ty> <tod> <tz> <fold>`
  `c11comb <zrefTime> <ord> <tod> <fold> <zrefArg>`  combine     → `ok <ty> <wall> <offset> <fold>`
  `c11dford <n>` / `c11drepl <ord> <y|x> <m|x> <d|x>`            → `ok <ty> <ord>`
  `c11dsub <ordA> <ordB>`                                       → `ok <ty> <µs>`
  `c11trepl <tod> <tz> <fold> <h|x> <m|x> <s|x> <us|x> <k|c|id> <fold|x>` → `ok <ty> <tod> <tz> <fold>`
  `c11tsub <s|r> <todSelf> <tzSelf> <todOther> <tzOther>`        → `ok <ty> <µs>`
(`<ty>` = `Native.Ty.code`; a time's `<tz>` = 0 for None, else the identity of the tzinfo object; errors `err <Name>`) -/
namespace Pendulum.Drv.C11
open Pendulum Pendulum.Drv Pendulum.DTOps Pendulum.Native

def optInt (w : String) : Option (Option Int) := if w == "x" then some none else w.toInt?.map some
def optBool (w : String) : Option (Option Bool) := if w == "x" then some none else some (some (w == "1"))
def tzId (w : String) : Option (Option Nat) := w.toNat?.map fun k => if k == 0 then none else some k
def tzW (k : Option Nat) : Int := match k with | none => 0 | some k => k
def tvWords (r : Ty × TV) : List Int := [r.1.code, r.2.tod, tzW r.2.tz, b2i r.2.fold]

def replyE : Except Ex (List Int) → String
  | .ok xs => okInts xs
  | .error e => "err " ++ e.name

def handle (zs : Zones) (ws : List String) : Option String :=
  match ws with
  | ["c11u", z, w, f] => do
    let v ← parseV zs z w f
    let a := acc v
    some (okInts [a.offset, a.instant, a.ordinal, a.weekday, a.isoY, a.isoW, a.isoD, a.year, a.month, a.day,
                  a.tod, a.yday, a.utcOrdinal, a.utcTod])
  | ["c11az", z, w, f, z', same] => do
    let v ← parseV zs z w f
    let t ← parseZRef zs z'
    some (replyV (astimezone v t (same == "1")))
  | ["c11cmp", same, za, wa, fa, zb, wb, fb] => do
    let a ← parseV zs za wa fa
    let b ← parseV zs zb wb fb
    some (okInts [cmp (same == "1") a b, b2i (Native.eq (same == "1") a b)])
  | ["c11sub", _same, za, wa, fa, zb, wb, fb] => do
    let a ← parseV zs za wa fa
    let b ← parseV zs zb wb fb
    some (okInts [pendulumSub a b])
  | ["c11repl", z, w, f, w', f'] => do
    let v ← parseV zs z w f
    let w' ← w'.toInt?
    some (replyV (Native.replace v w' (f' == "1")))
  | ["c11parts", z, w, f] => do
    let v ← parseV zs z w f
    let k : Option Nat := match v.z with | .naive => none | _ => some 1
    some (replyE (do
      let d ← pDateOf v
      let t ← pTimeOf v
      let tz ← pTimetzOf v k
      pure ([d.1.code, d.2] ++ tvWords t ++ tvWords tz)))
  | ["c11comb", z, o, t, f, za] => do
    let z ← parseZRef zs z
    let za ← parseZRef zs za
    let o ← o.toInt?
    let t ← t.toInt?
    match pCombine o t z (f == "1") za with
    | .ok (ty, v) => some (okInts [ty.code, v.w, v.offset, b2i v.fold])
    | .error e => some ("err " ++ e.name)
  | ["c11dford", n] => do
    let n ← n.toInt?
    some (replyE ((pFromOrdinal n).map fun r => [r.1.code, r.2]))
  | ["c11drepl", n, y, m, d] => do
    let n ← n.toInt?
    let y ← optInt y
    let m ← optInt m
    let d ← optInt d
    some (replyE ((pDateReplace n y m d).map fun r => [r.1.code, r.2]))
  | ["c11dsub", a, b] => do
    let a ← a.toInt?
    let b ← b.toInt?
    some (replyE ((pDateSub a b).map fun r => [r.1.code, r.2]))
  | ["c11trepl", tod, tz, f, h, m, s, us, ta, fa] => do
    let tod ← tod.toInt?
    let tz ← tzId tz
    let h ← optInt h
    let m ← optInt m
    let s ← optInt s
    let us ← optInt us
    let ta ← (if ta == "k" then some TzArg.keep else if ta == "c" then some TzArg.clear else ta.toNat?.map TzArg.set)
    let fa ← optBool fa
    some (replyE ((pTimeReplace ⟨tod, tz, f == "1"⟩ h m s us ta fa).map tvWords))
  | ["c11tsub", how, ta, za, tb, zb] => do
    let ta ← ta.toInt?
    let za ← tzId za
    let tb ← tb.toInt?
    let zb ← tzId zb
    let a : TV := ⟨ta, za, false⟩
    let b : TV := ⟨tb, zb, false⟩
    some (replyE ((if how == "r" then pTimeRsub a b else pTimeSub a b).map fun r => [r.1.code, r.2]))
  | _ => none

end Pendulum.Drv.C11
