import Pendulum.Drv.DTUtil
/-! C02 requests: `create <zref> <wall> <fold> <raise>` -/
namespace Pendulum.Drv.C02
open Pendulum Pendulum.Drv Pendulum.DTOps

def handle (zs : Zones) (ws : List String) : Option String :=
  match ws with
  | ["create", z, w, f, r] => do
    let z ← parseZRef zs z
    let w ← w.toInt?
    some (replyV (create z w (f == "1") (r == "1")))
  | ["createp", z, w, f, r] => do
    let z ← parseZRef zs z
    let w ← w.toInt?
    some (replyV (createFromPendulumNaive z w (f == "1") (r == "1")))
  | _ => none

end Pendulum.Drv.C02
