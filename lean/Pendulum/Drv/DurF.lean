import Pendulum.Drv.Util
import Pendulum.Model.Dur
import Pendulum.Model.DurFloat
/-! handlers that answer with the float-faithful model (Model/DurFloat.lean): `durf`, `absdurf`, `duropf`.
    The harness sends these instead of `dur`/`absdur`/`durop` when an operand or the result lies outside the
    float-exact range, so that the correspondence run also covers that region. -/
namespace Pendulum.Drv.DurF
open Pendulum Pendulum.Drv Pendulum.Dur

def argsOf : List Int → Option Args
  | [y, mo, w, d, h, mi, s, ms, us] => some { y, mo, w, d, h, mi, s, ms, us }
  | _ => none

def fieldsD (d : D) : List Int :=
  [Td.days d.native, Td.seconds d.native, Td.micros d.native, d.years, d.months, d.weeks, d.rdays,
   hours d, minutes d, remainingSeconds d, d.micros]

def fdiv (a : Fl.F) (k : Int) : Fl.F := Fl.rnd a.1 (a.2 * k)

/-- `in_weeks … in_seconds` = `int(total_*())` with the float divisions of `total_minutes/hours/days/weeks` -/
def insF (ts : Fl.F) : List Int :=
  [Fl.trunc (fdiv (fdiv ts 86400) 7), Fl.trunc (fdiv ts 86400), Fl.trunc (fdiv ts 3600), Fl.trunc (fdiv ts 60), Fl.trunc ts]

inductive Opnd where
  | dur (d : D × Fl.F)
  | itv (n : Int)
  | td (n : Int)
  | int (k : Int)
  | flt (p q : Int)
  | none

def parseOpnd : List String → Option (Opnd × List String)
  | "D" :: rest => do
    let a ← argsOf (← ints (rest.take 9))
    some (.dur (Fl.mk a), rest.drop 9)
  | "V" :: n :: rest => do some (.itv (← n.toInt?), rest)
  | "T" :: n :: rest => do some (.td (← n.toInt?), rest)
  | "I" :: n :: rest => do some (.int (← n.toInt?), rest)
  | "F" :: p :: q :: rest => do some (.flt (← p.toInt?) (← q.toInt?), rest)
  | "N" :: rest => some (.none, rest)
  | _ => Option.none

def okD (d : D) : String := okInts (1 :: fieldsD d)
def okTd (n : Int) : String := okInts [0, Td.days n, Td.seconds n, Td.micros n]
def zdiv : String := "err ZeroDivisionError"

/-- `Interval(start, end)` of exact length `n`: `Duration.__new__(cls, seconds=<float>)`; `as_duration()` repeats it -/
def interval (n : Int) : D × Fl.F := Fl.ofSeconds (Fl.totalSeconds n)
def asDuration (v : D × Fl.F) : D × Fl.F := Fl.ofSeconds (Fl.totalSeconds v.1.native)

/-- `(native, _to_microseconds)` of a duration-like right operand -/
def other? : Opnd → Option (Int × Int)
  | .dur d => some (d.1.native, toUs d.1)
  | .itv n => let v := interval n; some (v.1.native, toUs v.1)
  | .td n => some (n, n)
  | _ => Option.none

def leftOp (op : String) (d : D × Fl.F) (r : Opnd) : Option String :=
  let us := toUs d.1
  match op, r with
  | "neg", .none => some (okD (Fl.negF d.1))
  | "abs", .none => some (okTd (Td.abs d.1.native))
  | "mul", .int k => some (okD (Fl.mulIntF d k))
  | "mul", .flt p q => some (okD (Fl.ofUs (Td.divNear (us * p) q)))
  | "truediv", .int k => some (if k == 0 then zdiv else
      okD (Fl.mk { us := Td.divNear us k, y := Td.divNear d.1.years k, mo := Td.divNear d.1.months k }).1)
  | "truediv", .flt p q => some (if p == 0 then zdiv else
      okD (Fl.mk { us := Td.divNear (q * us) p, y := Td.divNear (d.1.years * q) p, mo := 0 }).1)
  | "floordiv", .int k => some (if k == 0 then zdiv else
      okD (Fl.mk { us := Int.fdiv us k, y := Int.fdiv d.1.years k, mo := Int.fdiv d.1.months k }).1)
  | _, _ =>
    match other? r with
    | Option.none => Option.none
    | some (on, ous) =>
      match op with
      | "add" => some (okD (Fl.addF d.1 on))
      | "sub" => some (okD (Fl.subF d.1 on))
      | "floordiv" => some (if ous == 0 then zdiv else okInts [2, Int.fdiv us ous])
      | "truediv" => some (if ous == 0 then zdiv else let r := trueDiv us ous; okInts [3, r.1, r.2])
      | "mod" => some (if ous == 0 then zdiv else okD (Fl.ofUs (Int.fmod us ous)))
      | "divmod" => some (if ous == 0 then zdiv else okInts (4 :: Int.fdiv us ous :: fieldsD (Fl.ofUs (Int.fmod us ous))))
      | _ => Option.none

def rightOp (op : String) (l : Opnd) (d : D × Fl.F) : Option String :=
  let n' := d.1.native
  match op, l with
  | "add", .td n => some (okD (Fl.addF d.1 n))
  | "mul", .int k => some (okD (Fl.mulIntF d k))
  | "mul", .flt p q => some (okD (Fl.ofUs (Td.divNear (toUs d.1 * p) q)))
  | "sub", .td n => some (okTd (n - n'))
  | "floordiv", .td n => some (if n' == 0 then zdiv else okInts [2, Int.fdiv n n'])
  | "truediv", .td n => some (if n' == 0 then zdiv else let r := trueDiv n n'; okInts [3, r.1, r.2])
  | "mod", .td n => some (if n' == 0 then zdiv else okTd (Int.fmod n n'))
  | "divmod", .td n => some (if n' == 0 then zdiv else
      okInts [5, Int.fdiv n n', Td.days (Int.fmod n n'), Td.seconds (Int.fmod n n'), Td.micros (Int.fmod n n')])
  | _, _ => Option.none

def handle (ws : List String) : Option String :=
  match ws with
  | "durf" :: rest => do
    let a ← argsOf (← ints rest)
    let d := (Fl.mk a).1
    let r := (Fl.mk (comps d)).1
    let same := decide (fieldsD r = fieldsD d)
    some (okInts (fieldsD d ++ [b2i (invert d)] ++ insF (Fl.totalSeconds d.native) ++ [b2i same, 1, 1]))
  | "absdurf" :: rest => do
    let a ← argsOf (← ints rest)
    let x := Fl.mkAbs a
    let d := x.asD
    let ts := Fl.totalSeconds x.native
    some (okInts ([Td.days x.native, Td.seconds x.native, Td.micros x.native, d.years, d.months, d.weeks, d.rdays,
      hours d, minutes d, remainingSeconds d, d.micros, b2i x.invert] ++ insF (absI ts.1, ts.2) ++ [x.days]))
  | "duropf" :: op :: rest => do
    let (l, rest) ← parseOpnd rest
    let (r, _) ← parseOpnd rest
    match l, r with
    | .dur d, r => leftOp op d r
    | .itv n, r => if op == "neg" || op == "abs" then Option.none else leftOp op (asDuration (interval n)) r
    | l, .dur d => rightOp op l d
    | _, _ => Option.none
  | _ => Option.none

end Pendulum.Drv.DurF
