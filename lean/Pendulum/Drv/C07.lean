import Pendulum.Drv.Util
import Pendulum.Model.Iso
/-! request handler for property C07: `parse <rs|py> <iso | pub:<exact 0|1>:<tz seconds|none>> <encoded string>` -/
namespace Pendulum.Drv.C07
open Pendulum Pendulum.Drv Pendulum.Iso

def showOff : Option Int → String
  | none => "none"
  | some o => if -86400 < o ∧ o < 86400 then toString o else "x"

def showR : R → String
  | .ok v =>
    match v.kind with
    | .date => s!"ok date {v.y} {v.m} {v.d}"
    | .time => s!"ok time {v.h} {v.mi} {v.s} {v.us} {showOff v.off}"
    | .datetime => s!"ok datetime {v.y} {v.m} {v.d} {v.h} {v.mi} {v.s} {v.us} {showOff v.off}"
  | .error .parserError => "err ParserError"
  | .error .valueError => "err ValueError"
  | .error (.other n) => "err " ++ n

def backend? : String → Option Backend
  | "rs" => some .rust
  | "py" => some .py
  | _ => none

/-- the `now` date the harness passes to `pendulum.parse(..., now=…)` -/
def nowDate : Int × Int × Int := (2001, 2, 3)

def handle (_zs : Zones) (ws : List String) : Option String :=
  match ws with
  | ["parse", b, opts, s] => do
    let b ← backend? b
    let s ← decStr s
    let cs := s.toList
    match opts.splitOn ":" with
    | ["iso"] => some (showR (parseIso b cs))
    | ["pub", ex, tz] =>
      let tz : Option Int := if tz == "none" then none else tz.toInt?
      some (showR (publicParse b (ex == "1") tz nowDate cs))
    | _ => none
  | ["fmt", b, meth, y, m, d, h, mi, s, us, off] => do
    let b ← backend? b
    let y ← y.toNat?; let m ← m.toNat?; let d ← d.toNat?; let h ← h.toNat?; let mi ← mi.toNat?; let s ← s.toNat?
    let us ← us.toNat?
    let utc := off == "utc"
    let offS : Int ← if utc then some 0 else off.toInt?
    let sep := if meth == "str" then ' ' else 'T'
    let withUs := !(meth == "atom" || meth == "w3c")
    let cs := rIsoformat sep withUs (utc && meth == "iso8601") y m d h mi s us (offS / 60)
    let r := showR (publicParse b false none nowDate cs)
    let e := encStr (String.ofList cs)
    some (if r.startsWith "ok " then "ok " ++ e ++ " " ++ (r.drop 3).toString else r ++ " " ++ e)
  | _ => none

end Pendulum.Drv.C07
