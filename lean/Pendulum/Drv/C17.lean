import Pendulum.Drv.Util
import Pendulum.Model.ParseAll
/-! request handler for property C17:
`ptotal <rs|py> <exact><strict><day_first><year_first>[n]:<tz seconds|c<seconds>|none|naive> <encoded string> <dateutil>`
(`none` = no `tz=` argument, `naive` = `tz=None`, `<seconds>` = a FixedTimezone object, `c<seconds>` = a number of hours or a
`datetime.timezone`, which resolve to the cached per-offset FixedTimezone; the optional fifth flag `n` = the call was made without `now=`: the harness
has replaced today's date in the reply by the fixed `now` of the model, so the flag changes nothing here)
where `<dateutil>` is what `dateutil.parser.parse` answers for that string and those flags (computed by the harness, the
model treats dateutil as a parameter): `-` (not consulted: strict), `ok:y:m:d:h:mi:s:us:<off|none>` or `err:<ExceptionName>`.
Reply: `ok DateTime y m d h mi s us off` | `ok Date y m d` | `ok Time h mi s us` | `ok Duration years months us` |
`ok Interval <8 ints> <8 ints>` | `ok IntervalD y m d y m d` | `ok DateTime now` | `err ParserError|ValueError|Other:<Name>`. -/
namespace Pendulum.Drv.C17
open Pendulum Pendulum.Drv Pendulum.Iso Pendulum.ParseAll

def backend? : String → Option Backend
  | "rs" => some .rust
  | "py" => some .py
  | _ => none

def showOff (o : Option Int) : String :=
  match o with
  | none => "none"
  | some v => toString v

def dtWords (v : Value) : String := s!"{v.y} {v.m} {v.d} {v.h} {v.mi} {v.s} {v.us} {showOff v.off}"

def showOut : Except Kind Out → String
  | .ok (.dateTime v) => "ok DateTime " ++ dtWords v
  | .ok (.date v) => s!"ok Date {v.y} {v.m} {v.d}"
  | .ok (.time v) => s!"ok Time {v.h} {v.mi} {v.s} {v.us}"
  | .ok (.duration d) => s!"ok Duration {d.years} {d.months} {d.us}"
  | .ok (.interval s e) =>
    if s.kind = .date then s!"ok IntervalD {s.y} {s.m} {s.d} {e.y} {e.m} {e.d}"
    else "ok Interval " ++ dtWords s ++ " " ++ dtWords e
  | .ok .now => "ok DateTime now"
  | .error .parserError => "err ParserError"
  | .error .valueError => "err ValueError"
  | .error (.other n) => "err Other:" ++ n

def flag (c : Char) : Bool := c == '1'

def parseOpts (w : String) : Option Options :=
  match w.splitOn ":" with
  | [fl, tz] =>
    let tzv : Option TzOpt :=
      if tz == "none" then some .default else if tz == "naive" then some .naive
      else if tz.startsWith "c" then (tz.drop 1).toInt?.map .shared else tz.toInt?.map .fixed
    let mk (e s d y : Char) : Option Options :=
      tzv.map fun t => { exact := flag e, strict := flag s, dayFirst := flag d, yearFirst := flag y, tz := t, now := (2001, 2, 3) }
    match fl.toList with
    | [e, s, d, y] => mk e s d y
    | [e, s, d, y, 'n'] => mk e s d y
    | _ => none
  | _ => none

def kindOf (n : String) : Kind :=
  if n == "ParserError" then .parserError else if n == "ValueError" then .valueError else .other n

def parseDu (w : String) : Option Dateutil :=
  if w == "-" then some (fun _ _ _ => .error (.other "NotConsulted")) else
  match w.splitOn ":" with
  | ["err", n] => some (fun _ _ _ => .error (kindOf n))
  | ["ok", y, m, d, h, mi, s, us, off] => do
    let xs ← ints [y, m, d, h, mi, s, us]
    let o : Option Int ← if off == "none" then some none else off.toInt?.map some
    match xs with
    | [y, m, d, h, mi, s, us] => some (fun _ _ _ => .ok ⟨.datetime, y, m, d, h, mi, s, us, o⟩)
    | _ => none
  | _ => none

def handle (_zs : Zones) (ws : List String) : Option String :=
  match ws with
  | ["ptotal", b, opts, s, du] => do
    let b ← backend? b
    let o ← parseOpts opts
    let s ← decStr s
    let du ← parseDu du
    some (showOut (parseAll b o du s.toList))
  | _ => none

end Pendulum.Drv.C17
