import Pendulum.Drv.Util
import Pendulum.Model.FmtParse
/-! request handler for property C08
  fmt <locale> <enc format> <offset s> <wall µs> <enc zone name> <enc abbreviation>      → ok <enc string> | err <Kind>
  tostr <method> <offset s> <wall µs> <enc zone name> <enc abbreviation>                  → ok <enc string> | err <Kind>
  fromfmt <locale> <enc format> <enc string> <now y> <now m> <now d>      (Formatter.parse)
                                              → ok <y> <m> <d> <h> <mi> <s> <us> none|off:<s>|name:<enc> | err <Kind>
  rt <locale> <enc format> <offset s> <wall µs> <enc zone name> <enc abbr> <now y> <now m> <now d>
        (from_format(dt.format(fmt), fmt))     → ok <enc string> <y> <m> <d> <h> <mi> <s> <us> <offset s> | err <Kind> -/
namespace Pendulum.Drv.C08
open Pendulum Pendulum.Drv Pendulum.Fmt

def mkVal (off wall : Int) (zname abbr : String) : Val :=
  let dayUs : Int := 86400000000
  let days := wall / dayUs
  let tod := wall % dayUs
  let (y, m, d) := Cal.ord2ymd (Cal.epochOrd + days)
  let secs := tod / 1000000
  { y := y, mo := m, d := d, h := secs / 3600, mi := secs / 60 % 60, s := secs % 60, us := tod % 1000000,
    off := off, zname := zname.toList, abbr := abbr.toList }

def reply (r : Except String Str) : String :=
  match r with
  | .ok s => "ok " ++ encStr (String.ofList s)
  | .error e => "err " ++ e

def tzDesc : Option TzP → String
  | none => "none"
  | some (TzP.fixed o) => "off:" ++ toString o
  | some (TzP.named n) => "name:" ++ encStr (String.ofList n)

def resultInts (r : Result) : String :=
  " ".intercalate ([r.year, r.month, r.day, r.hour, r.minute, r.second, r.microsecond].map toString)

def handle (_zs : Zones) (ws : List String) : Option String :=
  match ws with
  | ["fmt", loc, fmt, off, wall, zn, ab] => do
    let fmt ← decStr fmt; let off ← off.toInt?; let wall ← wall.toInt?
    let zn ← decStr zn; let ab ← decStr ab
    match Gen.FormatLocales.find loc with
    | none => some "err ValueError"
    | some L => some (reply (format L (mkVal off wall zn ab) fmt.toList))
  | ["tostr", method, off, wall, zn, ab] => do
    let off ← off.toInt?; let wall ← wall.toInt?
    let zn ← decStr zn; let ab ← decStr ab
    some (reply (toStringHelper Gen.FormatLocales.find "en" (mkVal off wall zn ab) method))
  | ["fromfmt", loc, fmt, str, ny, nm, nd] => do
    let fmt ← decStr fmt; let str ← decStr str
    let ny ← ny.toInt?; let nm ← nm.toInt?; let nd ← nd.toInt?
    match Gen.FormatLocales.find loc with
    | none => some "err ValueError"
    | some L =>
      match parse L str.toList fmt.toList ⟨ny, nm, nd⟩ with
      | .ok r => some ("ok " ++ resultInts r ++ " " ++ tzDesc r.tz)
      | .error e => some ("err " ++ e)
  | ["rt", loc, fmt, off, wall, zn, ab, ny, nm, nd] => do
    let fmt ← decStr fmt; let off ← off.toInt?; let wall ← wall.toInt?
    let zn ← decStr zn; let ab ← decStr ab
    let ny ← ny.toInt?; let nm ← nm.toInt?; let nd ← nd.toInt?
    match Gen.FormatLocales.find loc with
    | none => some "err ValueError"
    | some L =>
      match format L (mkVal off wall zn ab) fmt.toList with
      | .error e => some ("err " ++ e)
      | .ok s =>
        match parse L s fmt.toList ⟨ny, nm, nd⟩ with
        | .error e => some ("err " ++ e)
        | .ok r =>
          let o : Int := match r.tz with
            | some (TzP.fixed o) => o
            | _ => 0
          some ("ok " ++ encStr (String.ofList s) ++ " " ++ resultInts r ++ " " ++ toString o)
  | _ => none

end Pendulum.Drv.C08
