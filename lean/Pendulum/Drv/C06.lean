import Pendulum.Drv.Util
/-! request handler for property C06 (stub until the property is built) -/
namespace Pendulum.Drv.C06
open Pendulum Pendulum.Drv

def handle (_zs : Zones) (ws : List String) : Option String :=
  match ws with
  | _ => none

end Pendulum.Drv.C06
