import Pendulum.Drv.DTUtil
import Pendulum.Model.PreciseDiff
import Pendulum.Model.IntervalPD
/-! C06 requests:
`c06pd <py|rs> <y m d h mi s us off tag isdt> <y m d h mi s us off tag isdt>` → `ok <8 components>`
`c06iv <py|rs> <zrefA> <wallA> <foldA> <zrefB> <wallB> <foldB> <absolute>` → `ok <10 getters> R <wall> <off> V <10 getters of the reversed interval>` (R = `start + iv`)
zone references as in `DTUtil`, plus `d` for a `Date` pair. -/
namespace Pendulum.Drv.C06
open Pendulum Pendulum.Drv Pendulum.DTOps Pendulum.PreciseDiff Pendulum.IntervalPD

def mkE : List Int → Option E
  | [y, m, d, h, mi, s, us, off, tz, dt] => some ⟨y, m, d, h, mi, s, us, off, tz, dt != 0⟩
  | _ => none

/-- zone tag of a wire zone reference: naive/Date 0, named zone index+1, FixedTimezone (named "+hh:mm") 10^9+offset -/
def tagOf (w : String) : Option Int :=
  if w == "n" || w == "d" then some 0
  else if w.startsWith "f" then (w.drop 1).toString.toInt?.map (fun o => 1000000000000 + o)
  else w.toNat?.map (fun i => (i : Int) + 1)

def parseEP (zs : Zones) (z w f : String) : Option EP := do
  let tag ← tagOf z
  let v ← parseV zs (if z == "d" then "n" else z) w f
  some ⟨v, tag, z != "d"⟩

def handle (zs : Zones) (ws : List String) : Option String :=
  match ws with
  | "c06pd" :: b :: rest => do
    let xs ← ints rest
    let a ← mkE (xs.take 10)
    let c ← mkE (xs.drop 10)
    some (okInts (if b == "rs" then preciseDiffRs a c else preciseDiffPy a c).toList)
  | ["c06iv", b, za, wa, fa, zb, wb, fb, ab] => do
    let a ← parseEP zs za wa fa
    let c ← parseEP zs zb wb fb
    let iv := IntervalPD.mk (b == "rs") a c (ab == "1")
    let r := match iv.rebuild with
      | .ok v => " R " ++ toString v.w ++ " " ++ toString v.offset
      | .error e => " E " ++ e.name
    let rv := IntervalPD.mk (b == "rs") c a (ab == "1")
    some (okInts iv.components ++ r ++ " V" ++ (okInts rv.components).drop 2)
  | _ => none

end Pendulum.Drv.C06
