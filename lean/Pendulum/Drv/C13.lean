import Pendulum.Drv.Util
import Pendulum.Model.IsoDur
import Pendulum.Model.IsoInterval
/-! request handler for property C13: `pdur <rs|py> <string>` and `pint <rs|py> <string>` -/
namespace Pendulum.Drv.C13
open Pendulum Pendulum.Drv Pendulum.IsoDur

def backend (w : String) : Option Backend :=
  if w == "rs" then some .rust else if w == "py" then some .py else none

/-- since the repair of C17/F3 (`parser.py`: an endpoint that is not a representable datetime is a ParserError) every
    rejection reaches the caller as `ParserError` -/
def errLine (_k : Kind) : String := "err ParserError"

def dtInts (t : IsoInterval.DT) : List Int := [t.y, t.m, t.d, t.h, t.mi, t.s, t.us, t.off]

def handle (_zs : Zones) (ws : List String) : Option String :=
  match ws with
  | ["pdur", b, s] => do
    let b ← backend b
    let s ← decStr s
    match parse b s.toList with
    | .ok d => some (okInts [d.years, d.months, d.us])
    | .error k => some (errLine k)
  | ["pint", b, s] => do
    let b ← backend b
    let s ← decStr s
    match IsoInterval.parseInterval b s.toList with
    | .ok (s, e) => some (okInts (dtInts s ++ dtInts e))
    | .error k => some (errLine k)
  | _ => none

end Pendulum.Drv.C13
