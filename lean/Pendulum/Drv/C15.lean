import Pendulum.Drv.Util
import Pendulum.Model.Cal
import Pendulum.Gen.RsHelpers
import Pendulum.Model.LocalTime
import Pendulum.Gen.LocalTime
import Pendulum.Gen.Helpers
import Pendulum.Model.Getters
namespace Pendulum.Drv.C15
open Pendulum Pendulum.Drv

/-- model of the `Date` getters (date.py:51-85,146-158) on top of the generated closed form and the
    standard library's calendar (which the getters call directly) -/
def getters (y m d : Int) : List Int :=
  let wd := Cal.isoweekday y m d
  let leap := Cal.isLeap y
  let (_, wk, _) := Cal.isoCalendar y m d
  let (_, wk28, _) := Cal.isoCalendar y 12 28
  [ wd - 1,                                   -- day_of_week = weekday()
    Gen.date_day_of_year leap m d,            -- day_of_year (closed form in date.py)
    wk,                                       -- week_of_year = isocalendar()[1]
    (d + Cal.isoweekday y m 1 - 1 + 6) / 7,   -- week_of_month = ceil((day + first.isoweekday() - 1)/7)
    Cal.daysInMonth y m,                      -- days_in_month = calendar.monthrange
    (m + 2) / 3,                              -- quarter = ceil(month/3)
    b2i leap,                                 -- is_leap_year = calendar.isleap
    b2i (wk28 == 53) ]                        -- is_long_year = Date(y,12,28).isocalendar()[1] == 53

def handle (_zs : Zones) (ws : List String) : Option String :=
  match ws with
  | ["isleap", b, y] => do
    let y ← y.toInt?
    some (okInts [b2i (if b == "rs" then Rs.is_leap y else Gen.is_leap y)])
  | ["islong", b, y] => do
    let y ← y.toInt?
    some (okInts [b2i (if b == "rs" then Rs.is_long_year y else Gen.is_long_year y)])
  | ["diy", b, y] => do
    let y ← y.toInt?
    some (okInts [if b == "rs" then Rs.days_in_year y else Gen.days_in_year y])
  | ["weekday", b, y, m, d] => do
    let y ← y.toInt?; let m ← m.toInt?; let d ← d.toInt?
    some (okInts [if b == "rs" then Rs.week_day y m d else Gen.week_day y m d])
  | ["localtime", b, t, off] => do
    let t ← t.toInt?; let off ← off.toInt?
    let (y, mo, d, h, mi, s) :=
      -- answered by the definitions REGENERATED from the two sources (tools/gen_localtime.py), so that the
      -- correspondence run also exercises the translator; Props.C15.local_time_source_eq_model ties them to the
      -- hand model LocalTime.localTime for all inputs
      if b == "rs" then Gen.rs_local_time t off
      else Gen.py_local_time t off
    some (okInts [y, mo, d, h, mi, s])
  | ["getters", y, m, d] => do
    let y ← y.toInt?; let m ← m.toInt?; let d ← d.toInt?
    some (okInts (getters y m d))
  -- the small derived methods next to the getters (hand model Model/Getters.lean; Gen/Getters.lean is tied to it in Props/C15)
  | ["gdcl", o, o1, o2] => do
    let o ← o.toInt?; let o1 ← o1.toInt?; let o2 ← o2.toInt?
    some (okInts [Getters.closestDate o o1 o2, Getters.farthestDate o o1 o2])
  | ["gdavg", o, o1] => do
    let o ← o.toInt?; let o1 ← o1.toInt?
    some (okInts [Getters.averageDate o o1])
  | "gxcl" :: far :: t :: cs => do
    let t ← t.toInt?
    let cs ← cs.mapM (·.toInt?)
    match Getters.pickBy (fun c => Getters.absI (t - c)) (far == "1") cs with
    | none => some "err ValueError"
    | some r => some (okInts [r])
  | ["gxavg", t, t2] => do
    let t ← t.toInt?; let t2 ← t2.toInt?
    some (okInts [Getters.averageInstant t t2])
  | ["gwsa", _, v] => do
    let v ← v.toInt?
    match Getters.setWeekDay v with
    | none => some "err ValueError"
    | some w => some (okInts [w])
  | ["ord2ymd", n] => do
    let n ← n.toInt?
    let (y, m, d) := Cal.ord2ymd n
    some (okInts [y, m, d, Cal.ymd2ord y m d])
  | _ => none

end Pendulum.Drv.C15
