import Pendulum.Drv.Util
import Pendulum.Drv.C09
import Pendulum.Model.Dur
import Pendulum.Drv.DurF
/-! request handler for property C10: `durop <op> <L> <R>`, `durcmp <L> <R>` (Duration arithmetic) -/
namespace Pendulum.Drv.C10
open Pendulum Pendulum.Drv Pendulum.Dur

/-- an operand on the wire -/
inductive Opnd where
  | dur (d : D)          -- `D y mo w d h mi s ms us`
  | itv (n : Int)        -- `V us`  : an Interval of that length (delegates to `as_duration()`)
  | td (n : Int)         -- `T us`  : a plain timedelta
  | int (k : Int)        -- `I k`
  | flt (p q : Int)      -- `F p q` : a float given by `as_integer_ratio()`
  | none                 -- `N`

def parseOpnd : List String → Option (Opnd × List String)
  | "D" :: rest => do
    let a ← C09.argsOf (← ints (rest.take 9))
    some (.dur (mk a), rest.drop 9)
  | "V" :: n :: rest => do some (.itv (← n.toInt?), rest)
  | "T" :: n :: rest => do some (.td (← n.toInt?), rest)
  | "I" :: n :: rest => do some (.int (← n.toInt?), rest)
  | "F" :: p :: q :: rest => do some (.flt (← p.toInt?) (← q.toInt?), rest)
  | "N" :: rest => some (.none, rest)
  | _ => Option.none

def okD (d : D) : String := okInts (1 :: C09.fieldsD d)
def okTd (n : Int) : String := okInts [0, Td.days n, Td.seconds n, Td.micros n]
def okInt (n : Int) : String := okInts [2, n]
def okFloat (r : Int × Int) : String := okInts [3, r.1, r.2]
def okQD (q : Int) (d : D) : String := okInts (4 :: q :: C09.fieldsD d)
def okQTd (q n : Int) : String := okInts [5, q, Td.days n, Td.seconds n, Td.micros n]

def zdiv : String := "err ZeroDivisionError"

/-- `Interval.as_duration()` = `Duration(seconds=self.total_seconds())` -/
def asDuration (n : Int) : D := ofUs n

def other? : Opnd → Option Other
  | .dur d => some (.dur d)
  | .itv n => some (.dur (asDuration n))    -- an Interval is a Duration: `_to_microseconds` exists (shadow slots)
  | .td n => some (.td n)
  | _ => Option.none

/-- operator with a Duration on the left -/
def leftOp (op : String) (d : D) (r : Opnd) : Option String :=
  match op, r with
  | "neg", .none => some (okD (neg d))
  | "abs", .none => some (okTd (absNative d))
  | "mul", .int k => some (okD (mulInt d k))
  | "mul", .flt p q => some (okD (mulFloat d p q))
  | "truediv", .int k => some (if k == 0 then zdiv else okD (truedivInt d k))
  | "truediv", .flt p q => some (if p == 0 then zdiv else okD (truedivFloat d p q))
  | "floordiv", .int k => some (if k == 0 then zdiv else okD (floordivInt d k))
  | _, _ =>
    match other? r with
    | Option.none => Option.none
    | some o =>
      match op with
      | "add" => some (okD (add d o.native))
      | "sub" => some (okD (sub d o.native))
      | "floordiv" => some (if o.us == 0 then zdiv else okInt (floordivDur d o))
      | "truediv" => some (if o.us == 0 then zdiv else okFloat (truedivDur d o))
      | "mod" => some (if o.us == 0 then zdiv else okD (modDur d o))
      | "divmod" => some (if o.us == 0 then zdiv else let (q, m) := divmodDur d o; okQD q m)
      | _ => Option.none

/-- operator with a plain timedelta / number on the left and a Duration on the right (reflected or base-class) -/
def rightOp (op : String) (l : Opnd) (d : D) : Option String :=
  match op, l with
  | "add", .td n => some (okD (add d n))
  | "mul", .int k => some (okD (mulInt d k))
  | "mul", .flt p q => some (okD (mulFloat d p q))
  | "sub", .td n => some (okTd (Td.sub n d.native))
  | "floordiv", .td n => some (if d.native == 0 then zdiv else okInt (Td.floordivTd n d.native))
  | "truediv", .td n => some (if d.native == 0 then zdiv else okFloat (trueDiv n d.native))
  | "mod", .td n => some (if d.native == 0 then zdiv else okTd (Td.modTd n d.native))
  | "divmod", .td n => some (if d.native == 0 then zdiv else okQTd (Td.floordivTd n d.native) (Td.modTd n d.native))
  | _, _ => Option.none

def handle (_zs : Zones) (ws : List String) : Option String :=
  match ws with
  | "durop" :: op :: rest => do
    let (l, rest) ← parseOpnd rest
    let (r, _) ← parseOpnd rest
    match l, r with
    | .dur d, r => leftOp op d r
    | .itv n, r =>
      -- Interval.__neg__/__abs__ build Intervals; only the delegating operators are modelled
      if op == "neg" || op == "abs" then Option.none else leftOp op (asDuration n) r
    | l, .dur d => rightOp op l d
    | l, .itv n => rightOp op l (asDuration n)   -- Interval.__radd__/__rmul__ delegate through `as_duration()` too
    | _, _ => Option.none
  | "durcmp" :: rest => do
    let (l, rest) ← parseOpnd rest
    let (r, _) ← parseOpnd rest
    let a ← (other? l).map Other.native
    let b ← (other? r).map Other.native
    some (okInts [b2i (a == b), b2i (a != b), b2i (decide (a < b)), b2i (decide (a ≤ b)), b2i (decide (a > b)),
      b2i (decide (a ≥ b))])
  | "duropf" :: _ => DurF.handle ws     -- float-faithful model, outside the float-exact range
  | _ => Option.none

end Pendulum.Drv.C10
