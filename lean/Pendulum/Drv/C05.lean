import Pendulum.Drv.DTUtil
import Pendulum.Model.Interval
/-! C05 requests:
* `c05iv <new|sub|abs|neg|subn|rsubn> <zrefX> <wallX> <foldX> <zrefY> <wallY> <foldY> <same> <absolute>`
  (`new`: `Interval(x, y, absolute)` = `pendulum.interval` = `x.diff(y, absolute)`; `sub`: `x - y`; `abs`: `abs(x - y)`;
  `neg`: `-(x - y)`; `subn`: `x - native(y)`; `rsubn`: `native(y) - x`)
  → `ok <length µs> <in_seconds> <in_minutes> <in_hours>` / `err OverflowError`
* `c05date <start day> <end day> <absolute>` → same reply
* `c05days <zrefX> <wallX> <foldX> <zrefY> <wallY> <foldY> <absolute>` (`Interval(x, y, absolute)`, x and y naive or on ONE
  tzinfo object) → `ok <in_days> <in_weeks>` / `err OverflowError` (raised by `Interval.__new__` before `__init__`)
* `c05ddays <start day> <end day> <absolute>` (Date pair) → `ok <in_days> <in_weeks> <length µs>` -/
namespace Pendulum.Drv.C05
open Pendulum Pendulum.Drv Pendulum.DTOps Pendulum.Interval

def replyLen : Except DTOps.Err Int → String
  | .ok l => okInts [l, inSeconds l, inMinutes l, inHours l]
  | .error e => "err " ++ e.name

def handle (zs : Zones) (ws : List String) : Option String :=
  match ws with
  | ["c05iv", path, zx, wx, fx, zy, wy, fy, same, ab] => do
    let x ← parseV zs zx wx fx
    let y ← parseV zs zy wy fy
    let s := same == "1"
    let a := ab == "1"
    match path with
    | "new" => some (replyLen (new x y s a))
    | "sub" => some (replyLen (sub x y s))
    | "abs" => some (replyLen (absSub x y s))
    | "neg" => some (replyLen (negSub x y s))
    | "subn" => some (replyLen (subNative x y s))
    | "rsubn" => some (replyLen (rsubNative x y s))
    | _ => none
  | ["c05date", a, b, ab] => do
    let a ← a.toInt?
    let b ← b.toInt?
    some (replyLen (.ok (dateNew a b (ab == "1"))))
  | ["c05days", zx, wx, fx, zy, wy, fy, ab] => do
    let x ← parseV zs zx wx fx
    let y ← parseV zs zy wy fy
    let a := ab == "1"
    match new x y true a with
    | .error e => some ("err " ++ e.name)
    | .ok _ =>
      let d := inDays x y a
      some (okInts [d, inWeeks d])
  | ["c05ddays", a, b, ab] => do
    let a ← a.toInt?
    let b ← b.toInt?
    let d := dateInDays a b (ab == "1")
    some (okInts [d, inWeeks d, dateNew a b (ab == "1")])
  | _ => none

end Pendulum.Drv.C05
