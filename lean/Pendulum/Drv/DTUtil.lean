import Pendulum.Drv.Util
import Pendulum.Model.DTOps
/-! wire format of DateTime values: zone reference = `<index>` (named zone from the preamble),
`f<offset µs>` (FixedTimezone), `n` (naive); a value is `<zref> <wall µs> <fold>`;
replies `ok <wall> <offset> <fold>` / `err <ExceptionName>` -/
namespace Pendulum.Drv
open Pendulum.DTOps Pendulum.Zone

def parseZRef (zs : Zones) (w : String) : Option ZRef :=
  if w == "n" then some .naive
  else if w.startsWith "f" then (w.drop 1).toString.toInt?.map ZRef.fixed
  else (getZone zs w).map ZRef.named

def parseV (zs : Zones) (z w f : String) : Option V := do
  let z ← parseZRef zs z
  let w ← w.toInt?
  some ⟨z, w, f == "1"⟩

def okV (v : V) : String := okInts [v.w, v.offset, b2i v.fold]

def replyV : Except Err V → String
  | .ok v => okV v
  | .error e => "err " ++ e.name

end Pendulum.Drv
