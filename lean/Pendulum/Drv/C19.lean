import Pendulum.Drv.C06
import Pendulum.Model.Range
/-! C19 requests:
`c19range <unit 0..7> <amount> <zrefA> <wallA> <foldA> <zrefB> <wallB> <foldB> <absolute> <limit>`
  → `ok <n> <hash> <w0> <o0> <w1> <o1> <wlast> <olast>` (hash over all (wall, offset) pairs) | `err <Name>` when the
  iteration ends with an exception | `err TooMany` when more than `limit` values are produced
`c19in <zrefA> <wallA> <foldA> <zrefB> <wallB> <foldB> <absolute> <zrefX> <wallX> <foldX>` → `ok 0|1` -/
namespace Pendulum.Drv.C19
open Pendulum Pendulum.Drv Pendulum.DTOps Pendulum.IntervalPD Pendulum.Range

def M : Int := 2305843009213693951

def hashStep (h x : Int) : Int := (h * 1000003 + x % M) % M

def hashVs (vs : List V) : Int := vs.foldl (fun h v => hashStep (hashStep h v.w) v.offset) 7

def oks : List (Except Err V) → List V
  | .ok v :: rest => v :: oks rest
  | _ => []

def handle (zs : Zones) (ws : List String) : Option String :=
  match ws with
  | ["c19range", u, am, za, wa, fa, zb, wb, fb, ab, lim] => do
    let unit ← u.toNat?
    let amount ← am.toInt?
    let limit ← lim.toNat?
    let a ← C06.parseEP zs za wa fa
    let c ← C06.parseEP zs zb wb fb
    let iv := IntervalPD.mk false a c (ab == "1")
    let rs := rangeIv iv unit amount (limit + 1)
    let vs := oks rs
    let n := vs.length
    if n > limit then some "err TooMany" else
    -- the loop ended: either the next candidate is beyond the end, or computing it raised
    -- the loop ended: the next candidate is beyond the end, or it is not representable (ValueError/OverflowError
    -- from `add`), which since the range() fix also ends the iteration normally
    match (Except.ok iv.start.v : Except Err V) with
    | .error e => some ("err " ++ e.name)
    | .ok _ =>
      let pick := fun (i : Nat) => match vs[i]? with
        | some v => [v.w, v.offset]
        | none => [0, 0]
      some (okInts ([(n : Int), hashVs vs] ++ pick 0 ++ pick 1 ++ pick (n - 1)))
  | ["c19in", za, wa, fa, zb, wb, fb, ab, zx, wx, fx] => do
    let a ← C06.parseEP zs za wa fa
    let c ← C06.parseEP zs zb wb fb
    let x ← C06.parseEP zs zx wx fx
    let iv := IntervalPD.mk false a c (ab == "1")
    some (okInts [b2i (containsIv iv x.tag x.v)])
  | _ => none

end Pendulum.Drv.C19
