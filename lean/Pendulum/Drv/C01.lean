import Pendulum.Drv.DTUtil
/-! C01 requests: `intz <zref> <wall> <fold> <zref'> <same>`, `intts <zref> <wall> <fold>` -/
namespace Pendulum.Drv.C01
open Pendulum Pendulum.Drv Pendulum.DTOps

def handle (zs : Zones) (ws : List String) : Option String :=
  match ws with
  | ["intz", z, w, f, z', same] => do
    let v ← parseV zs z w f
    let t ← parseZRef zs z'
    some (replyV (inTz v t (same == "1")))
  | ["intz2", z, w, f, z', z''] => do   -- A→B→C
    let v ← parseV zs z w f
    let t ← parseZRef zs z'
    let t' ← parseZRef zs z''
    match inTz v t false with
    | .ok r => some (replyV (inTz r t' false))
    | .error e => some ("err " ++ e.name)
  | ["instance", z, w, f, so] => do
    let z ← parseZRef zs z
    let w ← w.toInt?
    let so ← so.toInt?
    some (replyV (instanceAware z w (f == "1") so))
  | ["intts", z, w, f] => do
    let v ← parseV zs z w f
    some (okInts [v.instant / AddDur.US])
  | _ => none

end Pendulum.Drv.C01
