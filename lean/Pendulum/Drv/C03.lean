import Pendulum.Drv.DTUtil
/-! C03/C04 request: `add <zref> <wall> <fold> <years> <months> <weeks> <days> <hours> <minutes> <seconds> <micros>` -/
namespace Pendulum.Drv.C03
open Pendulum Pendulum.Drv Pendulum.DTOps

def handle (zs : Zones) (ws : List String) : Option String :=
  match ws with
  | ["add", z, w, f, a, b, c, d, e, g, h, i] => do
    let v ← parseV zs z w f
    match ints [a, b, c, d, e, g, h, i] with
    | some [y, mo, wk, dd, hh, mi, s, us] => some (replyV (addChecked v y mo wk dd hh mi s us))
    | _ => none
  | ["addsub", z, w, f, e, g, h, i] => do   -- x.add(...).subtract(...) with the same arguments
    let v ← parseV zs z w f
    match ints [e, g, h, i] with
    | some [hh, mi, s, us] =>
      match addChecked v 0 0 0 0 hh mi s us with
      | .ok r => some (replyV (addChecked r 0 0 0 0 (-hh) (-mi) (-s) (-us)))
      | .error e => some ("err " ++ e.name)
    | _ => none
  | _ => none

end Pendulum.Drv.C03
