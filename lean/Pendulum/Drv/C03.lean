import Pendulum.Drv.DTUtil
/-! C03/C04 request: `add <zref> <wall> <fold> <years> <months> <weeks> <days> <hours> <minutes> <seconds> <micros>` -/
namespace Pendulum.Drv.C03
open Pendulum Pendulum.Drv Pendulum.DTOps

def handle (zs : Zones) (ws : List String) : Option String :=
  match ws with
  | ["add", z, w, f, a, b, c, d, e, g, h, i] => do
    let v ← parseV zs z w f
    match ints [a, b, c, d, e, g, h, i] with
    | some [y, mo, wk, dd, hh, mi, s, us] => some (replyV (add v y mo wk dd hh mi s us))
    | _ => none
  | _ => none

end Pendulum.Drv.C03
