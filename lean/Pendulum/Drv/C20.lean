import Pendulum.Drv.Util
import Pendulum.Model.TimeOfDay
/-! request handler for property C20 (time-of-day arithmetic). Times are microseconds since 00:00.
  `tadd|tsub <t> <h> <mi> <s> <us>`            → `ok <t'>` / `err OverflowError`
  `tinv <t> <h> <mi> <s> <us>`                 → `ok <add> <subtract of that>`
  `taddtd|tsubtd <t> <days> <seconds> <micros>` → `ok <t'>` / `err TypeError`
  `tdiff <a> <b> <abs>`                        → `ok <µs>`        (a.diff(b, abs))
  `tminus <a> <b>` / `trminus <a> <b>`         → `ok <µs>`        (a - b through __sub__ / __rsub__)
  `tclosest|tfarthest <t> <a> <b>`             → `ok <chosen>` -/
namespace Pendulum.Drv.C20
open Pendulum Pendulum.Drv Pendulum.TimeOfDay

def reply : Except Kind Int → String
  | .ok r => okInts [r]
  | .error k => "err " ++ k.name

def handle (_zs : Zones) (ws : List String) : Option String :=
  match ws with
  | ["tadd", t, h, mi, s, us] => do
    let t ← t.toInt?; let h ← h.toInt?; let mi ← mi.toInt?; let s ← s.toInt?; let us ← us.toInt?
    some (reply (add t h mi s us))
  | ["tsub", t, h, mi, s, us] => do
    let t ← t.toInt?; let h ← h.toInt?; let mi ← mi.toInt?; let s ← s.toInt?; let us ← us.toInt?
    some (reply (subtract t h mi s us))
  | ["tinv", t, h, mi, s, us] => do
    let t ← t.toInt?; let h ← h.toInt?; let mi ← mi.toInt?; let s ← s.toInt?; let us ← us.toInt?
    match add t h mi s us with
    | .error k => some ("err " ++ k.name)
    | .ok r =>
      match subtract r h mi s us with
      | .error k => some ("err " ++ k.name)
      | .ok r' => some (okInts [r, r'])
  | ["taddtd", t, d, s, us] => do
    let t ← t.toInt?; let d ← d.toInt?; let s ← s.toInt?; let us ← us.toInt?
    some (reply (addTd t ⟨d, s, us⟩))
  | ["tsubtd", t, d, s, us] => do
    let t ← t.toInt?; let d ← d.toInt?; let s ← s.toInt?; let us ← us.toInt?
    some (reply (subTd t ⟨d, s, us⟩))
  | ["tdiff", a, b, ab] => do
    let a ← a.toInt?; let b ← b.toInt?
    some (okInts [diff a b (ab == "1")])
  | ["tminus", a, b] => do
    let a ← a.toInt?; let b ← b.toInt?
    some (okInts [sub a b])
  | ["trminus", a, b] => do
    let a ← a.toInt?; let b ← b.toInt?
    some (okInts [rsub b a])
  | ["tclosest", t, a, b] => do
    let t ← t.toInt?; let a ← a.toInt?; let b ← b.toInt?
    some (okInts [closest t a b])
  | ["tfarthest", t, a, b] => do
    let t ← t.toInt?; let a ← a.toInt?; let b ← b.toInt?
    some (okInts [farthest t a b])
  | _ => none

end Pendulum.Drv.C20
