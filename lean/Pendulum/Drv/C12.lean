import Pendulum.Drv.DTUtil
import Pendulum.Model.StartOf
/-! C12 requests: `startof|endof <unit> <wks> <wke> <zref|d> <wall> <fold>` →
`ok <wall> <offset> <fold> <wall2> <offset2> <fold2>` (the result and the result of applying the same
operation to it once more) / `err <ExceptionName>`; zref `d` = a `Date` (wall = its midnight). -/
namespace Pendulum.Drv.C12
open Pendulum Pendulum.Drv Pendulum.DTOps Pendulum.StartOf

def twice (f : V → Except DTOps.Err V) (x : V) : String :=
  match f x with
  | .error e => "err " ++ e.name
  | .ok r =>
    match f r with
    | .error e => "err " ++ e.name
    | .ok r2 => okInts [r.w, r.offset, b2i r.fold, r2.w, r2.offset, b2i r2.fold]

def handle (zs : Zones) (ws : List String) : Option String :=
  match ws with
  | [k, u, wks, wke, z, w, f] =>
    if k != "startof" && k != "endof" then none else do
    let last := k == "endof"
    let u ← U.ofString? u
    let wks ← wks.toInt?
    let wke ← wke.toInt?
    let w ← w.toInt?
    if z == "d" then
      match boundDate u wks wke last w with
      | .error e => some ("err " ++ e.name)
      | .ok r =>
        match boundDate u wks wke last r with
        | .error e => some ("err " ++ e.name)
        | .ok r2 => some (okInts [r, 0, 0, r2, 0, 0])
    else
      let z ← parseZRef zs z
      some (twice (bound u wks wke last) ⟨z, w, f == "1"⟩)
  | _ => none

end Pendulum.Drv.C12
