import Pendulum.Drv.Util
import Pendulum.Model.Dur
import Pendulum.Drv.DurF
/-! request handler for property C09: `dur …`, `absdur …` (Duration / AbsoluteDuration construction) -/
namespace Pendulum.Drv.C09
open Pendulum Pendulum.Drv Pendulum.Dur

def argsOf : List Int → Option Args
  | [y, mo, w, d, h, mi, s, ms, us] => some { y, mo, w, d, h, mi, s, ms, us }
  | _ => none

/-- native triple followed by the public components -/
def fieldsD (d : D) : List Int :=
  [Td.days d.native, Td.seconds d.native, Td.micros d.native, d.years, d.months, d.weeks, d.rdays,
   hours d, minutes d, remainingSeconds d, d.micros]

def totalsD (d : D) : List Int :=
  [b2i (invert d), inWeeks d, inDays d, inHours d, inMinutes d, inSeconds d]

def handle (_zs : Zones) (ws : List String) : Option String :=
  match ws with
  | "dur" :: rest => do
    let a ← argsOf (← ints rest)
    let d := mk a
    let r := mk (comps d)
    -- trailing `1 1`: the two harness-side consistency flags (==/hash/total_seconds vs native slots; total_*() vs total_seconds())
    some (okInts (fieldsD d ++ totalsD d ++ [b2i (decide (r = d)), 1, 1]))
  | "absdur" :: rest => do
    let a ← argsOf (← ints rest)
    let x := mkAbs a
    let d := x.asD
    some (okInts ([Td.days x.native, Td.seconds x.native, Td.micros x.native, d.years, d.months, d.weeks, d.rdays,
      hours d, minutes d, remainingSeconds d, d.micros, b2i x.invert,
      inWeeks d, inDays d, inHours d, inMinutes d, inSeconds d, x.days]))
  | "durf" :: _ => DurF.handle ws        -- float-faithful model, outside the float-exact range
  | "absdurf" :: _ => DurF.handle ws
  | _ => none

end Pendulum.Drv.C09
