import Pendulum.Props.C15
import Pendulum.Proofs.Zone4
