import Pendulum.Props.C15
