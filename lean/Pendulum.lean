import Pendulum.Props.C01
import Pendulum.Props.C02
import Pendulum.Props.C03
import Pendulum.Props.C09
import Pendulum.Props.C10
import Pendulum.Props.C13
import Pendulum.Props.C15
import Pendulum.Props.C18
