import Pendulum.Drv.C15
/-! stdin line protocol → model → stdout (DESIGN.md Appendix C). One reply per request line. -/
open Pendulum Pendulum.Drv Pendulum.Zone

def handlers : List (Zones → List String → Option String) :=
  [C15.handle]

def dispatch (zs : Zones) (ws : List String) : String :=
  match handlers.findSome? (fun h => h zs ws) with
  | some r => r
  | none => "bad-op"

partial def loop (h : IO.FS.Stream) (out : IO.FS.Stream) (zs : Zones) : IO Unit := do
  let line ← h.getLine
  if line.isEmpty then return ()
  let ws := (line.trimAscii.toString.splitOn " ").filter (· ≠ "")
  match ws with
  | "zone" :: rest =>
    match ints rest with
    | some (_id :: init :: tl) =>
      let trs := mkTrs tl
      out.putStrLn (if wfB init trs then "ok" else "notwf")
      loop h out (zs.push ⟨init, trs⟩)
    | _ => out.putStrLn "bad-op"; loop h out zs
  | _ =>
    out.putStrLn (dispatch zs ws)
    loop h out zs

def main : IO Unit := do
  let out ← IO.getStdout
  loop (← IO.getStdin) out #[]
