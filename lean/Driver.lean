import Pendulum.Drv.C01
import Pendulum.Drv.C02
import Pendulum.Drv.C03
import Pendulum.Drv.C04
import Pendulum.Drv.C05
import Pendulum.Drv.C06
import Pendulum.Drv.C07
import Pendulum.Drv.C08
import Pendulum.Drv.C09
import Pendulum.Drv.C10
import Pendulum.Drv.C11
import Pendulum.Drv.C12
import Pendulum.Drv.C13
import Pendulum.Drv.C14
import Pendulum.Drv.C15
import Pendulum.Drv.C16
import Pendulum.Drv.C17
import Pendulum.Drv.C18
import Pendulum.Drv.C19
import Pendulum.Drv.C20
/-! stdin line protocol → model → stdout (DESIGN.md Appendix C). One reply per request line. -/
open Pendulum Pendulum.Drv Pendulum.Zone

def handlers : List (Zones → List String → Option String) :=
  [C01.handle, C02.handle, C03.handle, C04.handle, C05.handle, C06.handle, C07.handle, C08.handle, C09.handle, C10.handle, C11.handle, C12.handle, C13.handle, C14.handle, C15.handle, C16.handle, C17.handle, C18.handle, C19.handle, C20.handle]

def dispatch (zs : Zones) (ws : List String) : String :=
  match handlers.findSome? (fun h => h zs ws) with
  | some r => r
  | none => "bad-op"

partial def loop (h : IO.FS.Stream) (out : IO.FS.Stream) (zs : Zones) : IO Unit := do
  let line ← h.getLine
  if line.isEmpty then return ()
  let ws := (line.trimAscii.toString.splitOn " ").filter (· ≠ "")
  match ws with
  | "zone" :: rest =>
    match ints rest with
    | some (_id :: init :: tl) =>
      let trs := mkTrs tl
      out.putStrLn (if wfB init trs then "ok" else "notwf")
      loop h out (zs.push ⟨init, trs⟩)
    | _ => out.putStrLn "bad-op"; loop h out zs
  | _ =>
    out.putStrLn (dispatch zs ws)
    loop h out zs

def main : IO Unit := do
  let out ← IO.getStdout
  loop (← IO.getStdin) out #[]
