#!/bin/sh
# MANIFEST.setup_cmd: build everything from files on disk, offline.
set -e
cd "$(dirname "$0")"
export CARGO_NET_OFFLINE=true
/venv/bin/python tools/gen_lean.py >/dev/null
(cd lean && lake build Pendulum driver)
mkdir -p .cache
PYO3_PYTHON=/venv/bin/python CARGO_TARGET_DIR="$PWD/.cache/rust" cargo build --release --offline --manifest-path /repo/rust/Cargo.toml
echo setup-ok
