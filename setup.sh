#!/bin/sh
# MANIFEST.setup_cmd: build everything from files on disk, offline.
set -e
cd "$(dirname "$0")"
export CARGO_NET_OFFLINE=true
/venv/bin/python tools/gen_lean.py >/dev/null
(cd lean && lake build Pendulum driver)
/venv/bin/python -c "from harness import common; print('extension:', common.build_rust())"
echo setup-ok
