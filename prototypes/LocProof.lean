import Lt.LocGen
namespace Loc

theorem plural_ru_range (n : Int) : plural_ru n ∈ ["one", "few", "many", "other"] := by
  unfold plural_ru
  repeat' split
  all_goals simp

theorem plural_he_range (n : Int) : plural_he n ∈ ["one", "two", "many", "other"] := by
  unfold plural_he
  repeat' split
  all_goals simp

-- a table lookup fact by kernel evaluation
def tbl : List (String × String) :=
  [("units.year.one", "{0} год"), ("units.year.few", "{0} года"), ("units.year.many", "{0} лет"), ("units.year.other", "{0} года")]

def lookup (k : String) : Option String := (tbl.find? (·.1 == k)).map (·.2)

theorem year_keys_total : ∀ c ∈ ["one", "few", "many", "other"], (lookup ("units.year." ++ c)).isSome = true := by
  decide +kernel

theorem year_total (n : Int) : (lookup ("units.year." ++ plural_ru n)).isSome = true :=
  year_keys_total _ (plural_ru_range n)

end Loc
