import warnings; warnings.filterwarnings("ignore")
import sys, random, datetime as dt, subprocess
sys.path.insert(0,'/var/tmp/px')
import pendulum
from pendulum.tz.exceptions import NonExistingTime, AmbiguousTime
from zone_extract import table
E = dt.datetime(1970,1,1)
def sec(d): 
    x = d.replace(tzinfo=None) - E
    return x.days*86400 + x.seconds
rnd = random.Random(3)
names = sorted(pendulum.timezones())
ops=[]; exp=[]
tabs={}
for zi,name in enumerate(names):
    init, tu, offs = table(name, 2100); tabs[zi]=(init,tu,offs)
    ops.append("zone %d %d %s" % (zi, init, " ".join("%d %d" % p for p in zip(tu,offs)))); exp.append("ok")
n=0
for zi,name in enumerate(names):
    init, tu, offs = tabs[zi]; prev=[init]+offs
    tz = pendulum.timezone(name)
    idxs = range(len(tu)) if len(tu)<=60 else sorted(rnd.sample(range(len(tu)),60))
    for i in idxs:
        t=tu[i]; a,b=prev[i],offs[i]
        if a==b: continue
        lo,hi = t+min(a,b), t+max(a,b)
        for w in (lo-1, lo, (lo+hi)//2, hi-1, hi):
            try: wd = E + dt.timedelta(seconds=w)
            except OverflowError: continue
            if not (2<=wd.year<=9998): continue
            for f in (0,1):
                for r in (0,1):
                    ops.append("create %d %d %d %d" % (zi,w,f,r))
                    try:
                        d = pendulum.datetime(wd.year,wd.month,wd.day,wd.hour,wd.minute,wd.second,tz=tz,fold=f,raise_on_unknown_times=bool(r))
                        exp.append("ok %d %d %d" % (sec(d), int(d.utcoffset().total_seconds()), d.fold))
                    except NonExistingTime: exp.append("err NonExistingTime")
                    except AmbiguousTime: exp.append("err AmbiguousTime")
                    n+=1
                # in_tz to a random other zone
                zj = rnd.randrange(len(names))
                src = pendulum.datetime(wd.year,wd.month,wd.day,wd.hour,wd.minute,wd.second,tz=tz,fold=f)
                ops.append("intz %d %d %d %d" % (zi, sec(src), src.fold, zj))
                d = src.in_tz(names[zj])
                exp.append("ok %d %d %d" % (sec(d), int(d.utcoffset().total_seconds()), d.fold)); n+=1
open("/var/tmp/px/c_ops.txt","w").write("\n".join(ops)+"\n")
got = subprocess.run(["/var/tmp/px/lt/.lake/build/bin/zdriver"], input="\n".join(ops)+"\n", capture_output=True, text=True).stdout.split("\n")
bad=[(ops[i],got[i],exp[i]) for i in range(len(exp)) if got[i]!=exp[i]]
print("ops", n, "mismatches", len(bad))
for b in bad[:20]: print(b)
