namespace Loc
def plural_cs (n : Int) : String := (if (((n = n) ∧ ((n ≥ (2 : Int)) ∧ (n ≤ (4 : Int)))) ∧ (((0 : Int) = (0 : Int)) ∧ ((0 : Int) = (0 : Int)))) then "few" else (if (¬ (((0 : Int) = (0 : Int)) ∧ ((0 : Int) = (0 : Int)))) then "many" else (if (((n = n) ∧ (n = (1 : Int))) ∧ (((0 : Int) = (0 : Int)) ∧ ((0 : Int) = (0 : Int)))) then "one" else "other")))
def ordinal_cs (n : Int) : String := "other"
def plural_da (n : Int) : String := (if (((n = n) ∧ (n = (1 : Int))) ∨ ((¬ (((0 : Int) = (0 : Int)) ∧ ((0 : Int) = (0 : Int)))) ∧ ((n = n) ∧ ((n = (0 : Int)) ∨ (n = (1 : Int)))))) then "one" else "other")
def ordinal_da (n : Int) : String := "other"
def plural_de (n : Int) : String := (if (((n = n) ∧ (n = (1 : Int))) ∧ (((0 : Int) = (0 : Int)) ∧ ((0 : Int) = (0 : Int)))) then "one" else "other")
def ordinal_de (n : Int) : String := "other"
def plural_en (n : Int) : String := (if (((n = n) ∧ (n = (1 : Int))) ∧ (((0 : Int) = (0 : Int)) ∧ ((0 : Int) = (0 : Int)))) then "one" else "other")
def ordinal_en (n : Int) : String := (if ((((n % (10 : Int)) = (n % (10 : Int))) ∧ ((n % (10 : Int)) = (3 : Int))) ∧ (¬ (((n % (100 : Int)) = (n % (100 : Int))) ∧ ((n % (100 : Int)) = (13 : Int))))) then "few" else (if ((((n % (10 : Int)) = (n % (10 : Int))) ∧ ((n % (10 : Int)) = (1 : Int))) ∧ (¬ (((n % (100 : Int)) = (n % (100 : Int))) ∧ ((n % (100 : Int)) = (11 : Int))))) then "one" else (if ((((n % (10 : Int)) = (n % (10 : Int)))