import zoneinfo
from zoneinfo import _zoneinfo as pz
import pendulum
names = sorted(pendulum.timezones())
bad=[]; tot=0; maxn=0; rules=0; nonmono=[]; tti_before_diff=[]
mingap=None
for n in names:
    z = pz.ZoneInfo.no_cache(n)
    tu = z._trans_utc; tl = z._trans_local; tt = z._ttinfos
    tot += len(tu); maxn=max(maxn,len(tu))
    if not isinstance(z._tz_after, pz._ttinfo): rules+=1
    for f in (0,1):
        l = tl[f]
        for i in range(1,len(l)):
            if l[i] < l[i-1]:
                nonmono.append((n,f,i,l[i-1],l[i]))
    # spacing vs jump
    offs=[z._tti_before.utcoff.total_seconds()]+[t.utcoff.total_seconds() for t in tt]
    for i in range(len(tu)):
        if i+1<len(tu):
            gap = tu[i+1]-tu[i]
            j1 = abs(offs[i+1]-offs[i]); j2=abs(offs[i+2]-offs[i+1])
            if gap < j1 + j2:
                bad.append((n,i,tu[i],gap,j1,j2))
print(len(names), "zones; transitions", tot, "max", maxn, "with rules", rules)
print("nonmono", len(nonmono), nonmono[:10])
print("close", len(bad)); 
for b in bad[:40]: print(b)
