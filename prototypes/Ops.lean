import Lt.Zone3
namespace Zone

structure Z where
  init : Int
  trs : List Tr

def Z.WF (z : Z) : Prop := Zone.WF z.init z.trs
def Z.off (z : Z) (u : Int) : Int := offAt z.init z.trs u
def Z.woff (z : Z) (f : Bool) (w : Int) : Int := wallOff f z.init z.trs w
def Z.foldOf (z : Z) (u : Int) : Bool := foldAt z.init z.trs u
def Z.skipped (z : Z) (w : Int) : Bool := inGap z.init z.trs w

/-- naive wall value + fold, as carried by datetime -/
structure Local where
  w : Int
  fold : Bool
deriving DecidableEq, Repr

def toUtc (z : Z) (l : Local) : Int := l.w - z.woff l.fold l.w
def fromUtc (z : Z) (u : Int) : Local := ⟨u + z.off u, z.foldOf u⟩

inductive ConvErr | nonExisting | ambiguous
deriving DecidableEq, Repr

/-- `Timezone.convert` on a naive value (then `DateTime.create` copies the fields) -/
def convertNaive (z : Z) (l : Local) (raise : Bool) : Except ConvErr Local :=
  let ob := z.woff false l.w
  let oa := z.woff true l.w
  if oa > ob then
    if raise then .error .nonExisting
    else .ok ⟨l.w + (if l.fold then oa - ob else ob - oa), false⟩
  else if ob > oa ∧ raise = true then .error .ambiguous
  else .ok l

/-- `in_timezone` / `astimezone` / `Timezone.convert` on an aware value -/
def inTz (z z' : Z) (l : Local) : Local := fromUtc z' (toUtc z l)

/-! ### C01 -/

theorem toUtc_fromUtc (z : Z) (h : z.WF) (u : Int) : toUtc z (fromUtc z u) = u := by
  unfold toUtc fromUtc Z.woff Z.foldOf Z.off
  simp only []
  rw [roundtrip z.trs z.init u h]; omega

theorem inTz_instant (z z' : Z) (h' : z'.WF) (l : Local) : toUtc z' (inTz z z' l) = toUtc z l :=
  toUtc_fromUtc z' h' _

theorem inTz_fields (z z' : Z) (l : Local) :
    (inTz z z' l).w = toUtc z l + z'.off (toUtc z l) ∧ (inTz z z' l).fold = z'.foldOf (toUtc z l) := ⟨rfl, rfl⟩

theorem inTz_compose (z z' z'' : Z) (h' : z'.WF) (l : Local) :
    inTz z' z'' (inTz z z' l) = inTz z z'' l := by
  unfold inTz; rw [toUtc_fromUtc z' h']

/-! ### C02 -/

theorem not_skipped_of_le (z : Z) (h : z.WF) (w : Int) (hle : ¬ z.woff true w > z.woff false w) :
    z.skipped w = false := by
  cases hc : z.skipped w with
  | false => rfl
  | true => exact absurd ((gap_iff z.trs z.init w h).mp hc) hle

/-- unique wall time: returned unchanged, and it denotes the only instant rendering as w -/
theorem create_unique (z : Z) (h : z.WF) (l : Local) (r : Bool)
    (heq : z.woff true l.w = z.woff false l.w) :
    convertNaive z l r = .ok l ∧ ∀ u, (u + z.off u = l.w ↔ u = toUtc z l) := by
  constructor
  · unfold convertNaive; simp only [heq]; simp
  · intro u
    have hs := not_skipped_of_le z h l.w (by omega)
    have := preimage_char z.trs z.init l.w u h
    unfold Z.off toUtc Z.woff at *
    unfold Z.skipped at hs
    rw [this]
    cases hf : l.fold <;> simp [hs] <;> omega

/-- repeated wall time: fold=0 is the earlier, fold=1 the later of exactly two instants -/
theorem create_repeated (z : Z) (h : z.WF) (l : Local)
    (hlt : z.woff false l.w > z.woff true l.w) :
    convertNaive z l false = .ok l ∧
    convertNaive z l true = .error .ambiguous ∧
    (∀ u, (u + z.off u = l.w ↔ (u = l.w - z.woff false l.w ∨ u = l.w - z.woff true l.w))) ∧
    l.w - z.woff false l.w < l.w - z.woff true l.w ∧
    toUtc z l = (if l.fold then l.w - z.woff true l.w else l.w - z.woff false l.w) := by
  have hs := not_skipped_of_le z h l.w (by omega)
  refine ⟨?_, ?_, ?_, by omega, ?_⟩
  · unfold convertNaive
    have : ¬ (z.woff true l.w > z.woff false l.w) := by omega
    simp [this]
  · unfold convertNaive
    have : ¬ (z.woff true l.w > z.woff false l.w) := by omega
    simp [this, hlt]
  · intro u
    have := preimage_char z.trs z.init l.w u h
    unfold Z.off Z.woff at *
    unfold Z.skipped at hs
    rw [this]; simp [hs]
  · unfold toUtc; cases l.fold <;> simp

/-- skipped wall time: no instant renders as w; raising mode reports it -/
theorem create_skipped_none (z : Z) (h : z.WF) (l : Local)
    (hgt : z.woff true l.w > z.woff false l.w) :
    (∀ u, u + z.off u ≠ l.w) ∧ convertNaive z l true = .error .nonExisting := by
  constructor
  · intro u hu
    have hg := (gap_iff z.trs z.init l.w h).mpr hgt
    exact noPre z.trs z.init l.w u h hg hu
  · unfold convertNaive; simp [hgt]

/-- exceptions are raised exactly for non-unique wall times, and of the right kind -/
theorem raise_iff (z : Z) (l : Local) :
    (convertNaive z l true = .error .nonExisting ↔ z.woff true l.w > z.woff false l.w) ∧
    (convertNaive z l true = .error .ambiguous ↔ z.woff false l.w > z.woff true l.w) ∧
    (∀ e, convertNaive z l false ≠ .error e) := by
  unfold convertNaive
  refine ⟨?_, ?_, ?_⟩
  · by_cases c : z.woff true l.w > z.woff false l.w <;> simp [c]
    by_cases c2 : z.woff false l.w > z.woff true l.w <;> simp [c2]
  · by_cases c : z.woff true l.w > z.woff false l.w <;> simp [c]
    · omega
  · intro e
    by_cases c : z.woff true l.w > z.woff false l.w <;> simp [c]

/-- skipped wall time, non-raising mode: default (fold=1) moves forward by the gap and denotes the instant
    obtained with the pre-gap offset; fold=0 moves backward by the gap and denotes the instant obtained with
    the post-gap offset. Both results are genuine local times (`fromUtc` of that instant). -/
theorem create_skipped (z : Z) (h : z.WF) (w : Int)
    (hgt : z.woff true w > z.woff false w) :
    convertNaive z ⟨w, true⟩ false = .ok (fromUtc z (w - z.woff false w)) ∧
    convertNaive z ⟨w, false⟩ false = .ok (fromUtc z (w - z.woff true w)) ∧
    (fromUtc z (w - z.woff false w)).w = w + (z.woff true w - z.woff false w) ∧
    (fromUtc z (w - z.woff true w)).w = w - (z.woff true w - z.woff false w) := by
  have hg := (gap_iff z.trs z.init w h).mpr hgt
  obtain ⟨s1, s2, s3, s4, _, _⟩ := gap_shift z.trs z.init w h hg
  unfold Z.woff at hgt
  unfold convertNaive fromUtc Z.off Z.foldOf Z.woff
  simp only [hgt, if_true, Bool.false_eq_true, if_false]
  rw [s1, s2, s3, s4]
  refine ⟨?_, ?_, by omega, by omega⟩
  · congr 2; omega
  · congr 2; omega

/-! ### C03 : fixed-length units move the instant exactly -/

/-- `DateTime.add` with only h/m/s/µs on an aware value: subtract the offset, add on the UTC clock, convert back -/
def addFixed (z : Z) (l : Local) (delta : Int) : Local := fromUtc z (toUtc z l + delta)

theorem addFixed_instant (z : Z) (h : z.WF) (l : Local) (d : Int) :
    toUtc z (addFixed z l d) = toUtc z l + d := toUtc_fromUtc z h _

theorem addFixed_fields (z : Z) (l : Local) (d : Int) :
    (addFixed z l d).w = (toUtc z l + d) + z.off (toUtc z l + d) := rfl

/-- subtract undoes add: same instant, hence same rendering, offset and fold -/
theorem subtract_inverse (z : Z) (h : z.WF) (l : Local) (d : Int) :
    addFixed z (addFixed z l d) (-d) = fromUtc z (toUtc z l) := by
  unfold addFixed; rw [toUtc_fromUtc z h]; congr 1; omega

/-- and for a value that is itself a rendering of an instant (every value pendulum produces), it is the value -/
theorem subtract_inverse' (z : Z) (h : z.WF) (u d : Int) :
    addFixed z (addFixed z (fromUtc z u) d) (-d) = fromUtc z u := by
  rw [subtract_inverse z h, toUtc_fromUtc z h]

#print axioms inTz_compose
#print axioms create_unique
#print axioms create_repeated
#print axioms create_skipped_none
#print axioms create_skipped
#print axioms raise_iff
#print axioms subtract_inverse'
end Zone
