namespace C16

/-- Monday = 0 … Sunday = 6, of a proleptic ordinal (ordinal 1 is a Monday) -/
def dow (ord : Int) : Int := (ord + 6) % 7

/-- `Date.next(wd)`: add one day, then keep adding days until the weekday matches -/
def nextLoop : Nat → Int → Int → Int
  | 0, o, _ => o
  | f+1, o, wd => if dow o = wd then o else nextLoop f (o + 1) wd

def next (o wd : Int) : Int := nextLoop 7 (o + 1) wd

theorem next_spec (o wd : Int) (hwd : 0 ≤ wd ∧ wd ≤ 6) :
    dow (next o wd) = wd ∧ o < next o wd ∧ next o wd ≤ o + 7 ∧
    (∀ k, o < k → k < next o wd → dow k ≠ wd) := by
  unfold next
  simp only [nextLoop, dow]
  repeat' split
  all_goals (refine ⟨by omega, by omega, by omega, ?_⟩; intro k h1 h2; omega)

/-- `Date.previous(wd)` -/
def prevLoop : Nat → Int → Int → Int
  | 0, o, _ => o
  | f+1, o, wd => if dow o = wd then o else prevLoop f (o - 1) wd
def previous (o wd : Int) : Int := prevLoop 7 (o - 1) wd

theorem previous_spec (o wd : Int) (hwd : 0 ≤ wd ∧ wd ≤ 6) :
    dow (previous o wd) = wd ∧ previous o wd < o ∧ o - 7 ≤ previous o wd ∧
    (∀ k, previous o wd < k → k < o → dow k ≠ wd) := by
  unfold previous
  simp only [prevLoop, dow]
  repeat' split
  all_goals (refine ⟨by omega, by omega, by omega, ?_⟩; intro k h1 h2; omega)

/-- `calendar.monthcalendar(y, m)[0][wd]` / `[1][wd]` lookup of `_first_of_month`, with `o1` the ordinal of day 1 -/
def firstOfMonth (o1 wd : Int) : Int :=
  let f := dow o1
  let row0 := if wd ≥ f then wd - f + 1 else 0
  if row0 > 0 then row0 else wd - f + 8

theorem firstOfMonth_spec (o1 wd : Int) (hwd : 0 ≤ wd ∧ wd ≤ 6) :
    let d := firstOfMonth o1 wd
    1 ≤ d ∧ d ≤ 7 ∧ dow (o1 + d - 1) = wd := by
  unfold firstOfMonth dow; simp only []
  repeat' split
  all_goals omega

/-- `_nth_of_month` for nth ≥ 2: start on day 1, apply `next` nth (or nth-1) times, keep it if still in the month -/
def iterNext : Nat → Int → Int → Int
  | 0, o, _ => o
  | n+1, o, wd => iterNext n (next o wd) wd

def nthOfMonth (o1 dim : Int) (nth : Nat) (wd : Int) : Option Int :=
  if nth = 1 then some (firstOfMonth o1 wd) else
  let cnt := nth - (if dow o1 = wd then 1 else 0)
  let o := iterNext cnt o1 wd
  if o ≤ o1 + dim - 1 then some (o - o1 + 1) else none

theorem next_closed (o wd : Int) (hwd : 0 ≤ wd ∧ wd ≤ 6) : next o wd = o + ((wd - dow o - 1) % 7 + 1) := by
  have := next_spec o wd hwd
  obtain ⟨h1, h2, h3, _⟩ := this
  unfold dow at *; omega

theorem iterNext_on (n : Nat) : ∀ (o wd : Int), 0 ≤ wd ∧ wd ≤ 6 → dow o = wd → iterNext n o wd = o + 7 * n := by
  induction n with
  | zero => intro o wd _ _; simp [iterNext]
  | succ n ih =>
    intro o wd hwd ho
    have hn := next_closed o wd hwd
    have : next o wd = o + 7 := by rw [hn]; unfold dow at *; omega
    simp only [iterNext]
    rw [this, ih (o + 7) wd hwd (by unfold dow at *; omega)]
    omega

theorem next_first (o1 wd : Int) (hwd : 0 ≤ wd ∧ wd ≤ 6) (hne : dow o1 ≠ wd) :
    next o1 wd = o1 + firstOfMonth o1 wd - 1 := by
  rw [next_closed o1 wd hwd]
  unfold firstOfMonth dow at *; simp only []
  repeat' split
  all_goals omega

theorem first_one (o1 wd : Int) (hd : dow o1 = wd) : firstOfMonth o1 wd = 1 := by
  unfold firstOfMonth dow at *; simp only []
  repeat' split
  all_goals omega

/-- the n-th `wd` of the month is day `first + 7(n-1)` when that is still inside the month, otherwise there is none -/
theorem nthOfMonth_spec (o1 dim : Int) (nth : Nat) (wd : Int) (hn : 1 ≤ nth) (hwd : 0 ≤ wd ∧ wd ≤ 6)
    (hdim : 28 ≤ dim) :
    nthOfMonth o1 dim nth wd =
      (if firstOfMonth o1 wd + 7 * ((nth : Int) - 1) ≤ dim then some (firstOfMonth o1 wd + 7 * ((nth : Int) - 1)) else none) := by
  unfold nthOfMonth
  have hfs := firstOfMonth_spec o1 wd hwd
  simp only [] at hfs
  by_cases h1 : nth = 1
  · subst h1
    have : firstOfMonth o1 wd + 7 * (((1 : Nat) : Int) - 1) ≤ dim := by omega
    simp only [if_true, this]
    congr 1; omega
  · simp only [h1, if_false]
    by_cases hd : dow o1 = wd
    · simp only [hd, if_true]
      rw [iterNext_on (nth - 1) o1 wd hwd hd, first_one o1 wd hd]
      have : ((nth - 1 : Nat) : Int) = (nth : Int) - 1 := by omega
      rw [this]
      by_cases hle : 1 + 7 * ((nth : Int) - 1) ≤ dim
      · have : o1 + 7 * ((nth : Int) - 1) ≤ o1 + dim - 1 := by omega
        simp [hle, this]; omega
      · have : ¬ (o1 + 7 * ((nth : Int) - 1) ≤ o1 + dim - 1) := by omega
        simp [hle, this]
    · simp only [hd, if_false, Nat.sub_zero]
      obtain ⟨k, hk⟩ : ∃ k, nth = k + 1 := ⟨nth - 1, by omega⟩
      subst hk
      have hnx := next_first o1 wd hwd hd
      have hdw : dow (next o1 wd) = wd := (next_spec o1 wd hwd).1
      have hit : iterNext (k + 1) o1 wd = o1 + firstOfMonth o1 wd - 1 + 7 * (k : Int) := by
        simp only [iterNext]
        rw [iterNext_on k (next o1 wd) wd hwd hdw, hnx]
      simp only [hit]
      have : (((k + 1 : Nat)) : Int) - 1 = (k : Int) := by omega
      rw [this]
      by_cases hle : firstOfMonth o1 wd + 7 * (k : Int) ≤ dim
      · have : o1 + firstOfMonth o1 wd - 1 + 7 * (k : Int) ≤ o1 + dim - 1 := by omega
        simp [hle, this]; omega
      · have : ¬ (o1 + firstOfMonth o1 wd - 1 + 7 * (k : Int) ≤ o1 + dim - 1) := by omega
        simp [hle, this]

#print axioms nthOfMonth_spec
end C16
