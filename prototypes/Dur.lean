namespace Dur

/-- exact-µs model of Duration.__new__'s "intuitive normalisation" (T = length without years/months, in µs) -/
structure Comp where
  weeks : Int
  rdays : Int
  hours : Int
  minutes : Int
  rsecs : Int
  micros : Int
deriving Repr, DecidableEq

def sgn (x : Int) : Int := if x < 0 then -1 else 1
def abs' (x : Int) : Int := if x < 0 then -x else x

def norm (T : Int) : Comp :=
  let m := sgn T
  let A := abs' T
  let us := (A % 1000000) * m
  let S := A / 1000000
  let secs := (S % 86400) * m          -- _seconds
  let days := (S / 86400) * m          -- _days
  let rd := (abs' days % 7) * m
  let wk := (abs' days / 7) * m
  let h := if abs' secs ≥ 3600 then (abs' secs / 3600 % 24) * sgn secs else 0
  let mi := if abs' secs ≥ 60 then (abs' secs / 60 % 60) * sgn secs else 0
  let rs := (abs' secs % 60) * sgn secs
  ⟨wk, rd, h, mi, rs, us⟩

def total (c : Comp) : Int :=
  ((((c.weeks * 7 + c.rdays) * 24 + c.hours) * 60 + c.minutes) * 60 + c.rsecs) * 1000000 + c.micros

/-- components sum exactly to the length -/
theorem norm_sum (T : Int) : total (norm T) = T := by
  unfold total norm sgn abs'
  simp only []
  by_cases h : T < 0
  · simp only [h, if_true]
    repeat' split
    all_goals omega
  · simp only [h, if_false]
    repeat' split
    all_goals omega

/-- canonical ranges and common sign -/
theorem norm_ranges (T : Int) :
    let c := norm T
    let s := sgn T
    0 ≤ c.rdays * s ∧ c.rdays * s < 7 ∧ 0 ≤ c.hours * s ∧ c.hours * s < 24 ∧
    0 ≤ c.minutes * s ∧ c.minutes * s < 60 ∧ 0 ≤ c.rsecs * s ∧ c.rsecs * s < 60 ∧
    0 ≤ c.micros * s ∧ c.micros * s < 1000000 ∧ 0 ≤ c.weeks * s := by
  unfold norm sgn abs'
  simp only []
  by_cases h : T < 0
  · simp only [h, if_true]
    repeat' split
    all_goals omega
  · simp only [h, if_false]
    repeat' split
    all_goals omega

/-- rebuilding from own components reproduces the value -/
theorem norm_rebuild (T : Int) : norm (total (norm T)) = norm T := by rw [norm_sum]

/-- Python's divmod-based round-half-even helper (b > 0 branch and b < 0 branch) -/
def divRound (a b : Int) : Int :=
  let q := Int.fdiv a b
  let r := Int.fmod a b
  let r2 := 2 * r
  let gt := if b > 0 then decide (r2 > b) else decide (r2 < b)
  if gt || (r2 == b && q % 2 == 1) then q + 1 else q

theorem fmod_neg_bounds (a : Int) {b : Int} (hb : b < 0) : b < Int.fmod a b ∧ Int.fmod a b ≤ 0 := by
  rw [Int.fmod_eq_emod]
  have h0 : 0 ≤ a % b := Int.emod_nonneg a (by omega)
  have h1 : a % b < -b := by
    have := Int.emod_lt a (b := b) (by omega)
    omega
  by_cases hd : b ∣ a
  · have : a % b = 0 := Int.emod_eq_zero_of_dvd hd
    simp [hd, this]; omega
  · have hne : a % b ≠ 0 := fun h => hd (Int.dvd_of_emod_eq_zero h)
    have : ¬ (0 ≤ b ∨ b ∣ a) := by intro h; rcases h with h | h; omega; exact hd h
    simp only [this, if_false]; omega

theorem divRound_nearest (a b : Int) (hb : b ≠ 0) :
    let q := divRound a b
    2 * abs' (q * b - a) ≤ abs' b ∧ (2 * abs' (q * b - a) = abs' b → q % 2 = 0) := by
  have hdm : b * Int.fdiv a b + Int.fmod a b = a := Int.mul_fdiv_add_fmod a b
  unfold divRound abs'
  simp only []
  generalize Int.fdiv a b = q at *
  by_cases hpos : b > 0
  · have h1 := Int.fmod_nonneg_of_pos a hpos
    have h2 := Int.fmod_lt_of_pos a hpos
    generalize Int.fmod a b = r at *
    have e : q * b = b * q := Int.mul_comm q b
    have e' : (q + 1) * b = b * q + b := by rw [Int.add_mul, Int.mul_comm q b, Int.one_mul]
    simp only [hpos, if_true]
    repeat' split
    all_goals (simp_all <;> omega)
  · have hneg : b < 0 := by omega
    have h1 : Int.fmod a b ≤ 0 := (fmod_neg_bounds a hneg).2
    have h2 : b < Int.fmod a b := (fmod_neg_bounds a hneg).1
    generalize Int.fmod a b = r at *
    have e : q * b = b * q := Int.mul_comm q b
    have e' : (q + 1) * b = b * q + b := by rw [Int.add_mul, Int.mul_comm q b, Int.one_mul]
    simp only [hpos, if_false]
    repeat' split
    all_goals (simp_all <;> omega)

#print axioms norm_sum
#print axioms divRound_nearest
end Dur
