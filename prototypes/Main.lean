import Lt.Zone
open Zone

def parseInts (s : String) : List Int :=
  (s.splitOn " ").filterMap String.toInt?

partial def loop (h : IO.FS.Stream) (acc : Nat) : IO Unit := do
  let line ← h.getLine
  if line.isEmpty then return ()
  let xs := parseInts line.trimAscii.toString
  match xs with
  | [u] =>
    let l : List Tr := [⟨100, 3600⟩, ⟨20000, 7200⟩, ⟨40000, 3600⟩]
    IO.println s!"{offAt 0 l u} {foldAt 0 l u} {wallOff (foldAt 0 l u) 0 l (u + offAt 0 l u)}"
  | _ => IO.println "bad-op"
  loop h (acc+1)

def main : IO Unit := do loop (← IO.getStdin) 0
