import ast, sys
SRC = "/repo/src/pendulum/_helpers.py"
CONST = "/repo/src/pendulum/constants.py"
tree = ast.parse(open(SRC).read())
ctree = ast.parse(open(CONST).read())
consts = {}
for n in ctree.body:
    if isinstance(n, ast.Assign) and isinstance(n.targets[0], ast.Name):
        try:
            consts[n.targets[0].id] = eval(compile(ast.Expression(n.value), "c", "eval"), dict(consts))
        except Exception as e:
            pass
WANT = ["is_leap", "is_long_year", "week_day", "days_in_year", "_day_number"]
BOOLF = {"is_leap", "is_long_year"}
def lname(n): return n.lstrip("_")
class T:
    def __init__(self): self.out=[]
    def e(self, x):
        if isinstance(x, ast.Name):
            if x.id in consts and isinstance(consts[x.id], int): return f"({consts[x.id]} : Int)"
            return x.id
        if isinstance(x, ast.Constant) and isinstance(x.value, int) and not isinstance(x.value, bool): return f"({x.value} : Int)"
        if isinstance(x, ast.BinOp):
            op = {ast.Add:"+", ast.Sub:"-", ast.Mult:"*", ast.FloorDiv:"/", ast.Mod:"%"}[type(x.op)]
            if isinstance(x.op,(ast.FloorDiv, ast.Mod)):
                assert isinstance(x.right, ast.Constant) and x.right.value > 0, "only positive literal divisors"
            return f"({self.e(x.left)} {op} {self.e(x.right)})"
        if isinstance(x, ast.Subscript) and isinstance(x.value, ast.Name) and x.value.id in consts:
            return f"(tbl_{x.value.id} ({self.e(x.slice)}))"
        if isinstance(x, ast.Call) and isinstance(x.func, ast.Name):
            args = " ".join(self.e(a) for a in x.args)
            if x.func.id == "int": return f"(if {self.b(x.args[0])} then (1:Int) else 0)"
            return f"({lname(x.func.id)} {args})"
        raise NotImplementedError(ast.dump(x))
    def b(self, x):
        if isinstance(x, ast.BoolOp):
            op = " && " if isinstance(x.op, ast.And) else " || "
            return "(" + op.join(self.b(v) for v in x.values) + ")"
        if isinstance(x, ast.UnaryOp) and isinstance(x.op, ast.Not):
            if isinstance(x.operand, ast.Name): return f"({x.operand.id} == 0)"
            return f"(!{self.b(x.operand)})"
        if isinstance(x, ast.Compare) and len(x.ops)==1:
            o = {ast.Eq:"==", ast.NotEq:"!=", ast.Lt:"<", ast.LtE:"≤", ast.Gt:">", ast.GtE:"≥"}[type(x.ops[0])]
            l, r = self.e(x.left), self.e(x.comparators[0])
            if o in ("==","!="): return f"({l} {o} {r})"
            return f"(decide ({l} {o} {r}))"
        if isinstance(x, ast.Call) and isinstance(x.func, ast.Name) and x.func.id in BOOLF:
            return self.e(x)
        raise NotImplementedError(ast.dump(x))
    def body(self, stmts, isbool):
        if not stmts: raise NotImplementedError("fell off")
        s, rest = stmts[0], stmts[1:]
        if isinstance(s, ast.Expr) and isinstance(s.value, ast.Constant): return self.body(rest, isbool)
        if isinstance(s, ast.FunctionDef):
            inner = T(); args = " ".join(f"({a.arg} : Int)" for a in s.args.args)
            return f"let {s.name} := fun {args} => {inner.body(s.body, False)}\n  {self.body(rest, isbool)}"
        if isinstance(s, ast.Return):
            return self.b(s.value) if isbool else self.e(s.value)
        if isinstance(s, ast.Assign):
            return f"let {s.targets[0].id} := {self.e(s.value)}\n  {self.body(rest, isbool)}"
        if isinstance(s, ast.If) and not s.orelse and len(s.body)==1:
            c = self.b(s.test) if not isinstance(s.test, ast.Call) or s.test.func.id not in BOOLF else self.e(s.test)
            t = s.body[0]
            if isinstance(t, ast.Return):
                v = self.b(t.value) if isbool else self.e(t.value)
                return f"if {c} then {v} else\n  {self.body(rest, isbool)}"
            if isinstance(t, ast.AugAssign):
                op = {ast.Add:"+", ast.Sub:"-"}[type(t.op)]
                return f"let {t.target.id} := if {c} then {t.target.id} {op} {self.e(t.value)} else {t.target.id}\n  {self.body(rest, isbool)}"
            if isinstance(t, ast.Assign):
                v = t.targets[0].id
                return f"let {v} := if {c} then {self.e(t.value)} else {v}\n  {self.body(rest, isbool)}"
        raise NotImplementedError(ast.dump(s))
out = ["/-! GENERATED from /repo/src/pendulum/_helpers.py and constants.py — do not edit -/", "namespace Gen"]
for name in ("DAY_OF_WEEK_TABLE",):
    v = consts[name]
    arms = " ".join(f"| {i} => {x}" for i,x in enumerate(v))
    out.append(f"def tbl_{name} (i : Int) : Int := match i with {arms} | _ => 0")
for name in ("DAYS_PER_MONTHS","MONTHS_OFFSETS"):
    v = consts[name]
    for k,row in enumerate(v):
        arms = " ".join(f"| {i} => {x}" for i,x in enumerate(row))
        out.append(f"def tbl_{name}_{k} (i : Int) : Int := match i with {arms} | _ => 0")
fns = {n.name:n for n in tree.body if isinstance(n, ast.FunctionDef)}
for name in WANT:
    f = fns[name]; t = T()
    args = " ".join(f"({a.arg} : Int)" for a in f.args.args)
    rt = "Bool" if name in BOOLF else "Int"
    out.append(f"def {lname(name)} {args} : {rt} :=\n  {t.body(f.body, name in BOOLF)}")
out.append("end Gen")
open("/var/tmp/px/lt/Lt/GenHelpers.lean","w").write("\n".join(out)+"\n")
print("\n".join(out))
