import warnings; warnings.filterwarnings("ignore")
import sys; sys.path.insert(0,'/var/tmp/px')
import datetime as dt
import pendulum
from zone_extract import table
strad=[]; atmid=[]; ovmid=[]; ovstrad=[]; endmid=[]
for name in sorted(pendulum.timezones()):
    init, tu, offs = table(name, 2100)
    prev=[init]+offs
    for i,t in enumerate(tu):
        a, b = prev[i], offs[i]
        if b > a:
            lo, hi = t + a, t + b   # skipped local [lo, hi)
            m = -(-lo // 86400) * 86400  # first midnight >= lo
            if m == lo: atmid.append((name,t,b-a))
            elif m < hi: strad.append((name, t, lo % 86400, b-a))
            if hi % 86400 == 0 and m != lo: endmid.append((name,t,b-a))
        elif b < a:
            lo, hi = t + b, t + a   # repeated local [lo, hi)
            m = -(-lo // 86400) * 86400
            if m == lo: ovmid.append((name,t,a-b))
            elif m < hi: ovstrad.append((name,t,lo%86400,a-b))
            
print("gap starting at midnight", len(atmid), len({x[0] for x in atmid}))
print("gap straddling midnight", len(strad), sorted({(x[0]) for x in strad})[:40])
print(strad[:10])
print("gap ending at midnight (23:xx skipped)", len(endmid), len({x[0] for x in endmid}))
print("overlap starting at midnight", len(ovmid), len({x[0] for x in ovmid}))
print("overlap straddling midnight", len(ovstrad), sorted({x[0] for x in ovstrad})[:40]); print(ovstrad[:10])
