import ast, sys, importlib, inspect, pathlib
def tr(e):
    if isinstance(e, ast.IfExp):
        return f"(if {trb(e.test)} then {tr(e.body)} else {tr(e.orelse)})"
    if isinstance(e, ast.Constant) and isinstance(e.value, str):
        return '"' + e.value + '"'
    raise NotImplementedError(ast.dump(e))
def tri(e):
    if isinstance(e, ast.Name): return e.id
    if isinstance(e, ast.Constant) and isinstance(e.value, int): return f"({e.value} : Int)"
    if isinstance(e, ast.BinOp) and isinstance(e.op, ast.Mod): return f"({tri(e.left)} % {tri(e.right)})"
    raise NotImplementedError(ast.dump(e))
def trb(e):
    if isinstance(e, ast.BoolOp):
        op = " ∧ " if isinstance(e.op, ast.And) else " ∨ "
        return "(" + op.join(trb(v) for v in e.values) + ")"
    if isinstance(e, ast.UnaryOp) and isinstance(e.op, ast.Not): return f"(¬ {trb(e.operand)})"
    if isinstance(e, ast.Compare) and len(e.ops)==1:
        o = {ast.Eq:"=", ast.NotEq:"≠", ast.Lt:"<", ast.LtE:"≤", ast.Gt:">", ast.GtE:"≥"}[type(e.ops[0])]
        return f"({tri(e.left)} {o} {tri(e.comparators[0])})"
    raise NotImplementedError(ast.dump(e))
out = ["namespace Loc"]
names=[]
for p in sorted(pathlib.Path("/repo/src/pendulum/locales").glob("*/locale.py")):
    loc = p.parent.name
    tree = ast.parse(p.read_text())
    for node in ast.walk(tree):
        if isinstance(node, ast.Dict):
            for k,v in zip(node.keys, node.values):
                if isinstance(k, ast.Constant) and k.value in ("plural","ordinal") and isinstance(v, ast.Lambda):
                    out.append(f"def {k.value}_{loc} (n : Int) : String := {tr(v.body)}")
                    names.append((k.value, loc))
out.append("end Loc")
open("/var/tmp/px/lt/Lt/LocGen.lean","w").write("\n".join(out)+"\n")
print(len(names), names[:6])
