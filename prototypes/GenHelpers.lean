/-! GENERATED from /repo/src/pendulum/_helpers.py and constants.py — do not edit -/
namespace Gen
def tbl_DAY_OF_WEEK_TABLE (i : Int) : Int := match i with | 0 => 0 | 1 => 3 | 2 => 2 | 3 => 5 | 4 => 0 | 5 => 3 | 6 => 5 | 7 => 1 | 8 => 4 | 9 => 6 | 10 => 2 | 11 => 4 | _ => 0
def tbl_DAYS_PER_MONTHS_0 (i : Int) : Int := match i with | 0 => -1 | 1 => 31 | 2 => 28 | 3 => 31 | 4 => 30 | 5 => 31 | 6 => 30 | 7 => 31 | 8 => 31 | 9 => 30 | 10 => 31 | 11 => 30 | 12 => 31 | _ => 0
def tbl_DAYS_PER_MONTHS_1 (i : Int) : Int := match i with | 0 => -1 | 1 => 31 | 2 => 29 | 3 => 31 | 4 => 30 | 5 => 31 | 6 => 30 | 7 => 31 | 8 => 31 | 9 => 30 | 10 => 31 | 11 => 30 | 12 => 31 | _ => 0
def tbl_MONTHS_OFFSETS_0 (i : Int) : Int := match i with | 0 => -1 | 1 => 0 | 2 => 31 | 3 => 59 | 4 => 90 | 5 => 120 | 6 => 151 | 7 => 181 | 8 => 212 | 9 => 243 | 10 => 273 | 11 => 304 | 12 => 334 | 13 => 365 | _ => 0
def tbl_MONTHS_OFFSETS_1 (i : Int) : Int := match i with | 0 => -1 | 1 => 0 | 2 => 31 | 3 => 60 | 4 => 91 | 5 => 121 | 6 => 152 | 7 => 182 | 8 => 213 | 9 => 244 | 10 => 274 | 11 => 305 | 12 => 335 | 13 => 366 | _ => 0
def is_leap (year : Int) : Bool :=
  (((year % (4 : Int)) == (0 : Int)) && (((year % (100 : Int)) != (0 : Int)) || ((year % (400 : Int)) == (0 : Int))))
def is_long_year (year : Int) : Bool :=
  let p := fun (y : Int) => (((y + (y / (4 : Int))) - (y / (100 : Int))) + (y / (400 : Int)))
  ((((p year) % (7 : Int)) == (4 : Int)) || (((p (year - (1 : Int))) % (7 : Int)) == (3 : Int)))
def week_day (year : Int) (month : Int) (day : Int) : Int :=
  let year := if (decide (month < (3 : Int))) then year - (1 : Int) else year
  let w := ((((((year + (year / (4 : Int))) - (year / (100 : Int))) + (year / (400 : Int))) + (tbl_DAY_OF_WEEK_TABLE ((month - (1 : Int))))) + day) % (7 : Int))
  let w := if (w == 0) then (7 : Int) else w
  w
def days_in_year (year : Int) : Int :=
  if (is_leap year) then (366 : Int) else
  (365 : Int)
def day_number (year : Int) (month : Int) (day : Int) : Int :=
  let month := ((month + (9 : Int)) % (12 : Int))
  let year := (year - (month / (10 : Int)))
  (((((((365 : Int) * year) + (year / (4 : Int))) - (year / (100 : Int))) + (year / (400 : Int))) + (((month * (306 : Int)) + (5 : Int)) / (10 : Int))) + (day - (1 : Int)))
end Gen
